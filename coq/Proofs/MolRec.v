(** C04 — proofs about Model/MolRec.v (from_arrays, domain "qm"), composing the C05 and C06 theorems. *)
From Coq Require Import ZArith List Bool String Ascii QArith Qabs Lia Lqa.
Require Import QV.Common.Outcome QV.Model.Nucleus QV.Model.ChgMult QV.Gen.MolConsts QV.Model.MolRec.
Require Import QV.Proofs.NucleusKeys QV.Proofs.Nucleus QV.Proofs.ChgMult.
Import ListNotations.
Open Scope list_scope.
Open Scope Z_scope.

(* ------------------------------------------------------------------------------------------ *)
(** * np.split with Python slice semantics *)

Lemma norm_idx_range n k : 0 <= n -> 0 <= norm_idx n k <= n.
Proof. intro H. unfold norm_idx. destruct (k <? 0) eqn:E; [apply Z.ltb_lt in E | apply Z.ltb_ge in E]; lia. Qed.

Definition nidx {A} (l : list A) (k : Z) : nat := Z.to_nat (norm_idx (Z.of_nat (List.length l)) k).

Lemma nidx_le {A} (l : list A) k : (nidx l k <= List.length l)%nat.
Proof. unfold nidx. pose proof (norm_idx_range (Z.of_nat (List.length l)) k ltac:(lia)). lia. Qed.

Lemma slice_nidx {A} (l : list A) a b : slice l a b = firstn (nidx l b - nidx l a) (skipn (nidx l a) l).
Proof.
  unfold slice, nidx. set (n := Z.of_nat (List.length l)).
  pose proof (norm_idx_range n a ltac:(lia)). pose proof (norm_idx_range n b ltac:(lia)).
  f_equal. lia.
Qed.

Lemma slice_length {A} (l : list A) a b : List.length (slice l a b) = (nidx l b - nidx l a)%nat.
Proof.
  rewrite slice_nidx, firstn_length, skipn_length. pose proof (nidx_le l a). pose proof (nidx_le l b). lia.
Qed.

Lemma nidx_len {A} (l : list A) : nidx l (Z.of_nat (List.length l)) = List.length l.
Proof.
  unfold nidx, norm_idx. destruct (Z.of_nat (List.length l) <? 0) eqn:E; [apply Z.ltb_lt in E; lia|]. lia.
Qed.

Lemma nidx_0 {A} (l : list A) : nidx l 0 = 0%nat.
Proof. unfold nidx, norm_idx. simpl. lia. Qed.

Lemma skipn_skipn {A} (l : list A) a k : skipn k (skipn a l) = skipn (a + k) l.
Proof.
  revert l; induction a as [|a IH]; intro l; simpl; [reflexivity|]. destruct l as [|x l]; [destruct k; reflexivity|]. apply IH.
Qed.

(** the normalised cut points, starting from [start] *)
Fixpoint cuts_ok {A} (l : list A) (start : Z) (seps : list Z) : Prop :=
  match seps with
  | [] => True
  | s :: r => (nidx l start <= nidx l s)%nat /\ cuts_ok l s r
  end.

Lemma split_concat {A} (l : list A) seps : forall start,
  cuts_ok l start seps -> List.concat (split_from l start seps) = skipn (nidx l start) l.
Proof.
  induction seps as [|s r IH]; intros start H; simpl.
  - rewrite app_nil_r, slice_nidx, nidx_len. apply firstn_all2. rewrite skipn_length. lia.
  - destruct H as [H1 H2]. rewrite (IH s H2), slice_nidx.
    replace (skipn (nidx l s) l) with (skipn (nidx l s - nidx l start) (skipn (nidx l start) l)).
    + apply firstn_skipn.
    + rewrite skipn_skipn. f_equal. lia.
Qed.

Lemma split_length {A} (l : list A) seps start : List.length (split_from l start seps) = S (List.length seps).
Proof. revert start; induction seps as [|s r IH]; intro start; simpl; [reflexivity | rewrite IH; reflexivity]. Qed.

Lemma nonempty_cuts {A} (l : list A) seps : forall start,
  Forall (fun p => p <> []) (split_from l start seps) -> cuts_ok l start seps.
Proof.
  induction seps as [|s r IH]; intros start H; simpl; [exact I|].
  simpl in H. inversion H as [|p ps Hp Hps]; subst. split; [|apply IH, Hps].
  assert (L : List.length (slice l start s) <> 0%nat) by (destruct (slice l start s); [congruence | simpl; lia]).
  rewrite slice_length in L. lia.
Qed.

(** np.split: if every piece is non-empty, the pieces are the list cut at strictly increasing points, in order. *)
Theorem split_partition {A} (l : list A) seps :
  Forall (fun p => p <> []) (np_split l seps) -> List.concat (np_split l seps) = l.
Proof.
  intro H. unfold np_split in *. rewrite (split_concat l seps 0 (nonempty_cuts l seps 0 H)), nidx_0. reflexivity.
Qed.

(** ... and the trial split of from_arrays accepts exactly then (or when there are no atoms). *)
Lemma slice_nil {A} a b : slice (@nil A) a b = [].
Proof. apply length_zero_iff_nil. rewrite slice_length. pose proof (nidx_le (@nil A) b). simpl in *. lia. Qed.

Lemma split_of_nil {A} seps start : List.concat (split_from (@nil A) start seps) = [].
Proof.
  revert start; induction seps as [|s r IH]; intro start; simpl.
  - rewrite slice_nil. reflexivity.
  - rewrite IH, slice_nil. reflexivity.
Qed.

(* ------------------------------------------------------------------------------------------ *)
(** * Geometry *)

Lemma triples_flatten_n n : forall g pts, (List.length g <= n)%nat -> triples g = Ok pts -> flatten3 pts = g.
Proof.
  induction n as [|n IH]; intros g pts L H.
  - destruct g; [|simpl in L; lia]. simpl in H. injection H as <-. reflexivity.
  - destruct g as [|x [|y [|z r]]]; simpl in H; try discriminate.
    + injection H as <-. reflexivity.
    + apply obind_ok in H. destruct H as [t [Ht H]]. injection H as <-. simpl. f_equal. f_equal. f_equal.
      apply IH; [simpl in L; lia | exact Ht].
Qed.
Lemma triples_flatten g pts : triples g = Ok pts -> flatten3 pts = g.
Proof. apply (triples_flatten_n (List.length g)). lia. Qed.

Lemma flatten_triples pts : triples (flatten3 pts) = Ok pts.
Proof. induction pts as [|[[x y] z] pts IH]; simpl; [reflexivity|]. rewrite IH. reflexivity. Qed.

Lemma triples_length g pts : triples g = Ok pts -> List.length g = (3 * List.length pts)%nat.
Proof.
  intro H. rewrite <- (triples_flatten _ _ H). clear H. induction pts as [|[[x y] z] pts IH]; simpl; [reflexivity|].
  simpl in IH. lia.
Qed.

(** the pairwise screen: no two points closer than the metric *)
Definition far_apart (metric : Q) (pts : list (Q * Q * Q)) : Prop :=
  forall i j p q, (i < j)%nat -> nth_error pts i = Some p -> nth_error pts j = Some q -> (metric <= dist2 p q)%Q.

Lemma too_close_false metric pts : too_close metric pts = false -> far_apart metric pts.
Proof.
  induction pts as [|p0 pts IH]; intros H i j p q Hij Hp Hq; [destruct i; discriminate|].
  simpl in H. apply orb_false_iff in H. destruct H as [H1 H2].
  destruct i as [|i]; destruct j as [|j]; try lia; simpl in Hp, Hq.
  - injection Hp as <-. apply nth_error_In in Hq.
    pose proof (existsb_false_forall _ _ H1 q Hq) as Hf. cbv beta in Hf. apply Qlt_b_false in Hf. exact Hf.
  - apply (IH H2 i j p q); [lia | assumption | assumption].
Qed.

Lemma too_close_true metric pts : too_close metric pts = true ->
  exists i j p q, (i < j)%nat /\ nth_error pts i = Some p /\ nth_error pts j = Some q /\ (dist2 p q < metric)%Q.
Proof.
  induction pts as [|p0 pts IH]; simpl; [discriminate|]. intro H. apply orb_true_iff in H. destruct H as [H|H].
  - apply existsb_exists in H. destruct H as [q [Hq Hlt]]. apply Qlt_b_true in Hlt.
    apply In_nth_error in Hq. destruct Hq as [j Hj]. exists 0%nat, (S j), p0, q. repeat split; auto. lia.
  - destruct (IH H) as (i & j & p & q & Hij & Hp & Hq & Hlt). exists (S i), (S j), p, q. repeat split; auto. lia.
Qed.

(* ------------------------------------------------------------------------------------------ *)
(** * Opening up from_arrays *)

Record stages (r : raw) (m : molrec) (pts : list (Q * Q * Q)) (ros : list nuc_out) (frc frm : list (option Z)) (cm : cm_out) : Prop := {
  st_nonempty : is_nil (r_geom r) && negb (r_minimal r) = false;
  st_units : units_stage r = Ok (m_units m, m_iutau m, m_conn m);
  st_geom : geometry_stage r = Ok pts;
  st_nuc : nuclei_stage r (List.length pts) = Ok ros;
  st_frag : fragments_stage r (List.length pts) = Ok (m_seps m, frc, frm);
  st_cm : fill (cm_input r ros (m_seps m) frc frm) = Ok cm;
  st_rec : m = {| m_units := m_units m; m_iutau := m_iutau m; m_geom := flatten3 pts;
                  m_elea := map oA ros; m_elez := map oZ ros; m_elem := map oE ros; m_mass := map omass ros;
                  m_real := map oreal ros; m_elbl := map ouser ros;
                  m_seps := m_seps m; m_fchg := ofc cm; m_fmult := ofm cm; m_chg := oc cm; m_mult := om cm;
                  m_fix_com := fst (fst (frame_stage r)); m_fix_orientation := snd (fst (frame_stage r));
                  m_fix_symmetry := snd (frame_stage r); m_conn := m_conn m |}
}.

Lemma from_arrays_stages r m : from_arrays r = Ok m -> exists pts ros frc frm cm, stages r m pts ros frc frm cm.
Proof.
  unfold from_arrays. destruct (is_nil (r_geom r) && negb (r_minimal r)) eqn:E0; [discriminate|]. intro H.
  apply obind_ok in H. destruct H as [[[u iu] conn] [Hu H]].
  apply obind_ok in H. destruct H as [pts [Hg H]].
  apply obind_ok in H. destruct H as [ros [Hn H]].
  apply obind_ok in H. destruct H as [[[seps frc] frm] [Hf H]].
  apply obind_ok in H. destruct H as [cm [Hc H]].
  destruct (frame_stage r) as [[com ori] sym] eqn:Ef. injection H as <-.
  exists pts, ros, frc, frm, cm. constructor; try assumption. rewrite Ef. reflexivity.
Qed.

(* ------------------------------------------------------------------------------------------ *)
(** * Nuclei *)

Lemma atoms_length sl np tol ea : forall ez ee em er el n,
  List.length ea = n -> List.length ez = n -> List.length ee = n -> List.length em = n -> List.length er = n -> List.length el = n ->
  List.length (atoms sl np tol ea ez ee em er el) = n.
Proof.
  induction ea as [|a ea IH]; intros ez ee em er el n H1 H2 H3 H4 H5 H6; simpl in *.
  - destruct ez, ee, em, er, el; simpl; auto.
  - destruct ez as [|z ez], ee as [|e ee], em as [|m em], er as [|r0 er], el as [|l el]; simpl in *; try lia.
    destruct n as [|n]; [lia|]. f_equal. apply IH; lia.
Qed.

Lemma Forall2_length {A B} (R : A -> B -> Prop) l l' : Forall2 R l l' -> List.length l = List.length l'.
Proof. induction 1; simpl; auto. Qed.

Lemma nuclei_stage_ok r n ros : nuclei_stage r n = Ok ros ->
  List.length ros = n /\
  exists ats, List.length ats = n /\ Forall2 (fun i o => reconcile i = Ok o) ats ros /\
    Forall (fun i => nonphysical i = r_nonphysical r /\ mtol i = r_mtol r /\ speclabel i = r_speclabel r) ats.
Proof.
  unfold nuclei_stage.
  set (ea := map minus1_none (column n (r_elea r))). set (ez := column n (r_elez r)). set (ee := column n (r_elem r)).
  set (em := column n (r_mass r)). set (er := column n (r_real r)). set (el := column n (r_elbl r)).
  destruct (_ && _) eqn:E; [|discriminate]. intro H.
  repeat (apply andb_true_iff in E; destruct E as [E ?]).
  repeat match goal with [ Hx : Nat.eqb _ _ = true |- _ ] => apply Nat.eqb_eq in Hx end.
  apply mapM_ok in H. pose proof (Forall2_length _ _ _ H) as L.
  rewrite (atoms_length _ _ _ ea ez ee em er el n) in L by assumption.
  split; [symmetry; exact L|]. eexists. split; [|split; [exact H|]].
  - apply atoms_length; assumption.
  - clear. generalize ea ez ee em er el. clear. induction ea as [|a ea IH]; intros ez ee em er el; simpl.
    + destruct ez, ee, em, er, el; constructor.
    + destruct ez, ee, em, er, el; try constructor; [simpl; auto | apply IH].
Qed.

(* ------------------------------------------------------------------------------------------ *)
(** * Fragments *)

Lemma existsb_nil_false {A} (ps : list (list A)) :
  existsb (fun p => Nat.eqb (List.length p) 0) ps = false -> Forall (fun p => p <> []) ps.
Proof.
  induction ps as [|p ps IH]; simpl; intro H; constructor.
  - apply orb_false_iff in H. destruct H as [H _]. destruct p; [discriminate | congruence].
  - apply IH. apply orb_false_iff in H. apply H.
Qed.

Lemma fragments_stage_ok r n seps frc frm : fragments_stage r n = Ok (seps, frc, frm) ->
  List.length frc = S (List.length seps) /\ List.length frm = S (List.length seps) /\
  (n <> 0%nat -> Forall (fun p => p <> []) (np_split (repeat tt n) seps)) /\
  (r_seps r = None -> seps = [] /\ r_fchg r = None /\ r_fmult r = None) /\
  (forall s, r_seps r = Some s -> seps = s).
Proof.
  unfold fragments_stage. destruct (r_seps r) as [s|] eqn:Es.
  - set (pieces := np_split (repeat tt n) s).
    destruct (existsb _ pieces && negb (Nat.eqb n 0)) eqn:E1; [discriminate|].
    destruct (negb (Nat.eqb _ n)) eqn:E2; [discriminate|].
    destruct (Nat.eqb _ _ && Nat.eqb _ _) eqn:E3; [|discriminate]. intro H. injection H as <- <- <-.
    apply andb_true_iff in E3. destruct E3 as [L1 L2]. apply Nat.eqb_eq in L1. apply Nat.eqb_eq in L2.
    repeat split; auto; try discriminate.
    + intro Hn. apply andb_false_iff in E1. destruct E1 as [E1|E1].
      * apply existsb_nil_false, E1.
      * apply negb_false_iff, Nat.eqb_eq in E1. contradiction.
    + intros s' Hs'. congruence.
  - destruct (r_fchg r), (r_fmult r); try discriminate. intro H. injection H as <- <- <-.
    repeat split; auto; try discriminate.
    intro Hn. unfold np_split. simpl. constructor; [|constructor].
    intro E. apply (f_equal (@List.length unit)) in E. rewrite slice_length, nidx_0, nidx_len, repeat_length in E. simpl in E. lia.
Qed.

Lemma np_split_map {A B} (f : A -> B) (l : list A) seps start :
  split_from (map f l) start seps = map (map f) (split_from l start seps).
Proof.
  assert (S : forall a b, slice (map f l) a b = map f (slice l a b)).
  { intros a b. unfold slice. rewrite map_length, skipn_map, firstn_map. reflexivity. }
  revert start; induction seps as [|s r IH]; intro start; simpl.
  - rewrite S, map_length. reflexivity.
  - rewrite S, IH. reflexivity.
Qed.

(* ------------------------------------------------------------------------------------------ *)
(** * Well-formedness of every accepted record *)

Definition atom_ok (r : raw) (o : nuc_out) : Prop :=
  to_E_int (oZ o) = Ok (oE o) /\
  nuclide_ok (oE o) (r_mtol r) (oA o) (omass o) /\
  (r_nonphysical r = false ->
     exists lo hi, mass_range (oE o) = Some (lo, hi) /\ (lo - (1 # 2) <= omass o <= hi + (1 # 2))%Q).

Record WF (r : raw) (m : molrec) (pts : list (Q * Q * Q)) (ros : list nuc_out) (ats : list nuc_in) : Prop := {
  (* geometry: three coordinates per atom, unchanged *)
  wf_geom : m_geom m = r_geom r /\ triples (m_geom m) = Ok pts /\ List.length (m_geom m) = (3 * List.length pts)%nat;
  (* every per-atom column is present with one entry per atom *)
  wf_cols : m_elea m = map oA ros /\ m_elez m = map oZ ros /\ m_elem m = map oE ros /\ m_mass m = map omass ros /\
            m_real m = map oreal ros /\ m_elbl m = map ouser ros /\ List.length ros = List.length pts;
  (* each atom is the sound reconciliation of its clues (C06), hence table-consistent *)
  wf_atoms : List.length ats = List.length pts /\ Forall2 Sound ats ros /\ Forall (atom_ok r) ros;
  (* no two atoms closer than tooclose *)
  wf_far : far_apart (r_tooclose r * r_tooclose r)%Q pts;
  (* the fragments partition the atoms in order *)
  wf_frag : List.concat (np_split (seq 0 (List.length pts)) (m_seps m)) = seq 0 (List.length pts) /\
            (List.length pts <> 0%nat -> Forall (fun p => p <> []) (np_split (seq 0 (List.length pts)) (m_seps m)));
  (* charges and multiplicities: one per fragment, total = sum, every (z, c, m) feasible (C05) *)
  wf_cm : exists i, felez i = np_split (zeff ros) (m_seps m) /\ ic i = r_chg r /\ im i = r_mult r /\ zgf i = r_zgf r /\ wf_in i /\
                    Spec (adjust i) {| oc := m_chg m; ofc := m_fchg m; om := m_mult m; ofm := m_fmult m |};
  (* units and frame *)
  wf_units : m_units m = "Angstrom"%string \/ m_units m = "Bohr"%string
}.

Lemma slice_length_eq {A B} (l : list A) (l' : list B) a b :
  List.length l = List.length l' -> List.length (slice l a b) = List.length (slice l' a b).
Proof. intro L. rewrite !slice_length. unfold nidx. rewrite L. reflexivity. Qed.

Lemma split_lengths_eq {A B} (l : list A) (l' : list B) seps : List.length l = List.length l' ->
  forall start, map (@List.length A) (split_from l start seps) = map (@List.length B) (split_from l' start seps).
Proof.
  intro L. induction seps as [|s r IH]; intro start; simpl.
  - rewrite L. f_equal. apply slice_length_eq, L.
  - f_equal; [apply slice_length_eq, L | apply IH].
Qed.

Lemma nonempty_by_length {A} (ps : list (list A)) : Forall (fun p => p <> []) ps <-> Forall (fun n => n <> 0%nat) (map (@List.length A) ps).
Proof.
  induction ps as [|p ps IH]; simpl; split; intro H; constructor; inversion H; subst.
  - destruct p; [congruence | simpl; lia].
  - apply IH; assumption.
  - destruct p; [simpl in *; congruence | congruence].
  - apply IH; assumption.
Qed.

Lemma split_nonempty_transfer {A B} (l : list A) (l' : list B) seps :
  List.length l = List.length l' ->
  Forall (fun p => p <> []) (np_split l seps) -> Forall (fun p => p <> []) (np_split l' seps).
Proof.
  intros L H. unfold np_split in *. apply nonempty_by_length. rewrite <- (split_lengths_eq l l' seps L 0).
  apply nonempty_by_length, H.
Qed.

Theorem accepted_invariants r m : from_arrays r = Ok m -> exists pts ros ats, WF r m pts ros ats.
Proof.
  intro H. destruct (from_arrays_stages _ _ H) as (pts & ros & frc & frm & cm & S).
  pose proof (st_rec _ _ _ _ _ _ _ S) as Em.
  pose proof (st_geom _ _ _ _ _ _ _ S) as Hg. unfold geometry_stage in Hg.
  apply obind_ok in Hg. destruct Hg as [pts' [Ht Hg]].
  destruct (too_close _ pts') eqn:Etc; [discriminate|]. injection Hg as ->.
  destruct (nuclei_stage_ok _ _ _ (st_nuc _ _ _ _ _ _ _ S)) as [Lr (ats & La & Hrec & Hset)].
  destruct (fragments_stage_ok _ _ _ _ _ (st_frag _ _ _ _ _ _ _ S)) as (Lc & Lm & Hne & _ & _).
  exists pts, ros, ats.
  assert (Hgeom : m_geom m = r_geom r) by (rewrite Em; simpl; apply triples_flatten, Ht).
  constructor.
  - split; [exact Hgeom|]. rewrite Hgeom. split; [exact Ht | apply triples_length, Ht].
  - rewrite Em. simpl. repeat split; auto.
  - split; [exact La|]. split.
    + clear - Hrec. induction Hrec; constructor; [apply reconcile_sound; assumption | assumption].
    + clear - Hrec Hset. induction Hrec as [|i o ats ros Hio _ IH]; constructor.
      * inversion Hset as [|? ? [Hnp [Hmt _]] _]; subst.
        destruct (reconcile_run _ _ Hio) as (lbl & info & zi & ci & R).
        split; [exact (r_E _ _ _ _ _ _ R)|]. split.
        -- rewrite <- Hmt. exact (run_nuclide _ _ _ _ _ _ R).
        -- intro Hp. destruct (run_range _ _ _ _ _ _ R) as [Hr _]. apply Hr. congruence.
      * apply IH. inversion Hset; assumption.
  - apply too_close_false, Etc.
  - assert (Ls : List.length (repeat tt (List.length pts)) = List.length (seq 0 (List.length pts))) by (rewrite repeat_length, seq_length; reflexivity).
    destruct (Nat.eq_dec (List.length pts) 0) as [Z0|NZ].
    + rewrite Z0. simpl. split; [apply split_of_nil | intro C; congruence].
    + pose proof (split_nonempty_transfer _ (seq 0 (List.length pts)) _ Ls (Hne NZ)) as Hs.
      split; [apply split_partition, Hs | intros _; exact Hs].
  - exists (cm_input r ros (m_seps m) frc frm). unfold cm_input; simpl.
    assert (W : wf_in (cm_input r ros (m_seps m) frc frm)).
    { unfold wf_in, cm_input; simpl. unfold np_split. rewrite split_length. split; assumption. }
    split; [reflexivity|]. split; [reflexivity|]. split; [reflexivity|]. split; [reflexivity|]. split; [exact W|].
    pose proof (fill_sound _ _ W (st_cm _ _ _ _ _ _ _ S)) as Sp.
    rewrite Em. simpl. destruct cm. exact Sp.
  - pose proof (st_units _ _ _ _ _ _ _ S) as Hu. unfold units_stage in Hu.
    apply obind_ok in Hu. destruct Hu as [conn [_ Hu]].
    destruct (String.eqb (capitalize (r_units r)) "Angstrom") eqn:EA.
    + apply String.eqb_eq in EA. simpl in Hu. destruct (r_iutau r); [destruct (Qlt_b _ _); [|discriminate]|]; injection Hu as <- _ _; left; exact EA.
    + destruct (String.eqb (capitalize (r_units r)) "Bohr") eqn:EB; [|discriminate].
      apply String.eqb_eq in EB. simpl in Hu. destruct (r_iutau r); [destruct (Qlt_b _ _); [|discriminate]|]; injection Hu as <- _ _; right; exact EB.
Qed.

(* ------------------------------------------------------------------------------------------ *)
(** * Refusals: one lemma per malformation *)

Definition atoms_of (r : raw) (n : nat) : list nuc_in :=
  atoms (r_speclabel r) (r_nonphysical r) (r_mtol r) (map minus1_none (column n (r_elea r))) (column n (r_elez r))
        (column n (r_elem r)) (column n (r_mass r)) (column n (r_real r)) (column n (r_elbl r)).

Lemma rejects_no_geometry r : r_geom r = [] -> r_minimal r = false -> from_arrays r = Err Validation.
Proof. intros Hg Hm. unfold from_arrays. rewrite Hg, Hm. reflexivity. Qed.

Lemma accepted_geom r m : from_arrays r = Ok m ->
  exists pts, triples (r_geom r) = Ok pts /\ too_close (r_tooclose r * r_tooclose r)%Q pts = false /\
              exists ros, nuclei_stage r (List.length pts) = Ok ros /\
              exists frc frm, fragments_stage r (List.length pts) = Ok (m_seps m, frc, frm).
Proof.
  intro H. destruct (from_arrays_stages _ _ H) as (pts & ros & frc & frm & cm & S).
  pose proof (st_geom _ _ _ _ _ _ _ S) as Hg. unfold geometry_stage in Hg.
  apply obind_ok in Hg. destruct Hg as [pts' [Ht Hg]].
  destruct (too_close _ pts') eqn:Etc; [discriminate|]. injection Hg as ->.
  exists pts. split; [exact Ht|]. split; [exact Etc|]. exists ros. split; [exact (st_nuc _ _ _ _ _ _ _ S)|].
  exists frc, frm. exact (st_frag _ _ _ _ _ _ _ S).
Qed.

Lemma rejects_too_close r pts i j p q :
  triples (r_geom r) = Ok pts -> (i < j)%nat -> nth_error pts i = Some p -> nth_error pts j = Some q ->
  (dist2 p q < r_tooclose r * r_tooclose r)%Q -> forall m, from_arrays r <> Ok m.
Proof.
  intros Ht Hij Hp Hq Hlt m H. destruct (accepted_geom _ _ H) as (pts' & Ht' & Hc & _).
  assert (pts' = pts) by congruence. subst pts'.
  pose proof (too_close_false _ _ Hc i j p q Hij Hp Hq) as Hle. apply (Qlt_not_le _ _ Hlt Hle).
Qed.

Definition column_given {A} (c : option (list (option A))) (n : nat) : Prop :=
  match c with Some l => List.length l = n | None => True end.

Lemma column_length {A} n (c : option (list (option A))) : List.length (column n c) = n -> column_given c n.
Proof. destruct c; simpl; auto. Qed.

(** a supplied per-atom column of the wrong length is refused *)
Lemma rejects_column_length r pts :
  triples (r_geom r) = Ok pts ->
  ~ (column_given (r_elea r) (List.length pts) /\ column_given (r_elez r) (List.length pts) /\
     column_given (r_elem r) (List.length pts) /\ column_given (r_mass r) (List.length pts) /\
     column_given (r_real r) (List.length pts) /\ column_given (r_elbl r) (List.length pts)) ->
  forall m, from_arrays r <> Ok m.
Proof.
  intros Ht Hbad m H. destruct (accepted_geom _ _ H) as (pts' & Ht' & _ & ros & Hn & _).
  assert (pts' = pts) by congruence. subst pts'. apply Hbad. unfold nuclei_stage in Hn.
  destruct (_ && _) eqn:E; [|discriminate].
  repeat (apply andb_true_iff in E; destruct E as [E ?]).
  repeat match goal with [ Hx : Nat.eqb _ _ = true |- _ ] => apply Nat.eqb_eq in Hx end.
  rewrite map_length in E. repeat split; apply column_length; assumption.
Qed.

Lemma rejects_unknown_units r :
  capitalize (r_units r) <> "Angstrom"%string -> capitalize (r_units r) <> "Bohr"%string -> forall m, from_arrays r <> Ok m.
Proof.
  intros HA HB m H. destruct (from_arrays_stages _ _ H) as (pts & ros & frc & frm & cm & S).
  pose proof (st_units _ _ _ _ _ _ _ S) as Hu. unfold units_stage in Hu.
  apply obind_ok in Hu. destruct Hu as [conn [_ Hu]].
  apply String.eqb_neq in HA. apply String.eqb_neq in HB. rewrite HA, HB in Hu. discriminate.
Qed.

Lemma rejects_units_factor r x :
  r_iutau r = Some x ->
  ~ (Qabs (x - (if String.eqb (capitalize (r_units r)) "Bohr" then 1 else 1 / bohr2angstroms)) < iutau_window)%Q ->
  forall m, from_arrays r <> Ok m.
Proof.
  intros Hx Hfar m H. destruct (from_arrays_stages _ _ H) as (pts & ros & frc & frm & cm & S).
  pose proof (st_units _ _ _ _ _ _ _ S) as Hu. unfold units_stage in Hu.
  apply obind_ok in Hu. destruct Hu as [conn [_ Hu]].
  destruct (_ || _); [|discriminate]. rewrite Hx in Hu.
  destruct (Qlt_b _ iutau_window) eqn:E; [|discriminate]. apply Qlt_b_true in E. apply Hfar, E.
Qed.

(** empty, duplicate, unsorted or out-of-range separators all produce an empty piece in the trial split *)
Lemma rejects_bad_split r pts seps :
  triples (r_geom r) = Ok pts -> pts <> [] -> r_seps r = Some seps ->
  ~ Forall (fun p => p <> []) (np_split (repeat tt (List.length pts)) seps) -> forall m, from_arrays r <> Ok m.
Proof.
  intros Ht Hne Hs Hbad m H. destruct (accepted_geom _ _ H) as (pts' & Ht' & _ & ros & _ & frc & frm & Hf).
  assert (pts' = pts) by congruence. subst pts'.
  destruct (fragments_stage_ok _ _ _ _ _ Hf) as (_ & _ & Hp & _ & Hsome).
  rewrite (Hsome _ Hs) in Hp. apply Hbad, Hp. destruct pts; [congruence | simpl; lia].
Qed.

Lemma rejects_fragment_lengths r pts seps :
  triples (r_geom r) = Ok pts -> r_seps r = Some seps ->
  (exists l, r_fchg r = Some l /\ List.length l <> S (List.length seps)) \/
  (exists l, r_fmult r = Some l /\ List.length l <> S (List.length seps)) ->
  forall m, from_arrays r <> Ok m.
Proof.
  intros Ht Hs Hbad m H. destruct (accepted_geom _ _ H) as (pts' & Ht' & _ & ros & _ & frc & frm & Hf).
  assert (pts' = pts) by congruence. subst pts'. unfold fragments_stage in Hf. rewrite Hs in Hf.
  destruct (_ && negb _); [discriminate|]. destruct (negb _); [discriminate|].
  destruct (Nat.eqb _ _ && Nat.eqb _ _) eqn:E; [|discriminate].
  apply andb_true_iff in E. destruct E as [E1 E2]. apply Nat.eqb_eq in E1. apply Nat.eqb_eq in E2.
  destruct Hbad as [[l [Hl Hn]]|[l [Hl Hn]]]; rewrite Hl in *; contradiction.
Qed.

Lemma rejects_fragment_data_without_separators r :
  r_seps r = None -> (r_fchg r <> None \/ r_fmult r <> None) -> forall m, from_arrays r <> Ok m.
Proof.
  intros Hs Hbad m H. destruct (accepted_geom _ _ H) as (pts & _ & _ & ros & _ & frc & frm & Hf).
  destruct (fragments_stage_ok _ _ _ _ _ Hf) as (_ & _ & _ & Hnone & _).
  destruct (Hnone Hs) as (_ & H1 & H2). destruct Hbad; contradiction.
Qed.

(** contradictory nuclear data on any atom (C06's contradiction forms) *)
Lemma rejects_conflicting_nuclear_data r pts i :
  triples (r_geom r) = Ok pts -> In i (atoms_of r (List.length pts)) -> Contradiction i -> forall m, from_arrays r <> Ok m.
Proof.
  intros Ht Hin K m H. destruct (accepted_geom _ _ H) as (pts' & Ht' & _ & ros & Hn & _).
  assert (pts' = pts) by congruence. subst pts'. unfold nuclei_stage in Hn.
  destruct (_ && _); [|discriminate]. apply mapM_ok in Hn.
  destruct (Forall2_in_l _ _ _ _ Hn Hin) as [o [_ Ho]]. exact (contradiction_refused _ K _ Ho).
Qed.

(* ------------------------------------------------------------------------------------------ *)
(** * Which errors can be raised *)

Lemma units_err r k : units_stage r = Err k -> k = Validation.
Proof.
  unfold units_stage. destruct (r_conn r) as [l|]; cbn [obind].
  - destruct (mapM conn_entry l) as [c|k'] eqn:Ec; cbn [obind].
    + destruct (_ || _); [|congruence]. destruct (r_iutau r); [destruct (Qlt_b _ _)|]; congruence.
    + intro H. injection H as <-. revert k' Ec. induction l as [|e l IH]; intros k' Ec; simpl in Ec; [discriminate|].
      destruct (conn_entry e) as [y|ke] eqn:Ee; simpl in Ec.
      * destruct (mapM conn_entry l) eqn:El; simpl in Ec; [discriminate|]. injection Ec as <-. apply (IH _ eq_refl).
      * injection Ec as <-. unfold conn_entry in Ee. destruct e as [[a1 a2] bo].
        destruct (a1 <? 0); [congruence|]. destruct (a2 <? 0); [congruence|]. destruct (_ || _); congruence.
  - destruct (_ || _); [|congruence]. destruct (r_iutau r); [destruct (Qlt_b _ _)|]; congruence.
Qed.

Lemma triples_total n : forall g, List.length g = (3 * n)%nat -> exists p, triples g = Ok p.
Proof.
  induction n as [|n IH]; intros g L.
  - destruct g; [eexists; reflexivity | simpl in L; lia].
  - destruct g as [|x [|y [|z r0]]]; simpl in L; try lia.
    destruct (IH r0 ltac:(lia)) as [p Hp]. simpl. rewrite Hp. eexists. reflexivity.
Qed.

Lemma triples_err g k : triples g = Err k -> k = Validation /\ (List.length g mod 3 <> 0)%nat.
Proof.
  intro H. split.
  - assert (G : forall n g0 k0, (List.length g0 <= n)%nat -> triples g0 = Err k0 -> k0 = Validation).
    { induction n as [|n IH]; intros g0 k0 L E.
      - destruct g0; [discriminate | simpl in L; lia].
      - destruct g0 as [|x [|y [|z r0]]]; simpl in E; try congruence.
        destruct (triples r0) as [t|k1] eqn:Et; simpl in E; [discriminate|]. injection E as <-.
        apply (IH r0 k1); [simpl in L; lia | exact Et]. }
    apply (G (List.length g) g k (le_n _) H).
  - intro M. apply Nat.div_exact in M; [|discriminate]. destruct (triples_total _ g M) as [p Hp]. congruence.
Qed.

(** a geometry whose length is not a multiple of three is refused with ValidationError (repaired 7b49268;
    it used to escape as numpy's ValueError) *)
Lemma rejects_geom_not_3n r : (List.length (r_geom r) mod 3 <> 0)%nat -> from_arrays r = Err Validation.
Proof.
  intro Hn. unfold from_arrays. destruct (_ && negb _); [reflexivity|].
  destruct (units_stage r) as [[[u iu] conn]|k] eqn:Eu; [|cbn [obind]; rewrite (units_err _ _ Eu); reflexivity].
  cbn [obind]. unfold geometry_stage. destruct (triples (r_geom r)) as [pts|k] eqn:Et.
  - exfalso. apply Hn. rewrite (triples_length _ _ Et), Nat.mul_comm. apply Nat.mod_mul. discriminate.
  - cbn [obind]. destruct (triples_err _ _ Et) as [-> _]. reflexivity.
Qed.

(** from_arrays raises ValidationError or NotAnElementError and nothing else. *)
Theorem from_arrays_errors r : closed (from_arrays r).
Proof.
  unfold from_arrays. destruct (_ && negb _); [left; reflexivity|].
  destruct (units_stage r) as [[[u iu] conn]|k] eqn:Eu; [|cbn [obind]; left; apply (units_err _ _ Eu)].
  cbn [obind]. unfold geometry_stage.
  destruct (triples (r_geom r)) as [pts|k] eqn:Et; [|cbn [obind]; left; apply (triples_err _ _ Et)].
  cbn [obind]. destruct (too_close _ pts); [left; reflexivity|]. cbn [obind].
  apply closed_obind.
  - unfold nuclei_stage. destruct (_ && _); [|left; reflexivity]. apply closed_mapM. intro x. apply reconcile_closed.
  - intros ros _. apply closed_obind.
    + unfold fragments_stage. destruct (r_seps r).
      * destruct (_ && negb _); [left; reflexivity|]. destruct (negb _); [left; reflexivity|].
        destruct (_ && _); [exact I | left; reflexivity].
      * destruct (r_fchg r), (r_fmult r); simpl; auto.
    + intros [[seps frc] frm] _. apply closed_obind.
      * destruct (fill_fails_closed (cm_input r ros seps frc frm)) as [E|[x E]]; rewrite E; simpl; auto.
      * intros cm _. destruct (frame_stage r) as [[? ?] ?]. exact I.
Qed.

(* ------------------------------------------------------------------------------------------ *)
(** * Sorting (connectivity canonical form) *)

Section Sort.
  Variable A : Type.
  Variable leb : A -> A -> bool.
  Hypothesis leb_total : forall x y, leb x y = false -> leb y x = true.

  Inductive sorted : list A -> Prop :=
  | s_nil : sorted []
  | s_one x : sorted [x]
  | s_cons x y l : leb x y = true -> sorted (y :: l) -> sorted (x :: y :: l).

  Lemma insert_sorted x l : sorted l -> sorted (insert_by leb x l).
  Proof.
    induction 1 as [|y|y z l Hyz Hs IH]; simpl.
    - constructor.
    - destruct (leb x y) eqn:E; [constructor; [exact E | constructor] | constructor; [apply leb_total, E | constructor]].
    - destruct (leb x y) eqn:E; [constructor; [exact E | constructor; assumption]|].
      simpl in IH. destruct (leb x z) eqn:E2.
      + constructor; [apply leb_total, E | exact IH].
      + constructor; [exact Hyz | exact IH].
  Qed.

  Lemma sort_sorted l : sorted (sort_by leb l).
  Proof. induction l as [|x l IH]; simpl; [constructor | apply insert_sorted, IH]. Qed.

  Lemma sort_of_sorted l : sorted l -> sort_by leb l = l.
  Proof.
    induction 1 as [|y|y z l Hyz Hs IH]; simpl; try reflexivity.
    simpl in IH. rewrite IH. simpl. rewrite Hyz. reflexivity.
  Qed.

  Lemma in_insert x y l : In y (insert_by leb x l) <-> y = x \/ In y l.
  Proof.
    induction l as [|z l IH]; simpl; [intuition|]. destruct (leb x z); simpl; [intuition|]. rewrite IH. intuition.
  Qed.

  Lemma in_sort y l : In y (sort_by leb l) <-> In y l.
  Proof. induction l as [|x l IH]; simpl; [reflexivity|]. rewrite in_insert, IH. intuition. Qed.
End Sort.

Lemma conn_leb_total x y : conn_leb x y = false -> conn_leb y x = true.
Proof.
  destruct x as [[a1 a2] b], y as [[c1 c2] d]. unfold conn_leb.
  destruct (a1 <? c1) eqn:E1; [discriminate|]. destruct (c1 <? a1) eqn:E2; [reflexivity|].
  destruct (a2 <? c2) eqn:E3; [discriminate|]. destruct (c2 <? a2) eqn:E4; [reflexivity|].
  intro H. apply Qle_bool_iff. apply Qlt_le_weak. apply Qnot_le_lt. intro L. apply Qle_bool_iff in L. congruence.
Qed.

Lemma mapM_id {A} (f : A -> outcome A) l : (forall y, In y l -> f y = Ok y) -> mapM f l = Ok l.
Proof.
  induction l as [|x l IH]; intro H; simpl; [reflexivity|].
  rewrite (H x (or_introl eq_refl)). simpl. rewrite IH; [reflexivity|]. intros y Hy. apply H. right. exact Hy.
Qed.

Lemma conn_entry_canon e y : conn_entry e = Ok y -> conn_entry y = Ok y.
Proof.
  destruct e as [[a1 a2] bo]. unfold conn_entry.
  destruct (a1 <? 0) eqn:E1; [discriminate|]. destruct (a2 <? 0) eqn:E2; [discriminate|].
  destruct (_ || _) eqn:E3; [discriminate|]. intro H. injection H as <-.
  apply Z.ltb_ge in E1. apply Z.ltb_ge in E2.
  replace (Z.min a1 a2 <? 0) with false by (symmetry; apply Z.ltb_ge; lia).
  replace (Z.max a1 a2 <? 0) with false by (symmetry; apply Z.ltb_ge; lia). rewrite E3.
  f_equal. f_equal. f_equal; lia.
Qed.

(* ------------------------------------------------------------------------------------------ *)
(** * Feeding an accepted record back *)

Record molrec_equiv (a b : molrec) : Prop := {
  e_units : m_units a = m_units b; e_iutau : m_iutau a = m_iutau b; e_geom : m_geom a = m_geom b;
  e_elea : m_elea a = m_elea b; e_elez : m_elez a = m_elez b; e_elem : m_elem a = m_elem b;
  e_mass : Forall2 Qeq (m_mass a) (m_mass b);
  e_real : m_real a = m_real b; e_elbl : m_elbl a = m_elbl b; e_seps : m_seps a = m_seps b;
  e_fchg : m_fchg a = m_fchg b; e_fmult : m_fmult a = m_fmult b; e_chg : m_chg a = m_chg b; e_mult : m_mult a = m_mult b;
  e_com : m_fix_com a = m_fix_com b; e_ori : m_fix_orientation a = m_fix_orientation b;
  e_sym : m_fix_symmetry a = m_fix_symmetry b; e_conn : m_conn a = m_conn b }.

Lemma units_again r m u iu conn :
  units_stage r = Ok (u, iu, conn) -> m_units m = u -> m_iutau m = iu -> m_conn m = conn ->
  units_stage (as_raw r m) = Ok (u, iu, conn).
Proof.
  intros H Eu Ei Ec. unfold units_stage in *. unfold as_raw; cbn [r_conn r_units r_iutau]. rewrite Eu, Ei, Ec.
  apply obind_ok in H. destruct H as [conn0 [Hc H]].
  assert (Hu : (capitalize (r_units r) = "Angstrom"%string \/ capitalize (r_units r) = "Bohr"%string) /\ u = capitalize (r_units r) /\ conn0 = conn /\ iu = r_iutau r).
  { destruct (String.eqb (capitalize (r_units r)) "Angstrom") eqn:EA; [|destruct (String.eqb (capitalize (r_units r)) "Bohr") eqn:EB; [|discriminate]]; simpl in H;
      (destruct (r_iutau r); [destruct (Qlt_b _ _); [|discriminate]|]); injection H as <- <- <-;
      (split; [|repeat split; reflexivity]); [left; apply String.eqb_eq, EA | left; apply String.eqb_eq, EA | right; apply String.eqb_eq, EB | right; apply String.eqb_eq, EB]. }
  destruct Hu as (Hcases & -> & -> & ->).
  assert (Hcap : capitalize (capitalize (r_units r)) = capitalize (r_units r)) by (destruct Hcases as [-> | ->]; reflexivity).
  rewrite Hcap.
  assert (Hconn : match conn with
                  | None => Ok None
                  | Some l => obind (mapM conn_entry l) (fun c => Ok (Some (sort_by conn_leb c)))
                  end = Ok conn).
  { destruct (r_conn r) as [l|]; simpl in Hc.
    - apply obind_ok in Hc. destruct Hc as [c0 [Hm Hc]]. injection Hc as <-.
      rewrite (mapM_id conn_entry).
      + simpl. rewrite (sort_of_sorted _ conn_leb); [reflexivity|]. apply sort_sorted, conn_leb_total.
      + intros y Hy. apply in_sort in Hy. apply mapM_ok in Hm.
        destruct (Forall2_in_r _ _ _ _ Hm Hy) as [e [_ He]]. apply (conn_entry_canon _ _ He).
    - injection Hc as <-. reflexivity. }
  rewrite Hconn. cbn [obind]. exact H.
Qed.

Definition fb (np : bool) (tol : Q) (o : nuc_out) : nuc_in :=
  {| nA := if oA o =? -1 then None else Some (oA o); nZ := Some (oZ o); nE := Some (oE o); nmass := Some (omass o);
     nreal := Some (oreal o); nlabel := Some (ouser o); speclabel := false; nonphysical := np; mtol := tol |}.

Lemma atoms_fb np tol ros :
  atoms false np tol (map minus1_none (map Some (map oA ros))) (map Some (map oZ ros)) (map Some (map oE ros))
        (map Some (map omass ros)) (map Some (map oreal ros)) (map Some (map ouser ros)) = map (fb np tol) ros.
Proof. induction ros as [|o ros IH]; simpl; [reflexivity|]. rewrite IH. reflexivity. Qed.

Lemma nuclei_again np tol ats ros :
  (0 <= tol)%Q -> (tol <= 1 # 4)%Q ->
  Forall2 (fun i o => reconcile i = Ok o) ats ros ->
  Forall (fun i => nonphysical i = np /\ mtol i = tol) ats ->
  exists ros', mapM reconcile (map (fb np tol) ros) = Ok ros' /\ Forall2 out_equiv ros' ros.
Proof.
  intros T0 T4 H. induction H as [|i o ats ros Hio _ IH]; intro Hs.
  - exists []. split; [reflexivity | constructor].
  - inversion Hs as [|? ? [Hnp Hmt] Hs']; subst.
    destruct (IH Hs') as [ros' [Hm Hq]].
    destruct (feedback_fixed_point i o Hio T0 T4) as [o' [Ho' Heq]].
    exists (o' :: ros'). split; [|constructor; assumption].
    simpl. change (fb (nonphysical i) (mtol i) o) with (feedback i o). rewrite Ho'. simpl. rewrite Hm. reflexivity.
Qed.

Lemma equiv_maps ros' ros : Forall2 out_equiv ros' ros ->
  map oA ros' = map oA ros /\ map oZ ros' = map oZ ros /\ map oE ros' = map oE ros /\ Forall2 Qeq (map omass ros') (map omass ros) /\
  map oreal ros' = map oreal ros /\ map ouser ros' = map ouser ros /\ zeff ros' = zeff ros /\ List.length ros' = List.length ros.
Proof.
  induction 1 as [|a b l l' Hab _ IH]; simpl; [repeat split; constructor|].
  destruct IH as (I1 & I2 & I3 & I4 & I5 & I6 & I7 & I8). destruct Hab as [HA HZ HE HM HR HU].
  unfold zeff in *. simpl. repeat split; try (f_equal; assumption); try (constructor; assumption).
  rewrite HR, HZ. f_equal. exact I7.
Qed.

Definition frag_checks (n : nat) (seps : list Z) : bool :=
  negb (existsb (fun p => Nat.eqb (List.length p) 0) (np_split (repeat tt n) seps) && negb (Nat.eqb n 0))
  && Nat.eqb (fold_right Nat.add 0%nat (map (@List.length unit) (np_split (repeat tt n) seps))) n.

Lemma fragments_checks r n seps frc frm : fragments_stage r n = Ok (seps, frc, frm) -> frag_checks n seps = true.
Proof.
  unfold fragments_stage, frag_checks. destruct (r_seps r) as [s|].
  - destruct (existsb _ _ && negb (Nat.eqb n 0)) eqn:E1; [discriminate|].
    destruct (negb (Nat.eqb _ n)) eqn:E2; [discriminate|].
    destruct (Nat.eqb _ _ && Nat.eqb _ _); [|discriminate]. intro H. injection H as <- _ _.
    rewrite E1. apply negb_false_iff in E2. rewrite E2. reflexivity.
  - destruct (r_fchg r), (r_fmult r); try discriminate. intro H. injection H as <- _ _.
    unfold np_split. cbn [split_from existsb map fold_right].
    assert (L : List.length (slice (repeat tt n) 0 (Z.of_nat (List.length (repeat tt n)))) = n).
    { rewrite slice_length, nidx_0, nidx_len, repeat_length. lia. }
    rewrite L. rewrite Nat.add_0_r, Nat.eqb_refl, orb_false_r. destruct (Nat.eqb n 0); reflexivity.
Qed.

Lemma from_arrays_intro r u iu conn pts ros seps frc frm cm com ori sym :
  is_nil (r_geom r) && negb (r_minimal r) = false ->
  units_stage r = Ok (u, iu, conn) -> geometry_stage r = Ok pts -> nuclei_stage r (List.length pts) = Ok ros ->
  fragments_stage r (List.length pts) = Ok (seps, frc, frm) -> fill (cm_input r ros seps frc frm) = Ok cm ->
  frame_stage r = (com, ori, sym) ->
  from_arrays r = Ok {| m_units := u; m_iutau := iu; m_geom := flatten3 pts;
        m_elea := map oA ros; m_elez := map oZ ros; m_elem := map oE ros; m_mass := map omass ros;
        m_real := map oreal ros; m_elbl := map ouser ros;
        m_seps := seps; m_fchg := ofc cm; m_fmult := ofm cm; m_chg := oc cm; m_mult := om cm;
        m_fix_com := com; m_fix_orientation := ori; m_fix_symmetry := sym; m_conn := conn |}.
Proof.
  intros H0 H1 H2 H3 H4 H5 H6. unfold from_arrays. rewrite H0, H1. cbn [obind]. rewrite H2. cbn [obind].
  rewrite H3. cbn [obind]. rewrite H4. cbn [obind]. rewrite H5. cbn [obind]. rewrite H6. reflexivity.
Qed.

(** A record accepted by from_arrays, fed back with the same processing settings (labels as user tags), is
    accepted again and reproduced (masses up to equality of rationals), for tolerances 0 <= mtol <= 1/4. *)
Theorem idempotent r m :
  from_arrays r = Ok m -> (0 <= r_mtol r)%Q -> (r_mtol r <= 1 # 4)%Q ->
  exists m', from_arrays (as_raw r m) = Ok m' /\ molrec_equiv m' m.
Proof.
  intros H T0 T4. destruct (from_arrays_stages _ _ H) as (pts & ros & frc & frm & cm & Stg).
  pose proof (st_rec _ _ _ _ _ _ _ Stg) as Em.
  assert (Egeom : m_geom m = flatten3 pts) by (rewrite Em; reflexivity).
  assert (Eelea : m_elea m = map oA ros) by (rewrite Em; reflexivity).
  assert (Eelez : m_elez m = map oZ ros) by (rewrite Em; reflexivity).
  assert (Eelem : m_elem m = map oE ros) by (rewrite Em; reflexivity).
  assert (Emass : m_mass m = map omass ros) by (rewrite Em; reflexivity).
  assert (Ereal : m_real m = map oreal ros) by (rewrite Em; reflexivity).
  assert (Eelbl : m_elbl m = map ouser ros) by (rewrite Em; reflexivity).
  assert (Efchg : m_fchg m = ofc cm) by (rewrite Em; reflexivity).
  assert (Efmult : m_fmult m = ofm cm) by (rewrite Em; reflexivity).
  assert (Echg : m_chg m = oc cm) by (rewrite Em; reflexivity).
  assert (Emult : m_mult m = om cm) by (rewrite Em; reflexivity).
  assert (Ecom : m_fix_com m = fst (fst (frame_stage r))) by (rewrite Em; reflexivity).
  assert (Eori : m_fix_orientation m = snd (fst (frame_stage r))) by (rewrite Em; reflexivity).
  assert (Esym : m_fix_symmetry m = snd (frame_stage r)) by (rewrite Em; reflexivity).
  clear Em.
  (* geometry *)
  pose proof (st_geom _ _ _ _ _ _ _ Stg) as Hg. unfold geometry_stage in Hg.
  apply obind_ok in Hg. destruct Hg as [pts' [Ht Hg]].
  destruct (too_close _ pts') eqn:Etc; [discriminate|]. injection Hg as ->.
  assert (G2 : geometry_stage (as_raw r m) = Ok pts).
  { unfold geometry_stage, as_raw; cbn [r_geom r_tooclose]. rewrite Egeom, flatten_triples. cbn [obind].
    rewrite Etc. reflexivity. }
  (* units *)
  pose proof (units_again r m _ _ _ (st_units _ _ _ _ _ _ _ Stg) eq_refl eq_refl eq_refl) as U2.
  (* nuclei *)
  destruct (nuclei_stage_ok _ _ _ (st_nuc _ _ _ _ _ _ _ Stg)) as [Lr (ats & La & Hrec & Hset)].
  assert (Hset' : Forall (fun i => nonphysical i = r_nonphysical r /\ mtol i = r_mtol r) ats).
  { clear - Hset. induction Hset as [|i l [H1 [H2 _]] _ IH]; constructor; auto. }
  destruct (nuclei_again _ _ _ _ T0 T4 Hrec Hset') as [ros' [Hm' Hq]].
  destruct (equiv_maps _ _ Hq) as (QA & QZ & QE & QM & QR & QU & Qzeff & QL).
  assert (N2 : nuclei_stage (as_raw r m) (List.length pts) = Ok ros').
  { unfold nuclei_stage, as_raw; cbn [r_elea r_elez r_elem r_mass r_real r_elbl r_speclabel r_nonphysical r_mtol column].
    rewrite Eelea, Eelez, Eelem, Emass, Ereal, Eelbl.
    rewrite !map_length, Lr, Nat.eqb_refl. cbn [andb]. rewrite atoms_fb. exact Hm'. }
  (* fragments *)
  pose proof (st_frag _ _ _ _ _ _ _ Stg) as Hf.
  pose proof (fragments_checks _ _ _ _ _ Hf) as Hck.
  destruct (fragments_stage_ok _ _ _ _ _ Hf) as (Lc & Lm & _).
  set (i0 := cm_input r ros (m_seps m) frc frm).
  assert (W : wf_in i0) by (unfold wf_in, i0, cm_input; simpl; unfold np_split; rewrite split_length; split; assumption).
  pose proof (fill_sound _ _ W (st_cm _ _ _ _ _ _ _ Stg)) as Sp.
  assert (Lfc : List.length (ofc cm) = Datatypes.S (List.length (m_seps m))).
  { rewrite (sp_len_fc _ _ Sp). unfold adjust. destruct (_ && _); simpl; unfold np_split; apply split_length. }
  assert (Lfm : List.length (ofm cm) = Datatypes.S (List.length (m_seps m))).
  { rewrite (sp_len_fm _ _ Sp). unfold adjust. destruct (_ && _); simpl; unfold np_split; apply split_length. }
  assert (F2 : fragments_stage (as_raw r m) (List.length pts) = Ok (m_seps m, map Some (ofc cm), map Some (ofm cm))).
  { unfold fragments_stage, as_raw; cbn [r_seps r_fchg r_fmult]. rewrite Efchg, Efmult.
    unfold frag_checks in Hck. apply andb_true_iff in Hck. destruct Hck as [C1 C2]. apply negb_true_iff in C1.
    rewrite C1, C2. cbn [negb]. rewrite !map_length, Lfc, Lfm, Nat.eqb_refl. reflexivity. }
  (* charges and multiplicities: C05's fixed point *)
  assert (C2 : fill (cm_input (as_raw r m) ros' (m_seps m) (map Some (ofc cm)) (map Some (ofm cm))) = Ok cm).
  { unfold cm_input, as_raw; cbn [r_chg r_mult r_zgf]. rewrite Qzeff, Echg, Emult.
    apply (fill_fixed_point i0 cm W (st_cm _ _ _ _ _ _ _ Stg)). }
  (* frame *)
  destruct (frame_stage r) as [[com ori] sym] eqn:Ef. cbn [fst snd] in Ecom, Eori, Esym.
  assert (R2 : frame_stage (as_raw r m) = (com, ori, sym)).
  { unfold frame_stage in *. unfold as_raw; cbn [r_fix_com r_fix_orientation r_fix_symmetry].
    rewrite Ecom, Eori, Esym. injection Ef as E1 E2 E3. f_equal.
    destruct (r_fix_symmetry r) as [s|]; [|subst sym; reflexivity].
    destruct (String.eqb (lower s) "") eqn:Es; subst sym; [reflexivity|]. rewrite lower_idem, Es. reflexivity. }
  assert (Z2 : is_nil (r_geom (as_raw r m)) && negb (r_minimal (as_raw r m)) = false) by (unfold as_raw; cbn; apply andb_false_r).
  eexists. split.
  - apply (from_arrays_intro (as_raw r m) _ _ _ pts ros' (m_seps m) _ _ cm com ori sym Z2 U2 G2 N2 F2 C2 R2).
  - constructor; cbn [m_units m_iutau m_geom m_elea m_elez m_elem m_mass m_real m_elbl m_seps m_fchg m_fmult m_chg m_mult
                       m_fix_com m_fix_orientation m_fix_symmetry m_conn]; try congruence; auto.
Qed.
