(** C04 — proofs about Model/MolRec.v (from_arrays, domain "qm"), composing the C05 and C06 theorems. *)
From Coq Require Import ZArith List Bool String Ascii QArith Qabs Lia Lqa.
Require Import QV.Common.Outcome QV.Model.Nucleus QV.Model.ChgMult QV.Gen.MolConsts QV.Model.MolRec.
Require Import QV.Proofs.NucleusKeys QV.Proofs.Nucleus QV.Proofs.ChgMult.
Import ListNotations.
Open Scope list_scope.
Open Scope Z_scope.

(* ------------------------------------------------------------------------------------------ *)
(** * np.split with Python slice semantics *)

Lemma norm_idx_range n k : 0 <= n -> 0 <= norm_idx n k <= n.
Proof. intro H. unfold norm_idx. destruct (k <? 0) eqn:E; [apply Z.ltb_lt in E | apply Z.ltb_ge in E]; lia. Qed.

Definition nidx {A} (l : list A) (k : Z) : nat := Z.to_nat (norm_idx (Z.of_nat (List.length l)) k).

Lemma nidx_le {A} (l : list A) k : (nidx l k <= List.length l)%nat.
Proof. unfold nidx. pose proof (norm_idx_range (Z.of_nat (List.length l)) k ltac:(lia)). lia. Qed.

Lemma slice_nidx {A} (l : list A) a b : slice l a b = firstn (nidx l b - nidx l a) (skipn (nidx l a) l).
Proof.
  unfold slice, nidx. set (n := Z.of_nat (List.length l)).
  pose proof (norm_idx_range n a ltac:(lia)). pose proof (norm_idx_range n b ltac:(lia)).
  f_equal. lia.
Qed.

Lemma slice_length {A} (l : list A) a b : List.length (slice l a b) = (nidx l b - nidx l a)%nat.
Proof.
  rewrite slice_nidx, firstn_length, skipn_length. pose proof (nidx_le l a). pose proof (nidx_le l b). lia.
Qed.

Lemma nidx_len {A} (l : list A) : nidx l (Z.of_nat (List.length l)) = List.length l.
Proof.
  unfold nidx, norm_idx. destruct (Z.of_nat (List.length l) <? 0) eqn:E; [apply Z.ltb_lt in E; lia|]. lia.
Qed.

Lemma nidx_0 {A} (l : list A) : nidx l 0 = 0%nat.
Proof. unfold nidx, norm_idx. simpl. lia. Qed.

Lemma skipn_skipn {A} (l : list A) a k : skipn k (skipn a l) = skipn (a + k) l.
Proof.
  revert l; induction a as [|a IH]; intro l; simpl; [reflexivity|]. destruct l as [|x l]; [destruct k; reflexivity|]. apply IH.
Qed.

(** the normalised cut points, starting from [start] *)
Fixpoint cuts_ok {A} (l : list A) (start : Z) (seps : list Z) : Prop :=
  match seps with
  | [] => True
  | s :: r => (nidx l start <= nidx l s)%nat /\ cuts_ok l s r
  end.

Lemma split_concat {A} (l : list A) seps : forall start,
  cuts_ok l start seps -> List.concat (split_from l start seps) = skipn (nidx l start) l.
Proof.
  induction seps as [|s r IH]; intros start H; simpl.
  - rewrite app_nil_r, slice_nidx, nidx_len. apply firstn_all2. rewrite skipn_length. lia.
  - destruct H as [H1 H2]. rewrite (IH s H2), slice_nidx.
    replace (skipn (nidx l s) l) with (skipn (nidx l s - nidx l start) (skipn (nidx l start) l)).
    + apply firstn_skipn.
    + rewrite skipn_skipn. f_equal. lia.
Qed.

Lemma split_length {A} (l : list A) seps start : List.length (split_from l start seps) = S (List.length seps).
Proof. revert start; induction seps as [|s r IH]; intro start; simpl; [reflexivity | rewrite IH; reflexivity]. Qed.

Lemma nonempty_cuts {A} (l : list A) seps : forall start,
  Forall (fun p => p <> []) (split_from l start seps) -> cuts_ok l start seps.
Proof.
  induction seps as [|s r IH]; intros start H; simpl; [exact I|].
  simpl in H. inversion H as [|p ps Hp Hps]; subst. split; [|apply IH, Hps].
  assert (L : List.length (slice l start s) <> 0%nat) by (destruct (slice l start s); [congruence | simpl; lia]).
  rewrite slice_length in L. lia.
Qed.

(** np.split: if every piece is non-empty, the pieces are the list cut at strictly increasing points, in order. *)
Theorem split_partition {A} (l : list A) seps :
  Forall (fun p => p <> []) (np_split l seps) -> List.concat (np_split l seps) = l.
Proof.
  intro H. unfold np_split in *. rewrite (split_concat l seps 0 (nonempty_cuts l seps 0 H)), nidx_0. reflexivity.
Qed.

(** ... and the trial split of from_arrays accepts exactly then (or when there are no atoms). *)
Lemma slice_nil {A} a b : slice (@nil A) a b = [].
Proof. apply length_zero_iff_nil. rewrite slice_length. pose proof (nidx_le (@nil A) b). simpl in *. lia. Qed.

Lemma split_of_nil {A} seps start : List.concat (split_from (@nil A) start seps) = [].
Proof.
  revert start; induction seps as [|s r IH]; intro start; simpl.
  - rewrite slice_nil. reflexivity.
  - rewrite IH, slice_nil. reflexivity.
Qed.

(* ------------------------------------------------------------------------------------------ *)
(** * Geometry *)

Lemma triples_flatten g pts : triples g = Ok pts -> flatten3 pts = g.
Proof.
  revert pts. induction g as [g IH] using (well_founded_induction (wf_inverse_image _ nat _ (@List.length Q) PeanoNat.Nat.lt_wf_0)).
  intros pts H. destruct g as [|x [|y [|z r]]]; simpl in H; try discriminate.
  - injection H as <-. reflexivity.
  - apply obind_ok in H. destruct H as [t [Ht H]]. injection H as <-. simpl. f_equal. f_equal. f_equal.
    apply IH; [simpl; lia | exact Ht].
Qed.

Lemma flatten_triples pts : triples (flatten3 pts) = Ok pts.
Proof. induction pts as [|[[x y] z] pts IH]; simpl; [reflexivity|]. rewrite IH. reflexivity. Qed.

Lemma triples_length g pts : triples g = Ok pts -> List.length g = (3 * List.length pts)%nat.
Proof.
  intro H. rewrite <- (triples_flatten _ _ H). clear H. induction pts as [|[[x y] z] pts IH]; simpl; [reflexivity|].
  simpl in IH. lia.
Qed.

(** the pairwise screen: no two points closer than the metric *)
Definition far_apart (metric : Q) (pts : list (Q * Q * Q)) : Prop :=
  forall i j p q, (i < j)%nat -> nth_error pts i = Some p -> nth_error pts j = Some q -> (metric <= dist2 p q)%Q.

Lemma too_close_false metric pts : too_close metric pts = false -> far_apart metric pts.
Proof.
  induction pts as [|p0 pts IH]; intros H i j p q Hij Hp Hq; [destruct i; discriminate|].
  simpl in H. apply orb_false_iff in H. destruct H as [H1 H2].
  destruct i as [|i]; destruct j as [|j]; try lia; simpl in Hp, Hq.
  - injection Hp as <-. apply nth_error_In in Hq.
    pose proof (existsb_false_forall _ _ H1 q Hq) as Hf. cbv beta in Hf. apply Qlt_b_false in Hf. exact Hf.
  - apply (IH H2 i j p q); [lia | assumption | assumption].
Qed.

Lemma too_close_true metric pts : too_close metric pts = true ->
  exists i j p q, (i < j)%nat /\ nth_error pts i = Some p /\ nth_error pts j = Some q /\ (dist2 p q < metric)%Q.
Proof.
  induction pts as [|p0 pts IH]; simpl; [discriminate|]. intro H. apply orb_true_iff in H. destruct H as [H|H].
  - apply existsb_exists in H. destruct H as [q [Hq Hlt]]. apply Qlt_b_true in Hlt.
    apply In_nth_error in Hq. destruct Hq as [j Hj]. exists 0%nat, (S j), p0, q. repeat split; auto. lia.
  - destruct (IH H) as (i & j & p & q & Hij & Hp & Hq & Hlt). exists (S i), (S j), p, q. repeat split; auto. lia.
Qed.

(* ------------------------------------------------------------------------------------------ *)
(** * Opening up from_arrays *)

Record stages (r : raw) (m : molrec) (pts : list (Q * Q * Q)) (ros : list nuc_out) (frc frm : list (option Z)) (cm : cm_out) : Prop := {
  st_nonempty : is_nil (r_geom r) && negb (r_minimal r) = false;
  st_units : units_stage r = Ok (m_units m, m_iutau m, m_conn m);
  st_geom : geometry_stage r = Ok pts;
  st_nuc : nuclei_stage r (List.length pts) = Ok ros;
  st_frag : fragments_stage r (List.length pts) = Ok (m_seps m, frc, frm);
  st_cm : fill (cm_input r ros (m_seps m) frc frm) = Ok cm;
  st_rec : m = {| m_units := m_units m; m_iutau := m_iutau m; m_geom := flatten3 pts;
                  m_elea := map oA ros; m_elez := map oZ ros; m_elem := map oE ros; m_mass := map omass ros;
                  m_real := map oreal ros; m_elbl := map ouser ros;
                  m_seps := m_seps m; m_fchg := ofc cm; m_fmult := ofm cm; m_chg := oc cm; m_mult := om cm;
                  m_fix_com := fst (fst (frame_stage r)); m_fix_orientation := snd (fst (frame_stage r));
                  m_fix_symmetry := snd (frame_stage r); m_conn := m_conn m |}
}.

Lemma from_arrays_stages r m : from_arrays r = Ok m -> exists pts ros frc frm cm, stages r m pts ros frc frm cm.
Proof.
  unfold from_arrays. destruct (is_nil (r_geom r) && negb (r_minimal r)) eqn:E0; [discriminate|]. intro H.
  apply obind_ok in H. destruct H as [[[u iu] conn] [Hu H]].
  apply obind_ok in H. destruct H as [pts [Hg H]].
  apply obind_ok in H. destruct H as [ros [Hn H]].
  apply obind_ok in H. destruct H as [[[seps frc] frm] [Hf H]].
  apply obind_ok in H. destruct H as [cm [Hc H]].
  destruct (frame_stage r) as [[com ori] sym] eqn:Ef. injection H as <-.
  exists pts, ros, frc, frm, cm. constructor; simpl; auto.
Qed.

(* ------------------------------------------------------------------------------------------ *)
(** * Nuclei *)

Lemma atoms_length sl np tol ea : forall ez ee em er el n,
  List.length ea = n -> List.length ez = n -> List.length ee = n -> List.length em = n -> List.length er = n -> List.length el = n ->
  List.length (atoms sl np tol ea ez ee em er el) = n.
Proof.
  induction ea as [|a ea IH]; intros ez ee em er el n H1 H2 H3 H4 H5 H6; simpl in *.
  - destruct ez, ee, em, er, el; simpl; auto.
  - destruct ez as [|z ez], ee as [|e ee], em as [|m em], er as [|r0 er], el as [|l el]; simpl in *; try lia.
    destruct n as [|n]; [lia|]. f_equal. apply IH; lia.
Qed.

Lemma Forall2_length {A B} (R : A -> B -> Prop) l l' : Forall2 R l l' -> List.length l = List.length l'.
Proof. induction 1; simpl; auto. Qed.

Lemma nuclei_stage_ok r n ros : nuclei_stage r n = Ok ros ->
  List.length ros = n /\
  exists ats, List.length ats = n /\ Forall2 (fun i o => reconcile i = Ok o) ats ros /\
    Forall (fun i => nonphysical i = r_nonphysical r /\ mtol i = r_mtol r /\ speclabel i = r_speclabel r) ats.
Proof.
  unfold nuclei_stage.
  set (ea := map minus1_none (column n (r_elea r))). set (ez := column n (r_elez r)). set (ee := column n (r_elem r)).
  set (em := column n (r_mass r)). set (er := column n (r_real r)). set (el := column n (r_elbl r)).
  destruct (_ && _) eqn:E; [|discriminate]. intro H.
  repeat (apply andb_true_iff in E; destruct E as [E ?]).
  repeat match goal with [ Hx : Nat.eqb _ _ = true |- _ ] => apply Nat.eqb_eq in Hx end.
  apply mapM_ok in H. pose proof (Forall2_length _ _ _ H) as L.
  rewrite (atoms_length _ _ _ ea ez ee em er el n) in L by assumption.
  split; [symmetry; exact L|]. eexists. split; [|split; [exact H|]].
  - apply atoms_length; assumption.
  - clear. generalize ea ez ee em er el. clear. induction ea as [|a ea IH]; intros ez ee em er el; simpl.
    + destruct ez, ee, em, er, el; constructor.
    + destruct ez, ee, em, er, el; try constructor; [simpl; auto | apply IH].
Qed.

(* ------------------------------------------------------------------------------------------ *)
(** * Fragments *)

Lemma existsb_nil_false {A} (ps : list (list A)) :
  existsb (fun p => Nat.eqb (List.length p) 0) ps = false -> Forall (fun p => p <> []) ps.
Proof.
  induction ps as [|p ps IH]; simpl; intro H; constructor.
  - apply orb_false_iff in H. destruct H as [H _]. destruct p; [discriminate | congruence].
  - apply IH. apply orb_false_iff in H. apply H.
Qed.

Lemma fragments_stage_ok r n seps frc frm : fragments_stage r n = Ok (seps, frc, frm) ->
  List.length frc = S (List.length seps) /\ List.length frm = S (List.length seps) /\
  (n <> 0%nat -> Forall (fun p => p <> []) (np_split (repeat tt n) seps)) /\
  (r_seps r = None -> seps = [] /\ r_fchg r = None /\ r_fmult r = None) /\
  (forall s, r_seps r = Some s -> seps = s).
Proof.
  unfold fragments_stage. destruct (r_seps r) as [s|] eqn:Es.
  - set (pieces := np_split (repeat tt n) s).
    destruct (existsb _ pieces && negb (Nat.eqb n 0)) eqn:E1; [discriminate|].
    destruct (negb (Nat.eqb _ n)) eqn:E2; [discriminate|].
    destruct (Nat.eqb _ _ && Nat.eqb _ _) eqn:E3; [|discriminate]. intro H. injection H as <- <- <-.
    apply andb_true_iff in E3. destruct E3 as [L1 L2]. apply Nat.eqb_eq in L1. apply Nat.eqb_eq in L2.
    repeat split; auto; try discriminate.
    + intro Hn. apply andb_false_iff in E1. destruct E1 as [E1|E1].
      * apply existsb_nil_false, E1.
      * apply negb_false_iff, Nat.eqb_eq in E1. contradiction.
    + intros s' Hs'. congruence.
  - destruct (r_fchg r), (r_fmult r); try discriminate. intro H. injection H as <- <- <-.
    repeat split; auto; try discriminate.
    intro Hn. unfold np_split. simpl. constructor; [|constructor].
    intro E. apply (f_equal (@List.length unit)) in E. rewrite slice_length, nidx_0, nidx_len, repeat_length in E. simpl in E. lia.
Qed.

Lemma np_split_map {A B} (f : A -> B) (l : list A) seps start :
  split_from (map f l) start seps = map (map f) (split_from l start seps).
Proof.
  assert (S : forall a b, slice (map f l) a b = map f (slice l a b)).
  { intros a b. unfold slice. rewrite map_length, firstn_map, skipn_map. reflexivity. }
  revert start; induction seps as [|s r IH]; intro start; simpl.
  - rewrite S, map_length. reflexivity.
  - rewrite S, IH. reflexivity.
Qed.

(* ------------------------------------------------------------------------------------------ *)
(** * Well-formedness of every accepted record *)

Definition atom_ok (r : raw) (o : nuc_out) : Prop :=
  to_E_int (oZ o) = Ok (oE o) /\
  nuclide_ok (oE o) (r_mtol r) (oA o) (omass o) /\
  (r_nonphysical r = false ->
     exists lo hi, mass_range (oE o) = Some (lo, hi) /\ (lo - (1 # 2) <= omass o <= hi + (1 # 2))%Q).

Record WF (r : raw) (m : molrec) (pts : list (Q * Q * Q)) (ros : list nuc_out) (ats : list nuc_in) : Prop := {
  (* geometry: three coordinates per atom, unchanged *)
  wf_geom : m_geom m = r_geom r /\ triples (m_geom m) = Ok pts /\ List.length (m_geom m) = (3 * List.length pts)%nat;
  (* every per-atom column is present with one entry per atom *)
  wf_cols : m_elea m = map oA ros /\ m_elez m = map oZ ros /\ m_elem m = map oE ros /\ m_mass m = map omass ros /\
            m_real m = map oreal ros /\ m_elbl m = map ouser ros /\ List.length ros = List.length pts;
  (* each atom is the sound reconciliation of its clues (C06), hence table-consistent *)
  wf_atoms : List.length ats = List.length pts /\ Forall2 Sound ats ros /\ Forall (atom_ok r) ros;
  (* no two atoms closer than tooclose *)
  wf_far : far_apart (r_tooclose r * r_tooclose r)%Q pts;
  (* the fragments partition the atoms in order *)
  wf_frag : List.concat (np_split (seq 0 (List.length pts)) (m_seps m)) = seq 0 (List.length pts) /\
            (List.length pts <> 0%nat -> Forall (fun p => p <> []) (np_split (seq 0 (List.length pts)) (m_seps m)));
  (* charges and multiplicities: one per fragment, total = sum, every (z, c, m) feasible (C05) *)
  wf_cm : exists i, felez i = np_split (zeff ros) (m_seps m) /\ ic i = r_chg r /\ im i = r_mult r /\ zgf i = r_zgf r /\ wf_in i /\
                    Spec (adjust i) {| oc := m_chg m; ofc := m_fchg m; om := m_mult m; ofm := m_fmult m |};
  (* units and frame *)
  wf_units : m_units m = "Angstrom"%string \/ m_units m = "Bohr"%string
}.

Lemma split_nonempty_transfer {A B} (l : list A) (l' : list B) seps :
  List.length l = List.length l' ->
  Forall (fun p => p <> []) (np_split l seps) -> Forall (fun p => p <> []) (np_split l' seps).
Proof.
  intros L H. unfold np_split in *.
  assert (G : forall start, Forall (fun p : list A => p <> []) (split_from l start seps) ->
                            Forall (fun p : list B => p <> []) (split_from l' start seps)).
  { induction seps as [|s r IH]; intros start Hs; simpl in *.
    - inversion Hs as [|p ps Hp _]; subst. constructor; [|constructor].
      intro E. apply Hp. apply length_zero_iff_nil. apply (f_equal (@List.length B)) in E.
      rewrite slice_length in *. unfold nidx in *. rewrite L. simpl in E. rewrite <- L. rewrite <- L in E. exact E.
    - inversion Hs as [|p ps Hp Hps]; subst. constructor; [|apply IH, Hps].
      intro E. apply Hp. apply length_zero_iff_nil. apply (f_equal (@List.length B)) in E.
      rewrite slice_length in *. unfold nidx in *. rewrite L. simpl in E. exact E. }
  apply G, H.
Qed.

Theorem accepted_invariants r m : from_arrays r = Ok m -> exists pts ros ats, WF r m pts ros ats.
Proof.
  intro H. destruct (from_arrays_stages _ _ H) as (pts & ros & frc & frm & cm & S).
  pose proof (st_rec _ _ _ _ _ _ _ S) as Em.
  pose proof (st_geom _ _ _ _ _ _ _ S) as Hg. unfold geometry_stage in Hg.
  apply obind_ok in Hg. destruct Hg as [pts' [Ht Hg]].
  destruct (too_close _ pts') eqn:Etc; [discriminate|]. injection Hg as ->.
  destruct (nuclei_stage_ok _ _ _ (st_nuc _ _ _ _ _ _ _ S)) as [Lr (ats & La & Hrec & Hset)].
  destruct (fragments_stage_ok _ _ _ _ _ (st_frag _ _ _ _ _ _ _ S)) as (Lc & Lm & Hne & _ & _).
  exists pts, ros, ats.
  assert (Hgeom : m_geom m = r_geom r) by (rewrite Em; simpl; apply triples_flatten, Ht).
  constructor.
  - split; [exact Hgeom|]. rewrite Hgeom. split; [exact Ht | apply triples_length, Ht].
  - rewrite Em. simpl. repeat split; auto.
  - split; [exact La|]. split.
    + clear - Hrec. induction Hrec; constructor; [apply reconcile_sound; assumption | assumption].
    + clear - Hrec Hset. induction Hrec as [|i o ats ros Hio _ IH]; constructor.
      * inversion Hset as [|? ? [Hnp [Hmt _]] _]; subst.
        destruct (reconcile_run _ _ Hio) as (lbl & info & zi & ci & R).
        split; [exact (r_E _ _ _ _ _ _ R)|]. split.
        -- rewrite <- Hmt. exact (run_nuclide _ _ _ _ _ _ R).
        -- intro Hp. destruct (run_range _ _ _ _ _ _ R) as [Hr _]. apply Hr. congruence.
      * apply IH. inversion Hset; assumption.
  - apply too_close_false, Etc.
  - assert (Ls : List.length (repeat tt (List.length pts)) = List.length (seq 0 (List.length pts))) by (rewrite repeat_length, seq_length; reflexivity).
    destruct (Nat.eq_dec (List.length pts) 0) as [Z0|NZ].
    + rewrite Z0. simpl. split; [apply split_of_nil | intro C; congruence].
    + pose proof (split_nonempty_transfer _ (seq 0 (List.length pts)) _ Ls (Hne NZ)) as Hs.
      split; [apply split_partition, Hs | intros _; exact Hs].
  - exists (cm_input r ros (m_seps m) frc frm). unfold cm_input; simpl.
    assert (W : wf_in (cm_input r ros (m_seps m) frc frm)).
    { unfold wf_in, cm_input; simpl. unfold np_split. rewrite split_length. split; assumption. }
    repeat split; try reflexivity; try (apply W).
    pose proof (fill_sound _ _ W (st_cm _ _ _ _ _ _ _ S)) as Sp.
    rewrite Em. simpl. destruct cm. exact Sp.
  - pose proof (st_units _ _ _ _ _ _ _ S) as Hu. unfold units_stage in Hu.
    apply obind_ok in Hu. destruct Hu as [conn [_ Hu]].
    destruct (String.eqb (capitalize (r_units r)) "Angstrom") eqn:EA.
    + apply String.eqb_eq in EA. simpl in Hu. destruct (r_iutau r); [destruct (Qlt_b _ _); [|discriminate]|]; injection Hu as <- _ _; left; exact EA.
    + destruct (String.eqb (capitalize (r_units r)) "Bohr") eqn:EB; [|discriminate].
      apply String.eqb_eq in EB. simpl in Hu. destruct (r_iutau r); [destruct (Qlt_b _ _); [|discriminate]|]; injection Hu as <- _ _; right; exact EB.
Qed.
