(** C03 wave 4 — render/parse round trip of the text reader (Model/UnitsText.v) for ALL unit expressions in the fully
    parenthesised spelling that the harness's render() writes: [chars s] is the text, [den s] the expression it must denote.
    [sexpr] = unit expressions whose numbers are written as decimal digit strings (non-negative integers; exponents with an
    optional minus sign).  Two layers: [lex_chars] (characters -> tokens) and [parse_toks] (tokens -> expression). *)
From Coq Require Import ZArith QArith List String Ascii Bool Lia.
Require Import QV.Common.Outcome QV.Common.DecC02 QV.Common.UnitsC03.
Require Import QV.Gen.UregDefs QV.Model.Units QV.Model.UnitsText.
Import ListNotations.
Open Scope string_scope.
Open Scope list_scope.

(** the body of [parse_expr] with the recursive call abstracted *)
Section Body.
  Variable rec : list tok -> perr + (uexpr * list tok).
  Definition atom_f (ts : list tok) : perr + (uexpr * list tok) :=
    match ts with
    | TNum q :: r => inr (UNum q, r)
    | TId s :: r => match resolve_ident s with Some (p, b) => inr (UAtom p b, r) | None => inl Undefined end
    | TLp :: r => match rec r with
                  | inr (e, TRp :: r') => inr (e, r')
                  | inr _ => inl Syntax
                  | inl x => inl x
                  end
    | _ => inl Syntax
    end.
  Definition term_f (ts : list tok) : perr + (uexpr * list tok) :=
    match atom_f ts with
    | inr (a, TPow :: r) => match parse_exponent r with Some (n, r') => inr (UPow a n, r') | None => inl Syntax end
    | x => x
    end.
  Fixpoint tail_f (k : nat) (acc : uexpr) (ts : list tok) : perr + (uexpr * list tok) :=
    match k with
    | O => inl Syntax
    | S k' =>
        match ts with
        | TMul :: r => match term_f r with inr (b, r') => tail_f k' (UMul acc b) r' | inl x => inl x end
        | TDiv :: r => match term_f r with inr (b, r') => tail_f k' (UDiv acc b) r' | inl x => inl x end
        | TNum _ :: _ | TId _ :: _ | TLp :: _ =>
            match term_f ts with inr (b, r') => tail_f k' (UMul acc b) r' | inl x => inl x end
        | _ => inr (acc, ts)
        end
    end.
  Definition body (ts : list tok) : perr + (uexpr * list tok) :=
    match term_f ts with
    | inr (a, r) => tail_f (S (List.length r)) a r
    | inl x => inl x
    end.
End Body.

Lemma parse_expr_S : forall f ts, parse_expr (S f) ts = body (parse_expr f) ts.
Proof. reflexivity. Qed.

(** fully parenthesised token rendering (what harness render() writes, after lexing) *)
Definition exp_toks (n : Z) : list tok :=
  if (n <? 0)%Z then [TLp; TMinus; TNum (inject_Z (- n)); TRp] else [TLp; TNum (inject_Z n); TRp].
Fixpoint toks (e : uexpr) : list tok :=
  match e with
  | UNum q => [TNum q]
  | UAtom p b => [TId (p ++ b)%string]
  | UMul a b => [TLp; TLp] ++ toks a ++ [TRp; TMul; TLp] ++ toks b ++ [TRp; TRp]
  | UDiv a b => [TLp; TLp] ++ toks a ++ [TRp; TDiv; TLp] ++ toks b ++ [TRp; TRp]
  | UPow a n => [TLp; TLp] ++ toks a ++ [TRp; TPow] ++ exp_toks n ++ [TRp]
  end.
Fixpoint wf (e : uexpr) : Prop :=
  match e with
  | UNum _ => True
  | UAtom p b => resolve_ident (p ++ b)%string = Some (p, b)
  | UMul a b | UDiv a b => wf a /\ wf b
  | UPow a _ => wf a
  end.
Fixpoint depth (e : uexpr) : nat :=
  match e with
  | UNum _ | UAtom _ _ => 1
  | UMul a b | UDiv a b => 2 + Nat.max (depth a) (depth b)
  | UPow a _ => 2 + depth a
  end.
Definition stops (ts : list tok) : Prop := match ts with [] => True | TRp :: _ => True | _ => False end.

Lemma parse_exponent_toks : forall n rest, parse_exponent (exp_toks n ++ rest) = Some (n, rest).
Proof.
  intros n rest. unfold exp_toks. destruct (n <? 0)%Z eqn:E; cbn.
  - rewrite Z.opp_involutive. reflexivity.
  - reflexivity.
Qed.

Lemma tail_stops : forall rec k acc ts, stops ts -> tail_f rec (S k) acc ts = inr (acc, ts).
Proof. intros rec k acc [|[] ts] H; cbn in *; try contradiction; reflexivity. Qed.

Lemma term_no_pow : forall rec ts a r, atom_f rec ts = inr (a, r) -> stops r -> term_f rec ts = inr (a, r).
Proof. intros rec ts a r H S. unfold term_f. rewrite H. destruct r as [|[] r]; cbn in S; try contradiction; reflexivity. Qed.

Theorem parse_toks : forall e, wf e -> forall f rest, (depth e <= f)%nat -> stops rest ->
  parse_expr f (toks e ++ rest) = inr (e, rest).
Proof.
  induction e as [p b|q|a IHa b IHb|a IHa b IHb|a IHa n]; intros W f rest Hf Hs.
  - destruct f as [|f]; [cbn in Hf; lia|]. rewrite parse_expr_S. unfold body. cbn [toks app].
    assert (A : atom_f (parse_expr f) (TId (p ++ b)%string :: rest) = inr (UAtom p b, rest)).
    { cbn [atom_f]. cbn [wf] in W. rewrite W. reflexivity. }
    rewrite (term_no_pow _ _ _ _ A Hs). apply tail_stops. exact Hs.
  - destruct f as [|f]; [cbn in Hf; lia|]. rewrite parse_expr_S. unfold body. cbn [toks app].
    assert (A : atom_f (parse_expr f) (TNum q :: rest) = inr (UNum q, rest)) by reflexivity.
    rewrite (term_no_pow _ _ _ _ A Hs). apply tail_stops. exact Hs.
  - destruct W as [Wa Wb]. cbn [depth] in Hf.
    destruct f as [|[|f]]; try lia.
    assert (Fa : (depth a <= f)%nat) by lia. assert (Fb : (depth b <= f)%nat) by lia.
    (* inner: "(a) * (b)" followed by ")" *)
    assert (Inner : forall rest', stops rest' ->
              parse_expr (S f) ((TLp :: toks a ++ [TRp]) ++ TMul :: (TLp :: toks b ++ [TRp]) ++ rest') = inr (UMul a b, rest')).
    { intros rest' Hs'. rewrite parse_expr_S. unfold body.
      assert (A1 : atom_f (parse_expr f) ((TLp :: toks a ++ [TRp]) ++ TMul :: (TLp :: toks b ++ [TRp]) ++ rest')
                   = inr (a, TMul :: (TLp :: toks b ++ [TRp]) ++ rest')).
      { cbn [app atom_f]. rewrite <- app_assoc. cbn [app]. rewrite (IHa Wa f (TRp :: _) Fa I). reflexivity. }
      unfold term_f at 1. rewrite A1.
      assert (A2 : term_f (parse_expr f) ((TLp :: toks b ++ [TRp]) ++ rest') = inr (b, rest')).
      { apply term_no_pow; [|exact Hs']. cbn [app atom_f]. rewrite <- app_assoc. cbn [app]. rewrite (IHb Wb f (TRp :: _) Fb I). reflexivity. }
      cbn [List.length tail_f]. rewrite A2. apply tail_stops. exact Hs'. }
    rewrite parse_expr_S. unfold body.
    assert (A : atom_f (parse_expr (S f)) (toks (UMul a b) ++ rest) = inr (UMul a b, rest)).
    { cbn [toks app atom_f].
      replace (TLp :: (toks a ++ TRp :: TMul :: TLp :: toks b ++ [TRp; TRp]) ++ rest)
        with ((TLp :: toks a ++ [TRp]) ++ TMul :: (TLp :: toks b ++ [TRp]) ++ (TRp :: rest)).
      - rewrite (Inner (TRp :: rest) I). reflexivity.
      - cbn [app]. repeat (rewrite <- app_assoc; cbn [app]). reflexivity. }
    rewrite (term_no_pow _ _ _ _ A Hs). apply tail_stops. exact Hs.
  - destruct W as [Wa Wb]. cbn [depth] in Hf.
    destruct f as [|[|f]]; try lia.
    assert (Fa : (depth a <= f)%nat) by lia. assert (Fb : (depth b <= f)%nat) by lia.
    assert (Inner : forall rest', stops rest' ->
              parse_expr (S f) ((TLp :: toks a ++ [TRp]) ++ TDiv :: (TLp :: toks b ++ [TRp]) ++ rest') = inr (UDiv a b, rest')).
    { intros rest' Hs'. rewrite parse_expr_S. unfold body.
      assert (A1 : atom_f (parse_expr f) ((TLp :: toks a ++ [TRp]) ++ TDiv :: (TLp :: toks b ++ [TRp]) ++ rest')
                   = inr (a, TDiv :: (TLp :: toks b ++ [TRp]) ++ rest')).
      { cbn [app atom_f]. rewrite <- app_assoc. cbn [app]. rewrite (IHa Wa f (TRp :: _) Fa I). reflexivity. }
      unfold term_f at 1. rewrite A1.
      assert (A2 : term_f (parse_expr f) ((TLp :: toks b ++ [TRp]) ++ rest') = inr (b, rest')).
      { apply term_no_pow; [|exact Hs']. cbn [app atom_f]. rewrite <- app_assoc. cbn [app]. rewrite (IHb Wb f (TRp :: _) Fb I). reflexivity. }
      cbn [List.length tail_f]. rewrite A2. apply tail_stops. exact Hs'. }
    rewrite parse_expr_S. unfold body.
    assert (A : atom_f (parse_expr (S f)) (toks (UDiv a b) ++ rest) = inr (UDiv a b, rest)).
    { cbn [toks app atom_f].
      replace (TLp :: (toks a ++ TRp :: TDiv :: TLp :: toks b ++ [TRp; TRp]) ++ rest)
        with ((TLp :: toks a ++ [TRp]) ++ TDiv :: (TLp :: toks b ++ [TRp]) ++ (TRp :: rest)).
      - rewrite (Inner (TRp :: rest) I). reflexivity.
      - cbn [app]. repeat (rewrite <- app_assoc; cbn [app]). reflexivity. }
    rewrite (term_no_pow _ _ _ _ A Hs). apply tail_stops. exact Hs.
  - cbn [wf] in W. cbn [depth] in Hf.
    destruct f as [|[|f]]; try lia.
    assert (Fa : (depth a <= f)%nat) by lia.
    assert (Inner : forall rest', stops rest' ->
              parse_expr (S f) ((TLp :: toks a ++ [TRp]) ++ TPow :: exp_toks n ++ rest') = inr (UPow a n, rest')).
    { intros rest' Hs'. rewrite parse_expr_S. unfold body.
      assert (A1 : atom_f (parse_expr f) ((TLp :: toks a ++ [TRp]) ++ TPow :: exp_toks n ++ rest')
                   = inr (a, TPow :: exp_toks n ++ rest')).
      { cbn [app atom_f]. rewrite <- app_assoc. cbn [app]. rewrite (IHa W f (TRp :: _) Fa I). reflexivity. }
      unfold term_f. rewrite A1, parse_exponent_toks. apply tail_stops. exact Hs'. }
    rewrite parse_expr_S. unfold body.
    assert (A : atom_f (parse_expr (S f)) (toks (UPow a n) ++ rest) = inr (UPow a n, rest)).
    { cbn [toks app atom_f].
      replace (TLp :: (toks a ++ TRp :: TPow :: exp_toks n ++ [TRp]) ++ rest)
        with ((TLp :: toks a ++ [TRp]) ++ TPow :: exp_toks n ++ (TRp :: rest)).
      - rewrite (Inner (TRp :: rest) I). reflexivity.
      - cbn [app]. repeat (rewrite <- app_assoc; cbn [app]). reflexivity. }
    rewrite (term_no_pow _ _ _ _ A Hs). apply tail_stops. exact Hs.
Qed.

Lemma depth_le_toks : forall e, (depth e <= List.length (toks e))%nat.
Proof.
  induction e as [p b|q|a IHa b IHb|a IHa b IHb|a IHa n]; cbn [depth toks].
  - cbn; lia.
  - cbn; lia.
  - repeat (rewrite app_length; cbn [List.length]). destruct (Nat.max_spec (depth a) (depth b)) as [[_ ->]|[_ ->]]; lia.
  - repeat (rewrite app_length; cbn [List.length]). destruct (Nat.max_spec (depth a) (depth b)) as [[_ ->]|[_ ->]]; lia.
  - unfold exp_toks. destruct (n <? 0)%Z; repeat (rewrite app_length; cbn [List.length]); lia.
Qed.

(** * characters *)
Inductive dg := D0 | D1 | D2 | D3 | D4 | D5 | D6 | D7 | D8 | D9.
Definition dchar (d : dg) : ascii :=
  match d with D0 => "0" | D1 => "1" | D2 => "2" | D3 => "3" | D4 => "4" | D5 => "5" | D6 => "6" | D7 => "7" | D8 => "8" | D9 => "9" end%char.
Definition dval (d : dg) : Z :=
  match d with D0 => 0 | D1 => 1 | D2 => 2 | D3 => 3 | D4 => 4 | D5 => 5 | D6 => 6 | D7 => 7 | D8 => 8 | D9 => 9 end%Z.
Fixpoint horner (acc : Z) (ds : list dg) : Z :=
  match ds with [] => acc | d :: r => horner (acc * 10 + dval d) r end.
Definition dchars (ds : list dg) : list ascii := map dchar ds.
Definition lit (s : string) : list ascii := list_ascii_of_string s.

Inductive sexpr :=
| SAtom (p b : string) | SNum (d : dg) (ds : list dg) | SMul (a b : sexpr) | SDiv (a b : sexpr)
| SPow (a : sexpr) (neg : bool) (d : dg) (ds : list dg).

Fixpoint chars (s : sexpr) : list ascii :=
  match s with
  | SAtom p b => lit (p ++ b)%string
  | SNum d ds => dchars (d :: ds)
  | SMul a b => lit "((" ++ chars a ++ lit ") * (" ++ chars b ++ lit "))"
  | SDiv a b => lit "((" ++ chars a ++ lit ") / (" ++ chars b ++ lit "))"
  | SPow a neg d ds => lit "((" ++ chars a ++ lit ") ** (" ++ (if neg then lit "-" else []) ++ dchars (d :: ds) ++ lit "))"
  end.
Definition sexp (neg : bool) (d : dg) (ds : list dg) : Z := if neg then (- horner 0 (d :: ds))%Z else horner 0 (d :: ds).
Fixpoint den (s : sexpr) : uexpr :=
  match s with
  | SAtom p b => UAtom p b
  | SNum d ds => UNum (inject_Z (horner 0 (d :: ds)))
  | SMul a b => UMul (den a) (den b)
  | SDiv a b => UDiv (den a) (den b)
  | SPow a neg d ds => UPow (den a) (sexp neg d ds)
  end.

Definition alnum (c : ascii) : bool := is_alpha c || is_dig c.
Definition ident_ok (w : list ascii) : bool :=
  match w with c :: _ => is_alpha c && forallb alnum w | [] => false end.
Fixpoint swf (s : sexpr) : Prop :=
  match s with
  | SAtom p b => ident_ok (lit (p ++ b)%string) = true /\ resolve_ident (p ++ b)%string = Some (p, b)
  | SNum _ _ => True
  | SMul a b | SDiv a b => swf a /\ swf b
  | SPow a neg d ds => swf a /\ (neg = true -> (0 < horner 0 (d :: ds))%Z)
  end.

Definition cstops (r : list ascii) : Prop := match r with [] => True | c :: _ => c = ")"%char end.

(* one lexing step: consumes [c] in front of any [r], yields tokens [t] *)
Definition lexes (c : list ascii) (t : list tok) (need_stop : bool) : Prop :=
  forall r f, (need_stop = true -> cstops r) -> (List.length (c ++ r) < f)%nat ->
  exists f', (List.length r < f')%nat /\ lex f (c ++ r) = option_map (app t) (lex f' r).

Lemma lexes_nil : lexes [] [] false.
Proof. intros r f _ H. exists f. split; [exact H|]. cbn. destruct (lex f r); reflexivity. Qed.

Lemma lexes_app : forall c1 t1 n1 c2 t2 n2,
  lexes c1 t1 n1 -> lexes c2 t2 n2 ->
  (n1 = true -> match c2 with c :: _ => c = ")"%char | [] => n2 = true end) ->
  lexes (c1 ++ c2) (t1 ++ t2) n2.
Proof.
  intros c1 t1 n1 c2 t2 n2 H1 H2 Hn r f Hr Hf. rewrite <- app_assoc in *.
  destruct (H1 (c2 ++ r) f) as [f1 [L1 E1]]; [|exact Hf|].
  { intro N. specialize (Hn N). destruct c2 as [|c c2]; [|cbn; exact Hn]. cbn. apply Hr. exact Hn. }
  destruct (H2 r f1 Hr L1) as [f2 [L2 E2]].
  exists f2. split; [exact L2|]. rewrite E1, E2. destruct (lex f2 r); cbn; [rewrite app_assoc|]; reflexivity.
Qed.

Tactic Notation "lit_step" integer(k) :=
  intros r f _ Hf; cbn [lit list_ascii_of_string app List.length] in *;
  do k (destruct f as [|f]; [lia|]); cbn; exists f; split; [lia|]; destruct (lex f r); reflexivity.

Lemma lexes_open : lexes (lit "((") [TLp; TLp] false.            Proof. lit_step 2. Qed.
Lemma lexes_close : lexes (lit "))") [TRp; TRp] false.           Proof. lit_step 2. Qed.
Lemma lexes_mul : lexes (lit ") * (") [TRp; TMul; TLp] false.    Proof. lit_step 5. Qed.
Lemma lexes_div : lexes (lit ") / (") [TRp; TDiv; TLp] false.    Proof. lit_step 5. Qed.
Lemma lexes_pow : lexes (lit ") ** (") [TRp; TPow; TLp] false.   Proof. lit_step 5. Qed.
Lemma lexes_minus : lexes (lit "-") [TMinus] false.              Proof. lit_step 1. Qed.

Lemma span_app : forall g w r, forallb g w = true -> match r with [] => True | x :: _ => g x = false end ->
  span g (w ++ r) = (w, r).
Proof.
  intros g w r. induction w as [|c w IH]; intros Hw Hr.
  - destruct r as [|x r]; [reflexivity|]. cbn. rewrite Hr. reflexivity.
  - cbn in Hw. apply andb_true_iff in Hw. destruct Hw as [Hc Hw]. cbn. rewrite Hc, (IH Hw Hr). reflexivity.
Qed.

Lemma alpha_not_blank : forall c, is_alpha c = true -> is_blank c = false.
Proof. intros c. destruct c as [[] [] [] [] [] [] [] []]; vm_compute; auto. Qed.

Lemma lex_S : forall f c r, lex (S f) (c :: r) =
          (let l := c :: r in
          if is_blank c then lex f r
          else if is_alpha c then
            let '(w, r') := span (fun x => is_alpha x || is_dig x) l in
            option_map (cons (TId (string_of_list_ascii w))) (lex f r')
          else if is_dig c then
            match lex_number l with
            | Some (q, r') => option_map (cons (TNum q)) (lex f r')
            | None => None
            end
          else if Ascii.eqb c "*" then
            match r with
            | "*"%char :: r' => option_map (cons TPow) (lex f r')
            | _ => option_map (cons TMul) (lex f r)
            end
          else if Ascii.eqb c "^" then option_map (cons TPow) (lex f r)
          else if Ascii.eqb c "/" then option_map (cons TDiv) (lex f r)
          else if Ascii.eqb c "-" then option_map (cons TMinus) (lex f r)
          else if Ascii.eqb c "(" then option_map (cons TLp) (lex f r)
          else if Ascii.eqb c ")" then option_map (cons TRp) (lex f r)
          else None).
Proof. reflexivity. Qed.

Lemma lexes_ident : forall w, ident_ok w = true -> lexes w [TId (string_of_list_ascii w)] true.
Proof.
  intros w Hw r f Hr Hf. destruct w as [|c w]; [discriminate|]. cbn [ident_ok] in Hw.
  apply andb_true_iff in Hw. destruct Hw as [Ha Hall].
  destruct f as [|f]; [cbn in Hf; lia|].
  assert (Sp : span (fun x => is_alpha x || is_dig x) ((c :: w) ++ r) = (c :: w, r)).
  { apply span_app; [exact Hall|]. specialize (Hr eq_refl). destruct r as [|x r]; [exact I|]. cbn in Hr. subst x. reflexivity. }
  exists f. split; [cbn [app List.length] in Hf; rewrite app_length in Hf; lia|].
  cbn [app] in *. rewrite lex_S. cbv zeta.
  rewrite (alpha_not_blank c Ha), Ha, Sp. destruct (lex f r); reflexivity.
Qed.

Lemma dg_facts : forall d, is_blank (dchar d) = false /\ is_alpha (dchar d) = false /\ is_dig (dchar d) = true
  /\ is_digit (dchar d) = true /\ digit_val (dchar d) = dval d /\ take_sign (dchar d :: nil) = (1%Z, dchar d :: nil).
Proof. destruct d; vm_compute; repeat split; reflexivity. Qed.

Lemma take_sign_digit : forall d l, take_sign (dchar d :: l) = (1%Z, dchar d :: l).
Proof. destruct d; reflexivity. Qed.

Lemma take_digits_dchars : forall ds acc cnt, take_digits (dchars ds) acc cnt = (horner acc ds, (cnt + Z.of_nat (List.length ds))%Z, []).
Proof.
  induction ds as [|d ds IH]; intros acc cnt.
  - cbn. rewrite Z.add_0_r. reflexivity.
  - cbn [dchars map take_digits]. destruct (dg_facts d) as [_ [_ [_ [Hd [Hv _]]]]]. rewrite Hd, Hv.
    change (map dchar ds) with (dchars ds). rewrite IH. cbn [horner List.length]. f_equal. f_equal. lia.
Qed.

Lemma horner_nonneg : forall ds acc, (0 <= acc)%Z -> (0 <= horner acc ds)%Z.
Proof. induction ds as [|d ds IH]; intros acc H; cbn; [exact H|]. apply IH. destruct d; cbn; lia. Qed.

Lemma parse_dec_digits : forall d ds, parse_dec_chars (dchars (d :: ds)) = Some (mkdec (1 * horner 0 (d :: ds)) (- 0)).
Proof.
  intros d ds. unfold parse_dec_chars. cbn [dchars map]. rewrite take_sign_digit.
  change (dchar d :: map dchar ds) with (dchars (d :: ds)). rewrite take_digits_dchars.
  cbn [List.length]. destruct (0 + Z.of_nat (S (List.length ds)) + 0 =? 0)%Z eqn:E; [apply Z.eqb_eq in E; lia|]. reflexivity.
Qed.

Lemma lex_number_digits : forall d ds r, cstops r ->
  lex_number (dchars (d :: ds) ++ r) = Some (inject_Z (horner 0 (d :: ds)), r).
Proof.
  intros d ds r Hr. unfold lex_number.
  assert (Sp : span is_dig (dchars (d :: ds) ++ r) = (dchars (d :: ds), r)).
  { apply span_app.
    - unfold dchars. rewrite forallb_forall. intros x Hx. apply in_map_iff in Hx. destruct Hx as [y [<- _]]. apply dg_facts.
    - destruct r as [|x r]; [exact I|]. cbn in Hr. subst x. reflexivity. }
  rewrite Sp.
  assert (R : r = [] \/ exists r', r = ")"%char :: r').
  { destruct r as [|x r]; [left; reflexivity|]. cbn in Hr. subst x. right. eexists. reflexivity. }
  destruct R as [->|[r' ->]]; cbn -[parse_dec_chars dchars dec2Q horner]; rewrite ?app_nil_r; rewrite parse_dec_digits; unfold dec2Q; cbn [dexp coef Z.opp Z.leb Z.compare];
    (replace (1 * horner 0 (d :: ds) * 10 ^ 0)%Z with (horner 0 (d :: ds)) by lia); reflexivity.
Qed.

Lemma lexes_number : forall d ds, lexes (dchars (d :: ds)) [TNum (inject_Z (horner 0 (d :: ds)))] true.
Proof.
  intros d ds r f Hr Hf. specialize (Hr eq_refl).
  destruct f as [|f]; [cbn in Hf; lia|].
  exists f. split; [rewrite app_length in Hf; cbn [dchars map List.length] in Hf; lia|].
  pose proof (lex_number_digits d ds r Hr) as LN.
  cbn [dchars map app] in *. rewrite lex_S. cbv zeta.
  destruct (dg_facts d) as [Hb [Ha [Hd _]]]. rewrite Hb, Ha, Hd, LN. destruct (lex f r); reflexivity.
Qed.

(* sexp vs exp_toks *)
Definition stoks_exp (neg : bool) (d : dg) (ds : list dg) : list tok :=
  (if neg then [TMinus] else []) ++ [TNum (inject_Z (horner 0 (d :: ds)))].

Lemma exp_toks_sexp : forall neg d ds, (neg = true -> (0 < horner 0 (d :: ds))%Z) ->
  exp_toks (sexp neg d ds) = [TLp] ++ stoks_exp neg d ds ++ [TRp].
Proof.
  intros neg d ds H. unfold exp_toks, sexp, stoks_exp. destruct neg.
  - specialize (H eq_refl). destruct (- horner 0 (d :: ds) <? 0)%Z eqn:E; [|apply Z.ltb_ge in E; lia].
    rewrite Z.opp_involutive. reflexivity.
  - pose proof (horner_nonneg (d :: ds) 0%Z (Z.le_refl 0)). destruct (horner 0 (d :: ds) <? 0)%Z eqn:E; [apply Z.ltb_lt in E; lia|]. reflexivity.
Qed.

Lemma chars_head : forall s, swf s -> exists c r, chars s = c :: r.
Proof.
  intros [p b|d ds|a b|a b|a neg d ds] W; cbn [chars]; try (eexists; eexists; reflexivity).
  destruct W as [W _]. destruct (lit (p ++ b)%string); [discriminate|]. eexists; eexists; reflexivity.
Qed.

Theorem lex_chars : forall s, swf s -> lexes (chars s) (toks (den s)) true.
Proof.
  induction s as [p b|d ds|a IHa b IHb|a IHa b IHb|a IHa neg d ds]; intros W; cbn [chars den toks].
  - destruct W as [W _]. rewrite <- (string_of_list_ascii_of_string (p ++ b)%string) at 2. apply lexes_ident. exact W.
  - apply lexes_number.
  - destruct W as [Wa Wb].
    apply (lexes_app _ _ false _ _ true lexes_open); [|discriminate].
    apply (lexes_app _ _ true _ _ true (IHa Wa)); [|intros _; reflexivity].
    apply (lexes_app _ _ false _ _ true lexes_mul); [|discriminate].
    apply (lexes_app _ _ true _ _ true (IHb Wb)); [|intros _; reflexivity].
    intros r f _. apply lexes_close. discriminate.
  - destruct W as [Wa Wb].
    apply (lexes_app _ _ false _ _ true lexes_open); [|discriminate].
    apply (lexes_app _ _ true _ _ true (IHa Wa)); [|intros _; reflexivity].
    apply (lexes_app _ _ false _ _ true lexes_div); [|discriminate].
    apply (lexes_app _ _ true _ _ true (IHb Wb)); [|intros _; reflexivity].
    intros r f _. apply lexes_close. discriminate.
  - destruct W as [Wa Wn]. rewrite (exp_toks_sexp neg d ds Wn).
    apply (lexes_app _ _ false _ _ true lexes_open); [|discriminate].
    apply (lexes_app _ _ true _ _ true (IHa Wa)); [|intros _; reflexivity].
    replace ([TRp; TPow] ++ ([TLp] ++ stoks_exp neg d ds ++ [TRp]) ++ [TRp])
      with ([TRp; TPow; TLp] ++ (if neg then [TMinus] else []) ++ [TNum (inject_Z (horner 0 (d :: ds)))] ++ [TRp; TRp])
      by (unfold stoks_exp; destruct neg; reflexivity).
    apply (lexes_app _ _ false _ _ true lexes_pow); [|discriminate].
    apply (lexes_app (if neg then lit "-" else []) (if neg then [TMinus] else []) false _ _ true); [destruct neg; [apply lexes_minus | apply lexes_nil]| |discriminate].
    apply (lexes_app _ _ true _ _ true (lexes_number d ds)); [|intros _; reflexivity].
    intros r f _. apply lexes_close. discriminate.
Qed.

Theorem text_roundtrip : forall s, swf s -> parse_text (string_of_list_ascii (chars s)) = inr (den s).
Proof.
  intros s W. unfold parse_text. rewrite list_ascii_of_string_of_list_ascii.
  destruct (lex_chars s W [] (S (List.length (chars s)))) as [f' [Lf E]]; [intros _; exact I | rewrite app_nil_r; lia |].
  rewrite app_nil_r in E. rewrite E. destruct f' as [|f']; [cbn in Lf; lia|]. cbn [lex option_map]. rewrite app_nil_r.
  pose proof (parse_toks (den s)) as P.
  assert (Wd : wf (den s)).
  { clear -W. induction s; cbn in *; intuition. }
  specialize (P Wd (S (List.length (toks (den s)))) [] ). rewrite app_nil_r in P. rewrite P; [reflexivity| |exact I].
  pose proof (depth_le_toks (den s)). lia.
Qed.

(** [conv_text] on rendered texts is [conv_ctx] on the expressions *)
Theorem text_roundtrip_conv : forall c sa sb, swf sa -> swf sb ->
  conv_text c (string_of_list_ascii (chars sa)) (string_of_list_ascii (chars sb)) = conv_ctx c (den sa) (den sb).
Proof. intros c sa sb Wa Wb. unfold conv_text. rewrite (text_roundtrip sa Wa), (text_roundtrip sb Wb). reflexivity. Qed.

(** which atoms are canonical: every SI prefix spelling (or none) on every unit name of the registry that is its own spelling *)
Definition atom_ok (p b : string) : bool :=
  ident_ok (lit (p ++ b)%string) &&
  match resolve_ident (p ++ b)%string with Some (p', b') => String.eqb p p' && String.eqb b b' | None => false end.
Definition spellable_units (c : cctx) : list string :=
  filter (fun b => match assoc b ident_table with Some b' => String.eqb b b' | None => false end) (map fst (table c)).
Definition prefix_names : list string := "" :: map fst prefix_table.

Lemma atom_ok_swf : forall p b, atom_ok p b = true -> swf (SAtom p b).
Proof.
  intros p b H. unfold atom_ok in H. apply andb_true_iff in H. destruct H as [H1 H2]. cbn [swf]. split; [exact H1|].
  destruct (resolve_ident (p ++ b)%string) as [[p' b']|]; [|discriminate].
  apply andb_true_iff in H2. destruct H2 as [E1 E2]. apply String.eqb_eq in E1. apply String.eqb_eq in E2. subst. reflexivity.
Qed.

Lemma canonical_atoms : forall c p b, In p prefix_names -> In b (spellable_units c) -> swf (SAtom p b).
Proof.
  intros c p b Hp Hb. apply atom_ok_swf.
  assert (A : forallb (fun p => forallb (fun b => atom_ok p b) (spellable_units c)) prefix_names = true) by (destruct c; vm_compute; reflexivity).
  rewrite forallb_forall in A. specialize (A p Hp). rewrite forallb_forall in A. exact (A b Hb).
Qed.
