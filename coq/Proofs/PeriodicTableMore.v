(** C01: completeness of the cascade (whatever is justified is accepted) and the meaning of the
    default-isotope rule checked against the raw data. *)
From Coq Require Import ZArith NArith List String Ascii Bool Lia.
Require Import QV.Common.Outcome QV.Common.PyAscii.
Require Import QV.Gen.PTable QV.Gen.Srd144 QV.Model.PeriodicTable QV.Proofs.PeriodicTable.
Import ListNotations.
Open Scope Z_scope.

Opaque pt_Z pt_E pt_name pt_EE pt_EA pt_A pt_mass pt_mass_str srd_elements srd_names srd_longest_lived.

(** dict(zip(ks, vs)) has every key that is paired with some value *)
Lemma zip_get_some {K V} (eqb : K -> K -> bool) (refl : forall a, eqb a a = true) k :
  forall ks (vs : list V) acc,
    (acc <> None \/ exists v, In (k, v) (combine ks vs)) -> zip_get eqb k ks vs acc <> None.
Proof.
  induction ks as [|k' kr IH]; intros vs acc H; simpl.
  - destruct H as [H|[v []]]; exact H.
  - destruct vs as [|v' vr].
    + destruct H as [H|[v []]]; exact H.
    + apply IH. destruct H as [H|[v [H|H]]].
      * left. destruct (eqb k k'); [discriminate|exact H].
      * left. inversion H; subst. rewrite refl. discriminate.
      * right. exists v. exact H.
Qed.

Lemma sdict_some {V} ks (vs : list V) k v : In (k, v) (combine ks vs) -> sdict ks vs k <> None.
Proof. intro H. apply (zip_get_some _ String.eqb_refl). right. eauto. Qed.
Lemma zdict_some {V} ks (vs : list V) k v : In (k, v) (combine ks vs) -> zdict ks vs k <> None.
Proof. intro H. apply (zip_get_some _ Z.eqb_refl). right. eauto. Qed.

(** every key has a mass (the arrays have equal lengths): finite fact *)
Lemma keys_have_mass : forallb (fun k => match eliso2mass k with Some _ => true | None => false end) pt_EA = true.
Proof. vm_compute. reflexivity. Qed.

(** anything that names a species by one of the three routes is accepted *)
Lemma resolve_accepts x k : justified x k -> exists k', resolve x false = Ok k'.
Proof.
  intro J.
  assert (R : exists k', resolve_eliso x = Ok k').
  { destruct J as [J|[J|J]].
    - destruct J as [s [Ex [Ek I]]]. subst x k. unfold resolve_eliso.
      pose proof (proj1 (forallb_forall _ _) keys_have_mass _ I) as M. cbv beta in M.
      destruct (eliso2mass (capitalize s)); [eexists; reflexivity|discriminate].
    - destruct J as [z [P I]].
      assert (Z2 : z2el z <> None) by (unfold z2el; eapply zdict_some, I).
      assert (S2 : exists k', step2 x = Ok k').
      { unfold step2. rewrite P. destruct (z2el z); [eexists; reflexivity|congruence]. }
      destruct x as [z'|s]; unfold resolve_eliso; [exact S2|].
      destruct (eliso2mass (capitalize s)); [eexists; reflexivity|exact S2].
    - destruct J as [s [Ex I]]. subst x.
      assert (N : element2el (capitalize s) <> None) by (unfold element2el; eapply sdict_some, I).
      assert (S3 : exists k', step3 (PStr s) = Ok k').
      { unfold step3. destruct (element2el (capitalize s)); [eexists; reflexivity|congruence]. }
      assert (S2 : exists k', step2 (PStr s) = Ok k').
      { unfold step2. destruct (pyint (PStr s)) as [z|]; [|exact S3].
        destruct (z2el z); [eexists; reflexivity|exact S3]. }
      unfold resolve_eliso. destruct (eliso2mass (capitalize s)); [eexists; reflexivity|exact S2]. }
  destruct R as [k' R]. exists k'. unfold resolve. rewrite R. reflexivity.
Qed.

(** accepted iff it names something *)
Lemma resolve_accepts_iff x : (exists k, resolve x false = Ok k) <-> (exists k, justified x k).
Proof.
  split.
  - intros [k H]. exists k. eapply resolve_sound, H.
  - intros [k J]. eapply resolve_accepts, J.
Qed.

(* ------------------------------------------------------------------------------------------ *)
(** the default-isotope rule means what it says, on the raw data: the chosen isotope is one of the element's
    isotopes; if any isotope has a positive composition, the chosen one has a composition that no other exceeds;
    otherwise no isotope has a positive composition and the chosen one has the tabulated longest-lived mass number *)
Definition iso_eqb (a b : srd_iso) : bool :=
  match a, b with
  | (s1, a1, m1, c1), (s2, a2, m2, c2) =>
      String.eqb s1 s2 && String.eqb a1 a2 && String.eqb m1 m2 &&
      match c1, c2 with Some x, Some y => String.eqb x y | None, None => true | _, _ => false end
  end.

Definition comp_pos (i : srd_iso) : bool := match i_comp i with Some c => dec_gt c (0, 0) | None => false end.

Definition default_rule_ok (e : srd_elem) : bool :=
  match default_iso e with
  | None => false
  | Some i =>
      existsb (iso_eqb i) (e_isos e) &&
      if existsb comp_pos (e_isos e)
      then match i_comp i with
           | Some ci => forallb (fun j => match i_comp j with Some cj => negb (dec_gt cj ci) | None => true end) (e_isos e)
           | None => false
           end
      else match assoc_s (e_sym e) srd_longest_lived, i_A i with
           | Some a, Some ai => Z.eqb a ai
           | _, _ => false
           end
  end.

Lemma all_default_rule_ok : forallb default_rule_ok srd_elements = true.
Proof. vm_compute. reflexivity. Qed.

Lemma iso_eqb_true a b : iso_eqb a b = true -> a = b.
Proof.
  destruct a as [[[s1 a1] m1] c1], b as [[[s2 a2] m2] c2]. simpl.
  rewrite !andb_true_iff, !String.eqb_eq. intros [[[-> ->] ->] C].
  destruct c1, c2; try discriminate; [apply String.eqb_eq in C; now subst|reflexivity].
Qed.

Lemma default_rule e :
  In e srd_elements ->
  exists i, default_iso e = Some i /\ In i (e_isos e) /\
    ((exists j, In j (e_isos e) /\ comp_pos j = true) ->
       exists ci, i_comp i = Some ci /\ forall j cj, In j (e_isos e) -> i_comp j = Some cj -> dec_gt cj ci = false) /\
    ((forall j, In j (e_isos e) -> comp_pos j = false) ->
       exists a, assoc_s (e_sym e) srd_longest_lived = Some a /\ i_A i = Some a).
Proof.
  intro H. pose proof (proj1 (forallb_forall _ _) all_default_rule_ok _ H) as A. unfold default_rule_ok in A.
  destruct (default_iso e) as [i|]; [|discriminate]. exists i. split; [reflexivity|].
  rewrite andb_true_iff in A. destruct A as [M A].
  apply existsb_exists in M. destruct M as [i' [I' Q]]. apply iso_eqb_true in Q. subst i'.
  split; [exact I'|]. split.
  - intros [j [Ij Pj]].
    assert (X : existsb comp_pos (e_isos e) = true) by (apply existsb_exists; eauto).
    rewrite X in A. destruct (i_comp i) as [ci|]; [|discriminate]. exists ci; split; [reflexivity|].
    intros j' cj Ij' Cj. rewrite forallb_forall in A. specialize (A _ Ij'). rewrite Cj in A.
    now apply negb_true_iff in A.
  - intros N.
    assert (X : existsb comp_pos (e_isos e) = false).
    { destruct (existsb comp_pos (e_isos e)) eqn:X; [|reflexivity].
      apply existsb_exists in X. destruct X as [j [Ij Pj]]. rewrite (N _ Ij) in Pj. discriminate. }
    rewrite X in A. destruct (assoc_s (e_sym e) srd_longest_lived) as [a|]; [|discriminate].
    destruct (i_A i) as [ai|]; [|discriminate]. apply Z.eqb_eq in A. subst. eauto.
Qed.
