(** The executable validator of Common/JsonS.v decides the relation [Valid] whenever it returns a
    verdict (it returns [Err] only when it runs out of fuel or meets an unresolvable $ref). *)
From Coq Require Import ZArith NArith QArith List String Bool.
Require Import QV.Common.Outcome QV.Common.JsonS.
Import ListNotations.

Lemma all_o_true : forall l, all_o l = Ok true -> forall x, In x l -> x = Ok true.
Proof.
  induction l as [|a l IH]; simpl; intros H x Hx; [contradiction|].
  destruct a as [a|k]; [|discriminate].
  destruct (all_o l) as [b|k] eqn:E; [|discriminate].
  injection H as H1. apply andb_true_iff in H1. destruct H1 as [Ha Hb]. subst.
  destruct Hx as [<-|Hx]; [reflexivity|]. apply IH; auto.
Qed.

Lemma all_o_false : forall l, all_o l = Ok false -> exists x, In x l /\ x = Ok false.
Proof.
  induction l as [|a l IH]; simpl; intros H; [discriminate|].
  destruct a as [a|k]; [|discriminate].
  destruct (all_o l) as [b|k] eqn:E; [|discriminate].
  injection H as H1. apply andb_false_iff in H1. destruct H1 as [Ha|Hb]; subst.
  - exists (Ok false). split; [left|]; reflexivity.
  - destruct (IH eq_refl) as [x [Hx Hf]]. exists x. split; [right|]; assumption.
Qed.

Lemma any_o_true : forall l, any_o l = Ok true -> exists x, In x l /\ x = Ok true.
Proof.
  induction l as [|a l IH]; simpl; intros H; [discriminate|].
  destruct a as [a|k]; [|discriminate].
  destruct (any_o l) as [b|k] eqn:E; [|discriminate].
  injection H as H1. apply orb_true_iff in H1. destruct H1 as [Ha|Hb]; subst.
  - exists (Ok true). split; [left|]; reflexivity.
  - destruct (IH eq_refl) as [x [Hx Hf]]. exists x. split; [right|]; assumption.
Qed.

Lemma any_o_false : forall l, any_o l = Ok false -> forall x, In x l -> x = Ok false.
Proof.
  induction l as [|a l IH]; simpl; intros H x Hx; [contradiction|].
  destruct a as [a|k]; [|discriminate].
  destruct (any_o l) as [b|k] eqn:E; [|discriminate].
  injection H as H1. apply orb_false_iff in H1. destruct H1 as [Ha Hb]. subst.
  destruct Hx as [<-|Hx]; [reflexivity|]. apply IH; auto.
Qed.

Lemma assoc_In : forall A k (l : list (string * A)) v, assoc k l = Some v -> In (k, v) l.
Proof.
  induction l as [|[k' w] l IH]; simpl; intros v H; [discriminate|].
  destruct (String.eqb k k') eqn:E.
  - apply String.eqb_eq in E. inversion H. subst. left. reflexivity.
  - right. apply IH. assumption.
Qed.

(** a verdict [true] is a proof of validity *)
Theorem validates_sound : forall n defs S j, validates n defs S j = Ok true -> Valid defs S j.
Proof.
  induction n as [|n IH]; intros defs S j H; simpl in H; [discriminate|].
  destruct S; try (apply V_leaf; inversion H; reflexivity).
  - (* SAll *) apply V_all. intros s Hs. apply IH.
    apply (all_o_true _ H). apply in_map_iff. exists s. split; [reflexivity|assumption].
  - (* SAnyOf *) destruct (any_o_true _ H) as [x [Hx Hv]]. apply in_map_iff in Hx.
    destruct Hx as [s [Hs1 Hs2]]. subst x. eapply V_any; [exact Hs2|]. apply IH. assumption.
  - (* SRef *) destruct (assoc name defs) as [s|] eqn:E; [|discriminate].
    eapply V_ref; [exact E|]. apply IH. assumption.
  - (* SObj *) destruct j; try (apply V_obj_other; reflexivity).
    apply V_obj. intros k v s Hin He. apply IH.
    assert (Hx := all_o_true _ H (match entry_schema props addl (fst (k, v)) with
                                  | Some s0 => validates n defs s0 (snd (k, v)) | None => Ok true end)).
    simpl in Hx. rewrite He in Hx. apply Hx.
    apply in_map_iff. exists (k, v). simpl. rewrite He. split; [reflexivity|assumption].
  - (* SItems *) destruct j; try (apply V_items_other; reflexivity).
    apply V_items. intros x Hx. apply IH. apply (all_o_true _ H).
    apply in_map_iff. exists x. split; [reflexivity|assumption].
  - (* SItemsTuple *) destruct j; try (apply V_tuple_other; reflexivity).
    apply V_tuple. intros s x Hx. apply IH.
    apply (all_o_true _ H). apply in_map_iff. exists (s, x). split; [reflexivity|assumption].
Qed.

(** a verdict [false] is a refutation of validity *)
Theorem validates_complete : forall n defs S j, validates n defs S j = Ok false -> ~ Valid defs S j.
Proof.
  induction n as [|n IH]; intros defs S j H V; simpl in H; [discriminate|].
  destruct S;
    try (inversion V; subst; match goal with
                             | L : leaf_check _ _ = true |- _ => simpl in L; inversion H; congruence
                             end).
  - (* SAll *) inversion V; subst; [|match goal with L : leaf_check _ _ = true |- _ => simpl in L; discriminate end].
    destruct (all_o_false _ H) as [x [Hx Hf]]. apply in_map_iff in Hx. destruct Hx as [s [Hs1 Hs2]].
    subst x. eapply IH; [exact Hf|]. auto.
  - (* SAnyOf *) inversion V; subst; [|match goal with L : leaf_check _ _ = true |- _ => simpl in L; discriminate end].
    eapply IH; [|eassumption]. apply (any_o_false _ H). apply in_map_iff. eexists. split; [reflexivity|eassumption].
  - (* SRef *) inversion V; subst; [|match goal with L : leaf_check _ _ = true |- _ => simpl in L; discriminate end].
    match goal with Ha : assoc _ _ = Some _ |- _ => rewrite Ha in H end. eapply IH; eassumption.
  - (* SObj *) inversion V; subst;
      [| match goal with Hno : is_obj _ = false |- _ => destruct j; simpl in Hno; discriminate end
       | match goal with L : leaf_check _ _ = true |- _ => simpl in L; discriminate end].
    destruct (all_o_false _ H) as [x [Hx Hf]]. apply in_map_iff in Hx. destruct Hx as [[k v] [Hs1 Hs2]].
    simpl in Hs1. destruct (entry_schema props addl k) as [s|] eqn:E; [|subst x; discriminate].
    subst x. eapply IH; [exact Hf|]. eauto.
  - (* SItems *) inversion V; subst;
      [| match goal with Hno : is_arr _ = false |- _ => destruct j; simpl in Hno; discriminate end
       | match goal with L : leaf_check _ _ = true |- _ => simpl in L; discriminate end].
    destruct (all_o_false _ H) as [x [Hx Hf]]. apply in_map_iff in Hx. destruct Hx as [y [Hs1 Hs2]].
    subst x. eapply IH; [exact Hf|]. auto.
  - (* SItemsTuple *) inversion V; subst;
      [| match goal with Hno : is_arr _ = false |- _ => destruct j; simpl in Hno; discriminate end
       | match goal with L : leaf_check _ _ = true |- _ => simpl in L; discriminate end].
    destruct (all_o_false _ H) as [x [Hx Hf]]. apply in_map_iff in Hx. destruct Hx as [[s y] [Hs1 Hs2]].
    subst x. eapply IH; [exact Hf|]. auto.
Qed.

Lemma assoc_strip : forall name defs s, assoc name defs = Some s ->
                                        assoc name (strip_defs defs) = Some (strip_unique s).
Proof.
  induction defs as [|[k w] d IH]; simpl; intros s H; [discriminate|].
  destruct (String.eqb name k); [inversion H; reflexivity|]. apply IH. assumption.
Qed.

Lemma entry_schema_strip : forall ps ap k,
    entry_schema (map (fun ks => (fst ks, strip_unique (snd ks))) ps)
                 (match ap with Some s => Some (strip_unique s) | None => None end) k
    = match entry_schema ps ap k with Some s => Some (strip_unique s) | None => None end.
Proof.
  intros ps ap k. unfold entry_schema.
  assert (H : assoc k (map (fun ks : string * schema => (fst ks, strip_unique (snd ks))) ps)
              = match assoc k ps with Some s => Some (strip_unique s) | None => None end).
  { induction ps as [|[k' s] ps IH]; simpl; [reflexivity|]. destruct (String.eqb k k'); [reflexivity|exact IH]. }
  rewrite H. destruct (assoc k ps); reflexivity.
Qed.

Lemma combine_strip : forall ss (l : list json) s' x,
    In (s', x) (combine (map strip_unique ss) l) -> exists s, s' = strip_unique s /\ In (s, x) (combine ss l).
Proof.
  induction ss as [|s0 ss IH]; intros l s' x H; simpl in H; [contradiction|].
  destruct l as [|y l]; simpl in H; [contradiction|]. destruct H as [H|H].
  - inversion H; subst. exists s0. split; [reflexivity|left; reflexivity].
  - destruct (IH _ _ _ H) as [s [H1 H2]]. exists s. split; [assumption|right; assumption].
Qed.

(** removing every "uniqueItems" only weakens a schema *)
Theorem strip_unique_weakens : forall defs S j, Valid defs S j -> Valid (strip_defs defs) (strip_unique S) j.
Proof.
  intros defs S j V. induction V.
  - simpl. apply V_all. intros s' Hs'. apply in_map_iff in Hs'. destruct Hs' as [s [<- Hs]]. auto.
  - simpl. eapply V_any; [apply in_map; eassumption|assumption].
  - simpl. eapply V_ref; [apply assoc_strip; eassumption|assumption].
  - simpl. apply V_obj. intros k v s' Hin He. rewrite entry_schema_strip in He.
    destruct (entry_schema ps ap k) as [s|] eqn:E; [|discriminate]. inversion He; subst. eauto.
  - simpl. apply V_obj_other. assumption.
  - simpl. apply V_items. auto.
  - simpl. apply V_items_other. assumption.
  - simpl. apply V_tuple. intros s' x Hx. destruct (combine_strip _ _ _ _ Hx) as [s [-> Hs]]. eauto.
  - simpl. apply V_tuple_other. assumption.
  - destruct S; simpl in *; try discriminate; try (apply V_leaf; assumption).
    apply V_all. intros s [].
Qed.
