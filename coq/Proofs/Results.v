(** C20 — proofs about Model/Results.v (protocol filters, reshape rules). *)
From Coq Require Import ZArith List String Bool Ascii Lia.
Require Import QV.Common.Outcome QV.Gen.KeepLists QV.Model.Results.
Import ListNotations.
Local Open Scope string_scope.
Local Open Scope list_scope.
Local Open Scope Z_scope.

(** * Dictionaries *)
Section DictLemmas.
  Context {V : Type}.
  Implicit Types (d : list (string * V)) (k : string).

  Lemma dget_dset_same k v d : dget k (dset k v d) = Some v.
  Proof.
    induction d as [|[k' v'] r IH]; simpl.
    - rewrite String.eqb_refl. reflexivity.
    - destruct (String.eqb_spec k k'); simpl.
      + rewrite String.eqb_refl. reflexivity.
      + destruct (String.eqb_spec k k'); [contradiction|]. exact IH.
  Qed.

  Lemma dget_dset_other k k' v d : k <> k' -> dget k (dset k' v d) = dget k d.
  Proof.
    intros Hne. induction d as [|[k2 v2] r IH]; simpl.
    - destruct (String.eqb_spec k k'); [contradiction|reflexivity].
    - destruct (String.eqb_spec k' k2); simpl.
      + subst k2. destruct (String.eqb_spec k k'); [contradiction|reflexivity].
      + destruct (String.eqb_spec k k2); [reflexivity|exact IH].
  Qed.

  Lemma dget_dset k k' v d : dget k (dset k' v d) = if String.eqb k k' then Some v else dget k d.
  Proof.
    destruct (String.eqb_spec k k').
    - subst. apply dget_dset_same.
    - apply dget_dset_other; assumption.
  Qed.

  Lemma dget_filter_key (f : string -> bool) k d :
    dget k (filter (fun kv => f (fst kv)) d) = if f k then dget k d else None.
  Proof.
    induction d as [|[k' v'] r IH]; simpl.
    - destruct (f k); reflexivity.
    - destruct (f k') eqn:Hf; simpl.
      + destruct (String.eqb_spec k k').
        * subst. rewrite Hf. reflexivity.
        * exact IH.
      + destruct (String.eqb_spec k k').
        * subst. rewrite Hf in IH |- *. exact IH.
        * exact IH.
  Qed.

  Lemma dget_In k d : dget k d <> None <-> In k (keys d).
  Proof.
    induction d as [|[k' v'] r IH]; simpl.
    - split; [intro H; congruence|intros []].
    - destruct (String.eqb_spec k k').
      + subst. split; [intros _; left; reflexivity|intros _; discriminate].
      + rewrite IH. split; [intro; right; assumption|intros [E|H]; [congruence|assumption]].
  Qed.

  Lemma filter_filter_same (f : string * V -> bool) d : filter f (filter f d) = filter f d.
  Proof.
    induction d as [|x r IH]; simpl; [reflexivity|].
    destruct (f x) eqn:E; simpl; [rewrite E, IH; reflexivity|exact IH].
  Qed.
End DictLemmas.

Definition is_some {A} (o : option A) : bool := match o with Some _ => true | None => false end.

(** * The wavefunction protocol filter *)

(** [ret] holds only entries of [w] *)
Definition agrees (ret w : wdict) : Prop := forall k v, dget k ret = Some v -> dget k w = Some v.

(** the keys selected by the pointer-following loop: each present pointer of the keep list and its target *)
Definition selb (l : list string) (w : wdict) (k : string) : bool :=
  existsb (fun rk => match dget rk w with
                     | Some (WStr key) => String.eqb k rk || String.eqb k key
                     | _ => false
                     end) l.

Lemma agrees_dset ret w k v : agrees ret w -> dget k w = Some v -> agrees (dset k v ret) w.
Proof.
  intros A H k' v'. rewrite dget_dset. destruct (String.eqb_spec k' k).
  - subst. intro E. inversion E. subst. exact H.
  - apply A.
Qed.

Lemma keep_loop_spec l w : forall ret ret',
  keep_loop l w ret = Ok ret' -> agrees ret w ->
  agrees ret' w /\
  forall k, dget k ret' = if is_some (dget k ret) || selb l w k then dget k w else None.
Proof.
  induction l as [|rk r IH]; intros ret ret' H A; simpl in H.
  - inversion H; subst ret'. split; [exact A|]. intro k. simpl. rewrite orb_false_r.
    destruct (dget k ret) eqn:E; simpl; [symmetry; apply A; exact E|reflexivity].
  - destruct (dget rk w) as [[| b | n | key | a]|] eqn:Erk; try discriminate.
    + (* WNone *) destruct (IH _ _ H A) as [A' S]. split; [exact A'|]. intro k. rewrite S. simpl. rewrite Erk. reflexivity.
    + (* WStr key *)
      destruct (dget key w) as [v|] eqn:Ekey; [|discriminate].
      assert (A1 : agrees (dset key v (dset rk (WStr key) ret)) w).
      { apply agrees_dset; [apply agrees_dset; assumption|assumption]. }
      destruct (IH _ _ H A1) as [A' S]. split; [exact A'|]. intro k. rewrite S. simpl. rewrite Erk.
      rewrite !dget_dset.
      destruct (String.eqb_spec k key) as [E1|N1]; destruct (String.eqb_spec k rk) as [E2|N2]; simpl;
        destruct (is_some (dget k ret)); destruct (selb r w k); simpl; reflexivity.
    + (* absent *) destruct (IH _ _ H A) as [A' S]. split; [exact A'|]. intro k. rewrite S. simpl. rewrite Erk. reflexivity.
Qed.

Lemma ends_b_restricted : ends_with "_b" "restricted" = false. Proof. reflexivity. Qed.
Lemma ends_b_basis : ends_with "_b" "basis" = false. Proof. reflexivity. Qed.

Lemma dget_drop_b k (w : wdict) : dget k (drop_b w) = if ends_with "_b" k then None else dget k w.
Proof.
  unfold drop_b. rewrite (dget_filter_key (fun k => negb (ends_with "_b" k))).
  destruct (ends_with "_b" k); reflexivity.
Qed.

(** the dictionary the protocol branch works on: beta quantities removed iff restricted *)
Definition after_restricted (r : wval) (w : wdict) : wdict := if truthy r then drop_b w else w.

Lemma dget_after_restricted r w k :
  dget k (after_restricted r w) = if truthy r && ends_with "_b" k then None else dget k w.
Proof.
  unfold after_restricted. destruct (truthy r); simpl; [apply dget_drop_b|reflexivity].
Qed.

Lemma agrees_ret_init r w : dget "restricted" w = Some r -> agrees (ret_init r w) w.
Proof.
  intros Hr k v. unfold ret_init. destruct (dget "basis" w) as [b|] eqn:Eb; simpl.
  - destruct (String.eqb_spec k "restricted"); [subst; intro E; inversion E; subst; exact Hr|].
    destruct (String.eqb_spec k "basis"); [subst; intro E; inversion E; subst; exact Eb|discriminate].
  - destruct (String.eqb_spec k "restricted"); [subst; intro E; inversion E; subst; exact Hr|discriminate].
Qed.

Lemma dget_ret_init r w k :
  is_some (dget k (ret_init r w)) = String.eqb k "restricted" || (String.eqb k "basis" && is_some (dget "basis" w)).
Proof.
  unfold ret_init. destruct (dget "basis" w) as [b|]; simpl.
  - destruct (String.eqb k "restricted"); simpl; [reflexivity|].
    destruct (String.eqb k "basis"); reflexivity.
  - destruct (String.eqb k "restricted"); simpl; [reflexivity|]. rewrite andb_false_r. reflexivity.
Qed.

(** the keys a keep-list protocol retains *)
Definition keptb (l : list string) (w1 : wdict) (k : string) : bool :=
  String.eqb k "restricted" || (String.eqb k "basis" && is_some (dget "basis" w1)) || selb l w1 k.

(** ** kept exactly *)
Theorem wfn_filter_keep_list l w w' :
  wfn_filter (KeepList l) w = Ok (Some w') ->
  exists r, dget "restricted" w = Some r /\ r <> WNone /\
    let w1 := after_restricted r w in
    (forall k, dget k w' = if keptb l w1 k then dget k w1 else None)
    /\ (forall k v, dget k w' = Some v -> dget k w = Some v)
    /\ (truthy r = true -> forall k, dget k w' <> None -> ends_with "_b" k = false).
Proof.
  unfold wfn_filter. destruct (dget "restricted" w) as [r|] eqn:Hr; [|discriminate].
  destruct r eqn:Er; try discriminate; rewrite <- Er in *;
  (intro H; exists r; split; [reflexivity|]; split; [subst r; discriminate|];
   fold (after_restricted r w) in H;
   destruct (keep_loop l (after_restricted r w) (ret_init r (after_restricted r w))) as [ret'|] eqn:HL;
     simpl in H; [|discriminate]; inversion H; subst ret'; clear H;
   assert (Hr1 : dget "restricted" (after_restricted r w) = Some r)
     by (rewrite dget_after_restricted, ends_b_restricted, andb_false_r; exact Hr);
   destruct (keep_loop_spec _ _ _ _ HL (agrees_ret_init _ _ Hr1)) as [A S];
   assert (P2 : forall k v, dget k w' = Some v -> dget k w = Some v)
     by (intros k v E; apply A in E; rewrite dget_after_restricted in E;
         destruct (truthy r && ends_with "_b" k); [discriminate|exact E]);
   split; [intro k; rewrite S, dget_ret_init; reflexivity|];
   split; [exact P2|];
   intros Ht k Hk; destruct (dget k w') as [v|] eqn:E; [|congruence];
   apply A in E; rewrite dget_after_restricted, Ht in E; simpl in E;
   destruct (ends_with "_b" k); [discriminate|reflexivity]).
Qed.

Theorem wfn_filter_keep_all w w' :
  wfn_filter KeepAll w = Ok (Some w') ->
  exists r, dget "restricted" w = Some r /\ r <> WNone /\ w' = after_restricted r w
    /\ (forall k, dget k w' = if truthy r && ends_with "_b" k then None else dget k w).
Proof.
  unfold wfn_filter. destruct (dget "restricted" w) as [r|] eqn:Hr; [|discriminate].
  destruct r eqn:Er; try discriminate; rewrite <- Er in *;
  (intro H; inversion H; exists r; split; [reflexivity|]; split; [subst r; discriminate|];
   split; [reflexivity|]; intro k; apply dget_after_restricted).
Qed.

Theorem wfn_filter_keep_nothing w o : wfn_filter KeepNothing w = Ok o -> o = None.
Proof.
  unfold wfn_filter. destruct (dget "restricted" w) as [[]|]; try discriminate; intro H; inversion H; reflexivity.
Qed.

(** ** idempotence of the wavefunction filter *)
Lemma keep_loop_ext l wa wb : (forall k, dget k wa = dget k wb) ->
  forall ret, keep_loop l wa ret = keep_loop l wb ret.
Proof.
  intro E. induction l as [|rk r IH]; intro ret; simpl; [reflexivity|].
  rewrite (E rk). destruct (dget rk wb) as [[| | | key |]|]; try reflexivity; try apply IH.
  rewrite (E key). destruct (dget key wb); [apply IH|reflexivity].
Qed.

Definition ptr_ok (w : wdict) (rk : string) : Prop :=
  match dget rk w with
  | None | Some WNone => True
  | Some (WStr key) => dget key w <> None
  | Some _ => False
  end.

Lemma keep_loop_ok_iff l w : forall ret,
  (exists ret', keep_loop l w ret = Ok ret') <-> (forall rk, In rk l -> ptr_ok w rk).
Proof.
  induction l as [|rk r IH]; intro ret; simpl.
  - split; [intros _ ? []|intros _; eexists; reflexivity].
  - split.
    + intros [ret' H] rk' [E|Hin].
      * subst rk'. unfold ptr_ok. destruct (dget rk w) as [[| | | key |]|]; try discriminate; try exact I.
        destruct (dget key w); [discriminate|discriminate H].
      * unfold ptr_ok in *. destruct (dget rk w) as [[| | | key |]|] eqn:E; try discriminate;
          try (apply (proj1 (IH ret)); [eexists; exact H|exact Hin]).
        destruct (dget key w) as [v|]; [|discriminate].
        apply (proj1 (IH (dset key v (dset rk (WStr key) ret)))); [eexists; exact H|exact Hin].
    + intro Hall. assert (Hrk := Hall rk (or_introl eq_refl)). unfold ptr_ok in Hrk.
      assert (Hr : forall rk0, In rk0 r -> ptr_ok w rk0) by (intros; apply Hall; right; assumption).
      destruct (dget rk w) as [[| | | key |]|]; try contradiction; try (apply IH; exact Hr).
      destruct (dget key w) as [v|]; [apply IH; exact Hr|congruence].
Qed.

Lemma selb_true l w k : selb l w k = true <->
  exists rk key, In rk l /\ dget rk w = Some (WStr key) /\ (k = rk \/ k = key).
Proof.
  unfold selb. rewrite existsb_exists. split.
  - intros [rk [Hin H]]. destruct (dget rk w) as [[| | | key |]|] eqn:E; try discriminate.
    exists rk, key. split; [exact Hin|]. split; [exact E|].
    apply orb_true_iff in H. destruct H as [H|H]; apply String.eqb_eq in H; auto.
  - intros [rk [key [Hin [E H]]]]. exists rk. split; [exact Hin|]. rewrite E.
    apply orb_true_iff. destruct H; subst; rewrite String.eqb_refl; auto.
Qed.

Theorem wfn_filter_idempotent act w w' :
  wfn_filter act w = Ok (Some w') ->
  exists w'', wfn_filter act w' = Ok (Some w'') /\ forall k, dget k w'' = dget k w'.
Proof.
  destruct act as [| |l].
  - (* all *)
    intro H. destruct (wfn_filter_keep_all _ _ H) as [r [Hr [Hn [Ew S]]]].
    assert (Hr' : dget "restricted" w' = Some r).
    { rewrite S, ends_b_restricted, andb_false_r. exact Hr. }
    exists w'. split; [|reflexivity].
    assert (Idem : after_restricted r w' = w').
    { subst w'. unfold after_restricted. destruct (truthy r); [unfold drop_b; apply filter_filter_same|reflexivity]. }
    unfold wfn_filter. rewrite Hr'. fold (after_restricted r w'). rewrite Idem.
    destruct r; try congruence; reflexivity.
  - intro H. apply wfn_filter_keep_nothing in H. discriminate.
  - intro H. destruct (wfn_filter_keep_list _ _ _ H) as [r [Hr [Hn [S [P2 P3]]]]]. cbv zeta in S.
    set (w1 := after_restricted r w) in *.
    assert (Hr1 : dget "restricted" w1 = Some r).
    { unfold w1. rewrite dget_after_restricted, ends_b_restricted, andb_false_r. exact Hr. }
    assert (Hr' : dget "restricted" w' = Some r).
    { rewrite S. unfold keptb. simpl. exact Hr1. }
    (* the second run works on a dictionary that is extensionally w' *)
    assert (E1 : forall k, dget k (after_restricted r w') = dget k w').
    { intro k. rewrite dget_after_restricted. destruct (truthy r) eqn:Ht; simpl; [|reflexivity].
      destruct (ends_with "_b" k) eqn:Eb; [|reflexivity].
      destruct (dget k w') eqn:Ek; [|reflexivity].
      assert (Hk : dget k w' <> None) by congruence. rewrite (P3 eq_refl k Hk) in Eb. discriminate. }
    (* success of the original loop *)
    assert (OK1 : forall rk, In rk l -> ptr_ok w1 rk).
    { apply (proj1 (keep_loop_ok_iff l w1 (ret_init r w1))).
      unfold wfn_filter in H. rewrite Hr in H. fold (after_restricted r w) in H. fold w1 in H.
      destruct r; try congruence;
        (destruct (keep_loop l w1 _) eqn:HL; [eexists; reflexivity|discriminate H]). }
    assert (SEL : forall rk key, In rk l -> dget rk w1 = Some (WStr key) ->
                                 dget rk w' = Some (WStr key) /\ dget key w' = dget key w1).
    { intros rk key Hin E. split.
      - rewrite S. replace (keptb l w1 rk) with true; [exact E|]. symmetry. unfold keptb.
        apply orb_true_iff. right. apply selb_true. exists rk, key. auto.
      - rewrite S. replace (keptb l w1 key) with true; [reflexivity|]. symmetry. unfold keptb.
        apply orb_true_iff. right. apply selb_true. exists rk, key. auto. }
    assert (OK2 : forall rk, In rk l -> ptr_ok (after_restricted r w') rk).
    { intros rk Hin. unfold ptr_ok. rewrite E1. rewrite S. destruct (keptb l w1 rk); [|exact I].
      specialize (OK1 rk Hin). unfold ptr_ok in OK1.
      destruct (dget rk w1) as [[| | | key |]|] eqn:E; try contradiction; try exact I.
      rewrite E1. rewrite (proj2 (SEL rk key Hin E)). exact OK1. }
    destruct (proj2 (keep_loop_ok_iff l (after_restricted r w') (ret_init r (after_restricted r w'))) OK2) as [w'' HL2].
    exists w''. split.
    + unfold wfn_filter. rewrite Hr'. fold (after_restricted r w').
      destruct r; try congruence; rewrite HL2; reflexivity.
    + assert (Hr2 : dget "restricted" (after_restricted r w') = Some r) by (rewrite E1; exact Hr').
      destruct (keep_loop_spec _ _ _ _ HL2 (agrees_ret_init _ _ Hr2)) as [A2 S2].
      intro k. rewrite S2, dget_ret_init. fold (keptb l (after_restricted r w') k). rewrite (E1 k).
      destruct (keptb l (after_restricted r w') k) eqn:K2; [reflexivity|].
      destruct (dget k w') as [v|] eqn:Ek; [|reflexivity]. exfalso.
      (* k is kept by the first run, hence by the second *)
      rewrite S in Ek. destruct (keptb l w1 k) eqn:K1; [|discriminate].
      unfold keptb in K1, K2. rewrite !orb_false_iff in K2. destruct K2 as [[K2a K2b] K2c].
      rewrite K2a in K1. simpl in K1. apply orb_true_iff in K1. destruct K1 as [K1|K1].
      * apply andb_true_iff in K1. destruct K1 as [Kb Kv]. rewrite Kb in K2b. simpl in K2b.
        rewrite E1 in K2b. apply String.eqb_eq in Kb. subst k.
        rewrite S in K2b. unfold keptb in K2b. simpl in K2b. rewrite Kv in K2b. simpl in K2b.
        rewrite Kv in K2b. discriminate.
      * apply selb_true in K1. destruct K1 as [rk [key [Hin [E Hk]]]].
        assert (selb l (after_restricted r w') k = true); [|congruence].
        apply selb_true. exists rk, key. split; [exact Hin|]. split; [|exact Hk].
        rewrite E1. exact (proj1 (SEL rk key Hin E)).
Qed.

(** the filter fails closed: whatever it refuses, it refuses with a validation error *)
Lemma keep_loop_err l w : forall ret k, keep_loop l w ret = Err k -> k = Validation.
Proof.
  induction l as [|rk r IH]; intros ret k; simpl; [discriminate|].
  destruct (dget rk w) as [[| | | key |]|]; try (intro H; inversion H; reflexivity); try apply IH.
  destruct (dget key w); [apply IH|intro H; inversion H; reflexivity].
Qed.

Theorem wfn_filter_err act w k : wfn_filter act w = Err k -> k = Validation.
Proof.
  unfold wfn_filter. destruct (dget "restricted" w) as [r|]; [|intro H; inversion H; reflexivity].
  destruct r; try (intro H; inversion H; reflexivity);
    (destruct act as [| |l]; try discriminate;
     destruct (keep_loop l _ _) eqn:E; simpl; [discriminate|intro H; inversion H; subst; apply (keep_loop_err _ _ _ _ E)]).
Qed.

Theorem wfn_pre_err p v k : wfn_pre p v = Err k -> k = Validation.
Proof.
  unfold wfn_pre. destruct v as [w|]; [|discriminate]. destruct p as [p|]; [|intro H; inversion H; reflexivity].
  destruct (assoc String.eqb p wfn_keep_table); [apply wfn_filter_err|intro H; inversion H; reflexivity].
Qed.

Theorem wfn_stage_err p v k : wfn_stage p v = Err k -> k = Validation.
Proof.
  unfold wfn_stage. destruct (wfn_pre p v) as [o|k0] eqn:E; simpl.
  - destruct o as [w|]; [|discriminate].
    destruct (wfn_validate w) as [w'|k1] eqn:Ev; simpl; [discriminate|]. intro H; inversion H; subst. clear H.
    revert Ev. unfold wfn_validate. destruct (negb _); [intro H; inversion H; reflexivity|].
    destruct (fold_left _ _ _) as [vals bad]. destruct bad; intro H; inversion H; reflexivity.
  - intro H; inversion H; subst. apply (wfn_pre_err _ _ _ E).
Qed.

(** the pointer-following loop succeeds exactly when every selected pointer is absent, None, or a str naming a present key *)
Theorem wfn_filter_succeeds_iff l w r :
  dget "restricted" w = Some r -> r <> WNone ->
  ((exists w', wfn_filter (KeepList l) w = Ok (Some w')) <-> forall rk, In rk l -> ptr_ok (after_restricted r w) rk).
Proof.
  intros Hr Hn. unfold wfn_filter. rewrite Hr. fold (after_restricted r w).
  rewrite <- (keep_loop_ok_iff l (after_restricted r w) (ret_init r (after_restricted r w))).
  destruct r; try congruence;
    (destruct (keep_loop l _ _) as [x|k]; simpl; split;
     [intros [w' H]; eexists; reflexivity | intros [x' H]; eexists; reflexivity
      | intros [w' H]; discriminate | intros [x' H]; discriminate]).
Qed.

(** * stdout / native_files *)
Theorem stdout_spec v :
  stdout_protocol (Some true) v = Ok v /\ stdout_protocol (Some false) v = Ok None.
Proof. split; reflexivity. Qed.

Theorem stdout_idempotent p v v' : stdout_protocol p v = Ok v' -> stdout_protocol p v' = Ok v'.
Proof. destruct p as [[|]|]; simpl; intro H; inversion H; reflexivity. Qed.

Ltac case_key p :=
  repeat match goal with
         | |- context [String.eqb p ?s] => destruct (String.eqb_spec p s); [subst p; simpl|]
         | H : context [String.eqb p ?s] |- _ => destruct (String.eqb_spec p s); [subst p; simpl in H|]
         end.

Theorem native_spec (v : ndict) :
  native_protocol "all" v = Ok v /\ native_protocol "none" v = Ok []
  /\ native_protocol "input" v = Ok [("input", match dget "input" v with Some x => x | None => None end)].
Proof. repeat split; reflexivity. Qed.

Theorem native_idempotent p (v v' : ndict) : native_protocol p v = Ok v' -> native_protocol p v' = Ok v'.
Proof.
  unfold native_protocol, assoc, native_table; simpl. case_key p; simpl.
  - intro H; inversion H; reflexivity.
  - intro H; inversion H; reflexivity.
  - intro H; inversion H; reflexivity.
  - discriminate.
Qed.

(** * trajectory *)
Section TrajProofs.
  Context {A : Type}.
  Implicit Types (v l : list A) (x y : A).

  Lemma zlen_app l1 l2 : zlen (l1 ++ l2) = zlen l1 + zlen l2.
  Proof. unfold zlen. rewrite app_length. lia. Qed.
  Lemma zlen_cons x l : zlen (x :: l) = 1 + zlen l.
  Proof. unfold zlen. simpl List.length. lia. Qed.
  Lemma zlen_nonneg l : 0 <= zlen l. Proof. unfold zlen. lia. Qed.

  Lemma py_index_first x l : py_index (x :: l) 0 = Ok x.
  Proof.
    unfold py_index. rewrite zlen_cons. pose proof (zlen_nonneg l).
    change (0 <? 0) with false. cbv iota. change (0 <=? 0) with true. rewrite andb_true_l.
    assert (E : 0 <? 1 + zlen l = true) by (apply Z.ltb_lt; lia). rewrite E. reflexivity.
  Qed.

  Lemma py_index_last l y : py_index (l ++ [y]) (-1) = Ok y.
  Proof.
    unfold py_index. rewrite zlen_app. pose proof (zlen_nonneg l).
    replace (-1 <? 0) with true by reflexivity. cbv [zlen] in *. simpl List.length.
    replace (-1 + (Z.of_nat (List.length l) + Z.of_nat 1)) with (Z.of_nat (List.length l)) by lia.
    destruct (0 <=? Z.of_nat (List.length l)) eqn:E1; [|apply Z.leb_gt in E1; lia].
    destruct (Z.of_nat (List.length l) <? Z.of_nat (List.length l) + Z.of_nat 1) eqn:E2; [|apply Z.ltb_ge in E2; lia].
    simpl. rewrite Nat2Z.id. rewrite nth_error_app2 by lia. rewrite Nat.sub_diag. reflexivity.
  Qed.

  Definition act_final := TrajSelect true 1 [-1].
  Definition act_iaf := TrajSelect true 2 [0; -1].

  Lemma run_final_nil : traj_action_run act_final (@nil A) = Ok [].
  Proof. reflexivity. Qed.
  Lemma run_final_last l y : traj_action_run act_final (l ++ [y]) = Ok [y].
  Proof.
    unfold act_final, traj_action_run. destruct l as [|x l'].
    - reflexivity.
    - assert (E : zlen ((x :: l') ++ [y]) =? 1 = false).
      { apply Z.eqb_neq. rewrite zlen_app, zlen_cons. pose proof (zlen_nonneg l'). change (zlen [y]) with 1. lia. }
      simpl app. simpl app in E. rewrite E. simpl. change (x :: l' ++ [y]) with ((x :: l') ++ [y]).
      rewrite py_index_last. reflexivity.
  Qed.

  Lemma run_iaf_nil : traj_action_run act_iaf (@nil A) = Ok [].
  Proof. reflexivity. Qed.
  Lemma run_iaf_single x : traj_action_run act_iaf [x] = Ok [x; x].
  Proof. reflexivity. Qed.
  Lemma run_iaf_two x y : traj_action_run act_iaf [x; y] = Ok [x; y].
  Proof. reflexivity. Qed.
  Lemma run_iaf_many x l y : traj_action_run act_iaf (x :: l ++ [y]) = Ok [x; y].
  Proof.
    destruct l as [|z l'].
    - apply run_iaf_two.
    - unfold act_iaf, traj_action_run.
      assert (E : zlen (x :: (z :: l') ++ [y]) =? 2 = false).
      { apply Z.eqb_neq. rewrite zlen_cons, zlen_app, zlen_cons. pose proof (zlen_nonneg l'). change (zlen [y]) with 1. lia. }
      rewrite E. simpl andb. cbv iota. unfold select. rewrite py_index_first.
      change (x :: (z :: l') ++ [y]) with ((x :: z :: l') ++ [y]). rewrite py_index_last. reflexivity.
  Qed.

  Lemma list_ends v : v = [] \/ exists l y, v = l ++ [y].
  Proof.
    destruct v as [|a v']; [left; reflexivity|right].
    destruct (@exists_last A (a :: v')) as [l [y E]]; [discriminate|]. exists l, y. exact E.
  Qed.
End TrajProofs.

Lemma traj_actions p a :
  assoc String.eqb p traj_table = Some a ->
  (p = "all" /\ a = TrajAll) \/ (p = "initial_and_final" /\ a = act_iaf) \/ (p = "final" /\ a = act_final)
  \/ (p = "none" /\ a = TrajNothing).
Proof.
  unfold assoc, traj_table; simpl. case_key p; intro E; inversion E; subst; auto 10.
Qed.

Section TrajProtocol.
  Context {A : Type}.
  Implicit Types (v l : list A) (x y : A).

  Theorem traj_spec :
    (forall v, traj_protocol (Some "all") v = Ok v)
    /\ (forall v, traj_protocol (Some "none") v = Ok [])
    /\ traj_protocol (Some "final") (@nil A) = Ok []
    /\ (forall l y, traj_protocol (Some "final") (l ++ [y]) = Ok [y])
    /\ traj_protocol (Some "initial_and_final") (@nil A) = Ok []
    /\ (forall x, traj_protocol (Some "initial_and_final") [x] = Ok [x; x])
    /\ (forall x l y, traj_protocol (Some "initial_and_final") (x :: l ++ [y]) = Ok [x; y]).
  Proof.
    repeat split; intros; try reflexivity.
    - change (traj_protocol (Some "final") (l ++ [y])) with (traj_action_run act_final (l ++ [y])). apply run_final_last.
    - change (traj_protocol (Some "initial_and_final") (x :: l ++ [y])) with (traj_action_run act_iaf (x :: l ++ [y])).
      apply run_iaf_many.
  Qed.

  Lemma run_closed a v :
    a = TrajAll \/ a = act_iaf \/ a = act_final \/ a = TrajNothing ->
    exists v', traj_action_run a v = Ok v' /\ traj_action_run a v' = Ok v'.
  Proof.
    intros [E|[E|[E|E]]]; subst a.
    - exists v. split; reflexivity.
    - destruct (list_ends v) as [E|[l [y E]]]; subst v.
      + exists []. split; reflexivity.
      + destruct l as [|x l'].
        * exists [y; y]. split; reflexivity.
        * exists [x; y]. split; [apply (run_iaf_many x l' y)|reflexivity].
    - destruct (list_ends v) as [E|[l [y E]]]; subst v.
      + exists []. split; reflexivity.
      + exists [y]. split; [apply run_final_last|reflexivity].
    - exists []. split; reflexivity.
  Qed.

  Theorem traj_idempotent p v v' : traj_protocol (Some p) v = Ok v' -> traj_protocol (Some p) v' = Ok v'.
  Proof.
    unfold traj_protocol. destruct (assoc String.eqb p traj_table) as [a|] eqn:Ea; [|discriminate].
    intro H. destruct (run_closed a v) as [v2 [H1 H2]].
    { destruct (traj_actions _ _ Ea) as [[_ E]|[[_ E]|[[_ E]|[_ E]]]]; auto. }
    rewrite H in H1. inversion H1; subst v2. exact H2.
  Qed.

  Theorem traj_total p v : (exists v', traj_protocol (Some p) v = Ok v') \/ traj_protocol (Some p) v = Err Validation.
  Proof.
    unfold traj_protocol. destruct (assoc String.eqb p traj_table) as [a|] eqn:Ea; [left|right; reflexivity].
    destruct (run_closed a v) as [v2 [H1 _]]; [|eauto].
    destruct (traj_actions _ _ Ea) as [[_ E]|[[_ E]|[[_ E]|[_ E]]]]; auto.
  Qed.
End TrajProtocol.

(** * reshape *)
Lemma reshape_data a dims a' : reshape a dims = Ok a' -> dat a' = dat a.
Proof. unfold reshape. destruct (reshape_dims _ _); simpl; intro H; inversion H; reflexivity. Qed.

Lemma reshape_flat_shaped a b dims : dat a = dat b -> reshape a dims = reshape b dims.
Proof. unfold reshape. intros ->. reflexivity. Qed.

Lemma reshape_idempotent a dims a' : reshape a dims = Ok a' -> reshape a' dims = Ok a'.
Proof.
  unfold reshape. destruct (reshape_dims (zlen (dat a)) dims) as [s|] eqn:E; simpl; intro H; inversion H; subst a'.
  simpl. rewrite E. reflexivity.
Qed.

Lemma prodz_subst q dims :
  prodz (map (fun d => if d <? 0 then q else d) dims)
  = prodz (filter (fun d => 0 <=? d) dims) * prodz (map (fun _ => q) (filter (fun d => d <? 0) dims)).
Proof.
  induction dims as [|d r IH]; simpl; [reflexivity|].
  destruct (d <? 0) eqn:E1; destruct (0 <=? d) eqn:E2; simpl; rewrite IH; try ring.
  - apply Z.ltb_lt in E1. apply Z.leb_le in E2. lia.
  - apply Z.ltb_ge in E1. apply Z.leb_gt in E2. lia.
Qed.

Lemma filter_nonneg_all dims : Forall (fun d => 0 <= d) dims ->
  filter (fun d => d <? 0) dims = [] /\ filter (fun d => 0 <=? d) dims = dims.
Proof.
  induction 1 as [|d r Hd _ [IH1 IH2]]; simpl; [split; reflexivity|].
  destruct (d <? 0) eqn:E1; [apply Z.ltb_lt in E1; lia|].
  destruct (0 <=? d) eqn:E2; [|apply Z.leb_gt in E2; lia]. split; [exact IH1|rewrite IH2; reflexivity].
Qed.

(** accepted shapes always hold exactly the data: the product of the resulting shape is the size *)
Theorem reshape_dims_prod size dims s : reshape_dims size dims = Ok s -> prodz s = size /\ List.length s = List.length dims.
Proof.
  unfold reshape_dims. destruct (filter (fun d => d <? 0) dims) as [|u [|u2 r]] eqn:F; try discriminate.
  - destruct (prodz (filter (fun d => 0 <=? d) dims) =? size) eqn:E; [|discriminate].
    intro H; inversion H; subst s. apply Z.eqb_eq in E. split; [|reflexivity].
    assert (G : filter (fun d => 0 <=? d) dims = dims).
    { clear E H. induction dims as [|d r IH]; simpl in *; [reflexivity|].
      destruct (d <? 0) eqn:E1; [discriminate|]. destruct (0 <=? d) eqn:E2; [|apply Z.ltb_ge in E1; apply Z.leb_gt in E2; lia].
      rewrite IH; [reflexivity|exact F]. }
    rewrite G in E. exact E.
  - destruct (prodz (filter (fun d => 0 <=? d) dims) =? 0) eqn:E0; [discriminate|].
    destruct (size mod prodz (filter (fun d => 0 <=? d) dims) =? 0) eqn:Em; [|discriminate].
    intro H; inversion H; subst s. split; [|apply map_length].
    rewrite prodz_subst, F. simpl. apply Z.eqb_neq in E0. apply Z.eqb_eq in Em.
    rewrite Z.mul_1_r. symmetry. apply Z.div_exact; assumption.
Qed.

(** all dimensions known: accepted iff the size is the product, and the shape is the requested one *)
Theorem reshape_known a dims : Forall (fun d => 0 <= d) dims ->
  reshape a dims = if prodz dims =? zlen (dat a) then Ok {| dat := dat a; shp := dims |} else Err PyValueError.
Proof.
  intro Hd. destruct (filter_nonneg_all dims Hd) as [F1 F2]. unfold reshape, reshape_dims. rewrite F1, F2.
  destruct (prodz dims =? zlen (dat a)); reflexivity.
Qed.

(** one unknown leading dimension (`reshape(-1, c)`, `reshape(n, -1)`): accepted iff divisible *)
Theorem reshape_any_first a c : 0 < c ->
  reshape a [-1; c] = if zlen (dat a) mod c =? 0 then Ok {| dat := dat a; shp := [zlen (dat a) / c; c] |} else Err PyValueError.
Proof.
  intro Hc. unfold reshape, reshape_dims. simpl filter.
  destruct (c <? 0) eqn:E1; [apply Z.ltb_lt in E1; lia|]. destruct (0 <=? c) eqn:E2; [|apply Z.leb_gt in E2; lia].
  simpl. rewrite E1. rewrite Z.mul_1_r. destruct (c =? 0) eqn:E3; [apply Z.eqb_eq in E3; lia|].
  destruct (zlen (dat a) mod c =? 0); reflexivity.
Qed.

Theorem reshape_any_last a n : 0 < n ->
  reshape a [n; -1] = if zlen (dat a) mod n =? 0 then Ok {| dat := dat a; shp := [n; zlen (dat a) / n] |} else Err PyValueError.
Proof.
  intro Hc. unfold reshape, reshape_dims. simpl filter.
  destruct (n <? 0) eqn:E1; [apply Z.ltb_lt in E1; lia|]. destruct (0 <=? n) eqn:E2; [|apply Z.leb_gt in E2; lia].
  simpl. rewrite E1. rewrite Z.mul_1_r. destruct (n =? 0) eqn:E3; [apply Z.eqb_eq in E3; lia|].
  destruct (zlen (dat a) mod n =? 0); reflexivity.
Qed.

Theorem reshape_flatten a : reshape a [-1] = Ok {| dat := dat a; shp := [zlen (dat a)] |}.
Proof.
  unfold reshape, reshape_dims. simpl. rewrite Z.mod_1_r. simpl. rewrite Z.div_1_r. reflexivity.
Qed.

(** * return_result per driver *)
Theorem rr_gradient r :
  return_result "gradient" r =
  let a := to_arr (coerce_rr r) in
  if zlen (dat a) mod 3 =? 0 then Ok (RArr {| dat := dat a; shp := [zlen (dat a) / 3; 3] |}) else Err Validation.
Proof.
  unfold return_result. change (assoc String.eqb "gradient" rr_table) with (Some (RRReshape [DAny; DConst 3])).
  cbv iota beta. change (inst 0 0 [DAny; DConst 3]) with [-1; 3]. rewrite reshape_any_first by lia.
  cbv zeta. destruct (zlen (dat (to_arr (coerce_rr r))) mod 3 =? 0); reflexivity.
Qed.

Theorem rr_hessian r x :
  return_result "hessian" r = Ok x <->
  exists n, 0 <= n /\ n * n = zlen (dat (to_arr (coerce_rr r)))
            /\ x = RArr {| dat := dat (to_arr (coerce_rr r)); shp := [n; n] |}.
Proof.
  unfold return_result. change (assoc String.eqb "hessian" rr_table) with (Some RRSquare). cbv iota beta zeta.
  set (a := to_arr (coerce_rr r)). set (size := zlen (dat a)).
  assert (Hs : 0 <= size) by (unfold size, zlen; lia).
  split.
  - destruct (Z.sqrt size * Z.sqrt size =? size) eqn:E; [|discriminate].
    intro H; inversion H. exists (Z.sqrt size). apply Z.eqb_eq in E.
    split; [apply Z.sqrt_nonneg|]. split; [exact E|reflexivity].
  - intros [n [Hn [Hsq ->]]]. rewrite <- Hsq. rewrite Z.sqrt_square by exact Hn. rewrite Z.eqb_refl. reflexivity.
Qed.

Theorem rr_hessian_reject r :
  return_result "hessian" r = Err Validation \/ exists x, return_result "hessian" r = Ok x.
Proof.
  unfold return_result. change (assoc String.eqb "hessian" rr_table) with (Some RRSquare). cbv iota beta zeta.
  destruct (_ =? _); [right; eexists; reflexivity|left; reflexivity].
Qed.

Theorem rr_other driver r : driver <> "gradient" -> driver <> "hessian" -> return_result driver r = Ok (coerce_rr r).
Proof.
  intros H1 H2. unfold return_result, assoc, rr_table; simpl.
  destruct (String.eqb_spec driver "gradient"); [contradiction|].
  destruct (String.eqb_spec driver "hessian"); [contradiction|]. reflexivity.
Qed.

(** * AtomicResultProperties *)
Ltac prop_case k sh :=
  unfold prop_field; cbn [fst snd];
  match goal with |- context [prop_lookup ?nm] => change (prop_lookup nm) with (Some k) end; cbv iota beta;
  match goal with |- context [prop_shape ?nm k ?na] => change (prop_shape nm k na) with (@Ok (option (list Z)) (Some sh)) end;
  cbn [obind].
Theorem prop_gradient name n a : In name ["return_gradient"; "scf_total_gradient"] -> 0 <= n ->
  prop_field (Some n) (name, a) =
  if 3 * n =? zlen (dat a) then Ok (name, {| dat := dat a; shp := [n; 3] |}) else Err Validation.
Proof.
  intros Hin Hn.
  assert (R : reshape a [n; 3] = if 3 * n =? zlen (dat a) then Ok {| dat := dat a; shp := [n; 3] |} else Err PyValueError).
  { rewrite reshape_known by (repeat constructor; lia). cbn [prodz fold_right]. replace (n * (3 * 1)) with (3 * n) by ring. reflexivity. }
  destruct Hin as [<-|[<-|[]]]; prop_case VDeriv [n; 3]; rewrite R; destruct (3 * n =? zlen (dat a)); reflexivity.
Qed.

Theorem prop_hessian name n a : In name ["return_hessian"; "scf_total_hessian"] -> 0 <= n ->
  prop_field (Some n) (name, a) =
  if 9 * n * n =? zlen (dat a) then Ok (name, {| dat := dat a; shp := [3 * n; 3 * n] |}) else Err Validation.
Proof.
  intros Hin Hn.
  assert (R : reshape a [3 * n; 3 * n] = if 9 * n * n =? zlen (dat a) then Ok {| dat := dat a; shp := [3 * n; 3 * n] |} else Err PyValueError).
  { rewrite reshape_known by (repeat constructor; lia). cbn [prodz fold_right]. replace (3 * n * (3 * n * 1)) with (9 * n * n) by ring. reflexivity. }
  destruct Hin as [<-|[<-|[]]]; prop_case VDeriv [3 * n; 3 * n]; rewrite R; destruct (9 * n * n =? zlen (dat a)); reflexivity.
Qed.

Theorem prop_deriv_needs_natom name a :
  In name ["return_gradient"; "scf_total_gradient"; "return_hessian"; "scf_total_hessian"] ->
  prop_field None (name, a) = Err Validation.
Proof. intros [<-|[<-|[<-|[<-|[]]]]]; reflexivity. Qed.

Theorem prop_dipole name natom a :
  In name ["scf_dipole_moment"; "mp2_dipole_moment"; "ccsd_dipole_moment"; "ccsd_prt_pr_dipole_moment";
           "ccsdt_dipole_moment"; "ccsdtq_dipole_moment"] ->
  prop_field natom (name, a) =
  if 3 =? zlen (dat a) then Ok (name, {| dat := dat a; shp := [3] |}) else Err Validation.
Proof.
  intros Hin.
  assert (R : reshape a [3] = if 3 =? zlen (dat a) then Ok {| dat := dat a; shp := [3] |} else Err PyValueError).
  { rewrite reshape_known by (repeat constructor; lia). reflexivity. }
  destruct Hin as [<-|[<-|[<-|[<-|[<-|[<-|[]]]]]]]; prop_case VPole [3]; rewrite R; destruct (3 =? zlen (dat a)); reflexivity.
Qed.

Theorem prop_quadrupole natom a :
  prop_field natom ("scf_quadrupole_moment", a) =
  if 9 =? zlen (dat a) then Ok ("scf_quadrupole_moment", {| dat := dat a; shp := [3; 3] |}) else Err Validation.
Proof.
  assert (R : reshape a [3; 3] = if 9 =? zlen (dat a) then Ok {| dat := dat a; shp := [3; 3] |} else Err PyValueError).
  { rewrite reshape_known by (repeat constructor; lia). reflexivity. }
  prop_case VPole [3; 3]; rewrite R; destruct (9 =? zlen (dat a)); reflexivity.
Qed.

(** * the generated tables are the documented ones *)
Definition incl_b (a b : list string) : bool := forallb (fun x => smem x b) a.
Definition keep_action_eqb (a b : keep_action) : bool :=
  match a, b with
  | KeepAll, KeepAll | KeepNothing, KeepNothing => true
  | KeepList x, KeepList y => incl_b x y && incl_b y x
  | _, _ => false
  end.
Definition nat_action_eqb (a b : nat_action) : bool :=
  match a, b with
  | NatAll, NatAll | NatNothing, NatNothing => true
  | NatList x, NatList y => list_eqb String.eqb x y
  | _, _ => false
  end.
Definition traj_action_eqb (a b : traj_action) : bool :=
  match a, b with
  | TrajAll, TrajAll | TrajNothing, TrajNothing => true
  | TrajSelect g n i, TrajSelect g' n' i' => Bool.eqb g g' && (n =? n') && list_eqb Z.eqb i i'
  | _, _ => false
  end.
Definition dim_eqb (a b : dim) : bool :=
  match a, b with
  | DConst x, DConst y => x =? y
  | DAny, DAny | DNbf, DNbf | DNao, DNao | DNmo, DNmo | DNat, DNat | DNat3, DNat3 => true
  | _, _ => false
  end.
Definition rule_of (k : fkind) : option (option (list dim)) := match k with FArr r _ => Some r | _ => None end.

Definition table_equiv {V} (e : V -> V -> bool) (t d : list (string * V)) : bool :=
  forallb (fun k => opt_eqb e (assoc String.eqb k t) (assoc String.eqb k d)) (keys t ++ keys d).

Lemma assoc_notin {V} p (t : list (string * V)) : ~ In p (keys t) -> assoc String.eqb p t = None.
Proof.
  unfold assoc. induction t as [|[k v] r IH]; simpl; [reflexivity|]. intro H.
  destruct (String.eqb_spec p k); [subst; exfalso; apply H; left; reflexivity|].
  apply IH. intro; apply H; right; assumption.
Qed.

Lemma table_equiv_all {V} (e : V -> V -> bool) t d :
  table_equiv e t d = true -> forall p, opt_eqb e (assoc String.eqb p t) (assoc String.eqb p d) = true.
Proof.
  unfold table_equiv. rewrite forallb_forall. intros H p.
  destruct (in_dec string_dec p (keys t ++ keys d)) as [Hin|Hn]; [apply H; exact Hin|].
  rewrite !assoc_notin; [reflexivity| |]; intro; apply Hn; apply in_or_app; auto.
Qed.

(** written by hand from the enum docstrings / the protocol documentation *)
Definition doc_wfn_keep : list (string * keep_action) :=
  [ ("all", KeepAll);
    ("orbitals_and_eigenvalues", KeepList ["orbitals_a"; "orbitals_b"; "eigenvalues_a"; "eigenvalues_b"]);
    ("occupations_and_eigenvalues", KeepList ["occupations_a"; "occupations_b"; "eigenvalues_a"; "eigenvalues_b"]);
    ("return_results", KeepList ["orbitals_a"; "orbitals_b"; "density_a"; "density_b"; "fock_a"; "fock_b";
                                 "eigenvalues_a"; "eigenvalues_b"; "occupations_a"; "occupations_b"]);
    ("none", KeepNothing) ].
Definition doc_native : list (string * nat_action) := [ ("all", NatAll); ("input", NatList ["input"]); ("none", NatNothing) ].
Definition doc_traj : list (string * traj_action) :=
  [ ("all", TrajAll); ("initial_and_final", TrajSelect true 2 [0; -1]); ("final", TrajSelect true 1 [-1]); ("none", TrajNothing) ].
Definition doc_wfn_rules : list (string * option (list dim)) :=
  let mats := ["h_core"; "h_effective"; "scf_density"; "scf_fock"; "scf_coulomb"; "scf_exchange"] in
  let ab (b : string) := [(b ++ "_a")%string; (b ++ "_b")%string] in
  map (fun n => (n, Some [DNbf; DNbf])) (flat_map ab mats)
  ++ map (fun n => (n, Some [DNbf; DAny])) (flat_map ab ["scf_orbitals"; "localized_orbitals"])
  ++ map (fun n => (n, Some [DAny])) (flat_map ab ["scf_eigenvalues"; "scf_occupations"])
  ++ map (fun n => (n, None)) (ab "localized_fock").
Definition gen_wfn_rules : list (string * option (list dim)) :=
  flat_map (fun f => match rule_of (snd f) with Some r => [(fst f, r)] | None => [] end) wfn_fields.
Definition gen_ptrs : list string :=
  flat_map (fun f => match snd f with FPtr => [fst f] | _ => [] end) wfn_fields.

Definition tables_documented : bool :=
  table_equiv keep_action_eqb wfn_keep_table doc_wfn_keep
  && table_equiv nat_action_eqb native_table doc_native
  && table_equiv traj_action_eqb traj_table doc_traj
  && table_equiv (opt_eqb (list_eqb dim_eqb)) gen_wfn_rules doc_wfn_rules
  && incl_b gen_ptrs ["orbitals_a"; "orbitals_b"; "density_a"; "density_b"; "fock_a"; "fock_b"; "eigenvalues_a";
                      "eigenvalues_b"; "occupations_a"; "occupations_b"]
  && incl_b ["orbitals_a"; "orbitals_b"; "density_a"; "density_b"; "fock_a"; "fock_b"; "eigenvalues_a";
             "eigenvalues_b"; "occupations_a"; "occupations_b"] gen_ptrs
  && list_eqb String.eqb enum_wavefunction ["all"; "orbitals_and_eigenvalues"; "occupations_and_eigenvalues"; "return_results"; "none"]
  && list_eqb String.eqb enum_native_files ["all"; "input"; "none"]
  && list_eqb String.eqb enum_trajectory ["all"; "initial_and_final"; "final"; "none"]
  && String.eqb default_wavefunction "none" && String.eqb default_native_files "none" && default_stdout
  && String.eqb default_trajectory "all".

(** every array field that declares a shape is covered by a reshape rule compatible with the declaration
    (nao = nbf, nmo = the free dimension), except localized_fock_a/_b whose nmo x nmo the code cannot know *)
Definition dim_compat (rule decl : dim) : bool :=
  match rule, decl with
  | DNbf, DNao | DAny, DNmo => true
  | DConst x, DConst y => x =? y
  | _, _ => false
  end.
Definition wfn_decl_ok (f : string * fkind) : bool :=
  match snd f with
  | FArr (Some r) (Some d) => list_eqb dim_compat r d
  | FArr None (Some _) => smem (fst f) ["localized_fock_a"; "localized_fock_b"]
  | _ => true
  end.
Definition prop_decl_ok (f : string * pkind * option (list dim)) : bool :=
  match f with
  | (name, VPole, Some d) => match prop_shape name VPole None with
                             | Ok (Some s) => list_eqb dim_eqb (map DConst s) d
                             | _ => false
                             end
  | (_, VNone, Some _) => false
  | (name, VPole, None) => match prop_shape name VPole None with Ok (Some _) => true | _ => false end
  | (name, VDeriv, _) => match prop_shape name VDeriv (Some 1) with Ok (Some _) => true | _ => false end
  | (_, VNone, None) => true
  end.
Lemma declared_shapes_enforced :
  forallb wfn_decl_ok wfn_fields = true /\ forallb prop_decl_ok prop_fields = true.
Proof. split; vm_compute; reflexivity. Qed.

Lemma tables_documented_true : tables_documented = true.
Proof. vm_compute. reflexivity. Qed.

Lemma smem_In x l : smem x l = true <-> In x l.
Proof.
  unfold smem. rewrite existsb_exists. split.
  - intros [y [Hin E]]. apply String.eqb_eq in E. subst. exact Hin.
  - intro H. exists x. split; [exact H|apply String.eqb_refl].
Qed.

Lemma selb_incl a b w k : incl_b a b = true -> selb a w k = true -> selb b w k = true.
Proof.
  unfold incl_b. rewrite forallb_forall. intros H. rewrite !selb_true.
  intros [rk [key [Hin R]]]. exists rk, key. split; [apply smem_In; apply H; exact Hin|exact R].
Qed.

Lemma keptb_equiv a b w k : incl_b a b && incl_b b a = true -> keptb a w k = keptb b w k.
Proof.
  intro H. apply andb_true_iff in H. destruct H as [H1 H2]. unfold keptb. f_equal.
  destruct (selb a w k) eqn:E1; destruct (selb b w k) eqn:E2; try reflexivity.
  - rewrite (selb_incl _ _ _ _ H1 E1) in E2. discriminate.
  - rewrite (selb_incl _ _ _ _ H2 E2) in E1. discriminate.
Qed.

Lemma wfn_keep_documented p :
  opt_eqb keep_action_eqb (assoc String.eqb p wfn_keep_table) (assoc String.eqb p doc_wfn_keep) = true.
Proof.
  apply table_equiv_all. pose proof tables_documented_true as H. unfold tables_documented in H.
  repeat (apply andb_true_iff in H; destruct H as [H ?]). exact H.
Qed.

(** ** the property-level statement: what a protocol named [p] keeps, in terms of the documented lists *)
Theorem wfn_kept_exactly p w w' :
  wfn_pre (Some p) (Some w) = Ok (Some w') ->
  exists r, dget "restricted" w = Some r /\ r <> WNone /\
    let w1 := after_restricted r w in
    match assoc String.eqb p doc_wfn_keep with
    | Some KeepAll => forall k, dget k w' = dget k w1
    | Some (KeepList l) => forall k, dget k w' = if keptb l w1 k then dget k w1 else None
    | _ => False
    end
    /\ (forall k v, dget k w' = Some v -> dget k w = Some v)
    /\ (truthy r = true -> forall k, dget k w' <> None -> ends_with "_b" k = false).
Proof.
  unfold wfn_pre. pose proof (wfn_keep_documented p) as D.
  destruct (assoc String.eqb p wfn_keep_table) as [act|]; [|discriminate].
  destruct (assoc String.eqb p doc_wfn_keep) as [dact|]; [|discriminate]. simpl in D.
  destruct act as [| |l]; destruct dact as [| |l']; try discriminate; intro H.
  - destruct (wfn_filter_keep_all _ _ H) as [r [Hr [Hn [Ew S]]]]. exists r. split; [exact Hr|]. split; [exact Hn|].
    cbv zeta. split; [intro k; rewrite Ew; reflexivity|]. split.
    + intros k v E. rewrite S in E. destruct (truthy r && ends_with "_b" k); [discriminate|exact E].
    + intros Ht k Hk. rewrite S, Ht in Hk. simpl in Hk. destruct (ends_with "_b" k); [congruence|reflexivity].
  - apply wfn_filter_keep_nothing in H. discriminate.
  - destruct (wfn_filter_keep_list _ _ _ H) as [r [Hr [Hn [S [P2 P3]]]]]. exists r. split; [exact Hr|]. split; [exact Hn|].
    cbv zeta in *. split; [|split; assumption]. intro k. rewrite S. rewrite (keptb_equiv l l' _ k D). reflexivity.
Qed.

Theorem wfn_pre_none p w : wfn_pre (Some p) (Some w) = Ok None -> p = "none".
Proof.
  unfold wfn_pre, assoc, wfn_keep_table; simpl. case_key p; try reflexivity; try discriminate;
    unfold wfn_filter; destruct (dget "restricted" w) as [[]|]; try discriminate;
    try (destruct (keep_loop _ _ _); discriminate).
Qed.

Theorem wfn_pre_idempotent p w w' :
  wfn_pre (Some p) (Some w) = Ok (Some w') ->
  exists w'', wfn_pre (Some p) (Some w') = Ok (Some w'') /\ forall k, dget k w'' = dget k w'.
Proof.
  unfold wfn_pre. destruct (assoc String.eqb p wfn_keep_table) as [act|]; [|discriminate]. apply wfn_filter_idempotent.
Qed.
