(** C12, part 3 — every proper rotation is U(q) for a unit quaternion q (over the reals), which turns
    "optimal among quaternion-generated rotations" into "optimal among all proper rotations".
    The algebra is discharged by [nsatz] (Groebner bases) against the translated polynomials of genU. *)
From Coq Require Import Reals List Arith Lia Lra Nsatz Bool.
Require Import QV.Common.Outcome QV.Common.AlignAlg QV.Common.AlignAlgFacts QV.Common.AlignAlgQuat QV.Common.AlignAlgR
               QV.Gen.Quat QV.Model.Mill QV.Model.Kabsch QV.Proofs.Mill QV.Proofs.Kabsch QV.Proofs.KabschR.
Import ListNotations.
Open Scope R_scope.

Section Cases.
Variables a b c d e f g h i : R.
(* cof M = M (proper orthogonal), rows orthonormal *)
Hypothesis C1 : e*i - f*h = a. Hypothesis C2 : f*g - d*i = b. Hypothesis C3 : d*h - e*g = c.
Hypothesis C4 : c*h - b*i = d. Hypothesis C5 : a*i - c*g = e. Hypothesis C6 : b*g - a*h = f.
Hypothesis C7 : b*f - c*e = g. Hypothesis C8 : c*d - a*f = h. Hypothesis C9 : a*e - b*d = i.
Hypothesis R1 : a*a + b*b + c*c = 1. Hypothesis R2 : d*d + e*e + f*f = 1. Hypothesis R3 : g*g + h*h + i*i = 1.
Hypothesis R4 : a*d + b*e + c*f = 0. Hypothesis R5 : a*g + b*h + c*i = 0. Hypothesis R6 : d*g + e*h + f*i = 0.

Definition is_quat_of (q0 q1 q2 q3 : R) : Prop :=
  q0*q0 + q1*q1 + q2*q2 + q3*q3 = 1 /\
  genU (q0, q1, q2, q3) = ((a, b, c), (d, e, f), (g, h, i)).

Ltac fin := unfold is_quat_of; cbv [genU]; runfold;
  split; [|repeat match goal with |- pair _ _ = pair _ _ => apply f_equal2 end]; nsatz.

Lemma case0 s si q1 q2 q3 :
  4*s*s = 1 + a + e + i -> s * si = 1 -> 4*s*q1 = h - f -> 4*s*q2 = c - g -> 4*s*q3 = d - b ->
  is_quat_of s q1 q2 q3.
Proof. intros. fin. Qed.
Lemma case1 s si q0 q2 q3 :
  4*s*s = 1 + a - e - i -> s * si = 1 -> 4*s*q0 = h - f -> 4*s*q2 = b + d -> 4*s*q3 = c + g ->
  is_quat_of q0 s q2 q3.
Proof. intros. fin. Qed.
Lemma case2 s si q0 q1 q3 :
  4*s*s = 1 - a + e - i -> s * si = 1 -> 4*s*q0 = c - g -> 4*s*q1 = b + d -> 4*s*q3 = f + h ->
  is_quat_of q0 q1 s q3.
Proof. intros. fin. Qed.
Lemma case3 s si q0 q1 q2 :
  4*s*s = 1 - a - e + i -> s * si = 1 -> 4*s*q0 = d - b -> 4*s*q1 = c + g -> 4*s*q2 = f + h ->
  is_quat_of q0 q1 q2 s.
Proof. intros. fin. Qed.
End Cases.

Lemma pivot (t : R) : 1 <= t -> exists s si, 4*s*s = t /\ s * si = 1 /\ s <> 0.
Proof.
  intros H. assert (Hp : 0 < sqrt t) by (apply sqrt_lt_R0; lra).
  exists (sqrt t / 2), (2 / sqrt t). split; [|split].
  - replace (4 * (sqrt t / 2) * (sqrt t / 2)) with (sqrt t * sqrt t) by field. apply sqrt_sqrt. lra.
  - field. lra.
  - lra.
Qed.

Theorem every_proper_rotation_is_U (M : mat3 R) :
  mmul (mtrans M) M = mid -> det3 M = 1 -> exists q : quat R, n2 q = 1 /\ genU q = M.
Proof.
  intros HO HD. pose proof (cof_proper M HO HD) as HC.
  assert (HR : mmul M (mtrans M) = mid).
  { pose proof (cof_mtrans M) as E. rewrite HC, HD in E. rewrite E.
    cbv [mscale mid vscale kadd kmul ksub kopp k0 k1 ROps]. repeat match goal with |- pair _ _ = pair _ _ => apply f_equal2 end; ring. }
  destruct M as [[[[a b] c] [[d e] f]] [[g h] i]].
  pose proof (fun k l => f_equal (fun m : mat3 R => ment m k l) HC) as P.
  pose proof (fun k l => f_equal (fun m : mat3 R => ment m k l) HR) as Q.
  pose proof (P 0 0)%nat as C1. pose proof (P 0 1)%nat as C2. pose proof (P 0 2)%nat as C3.
  pose proof (P 1 0)%nat as C4. pose proof (P 1 1)%nat as C5. pose proof (P 1 2)%nat as C6.
  pose proof (P 2 0)%nat as C7. pose proof (P 2 1)%nat as C8. pose proof (P 2 2)%nat as C9.
  pose proof (Q 0 0)%nat as R1. pose proof (Q 1 1)%nat as R2. pose proof (Q 2 2)%nat as R3.
  pose proof (Q 0 1)%nat as R4. pose proof (Q 0 2)%nat as R5. pose proof (Q 1 2)%nat as R6.
  clear P Q HC HR HO HD.
  cbv [cof ment mrow comp mmul mtrans mk3 vmat dot3 mcol mid] in *. runfold.
  assert (Hq : forall q0 q1 q2 q3, is_quat_of a b c d e f g h i q0 q1 q2 q3 ->
               exists q : quat R, n2 q = 1 /\ genU q = ((a, b, c), (d, e, f), (g, h, i))).
  { intros q0 q1 q2 q3 [N U]. exists (q0, q1, q2, q3). split; [|exact U]. cbv [n2 qdot]. runfold. exact N. }
  destruct (Rle_lt_dec 1 (1 + a + e + i)) as [H0|H0].
  { destruct (pivot _ H0) as [s [si [Hs [Hsi Hn]]]].
    apply (Hq s ((h - f) / (4 * s)) ((c - g) / (4 * s)) ((d - b) / (4 * s))).
    apply case0 with si; try assumption; field; exact Hn. }
  destruct (Rle_lt_dec 1 (1 + a - e - i)) as [H1|H1].
  { destruct (pivot _ H1) as [s [si [Hs [Hsi Hn]]]].
    apply (Hq ((h - f) / (4 * s)) s ((b + d) / (4 * s)) ((c + g) / (4 * s))).
    apply case1 with si; try assumption; field; exact Hn. }
  destruct (Rle_lt_dec 1 (1 - a + e - i)) as [H2|H2].
  { destruct (pivot _ H2) as [s [si [Hs [Hsi Hn]]]].
    apply (Hq ((c - g) / (4 * s)) ((b + d) / (4 * s)) s ((f + h) / (4 * s))).
    apply case2 with si; try assumption; field; exact Hn. }
  assert (H3 : 1 <= 1 - a - e + i) by lra.
  destruct (pivot _ H3) as [s [si [Hs [Hsi Hn]]]].
  apply (Hq ((d - b) / (4 * s)) ((c + g) / (4 * s)) ((f + h) / (4 * s)) s).
  apply case3 with si; try assumption; field; exact Hn.
Qed.

(** ---- consequences: optimality among ALL proper rotations; recovery for any proper rotation ---- *)
Definition proper (M : mat3 R) : Prop := mmul (mtrans M) M = mid /\ det3 M = 1.

Definition residual_rot (Rs Cs : list (vec3 R)) (M : mat3 R) : R := sumsq (lsub Rs (map (fun c => vmat c M) Cs)).

Theorem kabsch_optimal_over_proper_rotations (Rs Cs : list (vec3 R)) w V :
  length Rs = length Cs -> eigh_spec (genF (cov_of Rs Cs)) w V ->
  forall M, proper M -> residual Rs Cs (m4col V 3) <= residual_rot Rs Cs M.
Proof.
  intros HL HS M [HO HD]. destruct (every_proper_rotation_is_U M HO HD) as [q [Hq <-]].
  apply kabsch_optimal_over_quaternions_partial with w; assumption.
Qed.

Theorem kabsch_align_proper_and_optimal_full eigtop atol rtol Rg Cg :
  eigtop_ok eigtop (kabsch_F Rg Cg) -> length Rg = length Cg -> allclose atol rtol Rg Cg = false ->
  let o := kabsch_align eigtop atol rtol Rg Cg in
  proper (k_rot o) /\
  forall M, proper M -> k_ssd o <= residual_rot (centred (length Rg) Rg) (centred (length Rg) Cg) M.
Proof.
  intros HS HL HC o. destruct (kabsch_align_proper_and_optimal eigtop atol rtol Rg Cg HS HL HC) as [[HO _] [HD Hopt]].
  split; [split; assumption|]. intros M [HMO HMD].
  destruct (every_proper_rotation_is_U M HMO HMD) as [q [Hq <-]]. apply Hopt. exact Hq.
Qed.

Lemma proper_mtrans (M : mat3 R) : proper M -> proper (mtrans M).
Proof.
  intros [HO HD]. split; [|rewrite det3_mtrans; exact HD].
  rewrite mtrans_mtrans. pose proof (cof_mtrans M) as E. rewrite (cof_proper M HO HD), HD in E. rewrite E.
  cbv [mscale mid vscale kadd kmul ksub kopp k0 k1 ROps]. repeat match goal with |- pair _ _ = pair _ _ => apply f_equal2 end; ring.
Qed.

(** cgeom = rgeom . Rot + t for ANY proper rotation Rot: recovered exactly; non-collinear => the returned
    rotation is Rot^T and the returned shift is t *)
Theorem recovers_any_rigid_copy eigtop atol rtol Rg (Rot : mat3 R) (t : vec3 R) :
  proper Rot -> (0 < length Rg)%nat ->
  let Cg := map (fun r => vadd (vmat r Rot) t) Rg in
  eigtop_ok eigtop (kabsch_F Rg Cg) -> allclose atol rtol Rg Cg = false ->
  let o := kabsch_align eigtop atol rtol Rg Cg in
  k_ssd o = 0 /\ align_coordinates (solution_mill o (seq 0 (length Rg)) false) false Cg = Ok Rg /\
  (forall i j, cross (List.nth i (centred (length Rg) Rg) v0) (List.nth j (centred (length Rg) Rg) v0) <> v0 ->
     k_rot o = mtrans Rot /\ k_shift o = t).
Proof.
  intros HP HN. destruct (proper_mtrans Rot HP) as [HO HD].
  destruct (every_proper_rotation_is_U (mtrans Rot) HO HD) as [q0 [Hq HU]].
  assert (ER : Rot = mtrans (genU q0)) by (rewrite HU, mtrans_mtrans; reflexivity).
  rewrite ER. intros Cg HS HC o.
  destruct (recovers_rigid_copy eigtop atol rtol Rg q0 t Hq HN HS HC) as [A B].
  split; [exact A|]. split; [exact B|]. intros i j Hnc. rewrite mtrans_mtrans.
  exact (recovered_motion_is_the_applied_one eigtop atol rtol Rg q0 t i j Hq HN Hnc HS HC).
Qed.
