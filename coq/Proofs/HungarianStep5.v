(** C14 — _step5 (augmenting path of alternating primed and starred zeros) preserves the Munkres invariant:
    the path has no repeated entry, flipping it yields a matching with one more star, on zeros. *)
From Coq Require Import ZArith List Bool Arith Lia.
Require Import QV.Common.Outcome QV.Model.Hungarian QV.Proofs.HungarianCert QV.Proofs.HungarianLib QV.Proofs.HungarianInv.
Import ListNotations.
Open Scope Z_scope.

Lemma pair_dec : forall a b : nat * nat, {a = b} + {a <> b}.
Proof. decide equality; apply Nat.eq_dec. Qed.

Lemma nth_map_default {A B} (f : A -> B) l i d d' : f d = d' -> nth i (map f l) d' = f (nth i l d).
Proof. intros; subst; apply map_nth. Qed.

Lemma mget_erase_primes M i j : mget (erase_primes M) i j = if mget M i j =? 2 then 0 else mget M i j.
Proof.
  unfold mget, erase_primes.
  rewrite (nth_map_default (map (fun x => if x =? 2 then 0 else x)) M i [] []) by reflexivity.
  rewrite (nth_map_default (fun x => if x =? 2 then 0 else x) (nth i M []) j 0 0) by reflexivity.
  reflexivity.
Qed.

Lemma erase_primes_rect M n m : rect M n m -> rect (erase_primes M) n m.
Proof.
  intros [H1 H2]. unfold erase_primes. split. rewrite map_length; auto.
  apply Forall_forall. intros r Hr. apply in_map_iff in Hr. destruct Hr as [r' [E Hr']]. subst r.
  rewrite map_length. rewrite Forall_forall in H2. auto.
Qed.

Lemma toggle_fold n m : forall l M, rect M n m -> NoDup l ->
  (forall i j, In (i, j) l -> (i < n)%nat /\ (j < m)%nat) ->
  rect (fold_left toggle l M) n m
  /\ (forall i j, In (i, j) l -> mget (fold_left toggle l M) i j = if mget M i j =? 1 then 0 else 1)
  /\ (forall i j, ~ In (i, j) l -> mget (fold_left toggle l M) i j = mget M i j).
Proof.
  induction l as [|[pi pj] l IH]; simpl; intros M HR ND Rg.
  - split; auto. split; intros; tauto.
  - inversion ND; subst.
    destruct (Rg pi pj (or_introl eq_refl)) as [Hi Hj].
    assert (HR1 : rect (if mget M pi pj =? 1 then mset M pi pj 0 else mset M pi pj 1) n m).
    { destruct (mget M pi pj =? 1); apply mset_rect; auto. }
    assert (V1 : forall i j, mget (if mget M pi pj =? 1 then mset M pi pj 0 else mset M pi pj 1) i j =
                 if (Nat.eqb pi i && Nat.eqb pj j) then (if mget M pi pj =? 1 then 0 else 1) else mget M i j).
    { intros. destruct (mget M pi pj =? 1); apply (mget_mset M n m); auto. }
    destruct (IH _ HR1 H2 (fun i j H => Rg i j (or_intror H))) as [R1 [A1 A2]].
    split; auto. split.
    + intros i j [E|Hin].
      * inversion E; subst. rewrite A2 by auto. rewrite V1, !Nat.eqb_refl. reflexivity.
      * rewrite A1 by auto. rewrite V1.
        destruct (Nat.eqb_spec pi i); destruct (Nat.eqb_spec pj j); simpl; auto. subst. contradiction.
    + intros i j Hn. rewrite A2 by tauto. rewrite V1.
      destruct (Nat.eqb_spec pi i); destruct (Nat.eqb_spec pj j); simpl; auto. subst. tauto.
Qed.

Definition isstar (mk : mat) (p : nat * nat) : bool := mget mk (fst p) (snd p) =? 1.
Definition isprime (mk : mat) (p : nat * nat) : bool := mget mk (fst p) (snd p) =? 2.

Section Step5.
Variables (C0 : mat) (n m : nat).
Hypothesis Hn : (0 < n)%nat.
Variables (u v : nat -> Z) (s : hstate).
Hypothesis I : inv5 C0 n m u v s.
Variable rank : nat -> nat.
Hypothesis RP : forall r c r', prime s r c -> star s r' c -> (rank r' < rank r)%nat.

Let B := i5_base C0 n m u v s I.

Lemma star_not_prime i j : star s i j -> prime s i j -> False.
Proof. unfold star, prime. intros. congruence. Qed.

Record pathinv (acc : list (nat * nat)) (r c : nat) : Prop := {
  q_head : In (r, c) acc;
  q_hprime : prime s r c;
  q_mark : forall i j, In (i, j) acc -> star s i j \/ prime s i j;
  q_rank : forall i j, In (i, j) acc -> (rank r <= rank i)%nat;
  q_nodup : NoDup acc;
  q_prow : forall i j, In (i, j) acc -> prime s i j -> i = z0r s \/ exists c1, star s i c1 /\ In (i, c1) acc;
  q_pcol : forall i j, In (i, j) acc -> prime s i j -> (i, j) <> (r, c) -> exists i', star s i' j /\ In (i', j) acc;
  q_scol : forall i j, In (i, j) acc -> star s i j -> exists r1, prime s r1 j /\ In (r1, j) acc;
  q_pcol1 : forall i i' j, In (i, j) acc -> In (i', j) acc -> prime s i j -> prime s i' j -> i = i';
  q_cnt : length (filter (isprime (marked s)) acc) = S (length (filter (isstar (marked s)) acc))
}.

Lemma pathinv_init : pathinv [(z0r s, z0c s)] (z0r s) (z0c s).
Proof.
  pose proof (i5_z0 C0 n m u v s I) as Z.
  constructor; simpl; auto.
  - intros i j [E|[]]. inversion E; subst. auto.
  - intros i j [E|[]]. inversion E; subst. auto.
  - constructor; auto. constructor.
  - intros i j [E|[]] _. inversion E; subst. auto.
  - intros i j [E|[]] _ Hne. congruence.
  - intros i j [E|[]] S. inversion E; subst. exfalso. apply (star_not_prime _ _ S Z).
  - intros i i' j [E|[]] [E'|[]] _ _. congruence.
  - unfold isprime, isstar. simpl. unfold prime in Z. rewrite Z. reflexivity.
Qed.

Lemma pathinv_push acc r c r' c' : pathinv acc r c -> star s r' c -> prime s r' c' ->
  pathinv ((r', c') :: (r', c) :: acc) r' c'.
Proof.
  intros Q S P. destruct Q.
  pose proof (RP r c r' q_hprime0 S) as Rk.
  assert (Nin : forall j, ~ In (r', j) acc).
  { intros j Hin. pose proof (q_rank0 _ _ Hin). lia. }
  assert (Ncc : c' <> c). { intro; subst. apply (star_not_prime _ _ S P). }
  constructor; simpl; auto.
  - intros i j [E|[E|Hin]]; try (inversion E; subst; auto). apply q_mark0; auto.
  - intros i j [E|[E|Hin]]; try (inversion E; subst; auto). pose proof (q_rank0 _ _ Hin). lia.
  - constructor. simpl. intros [E|Hin]. inversion E; congruence. apply (Nin _ Hin).
    constructor; auto.
  - intros i j [E|[E|Hin]] Pij.
    + inversion E; subst. right. exists c. auto.
    + inversion E; subst. exfalso. apply (star_not_prime _ _ S Pij).
    + destruct (q_prow0 _ _ Hin Pij) as [X|[c1 [X Y]]]; auto. right. exists c1. auto.
  - intros i j [E|[E|Hin]] Pij Hne.
    + congruence.
    + inversion E; subst. exfalso. apply (star_not_prime _ _ S Pij).
    + destruct (pair_dec (i, j) (r, c)) as [E|NE].
      * inversion E; subst. exists r'. auto.
      * destruct (q_pcol0 _ _ Hin Pij NE) as [i' [X Y]]. exists i'. auto.
  - intros i j [E|[E|Hin]] Sij.
    + inversion E; subst. exfalso. apply (star_not_prime _ _ Sij P).
    + inversion E; subst. exists r. auto.
    + destruct (q_scol0 _ _ Hin Sij) as [r1 [X Y]]. exists r1. auto.
  - assert (Key : forall i j, In (i, j) acc -> prime s i j -> j = c' -> False).
    { intros i j Hin Pij Ej. subst j.
      destruct (pair_dec (i, c') (r, c)) as [E|NE].
      - inversion E; subst. congruence.
      - destruct (q_pcol0 _ _ Hin Pij NE) as [i' [X Y]].
        pose proof (RP r' c' i' P X). pose proof (q_rank0 _ _ Y). lia. }
    intros i i' j [E|[E|Hin]] [E'|[E'|Hin']] Pi Pi'; try (inversion E; subst); try (inversion E'; subst); auto;
      try (exfalso; apply (star_not_prime _ _ S Pi); fail);
      try (exfalso; apply (star_not_prime _ _ S Pi'); fail);
      try (exfalso; apply (Key _ _ Hin' Pi' eq_refl); fail);
      try (exfalso; apply (Key _ _ Hin Pi eq_refl); fail).
    all: try (eapply q_pcol2; eauto).
  - unfold isprime, isstar in *. simpl. unfold prime in P. unfold star in S. rewrite P, S. simpl.
    rewrite q_cnt0. reflexivity.
Qed.

Lemma build_path_spec : forall fuel count c acc r racc,
  pathinv acc r c ->
  build_path fuel (marked s) n m count c acc = Ok racc ->
  exists r' c', pathinv racc r' c' /\ (forall i, ~ star s i c').
Proof.
  induction fuel; simpl; intros count c acc r racc Q H; try discriminate.
  pose proof (b_shM C0 n m u v s B) as HM.
  destruct (first_idx (fun x => x =? 1) (column (marked s) c)) as [row|] eqn:F1.
  - apply (first_idx_Some _ 0) in F1. destruct F1 as [Lr Er].
    rewrite column_length in Lr. rewrite (proj1 HM) in Lr.
    rewrite (column_nth (marked s) n m c row HM Lr) in Er. apply Z.eqb_eq in Er.
    assert (S : star s row c) by exact Er.
    destruct (count + 1 <? n + m)%nat; try discriminate.
    destruct (count + 2 <? n + m)%nat; try discriminate.
    destruct (i5_B C0 n m u v s I r c row (q_hprime _ _ _ Q) S) as [c'' P''].
    destruct (first_idx (fun x => x =? 2) (nth row (marked s) [])) as [c'|] eqn:F2.
    + apply (first_idx_Some _ 0) in F2. destruct F2 as [_ Ec]. apply Z.eqb_eq in Ec.
      assert (P : prime s row c') by exact Ec.
      eapply IHfuel; [|exact H]. apply (pathinv_push acc r c row c'); auto.
    + exfalso. destruct (prime_range C0 n m Hn u v s row c'' B P'') as [_ Hc''].
      pose proof (first_idx_None _ _ F2 (nth c'' (nth row (marked s) []) 0)) as X.
      unfold prime, mget in P''. rewrite P'' in X. simpl in X.
      assert (false = true -> False) by discriminate. apply H0. symmetry. apply X.
      rewrite <- P''. apply nth_In. rewrite (rect_nth_length _ n m row HM Lr). auto.
  - inversion H; subst. exists r, c. split; auto.
    intros i Si. destruct (star_range C0 n m Hn u v s i c B Si) as [Hi _].
    pose proof (first_idx_None _ _ F1 (mget (marked s) i c)) as X.
    unfold star in Si. rewrite Si in X. simpl in X.
    assert (false = true -> False) by discriminate. apply H0. symmetry. apply X.
    rewrite <- Si. rewrite <- (column_nth (marked s) n m c i HM Hi). apply nth_In.
    rewrite column_length. rewrite (proj1 HM). auto.
Qed.

(** the state after flipping a path and erasing the primes *)
Definition flipped (racc : list (nat * nat)) : hstate :=
  {| hC := hC s; rowunc := repeat true n; colunc := repeat true m;
     marked := erase_primes (fold_left toggle (rev racc) (marked s)); z0r := z0r s; z0c := z0c s |}.

Lemma flip_star racc r c : pathinv racc r c ->
  forall i j, star (flipped racc) i j <-> (In (i, j) racc /\ prime s i j) \/ (~ In (i, j) racc /\ star s i j).
Proof.
  intros Q.
  pose proof (b_shM C0 n m u v s B) as HM.
  assert (Rg : forall i j, In (i, j) (rev racc) -> (i < n)%nat /\ (j < m)%nat).
  { intros i j Hin. apply (proj2 (in_rev racc (i, j))) in Hin. destruct (q_mark _ _ _ Q i j Hin) as [X|X].
    apply (star_range C0 n m Hn u v s i j B X). apply (prime_range C0 n m Hn u v s i j B X). }
  destruct (toggle_fold n m (rev racc) (marked s) HM (NoDup_rev (q_nodup _ _ _ Q)) Rg) as [TR [T1 T2]].
  intros i j. unfold star at 1. simpl. rewrite mget_erase_primes.
  destruct (in_dec pair_dec (i, j) racc) as [Hin|Hnin].
  - rewrite T1 by (apply (proj1 (in_rev racc (i, j))); exact Hin).
    destruct (q_mark _ _ _ Q i j Hin) as [X|X].
    + unfold star in X. rewrite X. simpl. split; [discriminate|].
      intros [[_ P]|[N _]]; exfalso; [apply (star_not_prime i j X P) | contradiction].
    + unfold prime in X. rewrite X. simpl. split; [intros _; left; split; [exact Hin | exact X] | reflexivity].
  - rewrite T2 by (intro Hin; apply Hnin; apply (proj2 (in_rev racc (i, j))); exact Hin).
    destruct (mget (marked s) i j =? 2) eqn:E2.
    + apply Z.eqb_eq in E2. split; [discriminate|]. intros [[X _]|[_ X]]; [contradiction|].
      unfold star in X. congruence.
    + split; [intros X; right; split; [exact Hnin | exact X] |]. intros [[X _]|[_ X]]; [contradiction | exact X].
Qed.

Lemma flip_marked_rect racc r c : pathinv racc r c -> rect (marked (flipped racc)) n m.
Proof.
  intros Q. pose proof (b_shM C0 n m u v s B) as HM.
  assert (Rg : forall i j, In (i, j) (rev racc) -> (i < n)%nat /\ (j < m)%nat).
  { intros i j Hin. apply (proj2 (in_rev racc (i, j))) in Hin. destruct (q_mark _ _ _ Q i j Hin) as [X|X].
    apply (star_range C0 n m Hn u v s i j B X). apply (prime_range C0 n m Hn u v s i j B X). }
  destruct (toggle_fold n m (rev racc) (marked s) HM (NoDup_rev (q_nodup _ _ _ Q)) Rg) as [TR _].
  simpl. apply erase_primes_rect. exact TR.
Qed.

Lemma flip_phase3 racc r c : pathinv racc r c -> (forall i, ~ star s i c) ->
  phase3 C0 n m u v (flipped racc).
Proof.
  intros Q NS.
  set (s' := flipped racc).
  pose proof (b_shM C0 n m u v s B) as HM.
  pose proof (flip_star racc r c Q) as Star'. fold s' in Star'.
  pose proof (flip_marked_rect racc r c Q) as TRR.
  assert (B' : base C0 n m u v s').
  { destruct B. constructor; simpl; auto.
    - apply repeat_length.
    - apply repeat_length.
    - intros i j S'. apply Star' in S'. destruct S' as [[_ P]|[_ S0]].
      apply (i5_p0 C0 n m u v s I i j P). apply b_star0; auto.
    - intros i j j' S1 S2. apply Star' in S1. apply Star' in S2.
      destruct S1 as [[In1 P1]|[N1 S1]]; destruct S2 as [[In2 P2]|[N2 S2]].
      + apply (i5_p1 C0 n m u v s I i j j' P1 P2).
      + exfalso. destruct (q_prow _ _ _ Q i j In1 P1) as [E|[c1 [X Y]]].
        * subst i. apply (i5_nostar C0 n m u v s I j' S2).
        * assert (c1 = j') by (apply (b_row1 i c1 j' X S2)). subst. contradiction.
      + exfalso. destruct (q_prow _ _ _ Q i j' In2 P2) as [E|[c1 [X Y]]].
        * subst i. apply (i5_nostar C0 n m u v s I j S1).
        * assert (c1 = j) by (apply (b_row1 i c1 j X S1)). subst. contradiction.
      + apply (b_row1 i j j' S1 S2).
    - intros i i' j S1 S2. apply Star' in S1. apply Star' in S2.
      assert (K : forall a b, In (a, j) racc -> prime s a j -> ~ In (b, j) racc -> star s b j -> False).
      { intros a b Ia Pa Nb Sb. destruct (pair_dec (a, j) (r, c)) as [E|NE].
        - inversion E; subst. apply (NS b Sb).
        - destruct (q_pcol _ _ _ Q a j Ia Pa NE) as [b' [X Y]].
          assert (b' = b) by (apply (b_col1 b' b j X Sb)). subst. contradiction. }
      destruct S1 as [[In1 P1]|[N1 S1]]; destruct S2 as [[In2 P2]|[N2 S2]].
      + apply (q_pcol1 _ _ _ Q i i' j In1 In2 P1 P2).
      + exfalso. apply (K i i' In1 P1 N2 S2).
      + exfalso. apply (K i' i In2 P2 N1 S1).
      + apply (b_col1 i i' j S1 S2).
    - intros j Hj Hns. apply b_vmax; auto. intros i Si.
      destruct (in_dec pair_dec (i, j) racc) as [Hin|Hnin].
      + destruct (q_scol _ _ _ Q i j Hin Si) as [r1 [X Y]]. apply (Hns r1). apply Star'. left. auto.
      + apply (Hns i). apply Star'. right. auto. }
  constructor; auto.
  - intros i j. unfold prime. simpl. rewrite mget_erase_primes.
    destruct (mget (fold_left toggle (rev racc) (marked s)) i j =? 2) eqn:E. discriminate.
    apply Z.eqb_neq in E. exact E.
  - intros. simpl. apply bget_repeat_true; auto.
  - intros. simpl. apply bget_repeat_true; auto.
Qed.

End Step5.

Lemma step5_spec C0 n m u v s k' s' : (0 < n)%nat -> inv5 C0 n m u v s -> step5 s = Ok (k', s') ->
  k' = S3 /\ phase3 C0 n m u v s'.
Proof.
  intros Hn I H. unfold step5 in H.
  pose proof (i5_base C0 n m u v s I) as B.
  rewrite (rect_nrows _ n m (b_shC C0 n m u v s B)), (rect_ncols _ n m (b_shC C0 n m u v s B) Hn) in H.
  destruct (build_path (S (n + m)) (marked s) n m 0 (z0c s) [(z0r s, z0c s)]) as [racc|e] eqn:BP; try discriminate.
  inversion H; subst. split; auto.
  destruct (i5_rank C0 n m u v s I) as [rank RP].
  destruct (build_path_spec C0 n m Hn u v s I rank RP _ _ _ _ _ _ (pathinv_init C0 n m u v s I rank) BP)
    as [r' [c' [Q NS]]].
  eapply flip_phase3; eauto.
Qed.
