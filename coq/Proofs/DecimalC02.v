(** C02 — the Decimal model (Common/DecC02.v) rounds correctly: proofs for ALL operands.
    [dec_fix] (Decimal._fix at prec 28, ROUND_HALF_EVEN), hence [dec_mul], and [dec_div] (the remainder/"sticky digit"
    algorithm of Decimal.__truediv__) return the representable 28-digit decimal nearest to the exact rational result,
    ties to even. *)
From Coq Require Import ZArith QArith Qpower Qabs Lia List Bool.
Require Import QV.Common.Outcome QV.Common.DecC02.
Open Scope Z_scope.

(** number of digits *)
Lemma ndig_aux_spec : forall fuel n acc, 1 <= n -> n < 2 ^ Z.of_nat fuel ->
  exists m, 0 <= m /\ ndig_aux fuel n acc = acc + m /\ 10 ^ m <= n < 10 ^ (m + 1).
Proof.
  induction fuel as [|f IH]; intros n acc Hn Hf.
  - simpl in Hf. lia.
  - cbn [ndig_aux]. destruct (n <? 10) eqn:E.
    + apply Z.ltb_lt in E. exists 0. split; [lia|]. split; [lia|]. simpl. lia.
    + apply Z.ltb_ge in E.
      assert (H1 : 1 <= n / 10) by (apply Z.div_le_lower_bound; lia).
      assert (H2 : n / 10 < 2 ^ Z.of_nat f).
      { rewrite Nat2Z.inj_succ, Z.pow_succ_r in Hf by lia. apply Z.div_lt_upper_bound; lia. }
      destruct (IH (n / 10) (acc + 1) H1 H2) as [m [Hm [Hr [Hlo Hhi]]]].
      exists (m + 1). split; [lia|]. split; [lia|].
      pose proof (Z.div_mod n 10 ltac:(lia)) as D. pose proof (Z.mod_pos_bound n 10 ltac:(lia)) as B.
      rewrite (Z.pow_add_r 10 m 1) by lia. rewrite (Z.pow_add_r 10 (m + 1) 1) by lia.
      change (10 ^ 1) with 10. lia.
Qed.

Lemma ndigits_spec : forall n, n <> 0 ->
  1 <= ndigits n /\ 10 ^ (ndigits n - 1) <= Z.abs n < 10 ^ (ndigits n).
Proof.
  intros n Hn. unfold ndigits.
  assert (Ha : 1 <= Z.abs n) by lia.
  assert (Hf : Z.abs n < 2 ^ Z.of_nat (S (Z.to_nat (Z.log2 (Z.abs n))))).
  { rewrite Nat2Z.inj_succ, Z2Nat.id by apply Z.log2_nonneg.
    pose proof (Z.log2_spec (Z.abs n) ltac:(lia)). lia. }
  destruct (ndig_aux_spec _ _ 1 Ha Hf) as [m [Hm [Hr [Hlo Hhi]]]].
  rewrite Hr. replace (1 + m - 1) with m by lia. replace (1 + m) with (m + 1) by lia. lia.
Qed.

(** round half even on integers ([rhe] is defined in Common/DecC02.v) *)
Lemma rhe_spec : forall a p, 0 <= a -> 0 < p ->
  2 * Z.abs (a - rhe a p * p) <= p /\ (2 * Z.abs (a - rhe a p * p) = p -> Z.even (rhe a p) = true)
  /\ a / p <= rhe a p <= a / p + 1.
Proof.
  intros a p Ha Hp. unfold rhe.
  pose proof (Z.div_mod a p ltac:(lia)) as D. pose proof (Z.mod_pos_bound a p Hp) as B.
  set (q := a / p) in *. set (r := a mod p) in *.
  destruct (2 * r >? p) eqn:E1; cbn [orb].
  - apply Z.gtb_lt in E1. split; [lia|]. split; [lia|lia].
  - rewrite Z.gtb_ltb in E1. rewrite Z.ltb_ge in E1.
    destruct (2 * r =? p) eqn:E2; cbn [andb].
    + apply Z.eqb_eq in E2. destruct (Z.odd q) eqn:O.
      * split; [lia|]. split; [|lia]. intros _. rewrite Z.even_add, <- Z.negb_odd, O. reflexivity.
      * split; [lia|]. split; [|lia]. intros _. rewrite <- Z.negb_odd, O. reflexivity.
    + apply Z.eqb_neq in E2. split; [lia|]. split; [lia|lia].
Qed.

Lemma div_round_Z : forall X Y c r p h,
  0 < Y -> X = c * Y + r -> 0 < r < Y -> 0 <= c -> 0 < h -> p = 10 * h ->
  let c1 := if c mod 5 =? 0 then c + 1 else c in
  2 * Z.abs (rhe c1 p * p * Y - X) < p * Y.
Proof.
  intros X Y c r p h HY HX Hr Hc Hh Hp. cbv zeta.
  assert (P5 : p = 5 * (2 * h)) by lia.
  pose proof (Z.div_mod c p ltac:(lia)) as D. pose proof (Z.mod_pos_bound c p ltac:(lia)) as B.
  set (q := c / p) in *. set (t := c mod p) in *.
  assert (T5 : t mod 5 = c mod 5).
  { assert (C : c = t + (2 * h * q) * 5) by lia. rewrite C at 1. symmetry. apply Z.mod_add. lia. }
  destruct (c mod 5 =? 0) eqn:E.
  - apply Z.eqb_eq in E. rewrite E in T5.
    (* t multiple of 5, t <= p - 5 *)
    pose proof (Z.div_mod t 5 ltac:(lia)) as Dt. rewrite T5 in Dt.
    assert (Tle : t + 5 <= p) by (rewrite P5 in *; lia).
    assert (Q1 : (c + 1) / p = q).
    { symmetry. apply (Z.div_unique (c + 1) p q (t + 1)); lia. }
    assert (M1 : (c + 1) mod p = t + 1).
    { symmetry. apply (Z.mod_unique (c + 1) p q (t + 1)); lia. }
    unfold rhe. rewrite Q1, M1.
    assert (NE : 2 * (t + 1) <> p) by lia.
    destruct (2 * (t + 1) >? p) eqn:G; cbn [orb].
    + rewrite Z.gtb_ltb in G. apply Z.ltb_lt in G. assert (U1 : 2 * t >= p) by lia.
      assert (E1 : (q + 1) * p * Y - X = (p - t) * Y - r) by (rewrite HX, D; ring).
      assert (A1 : 0 <= (p - t - 1) * Y) by (apply Z.mul_nonneg_nonneg; lia).
      assert (A2 : 0 <= (2 * t - p) * Y) by (apply Z.mul_nonneg_nonneg; lia).
      rewrite E1. lia.
    + rewrite Z.gtb_ltb in G. apply Z.ltb_ge in G.
      destruct (2 * (t + 1) =? p) eqn:G2; [apply Z.eqb_eq in G2; lia|]. cbn [andb]. assert (U1 : 2 * t + 2 <= p) by lia.
      assert (E1 : q * p * Y - X = - (t * Y + r)) by (rewrite HX, D; ring).
      assert (A1 : 0 <= (p - 2 * t - 2) * Y) by (apply Z.mul_nonneg_nonneg; lia).
      assert (A2 : 0 <= t * Y) by (apply Z.mul_nonneg_nonneg; lia).
      rewrite E1. lia.
  - apply Z.eqb_neq in E.
    unfold rhe. fold q t.
    assert (NE : 2 * t <> p).
    { intro A. apply E. rewrite <- T5. assert (T : t = h * 5) by lia. rewrite T. apply Z.mod_mul. lia. }
    destruct (2 * t >? p) eqn:G; cbn [orb].
    + rewrite Z.gtb_ltb in G. apply Z.ltb_lt in G. assert (U1 : 2 * t >= p) by lia.
      assert (E1 : (q + 1) * p * Y - X = (p - t) * Y - r) by (rewrite HX, D; ring).
      assert (A1 : 0 <= (p - t - 1) * Y) by (apply Z.mul_nonneg_nonneg; lia).
      assert (A2 : 0 <= (2 * t - p) * Y) by (apply Z.mul_nonneg_nonneg; lia).
      rewrite E1. lia.
    + rewrite Z.gtb_ltb in G. apply Z.ltb_ge in G.
      destruct (2 * t =? p) eqn:G2; [apply Z.eqb_eq in G2; lia|]. cbn [andb]. assert (U1 : 2 * t + 2 <= p) by lia.
      assert (E1 : q * p * Y - X = - (t * Y + r)) by (rewrite HX, D; ring).
      assert (A1 : 0 <= (p - 2 * t - 2) * Y) by (apply Z.mul_nonneg_nonneg; lia).
      assert (A2 : 0 <= t * Y) by (apply Z.mul_nonneg_nonneg; lia).
      rewrite E1. lia.
Qed.

Open Scope Q_scope.
Definition ten : Q := inject_Z 10.
Lemma ten_pos : 0 < ten. Proof. reflexivity. Qed.
Lemma ten_nz : ~ ten == 0. Proof. discriminate. Qed.

Lemma dec2Q_val : forall d, dec2Q d == inject_Z (coef d) * ten ^ (dexp d).
Proof.
  intros [c e]. unfold dec2Q. cbn [coef dexp]. destruct (0 <=? e)%Z eqn:E.
  - apply Z.leb_le in E. rewrite inject_Z_mult. unfold ten. rewrite Zpower_Qpower by exact E. reflexivity.
  - apply Z.leb_gt in E. 
    assert (P : (0 < 10 ^ (- e))%Z) by (apply Z.pow_pos_nonneg; lia).
    rewrite Qmake_Qdiv. rewrite Z2Pos.id by exact P.
    replace e with (- (- e))%Z at 2 by lia. rewrite Qpower_opp. unfold ten. rewrite <- Zpower_Qpower by lia.
    unfold Qdiv. reflexivity.
Qed.

Lemma inject_Z_minus' : forall x y, inject_Z (x - y) == inject_Z x - inject_Z y.
Proof. intros. unfold Qminus, Qopp, Qplus, inject_Z, Qeq; simpl. ring. Qed.
Lemma inject_Z_inj' : forall x y, inject_Z x == inject_Z y -> x = y.
Proof. intros x y H. unfold Qeq in H; simpl in H. lia. Qed.
Lemma Qmult_cancel_r : forall x y t, ~ t == 0 -> x * t == y * t -> x == y.
Proof.
  intros x y t Ht H. assert (A : x == x * t / t) by (field; exact Ht). assert (B : y == y * t / t) by (field; exact Ht).
  rewrite A, B, H. reflexivity.
Qed.

Lemma Qabs_inject_Z : forall z, Qabs (inject_Z z) = inject_Z (Z.abs z).
Proof. reflexivity. Qed.

Lemma dec_fix_unfold : forall d, (prec < ndigits (coef d))%Z ->
  let k := (ndigits (coef d) - prec)%Z in
  let q1 := rhe (Z.abs (coef d)) (10 ^ k) in
  dec_fix d = if (q1 =? 10 ^ prec)%Z then mkdec (Z.sgn (coef d) * (q1 / 10)) (dexp d + k + 1)
              else mkdec (Z.sgn (coef d) * q1) (dexp d + k).
Proof.
  intros d H. unfold dec_fix. 
  assert (A : ndigits (Z.abs (coef d)) = ndigits (coef d)) by (unfold ndigits; rewrite Z.abs_involutive; reflexivity).
  rewrite A. destruct (ndigits (coef d) <=? prec)%Z eqn:E; [apply Z.leb_le in E; lia|]. reflexivity.
Qed.

Theorem dec_fix_correct : forall d,
  ((ndigits (coef d) <= prec)%Z -> dec_fix d = d) /\
  ((prec < ndigits (coef d))%Z -> exists q1 : Z,
      let u := ten ^ (dexp d + ndigits (coef d) - prec) in
      (10 ^ 27 <= q1 <= 10 ^ 28)%Z
      /\ dec2Q (dec_fix d) == inject_Z (Z.sgn (coef d) * q1) * u
      /\ 2 * Qabs (dec2Q (dec_fix d) - dec2Q d) <= u
      /\ (2 * Qabs (dec2Q (dec_fix d) - dec2Q d) == u -> Z.even q1 = true)
      /\ (Z.abs (coef (dec_fix d)) < 10 ^ prec)%Z).
Proof.
  intro d. split.
  - intro H. unfold dec_fix.
    assert (A : ndigits (Z.abs (coef d)) = ndigits (coef d)) by (unfold ndigits; rewrite Z.abs_involutive; reflexivity).
    rewrite A. apply Z.leb_le in H. rewrite H. reflexivity.
  - intro H. pose proof (dec_fix_unfold d H) as U. cbv zeta in U.
    set (n := ndigits (coef d)) in *. set (k := (n - prec)%Z) in *.
    set (a := Z.abs (coef d)) in *. set (p := (10 ^ k)%Z) in *. set (q1 := rhe a p) in *.
    assert (Hc : coef d <> 0%Z).
    { intro Z0. unfold n in H. rewrite Z0 in H. vm_compute in H. discriminate. }
    destruct (ndigits_spec (coef d) Hc) as [N1 [Nlo Nhi]]. fold n in N1, Nlo, Nhi. fold a in Nlo, Nhi.
    assert (Hk : (0 < k)%Z) by (unfold k, prec in *; lia).
    assert (Hp : (0 < p)%Z) by (apply Z.pow_pos_nonneg; lia).
    assert (Ha : (0 <= a)%Z) by (unfold a; lia).
    destruct (rhe_spec a p Ha Hp) as [R1 [R2 R3]]. fold q1 in R1, R2, R3.
    (* bounds on a / p *)
    assert (Hn : (n = 28 + k)%Z) by (unfold k, prec; lia).
    assert (P1 : (10 ^ (n - 1) = 10 ^ 27 * p)%Z).
    { unfold p. rewrite <- Z.pow_add_r by lia. f_equal. lia. }
    assert (P2 : (10 ^ n = 10 ^ 28 * p)%Z).
    { unfold p. rewrite <- Z.pow_add_r by lia. f_equal. lia. }
    assert (Q1 : (10 ^ 27 <= a / p)%Z) by (apply Z.div_le_lower_bound; lia).
    assert (Q2 : (a / p < 10 ^ 28)%Z) by (apply Z.div_lt_upper_bound; lia).
    exists q1. cbv zeta.
    assert (B : (10 ^ 27 <= q1 <= 10 ^ 28)%Z) by lia.
    (* value of the result *)
    assert (V : dec2Q (dec_fix d) == inject_Z (Z.sgn (coef d) * q1) * ten ^ (dexp d + k)).
    { rewrite U. destruct (q1 =? 10 ^ prec)%Z eqn:E.
      - apply Z.eqb_eq in E. rewrite dec2Q_val. cbn [coef dexp].
        rewrite (Qpower_plus ten (dexp d + k) 1 ten_nz). change (ten ^ 1) with ten.
        assert (T : (q1 = q1 / 10 * 10)%Z) by (rewrite E; unfold prec; vm_compute; reflexivity).
        rewrite T at 2. rewrite Z.mul_assoc, (inject_Z_mult _ 10). unfold ten. ring.
      - rewrite dec2Q_val. cbn [coef dexp]. reflexivity. }
    assert (Eu : (dexp d + n - prec = dexp d + k)%Z) by (unfold k; lia).
    rewrite Eu.
    (* the difference *)
    assert (Df : dec2Q (dec_fix d) - dec2Q d == inject_Z (Z.sgn (coef d) * (q1 * p - a)) * ten ^ (dexp d)).
    { rewrite V, (dec2Q_val d), (Qpower_plus ten (dexp d) k ten_nz).
      unfold p, ten. rewrite <- (Zpower_Qpower 10 k) by lia.
      assert (S : coef d = (Z.sgn (coef d) * a)%Z) by (unfold a; rewrite Z.mul_comm, Z.abs_sgn; reflexivity).
      rewrite S at 2. rewrite !inject_Z_mult, inject_Z_minus', !inject_Z_mult. ring. }
    assert (Ab : Qabs (dec2Q (dec_fix d) - dec2Q d) == inject_Z (Z.abs (a - q1 * p)) * ten ^ (dexp d)).
    { rewrite Df, Qabs_Qmult, Qabs_inject_Z. rewrite (Qabs_pos (ten ^ dexp d)) by (apply Qlt_le_weak, Qpower_0_lt, ten_pos).
      replace (Z.abs (Z.sgn (coef d) * (q1 * p - a))) with (Z.abs (a - q1 * p)); [reflexivity|].
      rewrite Z.abs_mul. assert (Z.abs (Z.sgn (coef d)) = 1%Z) by lia. lia. }
    assert (Up : ten ^ (dexp d + k) == inject_Z p * ten ^ (dexp d)).
    { rewrite (Qpower_plus ten (dexp d) k ten_nz). unfold p, ten. rewrite <- (Zpower_Qpower 10 k) by lia. ring. }
    assert (Tp : 0 < ten ^ (dexp d)) by (apply Qpower_0_lt, ten_pos).
    split; [exact B|]. split; [exact V|]. split; [|split].
    + rewrite Ab, Up. rewrite Qmult_assoc. apply Qmult_le_compat_r; [|apply Qlt_le_weak; exact Tp].
      change 2 with (inject_Z 2). rewrite <- inject_Z_mult. rewrite <- Zle_Qle. exact R1.
    + intro Eq. apply R2. rewrite Ab, Up, Qmult_assoc in Eq.
      apply Qmult_cancel_r in Eq; [|intro Z0; rewrite Z0 in Tp; discriminate].
      change 2 with (inject_Z 2) in Eq. rewrite <- inject_Z_mult in Eq. apply inject_Z_inj' in Eq. exact Eq.
    + rewrite U. destruct (q1 =? 10 ^ prec)%Z eqn:E; cbn [coef].
      * apply Z.eqb_eq in E. rewrite E. unfold prec. rewrite Z.abs_mul.
        assert (Z.abs (Z.sgn (coef d)) = 1%Z) by lia. rewrite H0. vm_compute. reflexivity.
      * apply Z.eqb_neq in E. rewrite Z.abs_mul. assert (Z.abs (Z.sgn (coef d)) = 1%Z) by lia. unfold prec in *. lia.
Qed.

Lemma dec_fix_value : forall d, (prec < ndigits (coef d))%Z ->
  let k := (ndigits (coef d) - prec)%Z in
  dec2Q (dec_fix d) == inject_Z (Z.sgn (coef d) * rhe (Z.abs (coef d)) (10 ^ k)) * ten ^ (dexp d + k).
Proof.
  intros d H k. pose proof (dec_fix_unfold d H) as U. cbv zeta in U. fold k in U.
  set (q1 := rhe (Z.abs (coef d)) (10 ^ k)) in *.
  rewrite U. destruct (q1 =? 10 ^ prec)%Z eqn:E.
  - apply Z.eqb_eq in E. rewrite dec2Q_val. cbn [coef dexp].
    rewrite (Qpower_plus ten (dexp d + k) 1 ten_nz). change (ten ^ 1) with ten.
    assert (T : (q1 = q1 / 10 * 10)%Z) by (rewrite E; unfold prec; vm_compute; reflexivity).
    rewrite T at 2. rewrite Z.mul_assoc, (inject_Z_mult _ 10). unfold ten. ring.
  - rewrite dec2Q_val. cbn [coef dexp]. reflexivity.
Qed.

Lemma strip_value : forall fuel c e ideal c' e', strip_to_ideal fuel c e ideal = (c', e') ->
  inject_Z c' * ten ^ e' == inject_Z c * ten ^ e.
Proof.
  induction fuel as [|f IH]; intros c e ideal c' e' H; cbn [strip_to_ideal] in H.
  - injection H as <- <-. reflexivity.
  - destruct ((e <? ideal)%Z && (c mod 10 =? 0)%Z) eqn:E.
    + apply andb_true_iff in E. destruct E as [_ E]. apply Z.eqb_eq in E.
      rewrite (IH _ _ _ _ _ H). rewrite (Qpower_plus ten e 1 ten_nz). change (ten ^ 1) with ten.
      pose proof (Z.div_mod c 10 ltac:(lia)) as D. rewrite E in D.
      rewrite D at 2. rewrite Z.add_0_r, inject_Z_mult. unfold ten. ring.
    + injection H as <- <-. reflexivity.
Qed.

Lemma div_eucl_div_mod : forall X Y, Z.div_eucl X Y = (Z.div X Y, Z.modulo X Y).
Proof. intros. unfold Z.div, Z.modulo. destruct (Z.div_eucl X Y). reflexivity. Qed.

Lemma sgn_sq : forall z, z <> 0%Z -> (Z.sgn z * Z.sgn z = 1)%Z.
Proof. intros z H. destruct z; simpl; try reflexivity. contradiction. Qed.

Lemma ndigits_pos_ge : forall c, (10 ^ 28 <= c)%Z -> (prec < ndigits c)%Z.
Proof.
  intros c H. assert (Hc : c <> 0%Z) by lia. destruct (ndigits_spec c Hc) as [N1 [_ Nhi]].
  unfold prec. destruct (Z_lt_le_dec 28 (ndigits c)) as [L|L]; [exact L|exfalso].
  assert (10 ^ ndigits c <= 10 ^ 28)%Z by (apply Z.pow_le_mono_r; lia). lia.
Qed.

Theorem dec_div_correct : forall a b, coef a <> 0%Z -> coef b <> 0%Z ->
  exists d1, dec_div a b = Some (dec_fix d1)
    /\ (dec2Q d1 == dec2Q a / dec2Q b
        \/ ((prec < ndigits (coef d1))%Z
            /\ 2 * Qabs (dec2Q (dec_fix d1) - dec2Q a / dec2Q b) < ten ^ (dexp d1 + ndigits (coef d1) - prec))).
Proof.
  intros a b Ha Hb. unfold dec_div.
  destruct (coef b =? 0)%Z eqn:Eb; [apply Z.eqb_eq in Eb; contradiction|].
  destruct (coef a =? 0)%Z eqn:Ea; [apply Z.eqb_eq in Ea; contradiction|].
  set (sg := (Z.sgn (coef a) * Z.sgn (coef b))%Z).
  set (x := Z.abs (coef a)). set (y := Z.abs (coef b)).
  set (sh := (ndigits y - ndigits x + prec + 1)%Z). set (e := (dexp a - dexp b - sh)%Z).
  assert (Hx : (0 < x)%Z) by (unfold x; lia). assert (Hy : (0 < y)%Z) by (unfold y; lia).
  destruct (ndigits_spec x ltac:(lia)) as [Nx1 [Nxlo Nxhi]]. destruct (ndigits_spec y ltac:(lia)) as [Ny1 [Nylo Nyhi]].
  rewrite (Z.abs_eq x) in Nxlo, Nxhi by lia. rewrite (Z.abs_eq y) in Nylo, Nyhi by lia.
  (* X / Y *)
  set (X := if (0 <=? sh)%Z then (x * 10 ^ sh)%Z else x). set (Y := if (0 <=? sh)%Z then y else (y * 10 ^ (- sh))%Z).
  assert (DE : (if (0 <=? sh)%Z then Z.div_eucl (x * 10 ^ sh) y else Z.div_eucl x (y * 10 ^ (- sh))) = ((X / Y)%Z, (X mod Y)%Z)).
  { unfold X, Y. destruct (0 <=? sh)%Z; apply div_eucl_div_mod. }
  rewrite DE. clear DE.
  assert (HY : (0 < Y)%Z).
  { unfold Y. destruct (0 <=? sh)%Z eqn:S; [exact Hy|]. apply Z.leb_gt in S. apply Z.mul_pos_pos; [exact Hy | apply Z.pow_pos_nonneg; lia]. }
  (* 10^28 * Y <= X *)
  assert (Big : (10 ^ 28 * Y <= X)%Z).
  { unfold X, Y, sh, prec in *. destruct (0 <=? ndigits y - ndigits x + 28 + 1)%Z eqn:S.
    - apply Z.leb_le in S.
      assert (P : (10 ^ (ndigits x - 1) * 10 ^ (ndigits y - ndigits x + 28 + 1) = 10 ^ 28 * 10 ^ ndigits y)%Z).
      { rewrite <- !Z.pow_add_r by lia. f_equal. lia. }
      assert (M : (10 ^ (ndigits x - 1) * 10 ^ (ndigits y - ndigits x + 28 + 1) <= x * 10 ^ (ndigits y - ndigits x + 28 + 1))%Z).
      { apply Z.mul_le_mono_nonneg_r; [apply Z.pow_nonneg; lia | exact Nxlo]. }
      assert (N : (10 ^ 28 * y <= 10 ^ 28 * 10 ^ ndigits y)%Z) by (apply Z.mul_le_mono_nonneg_l; lia).
      lia.
    - apply Z.leb_gt in S.
      assert (P : (10 ^ 28 * (10 ^ ndigits y * 10 ^ (- (ndigits y - ndigits x + 28 + 1))) = 10 ^ (ndigits x - 1))%Z).
      { rewrite <- !Z.pow_add_r by lia. f_equal. lia. }
      assert (M : (y * 10 ^ (- (ndigits y - ndigits x + 28 + 1)) <= 10 ^ ndigits y * 10 ^ (- (ndigits y - ndigits x + 28 + 1)))%Z).
      { apply Z.mul_le_mono_nonneg_r; [apply Z.pow_nonneg; lia | lia]. }
      assert (N : (10 ^ 28 * (y * 10 ^ (- (ndigits y - ndigits x + 28 + 1))) <= 10 ^ 28 * (10 ^ ndigits y * 10 ^ (- (ndigits y - ndigits x + 28 + 1))))%Z)
        by (apply Z.mul_le_mono_nonneg_l; lia).
      lia. }
  set (c := (X / Y)%Z). set (r := (X mod Y)%Z).
  pose proof (Z.div_mod X Y ltac:(lia)) as D. pose proof (Z.mod_pos_bound X Y HY) as Br. fold c r in D, Br.
  assert (Hc : (10 ^ 28 <= c)%Z) by (apply Z.div_le_lower_bound; lia).
  (* the exact quotient *)
  assert (Sa : coef a = (Z.sgn (coef a) * x)%Z) by (unfold x; rewrite Z.mul_comm, Z.abs_sgn; reflexivity).
  assert (Sb : coef b = (Z.sgn (coef b) * y)%Z) by (unfold y; rewrite Z.mul_comm, Z.abs_sgn; reflexivity).
  assert (XY : inject_Z X / inject_Z Y == inject_Z x / inject_Z y * ten ^ sh).
  { unfold X, Y. destruct (0 <=? sh)%Z eqn:S.
    - apply Z.leb_le in S. rewrite inject_Z_mult. unfold ten. rewrite Zpower_Qpower by exact S. field.
      intro Z0. apply inject_Z_inj' in Z0. lia.
    - apply Z.leb_gt in S. rewrite inject_Z_mult. replace sh with (- (- sh))%Z at 2 by lia. rewrite Qpower_opp.
      unfold ten. rewrite Zpower_Qpower by lia. field. split.
      + apply Qpower_not_0. discriminate.
      + intro Z0. apply inject_Z_inj' in Z0. lia. }
  assert (Quo : dec2Q a / dec2Q b == inject_Z sg * (inject_Z X / inject_Z Y) * ten ^ e).
  { rewrite XY, (dec2Q_val a), (dec2Q_val b). rewrite Sa at 1. rewrite Sb at 1. unfold sg.
    assert (Ee : (dexp a = dexp b + (sh + e))%Z) by (unfold e; lia). rewrite Ee.
    rewrite (Qpower_plus ten (dexp b) (sh + e) ten_nz), (Qpower_plus ten sh e ten_nz).
    rewrite !inject_Z_mult.
    assert (S2 : inject_Z (Z.sgn (coef b)) * inject_Z (Z.sgn (coef b)) == 1).
    { rewrite <- inject_Z_mult, (sgn_sq _ Hb). reflexivity. }
    assert (NZ1 : ~ inject_Z (Z.sgn (coef b)) == 0) by (intro Z0; apply inject_Z_inj' in Z0; lia).
    assert (NZ2 : ~ inject_Z y == 0) by (intro Z0; apply inject_Z_inj' in Z0; lia).
    assert (NZ3 : ~ ten ^ dexp b == 0) by (apply Qpower_not_0, ten_nz).
    assert (Inv : / inject_Z (Z.sgn (coef b)) == inject_Z (Z.sgn (coef b))).
    { apply (Qmult_cancel_r _ _ (inject_Z (Z.sgn (coef b))) NZ1). rewrite S2. field. exact NZ1. }
    unfold Qdiv. rewrite !Qinv_mult_distr, Inv. field. split; assumption. }
  destruct (negb (r =? 0)%Z) eqn:Er.
  - (* inexact *)
    apply negb_true_iff in Er. apply Z.eqb_neq in Er.
    set (c1 := if (c mod 5 =? 0)%Z then (c + 1)%Z else c).
    assert (Hc1 : (10 ^ 28 <= c1)%Z) by (unfold c1; destruct (c mod 5 =? 0)%Z; lia).
    exists (mkdec (sg * c1) e). split; [reflexivity|]. right. cbn [coef dexp].
    assert (Sg1 : (sg = 1 \/ sg = -1)%Z) by (unfold sg; destruct (coef a), (coef b); simpl; try contradiction; auto).
    assert (Nd : ndigits (sg * c1) = ndigits c1).
    { unfold ndigits. rewrite Z.abs_mul. destruct Sg1 as [-> | ->]; simpl (Z.abs _); rewrite ?Z.mul_1_l; reflexivity. }
    rewrite Nd. pose proof (ndigits_pos_ge c1 Hc1) as Hn. split; [exact Hn|].
    set (k := (ndigits c1 - prec)%Z). assert (Hk : (0 < k)%Z) by (unfold k; lia).
    pose proof (dec_fix_value (mkdec (sg * c1) e)) as V. cbn [coef dexp] in V. rewrite Nd in V. specialize (V Hn). cbv zeta in V. fold k in V.
    assert (Ab : Z.abs (sg * c1) = c1) by (rewrite Z.abs_mul; destruct Sg1 as [-> | ->]; simpl (Z.abs _); lia).
    assert (Sg : Z.sgn (sg * c1) = sg) by (destruct Sg1 as [-> | ->]; [rewrite Z.mul_1_l; apply Z.sgn_pos; lia | replace (-1 * c1)%Z with (- c1)%Z by lia; rewrite Z.sgn_opp, Z.sgn_pos; lia]).
    rewrite Ab, Sg in V.
    set (p := (10 ^ k)%Z) in *. set (q1 := rhe c1 p) in *.
    assert (Pp : p = (10 * 10 ^ (k - 1))%Z) by (unfold p; rewrite <- Z.pow_succ_r by lia; f_equal; lia).
    assert (Hh : (0 < 10 ^ (k - 1))%Z) by (apply Z.pow_pos_nonneg; lia).
    assert (DX : X = (c * Y + r)%Z) by lia.
    pose proof (div_round_Z X Y c r p (10 ^ (k - 1)) HY DX ltac:(lia) ltac:(lia) Hh Pp) as R. cbv zeta in R. fold c1 q1 in R.
    replace (e + ndigits c1 - prec)%Z with (e + k)%Z by (unfold k; lia).
    assert (NY : ~ inject_Z Y == 0) by (intro Z0; apply inject_Z_inj' in Z0; lia).
    assert (Df : dec2Q (dec_fix (mkdec (sg * c1) e)) - dec2Q a / dec2Q b
                 == inject_Z (sg * (q1 * p * Y - X)) / inject_Z Y * ten ^ e).
    { rewrite V, Quo, (Qpower_plus ten e k ten_nz). unfold p, ten. rewrite <- (Zpower_Qpower 10 k) by lia.
      rewrite !inject_Z_mult, inject_Z_minus', !inject_Z_mult. field. exact NY. }
    assert (Te : 0 < ten ^ e) by (apply Qpower_0_lt, ten_pos).
    rewrite Df. unfold Qdiv. rewrite !Qabs_Qmult, Qabs_inject_Z, (Qabs_pos (ten ^ e)) by (apply Qlt_le_weak; exact Te).
    rewrite (Qabs_pos (/ inject_Z Y)) by (apply Qlt_le_weak, Qinv_lt_0_compat; change 0 with (inject_Z 0); rewrite <- Zlt_Qlt; exact HY).
    rewrite (Qpower_plus ten e k ten_nz). unfold ten at 3. rewrite <- (Zpower_Qpower 10 k) by lia. fold p.
    assert (AbZ : Z.abs (sg * (q1 * p * Y - X)) = Z.abs (q1 * p * Y - X)) by (rewrite Z.abs_mul; destruct Sg1 as [-> | ->]; simpl (Z.abs _); lia).
    rewrite AbZ.
    assert (Goal1 : 2 * inject_Z (Z.abs (q1 * p * Y - X)) * / inject_Z Y < inject_Z p).
    { apply Qlt_shift_div_r; [change 0 with (inject_Z 0); rewrite <- Zlt_Qlt; exact HY|].
      change 2 with (inject_Z 2). rewrite <- !inject_Z_mult. rewrite <- Zlt_Qlt. exact R. }
    assert (Fin : 2 * (inject_Z (Z.abs (q1 * p * Y - X)) * / inject_Z Y * ten ^ e) == (2 * inject_Z (Z.abs (q1 * p * Y - X)) * / inject_Z Y) * ten ^ e) by ring.
    rewrite Fin. rewrite (Qmult_comm (ten ^ e) (inject_Z p)). apply Qmult_lt_compat_r; [exact Te | exact Goal1].
  - (* exact *)
    apply negb_false_iff in Er. apply Z.eqb_eq in Er.
    destruct (strip_to_ideal (Z.to_nat (ndigits c)) c e (dexp a - dexp b)) as [c' e'] eqn:St.
    exists (mkdec (sg * c') e'). split; [reflexivity|]. left.
    rewrite dec2Q_val. cbn [coef dexp]. rewrite inject_Z_mult, <- Qmult_assoc, (strip_value _ _ _ _ _ _ St), Quo.
    assert (NY : ~ inject_Z Y == 0) by (intro Z0; apply inject_Z_inj' in Z0; lia).
    assert (XZ : X = (c * Y)%Z) by (rewrite Er in D; lia).
    assert (XcY : inject_Z X == inject_Z c * inject_Z Y) by (rewrite <- inject_Z_mult, <- XZ; reflexivity).
    rewrite XcY. field. exact NY.
Qed.
