(** C05 — the generated helper functions (Gen/ChgMultRules.v, regenerated from chgmult.py on every run) are the
    hand-written ones of Model/ChgMult.v and Model/ChgMultD.v, for all arguments. *)
From Coq Require Import ZArith List Bool.
Require Import QV.Common.Outcome QV.Model.ChgMult QV.Model.ChgMultD QV.Gen.ChgMultRules.
Import ListNotations.
Open Scope Z_scope.

Lemma gen_apply_default_eq l d : gen_apply_default l d = apply_default l d.
Proof. reflexivity. Qed.
Lemma gen_hss_eq l : gen_hss l = hss l.
Proof. reflexivity. Qed.
Lemma gen_sufficient_eq z c m : gen_sufficient z c m = sufficient z c m.
Proof. reflexivity. Qed.
Lemma gen_parity_ok_eq z c m : gen_parity_ok z c m = parity_ok z c m.
Proof. reflexivity. Qed.
Lemma gen_sufficientD_eq D z c m : gen_sufficientD D z c m = sufficientD D z c m.
Proof. reflexivity. Qed.
Lemma gen_parity_okD_eq D z c m : gen_parity_okD D z c m = parity_okD D z c m.
Proof. reflexivity. Qed.
(** R3 of the model ([1 <=? om r], [forallb (fun m => 1 <=? m) (ofm r)]) is _mult_ok on the total and on every fragment *)
Lemma gen_mult_ok_eq m : gen_mult_ok m = (1 <=? m).
Proof. reflexivity. Qed.

Lemma gen_rules_tie :
  (forall l d, gen_apply_default l d = apply_default l d) /\ (forall l, gen_hss l = hss l) /\
  (forall m, gen_mult_ok m = (1 <=? m)) /\
  (forall z c m, gen_sufficient z c m = sufficient z c m) /\ (forall z c m, gen_parity_ok z c m = parity_ok z c m) /\
  (forall D z c m, gen_sufficientD D z c m = sufficientD D z c m) /\
  (forall D z c m, gen_parity_okD D z c m = parity_okD D z c m).
Proof. repeat split. Qed.
