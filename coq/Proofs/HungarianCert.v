(** C14 — soundness of the dual certificate checker [check_cert] (LP duality by sums over lists),
    for matrices of every shape. *)
From Coq Require Import ZArith List Bool Arith Lia Permutation Sorted.
Require Import QV.Common.Outcome QV.Model.Hungarian.
Import ListNotations.
Open Scope Z_scope.

(** * Specification *)
Definition rect (C : mat) (n m : nat) : Prop := length C = n /\ Forall (fun r => length r = m) C.

Definition cost (C : mat) (a : list (nat * nat)) : Z :=
  fold_right (fun p acc => mget C (fst p) (snd p) + acc) 0 a.

(* a complete assignment of an n x m problem: min(n,m) pairs, in range, no row and no column repeated *)
Definition complete (n m : nat) (a : list (nat * nat)) : Prop :=
  length a = Nat.min n m /\ NoDup (map fst a) /\ NoDup (map snd a)
  /\ Forall (fun p => (fst p < n)%nat /\ (snd p < m)%nat) a.

Definition lsa_spec (C : mat) (res : result) : Prop :=
  let '(rows, cols, R) := res in
  let n := nrows C in let m := ncols C in
  let pairs := combine rows cols in
  rect C n m
  /\ length rows = Nat.min n m /\ length cols = Nat.min n m
  /\ NoDup rows /\ NoDup cols /\ StronglySorted lt rows
  /\ complete n m pairs
  /\ rect R n m
  /\ (forall i j, (i < n)%nat -> (j < m)%nat -> 0 <= mget R i j)
  /\ (forall i j, In (i, j) pairs -> mget R i j = 0)
  /\ (exists u v : nat -> Z, forall i j, (i < n)%nat -> (j < m)%nat -> mget R i j = mget C i j - u i - v j)
  /\ (forall a, complete n m a ->
        cost C pairs <= cost C a
        /\ (cost C a = cost C pairs -> forall i j, In (i, j) a -> mget R i j = 0)).

(** * Sums over index lists *)
Definition zsumf (f : nat -> Z) (l : list nat) : Z := fold_right (fun x acc => f x + acc) 0 l.

Lemma zsumf_app f a b : zsumf f (a ++ b) = zsumf f a + zsumf f b.
Proof. induction a; simpl; lia. Qed.

Lemma zsumf_perm f a b : Permutation a b -> zsumf f a = zsumf f b.
Proof. induction 1; simpl; lia. Qed.

Lemma zsumf_filter_split f (p : nat -> bool) l :
  zsumf f l = zsumf f (filter p l) + zsumf f (filter (fun x => negb (p x)) l).
Proof. induction l; simpl; auto. destruct (p a); simpl; lia. Qed.

Lemma length_filter_split {A} (p : A -> bool) l :
  length l = (length (filter p l) + length (filter (fun x => negb (p x)) l))%nat.
Proof. induction l; simpl; auto. destruct (p a); simpl; lia. Qed.

Lemma sum_dominate f : forall L1 L2, length L1 = length L2 ->
  (forall x y, In x L1 -> In y L2 -> f y <= f x) -> zsumf f L2 <= zsumf f L1.
Proof.
  induction L1; destruct L2; simpl; intros; try discriminate; try lia.
  assert (f n <= f a) by (apply H0; auto).
  assert (zsumf f L2 <= zsumf f L1) by (apply IHL1; auto). lia.
Qed.

Lemma memb_In x l : memb x l = true <-> In x l.
Proof.
  unfold memb. rewrite existsb_exists. split.
  - intros [y [Hy E]]. apply Nat.eqb_eq in E. subst; auto.
  - intros H. exists x. split; auto. apply Nat.eqb_refl.
Qed.

(** the exchange inequality: S and T are equally long duplicate-free index lists, and every element of S
    that is not in T carries a value at least as large as every value on T *)
Lemma sum_exchange f : forall S T, NoDup S -> NoDup T -> length S = length T ->
  (forall x y, In x S -> ~ In x T -> In y T -> f y <= f x) -> zsumf f T <= zsumf f S.
Proof.
  intros S T HS HT HL Hdom.
  rewrite (zsumf_filter_split f (fun x => memb x T) S).
  rewrite (zsumf_filter_split f (fun x => memb x S) T).
  assert (P : Permutation (filter (fun x => memb x T) S) (filter (fun x => memb x S) T)).
  { apply NoDup_Permutation; try (apply NoDup_filter; auto).
    intros x. rewrite !filter_In, !memb_In. tauto. }
  rewrite (zsumf_perm f _ _ P).
  assert (L : length (filter (fun x => negb (memb x T)) S) = length (filter (fun x => negb (memb x S)) T)).
  { pose proof (length_filter_split (fun x => memb x T) S).
    pose proof (length_filter_split (fun x => memb x S) T).
    pose proof (Permutation_length P). lia. }
  assert (zsumf f (filter (fun x => negb (memb x S)) T) <= zsumf f (filter (fun x => negb (memb x T)) S)).
  { apply sum_dominate; auto. intros x y Hx Hy.
    apply filter_In in Hx. destruct Hx as [Hx1 Hx2]. apply filter_In in Hy. destruct Hy as [Hy1 _].
    apply Hdom; auto. intro HI. apply memb_In in HI. rewrite HI in Hx2. discriminate. }
  lia.
Qed.

(** * Cost decomposition *)
Lemma cost_decomp (C R : mat) (u v : nat -> Z) n m :
  (forall i j, (i < n)%nat -> (j < m)%nat -> mget C i j = mget R i j + u i + v j) ->
  forall a, Forall (fun p => (fst p < n)%nat /\ (snd p < m)%nat) a ->
  cost C a = cost R a + zsumf u (map fst a) + zsumf v (map snd a).
Proof.
  intros H a. induction 1; simpl; auto.
  destruct H0. rewrite (H _ _ H0 H2). lia.
Qed.

Lemma cost_nonneg (R : mat) n m :
  (forall i j, (i < n)%nat -> (j < m)%nat -> 0 <= mget R i j) ->
  forall a, Forall (fun p => (fst p < n)%nat /\ (snd p < m)%nat) a -> 0 <= cost R a.
Proof.
  intros H a. induction 1; simpl; try lia. destruct H0. specialize (H _ _ H0 H2). lia.
Qed.

Lemma cost_zero_each (R : mat) n m :
  (forall i j, (i < n)%nat -> (j < m)%nat -> 0 <= mget R i j) ->
  forall a, Forall (fun p => (fst p < n)%nat /\ (snd p < m)%nat) a -> cost R a = 0 ->
  forall i j, In (i, j) a -> mget R i j = 0.
Proof.
  intros H a Ha. induction Ha; simpl; intros E i j Hin; [contradiction|].
  destruct H0 as [H0 H2]. pose proof (H _ _ H0 H2). pose proof (cost_nonneg R n m H l Ha).
  destruct Hin as [Hin|Hin].
  - subst x. simpl in *. lia.
  - apply IHHa; auto. lia.
Qed.

Lemma cost_all_zero (R : mat) : forall a, (forall i j, In (i, j) a -> mget R i j = 0) -> cost R a = 0.
Proof.
  induction a; simpl; intros; auto. destruct a as [i j]. simpl.
  rewrite (H i j) by auto. rewrite IHa; auto.
Qed.

(** the general duality statement *)
Theorem certificate_optimal (C R : mat) (u v : nat -> Z) (n m : nat) (M a : list (nat * nat)) :
  (forall i j, (i < n)%nat -> (j < m)%nat -> mget C i j = mget R i j + u i + v j) ->
  (forall i j, (i < n)%nat -> (j < m)%nat -> 0 <= mget R i j) ->
  (forall i j, In (i, j) M -> mget R i j = 0) ->
  complete n m M -> complete n m a ->
  (forall i i', (i < n)%nat -> ~ In i (map fst M) -> (i' < n)%nat -> u i' <= u i) ->
  (forall j j', (j < m)%nat -> ~ In j (map snd M) -> (j' < m)%nat -> v j' <= v j) ->
  cost C M <= cost C a /\ (cost C a = cost C M -> forall i j, In (i, j) a -> mget R i j = 0).
Proof.
  intros Hd Hnn Hz [ML [MR [MC MB]]] [AL [AR [AC AB]]] Hu Hv.
  rewrite (cost_decomp C R u v n m Hd M MB), (cost_decomp C R u v n m Hd a AB).
  rewrite (cost_all_zero R M Hz).
  pose proof (cost_nonneg R n m Hnn a AB) as Hge.
  assert (BU : forall l : list (nat * nat), Forall (fun p => (fst p < n)%nat /\ (snd p < m)%nat) l ->
               (forall x, In x (map fst l) -> (x < n)%nat) /\ (forall x, In x (map snd l) -> (x < m)%nat)).
  { intros l Hl. rewrite Forall_forall in Hl. split; intros x Hx; apply in_map_iff in Hx;
      destruct Hx as [p [E Hp]]; subst x; apply (Hl p Hp). }
  destruct (BU M MB) as [BM1 BM2]. destruct (BU a AB) as [BA1 BA2].
  assert (U : zsumf u (map fst M) <= zsumf u (map fst a)).
  { apply sum_exchange; [exact AR | exact MR | rewrite !map_length; lia |].
    intros x y Hx Hn Hy. apply Hu; auto. }
  assert (V : zsumf v (map snd M) <= zsumf v (map snd a)).
  { apply sum_exchange; [exact AC | exact MC | rewrite !map_length; lia |].
    intros x y Hx Hn Hy. apply Hv; auto. }
  split. lia.
  intros E. apply (cost_zero_each R n m Hnn a AB). lia.
Qed.

(** * Reflection of the boolean checker *)
Lemma rectb_rect M n m : rectb M n m = true -> rect M n m.
Proof.
  unfold rectb, rect. rewrite andb_true_iff, Nat.eqb_eq, forallb_forall, Forall_forall.
  intros [H1 H2]. split; auto. intros x Hx. apply Nat.eqb_eq. auto.
Qed.

Lemma increasing_sorted : forall l, increasing l = true -> StronglySorted lt l.
Proof.
  intros l H. apply Sorted_StronglySorted. { intros x y z; lia. }
  induction l as [|x r IH]; constructor.
  - apply IH. simpl in H. apply andb_true_iff in H. tauto.
  - destruct r; constructor. simpl in H. apply andb_true_iff in H. destruct H as [H _].
    apply Nat.ltb_lt in H. exact H.
Qed.

Lemma sorted_lt_NoDup : forall l, StronglySorted lt l -> NoDup l.
Proof.
  induction 1; constructor; auto. intro Hin. rewrite Forall_forall in H0. specialize (H0 _ Hin). lia.
Qed.

Lemma nodupb_NoDup : forall l, nodupb l = true -> NoDup l.
Proof.
  induction l; simpl; intros; constructor.
  - apply andb_true_iff in H. destruct H as [H _]. intro Hin. apply memb_In in Hin. unfold memb in Hin.
    rewrite Hin in H. discriminate.
  - apply IHl. apply andb_true_iff in H. tauto.
Qed.

Lemma in_positions n m i j : In (i, j) (positions n m) <-> (i < n)%nat /\ (j < m)%nat.
Proof.
  unfold positions. rewrite in_flat_map. split.
  - intros [x [Hx Hin]]. apply in_map_iff in Hin. destruct Hin as [y [E Hy]]. inversion E; subst.
    apply in_seq in Hx. apply in_seq in Hy. lia.
  - intros [H1 H2]. exists i. split. apply in_seq; lia. apply in_map_iff. exists j. split; auto. apply in_seq; lia.
Qed.

Lemma map_fst_combine {A B} : forall (l : list A) (l' : list B), length l = length l' -> map fst (combine l l') = l.
Proof. induction l; destruct l'; simpl; intros; try discriminate; auto. f_equal. apply IHl. lia. Qed.
Lemma map_snd_combine {A B} : forall (l : list A) (l' : list B), length l = length l' -> map snd (combine l l') = l'.
Proof. induction l; destruct l'; simpl; intros; try discriminate; auto. f_equal. apply IHl. lia. Qed.

Lemma forallb_seq_lt (p : nat -> bool) n : forallb p (seq 0 n) = true -> forall i, (i < n)%nat -> p i = true.
Proof. rewrite forallb_forall. intros H i Hi. apply H. apply in_seq. lia. Qed.

Theorem check_cert_sound : forall C res, check_cert C res = true -> lsa_spec C res.
Proof.
  intros C [[rows cols] R]. unfold check_cert, lsa_spec.
  set (n := nrows C). set (m := ncols C).
  rewrite !andb_true_iff.
  intros [[[[[[[[[[[[HC HR] Hlr] Hlc] Hinc] Hnd] Hrb] Hcb] Hnn] Hz] Hdec] Hvmax] Humax].
  apply rectb_rect in HC. apply rectb_rect in HR.
  apply Nat.eqb_eq in Hlr. apply Nat.eqb_eq in Hlc.
  apply increasing_sorted in Hinc. pose proof (sorted_lt_NoDup _ Hinc) as Hndr.
  apply nodupb_NoDup in Hnd.
  rewrite forallb_forall in Hrb, Hcb, Hz, Hdec.
  assert (Lrc : length rows = length cols) by lia.
  assert (Hcomp : complete n m (combine rows cols)).
  { unfold complete. rewrite combine_length, map_fst_combine, map_snd_combine by auto.
    repeat split; auto. lia.
    apply Forall_forall. intros [i j] Hin. simpl.
    split; [apply Nat.ltb_lt, Hrb; eapply in_combine_l; eauto | apply Nat.ltb_lt, Hcb; eapply in_combine_r; eauto]. }
  assert (Hnn' : forall i j, (i < n)%nat -> (j < m)%nat -> 0 <= mget R i j).
  { intros i j Hi Hj. destruct HR as [HR1 HR2]. unfold mget.
    rewrite forallb_forall in Hnn.
    assert (In (nth i R []) R) by (apply nth_In; lia).
    specialize (Hnn _ H). rewrite forallb_forall in Hnn.
    rewrite Forall_forall in HR2. specialize (HR2 _ H).
    apply Z.leb_le. apply Hnn. apply nth_In. lia. }
  assert (Hz' : forall i j, In (i, j) (combine rows cols) -> mget R i j = 0).
  { intros i j Hin. apply Z.eqb_eq. apply (Hz (i, j) Hin). }
  assert (Hd : forall i j, (i < n)%nat -> (j < m)%nat -> mget C i j = mget R i j + pot_u C R i + pot_v C R j).
  { intros i j Hi Hj. assert (In (i, j) (positions n m)) by (apply in_positions; auto).
    specialize (Hdec _ H). apply Z.eqb_eq in Hdec. simpl in Hdec. unfold dget in Hdec at 1. lia. }
  assert (Hex : exists u v : nat -> Z, forall i j, (i < n)%nat -> (j < m)%nat -> mget R i j = mget C i j - u i - v j).
  { exists (pot_u C R), (pot_v C R). intros i j Hi Hj. rewrite (Hd i j Hi Hj). lia. }
  assert (Hopt : forall a, complete n m a ->
        cost C (combine rows cols) <= cost C a
        /\ (cost C a = cost C (combine rows cols) -> forall i j, In (i, j) a -> mget R i j = 0)).
  { intros a Ha.
    eapply certificate_optimal with (u := pot_u C R) (v := pot_v C R) (R := R); eauto.
    + rewrite map_fst_combine by auto. intros i i' Hi Hn Hi'.
      pose proof (forallb_seq_lt _ _ Humax i Hi) as E. apply orb_true_iff in E. destruct E as [E|E].
      * apply memb_In in E. contradiction.
      * apply Z.leb_le. apply (forallb_seq_lt _ _ E i' Hi').
    + rewrite map_snd_combine by auto. intros j j' Hj Hn Hj'.
      pose proof (forallb_seq_lt _ _ Hvmax j Hj) as E. apply orb_true_iff in E. destruct E as [E|E].
      * apply memb_In in E. contradiction.
      * apply Z.leb_le. apply (forallb_seq_lt _ _ E j' Hj'). }
  repeat (split; [assumption|]). assumption.
Qed.

(** * Input refusal (driver logic) *)
Lemma lsa_in_refuses : forall M r c, In r M -> In c r -> is_fin c = false -> lsa_in M = Err PyValueError.
Proof.
  intros M r c Hr Hc Hf. unfold lsa_in.
  destruct (negb (forallb _ M)); auto.
  assert (E : forallb (forallb is_fin) M = false).
  { apply not_true_is_false. intro T. rewrite forallb_forall in T. specialize (T _ Hr).
    rewrite forallb_forall in T. rewrite (T _ Hc) in Hf. discriminate. }
  rewrite E. reflexivity.
Qed.

Lemma lsa_in_ragged : forall r0 M r, In r M -> length r <> length r0 -> lsa_in (r0 :: M) = Err PyValueError.
Proof.
  intros r0 M r Hr Hl. unfold lsa_in.
  assert (E : forallb (fun r1 => Nat.eqb (length r1) (length r0)) (r0 :: M) = false).
  { apply not_true_is_false. intro T. rewrite forallb_forall in T. specialize (T r (or_intror Hr)).
    apply Nat.eqb_eq in T. contradiction. }
  rewrite E. reflexivity.
Qed.

Lemma lsa_in_finite : forall M : list (list Z), (forall r, In r M -> length r = ncols M) ->
  lsa_in (map (map Fin) M) = lsa M.
Proof.
  intros M HM. unfold lsa_in.
  assert (E1 : forallb (fun r => Nat.eqb (length r) (match map (map Fin) M with [] => O | r0 :: _ => length r0 end))
                       (map (map Fin) M) = true).
  { apply forallb_forall. intros r Hr. apply in_map_iff in Hr. destruct Hr as [r' [E Hr']]. subst r.
    rewrite map_length. apply Nat.eqb_eq. rewrite (HM _ Hr'). destruct M; simpl; auto. rewrite map_length. auto. }
  rewrite E1. simpl.
  assert (E2 : forallb (forallb is_fin) (map (map Fin) M) = true).
  { apply forallb_forall. intros r Hr. apply in_map_iff in Hr. destruct Hr as [r' [E Hr']]. subst r.
    apply forallb_forall. intros c Hc. apply in_map_iff in Hc. destruct Hc as [z [E _]]. subst c. reflexivity. }
  rewrite E2. simpl. f_equal.
  rewrite map_map. rewrite <- (map_id M) at 2. apply map_ext. intros r. rewrite map_map. simpl. apply map_id.
Qed.
