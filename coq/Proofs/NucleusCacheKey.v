(** C06 — what the key of a result cache around reconcile_nucleus must tell apart.
    [history_independent] (Proofs/NucleusClass.v) shows that a key under which equal keys denote the same call is
    SUFFICIENT for every answer in every history to be the uncached answer.  Here the converse: it is NECESSARY (a key
    that identifies a call with an earlier, successfully answered one serves the stored answer), and every one of the nine
    arguments of reconcile_nucleus is significant — for each there are two calls that differ only in it (unspecified vs
    explicit for the six clues; the other value for the three options) with different outcomes.  Hence any memo that
    keeps the answers history independent keys on all nine, and "unspecified" is not interchangeable with any default. *)
From Coq Require Import ZArith List Bool String QArith Lia.
Require Import QV.Common.Outcome QV.Gen.PTable QV.Model.Nucleus QV.Proofs.NucleusClass.
Import ListNotations.
Open Scope list_scope.
Open Scope Z_scope.

Section Necessity.
  Variables (K V : Type) (keq : K -> K -> bool) (f : K -> outcome V) (maxsize : nat).

  (** if every history is answered as by the uncached function, a key may only be identified with the key of a
      stored (successful) call that has the same answer *)
  Theorem key_must_separate :
    (1 <= maxsize)%nat ->
    (forall h, fst (run K V keq f maxsize [] h) = pure K V f h) ->
    forall a b v, f a = Ok v -> keq b a = true -> f b = Ok v.
  Proof.
    intros Hm Hh a b v Ha Hk. specialize (Hh [Call K a; Call K b]).
    destruct maxsize as [|n]; [lia|].
    simpl in Hh. unfold call in Hh. simpl in Hh. rewrite Ha in Hh. simpl in Hh. rewrite Hk in Hh.
    simpl in Hh. injection Hh as Hb. symmetry. exact Hb.
  Qed.
End Necessity.

Inductive nfield := FA | FZ | FE | Fmass | Freal | Flabel | Fspeclabel | Fnonphysical | Fmtol.

(** two calls that agree in every argument except (possibly) [fd] *)
Definition same_except (fd : nfield) (a b : nuc_in) : Prop :=
  (fd = FA \/ nA a = nA b) /\ (fd = FZ \/ nZ a = nZ b) /\ (fd = FE \/ nE a = nE b) /\ (fd = Fmass \/ nmass a = nmass b) /\
  (fd = Freal \/ nreal a = nreal b) /\ (fd = Flabel \/ nlabel a = nlabel b) /\ (fd = Fspeclabel \/ speclabel a = speclabel b) /\
  (fd = Fnonphysical \/ nonphysical a = nonphysical b) /\ (fd = Fmtol \/ mtol a = mtol b).

Definition mk (A Z : option Z) (E : option string) (m : option Q) (r : option bool) (l : option string) (sl np : bool) (t : Q) : nuc_in :=
  {| nA := A; nZ := Z; nE := E; nmass := m; nreal := r; nlabel := l; speclabel := sl; nonphysical := np; mtol := t |}.

(** the witnesses: the first call leaves the clue unspecified (or the option at its default) and succeeds *)
Definition witness (fd : nfield) : nuc_in * nuc_in :=
  match fd with
  | FA => (mk None (Some 27) None None None None true false (1 # 1000), mk (Some 60) (Some 27) None None None None true false (1 # 1000))
  | FZ => (mk None None None None None (Some "he"%string) true false (1 # 1000), mk None (Some 1) None None None (Some "he"%string) true false (1 # 1000))
  | FE => (mk None (Some 1) None None None None true false (1 # 1000), mk None (Some 1) (Some "he"%string) None None None true false (1 # 1000))
  | Fmass => (mk None (Some 27) None None None None true false (1 # 1000),
              mk None (Some 27) None (Some (59933817059 # 1000000000)) None None true false (1 # 1000))
  | Freal => (mk None None None None None (Some "@he"%string) true false (1 # 1000),
              mk None None None None (Some true) (Some "@he"%string) true false (1 # 1000))
  | Flabel => (mk None (Some 2) None None None None true false (1 # 1000), mk None (Some 2) None None None (Some "@he"%string) true false (1 # 1000))
  | Fspeclabel => (mk None (Some 2) None None None (Some "he"%string) true false (1 # 1000),
                   mk None (Some 2) None None None (Some "he"%string) false false (1 # 1000))
  | Fnonphysical => (mk None (Some 27) None (Some (200 # 1)) None None true true (1 # 1000), mk None (Some 27) None (Some (200 # 1)) None None true false (1 # 1000))
  | Fmtol => (mk None (Some 27) None (Some (58933 # 1000)) None None true false (1 # 1000),
              mk None (Some 27) None (Some (58933 # 1000)) None None true false (1 # 10000))
  end.

Theorem every_argument_is_significant :
  forall fd, exists a b v, same_except fd a b /\ reconcile a = Ok v /\ reconcile b <> Ok v.
Proof.
  intro fd. exists (fst (witness fd)), (snd (witness fd)).
  destruct fd; cbn [witness fst snd]; eexists; (split; [unfold same_except, mk; cbn; repeat split; auto|]);
    (split; [vm_compute; reflexivity | vm_compute; intro H; discriminate H]).
Qed.

(** the instance the call-history stream looks for on the implementation: "real unspecified" is not "real = True" *)
Lemma unspecified_real_is_not_true :
  exists v, reconcile (fst (witness Freal)) = Ok v /\ oreal v = false /\ reconcile (snd (witness Freal)) = Err Validation.
Proof. eexists. split; [vm_compute; reflexivity|]. split; vm_compute; reflexivity. Qed.

(** so: a result cache around [reconcile] that answers every history like the uncached function tells apart, for each of
    the nine arguments, two calls that differ in that argument only *)
Theorem cache_key_must_distinguish (keq : nuc_in -> nuc_in -> bool) :
  (forall h, fst (run nuc_in nuc_out keq reconcile lru_maxsize [] h) = pure nuc_in nuc_out reconcile h) ->
  forall fd, exists a b, same_except fd a b /\ keq b a = false.
Proof.
  intros Hh fd. destruct (every_argument_is_significant fd) as (a & b & v & Hs & Ha & Hb).
  exists a, b. split; [exact Hs|]. destruct (keq b a) eqn:E; [|reflexivity].
  exfalso. apply Hb. apply (key_must_separate nuc_in nuc_out keq reconcile lru_maxsize ltac:(unfold lru_maxsize; lia) Hh a b v Ha E).
Qed.
