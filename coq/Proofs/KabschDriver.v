(** C12 — proofs about the composed B787 driver (Model/KabschDriver.v). *)
From Coq Require Import Reals List Arith Lia Lra Bool.
Require Import QV.Common.Outcome QV.Common.AlignAlg QV.Common.AlignAlgFacts QV.Common.AlignAlgQuat QV.Common.AlignAlgR
               QV.Gen.Quat QV.Model.Mill QV.Model.Kabsch QV.Model.KabschPerm QV.Model.KabschDriver
               QV.Proofs.Mill QV.Proofs.Kabsch QV.Proofs.KabschR QV.Proofs.KabschSurj QV.Proofs.KabschPerm.
Import ListNotations.

(** ---- the selection loop: what it returns is one of the trials, and the RMSD it reports is that trial's ---- *)
Section Select2.
Context {K : Type} {KO : Ops K} {KD : DivOps K}.

Definition attains (cs : list cand) (best : K) (hold : option (nat * bool)) : Prop :=
  match hold with
  | None => True
  | Some (i, m) => exists c, nth_error cs i = Some c /\ best = (if m then c_rmsd_m c else c_rmsd c)
  end.

Lemma b787_loop_attains dm rtc aconv cs : forall pre best hold,
  attains (pre ++ cs) best hold ->
  attains (pre ++ cs) (fst (b787_loop dm rtc aconv cs (length pre) best hold)) (snd (b787_loop dm rtc aconv cs (length pre) best hold)).
Proof.
  induction cs as [|c cs IH]; intros pre best hold HA; cbn [b787_loop fst snd]; [exact HA|].
  assert (Hc : nth_error (pre ++ c :: cs) (length pre) = Some c).
  { rewrite nth_error_app2 by lia. rewrite Nat.sub_diag. reflexivity. }
  assert (E : pre ++ c :: cs = (pre ++ [c]) ++ cs) by (rewrite <- app_assoc; reflexivity).
  assert (EL : S (length pre) = length (pre ++ [c])) by (rewrite app_length; cbn; lia).
  set (better := klt (c_rmsd c) best).
  set (best1 := if better then c_rmsd c else best).
  set (hold1 := if better then Some (length pre, false) else hold).
  assert (H1 : attains (pre ++ c :: cs) best1 hold1).
  { unfold best1, hold1. destruct better; [|exact HA]. exists c. split; [exact Hc|reflexivity]. }
  destruct (better && negb rtc && klt best1 aconv); [exact H1|].
  destruct dm.
  - set (better_m := klt (c_rmsd_m c) best1).
    set (best2 := if better_m then c_rmsd_m c else best1).
    set (hold2 := if better_m then Some (length pre, true) else hold1).
    assert (H2 : attains (pre ++ c :: cs) best2 hold2).
    { unfold best2, hold2. destruct better_m; [|exact H1]. exists c. split; [exact Hc|reflexivity]. }
    destruct (better_m && negb rtc && klt best2 aconv); [exact H2|].
    rewrite E, EL. apply IH. rewrite <- E. exact H2.
  - rewrite E, EL. apply IH. rewrite <- E. exact H1.
Qed.

(** the solution B787 holds at the end is one of its trials, and best_rmsd is the RMSD of that trial *)
Theorem b787_select_attains run_mirror superimposable rtc aconv hundred cs best i mir :
  b787_select run_mirror superimposable rtc aconv hundred cs = Ok (best, i, mir) ->
  exists c, nth_error cs i = Some c /\ best = (if mir then c_rmsd_m c else c_rmsd c).
Proof.
  unfold b787_select.
  pose proof (b787_loop_attains (run_mirror && negb superimposable) rtc aconv cs [] hundred None I) as H.
  cbn [app length] in H.
  destruct (b787_loop (run_mirror && negb superimposable) rtc aconv cs 0 hundred None) as [bst [[j m]|]]; [|discriminate].
  intros E. inversion E; subst. exact H.
Qed.

Lemma b787_loop_some dm rtc aconv cs : forall idx best hold,
  hold <> None -> snd (b787_loop dm rtc aconv cs idx best hold) <> None.
Proof.
  induction cs as [|c cs IH]; intros idx best hold Hh; cbn [b787_loop snd]; [exact Hh|].
  set (better := klt (c_rmsd c) best).
  set (best1 := if better then c_rmsd c else best).
  set (hold1 := if better then Some (idx, false) else hold).
  assert (H1 : hold1 <> None) by (unfold hold1; destruct better; [discriminate|exact Hh]).
  destruct (better && negb rtc && klt best1 aconv); [exact H1|].
  destruct dm.
  - set (better_m := klt (c_rmsd_m c) best1).
    set (best2 := if better_m then c_rmsd_m c else best1).
    set (hold2 := if better_m then Some (idx, true) else hold1).
    assert (H2 : hold2 <> None) by (unfold hold2; destruct better_m; [discriminate|exact H1]).
    destruct (better_m && negb rtc && klt best2 aconv); [exact H2|]. apply IH. exact H2.
  - apply IH. exact H1.
Qed.

(* hold_solution stays None only if no plain trial beat the initial best *)
Lemma b787_loop_none dm rtc aconv cs : forall idx best hold,
  snd (b787_loop dm rtc aconv cs idx best hold) = None ->
  hold = None /\ Forall (fun c => klt (c_rmsd c) best = false) cs.
Proof.
  induction cs as [|c cs IH]; intros idx best hold; cbn [b787_loop snd]; [intros ->; split; [reflexivity|constructor]|].
  destruct (klt (c_rmsd c) best) eqn:EB.
  - (* hold1 = Some _: the result cannot be None *)
    intros H. exfalso.
    pose proof (b787_loop_some dm rtc aconv (c :: cs) idx best hold) as HS.
    cbn [b787_loop] in HS. rewrite EB in HS.
    destruct hold as [h|].
    + apply HS; [discriminate|exact H].
    + (* hold = None but better: rerun the step with the hold it produces *)
      clear HS. cbn [andb] in H.
      destruct (negb rtc && klt (c_rmsd c) aconv); [discriminate H|].
      destruct dm.
      * destruct (klt (c_rmsd_m c) (c_rmsd c)) eqn:EM; cbn [andb] in H.
        -- destruct (negb rtc && klt (c_rmsd_m c) aconv); [discriminate H|].
           revert H. apply b787_loop_some. discriminate.
        -- revert H. apply b787_loop_some. discriminate.
      * revert H. apply b787_loop_some. discriminate.
  - cbn [andb]. destruct dm.
    + destruct (klt (c_rmsd_m c) best) eqn:EM; cbn [andb].
      * intros H. exfalso.
        destruct (negb rtc && klt (c_rmsd_m c) aconv); [discriminate H|].
        revert H. apply b787_loop_some. discriminate.
      * intros H. apply IH in H. destruct H as [Hh HF]. split; [exact Hh|]. constructor; [exact EB|exact HF].
    + intros H. apply IH in H. destruct H as [Hh HF]. split; [exact Hh|]. constructor; [exact EB|exact HF].
Qed.

(** hold_solution is None (B787 then fails with AttributeError) only if no trial is below the initial 100.0 *)
Theorem b787_select_error run_mirror superimposable rtc aconv hundred cs e :
  b787_select run_mirror superimposable rtc aconv hundred cs = Err e ->
  e = PyAttributeError /\ Forall (fun c => klt (c_rmsd c) hundred = false) cs.
Proof.
  unfold b787_select.
  pose proof (b787_loop_none (run_mirror && negb superimposable) rtc aconv cs 0 hundred None) as H.
  destruct (b787_loop (run_mirror && negb superimposable) rtc aconv cs 0 hundred None) as [bst [[j m]|]]; [discriminate|].
  intros E. inversion E. split; [reflexivity|]. apply H. reflexivity.
Qed.

Hypothesis kleb_total : forall a b : K, kleb a b = true \/ kleb b a = true.
Hypothesis kleb_trans : forall a b c : K, kleb a b = true -> kleb b c = true -> kleb a c = true.

(* for ANY setting of run_to_completion: either the loop stopped early below the convergence threshold, or the
   result is a minimum over all trials *)
Lemma b787_loop_min_or_converged dm rtc aconv cs : forall idx best hold,
  let res := fst (b787_loop dm rtc aconv cs idx best hold) in
  (rtc = false /\ klt res aconv = true) \/
  (kleb res best = true /\
   Forall (fun c => kleb res (c_rmsd c) = true /\ (dm = true -> kleb res (c_rmsd_m c) = true)) cs).
Proof.
  induction cs as [|c cs IH]; intros idx best hold; cbn [b787_loop fst].
  - right. split; [apply (kleb_refl kleb_total)|constructor].
  - set (better := klt (c_rmsd c) best). set (best1 := if better then c_rmsd c else best).
    set (hold1 := if better then Some (idx, false) else hold).
    assert (H1 : kleb best1 best = true /\ kleb best1 (c_rmsd c) = true).
    { unfold best1, better. destruct (klt (c_rmsd c) best) eqn:E.
      - split; [apply (klt_true_le kleb_total); exact E|apply (kleb_refl kleb_total)].
      - split; [apply (kleb_refl kleb_total)|apply klt_false_le; exact E]. }
    destruct (better && negb rtc && klt best1 aconv) eqn:G1.
    + left. cbn [fst]. apply andb_prop in G1. destruct G1 as [G1 G1']. apply andb_prop in G1.
      split; [destruct rtc; [destruct G1; discriminate|reflexivity]|exact G1'].
    + destruct dm.
      * set (better_m := klt (c_rmsd_m c) best1). set (best2 := if better_m then c_rmsd_m c else best1).
        set (hold2 := if better_m then Some (idx, true) else hold1).
        assert (H2 : kleb best2 best1 = true /\ kleb best2 (c_rmsd_m c) = true).
        { unfold best2, better_m. destruct (klt (c_rmsd_m c) best1) eqn:E.
          - split; [apply (klt_true_le kleb_total); exact E|apply (kleb_refl kleb_total)].
          - split; [apply (kleb_refl kleb_total)|apply klt_false_le; exact E]. }
        destruct (better_m && negb rtc && klt best2 aconv) eqn:G2.
        -- left. cbn [fst]. apply andb_prop in G2. destruct G2 as [G2 G2']. apply andb_prop in G2.
           split; [destruct rtc; [destruct G2; discriminate|reflexivity]|exact G2'].
        -- destruct (IH (S idx) best2 hold2) as [L|[A B]]; [left; exact L|right].
           split; [|constructor; [split|exact B]].
           ++ eapply kleb_trans; [exact A|]. eapply kleb_trans; [exact (proj1 H2)|exact (proj1 H1)].
           ++ eapply kleb_trans; [exact A|]. eapply kleb_trans; [exact (proj1 H2)|exact (proj2 H1)].
           ++ intros _. eapply kleb_trans; [exact A|exact (proj2 H2)].
      * destruct (IH (S idx) best1 hold1) as [L|[A B]]; [left; exact L|right].
        split; [|constructor; [split|exact B]].
        -- eapply kleb_trans; [exact A|exact (proj1 H1)].
        -- eapply kleb_trans; [exact A|exact (proj2 H1)].
        -- intros E; discriminate.
Qed.

Theorem b787_best_is_min_or_converged run_mirror superimposable rtc aconv hundred cs best i mir :
  b787_select run_mirror superimposable rtc aconv hundred cs = Ok (best, i, mir) ->
  (rtc = false /\ klt best aconv = true) \/
  Forall (fun c => kleb best (c_rmsd c) = true /\
                   (run_mirror && negb superimposable = true -> kleb best (c_rmsd_m c) = true)) cs.
Proof.
  unfold b787_select.
  pose proof (b787_loop_min_or_converged (run_mirror && negb superimposable) rtc aconv cs 0 hundred None) as H.
  destruct (b787_loop (run_mirror && negb superimposable) rtc aconv cs 0 hundred None) as [bst [[j m]|]]; [|discriminate].
  intros E. inversion E; subst. cbn [fst] in H. destruct H as [L|[_ B]]; [left; exact L|right; exact B].
Qed.
End Select2.

(** ---- the composed driver over the reals ---- *)
Lemma Rkleb_total (a b : R) : kleb a b = true \/ kleb b a = true.
Proof. cbn [kleb RDiv]. destruct (Rle_dec a b); [left; reflexivity|]. destruct (Rle_dec b a); [right; reflexivity|]. lra. Qed.
Lemma Rkleb_trans (a b c : R) : kleb a b = true -> kleb b c = true -> kleb a c = true.
Proof. cbn [kleb RDiv]. destruct (Rle_dec a b), (Rle_dec b c), (Rle_dec a c); try discriminate; try reflexivity. lra. Qed.
Lemma Rkleb_le (a b : R) : kleb a b = true <-> (a <= b)%R.
Proof. cbn [kleb RDiv]. destruct (Rle_dec a b); split; try discriminate; intros; try reflexivity; try assumption. contradiction. Qed.
Lemma Rklt_lt (a b : R) : klt a b = true <-> (a < b)%R.
Proof. unfold klt. cbn [kleb RDiv]. destruct (Rle_dec b a); cbn [negb]; split; try discriminate; intros; try reflexivity; lra. Qed.

Lemma omap_ok {A B} (f : A -> outcome B) (l : list A) :
  (forall a, In a l -> exists b, f a = Ok b) -> exists bs, omap f l = Ok bs /\ Forall2 (fun a b => f a = Ok b) l bs.
Proof.
  induction l as [|a l IH]; intros H; cbn [omap]; [exists []; split; [reflexivity|constructor]|].
  destruct (H a (or_introl eq_refl)) as [b Eb]. destruct IH as [bs [E F]]; [intros x Hx; apply H; right; exact Hx|].
  rewrite Eb, E. cbn [obind]. exists (b :: bs). split; [reflexivity|constructor; assumption].
Qed.

Lemma Forall2_nth_error_r {A B} (P : A -> B -> Prop) l1 l2 i b :
  Forall2 P l1 l2 -> nth_error l2 i = Some b -> exists a, nth_error l1 i = Some a /\ P a b.
Proof.
  intros F. revert i. induction F as [|x y l1 l2 Hxy F IH]; intros i E; [destruct i; discriminate|].
  destruct i; cbn [nth_error] in *; [inversion E; subst; exists x; split; [reflexivity|exact Hxy]|apply IH; exact E].
Qed.
Lemma Forall2_in_l {A B} (P : A -> B -> Prop) l1 l2 a :
  Forall2 P l1 l2 -> In a l1 -> exists b, In b l2 /\ P a b.
Proof.
  intros F. induction F as [|x y l1 l2 Hxy F IH]; intros H; [destruct H|].
  destruct H as [<-|H]; [exists y; split; [left; reflexivity|exact Hxy]|].
  destruct (IH H) as [b [Hb Pb]]. exists b. split; [right; exact Hb|exact Pb].
Qed.

Section DriverR.
Variable eigtop : mat4 R -> quat R.
Variables katol krtol : R.
Variable rmsd_of : R -> nat -> R.
Variables rr cc : nat -> nat -> R.
Variables patol prtol : R.

Definition trial_rel (mir : bool) (Rg Cg : list (vec3 R)) (ord : list nat) (p : R * mill R) : Prop :=
  exists Cp T, gather (if mir then mirror_geom Cg else Cg) ord = Ok Cp /\
    snd p = solution_mill (kabsch_align eigtop katol krtol Rg Cp) ord mir /\
    align_coordinates (snd p) false Cg = Ok T /\ length T = length ord /\
    fst p = rmsd_of (sumsq (lsub T Rg)) (length Rg).

Lemma trial_inv mir Rg Cg ord p : trial eigtop katol krtol rmsd_of mir Rg Cg ord = Ok p -> trial_rel mir Rg Cg ord p.
Proof.
  unfold trial. destruct (gather (if mir then mirror_geom Cg else Cg) ord) as [Cp|] eqn:EG; [|discriminate].
  cbn [obind]. set (sol := solution_mill (kabsch_align eigtop katol krtol Rg Cp) ord mir).
  destruct (align_coordinates sol false Cg) as [T|] eqn:EA; [|discriminate]. cbn [obind].
  intros E. inversion E; subst p. exists Cp, T. cbn [fst snd]. repeat split; try assumption; try reflexivity.
  destruct (coords_atomwise _ _ _ _ EA) as [LT _]. exact LT.
Qed.

(* one trial succeeds whenever the ordering indexes into cgeom *)
Lemma trial_total mir (Rg Cg : list (vec3 R)) ord :
  Forall (fun i => i < length Cg)%nat ord -> exists p, trial eigtop katol krtol rmsd_of mir Rg Cg ord = Ok p.
Proof.
  intros HB. unfold trial.
  assert (HB' : Forall (fun i => i < length (if mir then mirror_geom Cg else Cg))%nat ord).
  { destruct mir; [unfold mirror_geom; rewrite map_length|]; exact HB. }
  destruct (gather_ok _ _ HB') as [Cp ->]. cbn [obind].
  set (sol := solution_mill (kabsch_align eigtop katol krtol Rg Cp) ord mir).
  assert (HB2 : Forall (fun i => i < length (map (fwd_atom sol) Cg))%nat ord) by (rewrite map_length; exact HB).
  destruct (gather_ok _ _ HB2) as [T ET].
  assert (EA : align_coordinates sol false Cg = Ok T) by exact ET.
  rewrite EA. cbn [obind]. eexists. reflexivity.
Qed.

Lemma trials_total dm Rg Cg ord :
  Forall (fun i => i < length Cg)%nat ord -> exists ts, trials eigtop katol krtol rmsd_of dm Rg Cg ord = Ok ts.
Proof.
  intros HB. unfold trials. destruct (trial_total false Rg Cg ord HB) as [t1 ->]. cbn [obind].
  destruct dm; [|eexists; reflexivity]. destruct (trial_total true Rg Cg ord HB) as [t2 ->]. cbn [obind]. eexists; reflexivity.
Qed.

Lemma trials_inv dm Rg Cg ord ts :
  trials eigtop katol krtol rmsd_of dm Rg Cg ord = Ok ts ->
  trial_rel false Rg Cg ord (fst ts) /\ (dm = true -> trial_rel true Rg Cg ord (snd ts)).
Proof.
  unfold trials. destruct (trial eigtop katol krtol rmsd_of false Rg Cg ord) as [t1|] eqn:E1; [|discriminate]. cbn [obind].
  destruct dm.
  - destruct (trial eigtop katol krtol rmsd_of true Rg Cg ord) as [t2|] eqn:E2; [|discriminate]. cbn [obind].
    intros E. inversion E; subst ts. cbn [fst snd]. split; [apply trial_inv; exact E1|intros _; apply trial_inv; exact E2].
  - intros E. inversion E; subst ts. cbn [fst snd]. split; [apply trial_inv; exact E1|discriminate].
Qed.

(* the hypotheses about the world outside the model *)
Hypothesis close_refl : forall x : R, kleb (kabs (ksub x x)) (kadd patol (kmul prtol (kabs x))) = true.
Hypothesis rmsd_mono : forall s s' n, (0 <= s <= s')%R -> (rmsd_of s n <= rmsd_of s' n)%R.

(** every candidate ordering of the permutative search can be tried: the driver raises nothing but the
    documented ValidationError / the AttributeError of an empty search *)
Lemma all_trials_total dm runiq cuniq (Rg Cg : list (vec3 R)) L :
  length cuniq = length Cg ->
  plausible_orderings rr cc patol prtol runiq cuniq = Ok L ->
  exists TS, omap (trials eigtop katol krtol rmsd_of dm Rg Cg) L = Ok TS /\
             Forall2 (fun ord ts => trials eigtop katol krtol rmsd_of dm Rg Cg ord = Ok ts) L TS.
Proof.
  intros HLc HL. apply omap_ok. intros ord Hin. apply trials_total.
  destruct (candidates_are_label_preserving_permutations rr cc patol prtol runiq cuniq L HL ord Hin) as [Lo [_ Hj]].
  apply Forall_forall. intros i Hi. destruct (In_nth ord i O Hi) as [j [Hj1 <-]].
  rewrite Lo in Hj1. rewrite <- HLc. exact (proj1 (Hj j Hj1)).
Qed.

Theorem b787_permutative_recovers_shuffled_copy
    run_mirror superimposable rtc aconv hundred runiq cuniq (Rg Cg : list (vec3 R)) (Rot : mat3 R) (t : vec3 R) (o : list nat) L :
  proper Rot -> (0 < length Rg)%nat ->
  let n := length Rg in
  let Cfull := map (fun r => vadd (vmat r Rot) t) Rg in
  length Cg = n -> length runiq = n -> length cuniq = n ->
  length o = n -> NoDup o -> gather Cg o = Ok Cfull ->
  (forall j, (j < n)%nat -> nth (nth j o O) cuniq O = nth j runiq O) ->
  (forall a b, (a < n)%nat -> (b < n)%nat -> cc (nth a o O) (nth b o O) = rr a b) ->
  plausible_orderings rr cc patol prtol runiq cuniq = Ok L ->
  eigtop_ok eigtop (kabsch_F Rg Cfull) -> allclose katol krtol Rg Cfull = false ->
  (rmsd_of 0 n < hundred)%R ->
  exists best sol T,
    b787_permutative eigtop katol krtol rmsd_of rr cc patol prtol run_mirror superimposable rtc aconv hundred runiq cuniq Rg Cg
      = Ok (best, sol) /\
    (best = rmsd_of 0 n \/ (rtc = false /\ (best < aconv)%R)) /\
    (length (amap sol) = n /\ NoDup (amap sol) /\
     forall j, (j < n)%nat -> (nth j (amap sol) O < n)%nat /\ nth (nth j (amap sol) O) cuniq O = nth j runiq O) /\
    (run_mirror = false \/ superimposable = true -> mirror sol = false) /\
    align_coordinates sol false Cg = Ok T /\ best = rmsd_of (sumsq (lsub T Rg)) n /\
    ((forall s, (0 <= s)%R -> rmsd_of s n = rmsd_of 0 n -> s = 0%R) -> best = rmsd_of 0 n -> T = Rg).
Proof.
  intros HP HN n Cfull LC Lr Lc Lo ND HG Hlab Hdist HL HEig HAC Hz.
  set (dm := run_mirror && negb superimposable).
  (* the candidates can all be tried *)
  destruct (all_trials_total dm runiq cuniq Rg Cg L ltac:(lia) HL) as [TS [ETS F2]].
  (* the true ordering is a candidate *)
  assert (Hbound : forall j, (j < n)%nat -> (nth j o O < length cuniq)%nat).
  { intros j Hj. rewrite Lc, <- LC. apply (gather_nth Cg o Cfull j v0 HG). lia. }
  assert (Hin : In o L).
  { apply (true_ordering_is_a_candidate rr cc patol prtol close_refl runiq cuniq L o HL); try (rewrite Lr); try assumption.
    intros j Hj. split; [apply Hbound; exact Hj|apply Hlab; exact Hj]. }
  (* its plain trial reports rmsd_of 0 *)
  destruct (Forall2_in_l _ _ _ _ F2 Hin) as [ts0 [Hts0 Etr0]].
  destruct (trials_inv dm Rg Cg o ts0 Etr0) as [[Cp0 [T0 [EG0 [Es0 [EA0 [LT0 Er0]]]]]] _].
  cbn [mirror_geom] in EG0. rewrite HG in EG0. inversion EG0; subst Cp0. clear EG0.
  assert (LCf : length Rg = length Cfull) by (unfold Cfull; rewrite map_length; reflexivity).
  destruct (recovers_any_rigid_copy eigtop katol krtol Rg Rot t HP HN HEig HAC) as [Hssd0 _].
  fold Cfull in Hssd0.
  pose proof (reported_rmsd_is_applied_rmsd eigtop katol krtol Rg Cg o Cfull HEig HG LCf HAC) as HA0.
  unfold applied_ssd in HA0. rewrite <- Es0, EA0 in HA0. cbn [obind] in HA0. injection HA0 as HA0. rewrite Hssd0 in HA0.
  assert (Er0' : fst (fst ts0) = rmsd_of 0 n) by (rewrite Er0, HA0; reflexivity).
  (* the selection succeeds *)
  unfold b787_permutative. rewrite LC. fold n. rewrite Nat.eqb_refl. cbn [negb]. rewrite HL. cbn [obind]. fold dm. rewrite ETS. cbn [obind].
  destruct (b787_select run_mirror superimposable rtc aconv hundred (map cand_of TS)) as [[[best i] mir]|e] eqn:ES.
  2:{ exfalso. destruct (b787_select_error _ _ _ _ _ _ _ ES) as [_ HF]. rewrite Forall_forall in HF.
      assert (HI : In (cand_of ts0) (map cand_of TS)) by (apply in_map; exact Hts0).
      specialize (HF _ HI). cbn [cand_of c_rmsd] in HF. rewrite Er0' in HF.
      assert (HT : klt (rmsd_of 0 n) hundred = true) by (apply Rklt_lt; exact Hz). rewrite HT in HF. discriminate. }
  destruct (b787_select_attains _ _ _ _ _ _ _ _ _ ES) as [c [Ec Eb]].
  rewrite nth_error_map in Ec. destruct (nth_error TS i) as [ts|] eqn:ETi; [|discriminate]. cbn [option_map] in Ec. inversion Ec; subst c. clear Ec.
  destruct (Forall2_nth_error_r _ _ _ _ _ F2 ETi) as [ord [EOi Etr]].
  assert (HinO : In ord L) by (eapply nth_error_In; exact EOi).
  destruct (candidates_are_label_preserving_permutations rr cc patol prtol runiq cuniq L HL ord HinO) as [Lord [NDord Hjord]].
  destruct (trials_inv dm Rg Cg ord ts Etr) as [Rel1 Rel2].
  (* the mirror flag can be true only when mirror trials are on *)
  assert (Hmir : mir = true -> dm = true).
  { intros ->. destruct dm eqn:Edm; [reflexivity|]. exfalso.
    unfold dm in Edm. apply andb_false_iff in Edm. destruct Edm as [Hr|Hs].
    - rewrite Hr in ES.
      discriminate (mirror_only_on_request superimposable rtc aconv hundred (map cand_of TS) best i true ES).
    - apply negb_false_iff in Hs. rewrite Hs in ES.
      discriminate (mirror_not_tried_when_superimposable run_mirror rtc aconv hundred (map cand_of TS) best i true ES). }
  assert (Rel : trial_rel mir Rg Cg ord (if mir then snd ts else fst ts)).
  { destruct mir; [apply Rel2; apply Hmir; reflexivity|exact Rel1]. }
  destruct Rel as [Cp [T [EG [Es [EA [LT Er]]]]]].
  set (sel := if mir then snd ts else fst ts) in *.
  assert (Ebest : best = fst sel).
  { rewrite Eb. unfold sel. cbn [cand_of c_rmsd c_rmsd_m]. destruct mir; reflexivity. }
  exists best, (snd sel), T. split; [reflexivity|].
  assert (Hamap : amap (snd sel) = ord) by (rewrite Es; reflexivity).
  assert (Hmirror : mirror (snd sel) = mir) by (rewrite Es; reflexivity).
  assert (Hge : (rmsd_of 0 n <= best)%R).
  { rewrite Ebest, Er. apply rmsd_mono. split; [lra|apply sumsq_nonneg]. }
  split; [|split; [|split; [|split; [exact EA|split; [rewrite Ebest; exact Er|]]]]].
  - destruct (b787_best_is_min_or_converged Rkleb_total Rkleb_trans _ _ _ _ _ _ _ _ _ ES) as [[Hr Hc]|HF].
    + right. split; [exact Hr|apply Rklt_lt; exact Hc].
    + left. rewrite Forall_forall in HF.
      assert (HI : In (cand_of ts0) (map cand_of TS)) by (apply in_map; exact Hts0).
      destruct (HF _ HI) as [Hle _]. cbn [cand_of c_rmsd] in Hle. rewrite Er0' in Hle. apply Rkleb_le in Hle. lra.
  - rewrite Hamap. split; [rewrite Lord; exact Lr|]. split; [exact NDord|].
    intros j Hj. rewrite <- Lr in Hj. destruct (Hjord j Hj) as [A B]. split; [rewrite <- Lc; exact A|exact B].
  - intros Hoff. rewrite Hmirror. destruct mir; [|reflexivity]. exfalso.
    pose proof (Hmir eq_refl) as Hd. unfold dm in Hd. apply andb_prop in Hd. destruct Hd as [H1 H2].
    destruct Hoff as [->| ->]; discriminate.
  - intros Hinj Hb. assert (Hs : sumsq (lsub T Rg) = 0%R).
    { apply Hinj; [apply sumsq_nonneg|]. rewrite Ebest, Er in Hb. exact Hb. }
    apply lsub_zero; [rewrite LT, Lord; exact Lr|apply sumsq_zero; exact Hs].
Qed.

(** the driver raises only ValidationError (shapes / label multisets differ) or the AttributeError of a search
    that holds no solution (no candidate ordering, or none below the initial 100.0) *)
Theorem b787_permutative_errors run_mirror superimposable rtc aconv hundred runiq cuniq (Rg Cg : list (vec3 R)) e :
  length cuniq = length Cg ->
  b787_permutative eigtop katol krtol rmsd_of rr cc patol prtol run_mirror superimposable rtc aconv hundred runiq cuniq Rg Cg = Err e ->
  e = Validation \/ e = PyAttributeError.
Proof.
  intros HLc. unfold b787_permutative. destruct (negb (Nat.eqb (length Rg) (length Cg))); [intros E; inversion E; left; reflexivity|].
  destruct (plausible_orderings rr cc patol prtol runiq cuniq) as [L|e0] eqn:HL.
  2:{ cbn [obind]. intros E. inversion E; subst e0. left. unfold plausible_orderings in HL.
      destruct (negb (same_multiset runiq cuniq)); [inversion HL; reflexivity|discriminate]. }
  cbn [obind]. destruct (all_trials_total (run_mirror && negb superimposable) runiq cuniq Rg Cg L HLc HL) as [TS [-> _]]. cbn [obind].
  destruct (b787_select run_mirror superimposable rtc aconv hundred (map cand_of TS)) as [[[best i] mir]|e1] eqn:ES.
  - destruct (b787_select_attains _ _ _ _ _ _ _ _ _ ES) as [c [Ec _]]. rewrite nth_error_map in Ec.
    destruct (nth_error TS i); [discriminate|discriminate Ec].
  - intros E. inversion E; subst e1. right. exact (proj1 (b787_select_error _ _ _ _ _ _ _ ES)).
Qed.
End DriverR.

(** ---- kabsch_align on its allclose short-cut ---- *)
Definition vwithin (atol rtol : R) (r c : vec3 R) : Prop :=
  forall a, (a < 3)%nat -> (Rabs (comp r a - comp c a) <= atol + rtol * Rabs (comp c a))%R.

Theorem kabsch_align_shortcut eigtop atol rtol (Rg Cg : list (vec3 R)) :
  allclose atol rtol Rg Cg = true ->
  let o := kabsch_align eigtop atol rtol Rg Cg in
  k_ssd o = 0%R /\ k_rot o = mid /\ k_shift o = v0 /\
  align_coordinates (solution_mill o (seq 0 (length Cg)) false) false Cg = Ok Cg /\
  Forall2 (vwithin atol rtol) Rg Cg.
Proof.
  intros HA o. unfold o, kabsch_align. clear o. rewrite HA. cbn [k_ssd k_rot k_shift]. repeat split.
  - unfold align_coordinates, solution_mill. cbn [amap mirror shift rot].
    replace (map (fwd_atom _) Cg) with Cg; [apply gather_seq|].
    symmetry. transitivity (map (fun x : vec3 R => x) Cg); [|apply map_id]. apply map_ext. intros [[a b] c].
    cbv [fwd_atom mirror shift rot k_shift k_rot mirv vsub v0 vmat mid mcol ment mrow comp dot3]. runfold. tuple_ring.
  - revert Cg HA. induction Rg as [|r Rg IH]; intros [|c Cg] HA; cbn [allclose] in HA; try discriminate; [constructor|].
    apply andb_prop in HA. destruct HA as [H1 H2]. constructor; [|apply IH; exact H2].
    destruct r as [[r0 r1] r2], c as [[c0 c1] c2]. cbn [vclose1] in H1.
    apply andb_prop in H1. destruct H1 as [H1 H13]. apply andb_prop in H1. destruct H1 as [H11 H12].
    unfold close1 in H11, H12, H13. apply Rkleb_le in H11, H12, H13. cbn [kabs RDiv] in H11, H12, H13. runfold.
    intros a Ha. destruct a as [|[|[|a]]]; try lia; cbn [comp]; assumption.
Qed.

(** the rotation kabsch_align returns is proper on both paths *)
Theorem kabsch_align_rotation_always_proper eigtop atol rtol (Rg Cg : list (vec3 R)) :
  eigtop_ok eigtop (kabsch_F Rg Cg) -> length Rg = length Cg ->
  proper (k_rot (kabsch_align eigtop atol rtol Rg Cg)).
Proof.
  intros HS HL. destruct (allclose atol rtol Rg Cg) eqn:HA.
  - destruct (kabsch_align_shortcut eigtop atol rtol Rg Cg HA) as [_ [-> _]].
    split; cbv [mmul mtrans mid mk3 ment mrow comp vmat mcol dot3 det3]; runfold; [tuple_ring|ring].
  - exact (proj1 (kabsch_align_proper_and_optimal_full eigtop atol rtol Rg Cg HS HL HA)).
Qed.
