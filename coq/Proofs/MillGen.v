(** C13 — the translated bodies of AlignmentMill's methods (Gen/MillGen.v, regenerated from models/align.py on
    every run) are the hand-written model (Model/Mill.v) that the C13 theorems are about: for every carrier,
    every recipe and every input. *)
From Coq Require Import List Arith Lia Bool.
Require Import QV.Common.Outcome QV.Common.AlignAlg QV.Common.AlignAlgFacts QV.Model.Mill QV.Model.MillOps QV.Gen.MillGen QV.Proofs.Mill.
Import ListNotations.

Section GenProofs.
Context {K : Type} {KO : Ops K}.

Theorem gen_align_coordinates_is_model (m : mill K) rev x :
  gen_align_coordinates m rev x = align_coordinates m rev x.
Proof.
  unfold gen_align_coordinates, align_coordinates, np_dot_gm, np_add_gv, np_sub_gv, col1_neg. cbv zeta. f_equal.
  destruct rev; destruct (mirror m) eqn:E; rewrite ?map_map; apply map_ext; intros v;
    unfold rev_atom, fwd_atom; rewrite E; reflexivity.
Qed.

Theorem gen_align_atoms_is_model {A} (m : mill K) (a : list A) : gen_align_atoms m a = align_atoms m a.
Proof. reflexivity. Qed.

Theorem gen_align_vector_is_model (m : mill K) v : gen_align_vector m v = align_vector m v.
Proof. reflexivity. Qed.

Theorem gen_align_gradient_is_model (m : mill K) g : gen_align_gradient m g = align_gradient m g.
Proof.
  unfold gen_align_gradient, align_gradient, np_dot_gm, col1_neg. cbv zeta. f_equal.
  destruct (mirror m) eqn:E; rewrite ?map_map; apply map_ext; intros v; unfold lin_atom; rewrite E; reflexivity.
Qed.

Theorem gen_align_hessian_is_model (m : mill K) n H : gen_align_hessian m n H = align_hessian m n H.
Proof.
  unfold gen_align_hessian, align_hessian, fill_blocks, rot_blocks, rot_block. cbv zeta.
  destruct (mirror m); reflexivity.
Qed.

Theorem gen_datom_is_model (m : mill K) mu p : gen_datom m mu p = datom m mu p.
Proof. destruct mu as [[mx my] mz]. reflexivity. Qed.
End GenProofs.
