(** C13 — the translated bodies of AlignmentMill's methods (Gen/MillGen.v, regenerated from models/align.py on
    every run) are the hand-written model (Model/Mill.v) that the C13 theorems are about: for every carrier,
    every recipe and every input. *)
From Coq Require Import List Arith Lia Bool.
Require Import QV.Common.Outcome QV.Common.AlignAlg QV.Common.AlignAlgFacts QV.Model.Mill QV.Model.MillOps QV.Model.MillLoop QV.Gen.MillGen QV.Proofs.Mill.
Import ListNotations.

Section GenProofs.
Context {K : Type} {KO : Ops K}.

Theorem gen_align_coordinates_is_model (m : mill K) rev x :
  gen_align_coordinates m rev x = align_coordinates m rev x.
Proof.
  unfold gen_align_coordinates, align_coordinates, np_dot_gm, np_add_gv, np_sub_gv, col1_neg. cbv zeta. f_equal.
  destruct rev; destruct (mirror m) eqn:E; rewrite ?map_map; apply map_ext; intros v;
    unfold rev_atom, fwd_atom; rewrite E; reflexivity.
Qed.

Theorem gen_align_atoms_is_model {A} (m : mill K) (a : list A) : gen_align_atoms m a = align_atoms m a.
Proof. reflexivity. Qed.

Theorem gen_align_vector_is_model (m : mill K) v : gen_align_vector m v = align_vector m v.
Proof. reflexivity. Qed.

Theorem gen_align_gradient_is_model (m : mill K) g : gen_align_gradient m g = align_gradient m g.
Proof.
  unfold gen_align_gradient, align_gradient, np_dot_gm, col1_neg. cbv zeta. f_equal.
  destruct (mirror m) eqn:E; rewrite ?map_map; apply map_ext; intros v; unfold lin_atom; rewrite E; reflexivity.
Qed.

Theorem gen_align_hessian_is_model (m : mill K) n H : gen_align_hessian m n H = align_hessian m n H.
Proof.
  unfold gen_align_hessian, align_hessian, fill_blocks, rot_blocks, rot_block. cbv zeta.
  destruct (mirror m); reflexivity.
Qed.

Theorem gen_datom_is_model (m : mill K) mu p : gen_datom m mu p = datom m mu p.
Proof. destruct mu as [[mx my] mz]. reflexivity. Qed.

(** ---- the atom loop of align_vector_gradient: the translated method (loop over range(nat) threading the zero-initialised
    (3, 3*nat) result through index read / slice reads / rotation / slice stores, stopping at the first exception) is
    the model (error scan first, then the rows as flat_maps), for every input whose three rows have one length 3*nat ---- *)
Definition vg_cells (a : nat) (D : mat3 K) : list K := [ment D a 0%nat; ment D a 1%nat; ment D a 2%nat].
Definition vg_row (m : mill K) (mu : list K * list K * list K) (a k : nat) : list K :=
  flat_map (vg_cells a) (map (fun at' => datom m mu (nth at' (amap m) O)) (seq 0 k)).

Lemma vg_cells_length a (l : list (mat3 K)) : length (flat_map (vg_cells a) l) = (3 * length l)%nat.
Proof. induction l as [|D l IH]; simpl in *; [reflexivity | rewrite IH; lia]. Qed.

Lemma vg_row_length m mu a k : length (vg_row m mu a k) = (3 * k)%nat.
Proof. unfold vg_row. rewrite vg_cells_length, map_length, seq_length. reflexivity. Qed.

Lemma vg_row_S m mu a k :
  vg_row m mu a (S k) = vg_row m mu a k ++ vg_cells a (datom m mu (nth k (amap m) O)).
Proof.
  unfold vg_row. rewrite seq_S, map_app, flat_map_app. simpl. reflexivity.
Qed.

Lemma store3_next (pre : list K) (k j : nat) (v : vec3 K) :
  length pre = (3 * k)%nat ->
  store3 (pre ++ zeros (3 * S j)) k v = (pre ++ [comp v 0; comp v 1; comp v 2]) ++ zeros (3 * j).
Proof.
  intros L. destruct v as [[a b] c]. unfold store3. simpl comp.
  rewrite firstn_app, L, Nat.sub_diag, firstn_O, app_nil_r.
  rewrite <- L, firstn_all.
  rewrite skipn_app. rewrite L.
  replace (3 * k + 3 - 3 * k)%nat with 3%nat by lia.
  rewrite (skipn_all2 pre) by lia.
  replace (3 * S j)%nat with (3 + 3 * j)%nat by lia. unfold zeros. simpl.
  rewrite <- app_assoc. reflexivity.
Qed.

Lemma mrow_cells (D : mat3 K) a : (a < 3)%nat ->
  [comp (mrow D a) 0; comp (mrow D a) 1; comp (mrow D a) 2] = vg_cells a D.
Proof. intros _. reflexivity. Qed.

Definition vg_body (m : mill K) (mx my mz : list K) : nat -> rows3 -> outcome rows3 :=
  fun at' al_mu =>
    obind (amap_at m at') (fun p =>
    obind (slice3o mx p) (fun d0 =>
    obind (slice3o my p) (fun d1 =>
    obind (slice3o mz p) (fun d2 =>
    let D := (d0, d1, d2) in
    let D := (mmul (mtrans (rot m)) (mmul D (rot m))) in
    let '(a0, a1, a2) := al_mu in
    Ok (store3 a0 at' (mrow D 0), store3 a1 at' (mrow D 1), store3 a2 at' (mrow D 2)))))).

Definition vg_state (m : mill K) (mu : list K * list K * list K) (k j : nat) : rows3 :=
  (vg_row m mu 0 k ++ zeros (3 * j), vg_row m mu 1 k ++ zeros (3 * j), vg_row m mu 2 k ++ zeros (3 * j)).

Lemma vg_body_step (m : mill K) (mx my mz : list K) (n k j : nat) :
  length mx = (3 * n)%nat -> length my = (3 * n)%nat -> length mz = (3 * n)%nat ->
  vg_body m mx my mz k (vg_state m (mx, my, mz) k (S j)) =
  match nth_error (amap m) k with
  | None => Err PyIndexError
  | Some i => if Nat.ltb i n then Ok (vg_state m (mx, my, mz) (S k) j) else Err PyValueError
  end.
Proof.
  intros Lx Ly Lz. unfold vg_body, amap_at.
  destruct (nth_error (amap m) k) as [i|] eqn:E; [|reflexivity].
  cbn [obind]. unfold slice3o. rewrite Lx, Ly, Lz.
  destruct (Nat.ltb i n) eqn:Hi.
  - apply Nat.ltb_lt in Hi.
    assert (Hle : Nat.leb (3 * i + 3) (3 * n) = true) by (apply Nat.leb_le; lia).
    rewrite Hle. cbn [obind]. cbv zeta. unfold vg_state.
    assert (Hn : nth k (amap m) O = i) by (apply nth_error_nth; exact E).
    assert (HD : mmul (mtrans (rot m)) (mmul (slice3 mx i, slice3 my i, slice3 mz i) (rot m)) = datom m (mx, my, mz) (nth k (amap m) O))
      by (rewrite Hn; reflexivity).
    rewrite HD.
    rewrite !store3_next by apply vg_row_length.
    rewrite !mrow_cells by lia.
    rewrite <- !vg_row_S. reflexivity.
  - apply Nat.ltb_ge in Hi.
    assert (Hle : Nat.leb (3 * i + 3) (3 * n) = false) by (apply Nat.leb_gt; lia).
    rewrite Hle. reflexivity.
Qed.

Lemma vg_loop_spec (m : mill K) (mx my mz : list K) (n : nat) :
  length mx = (3 * n)%nat -> length my = (3 * n)%nat -> length mz = (3 * n)%nat ->
  forall j k, (k + j = n)%nat ->
  for_range_from k j (vg_body m mx my mz) (vg_state m (mx, my, mz) k j)
  = match vg_scan n (seq k j) (amap m) with
    | Some e => Err e
    | None => Ok (vg_row m (mx, my, mz) 0 n, vg_row m (mx, my, mz) 1 n, vg_row m (mx, my, mz) 2 n)
    end.
Proof.
  intros Lx Ly Lz. induction j as [|j IH]; intros k Hk.
  - unfold vg_state. simpl. rewrite !app_nil_r. replace k with n by lia. reflexivity.
  - cbn [seq vg_scan for_range_from]. rewrite (vg_body_step m mx my mz n k j Lx Ly Lz).
    destruct (nth_error (amap m) k) as [i|]; [|reflexivity].
    destruct (Nat.ltb i n); [|reflexivity].
    cbn [obind]. apply IH. lia.
Qed.

Theorem gen_align_vector_gradient_is_model (m : mill K) (mu : list K * list K * list K) :
  let '(mx, my, mz) := mu in
  length my = length mx -> length mz = length mx -> length mx = (3 * (length mx / 3))%nat ->
  gen_align_vector_gradient m mu = align_vector_gradient m mu.
Proof.
  destruct mu as [[mx my] mz]. intros Ly Lz Lx.
  unfold gen_align_vector_gradient, align_vector_gradient, for_range. cbv zeta.
  set (n := (length mx / 3)%nat) in *.
  assert (Hc : (Nat.eqb (length mx) (3 * n) && Nat.eqb (length my) (3 * n) && Nat.eqb (length mz) (3 * n)) = true).
  { rewrite Ly, Lz, <- Lx, Nat.eqb_refl. reflexivity. }
  rewrite Hc. cbn [negb].
  pose proof (vg_loop_spec m mx my mz n Lx (eq_trans Ly Lx) (eq_trans Lz Lx) n 0%nat eq_refl) as H.
  unfold vg_state, vg_body in H. change (vg_row m (mx, my, mz) 0 0) with (@nil K) in H.
  change (vg_row m (mx, my, mz) 1 0) with (@nil K) in H. change (vg_row m (mx, my, mz) 2 0) with (@nil K) in H.
  cbn [app] in H. rewrite H. destruct (vg_scan n (seq 0 n) (amap m)); reflexivity.
Qed.
End GenProofs.
