(** C07 — round trip, lexical half: what the recognisers of Model/Text.v make of the lines that
    Model/Writers.v renders (decimal integers, "{:.Nf}" numbers, padded atom lines, keyword lines). *)
From Coq Require Import ZArith NArith List String Ascii Bool Lia DecimalString DecimalN DecimalPos DecimalFacts.
Require Import QV.Common.Outcome QV.Common.WText QV.Common.WBin64 QV.Model.WriterTypes QV.Gen.WriterTables QV.Model.Writers QV.Model.Text QV.Proofs.TextRT.
Import ListNotations.
Open Scope nat_scope.

Notation slen := String.length.
Local Notation "a +++ b" := (String.append a b) (at level 60, right associativity).

(* ------------------------------------------------------------------------------------------ *)
(** * strings *)
Lemma app_assoc_s a : forall b c, (a +++ b) +++ c = a +++ (b +++ c).
Proof. induction a as [|x a IH]; intros; simpl; [reflexivity|]. now rewrite IH. Qed.
Lemma app_nil_r_s a : a +++ EmptyString = a.
Proof. induction a as [|x a IH]; simpl; [reflexivity|]. now rewrite IH. Qed.
Lemma app_len a b : slen (a +++ b) = slen a + slen b.
Proof. induction a as [|x a IH]; simpl; [reflexivity|]. now rewrite IH. Qed.
Lemma s_all_app p a b : s_all p (a +++ b) = s_all p a && s_all p b.
Proof. induction a as [|x a IH]; simpl; [reflexivity|]. rewrite IH. now rewrite andb_assoc. Qed.
Lemma s_any_app p a b : s_any p (a +++ b) = s_any p a || s_any p b.
Proof. induction a as [|x a IH]; simpl; [reflexivity|]. rewrite IH. now rewrite orb_assoc. Qed.
Lemma s_all_repeat p c n : p c = true -> s_all p (s_repeat c n) = true.
Proof. intro H. induction n; simpl; [reflexivity|]. now rewrite H. Qed.
Lemma repeat_len c n : slen (s_repeat c n) = n.
Proof. induction n; simpl; congruence. Qed.
Lemma take_drop k s : s_take k s +++ s_drop k s = s.
Proof. revert s; induction k as [|k IH]; intro s; simpl; [reflexivity|]. destruct s; simpl; [reflexivity|]. now rewrite IH. Qed.
Lemma take_len k s : k <= slen s -> slen (s_take k s) = k.
Proof. revert s; induction k as [|k IH]; intros s H; simpl; [reflexivity|]. destruct s; simpl in *; [lia|]. rewrite IH; lia. Qed.
Lemma s_all_take p k s : s_all p s = true -> s_all p (s_take k s) = true.
Proof. revert s; induction k as [|k IH]; intros s H; simpl; [reflexivity|]. destruct s; simpl in *; [reflexivity|]. apply andb_true_iff in H as [H1 H2]. now rewrite H1, IH. Qed.
Lemma s_all_drop p k s : s_all p s = true -> s_all p (s_drop k s) = true.
Proof. revert s; induction k as [|k IH]; intros s H; simpl; [assumption|]. destruct s; simpl in *; [reflexivity|]. apply andb_true_iff in H as [H1 H2]. now apply IH. Qed.

Lemma take_while_all p a r : s_all p a = true -> first_is p r = false -> take_while p (a +++ r) = a.
Proof.
  intros Ha Hr. induction a as [|x a IH]; simpl in *.
  - destruct r as [|c r]; simpl in *; [reflexivity|]. now rewrite Hr.
  - apply andb_true_iff in Ha as [H1 H2]. rewrite H1. now rewrite IH.
Qed.
Lemma drop_while_all p a r : s_all p a = true -> first_is p r = false -> drop_while p (a +++ r) = r.
Proof.
  intros Ha Hr. induction a as [|x a IH]; simpl in *.
  - destruct r as [|c r]; simpl in *; [reflexivity|]. now rewrite Hr.
  - apply andb_true_iff in Ha as [H1 H2]. rewrite H1. now apply IH.
Qed.
Lemma take_while_whole p a : s_all p a = true -> take_while p a = a.
Proof. intro H. rewrite <- (app_nil_r_s a) at 1. now apply take_while_all. Qed.
Lemma drop_while_whole p a : s_all p a = true -> drop_while p a = EmptyString.
Proof. intro H. rewrite <- (app_nil_r_s a) at 1. now apply drop_while_all. Qed.

(* ------------------------------------------------------------------------------------------ *)
(** * decimal digits *)
Lemma digits_string_of_uint u : s_all c_is_digit (NilEmpty.string_of_uint u) = true.
Proof. induction u; simpl; try reflexivity; assumption. Qed.
Lemma to_uint_nonnil n : N.to_uint n <> Decimal.Nil.
Proof. destruct n; simpl; [discriminate | apply Unsigned.to_uint_nonnil]. Qed.
Lemma dec_nonneg_eq z : dec_of_nonneg z = NilEmpty.string_of_uint (N.to_uint (Z.to_N z)).
Proof. unfold dec_of_nonneg, NilZero.string_of_uint. pose proof (to_uint_nonnil (Z.to_N z)). destruct (N.to_uint (Z.to_N z)); congruence. Qed.
Lemma dec_nonneg_digits z : s_all c_is_digit (dec_of_nonneg z) = true.
Proof. rewrite dec_nonneg_eq. apply digits_string_of_uint. Qed.
Lemma dec_nonneg_nonempty z : is_empty (dec_of_nonneg z) = false.
Proof. rewrite dec_nonneg_eq. pose proof (to_uint_nonnil (Z.to_N z)). destruct (N.to_uint (Z.to_N z)); simpl; congruence. Qed.

Lemma uint_of_string_zeros n s : NilEmpty.uint_of_string (s_repeat zero_ch n +++ s)
  = match NilEmpty.uint_of_string s with Some u => Some (Nat.iter n Decimal.D0 u) | None => None end.
Proof.
  induction n as [|n IH]; simpl.
  - destruct (NilEmpty.uint_of_string s); reflexivity.
  - rewrite IH. destruct (NilEmpty.uint_of_string s); reflexivity.
Qed.
Lemma of_uint_zeros n u : N.of_uint (Nat.iter n Decimal.D0 u) = N.of_uint u.
Proof. induction n; simpl; [reflexivity | assumption]. Qed.

Lemma digits_or_zero_padded n z : (0 <= z)%Z -> digits_or_zero (s_repeat zero_ch n +++ dec_of_nonneg z) = z.
Proof.
  intro Hz. unfold digits_or_zero, digits_val.
  assert (E : NilEmpty.uint_of_string (s_repeat zero_ch n +++ dec_of_nonneg z) = Some (Nat.iter n Decimal.D0 (N.to_uint (Z.to_N z)))).
  { rewrite uint_of_string_zeros, dec_nonneg_eq, NilEmpty.usu. reflexivity. }
  rewrite E.
  destruct (s_repeat zero_ch n +++ dec_of_nonneg z) eqn:S.
  - exfalso. pose proof (dec_nonneg_nonempty z) as Hne. destruct n; simpl in S; [rewrite S in Hne; discriminate | discriminate].
  - rewrite of_uint_zeros, DecimalN.Unsigned.of_to. now apply Z2N.id.
Qed.
Lemma digits_or_zero_dec z : (0 <= z)%Z -> digits_or_zero (dec_of_nonneg z) = z.
Proof. intro H. apply (digits_or_zero_padded 0 z H). Qed.

Lemma first_digit_of s : s_all c_is_digit s = true -> is_empty s = false ->
  exists c r, s = String c r /\ c_is_digit c = true.
Proof. destruct s as [|c r]; simpl; intros H1 H2; [discriminate|]. apply andb_true_iff in H1 as [H _]. eauto. Qed.

Lemma digit_not_sign c : c_is_digit c = true -> c_eqb c c_minus = false /\ c_eqb c c_plus = false /\ c_eqb c c_dot = false /\ is_sepc c = false /\ is_expc c = false.
Proof. destruct c as [[] [] [] [] [] [] [] []]; vm_compute; intro H; try discriminate; auto. Qed.

(* ------------------------------------------------------------------------------------------ *)
(** * NUMBER reads what the writer prints *)
Definition dz (c : Z) : dnum := {| dneg := (c <? 0)%Z; dcoef := Z.abs c; dexp := 0 |}.

Lemma parse_number_digits s : s_all c_is_digit s = true -> is_empty s = false ->
  parse_number s = Some {| dneg := false; dcoef := digits_or_zero s; dexp := 0 |}.
Proof.
  intros Hd Hn. unfold parse_number.
  destruct (first_digit_of s Hd Hn) as [c [r [-> Hc]]].
  destruct (digit_not_sign c Hc) as [M [P _]].
  unfold split_sign. rewrite M, P.
  rewrite (take_while_whole c_is_digit _ Hd), (drop_while_whole c_is_digit _ Hd). simpl.
  rewrite app_nil_r_s. reflexivity.
Qed.

Lemma parse_number_int c : parse_number (dec_of_Z c) = Some (dz c).
Proof.
  unfold dec_of_Z, dz. destruct (c <? 0)%Z eqn:E.
  - apply Z.ltb_lt in E. unfold parse_number, split_sign. simpl.
    change (c_eqb (ch 45) c_minus) with true. cbv iota.
    pose proof (dec_nonneg_digits (- c)) as Hd. pose proof (dec_nonneg_nonempty (- c)) as Hn.
    rewrite (take_while_whole c_is_digit _ Hd), (drop_while_whole c_is_digit _ Hd).
    rewrite Hn. simpl. rewrite app_nil_r_s, digits_or_zero_dec by lia.
    replace (Z.abs c) with (- c)%Z by lia. reflexivity.
  - apply Z.ltb_ge in E. rewrite parse_number_digits by (apply dec_nonneg_digits || apply dec_nonneg_nonempty).
    rewrite digits_or_zero_dec by lia. replace (Z.abs c) with c by lia. reflexivity.
Qed.

Definition dn (p : nat) (v : b64) : dnum :=
  {| dneg := bneg v; dcoef := scaled_round (Z.of_nat p) v; dexp := (- Z.of_nat p)%Z |}.

Lemma drop_len k s : slen (s_drop k s) = slen s - k.
Proof. revert s; induction k as [|k IH]; intro s; simpl; [lia|]. destruct s; simpl; [reflexivity|]. apply IH. Qed.

Lemma parse_number_dotted A B :
  s_all c_is_digit A = true -> is_empty A = false -> s_all c_is_digit B = true ->
  parse_number (A +++ String c_dot B)
  = Some {| dneg := false; dcoef := digits_or_zero (A +++ B); dexp := (- Z.of_nat (slen B))%Z |}.
Proof.
  intros HA HnA HB. unfold parse_number.
  destruct (first_digit_of A HA HnA) as [c [r [EA Hc]]]. destruct (digit_not_sign c Hc) as [M [P _]].
  assert (Esign : split_sign (A +++ String c_dot B) = (false, A +++ String c_dot B)).
  { rewrite EA. simpl. now rewrite M, P. }
  rewrite Esign.
  assert (Fd : first_is c_is_digit (String c_dot B) = false) by reflexivity.
  rewrite (take_while_all c_is_digit A _ HA Fd), (drop_while_all c_is_digit A _ HA Fd).
  change (c_eqb c_dot c_dot) with true. cbv iota.
  rewrite (take_while_whole c_is_digit B HB), (drop_while_whole c_is_digit B HB).
  rewrite HnA. simpl. reflexivity.
Qed.

Lemma parse_number_signed (neg : bool) s c r :
  s = String c r -> c_is_digit c = true ->
  parse_number (if neg then String c_minus s else s)
  = match parse_number s with Some d => Some {| dneg := neg; dcoef := dcoef d; dexp := dexp d |} | None => None end.
Proof.
  intros -> Hc. destruct (digit_not_sign c Hc) as [M [P _]].
  unfold parse_number.
  assert (E1 : split_sign (String c r) = (false, String c r)) by (simpl; now rewrite M, P).
  assert (E2 : split_sign (if neg then String c_minus (String c r) else String c r) = (neg, String c r)).
  { destruct neg; [reflexivity | exact E1]. }
  rewrite E1, E2.
  set (s1 := String c r).
  destruct (drop_while c_is_digit s1) as [|c2 r2]; cbv zeta.
  - destruct (is_empty (take_while c_is_digit s1) && is_empty EmptyString); reflexivity.
  - destruct (c_eqb c2 c_dot).
    + destruct (is_empty (take_while c_is_digit s1) && is_empty (take_while c_is_digit r2)); [reflexivity|].
      destruct (drop_while c_is_digit r2) as [|c3 r3]; [reflexivity|].
      destruct (is_expc c3); [|reflexivity]. destruct (split_sign r3) as [en ds].
      destruct (negb (is_empty ds) && s_all c_is_digit ds); reflexivity.
    + destruct (is_empty (take_while c_is_digit s1) && is_empty EmptyString); [reflexivity|].
      destruct (is_expc c2); [|reflexivity]. destruct (split_sign r2) as [en ds].
      destruct (negb (is_empty ds) && s_all c_is_digit ds); reflexivity.
Qed.

Lemma scaled_round_nonneg p v : (0 <= bm v)%Z -> (0 <= p)%Z -> (0 <= scaled_round p v)%Z.
Proof.
  intros Hm Hp. unfold scaled_round, rhe_div.
  assert (H10 : (0 <= 10 ^ p)%Z) by (apply Z.pow_nonneg; lia).
  destruct (0 <=? be v)%Z.
  - apply Z.mul_nonneg_nonneg; [apply Z.mul_nonneg_nonneg; assumption | apply Z.pow_nonneg; lia].
  - assert (Hd : (0 < 2 ^ (- be v))%Z \/ (2 ^ (- be v) = 0)%Z) by (pose proof (Z.pow_nonneg 2 (- be v) ltac:(lia)); lia).
    set (n := (bm v * 10 ^ p)%Z). set (d := (2 ^ (- be v))%Z) in *.
    assert (Hn : (0 <= n)%Z) by (apply Z.mul_nonneg_nonneg; assumption).
    assert (Hq : (0 <= n / d)%Z).
    { destruct Hd as [Hd|Hd]; [apply Z.div_pos; lia | rewrite Hd, Zdiv_0_r; lia]. }
    destruct (2 * (n mod d) <? d)%Z; [assumption|]. destruct (d <? 2 * (n mod d))%Z; [lia|]. destruct (Z.even (n / d)); lia.
Qed.

(** the characters "{:.pf}" prints are read back by NUMBER as sign, the printed integer, exponent -p *)
Lemma parse_number_fmt p v : (0 <= bm v)%Z -> parse_number (fmt_f p v) = Some (dn p v).
Proof.
  intro Hm. unfold fmt_f, dn.
  set (S := scaled_round (Z.of_nat p) v).
  assert (HS : (0 <= S)%Z) by (apply scaled_round_nonneg; lia).
  set (ds := dec_of_nonneg S).
  set (ds' := s_repeat zero_ch (Datatypes.S p - slen ds) +++ ds).
  assert (Hd' : s_all c_is_digit ds' = true).
  { unfold ds'. rewrite s_all_app, (s_all_repeat c_is_digit zero_ch _ eq_refl). apply dec_nonneg_digits. }
  assert (Hlen : Datatypes.S p <= slen ds') by (unfold ds'; rewrite app_len, repeat_len; lia).
  assert (Hval : digits_or_zero ds' = S) by (apply digits_or_zero_padded; assumption).
  assert (Hne : is_empty ds' = false) by (destruct ds'; simpl in *; [lia | reflexivity]).
  assert (Body : parse_number (place_point p ds)
                 = Some {| dneg := false; dcoef := S; dexp := (- Z.of_nat p)%Z |}).
  { unfold place_point. fold ds'. destruct p as [|p'].
    - rewrite (parse_number_digits ds' Hd' Hne), Hval. reflexivity.
    - set (k := slen ds' - Datatypes.S p').
      assert (Hk : 1 <= k /\ k <= slen ds') by (unfold k; lia).
      change (String (ch 46) (s_drop k ds')) with (String c_dot (s_drop k ds')).
      rewrite parse_number_dotted.
      + rewrite take_drop, Hval, drop_len. f_equal. f_equal. unfold k. lia.
      + apply s_all_take; assumption.
      + pose proof (take_len k ds' ltac:(lia)) as L. destruct (s_take k ds'); simpl in *; [lia | reflexivity].
      + apply s_all_drop; assumption. }
  (* first character of the body is a digit *)
  assert (Hfirst : exists c r, place_point p ds = String c r /\ c_is_digit c = true).
  { unfold place_point. fold ds'. destruct p as [|p'].
    - apply first_digit_of; assumption.
    - set (k := slen ds' - Datatypes.S p'). pose proof (take_len k ds' ltac:(unfold k; lia)) as L.
      assert (Ht : s_all c_is_digit (s_take k ds') = true) by (apply s_all_take; assumption).
      destruct (s_take k ds') as [|c r] eqn:E; [simpl in L; unfold k in L; lia|].
      simpl in Ht. apply andb_true_iff in Ht as [Hc _]. exists c, (r +++ String (ch 46) (s_drop k ds')). split; [reflexivity | assumption]. }
  destruct Hfirst as [c [r [E Hc]]].
  change (ch 45) with c_minus.
  rewrite (parse_number_signed (bneg v) (place_point p ds) c r E Hc), Body. reflexivity.
Qed.

(* ------------------------------------------------------------------------------------------ *)
(** * tokens of a line *)
Lemma split_any_tok p t : forall c r, s_any p t = false -> p c = true ->
  split_any p (t +++ String c r) = t :: split_any p r.
Proof.
  induction t as [|x t IH]; intros c r Ht Hc; simpl in *.
  - now rewrite Hc.
  - apply orb_false_iff in Ht as [Hx Ht]. rewrite Hx. rewrite (IH c r Ht Hc). reflexivity.
Qed.
Lemma split_any_whole p t : s_any p t = false -> split_any p t = [t].
Proof.
  induction t as [|x t IH]; intro Ht; simpl in *; [reflexivity|].
  apply orb_false_iff in Ht as [Hx Ht]. rewrite Hx, (IH Ht). reflexivity.
Qed.
Lemma toks_tok t c r : s_any is_sepc t = false -> is_empty t = false -> is_sepc c = true ->
  toks (t +++ String c r) = t :: toks r.
Proof. intros Ht Hn Hc. unfold toks. rewrite (split_any_tok is_sepc t c r Ht Hc). simpl. now rewrite Hn. Qed.
Lemma toks_sep c r : is_sepc c = true -> toks (String c r) = toks r.
Proof. intro Hc. unfold toks. simpl. now rewrite Hc. Qed.
Lemma toks_spaces n r : toks (s_repeat sp n +++ r) = toks r.
Proof. induction n as [|n IH]; simpl; [reflexivity|]. rewrite toks_sep by reflexivity. exact IH. Qed.
Lemma toks_last t : s_any is_sepc t = false -> is_empty t = false -> toks t = [t].
Proof. intros Ht Hn. unfold toks. rewrite (split_any_whole is_sepc t Ht). simpl. now rewrite Hn. Qed.
(** token, padding, the two-blank separator, rest *)
Lemma toks_field t a rest : s_any is_sepc t = false -> is_empty t = false ->
  toks (t +++ s_repeat sp a +++ two_sp +++ rest) = t :: toks rest.
Proof.
  intros Ht Hn. destruct a as [|a]; simpl.
  - rewrite toks_tok by (assumption || reflexivity). now rewrite toks_sep by reflexivity.
  - rewrite toks_tok by (assumption || reflexivity). rewrite toks_spaces.
    unfold two_sp. simpl. now rewrite !toks_sep by reflexivity.
Qed.

Lemma last_is_app p a b : is_empty b = false -> last_is p (a +++ b) = last_is p b.
Proof.
  intro Hb. induction a as [|x a IH]; simpl; [reflexivity|].
  destruct (a +++ b) eqn:E; [|exact IH].
  destruct a; simpl in E; [subst b; discriminate | discriminate].
Qed.
Lemma last_is_none p s : s_any p s = false -> last_is p s = false.
Proof.
  induction s as [|x s IH]; intro H; simpl in *; [reflexivity|].
  apply orb_false_iff in H as [Hx Hs]. destruct s; [assumption | now apply IH].
Qed.

(* ------------------------------------------------------------------------------------------ *)
(** * characters of printed numbers *)
Definition numch (c : ascii) : bool := c_is_digit c || c_eqb c c_dot || c_eqb c c_minus.
Lemma numch_facts c : numch c = true ->
  is_sepc c = false /\ c_eqb sp c = false /\ c_lower c = c /\ c_is_alpha c = false.
Proof. destruct c as [[] [] [] [] [] [] [] []]; vm_compute; intro H; try discriminate; auto. Qed.

Lemma s_all_none (q p : ascii -> bool) s : (forall c, q c = true -> p c = false) -> s_all q s = true -> s_any p s = false.
Proof.
  intro Hqp. induction s as [|x s IH]; intro H; simpl in *; [reflexivity|].
  apply andb_true_iff in H as [Hx Hs]. now rewrite (Hqp x Hx), IH.
Qed.
Lemma digit_numch c : c_is_digit c = true -> numch c = true.
Proof. intro H. unfold numch. now rewrite H. Qed.
Lemma s_all_weaken (q q' : ascii -> bool) s : (forall c, q c = true -> q' c = true) -> s_all q s = true -> s_all q' s = true.
Proof.
  intro Hq. induction s as [|x s IH]; intro H; simpl in *; [reflexivity|].
  apply andb_true_iff in H as [Hx Hs]. now rewrite (Hq x Hx), IH.
Qed.

Lemma dec_of_Z_numch c : s_all numch (dec_of_Z c) = true.
Proof.
  unfold dec_of_Z. destruct (c <? 0)%Z; simpl.
  - apply (s_all_weaken c_is_digit numch _ digit_numch), dec_nonneg_digits.
  - apply (s_all_weaken c_is_digit numch _ digit_numch), dec_nonneg_digits.
Qed.
Lemma dec_of_Z_nonempty c : is_empty (dec_of_Z c) = false.
Proof. unfold dec_of_Z. destruct (c <? 0)%Z; [reflexivity | apply dec_nonneg_nonempty]. Qed.

Lemma fmt_f_numch p v : s_all numch (fmt_f p v) = true.
Proof.
  unfold fmt_f, place_point.
  set (ds' := s_repeat zero_ch _ +++ dec_of_nonneg _).
  assert (Hd : s_all c_is_digit ds' = true).
  { unfold ds'. rewrite s_all_app, (s_all_repeat c_is_digit zero_ch _ eq_refl). apply dec_nonneg_digits. }
  assert (Hn : s_all numch ds' = true) by (apply (s_all_weaken c_is_digit numch _ digit_numch); assumption).
  assert (Body : s_all numch (match p with 0 => ds' | S _ => s_take (slen ds' - p) ds' +++ String (ch 46) (s_drop (slen ds' - p) ds') end) = true).
  { destruct p; [assumption|]. rewrite s_all_app. simpl. rewrite (s_all_take numch _ _ Hn), (s_all_drop numch _ _ Hn). reflexivity. }
  destruct (bneg v); simpl; [|exact Body]. exact Body.
Qed.
Lemma fmt_f_nonempty p v : (0 <= bm v)%Z -> is_empty (fmt_f p v) = false.
Proof. intro H. pose proof (parse_number_fmt p v H) as P. destruct (fmt_f p v); [discriminate | reflexivity]. Qed.

Lemma numeric_no_sep s : s_all numch s = true -> s_any is_sepc s = false.
Proof. apply s_all_none. intros c H. now destruct (numch_facts c H). Qed.
Lemma numeric_no_space s : s_all numch s = true -> s_any (c_eqb sp) s = false.
Proof. apply s_all_none. intros c H. now destruct (numch_facts c H) as [_ [? _]]. Qed.

(* ------------------------------------------------------------------------------------------ *)
(** * keyword recognisers on lines that contain a blank / start with a token *)
Lemma lower_keeps_space c : c_eqb sp (c_lower c) = c_eqb sp c.
Proof. destruct c as [[] [] [] [] [] [] [] []]; reflexivity. Qed.
Lemma s_any_space_lower s : s_any (c_eqb sp) (s_lower s) = s_any (c_eqb sp) s.
Proof. induction s as [|x s IH]; [reflexivity|]. cbn [s_lower s_any]. now rewrite lower_keeps_space, IH. Qed.

Lemma eqb_needs_space l k : s_any (c_eqb sp) l = true -> s_any (c_eqb sp) k = false -> s_eqb l k = false.
Proof.
  intros Hl Hk. destruct (s_eqb l k) eqn:E; [|reflexivity].
  apply String.eqb_eq in E. subst. congruence.
Qed.
Lemma lower_eqb_needs_space l k : s_any (c_eqb sp) l = true -> s_any (c_eqb sp) k = false -> s_eqb (s_lower l) k = false.
Proof. intros Hl Hk. apply eqb_needs_space; [now rewrite s_any_space_lower | assumption]. Qed.

(** a keyword without blanks cannot be a prefix of  token ++ " " ++ ...  unless it is a prefix of the token *)
Lemma prefix_token k : forall t r, s_any (c_eqb sp) k = false -> s_prefix k (s_lower t) = false ->
  s_prefix k (s_lower (t +++ String sp r)) = false.
Proof.
  induction k as [|a k IH]; intros t r Hk Hp.
  - destruct t; discriminate.
  - cbn [s_any] in Hk. apply orb_false_iff in Hk as [Ha Hk].
    destruct t as [|b t].
    + cbn [String.append s_lower s_prefix]. change (c_lower sp) with sp.
      assert (E : c_eqb a sp = false).
      { unfold c_eqb in *. rewrite Ascii.eqb_sym. exact Ha. }
      now rewrite E.
    + cbn [String.append s_lower s_prefix] in *. destruct (c_eqb a (c_lower b)); [|reflexivity].
      cbn [andb] in *. now apply IH.
Qed.

Lemma s_lower_app a b : s_lower (a +++ b) = s_lower a +++ s_lower b.
Proof. induction a as [|x a IH]; simpl; [reflexivity|]. now rewrite IH. Qed.

(** the keyword recognisers reject a line  token ++ " " ++ rest  whose token does not start like a keyword *)
Record token_ok (t : string) : Prop := {
  tk_nonempty : is_empty t = false;
  tk_nosep : s_any is_sepc t = false;
  tk_unit : s_prefix "unit" (s_lower t) = false;
  tk_symm : s_prefix "symmetry" (s_lower t) = false;
  tk_pub : s_prefix "pubchem" (s_lower t) = false;
  tk_efp : s_prefix "efp" (s_lower t) = false
}.

Lemma spaced_line_facts t r :
  token_ok t ->
  let l := t +++ String sp r in
  is_empty l = false /\ is_pubchem l = false /\ is_efp_start l = false /\ not_universal l /\ is_dash l = false.
Proof.
  intros [Hn Hs Hu Hy Hp He] l.
  assert (Sp : s_any (c_eqb sp) l = true).
  { unfold l. rewrite s_any_app. simpl. change (c_eqb sp sp) with true. now rewrite orb_true_r. }
  repeat split.
  - unfold l. destruct t; [discriminate | reflexivity].
  - unfold is_pubchem, l. now rewrite (prefix_token "pubchem" t r eq_refl Hp).
  - unfold is_efp_start, l. now rewrite (prefix_token "efp" t r eq_refl He).
  - unfold is_com. rewrite !(lower_eqb_needs_space l) by (exact Sp || reflexivity). reflexivity.
  - unfold is_orient. rewrite !(lower_eqb_needs_space l) by (exact Sp || reflexivity). reflexivity.
  - unfold units_match, l. now rewrite (prefix_token "unit" t r eq_refl Hu).
  - unfold symmetry_match, l. now rewrite (prefix_token "symmetry" t r eq_refl Hy).
  - unfold is_dash. apply eqb_needs_space; [exact Sp | reflexivity].
Qed.

(** a token made of number characters is no keyword start *)
Lemma numeric_token_ok s : s_all numch s = true -> is_empty s = false -> token_ok s.
Proof.
  intros Hs Hn. destruct s as [|c r]; [discriminate|]. simpl in Hs. apply andb_true_iff in Hs as [Hc Hr].
  assert (Hsep : s_any is_sepc (String c r) = false) by (apply numeric_no_sep; simpl; now rewrite Hc, Hr).
  destruct (numch_facts c Hc) as [_ [_ [Hl Ha]]].
  assert (K : forall k0 k, c_is_alpha k0 = true -> s_prefix (String k0 k) (s_lower (String c r)) = false).
  { intros k0 k Hk. simpl. rewrite Hl. destruct (c_eqb k0 c) eqn:E; [|reflexivity].
    apply Ascii.eqb_eq in E. subst. congruence. }
  constructor; try assumption; apply K; reflexivity.
Qed.

(* ------------------------------------------------------------------------------------------ *)
(** * the writer's lines, as the recognisers see them *)
Definition blank_or_hash (c : ascii) : bool := c_is_space c || c_eqb c c_hash.
Record label_ok (t : string) : Prop := {
  lb_token : token_ok t;
  lb_nucleus : is_nucleus t = true;
  lb_clean : s_any blank_or_hash t = false       (* no white space of any kind, no '#' *)
}.

Lemma spaces_then_two a R : exists r, s_repeat sp a +++ two_sp +++ R = String sp r.
Proof. destruct a as [|a]; simpl; eexists; reflexivity. Qed.

Lemma first_is_tok p t r : is_empty t = false -> s_any p t = false -> first_is p (t +++ r) = false.
Proof. destruct t as [|c t]; [discriminate|]. simpl. intros _ H. now apply orb_false_iff in H as [H _]. Qed.

Lemma atom_line_shape w p v :
  render_atom w p false false v
  = av_label v +++ s_repeat sp (w - slen (av_label v)) +++ two_sp
    +++ (s_repeat sp (w - slen (fmt_f p (av_x v))) +++ fmt_f p (av_x v) +++ s_repeat sp 0 +++ two_sp
    +++ (s_repeat sp (w - slen (fmt_f p (av_y v))) +++ fmt_f p (av_y v) +++ s_repeat sp 0 +++ two_sp
    +++ (s_repeat sp (w - slen (fmt_f p (av_z v))) +++ fmt_f p (av_z v)))).
Proof.
  unfold render_atom, fmt_fw, pad_right, pad_left. cbn [s_join s_repeat String.append].
  rewrite !app_assoc_s. reflexivity.
Qed.

Lemma lex_atom_line w p v :
  label_ok (av_label v) -> (0 <= bm (av_x v))%Z -> (0 <= bm (av_y v))%Z -> (0 <= bm (av_z v))%Z ->
  lex_as (render_atom w p false false v) (KAtom (av_label v, dn p (av_x v), dn p (av_y v), dn p (av_z v))).
Proof.
  intros [Tk Nuc _] Hx Hy Hz.
  pose proof (tk_nonempty _ Tk) as Ln. pose proof (tk_nosep _ Tk) as Ls.
  set (FX := fmt_f p (av_x v)). set (FY := fmt_f p (av_y v)). set (FZ := fmt_f p (av_z v)).
  assert (NX : s_any is_sepc FX = false /\ is_empty FX = false) by (split; [apply numeric_no_sep, fmt_f_numch | now apply fmt_f_nonempty]).
  assert (NY : s_any is_sepc FY = false /\ is_empty FY = false) by (split; [apply numeric_no_sep, fmt_f_numch | now apply fmt_f_nonempty]).
  assert (NZ : s_any is_sepc FZ = false /\ is_empty FZ = false) by (split; [apply numeric_no_sep, fmt_f_numch | now apply fmt_f_nonempty]).
  rewrite atom_line_shape. fold FX FY FZ.
  set (R3 := s_repeat sp (w - slen FZ) +++ FZ).
  set (R2 := s_repeat sp (w - slen FY) +++ FY +++ s_repeat sp 0 +++ two_sp +++ R3).
  set (R1 := s_repeat sp (w - slen FX) +++ FX +++ s_repeat sp 0 +++ two_sp +++ R2).
  set (line := av_label v +++ s_repeat sp (w - slen (av_label v)) +++ two_sp +++ R1).
  assert (T3 : toks R3 = [FZ]) by (unfold R3; rewrite toks_spaces; apply toks_last; tauto).
  assert (T2 : toks R2 = [FY; FZ]) by (unfold R2; rewrite toks_spaces, toks_field by tauto; now rewrite T3).
  assert (T1 : toks R1 = [FX; FY; FZ]) by (unfold R1; rewrite toks_spaces, toks_field by tauto; now rewrite T2).
  assert (T0 : toks line = [av_label v; FX; FY; FZ]) by (unfold line; rewrite toks_field by assumption; now rewrite T1).
  assert (Ed : edges_ok line = true).
  { unfold edges_ok. apply andb_true_iff. split; apply negb_true_iff.
    - unfold line. apply first_is_tok; assumption.
    - unfold line, R1, R2, R3. rewrite <- !app_assoc_s. rewrite last_is_app by tauto. apply last_is_none; tauto. }
  destruct (spaces_then_two (w - slen (av_label v)) R1) as [r Hr].
  assert (Shape : line = av_label v +++ String sp r) by (unfold line; now rewrite Hr).
  destruct (spaced_line_facts (av_label v) r Tk) as [F1 [F2 [F3 [F4 F5]]]]. rewrite <- Shape in *.
  unfold lex_as. repeat split; try assumption; try apply F4.
  - unfold cgmp_match. rewrite Ed, T0. reflexivity.
  - unfold atom_match. rewrite Ed, T0, Nuc.
    unfold FX, FY, FZ. rewrite !parse_number_fmt by assumption. reflexivity.
Qed.

Lemma chgmult_line_shape c m : render_line 0 0 false false (LChgMult "" c m "") = dec_of_Z c +++ String sp (dec_of_Z m).
Proof. simpl. now rewrite app_nil_r_s. Qed.

Lemma lex_cgmp_line c m :
  (0 <= m)%Z -> slen (dec_of_Z m) <= int_max_str_digits ->
  lex_as (dec_of_Z c +++ String sp (dec_of_Z m)) (KCgmp (dz c) m).
Proof.
  intros Hm Hlen.
  pose proof (dec_of_Z_numch c) as Nc. pose proof (dec_of_Z_nonempty c) as Ec.
  assert (Em : dec_of_Z m = dec_of_nonneg m) by (unfold dec_of_Z; destruct (m <? 0)%Z eqn:E; [apply Z.ltb_lt in E; lia | reflexivity]).
  pose proof (dec_nonneg_digits m) as Dm. pose proof (dec_nonneg_nonempty m) as Nm. rewrite <- Em in Dm, Nm.
  assert (Sm : s_any is_sepc (dec_of_Z m) = false).
  { apply numeric_no_sep. apply (s_all_weaken c_is_digit numch _ digit_numch). assumption. }
  set (line := dec_of_Z c +++ String sp (dec_of_Z m)).
  assert (T : toks line = [dec_of_Z c; dec_of_Z m]).
  { unfold line. rewrite toks_tok by (try apply numeric_no_sep; assumption || reflexivity). now rewrite toks_last. }
  assert (Ed : edges_ok line = true).
  { unfold edges_ok. apply andb_true_iff. split; apply negb_true_iff.
    - unfold line. apply first_is_tok; [assumption | now apply numeric_no_sep].
    - unfold line. change (String sp (dec_of_Z m)) with (String sp EmptyString +++ dec_of_Z m).
      rewrite <- app_assoc_s. rewrite last_is_app by assumption. now apply last_is_none. }
  destruct (spaced_line_facts (dec_of_Z c) (dec_of_Z m) (numeric_token_ok _ Nc Ec)) as [F1 [F2 [F3 [F4 F5]]]].
  fold line in F1, F2, F3, F4, F5.
  unfold lex_as. repeat split; try assumption; try apply F4.
  exists (dec_of_Z m). split.
  - unfold cgmp_match. rewrite Ed, T, parse_number_int. unfold all_digits. now rewrite Nm, Dm.
  - unfold py_int. destruct (Nat.ltb int_max_str_digits (slen (dec_of_Z m))) eqn:E; [apply Nat.ltb_lt in E; lia|].
    rewrite Em, digits_or_zero_dec by assumption. reflexivity.
Qed.

Lemma lex_dash : lex_as "--" KDash.
Proof. unfold lex_as, not_universal. repeat split; vm_compute; reflexivity. Qed.
Lemma lex_units_bohr : lex_as "units bohr" (KUnits "Bohr").
Proof. unfold lex_as. repeat split; vm_compute; reflexivity. Qed.
Lemma lex_units_angstrom : lex_as "units angstrom" (KUnits "Angstrom").
Proof. unfold lex_as. repeat split; vm_compute; reflexivity. Qed.
Lemma lex_no_com : lex_as "no_com" KCom.
Proof. unfold lex_as. repeat split; vm_compute; reflexivity. Qed.
Lemma lex_no_reorient : lex_as "no_reorient" KOrient.
Proof. unfold lex_as. repeat split; vm_compute; reflexivity. Qed.
