(** C02 — float(Decimal): the meaning of the nearest-binary64 specification [nearest64_ok] of Model/Constants.v. *)
From Coq Require Import ZArith QArith Qpower Qabs Lia Lqa List Bool String.
Require Import QV.Common.Outcome QV.Common.DecC02 QV.Model.Constants QV.Proofs.DecimalC02.
Open Scope Q_scope.

Definition two : Q := inject_Z 2.
Lemma two_nz : ~ two == 0. Proof. discriminate. Qed.
Lemma two_pos : 0 < two. Proof. reflexivity. Qed.

Lemma pow2Q_val : forall e, pow2Q e == two ^ e.
Proof.
  intro e. unfold pow2Q. destruct (0 <=? e)%Z eqn:E.
  - apply Z.leb_le in E. unfold two. rewrite Zpower_Qpower by exact E. reflexivity.
  - apply Z.leb_gt in E. assert (P : (0 < 2 ^ (- e))%Z) by (apply Z.pow_pos_nonneg; lia).
    rewrite Qmake_Qdiv, Z2Pos.id by exact P. replace e with (- (- e))%Z at 2 by lia.
    rewrite Qpower_opp. unfold two. rewrite <- Zpower_Qpower by lia. unfold Qdiv. ring.
Qed.

Lemma two_pow_pos : forall e, 0 < two ^ e. Proof. intro. apply Qpower_0_lt, two_pos. Qed.

Lemma two_pow_split : forall e j, (0 <= j)%Z -> two ^ (e + j) == inject_Z (2 ^ j) * two ^ e.
Proof. intros e j H. rewrite (Qpower_plus two e j two_nz). unfold two at 2. rewrite <- Zpower_Qpower by exact H. ring. Qed.

(** spacing of 53-bit numbers m * 2^e, 2^52 <= m < 2^53, any exponents *)
Definition mant (m : Z) : Prop := (2 ^ 52 <= m < 2 ^ 53)%Z.

Lemma spacing_up : forall m e m' e', mant m -> mant m' ->
  inject_Z m * two ^ e < inject_Z m' * two ^ e' -> inject_Z m * two ^ e + two ^ e <= inject_Z m' * two ^ e'.
Proof.
  intros m e m' e' [M1 M2] [M1' M2'] H. pose proof (two_pow_pos e) as Pe. pose proof (two_pow_pos e') as Pe'.
  destruct (Z_le_gt_dec e e') as [L|L].
  - assert (S : two ^ e' == inject_Z (2 ^ (e' - e)) * two ^ e).
    { rewrite <- (two_pow_split e (e' - e)) by lia. replace (e + (e' - e))%Z with e' by lia. reflexivity. }
    rewrite S in *. set (G := (m' * 2 ^ (e' - e))%Z).
    assert (HG : inject_Z m' * (inject_Z (2 ^ (e' - e)) * two ^ e) == inject_Z G * two ^ e) by (unfold G; rewrite inject_Z_mult; ring).
    rewrite HG in *.
    assert (LT : (m < G)%Z).
    { rewrite Zlt_Qlt. apply (proj1 (Qmult_lt_r _ _ (two ^ e) Pe)). exact H. }
    assert (LE : inject_Z (m + 1) <= inject_Z G) by (rewrite <- Zle_Qle; lia).
    rewrite inject_Z_plus in LE. change (inject_Z 1) with 1 in LE.
    apply (Qmult_le_compat_r _ _ (two ^ e)) in LE; [|apply Qlt_le_weak; exact Pe]. lra.
  - exfalso.
    assert (S : two ^ e == inject_Z (2 ^ (e - e')) * two ^ e').
    { rewrite <- (two_pow_split e' (e - e')) by lia. replace (e' + (e - e'))%Z with e by lia. reflexivity. }
    rewrite S in H.
    assert (HF : inject_Z m * (inject_Z (2 ^ (e - e')) * two ^ e') == inject_Z (m * 2 ^ (e - e')) * two ^ e') by (rewrite inject_Z_mult; ring).
    rewrite HF in H. apply (proj1 (Qmult_lt_r _ _ (two ^ e') Pe')) in H. rewrite <- Zlt_Qlt in H.
    assert (J : (2 <= 2 ^ (e - e'))%Z) by (change 2%Z with (2 ^ 1)%Z at 1; apply Z.pow_le_mono_r; lia).
    assert (K : (2 ^ 52 * 2 <= m * 2 ^ (e - e'))%Z) by (apply Z.mul_le_mono_nonneg; lia).
    change (2 ^ 53)%Z with (2 ^ 52 * 2)%Z in M2'. lia.
Qed.

Lemma spacing_down : forall m e m' e', mant m -> mant m' ->
  inject_Z m' * two ^ e' < inject_Z m * two ^ e ->
  inject_Z m' * two ^ e' <= inject_Z m * two ^ e - (if (m =? 2 ^ 52)%Z then two ^ e / 2 else two ^ e).
Proof.
  intros m e m' e' [M1 M2] [M1' M2'] H. pose proof (two_pow_pos e) as Pe. pose proof (two_pow_pos e') as Pe'.
  destruct (Z_le_gt_dec e e') as [L|L].
  - assert (S : two ^ e' == inject_Z (2 ^ (e' - e)) * two ^ e).
    { rewrite <- (two_pow_split e (e' - e)) by lia. replace (e + (e' - e))%Z with e' by lia. reflexivity. }
    rewrite S in *. set (G := (m' * 2 ^ (e' - e))%Z).
    assert (HG : inject_Z m' * (inject_Z (2 ^ (e' - e)) * two ^ e) == inject_Z G * two ^ e) by (unfold G; rewrite inject_Z_mult; ring).
    rewrite HG in *.
    assert (LT : (G < m)%Z).
    { rewrite Zlt_Qlt. apply (proj1 (Qmult_lt_r _ _ (two ^ e) Pe)). exact H. }
    assert (LE : inject_Z (G + 1) <= inject_Z m) by (rewrite <- Zle_Qle; lia).
    rewrite inject_Z_plus in LE. change (inject_Z 1) with 1 in LE.
    apply (Qmult_le_compat_r _ _ (two ^ e)) in LE; [|apply Qlt_le_weak; exact Pe].
    assert (X1 : (inject_Z G + 1) * two ^ e == inject_Z G * two ^ e + two ^ e) by ring. rewrite X1 in LE.
    generalize dependent (inject_Z G * two ^ e). generalize dependent (inject_Z m * two ^ e). generalize dependent (two ^ e).
    intros T PT A _ B LE. destruct (m =? 2 ^ 52)%Z; [|lra].
    assert (T / 2 <= T) by (apply Qle_shift_div_r; lra). lra.
  - assert (S : two ^ e == inject_Z (2 ^ (e - e')) * two ^ e').
    { rewrite <- (two_pow_split e' (e - e')) by lia. replace (e' + (e - e'))%Z with e by lia. reflexivity. }
    set (J := (2 ^ (e - e' - 1))%Z).
    assert (HJ : (1 <= J)%Z) by (unfold J; pose proof (Z.pow_pos_nonneg 2 (e - e' - 1) ltac:(lia) ltac:(lia)); lia).
    assert (E2 : (2 ^ (e - e') = 2 * J)%Z) by (unfold J; rewrite <- Z.pow_succ_r by lia; f_equal; lia).
    destruct (m =? 2 ^ 52)%Z eqn:Em; rewrite S, E2; rewrite !inject_Z_mult; change (inject_Z 2) with 2.
    + apply Z.eqb_eq in Em.
      (* m' <= 2^53 - 1 <= m*2J - J *)
      assert (Kz : (m' <= m * (2 * J) - J)%Z) by (rewrite Em; change (2 ^ 53)%Z with (2 * 2 ^ 52)%Z in M2'; nia).
      assert (Kq : inject_Z m' <= inject_Z (m * (2 * J) - J)) by (rewrite <- Zle_Qle; exact Kz).
      rewrite inject_Z_minus', !inject_Z_mult in Kq. change (inject_Z 2) with 2 in Kq.
      apply (Qmult_le_compat_r _ _ (two ^ e')) in Kq; [|apply Qlt_le_weak; exact Pe'].
      assert (R : inject_Z m * (2 * inject_Z J * two ^ e') - 2 * inject_Z J * two ^ e' / 2 == (inject_Z m * (2 * inject_Z J) - inject_Z J) * two ^ e') by field.
      rewrite R. exact Kq.
    + apply Z.eqb_neq in Em.
      assert (Kz : (m' <= m * (2 * J) - 2 * J)%Z) by (change (2 ^ 53)%Z with (2 * 2 ^ 52)%Z in M2'; nia).
      assert (Kq : inject_Z m' <= inject_Z (m * (2 * J) - 2 * J)) by (rewrite <- Zle_Qle; exact Kz).
      rewrite inject_Z_minus', !inject_Z_mult in Kq. change (inject_Z 2) with 2 in Kq.
      apply (Qmult_le_compat_r _ _ (two ^ e')) in Kq; [|apply Qlt_le_weak; exact Pe'].
      assert (R : inject_Z m * (2 * inject_Z J * two ^ e') - 2 * inject_Z J * two ^ e' == (inject_Z m * (2 * inject_Z J) - 2 * inject_Z J) * two ^ e') by ring.
      rewrite R. exact Kq.
Qed.

Lemma Qle_bool_false : forall a b, Qle_bool a b = false -> b < a.
Proof. intros a b H. apply Qnot_le_lt. intro L. apply Qle_bool_iff in L. congruence. Qed.

Theorem nearest64_ok_meaning : forall neg m e d, nearest64_ok neg m e d = true ->
  mant m /\ (-1074 <= e <= 971)%Z /\ neg = (coef d <? 0)%Z /\ ~ dec2Q d == 0 /\
  forall m' e', mant m' ->
    Qabs (Qabs (dec2Q d) - inject_Z m * two ^ e) <= Qabs (Qabs (dec2Q d) - inject_Z m' * two ^ e')
    /\ (Qabs (Qabs (dec2Q d) - inject_Z m * two ^ e) == Qabs (Qabs (dec2Q d) - inject_Z m' * two ^ e') ->
        ~ inject_Z m * two ^ e == inject_Z m' * two ^ e' -> Z.even m = true).
Proof.
  intros neg m e d H. unfold nearest64_ok in H. cbv zeta in H.
  set (x := Qabs (dec2Q d)) in *.
  apply andb_true_iff in H. destruct H as [H Hcase]. apply andb_true_iff in H. destruct H as [Hs Hn].
  destruct (Qeq_bool (dec2Q d) 0) eqn:Z0; [discriminate|]. apply Qeq_bool_neq in Z0. apply eqb_prop in Hs.
  repeat (apply andb_true_iff in Hn; destruct Hn as [Hn ?]).
  apply Z.leb_le in Hn. apply Z.ltb_lt in H1. apply Z.leb_le in H0. apply Z.leb_le in H.
  assert (Mm : mant m) by (split; assumption).
  split; [exact Mm|]. split; [lia|]. split; [exact Hs|]. split; [exact Z0|].
  intros m' e' Mm'.
  set (f := inject_Z m * two ^ e). set (g := inject_Z m' * two ^ e').
  pose proof (two_pow_pos e) as Pe.
  assert (Fv : inject_Z m * pow2Q e == f) by (unfold f; rewrite pow2Q_val; reflexivity).
  apply orb_true_iff in Hcase. destruct Hcase as [Hc|Hc]; apply andb_true_iff in Hc; destruct Hc as [Hsgn Hc].
  - (* x >= f *)
    apply Qle_bool_iff in Hsgn. rewrite Fv in Hsgn.
    assert (B : 2 * (x - f) < two ^ e \/ (2 * (x - f) == two ^ e /\ Z.even m = true)).
    { apply orb_true_iff in Hc. destruct Hc as [Hc|Hc].
      - left. apply negb_true_iff in Hc. apply Qle_bool_false in Hc. rewrite !pow2Q_val in Hc. fold f in Hc. exact Hc.
      - right. apply andb_true_iff in Hc. destruct Hc as [Hq He]. apply Qeq_bool_eq in Hq. rewrite !pow2Q_val in Hq. fold f in Hq. split; assumption. }
    assert (Af : Qabs (x - f) == x - f) by (apply Qabs_pos; lra).
    destruct (Q_dec f g) as [[Lt|Gt]|Eq].
    + pose proof (spacing_up m e m' e' Mm Mm' Lt) as Sp. fold f g in Sp.
      assert (Ag : Qabs (x - g) == g - x).
      { rewrite Qabs_neg by (destruct B as [B|[B _]]; lra). ring. }
      rewrite Af, Ag. split; [destruct B as [B|[B _]]; lra|].
      intros Tie _. destruct B as [B|[_ B]]; [lra | exact B].
    + assert (Ag : Qabs (x - g) == x - g) by (apply Qabs_pos; lra).
      rewrite Af, Ag. split; [lra|]. intros Tie _. lra.
    + rewrite <- Eq. split; [apply Qle_refl|]. intros _ Ne. exfalso. apply Ne. reflexivity.
  - (* x < f *)
    apply negb_true_iff in Hsgn. apply Qle_bool_false in Hsgn. rewrite Fv in Hsgn.
    set (gap := if (m =? 2 ^ 52)%Z then two ^ e / 2 else two ^ e).
    assert (Gv : (if (m =? 2 ^ 52)%Z then pow2Q e / 2 else pow2Q e) == gap).
    { unfold gap. destruct (m =? 2 ^ 52)%Z; rewrite pow2Q_val; reflexivity. }
    assert (B : 2 * (f - x) < gap \/ (2 * (f - x) == gap /\ Z.even m = true)).
    { apply orb_true_iff in Hc. destruct Hc as [Hc|Hc].
      - left. apply negb_true_iff in Hc. apply Qle_bool_false in Hc. rewrite Gv, Fv in Hc. exact Hc.
      - right. apply andb_true_iff in Hc. destruct Hc as [Hq He]. apply Qeq_bool_eq in Hq. rewrite Gv, Fv in Hq. split; assumption. }
    assert (Gp : 0 < gap).
    { unfold gap. destruct (m =? 2 ^ 52)%Z; [apply Qlt_shift_div_l; lra | exact Pe]. }
    assert (Af : Qabs (x - f) == f - x) by (rewrite Qabs_neg by lra; ring).
    destruct (Q_dec f g) as [[Lt|Gt]|Eq].
    + assert (Ag : Qabs (x - g) == g - x) by (rewrite Qabs_neg by lra; ring).
      rewrite Af, Ag. split; [lra|]. intros Tie _. lra.
    + pose proof (spacing_down m e m' e' Mm Mm' Gt) as Sp. fold f g gap in Sp.
      assert (Ag : Qabs (x - g) == x - g).
      { apply Qabs_pos. destruct B as [B|[B _]]; lra. }
      rewrite Af, Ag. split; [destruct B as [B|[B _]]; lra|].
      intros Tie _. destruct B as [B|[_ B]]; [lra | exact B].
    + rewrite <- Eq. split; [apply Qle_refl|]. intros _ Ne. exfalso. apply Ne. reflexivity.
Qed.
