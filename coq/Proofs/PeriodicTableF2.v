(** C01: every NIST SRD-144 isotope row against the accessors, by evaluation (split off so that it builds in parallel). *)
From Coq Require Import ZArith NArith List String Ascii Bool.
Require Import QV.Common.Outcome QV.Common.PyAscii.
Require Import QV.Gen.PTable QV.Gen.PeriodGroup QV.Gen.Srd144 QV.Model.PeriodicTable.
Import ListNotations.
Open Scope Z_scope.

(** got = Ok w  and  want = Some w *)
Definition agrees {A} (eqb : A -> A -> bool) (got : outcome A) (want : option A) : bool :=
  match got, want with Ok g, Some w => eqb g w | _, _ => false end.

Definition faith_iso (e : srd_elem) (i : srd_iso) (lbl : string) : bool :=
  let o := observe (PStr lbl) in
  agrees Z.eqb (o_ZF o) (e_Z e) && agrees String.eqb (o_EF o) (Some (e_sym e)) &&
  agrees String.eqb (o_nameF o) (e_name e) && agrees Z.eqb (o_A o) (i_A i) &&
  agrees pair_eqb (o_mass o) (i_mass i) &&
  agrees String.eqb (to_mass_str (PStr lbl)) (Some (i_mass_str i)).

Definition faith_elem_isos (e : srd_elem) : bool :=
  forallb (fun i => forallb (faith_iso e i) (i_labels (e_sym e) i)) (e_isos e).

Lemma all_isotopes_faithful : forallb faith_elem_isos srd_elements = true.
Proof. vm_cast_no_check (@eq_refl bool true). Qed.
