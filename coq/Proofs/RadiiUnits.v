(** C17: the default Bohr value against the CODATA data. *)
From Coq Require Import ZArith QArith Qabs List String Bool Lia.
Require Import QV.Common.Outcome QV.Common.PyAscii QV.Common.DecC02.
Require Import QV.Gen.Radii QV.Model.PeriodicTable QV.Model.Radii QV.Model.RadiiUnits QV.Proofs.Radii.
Import ListNotations.
Open Scope Z_scope.

(** bohr2angstroms is ("bohr radius" of the default CODATA set) * 10^10, exactly; the Decimal the context
    computes for it carries that value without rounding; it is positive *)
Definition b2a_facts : bool :=
  match codata_lookup "bohr radius", b2a_Q, b2a_dec with
  | Some r, Some b, Some d =>
      Qeq_bool b (dec2Q r * inject_Z (10 ^ 10)) && Qeq_bool (dec2Q d) b && Qle_bool (1 # 1000) b
  | _, _, _ => false
  end.
Lemma b2a_facts_ok : b2a_facts = true.
Proof. vm_compute. reflexivity. Qed.

Lemma b2a_from_codata :
  exists r b d, codata_lookup "bohr radius" = Some r /\ b2a_Q = Some b /\ b2a_dec = Some d /\
                (b == dec2Q r * inject_Z (10 ^ 10))%Q /\ (dec2Q d == b)%Q /\ (0 < b)%Q.
Proof.
  pose proof b2a_facts_ok as A. unfold b2a_facts in A.
  destruct (codata_lookup "bohr radius") as [r|]; [|discriminate].
  destruct b2a_Q as [b|]; [|discriminate]. destruct b2a_dec as [d|]; [|discriminate].
  rewrite !andb_true_iff in A. destruct A as [[A1 A2] A3].
  apply Qeq_bool_iff in A1, A2. apply Qle_bool_iff in A3.
  exists r, b, d. repeat split; try assumption.
  eapply Qlt_le_trans; [|exact A3]. reflexivity.
Qed.

Lemma default_bohr_value t x v :
  radius_bohr t x = Ok v ->
  exists b id e d, b2a_Q = Some b /\ (0 < b)%Q /\ ident t x = Ok id /\ tbl_get t id = Some e /\ en_data e = Some d /\
                   (v == dec_Q d / b)%Q /\ (v * b == dec_Q d)%Q.
Proof.
  unfold radius_bohr. intro H.
  destruct b2a_from_codata as [r [b [d0 [_ [B [_ [_ [_ P]]]]]]]]. rewrite B in H.
  destruct (radius_value_spec _ _ _ _ H) as [id [e [d [H1 [H2 [H3 H4]]]]]].
  exists b, id, e, d. repeat split; try assumption; subst v.
  - unfold Qdiv. ring.
  - field. intro Z. rewrite Z in P. discriminate.
Qed.
