(** C15 — wave 3: the bookkeeping theorem without the length side condition, conservation of electrons through
    get_fragment (both paths), totals of the order-preserving path formed from the real fragments, and the argument glue
    of the public entry points (generated defaults, Gen/FragGlue.v). *)
From Coq Require Import ZArith QArith List String Ascii Bool Arith Lia Permutation.
Require Import QV.Common.Outcome QV.Common.HFList QV.Model.ChgMult QV.Proofs.ChgMult QV.Gen.FragGlue QV.Model.Fragment QV.Proofs.Fragment
               QV.Model.Formula QV.Proofs.Formula.
Import ListNotations.
Open Scope Z_scope.

(** ---- one charge and one multiplicity per fragment in what get_fragment hands over ---- *)
Lemma blocks_length : forall sizes start, List.length (blocks start sizes) = List.length sizes.
Proof. induction sizes as [|s r IH]; intros start; simpl; [reflexivity|]. rewrite IH. reflexivity. Qed.

Lemma lengths_ok_grouped p real ghost d : get_fragment p real ghost true = Ok d -> lengths_ok d.
Proof.
  unfold get_fragment. destruct (overlap real ghost); [discriminate|]. destruct (forallb _ _); [|discriminate].
  destruct (d_atoms (grouped p real ghost)); [discriminate|]. intros H. injection H as <-.
  unfold lengths_ok, grouped. cbn [d_fc d_fm d_frags]. rewrite blocks_length, !app_length, !map_length, app_length. split; reflexivity.
Qed.

Lemma lengths_ok_ungrouped p real ghost d : get_fragment p real ghost false = Ok d -> lengths_ok d.
Proof.
  unfold get_fragment. destruct (overlap real ghost) eqn:O; [discriminate|].
  destruct (d_atoms (ungrouped p real ghost)); [discriminate|]. intros H. injection H as <-.
  destruct (ungrouped_fc p real ghost O) as [F1 F2]. unfold lengths_ok. rewrite F1, F2, ungrouped_frags, !map_length. split; reflexivity.
Qed.

Lemma lengths_ok_get_fragment p real ghost group d : get_fragment p real ghost group = Ok d -> lengths_ok d.
Proof. destruct group; [apply lengths_ok_grouped|apply lengths_ok_ungrouped]. Qed.

(** the bookkeeping theorem with no side condition *)
Theorem sub_molecule_bookkeeping_full p real ghost group q :
  sub_molecule p real ghost group = Ok q ->
  exists d, get_fragment p real ghost group = Ok d
    /\ contiguous d = true
    /\ p_atoms q = d_atoms d /\ p_frags q = d_frags d /\ p_fc q = d_fc d /\ p_fm q = d_fm d
    /\ p_c q = zsum (p_fc q)
    /\ match d_cm d with
       | Some (c, m) => p_c q = c /\ p_m q = m
       | None => p_m q = 1 + zsum (map (fun m => m - 1) (p_fm q))
       end.
Proof.
  intros H. destruct (sub_molecule_bookkeeping p real ghost group q H) as (d & G & K).
  exists d. split; [exact G|].
  specialize (K (lengths_ok_get_fragment p real ghost group d G)).
  destruct K as (A1 & A2 & A3 & A4 & A5 & A6 & _).
  split; [|repeat split; assumption].
  unfold sub_molecule in H. rewrite G in H. simpl in H. destruct (contiguous d); [reflexivity|discriminate].
Qed.

(* Model/ChgMult.zsum is the constant behind Common/HFList's notation [zsum]: the list lemmas, restated for the constant *)
Lemma czsum_app a b : zsum (a ++ b) = zsum a + zsum b.
Proof. exact (HFList.zsum_app a b). Qed.
Lemma czsum_map_zero {A} (l : list A) : zsum (map (fun _ => 0) l) = 0.
Proof. exact (HFList.zsum_map_zero l). Qed.

(** ---- electrons are conserved ---- *)
(* nuclear charge of a parent fragment, all atoms counted as real (which is what a real selection makes them) *)
Definition znuc (p : pmol) (f : nat) : Z := zsum (map (fun i => a_Z (atom_at p i)) (frag_at p f)).

Lemma zeff_frag_atoms_true p f : zsum (map zeff (frag_atoms p true f)) = znuc p f.
Proof. unfold frag_atoms, znuc. rewrite map_map. reflexivity. Qed.
Lemma zeff_frag_atoms_false p f : zsum (map zeff (frag_atoms p false f)) = 0.
Proof.
  unfold frag_atoms. rewrite map_map. induction (frag_at p f) as [|i l IH]; simpl; [reflexivity|]. rewrite IH. reflexivity.
Qed.

Lemma zsum_flat_map {A} (g : A -> list Z) l : zsum (flat_map g l) = zsum (map (fun x => zsum (g x)) l).
Proof. induction l as [|x l IH]; [reflexivity|]. cbn [flat_map map]. rewrite czsum_app, IH. reflexivity. Qed.

Lemma map_flat_map {A B C} (h : B -> C) (g : A -> list B) l : map h (flat_map g l) = flat_map (fun x => map h (g x)) l.
Proof. induction l as [|x l IH]; simpl; [reflexivity|]. rewrite map_app, IH. reflexivity. Qed.

Lemma zsum_map_sub {A} (f g : A -> Z) l : zsum (map (fun x => f x - g x) l) = zsum (map f l) - zsum (map g l).
Proof. induction l as [|x l IH]; simpl; [reflexivity|]. rewrite IH. lia. Qed.

(** group_fragments=True: the electrons of the sub-molecule are those of the real-selected fragments (their nuclear
    charges minus their charges); ghost-selected fragments contribute none *)
Theorem electrons_conserved_grouped p real ghost q :
  sub_molecule p real ghost true = Ok q ->
  nelectrons q = zsum (map (fun f => znuc p f - fc_at p f) real).
Proof.
  intros H. destruct (sub_molecule_bookkeeping_full p real ghost true q H) as (d & G & _ & A1 & _ & _ & _ & _ & A6).
  destruct (grouped_conserves p real ghost d G) as (E1 & _ & _ & _ & _ & E6).
  rewrite E6 in A6. destruct A6 as [C _].
  unfold nelectrons. rewrite A1, E1, C, map_app, czsum_app, !map_flat_map, !zsum_flat_map.
  rewrite (map_ext (fun f => zsum (map zeff (frag_atoms p true f))) (znuc p)) by (intros; apply zeff_frag_atoms_true).
  rewrite (map_ext (fun f => zsum (map zeff (frag_atoms p false f))) (fun _ => 0)) by (intros; apply zeff_frag_atoms_false).
  rewrite czsum_map_zero, zsum_map_sub. lia.
Qed.

(** ... and when the real-selected fragments hold no parent ghost atoms, that is the sum of the parent's per-fragment
    electron counts *)
Lemma znuc_all_real p f : all_real p f -> znuc p f = zsum (map (fun i => zeff (atom_at p i)) (frag_at p f)).
Proof.
  unfold all_real, znuc. induction (frag_at p f) as [|i l IH]; intros F; simpl; [reflexivity|].
  inversion F as [|x y R F']; subst. rewrite IH by exact F'. unfold zeff. rewrite R. reflexivity.
Qed.

Corollary electrons_conserved_grouped_frag p real ghost q : partition_ok p -> Forall (all_real p) real ->
  sub_molecule p real ghost true = Ok q ->
  nelectrons q = zsum (map (nelectrons_frag p) real).
Proof.
  intros P F H. rewrite (electrons_conserved_grouped p real ghost q H). f_equal.
  apply map_ext_in. intros f Hf. rewrite Forall_forall in F. rewrite (nelectrons_frag_spec p f P), (znuc_all_real p f (F f Hf)). reflexivity.
Qed.

(** group_fragments=False: the atom list is the concatenation of the chosen fragments (the constructor insists on
    contiguous fragments), so the same count holds over the real-selected ones *)
Lemma nat_list_eqb_eq : forall a b, nat_list_eqb a b = true -> a = b.
Proof.
  induction a as [|x a IH]; intros [|y b] H; simpl in H; try discriminate; [reflexivity|].
  apply andb_true_iff in H. destruct H as [H1 H2]. apply Nat.eqb_eq in H1. f_equal; [exact H1|apply IH; exact H2].
Qed.

Lemma concat_map_map {A B} (h : A -> B) (ls : list (list A)) : List.concat (map (map h) ls) = map h (List.concat ls).
Proof. induction ls as [|l ls IH]; simpl; [reflexivity|]. rewrite map_app, IH. reflexivity. Qed.

Lemma Forall2_map_eq {A B C} (F : A -> C) (Gf : B -> C) (la : list A) (lb : list B) :
  Forall2 (fun a b => F a = Gf b) la lb -> map F la = map Gf lb.
Proof. induction 1; simpl; congruence. Qed.

Theorem ungrouped_atoms_by_fragment p real ghost d :
  disjoint_frags p -> (forall i, In i (List.concat (p_frags p)) -> (i < List.length (p_atoms p))%nat) ->
  get_fragment p real ghost false = Ok d -> contiguous d = true ->
  d_atoms d = flat_map (fun k => frag_atoms p (memb k real) k) (chosen_list p real ghost).
Proof.
  intros D R G C. destruct (ungrouped_conserves p real ghost d D R G) as (_ & F & _).
  apply nat_list_eqb_eq in C.
  rewrite <- (map_nth_seq (d_atoms d) dflt_atom) at 1. rewrite <- C, <- concat_map_map, flat_map_concat. f_equal.
  apply (Forall2_map_eq (map (fun i => nth i (d_atoms d) dflt_atom)) (fun k => frag_atoms p (memb k real) k)). exact F.
Qed.

Definition real_chosen (p : pmol) (real ghost : list nat) : list nat := filter (fun k => memb k real) (chosen_list p real ghost).

Lemma zsum_map_if {A} (c : A -> bool) (f : A -> Z) l :
  zsum (map (fun k => if c k then f k else 0) l) = zsum (map f (filter c l)).
Proof. induction l as [|x l IH]; simpl; [reflexivity|]. destruct (c x); simpl; rewrite IH; reflexivity. Qed.

Theorem electrons_conserved_ungrouped p real ghost q :
  disjoint_frags p -> (forall i, In i (List.concat (p_frags p)) -> (i < List.length (p_atoms p))%nat) ->
  sub_molecule p real ghost false = Ok q ->
  nelectrons q = zsum (map (fun f => znuc p f - fc_at p f) (real_chosen p real ghost))
  /\ p_c q = zsum (map (fc_at p) (real_chosen p real ghost))
  /\ p_m q = 1 + zsum (map (fun f => fm_at p f - 1) (real_chosen p real ghost)).
Proof.
  intros D R H. destruct (sub_molecule_bookkeeping_full p real ghost false q H) as (d & G & C & A1 & _ & A3 & A4 & A5 & A6).
  destruct (ungrouped_conserves p real ghost d D R G) as (_ & _ & E3 & E4 & E5).
  rewrite E5 in A6.
  assert (PC : p_c q = zsum (map (fc_at p) (real_chosen p real ghost))).
  { rewrite A5, A3, E3. unfold real_chosen. apply zsum_map_if. }
  split; [|split; [exact PC|]].
  - unfold nelectrons. rewrite PC, A1, (ungrouped_atoms_by_fragment p real ghost d D R G C), map_flat_map, zsum_flat_map.
    rewrite zsum_map_sub. f_equal. unfold real_chosen. rewrite <- zsum_map_if. f_equal. apply map_ext. intros k.
    destruct (memb k real); [apply zeff_frag_atoms_true|apply zeff_frag_atoms_false].
  - rewrite A6, A4, E4, map_map. unfold real_chosen. rewrite <- zsum_map_if. do 2 f_equal. apply map_ext. intros k.
    destruct (memb k real); reflexivity.
Qed.

(** ---- the public entry points ---- *)
(** defaults (generated from the signature): no ghost fragments, no re-orientation, real fragments first *)
Theorem get_fragment_pub_defaults p real :
  get_fragment_pub p real None None None = obind (get_fragment p (sel_list real) [] true) (fun d => Ok (d, false)).
Proof. reflexivity. Qed.

(** a bare index is the one-element list; `orient` only travels to the constructor *)
Theorem get_fragment_pub_glue p (i : nat) orient group :
  (forall ghost, get_fragment_pub p (SInt i) ghost orient group = get_fragment_pub p (SList [i]) ghost orient group)
  /\ (forall real, get_fragment_pub p real (Some (SInt i)) orient group = get_fragment_pub p real (Some (SList [i])) orient group)
  /\ (forall real, get_fragment_pub p real None orient group = get_fragment_pub p real (Some (SList [])) orient group)
  /\ (forall r g o, match get_fragment_pub p r g o group, get_fragment_pub p r g None group with
                    | Ok (d, _), Ok (d', _) => d = d'
                    | Err e, Err e' => e = e'
                    | _, _ => False
                    end).
Proof.
  split; [reflexivity|]. split; [reflexivity|]. split; [reflexivity|]. intros r g o. unfold get_fragment_pub.
  destruct (get_fragment p (sel_list r) (ghost_list g) (opt_or gf_default_group group)); simpl; reflexivity.
Qed.

(** every conservation theorem applies to the public call: it is the list-level function on the normalised arguments *)
Theorem sub_molecule_pub_spec p real ghost group :
  sub_molecule_pub p real ghost group = sub_molecule p (sel_list real) (ghost_list ghost) (match group with Some b => b | None => true end).
Proof. destruct group; reflexivity. Qed.

(** nelectrons(ifr): the whole molecule for None, the fragment for an index in range, IndexError otherwise *)
Theorem nelectrons_pub_spec p : partition_ok p ->
  nelectrons_pub p None = Ok (zsum (map zeff (p_atoms p)) - p_c p)
  /\ (forall k, (k < List.length (p_frags p))%nat ->
        nelectrons_pub p (Some k) = Ok (zsum (map (fun i => zeff (atom_at p i)) (frag_at p k)) - fc_at p k))
  /\ (forall k, (List.length (p_frags p) <= k)%nat -> nelectrons_pub p (Some k) = Err PyIndexError).
Proof.
  intros P. split; [reflexivity|]. split; intros k Hk; unfold nelectrons_pub.
  - apply Nat.ltb_lt in Hk. rewrite Hk, (nelectrons_frag_spec p k P). reflexivity.
  - apply Nat.ltb_ge in Hk. rewrite Hk. reflexivity.
Qed.

(** the repulsion terms with ifr: the whole molecule or the atoms of the fragment, so the real-only / rigid-motion /
    reordering theorems (stated for every atom list) apply to both *)
Theorem nre_terms_pub_spec p :
  nre_terms_pub p None = Ok (terms_from [] (p_atoms p))
  /\ (forall k, (k < List.length (p_frags p))%nat -> nre_terms_pub p (Some k) = Ok (terms_from [] (map (atom_at p) (frag_at p k)))).
Proof.
  split; [reflexivity|]. intros k Hk. unfold nre_terms_pub. apply Nat.ltb_lt in Hk. rewrite Hk. reflexivity.
Qed.

(** ---- formula glue ---- *)
(** the generated list of supported orders accepts exactly the names the model's parse_order accepts *)
Theorem order_supported_iff s : order_supported s = true <-> exists o, parse_order s = Ok o.
Proof.
  unfold order_supported, parse_order, lower, supported_orders. simpl.
  destruct (String.eqb (title_from true s) "alphabetical") eqn:A.
  - split; [intros _; eexists; reflexivity|reflexivity].
  - destruct (String.eqb (title_from true s) "hill") eqn:Hh.
    + split; [intros _; eexists; reflexivity|reflexivity].
    + split; [discriminate|intros [o X]; discriminate].
Qed.

(** Molecule.get_molecular_formula: with the default arguments it is the alphabetical formula of the molecule's symbols;
    with an order it is the formula in that order; chgmult leaves a neutral singlet alone *)
Theorem mol_formula_spec syms c m :
  mol_formula syms c m None None = Ok (formula Alphabetical syms)
  /\ (forall order b, (b = Some false \/ b = None \/ (c = 0 /\ m = 1)) -> mol_formula syms c m (Some order) b = formula_from_symbols syms order)
  /\ formula_from_symbols syms mffs_default_order = Ok (formula Alphabetical syms).
Proof.
  split; [reflexivity|]. split; [|reflexivity].
  intros order b Hb. unfold mol_formula. destruct (formula_from_symbols syms order) as [f|e]; simpl; [|reflexivity].
  destruct Hb as [->|[->|[-> ->]]]; simpl; try reflexivity. destruct b as [[|]|]; reflexivity.
Qed.
