(** C18 — wave 3: the full (arccos / arctan2 / degrees included) batched forms, one row broadcast against n rows,
    the entry points' keyword defaults, the strictness of the bond criterion at the boundary. *)
From Coq Require Import List Bool ZArith Field Ring Lia Reals.
Require Import QV.Common.Outcome QV.Common.Geo3 QV.Common.Geo3Np QV.Common.Geo3Facts QV.Common.Geo3Glue QV.Common.Geo3R.
Require Import QV.Gen.Dihedral QV.Model.Geometry QV.Gen.GeoGlue QV.Proofs.Geometry.
Import ListNotations.

Section AnyField.
  Variable K : Fops.
  Hypothesis Kf : is_field K.

  (* what one row of compute_angle / compute_dihedral returns, from the argument(s) of arccos / arctan2 *)
  Definition angle_of (dg : bool) (c : K) : K :=
    let a := fsub K (fpi K) (facos K c) in if dg then deg1 K a else a.
  Definition dihedral_of (dg : bool) (y x : K) : K :=
    let a := fatan2 K y x in if dg then deg1 K a else a.

  Lemma angle_batched_full {A} (g1 g2 g3 : A -> vec3 K) (l : list A) (dg : bool) :
    compute_angle K (A2 (map g1 l)) (A2 (map g2 l)) (A2 (map g3 l)) dg
    = Ok (A1 (map (fun r => angle_of dg (clip1 K (fopp K (f1 K)) (f1 K) (code_cos K (g1 r) (g2 r) (g3 r)))) l)).
  Proof.
    unfold compute_angle. rewrite (angle_pre_batched K). cbn. rewrite !map_map.
    destruct dg; unfold np_degrees, angle_of; cbn; rewrite ?map_map; reflexivity.
  Qed.

  Lemma dihedral_batched_full {A} (g1 g2 g3 g4 : A -> vec3 K) (l : list A) (dg : bool) :
    compute_dihedral K (A2 (map g1 l)) (A2 (map g2 l)) (A2 (map g3 l)) (A2 (map g4 l)) dg
    = Ok (A1 (map (fun r => dihedral_of dg (dihYc K (vsub (g2 r) (g1 r)) (vsub (g3 r) (g2 r)) (vsub (g4 r) (g3 r)))
                                           (dihXc K (vsub (g2 r) (g1 r)) (vsub (g3 r) (g2 r)) (vsub (g4 r) (g3 r)))) l)).
  Proof.
    unfold compute_dihedral. rewrite (dihedral_pre_batched K Kf). cbn.
    rewrite (bzip_map (fatan2 K)). cbn. destruct dg; unfold np_degrees, dihedral_of; cbn; rewrite ?map_map; reflexivity.
  Qed.

  (* one row (1,3) against n rows: the row is repeated *)
  Lemma bzip_one_l {B C} (f : vec3 K -> B -> C) (p : vec3 K) (l : list B) : bzip f [p] l = Ok (map (f p) l).
  Proof.
    unfold bzip. destruct l as [|b [|b' t]]; cbn; reflexivity.
  Qed.

  Lemma distance_broadcast {A} (p : vec3 K) (h : A -> vec3 K) (l : list A) :
    compute_distance K (A2 [p]) (A2 (map h l)) = Ok (A1 (map (fun r => tb_dist K p (h r)) l)).
  Proof.
    unfold compute_distance, py_norm. cbn. rewrite bzip_one_l. cbn. rewrite bzip_map_id. cbn.
    rewrite !map_map. unfold np_sqrt. cbn. rewrite !map_map. reflexivity.
  Qed.
End AnyField.

(** the entry points with their keyword defaults *)
Lemma measure_calls (K : Fops) (coords : list (vec3 K)) (ms : list (list Z)) (dg : option bool) :
  measure_coordinates_call K coords ms dg = measure K coords (match dg with Some d => d | None => false end) ms
  /\ molecule_measure_call K coords ms dg = measure K coords (match dg with Some d => d | None => true end) ms.
Proof. destruct dg; split; reflexivity. Qed.

Lemma kernel_defaults :
  compute_angle_degrees_default = false /\ compute_dihedral_degrees_default = false
  /\ guess_connectivity_threshold_default = (6%Z, 5%positive).
Proof. repeat split; reflexivity. Qed.

(** the bond criterion is strict: a pair at distance exactly thr (r_i + r_j) is NOT bonded *)
Lemma bonded_boundary_R (thr : R) (a b : atom RK) :
  sqrt (norm2 (vsub (fst a) (fst b))) = ((snd a + snd b) * thr)%R -> bonded RK thr a b = false.
Proof.
  intro H. unfold bonded. change (fsqrt RK) with sqrt. change (fltb RK) with Rltb. change (fadd RK) with Rplus. change (fmul RK) with Rmult.
  rewrite H. apply Rltb_false. apply Rle_refl.
Qed.
