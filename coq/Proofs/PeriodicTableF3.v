(** C01: the float mass of every key of the table is the correctly rounded double of its decimal. *)
From Coq Require Import ZArith List String Bool Lia.
Require Import QV.Common.Outcome QV.Common.PyAscii QV.Common.NearestDouble.
Require Import QV.Gen.PTable QV.Model.PeriodicTable QV.Model.PeriodicTableFloat.
Import ListNotations.
Open Scope Z_scope.

Lemma all_keys_float_ok : forallb key_float_ok pt_EA = true.
Proof. vm_cast_no_check (@eq_refl bool true). Qed.

Lemma key_float_nearest k m e :
  In k pt_EA -> key_mass_float k = Ok (m, e) ->
  exists c ex, key_mass_dec k = Ok (c, ex) /\
               ((c = 0 /\ m = 0 /\ e = 0) \/ (0 < c /\ nearest_spec c ex m e)).
Proof.
  intros I H. pose proof (proj1 (forallb_forall _ _) all_keys_float_ok _ I) as A.
  unfold key_float_ok in A. unfold key_mass_float in H.
  destruct (key_mass_dec k) as [[c ex]|]; [|discriminate]. cbn [obind] in H.
  exists c, ex. split; [reflexivity|].
  rewrite andb_true_iff, Z.leb_le in A. destruct A as [P A].
  unfold nearest_double in H.
  destruct (Z.eqb_spec c 0) as [->|NZ].
  - left. inversion H. auto.
  - right. cbn [orb] in A. rewrite andb_true_iff, Z.leb_le in A. destruct A as [N F].
    assert (C : 0 < c) by lia. split; [exact C|].
    apply Z.ltb_lt in C. rewrite C in H.
    pose proof (nearest_double_pos_spec c ex N F) as S.
    destruct (nearest_double_pos c ex) as [m' e']. inversion H; subst. exact S.
Qed.
