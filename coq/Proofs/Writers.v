(** C08 — proofs about Model/Writers.v (and the generated Gen/WriterTables.v). *)
From Coq Require Import ZArith List String Ascii Bool Lia.
Require Import QV.Common.Outcome QV.Common.WText QV.Common.WBin64 QV.Model.WriterTypes QV.Gen.WriterTables QV.Model.Writers.
Import ListNotations.
Open Scope Z_scope.

(* ------------------------------------------------------------------------------------------ *)
(** * reading structured lines *)
Definition line_atom (l : line) : option atom_view :=
  match l with LAtom v | LSdfAtom v => Some v | _ => None end.
(** the atom lines of a text, in order *)
Definition atom_entries (ls : list line) : list atom_view :=
  flat_map (fun l => match line_atom l with Some v => [v] | None => [] end) ls.

Lemma atom_entries_app a b : atom_entries (a ++ b) = atom_entries a ++ atom_entries b.
Proof. apply flat_map_app. Qed.
Lemma atom_entries_LAtom l : atom_entries (map LAtom l) = l.
Proof. induction l as [|x l IH]; [reflexivity|]. cbn. f_equal. exact IH. Qed.
Lemma atom_entries_LSdfAtom l : atom_entries (map LSdfAtom l) = l.
Proof. induction l as [|x l IH]; [reflexivity|]. cbn. f_equal. exact IH. Qed.
Lemma atom_entries_texts {A} (f : A -> string) l : atom_entries (map (fun b => LText (f b)) l) = [].
Proof. induction l as [|x l IH]; [reflexivity|]. cbn. exact IH. Qed.
Lemma atom_entries_cons_text s r : atom_entries (LText s :: r) = atom_entries r.
Proof. reflexivity. Qed.
Lemma atom_entries_cons_cm p c m q r : atom_entries (LChgMult p c m q :: r) = atom_entries r.
Proof. reflexivity. Qed.
Lemma atom_entries_cons_sep r : atom_entries (LSep :: r) = atom_entries r.
Proof. reflexivity. Qed.
Lemma atom_entries_if_text (b : bool) s : atom_entries (if b then [LText s] else []) = [].
Proof. destruct b; reflexivity. Qed.

(* ------------------------------------------------------------------------------------------ *)
(** * _atoms_formatter lists each visible atom once, in order, spelled by the applicable template,
      with each coordinate multiplied by the factor *)
Definition is_view (af gf : string) (f : b64) (a : atom) (v : atom_view) : Prop :=
  py_format (if a_real a then af else gf) a = Ok (av_label v)
  /\ av_x v = b64mul (a_x a) f /\ av_y v = b64mul (a_y a) f /\ av_z v = b64mul (a_z a) f.

Lemma obind_ok {A B} (x : outcome A) (g : A -> outcome B) r :
  obind x g = Ok r -> exists a, x = Ok a /\ g a = Ok r.
Proof. destruct x; simpl; intro H; [eauto | discriminate]. Qed.

Lemma atoms_formatter_views af gf f l vs :
  atoms_formatter af gf f l = Ok vs -> Forall2 (is_view af gf f) (filter (visible gf) l) vs.
Proof.
  revert vs; induction l as [|a l IH]; intros vs H; simpl in H.
  - inversion H; constructor.
  - unfold visible at 1. simpl. fold (visible gf).
    destruct (a_real a) eqn:R; simpl.
    + apply obind_ok in H as [lbl [Hl H]]. apply obind_ok in H as [vs' [Hv H]]. inversion H; subst.
      constructor; [|apply IH; assumption]. unfold is_view, convert; simpl. rewrite R. auto.
    + destruct (s_eqb gf "") eqn:G; simpl.
      * apply IH; assumption.
      * apply obind_ok in H as [lbl [Hl H]]. apply obind_ok in H as [vs' [Hv H]]. inversion H; subst.
        constructor; [|apply IH; assumption]. unfold is_view, convert; simpl. rewrite R. auto.
Qed.

(* ------------------------------------------------------------------------------------------ *)
(** * np.split on non-decreasing separators partitions the list *)
Fixpoint mono (start : nat) (seps : list nat) : Prop :=
  match seps with [] => True | s :: r => (start <= s)%nat /\ mono s r end.

Lemma skipn_add {A} (l : list A) : forall b a, skipn a (skipn b l) = skipn (b + a) l.
Proof.
  induction l as [|x l IH]; intros b a.
  - now rewrite !skipn_nil.
  - destruct b; simpl; [reflexivity|]. apply IH.
Qed.

Lemma np_split_from_concat {A} (l : list A) seps : forall start,
  mono start seps -> List.concat (np_split_from l start seps) = skipn start l.
Proof.
  induction seps as [|s r IH]; intros start H; simpl.
  - apply app_nil_r.
  - destruct H as [Hle Hm]. rewrite IH by assumption. unfold slice.
    replace (skipn s l) with (skipn (s - start) (skipn start l)).
    + apply firstn_skipn.
    + rewrite skipn_add. f_equal. lia.
Qed.
Lemma np_split_concat {A} (l : list A) seps : mono 0 seps -> List.concat (np_split l seps) = l.
Proof. intro H. unfold np_split. now rewrite np_split_from_concat. Qed.

Lemma np_split_from_length {A} (l : list A) seps start :
  List.length (np_split_from l start seps) = S (List.length seps).
Proof. revert start; induction seps as [|s r IH]; intros; simpl; [reflexivity|]. now rewrite IH. Qed.

(** the blocks of a multi-fragment body *)
Fixpoint blocks_spec (frs : list (list atom_view)) (i : nat) (fc fm : list Z) : option (list line) :=
  match frs with
  | [] => Some []
  | fr :: r =>
      match nth_error fc i, nth_error fm i, blocks_spec r (S i) fc fm with
      | Some c, Some mu, Some t => Some (LSep :: LChgMult "" c mu "" :: map LAtom fr ++ t)
      | _, _, _ => None
      end
  end.

Lemma frag_blocks_entries frs : forall i fc fm body,
  frag_blocks frs i fc fm = Ok body -> atom_entries body = List.concat frs.
Proof.
  induction frs as [|fr r IH]; intros i fc fm body H; simpl in H.
  - inversion H; reflexivity.
  - destruct (nth_error fc i); [|discriminate]. destruct (nth_error fm i); [|discriminate].
    apply obind_ok in H as [t [Ht H]]. inversion H; subst. simpl.
    change (atom_entries (map LAtom fr ++ t) = fr ++ List.concat r).
    rewrite atom_entries_app, atom_entries_LAtom. f_equal. eapply IH; eassumption.
Qed.

Lemma fragment_lines_entries m atoms body :
  mono 0 (m_seps m) -> fragment_lines m atoms = Ok body -> atom_entries body = atoms.
Proof.
  intros Hm H. unfold fragment_lines in H.
  pose proof (np_split_concat atoms (m_seps m) Hm) as Hc.
  destruct (np_split atoms (m_seps m)) as [|fr [|fr2 rest]] eqn:E.
  - apply frag_blocks_entries in H. now rewrite H.
  - simpl in Hc. rewrite app_nil_r in Hc. inversion H. rewrite atom_entries_LAtom. exact Hc.
  - apply frag_blocks_entries in H. now rewrite H.
Qed.

(** every fragment of a multi-fragment molecule is introduced by "--" and its own charge and
    multiplicity, followed by its atoms *)
Lemma frag_blocks_structure frs : forall i fc fm body,
  frag_blocks frs i fc fm = Ok body ->
  forall k fr, nth_error frs k = Some fr ->
    exists c mu pre post, nth_error fc (i + k) = Some c /\ nth_error fm (i + k) = Some mu
      /\ body = pre ++ (LSep :: LChgMult "" c mu "" :: map LAtom fr) ++ post
      /\ atom_entries pre = List.concat (firstn k frs).
Proof.
  induction frs as [|fr0 r IH]; intros i fc fm body H k fr Hk.
  - destruct k; discriminate.
  - simpl in H. destruct (nth_error fc i) as [c0|] eqn:E1; [|discriminate].
    destruct (nth_error fm i) as [m0|] eqn:E2; [|discriminate].
    apply obind_ok in H as [t [Ht H]]. inversion H; subst; clear H.
    destruct k as [|k].
    + simpl in Hk. inversion Hk; subst. exists c0, m0, [], t. rewrite Nat.add_0_r. repeat split; auto.
    + simpl in Hk. destruct (IH _ _ _ _ Ht _ _ Hk) as [c [mu [pre [post [H1 [H2 [H3 H4]]]]]]].
      exists c, mu, (LSep :: LChgMult "" c0 m0 "" :: map LAtom fr0 ++ pre), post.
      replace (i + S k)%nat with (S i + k)%nat by lia. repeat split; auto.
      * rewrite H3. simpl. now rewrite <- app_assoc.
      * simpl. change (atom_entries (map LAtom fr0 ++ pre) = fr0 ++ List.concat (firstn k r)).
        now rewrite atom_entries_app, atom_entries_LAtom, H4.
Qed.

(* ------------------------------------------------------------------------------------------ *)
(** * every branch lists the formatted atoms, nothing else, in order *)
Ltac inv_obind H :=
  repeat match type of H with
         | obind ?x _ = Ok _ => let a := fresh "a" in let E := fresh "E" in
                                 apply obind_ok in H as [a [E H]]
         end.

Lemma branch_lines_entries e cfg m atoms ls :
  mono 0 (m_seps m) -> branch_lines e cfg m atoms = Ok ls -> atom_entries ls = atoms.
Proof.
  intros Hm H. unfold branch_lines in H.
  repeat match type of H with
         | (if ?c then _ else _) = Ok _ => destruct c
         end; try discriminate; inv_obind H;
    try (inversion H; subst; clear H; simpl;
         repeat (rewrite ?atom_entries_app, ?atom_entries_LAtom, ?atom_entries_cons_text, ?atom_entries_cons_cm,
                 ?atom_entries_if_text; simpl);
         rewrite ?app_nil_r; try reflexivity).
  - (* molpro *)
    destruct (m_fix_symm m) as [s|]; [destruct (s_eqb s "c1")|]; destruct (ghost_indices (m_atoms m) 1); simpl;
      repeat (rewrite ?atom_entries_app, ?atom_entries_LAtom; simpl); rewrite ?app_nil_r; reflexivity.
  - (* psi4 *)
    destruct (m_fix_com m), (m_fix_orient m); simpl; rewrite ?app_nil_r; eapply fragment_lines_entries; eassumption.
  - (* qchem *)
    eapply fragment_lines_entries; eassumption.
Qed.

(* ------------------------------------------------------------------------------------------ *)
(** * to_lines: atoms listed once, in order *)
Definition af_of (e : wt_entry) (cfg : wcfg) : string := pick_format (wt_afmt e) (wt_afmode e) (w_afmt cfg).
Definition gf_of (e : wt_entry) (cfg : wcfg) : string := pick_format (wt_gfmt e) (wt_gfmode e) (w_gfmt cfg).

Definition listed_spec (cfg : wcfg) (m : molrec) (e : wt_entry) (ls : list line) : Prop :=
  let f := factor_of e cfg m in
  if s_eqb (s_lower (w_dtype cfg)) "nglview-sdf"
  then atom_entries ls = map (fun a => convert f a (if a_real a then a_elem a else gf_of e cfg)) (m_atoms m)
  else Forall2 (is_view (af_of e cfg) (gf_of e cfg) f) (filter (visible (gf_of e cfg)) (m_atoms m)) (atom_entries ls).

Lemma to_lines_listed cfg m ls kw e :
  wt_find (s_lower (w_dtype cfg)) wt_table = Some e ->
  mono 0 (m_seps m) -> to_lines cfg m = Ok (ls, kw) -> listed_spec cfg m e ls.
Proof.
  intros F Hm H. unfold to_lines in H. rewrite F in H. unfold listed_spec.
  destruct (s_eqb (s_lower (w_dtype cfg)) "nglview-sdf").
  - destruct (negb _); [discriminate|]. inversion H; subst; clear H.
    cbn [app]. rewrite !atom_entries_cons_text, atom_entries_app, atom_entries_LSdfAtom, atom_entries_texts.
    now rewrite app_nil_r.
  - inv_obind H. inversion H; subst; clear H.
    destruct (wt_formatter e); [|discriminate].
    apply atoms_formatter_views in E0. apply branch_lines_entries in E1; [|assumption]. now rewrite E1.
Qed.

Lemma Forall2_length_eq {A B} (R : A -> B -> Prop) l l' : Forall2 R l l' -> List.length l = List.length l'.
Proof. induction 1; simpl; congruence. Qed.

(* ------------------------------------------------------------------------------------------ *)
(** * table lookups *)
Lemma wt_find_in d t e : wt_find d t = Some e -> In e t /\ wt_dtype e = d.
Proof.
  induction t as [|x t IH]; simpl; [discriminate|]. destruct (s_eqb (wt_dtype x) d) eqn:E.
  - intro H; inversion H; subst. split; [now left|]. now apply String.eqb_eq.
  - intro H. destruct (IH H). split; [now right | assumption].
Qed.

Fixpoint kw_keys_nodup (l : list (kcond * string * kexpr)) : bool :=
  match l with
  | [] => true
  | (_, k, _) :: r => negb (existsb (fun t : kcond * string * kexpr => s_eqb (snd (fst t)) k) r) && kw_keys_nodup r
  end.

(** an entry of the keyword table whose condition holds ends up in the dictionary with its value *)
Lemma kw_eval_has e units m at_ l : forall kw,
  kw_eval e units m at_ l = Ok kw -> kw_keys_nodup l = true ->
  forall c k x, In (c, k, x) l -> kcond_holds c m = true ->
    exists v, kexpr_eval e units m at_ x = Ok v /\ kw_get k kw = Some v.
Proof.
  induction l as [|[[c0 k0] x0] r IH]; intros kw H Hn c k x Hin Hc; [destruct Hin|].
  simpl in H, Hn. apply andb_true_iff in Hn as [Hn1 Hn2].
  destruct Hin as [Heq|Hin].
  - inversion Heq; subst. rewrite Hc in H. inv_obind H. inversion H; subst. exists a. split; [assumption|].
    simpl. unfold s_eqb. now rewrite String.eqb_refl.
  - destruct (kcond_holds c0 m).
    + inv_obind H. inversion H; subst. destruct (IH _ E0 Hn2 _ _ _ Hin Hc) as [v [Hv Hg]].
      exists v. split; [assumption|]. simpl.
      destruct (s_eqb k0 k) eqn:Ek; [|assumption].
      exfalso. apply negb_true_iff in Hn1. rewrite <- not_true_iff_false in Hn1. apply Hn1.
      apply existsb_exists. exists (c, k, x). split; [assumption|]. simpl.
      unfold s_eqb in *. rewrite String.eqb_sym. exact Ek.
    + eapply IH; eassumption.
Qed.

(** a key none of whose entries' conditions hold is absent *)
Lemma kw_eval_absent e units m at_ l : forall kw k,
  kw_eval e units m at_ l = Ok kw ->
  (forall c x, In (c, k, x) l -> kcond_holds c m = false) -> kw_get k kw = None.
Proof.
  induction l as [|[[c0 k0] x0] r IH]; intros kw k H Hall; simpl in H.
  - inversion H; reflexivity.
  - destruct (kcond_holds c0 m) eqn:Hc.
    + inv_obind H. inversion H; subst. simpl. destruct (s_eqb k0 k) eqn:Ek.
      * apply String.eqb_eq in Ek; subst. rewrite (Hall c0 x0) in Hc; [discriminate | now left].
      * eapply IH; [eassumption|]. intros; eapply Hall; right; eassumption.
    + eapply IH; [eassumption|]. intros; eapply Hall; right; eassumption.
Qed.

(* ------------------------------------------------------------------------------------------ *)
(** * charge and multiplicity are stated *)
Local Notation "s1 +++ s2" := (String.append s1 s2) (at level 60, right associativity).

Definition kw_has (kw : keywords) (k : string) (v : kval) : Prop := kw_get k kw = Some v.

(** where the text of each program states total charge and multiplicity (hand-written) *)
Definition chgmult_text_spec (d : string) (m : molrec) (ls : list line) : Prop :=
  let c := m_chg m in
  let mu := m_mult m in
  if s_eqb d "xyz" || s_eqb d "xyz+" then nth_error ls 1 = Some (LChgMult "" c mu (" " +++ mol_name m))
  else if s_eqb d "orca" then nth_error ls 2 = Some (LChgMult "*xyz " c mu "")
  else if s_eqb d "cfour" then True
  else if s_eqb d "molpro" then
    In (LText ("set,charge=" +++ dec_of_Z c +++ ".0")) ls /\ In (LText ("set,spin=" +++ dec_of_Z (mu - 1))) ls
  else if s_eqb d "nwchem" then True
  else if s_eqb d "madness" then True
  else if s_eqb d "gamess" then True
  else if s_eqb d "terachem" then True
  else if s_eqb d "psi4" then nth_error ls 0 = Some (LChgMult "" c mu "")
  else if s_eqb d "turbomole" then True
  else if s_eqb d "qchem" then nth_error ls 1 = Some (LChgMult "" c mu "")
  else if s_eqb d "mrchem" then
    nth_error ls 1 = Some (LText ("charge = " +++ dec_of_Z c)) /\ nth_error ls 2 = Some (LText ("multiplicity = " +++ dec_of_Z mu))
  else True.

Lemma branch_lines_chgmult e cfg m atoms ls :
  branch_lines e cfg m atoms = Ok ls -> chgmult_text_spec (wt_dtype e) m ls.
Proof.
  unfold branch_lines, chgmult_text_spec.
  repeat match goal with
         | |- (if ?c then _ else _) = Ok _ -> _ => destruct c
         end; intro H; try exact I; try discriminate; inv_obind H; inversion H; subst; clear H; try reflexivity.
  - (* molpro *) split; repeat first [ apply in_eq | apply in_cons | (apply in_or_app; right) ].
  - (* mrchem *) split; reflexivity.
Qed.

(** where the keyword dictionary states them (hand-written) *)
Definition chgmult_kw_spec (d : string) (m : molrec) (kw : keywords) : Prop :=
  let c := m_chg m in
  let mu := m_mult m in
  if s_eqb d "cfour" then kw_has kw "charge" (KVInt c) /\ kw_has kw "multiplicity" (KVInt mu)
  else if s_eqb d "nwchem" then
    kw_has kw "charge" (KVInt c)
    /\ (mu <> 1 -> kw_has kw "dft__mult" (KVInt mu) /\ kw_has kw "scf__nopen" (KVInt (mu - 1)) /\ kw_has kw "mcscf__multiplicity" (KVInt mu))
    /\ (mu = 1 -> kw_get "dft__mult" kw = None /\ kw_get "scf__nopen" kw = None /\ kw_get "mcscf__multiplicity" kw = None)
  else if s_eqb d "madness" then
    kw_has kw "charge" (KVInt c)
    /\ (mu <> 1 -> kw_has kw "spin_restricted" (KVStr "false")) /\ (mu = 1 -> kw_get "spin_restricted" kw = None)
  else if s_eqb d "gamess" then kw_has kw "contrl__icharg" (KVInt c) /\ kw_has kw "contrl__mult" (KVInt mu)
  else if s_eqb d "mrchem" then kw_has kw "charge" (KVInt c) /\ kw_has kw "multiplicity" (KVInt mu)
  else True.

Ltac kwfact H c k x Hc :=
  let v := fresh "v" in let Hv := fresh "Hv" in let Hg := fresh "Hg" in
  destruct (kw_eval_has _ _ _ _ _ _ H eq_refl c k x ltac:(simpl; auto 10) Hc) as [v [Hv Hg]];
  simpl in Hv; inversion Hv; subst; exact Hg.

Ltac kwabsent H :=
  eapply kw_eval_absent; [exact H|];
  let c := fresh in let x := fresh in let Hin := fresh in
  intros c x Hin; simpl in Hin;
  repeat (destruct Hin as [Hin|Hin]; [inversion Hin; subst; simpl; try assumption; try discriminate|]);
  try destruct Hin.

Lemma mult_cond_true m : m_mult m <> 1 -> kcond_holds CMultNe1 m = true.
Proof. intro H. simpl. apply negb_true_iff. now apply Z.eqb_neq. Qed.
Lemma mult_cond_false m : m_mult m = 1 -> kcond_holds CMultNe1 m = false.
Proof. intro H. simpl. rewrite H. reflexivity. Qed.

Lemma table_kw_chgmult e units m at_ kw :
  In e wt_table -> kw_eval e units m at_ (wt_kw e) = Ok kw -> chgmult_kw_spec (wt_dtype e) m kw.
Proof.
  intros Hin H. simpl in Hin.
  repeat (destruct Hin as [<-|Hin]; [unfold chgmult_kw_spec; cbn -[kw_eval kw_get] in *; try exact I|]); try destruct Hin.
  - (* cfour *) split; [kwfact H CAlways "charge"%string KCharge (eq_refl true) | kwfact H CAlways "multiplicity"%string KMult (eq_refl true)].
  - (* nwchem *) split; [kwfact H CAlways "charge"%string KCharge (eq_refl true)|]. split.
    + intro Hne. pose proof (mult_cond_true m Hne) as Hc. repeat split.
      * kwfact H CMultNe1 "dft__mult"%string KMult Hc.
      * kwfact H CMultNe1 "scf__nopen"%string KMultM1 Hc.
      * kwfact H CMultNe1 "mcscf__multiplicity"%string KMult Hc.
    + intro He. pose proof (mult_cond_false m He) as Hc. repeat split; kwabsent H.
  - (* madness *) split; [kwfact H CAlways "charge"%string KCharge (eq_refl true)|]. split.
    + intro Hne. pose proof (mult_cond_true m Hne) as Hc. kwfact H CMultNe1 "spin_restricted"%string (KConstS "false") Hc.
    + intro He. pose proof (mult_cond_false m He) as Hc. kwabsent H.
  - (* gamess *) split; [kwfact H CAlways "contrl__icharg"%string KCharge (eq_refl true) | kwfact H CAlways "contrl__mult"%string KMult (eq_refl true)].
  - (* mrchem *) split; [kwfact H CAlways "charge"%string KCharge (eq_refl true) | kwfact H CAlways "multiplicity"%string KMult (eq_refl true)].
Qed.

Definition chgmult_stated (d : string) (m : molrec) (ls : list line) (kw : keywords) : Prop :=
  chgmult_text_spec d m ls /\ chgmult_kw_spec d m kw.

Lemma to_lines_chgmult cfg m ls kw :
  to_lines cfg m = Ok (ls, kw) -> chgmult_stated (s_lower (w_dtype cfg)) m ls kw.
Proof.
  intro H. unfold to_lines in H.
  destruct (wt_find (s_lower (w_dtype cfg)) wt_table) as [e|] eqn:F; [|discriminate].
  apply wt_find_in in F as [Hin Hd].
  destruct (s_eqb (s_lower (w_dtype cfg)) "nglview-sdf") eqn:S.
  - apply String.eqb_eq in S. rewrite S. split; exact I.
  - inv_obind H. inversion H; subst ls kw; clear H. rewrite <- Hd. split.
    + eapply branch_lines_chgmult; eassumption.
    + eapply table_kw_chgmult; eassumption.
Qed.

(* ------------------------------------------------------------------------------------------ *)
(** * fragment blocks (psi4, qchem) *)
Lemma fragment_lines_multi m atoms body :
  m_seps m <> [] -> fragment_lines m atoms = Ok body ->
  frag_blocks (np_split atoms (m_seps m)) 0 (m_fchg m) (m_fmult m) = Ok body.
Proof.
  intros Hs H. unfold fragment_lines in H.
  pose proof (np_split_from_length atoms (m_seps m) 0) as L. fold (np_split atoms (m_seps m)) in L.
  destruct (np_split atoms (m_seps m)) as [|fr [|fr2 rest]] eqn:E; try assumption.
  destruct (m_seps m); [contradiction | discriminate].
Qed.

Lemma branch_lines_fragments e cfg m atoms ls :
  (wt_dtype e = "psi4"%string \/ wt_dtype e = "qchem"%string) -> m_seps m <> [] ->
  branch_lines e cfg m atoms = Ok ls ->
  forall k fr, nth_error (np_split atoms (m_seps m)) k = Some fr ->
    exists c mu pre post,
      nth_error (m_fchg m) k = Some c /\ nth_error (m_fmult m) k = Some mu
      /\ ls = pre ++ (LSep :: LChgMult "" c mu "" :: map LAtom fr) ++ post
      /\ atom_entries pre = List.concat (firstn k (np_split atoms (m_seps m))).
Proof.
  intros Hd Hs H k fr Hk. unfold branch_lines in H.
  destruct Hd as [Hd|Hd]; rewrite Hd in H; cbn -[fragment_lines unit_label] in H; inv_obind H; inversion H; subst; clear H.
  - apply fragment_lines_multi in E; [|assumption].
    destruct (frag_blocks_structure _ _ _ _ _ E _ _ Hk) as [c [mu [pre [post [H1 [H2 [H3 H4]]]]]]].
    exists c, mu, (LChgMult "" (m_chg m) (m_mult m) "" :: pre).
    eexists. repeat split; try eassumption.
    rewrite H3. repeat (progress (rewrite <- ?app_assoc; cbn [app])). reflexivity.
  - apply fragment_lines_multi in E; [|assumption].
    destruct (frag_blocks_structure _ _ _ _ _ E _ _ Hk) as [c [mu [pre [post [H1 [H2 [H3 H4]]]]]]].
    exists c, mu, (LText "$molecule" :: LChgMult "" (m_chg m) (m_mult m) "" :: pre).
    eexists. repeat split; try eassumption.
    rewrite H3. repeat (progress (rewrite <- ?app_assoc; cbn [app])). reflexivity.
Qed.

Lemma to_lines_fragments cfg m ls kw :
  (s_lower (w_dtype cfg) = "psi4"%string \/ s_lower (w_dtype cfg) = "qchem"%string) ->
  mono 0 (m_seps m) -> m_seps m <> [] -> to_lines cfg m = Ok (ls, kw) ->
  forall k fr, nth_error (np_split (atom_entries ls) (m_seps m)) k = Some fr ->
    exists c mu pre post,
      nth_error (m_fchg m) k = Some c /\ nth_error (m_fmult m) k = Some mu
      /\ ls = pre ++ (LSep :: LChgMult "" c mu "" :: map LAtom fr) ++ post
      /\ atom_entries pre = List.concat (firstn k (np_split (atom_entries ls) (m_seps m))).
Proof.
  intros Hd Hm Hs H. unfold to_lines in H.
  destruct (wt_find (s_lower (w_dtype cfg)) wt_table) as [e|] eqn:F; [|discriminate].
  apply wt_find_in in F as [Hin He].
  destruct (s_eqb (s_lower (w_dtype cfg)) "nglview-sdf") eqn:S.
  - apply String.eqb_eq in S. destruct Hd as [Hd|Hd]; rewrite Hd in S; discriminate.
  - inv_obind H. inversion H; subst ls kw; clear H.
    rewrite (branch_lines_entries _ _ _ _ _ Hm E1).
    eapply branch_lines_fragments; try eassumption. now rewrite He.
Qed.

(* ------------------------------------------------------------------------------------------ *)
(** * units: what is announced is what is written *)
Inductive lunit := UBohr | UAngstrom | UNm | UPm.

(** the meaning of each program's unit word (hand-written; independent of to_string.py) *)
Definition denotes (d word : string) : option lunit :=
  if s_eqb d "xyz" || s_eqb d "xyz+" then
    if s_eqb word "" then Some UAngstrom else if s_eqb word "au" then Some UBohr
    else if s_eqb word "nm" then Some UNm else if s_eqb word "pm" then Some UPm else None
  else if s_eqb d "terachem" then
    if s_eqb word "" then Some UAngstrom else if s_eqb word "au" then Some UBohr else None
  else if s_eqb d "orca" then
    if s_eqb word "! Bohrs" then Some UBohr else if s_eqb word "!" then Some UAngstrom else None
  else if s_eqb d "cfour" || s_eqb d "molpro" || s_eqb d "psi4" then
    if s_eqb word "bohr" then Some UBohr else if s_eqb word "angstrom" then Some UAngstrom else None
  else if s_eqb d "nwchem" then
    if s_eqb word "bohr" then Some UBohr else if s_eqb word "angstroms" then Some UAngstrom
    else if s_eqb word "nanometers" then Some UNm else if s_eqb word "picometers" then Some UPm else None
  else if s_eqb d "madness" then
    if s_eqb word "au" then Some UBohr else if s_eqb word "angstrom" then Some UAngstrom else None
  else if s_eqb d "gamess" then
    if s_eqb word "bohr" then Some UBohr else if s_eqb word "angs" then Some UAngstrom else None
  else if s_eqb d "qchem" then                      (* input_bohr *)
    if s_eqb word "True" then Some UBohr else if s_eqb word "False" then Some UAngstrom else None
  else if s_eqb d "turbomole" then                  (* coord files are in Bohr; the word is only checked, never printed *)
    if s_eqb word "bohr" then Some UBohr else None
  else None.

(** stored unit -> unit U (hand-written specification of the conversion): the identity, the CODATA
    Bohr radius in Angstrom, its reciprocal — or the molecule's own pinned input_units_to_au —, and for
    nm/pm whatever constants.conversion_factor answers (external) *)
Definition conv_spec (stored : string) (U : lunit) (iutau : option b64) (conv : b64) : b64 :=
  match U with
  | UBohr => if s_eqb stored "Bohr" then b64_one
             else match iutau with Some v => v | None => b64div b64_one c_bohr2angstroms end
  | UAngstrom => if s_eqb stored "Angstrom" then b64_one else c_bohr2angstroms
  | UNm | UPm => conv
  end.

(** the requested-unit spellings the property quantifies over *)
Definition unit_of_request (units : string) : option lunit :=
  let k := s_lower units in
  if s_eqb k "bohr" then Some UBohr else if s_eqb k "angstrom" then Some UAngstrom
  else if s_eqb k "nm" then Some UNm else if s_eqb k "pm" then Some UPm else None.

Lemma c_upper_lower c : c_upper (c_lower c) = c_upper c.
Proof. destruct c as [[] [] [] [] [] [] [] []]; reflexivity. Qed.
Lemma c_lower_idem c : c_lower (c_lower c) = c_lower c.
Proof. destruct c as [[] [] [] [] [] [] [] []]; reflexivity. Qed.
Lemma s_lower_idem s : s_lower (s_lower s) = s_lower s.
Proof. induction s as [|c r IH]; simpl; [reflexivity|]. now rewrite c_lower_idem, IH. Qed.
Lemma capitalize_of_lower s : s_capitalize (s_lower s) = s_capitalize s.
Proof. destruct s as [|c r]; simpl; [reflexivity|]. now rewrite c_upper_lower, s_lower_idem. Qed.

Lemma cap_from_lower u k : s_lower u = k -> s_capitalize u = s_capitalize k.
Proof. intros <-. symmetry. apply capitalize_of_lower. Qed.

(** the unit-factor branch of to_string.py is the stored -> requested conversion, for every spelling
    (any letter case) of bohr / angstrom / nm / pm, both stored units, pinned or not *)
Lemma factor_table stored units iutau conv U :
  (stored = "Bohr"%string \/ stored = "Angstrom"%string) -> unit_of_request units = Some U ->
  gen_factor stored units iutau conv = conv_spec stored U iutau conv.
Proof.
  intros Hs Hu. unfold unit_of_request in Hu.
  destruct (s_eqb (s_lower units) "bohr") eqn:E1; [|
  destruct (s_eqb (s_lower units) "angstrom") eqn:E2; [|
  destruct (s_eqb (s_lower units) "nm") eqn:E3; [|
  destruct (s_eqb (s_lower units) "pm") eqn:E4; [|discriminate]]]];
    inversion Hu; subst U; clear Hu;
    match goal with E : s_eqb (s_lower units) ?k = true |- _ =>
      apply String.eqb_eq in E; apply cap_from_lower in E; cbn in E end;
    unfold gen_factor; match goal with E : s_capitalize units = _ |- _ => rewrite E end;
    destruct Hs as [-> | ->]; destruct iutau; reflexivity.
Qed.

(** the word each branch looks up for a requested unit, and its meaning *)
Lemma announced_unit_is_written_unit e units lbl U stored iutau conv :
  In e wt_table -> (stored = "Bohr"%string \/ stored = "Angstrom"%string) ->
  unit_of_request units <> None ->
  unit_label e units = Ok (Some lbl) -> denotes (wt_dtype e) lbl = Some U ->
  gen_factor stored units iutau conv = conv_spec stored U iutau conv.
Proof.
  intros Hin Hs Hreq Hl Hd.
  assert (K : s_lower units = "bohr"%string \/ s_lower units = "angstrom"%string \/ s_lower units = "nm"%string
              \/ s_lower units = "pm"%string).
  { unfold unit_of_request in Hreq.
    destruct (s_eqb (s_lower units) "bohr") eqn:E1; [apply String.eqb_eq in E1; auto|].
    destruct (s_eqb (s_lower units) "angstrom") eqn:E2; [apply String.eqb_eq in E2; auto|].
    destruct (s_eqb (s_lower units) "nm") eqn:E3; [apply String.eqb_eq in E3; auto|].
    destruct (s_eqb (s_lower units) "pm") eqn:E4; [apply String.eqb_eq in E4; auto 6|].
    contradiction. }
  unfold unit_label in Hl. cbv zeta in Hl. simpl in Hin.
  destruct K as [K|[K|[K|K]]]; rewrite K in Hl;
    repeat (destruct Hin as [<-|Hin]; [
      vm_compute in Hl; first [ discriminate | inversion Hl; subst lbl; clear Hl;
      vm_compute in Hd; first [ discriminate | inversion Hd; subst U; clear Hd;
      apply factor_table; [assumption|]; unfold unit_of_request; rewrite K; reflexivity ] ] |]);
    destruct Hin.
Qed.

(* ------------------------------------------------------------------------------------------ *)
(** * where the unit word is written *)
Definition unit_text_spec (e : wt_entry) (cfg : wcfg) (ls : list line) : Prop :=
  let d := wt_dtype e in
  let L := fun P : string -> Prop => exists lbl, unit_label e (units_of e cfg) = Ok lbl /\ P (show_opt lbl) in
  if s_eqb d "xyz" || s_eqb d "xyz+" then L (fun w => exists n, nth_error ls 0 = Some (LText (s_rstrip (dec_of_Z n +++ " " +++ w))))
  else if s_eqb d "orca" then L (fun w => nth_error ls 0 = Some (LText w))
  else if s_eqb d "cfour" then True
  else if s_eqb d "molpro" then L (fun w => In (LText ("{" +++ w +++ "}")) ls)
  else if s_eqb d "nwchem" then L (fun w => nth_error ls 0 = Some (LText ("geometry units " +++ w)))
  else if s_eqb d "madness" then L (fun w => nth_error ls 1 = Some (LText ("units " +++ w)))
  else if s_eqb d "gamess" then True
  else if s_eqb d "terachem" then L (fun w => exists n, nth_error ls 0 = Some (LText (s_rstrip (dec_of_Z n +++ " " +++ w))))
  else if s_eqb d "psi4" then L (fun w => In (LText ("units " +++ w)) ls)
  else True.

Lemma branch_lines_unit_text e cfg m atoms ls :
  branch_lines e cfg m atoms = Ok ls -> unit_text_spec e cfg ls.
Proof.
  unfold branch_lines, unit_text_spec.
  repeat match goal with
         | |- (if ?c then _ else _) = Ok _ -> _ => destruct c
         end; intros H; try exact I; try discriminate; inv_obind H; inversion H; subst; clear H;
    try (eexists; split; [eassumption|]); try reflexivity; try (eexists; reflexivity).
  - (* molpro *) repeat first [ apply in_eq | apply in_cons | (apply in_or_app; right) ].
  - (* psi4 *) repeat first [ apply in_eq | apply in_cons | (apply in_or_app; right) ].
Qed.

Definition unit_kw_value (lbl : option string) : kval := match lbl with Some v => KVStr v | None => KVNone end.
Definition unit_kw_spec (d : string) (lbl : option string) (kw : keywords) : Prop :=
  if s_eqb d "cfour" then kw_has kw "units" (unit_kw_value lbl)
  else if s_eqb d "gamess" then kw_has kw "contrl__units" (unit_kw_value lbl)
  else if s_eqb d "qchem" then kw_has kw "input_bohr" (unit_kw_value lbl)
  else True.

Lemma table_kw_units e units m at_ kw :
  In e wt_table -> kw_eval e units m at_ (wt_kw e) = Ok kw ->
  (wt_dtype e = "cfour" \/ wt_dtype e = "gamess" \/ wt_dtype e = "qchem")%string ->
  exists lbl, unit_label e units = Ok lbl /\ unit_kw_spec (wt_dtype e) lbl kw.
Proof.
  intros Hin H Hd. simpl in Hin.
  repeat (destruct Hin as [<-|Hin]; [cbn -[kw_eval kw_get] in Hd; try (destruct Hd as [Hd|[Hd|Hd]]; discriminate)|]);
    try destruct Hin; clear Hd.
  - (* cfour *)
    destruct (kw_eval_has _ _ _ _ _ _ H eq_refl CAlways "units"%string KUnitsGet ltac:(simpl; auto 10) eq_refl) as [v [Hv Hg]].
    unfold unit_label, unit_kw_spec. cbn -[kw_get assoc s_lower] in *.
    destruct (assoc (s_lower units) _) as [w|]; inversion Hv; subst; eexists; split; try reflexivity; exact Hg.
  - (* gamess *)
    destruct (kw_eval_has _ _ _ _ _ _ H eq_refl CAlways "contrl__units"%string KUnitsGet ltac:(simpl; auto 10) eq_refl) as [v [Hv Hg]].
    unfold unit_label, unit_kw_spec. cbn -[kw_get assoc s_lower] in *.
    destruct (assoc (s_lower units) _) as [w|]; inversion Hv; subst; eexists; split; try reflexivity; exact Hg.
  - (* qchem *)
    destruct (kw_eval_has _ _ _ _ _ _ H eq_refl CAlways "input_bohr"%string KUnitsIdx ltac:(simpl; auto 10) eq_refl) as [v [Hv Hg]].
    unfold unit_label, unit_kw_spec. cbn -[kw_get assoc s_lower] in *.
    destruct (assoc (s_lower units) _) as [w|]; inversion Hv; subst; eexists; split; try reflexivity; exact Hg.
Qed.

(** to_lines: the unit word that was looked up is the one in the text / keyword dictionary *)
Lemma to_lines_unit_word cfg m ls kw e :
  wt_find (s_lower (w_dtype cfg)) wt_table = Some e -> to_lines cfg m = Ok (ls, kw) ->
  s_lower (w_dtype cfg) <> "nglview-sdf"%string ->
  unit_text_spec e cfg ls
  /\ ((wt_dtype e = "cfour" \/ wt_dtype e = "gamess" \/ wt_dtype e = "qchem")%string ->
     exists lbl, unit_label e (units_of e cfg) = Ok lbl /\ unit_kw_spec (wt_dtype e) lbl kw)
  /\ (wt_dtype e = "turbomole"%string -> exists lbl, unit_label e (units_of e cfg) = Ok lbl).
Proof.
  intros F H S. unfold to_lines in H. rewrite F in H. apply wt_find_in in F as [Hin Hd].
  destruct (s_eqb (s_lower (w_dtype cfg)) "nglview-sdf") eqn:S'; [apply String.eqb_eq in S'; contradiction|].
  inv_obind H. inversion H; subst ls kw; clear H. repeat split.
  - eapply branch_lines_unit_text; eassumption.
  - intro K. eapply table_kw_units; eassumption.
  - intro K. rewrite <- Hd, K in E. cbn -[unit_label] in E. eexists; eassumption.
Qed.

(** sdf is always in Angstrom *)
Lemma sdf_factor cfg m ls kw e :
  s_lower (w_dtype cfg) = "nglview-sdf"%string -> wt_find (s_lower (w_dtype cfg)) wt_table = Some e ->
  (m_units m = "Bohr" \/ m_units m = "Angstrom")%string -> to_lines cfg m = Ok (ls, kw) ->
  factor_of e cfg m = conv_spec (m_units m) UAngstrom (m_iutau m) (w_conv cfg).
Proof.
  intros S F Hs H. unfold to_lines in H. rewrite F, S in H. cbn -[s_capitalize units_of] in H.
  destruct (s_eqb (s_capitalize (units_of e cfg)) "Angstrom") eqn:E; [|discriminate].
  apply String.eqb_eq in E. unfold factor_of, gen_factor. rewrite E.
  destruct Hs as [-> | ->]; reflexivity.
Qed.

(* ------------------------------------------------------------------------------------------ *)
(** * rounding: printed digits and binary64 products are nearest values *)
Lemma rhe_div_bound n d : 0 < d -> 0 <= n -> 2 * Z.abs (rhe_div n d * d - n) <= d.
Proof.
  intros Hd Hn. unfold rhe_div.
  pose proof (Z.div_mod n d ltac:(lia)) as E. pose proof (Z.mod_pos_bound n d Hd) as B.
  set (q := n / d) in *. set (r := n mod d) in *.
  destruct (2 * r <? d) eqn:C1; [apply Z.ltb_lt in C1; nia|].
  apply Z.ltb_ge in C1.
  destruct (d <? 2 * r) eqn:C2; [apply Z.ltb_lt in C2; nia|].
  apply Z.ltb_ge in C2. destruct (Z.even q); nia.
Qed.

(** the integer printed by "{:.pf}" (before the decimal point is placed) is the nearest integer to
    |v| * 10^p : exact when v is an integer multiple of a non-negative power of two, otherwise within 1/2 *)
Lemma scaled_round_exact p v : 0 <= be v -> scaled_round p v = bm v * 10 ^ p * 2 ^ be v.
Proof. intro H. unfold scaled_round. apply Z.leb_le in H. now rewrite H. Qed.

Lemma scaled_round_bound p v :
  be v < 0 -> 0 <= bm v -> 0 <= p ->
  2 * Z.abs (scaled_round p v * 2 ^ (- be v) - bm v * 10 ^ p) <= 2 ^ (- be v).
Proof.
  intros He Hm Hp. unfold scaled_round.
  destruct (0 <=? be v) eqn:C; [apply Z.leb_le in C; lia|].
  apply rhe_div_bound; [apply Z.pow_pos_nonneg; lia|].
  apply Z.mul_nonneg_nonneg; [assumption|]. apply Z.pow_nonneg; lia.
Qed.

(** a binary64 product is the exact product rounded: the exponent does not decrease and the error is
    at most half a unit of the result's last place *)
Lemma round53_bound m e : 0 <= m ->
  let '(m', e') := round53 m e in e <= e' /\ 2 * Z.abs (m' * 2 ^ (e' - e) - m) <= 2 ^ (e' - e).
Proof.
  intro Hm. unfold round53.
  set (s := Z.max (Z.max (bitlen m - 53) (-1074 - e)) 0).
  assert (Hs : 0 <= s) by (unfold s; lia).
  split; [lia|]. replace (e + s - e) with s by lia.
  unfold rshift_rne. destruct (s <=? 0) eqn:C.
  - apply Z.leb_le in C. assert (E0 : s = 0) by lia. rewrite E0, Z.pow_0_r. lia.
  - apply Z.leb_gt in C. apply rhe_div_bound; [apply Z.pow_pos_nonneg; lia | assumption].
Qed.

Lemma b64mul_bound a b : 0 <= bm a -> 0 <= bm b ->
  let r := b64mul a b in
  let e := be a + be b in
  bneg r = xorb (bneg a) (bneg b) /\ e <= be r
  /\ 2 * Z.abs (bm r * 2 ^ (be r - e) - bm a * bm b) <= 2 ^ (be r - e).
Proof.
  intros Ha Hb. unfold b64mul.
  pose proof (round53_bound (bm a * bm b) (be a + be b) ltac:(nia)) as H.
  destruct (round53 (bm a * bm b) (be a + be b)) as [m' e']. simpl. tauto.
Qed.

(* ------------------------------------------------------------------------------------------ *)
(** * each program's spelling of real and ghost atoms, and its default unit (hand-written), pinned
      against the tables generated from to_string.py *)
Open Scope string_scope.
Definition spelling_spec (d : string) : option (string * fmode * string * fmode * string) :=
  if s_eqb d "xyz" || s_eqb d "xyz+" then Some ("{elem}", FIfNone, "@{elem}", FIfNone, "Angstrom")
  else if s_eqb d "orca" then Some ("{elem}", FFixed, "{elem}:", FFixed, "Bohr")
  else if s_eqb d "cfour" then Some ("{elem}", FFixed, "GH", FFixed, "Bohr")
  else if s_eqb d "molpro" then Some ("{elem}", FFixed, "{elem}", FFixed, "Bohr")          (* ghosts: dummy card *)
  else if s_eqb d "nwchem" then Some ("{elem}{elbl}", FFixed, "bq{elem}{elbl}", FFixed, "Bohr")
  else if s_eqb d "madness" then Some ("{elem}", FFixed, "GH", FFixed, "Bohr")
  else if s_eqb d "gamess" then Some (" {elem}{elbl} {elez}", FFixed, " {elem} -{elez}", FFixed, "Bohr")
  else if s_eqb d "terachem" then Some ("{elem}", FFixed, "X{elem}", FFixed, "Bohr")
  else if s_eqb d "psi4" then Some ("{elem}{elbl}", FFixed, "Gh({elem}{elbl})", FFixed, "Bohr")
  else if s_eqb d "turbomole" then Some ("{elem}", FFixed, "{elem}", FFixed, "Bohr")       (* ghosts: basis section *)
  else if s_eqb d "nglview-sdf" then Some ("", FAbsent, "Gh", FOr, "Angstrom")
  else if s_eqb d "qchem" then Some ("{elem}", FFixed, "@{elem}", FFixed, "Bohr")
  else if s_eqb d "mrchem" then Some ("{elem}", FFixed, "{elem}", FFixed, "Bohr")
  else None.
Close Scope string_scope.

Lemma program_spellings e :
  In e wt_table -> spelling_spec (wt_dtype e) = Some (wt_afmt e, wt_afmode e, wt_gfmt e, wt_gfmode e, wt_default_units e).
Proof.
  intro Hin. simpl in Hin. repeat (destruct Hin as [<-|Hin]; [vm_compute; reflexivity|]). destruct Hin.
Qed.

(** molpro: ghost atoms are declared on the dummy card by their 1-based positions *)
Lemma ghost_indices_spec l : forall k i,
  In i (ghost_indices l k) <-> exists a, k <= i /\ nth_error l (Z.to_nat (i - k)) = Some a /\ a_real a = false.
Proof.
  induction l as [|a l IH]; intros k i; simpl.
  - split; [tauto|]. intros [a [_ [H _]]]. destruct (Z.to_nat (i - k)); discriminate.
  - destruct (a_real a) eqn:R.
    + rewrite IH. split.
      * intros [b [Hk [Hn Hr]]]. exists b. split; [lia|]. split; [|assumption].
        replace (Z.to_nat (i - k)) with (S (Z.to_nat (i - (k + 1)))) by lia. exact Hn.
      * intros [b [Hk [Hn Hr]]]. destruct (Z.to_nat (i - k)) as [|n] eqn:En.
        -- simpl in Hn. inversion Hn; subst. congruence.
        -- exists b. split; [lia|]. split; [|assumption]. replace (Z.to_nat (i - (k + 1))) with n by lia. exact Hn.
    + simpl. rewrite IH. split.
      * intros [<-|[b [Hk [Hn Hr]]]].
        -- exists a. split; [lia|]. replace (k - k) with 0 by lia. simpl. auto.
        -- exists b. split; [lia|]. split; [|assumption].
           replace (Z.to_nat (i - k)) with (S (Z.to_nat (i - (k + 1)))) by lia. exact Hn.
      * intros [b [Hk [Hn Hr]]]. destruct (Z.to_nat (i - k)) as [|n] eqn:En.
        -- left. lia.
        -- right. exists b. split; [lia|]. split; [|assumption]. replace (Z.to_nat (i - (k + 1))) with n by lia. exact Hn.
Qed.

Lemma molpro_ghosts_declared cfg m ls kw :
  s_lower (w_dtype cfg) = "molpro"%string -> to_lines cfg m = Ok (ls, kw) ->
  ghost_indices (m_atoms m) 1 <> [] ->
  In (LText ("dummy," +++ s_join "," (map dec_of_Z (ghost_indices (m_atoms m) 1)))) ls.
Proof.
  intros Hd H Hg. unfold to_lines in H.
  destruct (wt_find (s_lower (w_dtype cfg)) wt_table) as [e|] eqn:F; [|discriminate].
  apply wt_find_in in F as [Hin He]. rewrite Hd in *. cbn -[unit_label atoms_formatter branch_lines kw_eval] in H.
  inv_obind H. inversion H; subst ls kw; clear H.
  match goal with E : branch_lines _ _ _ _ = Ok _ |- _ => rename E into B end.
  unfold branch_lines in B. rewrite He in B. cbn -[unit_label ghost_indices] in B. inv_obind B. inversion B; subst; clear B.
  destruct (ghost_indices (m_atoms m) 1) eqn:G; [contradiction|].
  repeat first [ apply in_eq | apply in_cons | (apply in_or_app; right) ].
Qed.
