(** C04 — (1) completeness of contiguize_from_fragment_pattern (the converse of [contiguize_accepts]): a pattern that
    lists 0 .. nat-1 in order, with a geometry of nat rows and columns of nat entries, is accepted and everything is
    handed through unchanged; (2) the fixed point through the QCSchema entry point: a record accepted by from_arrays
    (under the settings from_schema runs it with; units Bohr; non-negative separators), exported by to_schema (dtype 1
    or 2) and read back by from_schema, is accepted and reproduced; (3) the fragment list a Molecule built from that
    dictionary ends up with is the record's.  All about Model/MolSchema.v + Model/MolRec.v; no new definitions of the
    code's logic here. *)
From Coq Require Import ZArith List Bool String Ascii QArith Lia.
Require Import QV.Common.Outcome QV.Model.Nucleus QV.Model.ChgMult QV.Gen.MolConsts QV.Model.MolRec QV.Model.MolSchema.
Require Import QV.Proofs.NucleusKeys QV.Proofs.Nucleus QV.Proofs.ChgMult QV.Proofs.MolRec QV.Proofs.MolSchema.
Import ListNotations.
Open Scope list_scope.
Open Scope Z_scope.

(* ------------------------------------------------------------------------------------------ *)
(** * contiguize accepts every in-order pattern *)

Lemma reorder_total {A} nat pat (arr : list A) :
  Z.of_nat (List.length arr) = nat -> List.concat pat = zseq nat -> exists a, reorder nat pat arr = Ok a.
Proof.
  intros El Hc. unfold reorder. rewrite (proj2 (Z.eqb_eq _ _) El). cbn [negb].
  assert (Hall : forall fr, In fr pat -> exists l, take_idx arr fr = Ok l).
  { intros fr Hfr. apply take_idx_total. intros i Hi. rewrite El. apply in_zseq. rewrite <- Hc. apply in_concat. eauto. }
  clear Hc. induction pat as [|fr pat IH]; [exists []; reflexivity|].
  destruct (Hall fr (or_introl eq_refl)) as [l Hl]. destruct IH as [a Ha]; [intros; apply Hall; right; assumption|].
  simpl. rewrite Hl. simpl. destruct (mapM (take_idx arr) pat) as [ps|] eqn:Em; [|discriminate]. simpl. eauto.
Qed.

Lemma reorder_complete {A} nat pat (arr : list A) :
  Z.of_nat (List.length arr) = nat -> List.concat pat = zseq nat -> reorder nat pat arr = Ok arr.
Proof.
  intros El Hc. destruct (reorder_total nat pat arr El Hc) as [a Ha]. rewrite Ha. f_equal.
  eapply reorder_identity; eassumption.
Qed.

(** a column that is given has one entry per atom *)
Definition col_len {A} (nat : Z) (o : option (list A)) : Prop :=
  match o with Some a => Z.of_nat (List.length a) = nat | None => True end.

Lemma reorder_opt_complete {A} nat pat (o : option (list A)) :
  col_len nat o -> List.concat pat = zseq nat -> reorder_opt nat pat o = Ok o.
Proof.
  intros Hl Hc. destruct o as [a|]; simpl; [|reflexivity]. rewrite (reorder_complete nat pat a Hl Hc). reflexivity.
Qed.

Lemma seq_sorted : forall k s, sorted Z Z.leb (map Z.of_nat (seq s k)).
Proof.
  induction k as [|k IH]; intro s; [constructor|]. destruct k as [|k]; [constructor|].
  change (seq s (S (S k))) with (s :: seq (S s) (S k)). specialize (IH (S s)).
  change (seq (S s) (S k)) with (S s :: seq (S (S s)) k) in *. cbn [map] in *.
  constructor; [apply Z.leb_le; lia | exact IH].
Qed.

Lemma sort_zseq n : sort_by Z.leb (zseq n) = zseq n.
Proof. apply sort_of_sorted. apply seq_sorted. Qed.

Theorem contiguize_complete pat g ea ez ee em er el pts :
  pat <> [] -> List.concat pat = zseq (total_atoms pat) ->
  triples g = Ok pts -> Z.of_nat (List.length pts) = total_atoms pat ->
  col_len (total_atoms pat) ea -> col_len (total_atoms pat) ez -> col_len (total_atoms pat) ee ->
  col_len (total_atoms pat) em -> col_len (total_atoms pat) er -> col_len (total_atoms pat) el ->
  contiguize pat g ea ez ee em er el =
    Ok {| c_seps := cum_seps pat; c_geom := g; c_elea := ea; c_elez := ez; c_elem := ee; c_mass := em; c_real := er; c_elbl := el |}.
Proof.
  intros Hne Hc Ht Hl L1 L2 L3 L4 L5 L6. unfold contiguize.
  replace (is_nil pat) with false by (destruct pat; [congruence|reflexivity]).
  destruct (rev (cumsum 0 (lens pat))) as [|nat rseps] eqn:Er.
  { exfalso. destruct pat; [congruence|]. simpl in Er. destruct (rev _) in Er; discriminate. }
  apply rev_cons_inv in Er.
  assert (Hnat : nat = total_atoms pat).
  { unfold total_atoms. assert (lens pat <> []) by (destruct pat; [congruence|discriminate]).
    rewrite <- (Z.add_0_l (fold_right Z.add 0 (lens pat))), <- cumsum_last by assumption. rewrite Er, last_last. reflexivity. }
  assert (Hseps : rev rseps = cum_seps pat) by (unfold cum_seps; rewrite Er, removelast_last; reflexivity).
  assert (Hrows : geom_rows nat g = Ok pts).
  { unfold geom_rows. rewrite Ht. cbn [obind]. rewrite Hnat, (proj2 (Z.eqb_eq _ _) Hl). reflexivity. }
  rewrite <- Hnat in *.
  destruct (match pat with [fr] => diffs_one fr && starts_at_zero fr | _ => false end).
  - rewrite Hrows. cbn [obind]. rewrite Hseps. reflexivity.
  - rewrite Hc, sort_zseq, zlist_eqb_refl. cbn [negb]. rewrite Hrows. cbn [obind].
    rewrite (reorder_complete nat pat pts Hl Hc). cbn [obind].
    rewrite (reorder_opt_complete nat pat ea L1 Hc). cbn [obind].
    rewrite (reorder_opt_complete nat pat ez L2 Hc). cbn [obind].
    rewrite (reorder_opt_complete nat pat ee L3 Hc). cbn [obind].
    rewrite (reorder_opt_complete nat pat em L4 Hc). cbn [obind].
    rewrite (reorder_opt_complete nat pat er L5 Hc). cbn [obind].
    rewrite (reorder_opt_complete nat pat el L6 Hc). cbn [obind].
    rewrite Hseps, (triples_flatten _ _ Ht). reflexivity.
Qed.

(* ------------------------------------------------------------------------------------------ *)
(** * np.split at non-negative separators with non-empty pieces: the cumulative piece sizes are the separators *)

Lemma nidx_nonneg' {A} (l : list A) k : 0 <= k -> nidx l k = Z.to_nat (Z.min k (Z.of_nat (List.length l))).
Proof. intro H. unfold nidx, norm_idx. destruct (k <? 0) eqn:E; [apply Z.ltb_lt in E; lia|reflexivity]. Qed.

Lemma split_cumsum' (l : list Z) : forall seps start,
  0 <= start <= Z.of_nat (List.length l) -> Forall (fun s => 0 <= s) seps ->
  Forall (fun p => p <> []) (split_from l start seps) ->
  cumsum start (lens (split_from l start seps)) = seps ++ [Z.of_nat (List.length l)].
Proof.
  induction seps as [|s r IH]; intros start Hs Hnn Hne.
  - simpl. rewrite slice_length, nidx_len, (nidx_nonneg' l start) by lia. f_equal. lia.
  - inversion Hnn as [|? ? Hs0 Hr]; subst. cbn [split_from] in Hne. inversion Hne as [|? ? Hp Hrest]; subst.
    assert (L1 : (List.length (slice l start s) <> 0)%nat) by (destruct (slice l start s); [congruence|simpl; lia]).
    rewrite slice_length, (nidx_nonneg' l start), (nidx_nonneg' l s) in L1 by lia.
    assert (Hsn : s < Z.of_nat (List.length l)).
    { destruct r as [|s' r'].
      - cbn [split_from] in Hrest. inversion Hrest as [|? ? Hq _]; subst.
        assert (L2 : (List.length (slice l s (Z.of_nat (List.length l))) <> 0)%nat)
          by (destruct (slice l s (Z.of_nat (List.length l))); [congruence|simpl; lia]).
        rewrite slice_length, nidx_len, (nidx_nonneg' l s) in L2 by lia. lia.
      - cbn [split_from] in Hrest. inversion Hrest as [|? ? Hq _]; subst.
        assert (L2 : (List.length (slice l s s') <> 0)%nat) by (destruct (slice l s s'); [congruence|simpl; lia]).
        rewrite slice_length, (nidx_nonneg' l s) in L2 by lia. pose proof (nidx_le l s'). lia. }
    cbn [split_from lens map cumsum]. fold (lens (split_from l s r)).
    rewrite slice_length, (nidx_nonneg' l start), (nidx_nonneg' l s) by lia.
    replace (start + Z.of_nat (Z.to_nat (Z.min s (Z.of_nat (List.length l))) - Z.to_nat (Z.min start (Z.of_nat (List.length l))))) with s by lia.
    cbn [app]. f_equal. apply IH; [lia|assumption|assumption].
Qed.

Lemma split_from_nonnil' {A} (l : list A) start seps : split_from l start seps <> [].
Proof. destruct seps; simpl; discriminate. Qed.

(** the pieces to_schema exports: their cumulative sizes are the separators, they name nat atoms, in order *)
Lemma pieces_facts (n : nat) seps :
  Forall (fun s => 0 <= s) seps -> Forall (fun p => p <> []) (np_split (zseq (Z.of_nat n)) seps) ->
  cum_seps (np_split (zseq (Z.of_nat n)) seps) = seps /\ total_atoms (np_split (zseq (Z.of_nat n)) seps) = Z.of_nat n /\
  List.concat (np_split (zseq (Z.of_nat n)) seps) = zseq (Z.of_nat n) /\ np_split (zseq (Z.of_nat n)) seps <> [].
Proof.
  intros Hnn Hne.
  assert (Ln : List.length (zseq (Z.of_nat n)) = n) by (rewrite zseq_length; lia).
  pose proof (split_cumsum' (zseq (Z.of_nat n)) seps 0 ltac:(rewrite Ln; lia) Hnn Hne) as Hc. rewrite Ln in Hc.
  pose proof (split_partition (zseq (Z.of_nat n)) seps Hne) as Hcat.
  unfold np_split in *.
  assert (Hnil : split_from (zseq (Z.of_nat n)) 0 seps <> []) by apply split_from_nonnil'.
  repeat split; try assumption.
  - unfold cum_seps. rewrite Hc, removelast_last. reflexivity.
  - unfold total_atoms.
    assert (Hl : lens (split_from (zseq (Z.of_nat n)) 0 seps) <> []).
    { destruct (split_from (zseq (Z.of_nat n)) 0 seps); [congruence|discriminate]. }
    rewrite <- (Z.add_0_l (fold_right Z.add 0 _)), <- cumsum_last by exact Hl. rewrite Hc, last_last. reflexivity.
Qed.

(* ------------------------------------------------------------------------------------------ *)
(** * the record as from_schema hands it to from_arrays *)

(** the settings from_schema runs from_arrays with (read from the source into Gen/MolConsts.v) *)
Definition schema_run_settings (r : raw) : Prop :=
  r_tooclose r = default_tooclose /\ r_zgf r = default_zgf /\ r_mtol r = default_mtol.

(** from_schema never passes input_units_to_au *)
Definition drop_iutau (m : molrec) : molrec :=
  {| m_units := m_units m; m_iutau := None; m_geom := m_geom m; m_elea := m_elea m; m_elez := m_elez m; m_elem := m_elem m;
     m_mass := m_mass m; m_real := m_real m; m_elbl := m_elbl m; m_seps := m_seps m; m_fchg := m_fchg m; m_fmult := m_fmult m;
     m_chg := m_chg m; m_mult := m_mult m; m_fix_com := m_fix_com m; m_fix_orientation := m_fix_orientation m;
     m_fix_symmetry := m_fix_symmetry m; m_conn := m_conn m |}.

Definition exported_raw (np : bool) (m : molrec) : raw :=
  {| r_geom := m_geom m; r_elea := Some (map Some (m_elea m)); r_elez := Some (map Some (m_elez m));
     r_elem := Some (map Some (m_elem m)); r_mass := Some (map Some (m_mass m)); r_real := Some (map Some (m_real m));
     r_elbl := Some (map Some (m_elbl m)); r_units := "Bohr"; r_iutau := None;
     r_fix_com := Some (m_fix_com m); r_fix_orientation := Some (m_fix_orientation m); r_fix_symmetry := m_fix_symmetry m;
     r_seps := Some (m_seps m); r_fchg := Some (map Some (m_fchg m)); r_fmult := Some (map Some (m_fmult m));
     r_chg := Some (m_chg m); r_mult := Some (m_mult m); r_conn := m_conn m;
     r_speclabel := false; r_tooclose := default_tooclose; r_zgf := default_zgf;
     r_nonphysical := np; r_mtol := default_mtol; r_minimal := false |}.

Lemma from_arrays_exported_raw r m m' :
  schema_run_settings r -> m_units m = "Bohr"%string -> m_geom m <> [] ->
  from_arrays (as_raw r m) = Ok m' ->
  from_arrays (exported_raw (r_nonphysical r) m) = Ok (drop_iutau m').
Proof.
  intros [St [Sz Sm]] Hu Hg H.
  destruct (from_arrays_stages _ _ H) as (pts & ros & frc & frm & cm & Stg).
  pose proof (st_rec _ _ _ _ _ _ _ Stg) as Em.
  destruct (frame_stage (as_raw r m)) as [[com ori] sym] eqn:Ef.
  rewrite Em. unfold drop_iutau. cbn [m_units m_iutau m_geom m_elea m_elez m_elem m_mass m_real m_elbl m_seps m_fchg m_fmult
                                       m_chg m_mult m_fix_com m_fix_orientation m_fix_symmetry m_conn fst snd].
  apply (from_arrays_intro _ (m_units m') None (m_conn m') pts ros (m_seps m') frc frm cm com ori sym).
  - unfold exported_raw; cbn [r_geom]. destruct (m_geom m); [congruence|reflexivity].
  - pose proof (st_units _ _ _ _ _ _ _ Stg) as U. unfold units_stage in *. unfold as_raw in U. unfold exported_raw.
    cbn [r_conn r_units r_iutau] in *. rewrite Hu in U.
    destruct (match m_conn m with None => Ok None | Some l => obind (mapM conn_entry l) (fun c => Ok (Some (sort_by conn_leb c))) end)
      as [conn|k]; [|discriminate]. cbn [obind] in *.
    change (capitalize "Bohr") with "Bohr"%string in *. cbn [String.eqb Ascii.eqb Bool.eqb orb] in *.
    destruct (m_iutau m) as [x|].
    + destruct (Qlt_b _ _); [|discriminate]. injection U as U1 U2 U3. rewrite <- U1, <- U3. reflexivity.
    + injection U as U1 U2 U3. rewrite <- U1, <- U3. reflexivity.
  - pose proof (st_geom _ _ _ _ _ _ _ Stg) as G. unfold geometry_stage in *. unfold as_raw in G. unfold exported_raw.
    cbn [r_geom r_tooclose] in *. rewrite St in G. exact G.
  - pose proof (st_nuc _ _ _ _ _ _ _ Stg) as N. unfold nuclei_stage in *. unfold as_raw in N. unfold exported_raw.
    cbn [r_elea r_elez r_elem r_mass r_real r_elbl r_speclabel r_nonphysical r_mtol] in *. rewrite Sm in N. exact N.
  - pose proof (st_frag _ _ _ _ _ _ _ Stg) as F. unfold fragments_stage in *. unfold as_raw in F. unfold exported_raw.
    cbn [r_seps r_fchg r_fmult] in *.
    assert (Es : m_seps m' = m_seps m).
    { destruct (fragments_stage_ok (as_raw r m) _ _ _ _ (st_frag _ _ _ _ _ _ _ Stg)) as (_ & _ & _ & _ & Hs). apply Hs. reflexivity. }
    rewrite Es in F. rewrite Es. exact F.
  - pose proof (st_cm _ _ _ _ _ _ _ Stg) as C. unfold cm_input in *. unfold as_raw in C. unfold exported_raw.
    cbn [r_chg r_mult r_zgf] in *. rewrite Sz in C. exact C.
  - unfold frame_stage in *. unfold as_raw in Ef. unfold exported_raw. cbn [r_fix_com r_fix_orientation r_fix_symmetry] in *. exact Ef.
Qed.

Lemma equiv_drop a b : molrec_equiv a b -> molrec_equiv (drop_iutau a) (drop_iutau b).
Proof. intros [? ? ? ? ? ? ? ? ? ? ? ? ? ? ? ? ? ?]. constructor; cbn; auto. Qed.

Lemma sniff_exported dtype m : dtype = 1 \/ dtype = 2 -> sniff (to_schema dtype m) = Ok tt.
Proof. intros [-> | ->]; reflexivity. Qed.

(** from_schema on what to_schema exported is from_arrays on the record's own columns *)
Lemma from_schema_of_to_schema np m dtype (n : nat) :
  dtype = 1 \/ dtype = 2 ->
  List.length (m_geom m) = (3 * n)%nat -> n <> 0%nat ->
  List.length (m_elea m) = n -> List.length (m_elez m) = n -> List.length (m_elem m) = n -> List.length (m_mass m) = n ->
  List.length (m_real m) = n -> List.length (m_elbl m) = n ->
  Forall (fun s => 0 <= s) (m_seps m) -> Forall (fun p => p <> []) (np_split (zseq (Z.of_nat n)) (m_seps m)) ->
  from_schema (to_schema dtype m) np = from_arrays (exported_raw np m).
Proof.
  intros Hd Lg Hn L1 L2 L3 L4 L5 L6 Hnn Hne.
  unfold from_schema. rewrite (sniff_exported dtype m Hd). cbn [obind].
  assert (Efp : frag_pattern (to_schema dtype m) = np_split (zseq (Z.of_nat n)) (m_seps m)).
  { unfold frag_pattern, to_schema, pieces. cbn [sc_frags]. rewrite L3. reflexivity. }
  rewrite Efp.
  destruct (pieces_facts n (m_seps m) Hnn Hne) as (Hcs & Hta & Hcat & Hnil).
  destruct (triples (m_geom m)) as [pts|k] eqn:Ht.
  2:{ exfalso. destruct (triples_err _ _ Ht) as [_ Hm]. rewrite Lg in Hm. apply Hm. replace (3 * n)%nat with (n * 3)%nat by lia. apply Nat.mod_mul. lia. }
  assert (Lp : List.length pts = n).
  { pose proof (triples_flatten _ _ Ht) as Hf. assert (E : List.length (flatten3 pts) = (3 * n)%nat) by (rewrite Hf; exact Lg).
    assert (F3 : forall q, List.length (flatten3 q) = (3 * List.length q)%nat).
    { induction q as [|[[x y] z] q IH]; [reflexivity|]. change (flatten3 ((x, y, z) :: q)) with (x :: y :: z :: flatten3 q).
      simpl List.length. rewrite IH. lia. }
    rewrite F3 in E. lia. }
  unfold to_schema. cbn [sc_geom sc_elea sc_elez sc_symbols sc_mass sc_real sc_elbl].
  rewrite (contiguize_complete _ (m_geom m) _ _ _ _ _ _ pts Hnil); try (rewrite Hta; exact Hcat); try exact Ht;
    try (rewrite Hta; cbn [col_len]; rewrite ?map_length; lia).
  cbn [obind]. rewrite Hcs. reflexivity.
Qed.

(* ------------------------------------------------------------------------------------------ *)
(** * The fixed point through the QCSchema entry point *)

Theorem schema_fixed_point r m dtype :
  from_arrays r = Ok m -> schema_run_settings r -> m_units m = "Bohr"%string -> m_geom m <> [] ->
  Forall (fun s => 0 <= s) (m_seps m) -> dtype = 1 \/ dtype = 2 ->
  exists m', from_schema (to_schema dtype m) (r_nonphysical r) = Ok m' /\ molrec_equiv m' (drop_iutau m).
Proof.
  intros H Hset Hu Hg Hnn Hd.
  destruct (accepted_invariants _ _ H) as (pts & ros & ats & W).
  destruct (wf_geom _ _ _ _ _ W) as (_ & _ & Lg).
  destruct (wf_cols _ _ _ _ _ W) as (C1 & C2 & C3 & C4 & C5 & C6 & Lr).
  destruct (wf_frag _ _ _ _ _ W) as (_ & Hne).
  assert (Hn : List.length pts <> 0%nat) by (intro E; rewrite E in Lg; destruct (m_geom m); [congruence|discriminate]).
  specialize (Hne Hn).
  assert (Hne' : Forall (fun p => p <> []) (np_split (zseq (Z.of_nat (List.length pts))) (m_seps m))).
  { apply (split_nonempty_transfer (seq 0 (List.length pts))); [|exact Hne]. rewrite zseq_length, seq_length. lia. }
  destruct Hset as [St [Sz Sm]].
  assert (T0 : (0 <= r_mtol r)%Q) by (rewrite Sm; vm_compute; discriminate).
  assert (T4 : (r_mtol r <= 1 # 4)%Q) by (rewrite Sm; vm_compute; discriminate).
  destruct (idempotent _ _ H T0 T4) as (m0 & H0 & Q0).
  pose proof (from_arrays_exported_raw r m m0 (conj St (conj Sz Sm)) Hu Hg H0) as H1.
  exists (drop_iutau m0). split.
  - rewrite (from_schema_of_to_schema (r_nonphysical r) m dtype (List.length pts) Hd Lg Hn); try assumption;
      try (rewrite ?C1, ?C2, ?C3, ?C4, ?C5, ?C6, map_length; exact Lr).
  - apply equiv_drop, Q0.
Qed.

(** ... and the fragment list of the Molecule object built from that dictionary is the record's fragment list *)
Theorem schema_fixed_point_fragments r m dtype m' :
  from_arrays r = Ok m -> molrec_equiv m' (drop_iutau m) ->
  molecule_fragments (to_schema dtype m) m' = pieces m.
Proof.
  intros _ Q. destruct Q as [_ _ _ _ _ Ee _ _ _ Es _ _ _ _ _ _ _ _]. cbn [drop_iutau m_elem m_seps] in Ee, Es.
  assert (Ep : pieces m' = pieces m) by (unfold pieces; rewrite Ee, Es; reflexivity).
  unfold molecule_fragments. rewrite Ep. destruct (filter_fragments _ (pieces m)) as [frs|] eqn:Ef.
  - unfold filter_fragments in Ef. destruct (list_eqb _ _ _); [discriminate|]. injection Ef as <-. reflexivity.
  - reflexivity.
Qed.
