(** C20 — proofs about Model/Basis.v: the function count implied by the shells and the nbf check. *)
From Coq Require Import ZArith List String Bool Lia.
Require Import QV.Common.Outcome QV.Gen.KeepLists QV.Model.Results QV.Model.Basis QV.Proofs.Results.
Import ListNotations.
Local Open Scope string_scope.
Local Open Scope list_scope.
Local Open Scope Z_scope.

(** the generated per-L formulas are the documented ones *)
Lemma nf_spherical_doc L : nf_spherical L = 2 * L + 1.
Proof. unfold nf_spherical. ring. Qed.
Lemma nf_cartesian_doc L : nf_cartesian L = (L + 1) * (L + 2) / 2.
Proof. unfold nf_cartesian. reflexivity. Qed.

(** the count implied by a center's shells / by the whole basis, written as plain sums *)
Definition shell_count (s : shell) : Z :=
  sumz (map (fun L => if sh_spherical s then 2 * L + 1 else (L + 1) * (L + 2) / 2) (sh_am s)).
Definition center_of (cd : centers) (c : string) : Z :=
  match dget c cd with Some shells => sumz (map shell_count shells) | None => 0 end.
Definition nbf_spec (am : list string) (cd : centers) : Z := sumz (map (center_of cd) am).

Lemma nfunctions_doc s : nfunctions s = shell_count s.
Proof.
  unfold nfunctions, shell_count. f_equal. apply map_ext. intro L.
  destruct (sh_spherical s); [apply nf_spherical_doc|apply nf_cartesian_doc].
Qed.

Lemma center_count_acc (cd : centers) : forall acc c,
  NoDup (keys cd) ->
  dget c (fold_left (fun acc kc => dset (fst kc) (sumz (map nfunctions (snd kc))) acc) cd acc)
  = match dget c cd with Some shells => Some (sumz (map nfunctions shells)) | None => dget c acc end.
Proof.
  induction cd as [|[k sh] r IH]; intros acc c ND; simpl; [reflexivity|].
  inversion ND as [|? ? Hnot ND']; subst. rewrite IH by exact ND'.
  destruct (String.eqb_spec c k).
  - subst c. destruct (dget k r) eqn:E.
    + exfalso. apply Hnot. apply dget_In. congruence.
    + apply dget_dset_same.
  - destruct (dget c r); [reflexivity|]. apply dget_dset_other. exact n.
Qed.

Lemma center_count_get cd c : NoDup (keys cd) ->
  dget c (center_count cd) = match dget c cd with Some shells => Some (sumz (map nfunctions shells)) | None => None end.
Proof. intro ND. unfold center_count. rewrite center_count_acc by exact ND. destruct (dget c cd); reflexivity. Qed.

Lemma map_nfunctions_doc shells : sumz (map nfunctions shells) = sumz (map shell_count shells).
Proof. f_equal. apply map_ext. exact nfunctions_doc. Qed.

Lemma nbf_loop_spec cd : NoDup (keys cd) -> forall am ret,
  (forall c, In c am -> In c (keys cd)) ->
  nbf_loop (center_count cd) am ret = Ok (ret + nbf_spec am cd).
Proof.
  intro ND. induction am as [|c r IH]; intros ret Hin; simpl.
  - unfold nbf_spec; simpl. f_equal. ring.
  - rewrite center_count_get by exact ND.
    assert (Hc : In c (keys cd)) by (apply Hin; left; reflexivity).
    apply dget_In in Hc. destruct (dget c cd) as [shells|] eqn:E; [|congruence].
    rewrite IH by (intros; apply Hin; right; assumption).
    f_equal. unfold nbf_spec. simpl. unfold center_of at 2. rewrite E. rewrite map_nfunctions_doc. ring.
Qed.

(** the count: sum over the atoms of the sum over the center's shells of 2L+1 / (L+1)(L+2)/2 *)
Theorem calculate_nbf_spec am cd :
  NoDup (keys cd) -> (forall c, In c am -> In c (keys cd)) -> calculate_nbf am cd = Ok (nbf_spec am cd).
Proof. intros ND Hin. unfold calculate_nbf. rewrite nbf_loop_spec by assumption. f_equal. Qed.

Theorem calculate_nbf_unknown_center am cd :
  NoDup (keys cd) -> (exists c, In c am /\ ~ In c (keys cd)) -> calculate_nbf am cd = Err PyKeyError.
Proof.
  intros ND [c [Hin Hn]]. unfold calculate_nbf. generalize 0 as ret.
  induction am as [|c' r IH]; intro ret; [destruct Hin|]. simpl. rewrite center_count_get by exact ND.
  destruct (String.eqb_spec c c').
  - subst c'. destruct (dget c cd) eqn:E; [exfalso; apply Hn; apply dget_In; congruence|reflexivity].
  - destruct Hin as [E|Hin]; [congruence|]. destruct (dget c' cd); [apply IH; exact Hin|reflexivity].
Qed.

Definition structurally_valid (b : basis_in) : Prop :=
  (forall k shells, In (k, shells) (b_centers b) -> shells <> [] /\ forall s, In s shells -> shell_check s = Ok tt)
  /\ (forall c, In c (b_atom_map b) -> In c (keys (b_centers b))).

Lemma smem_keys c (cd : centers) : smem c (keys cd) = true <-> In c (keys cd).
Proof. apply smem_In. Qed.

Lemma structure_checks b : structurally_valid b ->
  existsb (fun kc => existsb shell_keyerror (snd kc)) (b_centers b) = false
  /\ forallb (fun kc => negb (is_nil (snd kc)) && forallb shell_ok (snd kc)) (b_centers b) = true
  /\ forallb (fun c => smem c (keys (b_centers b))) (b_atom_map b) = true.
Proof.
  intros [Hc Ha]. repeat split.
  - apply not_true_is_false. intro H. apply existsb_exists in H. destruct H as [[k sh] [Hin H]].
    apply existsb_exists in H. destruct H as [s [Hs H]]. destruct (Hc k sh Hin) as [_ Hok].
    unfold shell_keyerror in H. rewrite (Hok s Hs) in H. discriminate.
  - apply forallb_forall. intros [k sh] Hin. destruct (Hc k sh Hin) as [Hne Hok]. simpl.
    apply andb_true_iff. split; [destruct sh; [congruence|reflexivity]|].
    apply forallb_forall. intros s Hs. unfold shell_ok. rewrite (Hok s Hs). reflexivity.
  - apply forallb_forall. intros c Hin. apply smem_keys. apply Ha. exact Hin.
Qed.

(** accepted iff the supplied nbf is absent or equals the count implied by the shells; the stored nbf is that count *)
Theorem basis_nbf_spec b :
  NoDup (keys (b_centers b)) -> structurally_valid b ->
  basis_validate b =
  match b_nbf b with
  | None => Ok (nbf_spec (b_atom_map b) (b_centers b))
  | Some v => if v =? nbf_spec (b_atom_map b) (b_centers b) then Ok v else Err Validation
  end.
Proof.
  intros ND SV. destruct (structure_checks b SV) as [H1 [H2 H3]]. unfold basis_validate.
  rewrite H1, H2, H3. simpl. rewrite calculate_nbf_spec; [reflexivity|exact ND|exact (proj2 SV)].
Qed.

Theorem basis_accepted_count b n :
  NoDup (keys (b_centers b)) -> structurally_valid b -> basis_validate b = Ok n ->
  n = nbf_spec (b_atom_map b) (b_centers b) /\ (b_nbf b = None \/ b_nbf b = Some n).
Proof.
  intros ND SV. rewrite basis_nbf_spec by assumption. destruct (b_nbf b) as [v|].
  - destruct (v =? _) eqn:E; [|discriminate]. intro H; inversion H; subst. apply Z.eqb_eq in E. auto.
  - intro H; inversion H. auto.
Qed.

(** re-validating the accepted basis set (now carrying its nbf) changes nothing *)
Theorem basis_revalidate b n :
  NoDup (keys (b_centers b)) -> structurally_valid b -> basis_validate b = Ok n ->
  basis_validate {| b_centers := b_centers b; b_atom_map := b_atom_map b; b_nbf := Some n |} = Ok n.
Proof.
  intros ND SV H. destruct (basis_accepted_count b n ND SV H) as [E _].
  rewrite basis_nbf_spec; simpl; [|exact ND|exact SV]. rewrite <- E, Z.eqb_refl. reflexivity.
Qed.

(** nothing but an acceptance, a validation error or the unguarded KeyError of a malformed shell *)
Theorem basis_accepts_only_valid b n : basis_validate b = Ok n ->
  forallb (fun kc => negb (is_nil (snd kc)) && forallb shell_ok (snd kc)) (b_centers b) = true
  /\ forallb (fun c => smem c (keys (b_centers b))) (b_atom_map b) = true.
Proof.
  unfold basis_validate. destruct (existsb _ _); [discriminate|].
  destruct (forallb (fun kc => negb (is_nil (snd kc)) && forallb shell_ok (snd kc)) (b_centers b)); [|discriminate].
  destruct (forallb (fun c => smem c (keys (b_centers b))) (b_atom_map b)); [|discriminate]. auto.
Qed.

(** an accepted basis set is structurally valid: the hypothesis of [basis_nbf_spec] is necessary too *)
Lemma accepted_structurally_valid b n : basis_validate b = Ok n -> structurally_valid b.
Proof.
  intro H. destruct (basis_accepts_only_valid b n H) as [H2 H3]. split.
  - intros k shells Hin. rewrite forallb_forall in H2. specialize (H2 (k, shells) Hin). simpl in H2.
    apply andb_true_iff in H2. destruct H2 as [Hne Hok]. split; [destruct shells; [discriminate|congruence]|].
    intros s Hs. rewrite forallb_forall in Hok. specialize (Hok s Hs). unfold shell_ok in Hok.
    destruct (shell_check s) as [[]|]; [reflexivity|discriminate].
  - intros c Hc. rewrite forallb_forall in H3. apply smem_keys. apply H3. exact Hc.
Qed.

(** BasisSet(...) is accepted with stored count n  iff  it is structurally valid, n is the count implied by the
    shells, and the supplied nbf is absent or equal to n *)
Theorem basis_accepted_iff b n : NoDup (keys (b_centers b)) ->
  (basis_validate b = Ok n <->
   structurally_valid b /\ n = nbf_spec (b_atom_map b) (b_centers b) /\ (b_nbf b = None \/ b_nbf b = Some n)).
Proof.
  intro ND. split.
  - intro H. pose proof (accepted_structurally_valid b n H) as SV. split; [exact SV|]. apply basis_accepted_count; assumption.
  - intros [SV [En Hn]]. rewrite basis_nbf_spec by assumption. destruct Hn as [Hn|Hn]; rewrite Hn.
    + rewrite En. reflexivity.
    + rewrite <- En, Z.eqb_refl. reflexivity.
Qed.

(** what a refusal looks like: a validation error, or the KeyError that escapes from a malformed shell / `_calculate_nbf` *)
Theorem basis_validate_err b k : basis_validate b = Err k -> k = Validation \/ k = PyKeyError.
Proof.
  unfold basis_validate. destruct (existsb _ _); [intro H; inversion H; auto|].
  destruct (forallb (fun kc => negb (is_nil (snd kc)) && forallb shell_ok (snd kc)) (b_centers b)); [|intro H; inversion H; auto].
  destruct (forallb (fun c => smem c (keys (b_centers b))) (b_atom_map b)); [|intro H; inversion H; auto]. simpl.
  destruct (calculate_nbf (b_atom_map b) (b_centers b)) as [m|k'] eqn:E.
  - destruct (b_nbf b) as [v|]; [destruct (v =? m)|]; intro H; inversion H; auto.
  - intro H; inversion H; subst k'. right. clear H. unfold calculate_nbf in E. revert E. generalize 0 as ret.
    induction (b_atom_map b) as [|c r IH]; intro ret; simpl; [discriminate|].
    destruct (dget c (center_count (b_centers b))); [apply IH|intro H; inversion H; reflexivity].
Qed.
