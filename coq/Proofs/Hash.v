(** C11 — proofs about Model/Hash.v. *)
From Coq Require Import ZArith QArith Qabs List String Ascii Bool Lia Lqa Permutation.
Require Import QV.Common.Outcome QV.Common.HFRound QV.Common.HFSort QV.Common.HFHash QV.Gen.HashConsts QV.Model.Hash.
Import ListNotations.
Open Scope Z_scope.

(** ---- list rendering ---- *)
Lemma jtail_map {A B} (r : B -> list token) (g : A -> B) l : jtail (fun a => r (g a)) l = jtail r (map g l).
Proof. induction l as [|a t IH]; simpl; [reflexivity|]. rewrite IH. reflexivity. Qed.
Lemma jlist_map {A B} (r : B -> list token) (g : A -> B) l : jlist (fun a => r (g a)) l = jlist r (map g l).
Proof. destruct l as [|a t]; simpl; [reflexivity|]. unfold jlist. simpl. rewrite jtail_map. reflexivity. Qed.

Lemma jtail_ext {A} (r r' : A -> list token) l : (forall a, r a = r' a) -> jtail r l = jtail r' l.
Proof. intros E. induction l as [|a t IH]; simpl; [reflexivity|]. rewrite IH, E. reflexivity. Qed.
Lemma jlist_ext {A} (r r' : A -> list token) l : (forall a, r a = r' a) -> jlist r l = jlist r' l.
Proof. intros E. destruct l as [|a t]; [reflexivity|]. unfold jlist. rewrite E, (jtail_ext r r' t E). reflexivity. Qed.

Lemma SD_str : selfdelim (fun s : string => [TStr s]) /\ noclose (fun s : string => [TStr s]).
Proof. split; [apply atom_selfdelim|apply atom_noclose]; intros; congruence. Qed.
Lemma SD_flt n : selfdelim (fun k : Z => [TFlt k n]) /\ noclose (fun k : Z => [TFlt k n]).
Proof. split; [apply atom_selfdelim|apply atom_noclose]; intros; congruence. Qed.
Lemma SD_int : selfdelim (fun k : Z => [TInt k]) /\ noclose (fun k : Z => [TInt k]).
Proof. split; [apply atom_selfdelim|apply atom_noclose]; intros; congruence. Qed.
Lemma SD_bool : selfdelim (fun k : bool => [TBool k]) /\ noclose (fun k : bool => [TBool k]).
Proof. split; [apply atom_selfdelim|apply atom_noclose]; intros; congruence. Qed.

Lemma SD_jlist {A} (r : A -> list token) : selfdelim r -> noclose r -> selfdelim (jlist r) /\ noclose (jlist r).
Proof.
  intros S N. split.
  - intros a b x y H. eapply jlist_selfdelim; eauto.
  - intros a x y. apply jlist_noclose.
Qed.

(** bonds: the three components as atoms *)
Inductive batom := BInt (z : Z) | BRaw (q : Q).
Definition btok (a : batom) : token := match a with BInt z => TInt z | BRaw q => TRaw q end.
Definition bond_atoms (b : bond) : list batom := let '(a1, a2, o) := b in [BInt a1; BInt a2; BRaw (Qred o)].
Lemma SD_batom : selfdelim (fun a => [btok a]) /\ noclose (fun a => [btok a]).
Proof.
  split; [apply atom_selfdelim|apply atom_noclose].
  - intros [z|q] [z'|q']; simpl; congruence.
  - intros [z|q]; simpl; congruence.
Qed.
Lemma bond_tokens_atoms b : bond_tokens b = jlist (fun a => [btok a]) (bond_atoms b).
Proof. destruct b as [[a1 a2] o]. reflexivity. Qed.
Definition qnorm_bond (b : bond) : bond := let '(a1, a2, o) := b in (a1, a2, Qred o).
Lemma bond_atoms_inj b b' : bond_atoms b = bond_atoms b' -> qnorm_bond b = qnorm_bond b'.
Proof. destruct b as [[a1 a2] o], b' as [[b1 b2] p]. simpl. intros H. inversion H. congruence. Qed.
Lemma bond_atoms_qnorm b : bond_atoms (qnorm_bond b) = bond_atoms b.
Proof.
  destruct b as [[a1 a2] o]. simpl. rewrite (Qred_complete (Qred o) o (Qred_correct o)). reflexivity.
Qed.

Lemma map_atoms_iff l l' : map bond_atoms l = map bond_atoms l' <-> map qnorm_bond l = map qnorm_bond l'.
Proof.
  revert l'. induction l as [|b t IH]; intros [|b' t']; simpl; split; intros H; try reflexivity; try discriminate;
    inversion H as [[E1 E2]]; f_equal; try (apply IH; exact E2).
  - apply bond_atoms_inj; exact E1.
  - rewrite <- (bond_atoms_qnorm b), <- (bond_atoms_qnorm b'), E1. reflexivity.
Qed.

Definition conn_tokens (o : option (list (list batom))) : list token :=
  match o with None => [TNull] | Some l => jlist (jlist (fun a => [btok a])) l end.

Lemma conn_tokens_inj o o' : conn_tokens o = conn_tokens o' -> o = o'.
Proof.
  destruct o as [l|], o' as [l'|]; simpl; intros H; try reflexivity.
  - destruct SD_batom as [S N]. destruct (SD_jlist _ S N) as [S2 N2].
    assert (E : jlist (jlist (fun a => [btok a])) l ++ [] = jlist (jlist (fun a => [btok a])) l' ++ []) by (rewrite !app_nil_r; exact H).
    apply (jlist_selfdelim _ S2 N2) in E. destruct E as [-> _]. reflexivity.
  - unfold jlist in H. discriminate.
  - unfold jlist in H. discriminate.
Qed.

(** ---- the text in normal form: a function of the prepared listed fields only ---- *)
Section Canon.
  Variable to_mass : string -> fl.
  Notation masses := (masses to_mass).
  Notation canon := (canon to_mass).
  Notation agree := (agree to_mass).

  Definition canon_norm (m : mol) : list token :=
    jlist (fun s => [TStr s]) (symbols m)
    ++ jlist (fun k => [TFlt k mass_noise]) (map (prep_arr mass_noise) (masses m))
    ++ map TChar (repr_dec (prep_scalar charge_noise (mcharge m)) charge_noise ++ digits (mmult m))
    ++ jlist (fun b => [TBool b]) (real m)
    ++ jlist (fun k => [TFlt k geometry_noise]) (map (prep_arr geometry_noise) (geometry m))
    ++ jlist (jlist (fun z => [TInt z])) (fragments m)
    ++ jlist (fun k => [TFlt k charge_noise]) (map (prep_arr charge_noise) (fcharges m))
    ++ jlist (fun z => [TInt z]) (fmults m)
    ++ conn_tokens (option_map (map bond_atoms) (connectivity_ m)).

  Lemma conn_render m :
    match connectivity_ m with None => [TNull] | Some l => jlist bond_tokens l end
    = conn_tokens (option_map (map bond_atoms) (connectivity_ m)).
  Proof.
    destruct (connectivity_ m) as [l|]; [|reflexivity].
    cbn [option_map conn_tokens]. rewrite <- (jlist_map (jlist (fun a => [btok a])) bond_atoms).
    apply jlist_ext. intros b. apply bond_tokens_atoms.
  Qed.

  Lemma canon_is_norm m : canon m = canon_norm m.
  Proof.
    unfold Hash.canon, hash_fields, canon_norm. cbn [flat_map]. unfold render, noise_of, scalar_tokens, ftok.
    rewrite app_nil_r, conn_render.
    rewrite <- (jlist_map (fun k => [TFlt k mass_noise]) (prep_arr mass_noise)).
    rewrite <- (jlist_map (fun k => [TFlt k geometry_noise]) (prep_arr geometry_noise)).
    rewrite <- (jlist_map (fun k => [TFlt k charge_noise]) (prep_arr charge_noise)).
    rewrite map_app, <- !app_assoc.
    reflexivity.
  Qed.

  Lemma bonds_repr_atoms m m' :
    option_map (map bond_atoms) (connectivity_ m) = option_map (map bond_atoms) (connectivity_ m') <-> bonds_repr m = bonds_repr m'.
  Proof.
    change (bonds_repr m) with (option_map (map qnorm_bond) (connectivity_ m)).
    change (bonds_repr m') with (option_map (map qnorm_bond) (connectivity_ m')).
    destruct (connectivity_ m) as [l|], (connectivity_ m') as [l'|]; simpl; split; intros H;
      try reflexivity; try discriminate; inversion H as [H1]; f_equal; apply map_atoms_iff; exact H1.
  Qed.

  (** completeness: agreeing molecules are hashed from the same text *)
  Theorem canon_complete m m' : agree m m' -> canon m = canon m'.
  Proof.
    intros (H1 & H2 & H3 & H4 & H5 & H6 & H7 & H8 & H9 & H10).
    rewrite !canon_is_norm. unfold canon_norm.
    apply bonds_repr_atoms in H10.
    rewrite H1, H2, H3, H4, H5, H6, H7, H8, H9, H10. reflexivity.
  Qed.

  (** injectivity: the text determines the prepared listed fields, given that the total charge is the sum of the
      fragment charges *)
  Theorem canon_injective m m' : wf m -> wf m' -> canon m = canon m' -> agree m m'.
  Proof.
    intros W W' H. rewrite !canon_is_norm in H. unfold canon_norm in H.
    destruct SD_str as [S1 N1]. apply (jlist_selfdelim _ S1 N1) in H. destruct H as [E1 H].
    destruct (SD_flt mass_noise) as [S2 N2]. apply (jlist_selfdelim _ S2 N2) in H. destruct H as [E2 H].
    unfold jlist at 1 3 in H. simpl in H. apply chars_before_open in H. destruct H as [EC H].
    assert (H' : jlist (fun b => [TBool b]) (real m) ++
                 jlist (fun k => [TFlt k geometry_noise]) (map (prep_arr geometry_noise) (geometry m)) ++
                 jlist (jlist (fun z => [TInt z])) (fragments m) ++
                 jlist (fun k => [TFlt k charge_noise]) (map (prep_arr charge_noise) (fcharges m)) ++
                 jlist (fun z => [TInt z]) (fmults m) ++ conn_tokens (option_map (map bond_atoms) (connectivity_ m))
               = jlist (fun b => [TBool b]) (real m') ++
                 jlist (fun k => [TFlt k geometry_noise]) (map (prep_arr geometry_noise) (geometry m')) ++
                 jlist (jlist (fun z => [TInt z])) (fragments m') ++
                 jlist (fun k => [TFlt k charge_noise]) (map (prep_arr charge_noise) (fcharges m')) ++
                 jlist (fun z => [TInt z]) (fmults m') ++ conn_tokens (option_map (map bond_atoms) (connectivity_ m'))).
    { unfold jlist at 1 6. simpl. f_equal. exact H. }
    clear H. rename H' into H.
    destruct SD_bool as [S3 N3]. apply (jlist_selfdelim _ S3 N3) in H. destruct H as [E5 H].
    destruct (SD_flt geometry_noise) as [S4 N4]. apply (jlist_selfdelim _ S4 N4) in H. destruct H as [E6 H].
    destruct SD_int as [S5 N5]. destruct (SD_jlist _ S5 N5) as [S6 N6].
    apply (jlist_selfdelim _ S6 N6) in H. destruct H as [E7 H].
    destruct (SD_flt charge_noise) as [S7 N7]. apply (jlist_selfdelim _ S7 N7) in H. destruct H as [E8 H].
    apply (jlist_selfdelim _ S5 N5) in H. destruct H as [E9 H].
    apply conn_tokens_inj in H. apply bonds_repr_atoms in H.
    assert (E3 : prep_scalar charge_noise (mcharge m) = prep_scalar charge_noise (mcharge m')).
    { unfold wf in W, W'. rewrite W, W', E8. reflexivity. }
    rewrite E3 in EC. apply app_inv_head in EC. apply digits_inj in EC.
    unfold Hash.agree. repeat split; assumption.
  Qed.

  (** unset and default-filled fields hash alike (kwargs vs dict vs sparse storage) *)
  Theorem canon_explicit m : canon (explicit to_mass m) = canon m.
  Proof. apply canon_complete. unfold Hash.agree, explicit; simpl. repeat split; reflexivity. Qed.

  (** nothing outside the listed fields is read *)
  Theorem canon_ignores_others m o :
    canon {| symbols := symbols m; masses_ := masses_ m; mcharge := mcharge m; mmult := mmult m; real_ := real_ m;
             geometry := geometry m; fragments_ := fragments_ m; fcharges_ := fcharges_ m; fmults_ := fmults_ m;
             connectivity_ := connectivity_ m; others := o |} = canon m.
  Proof. reflexivity. Qed.

  (** hash equality is text equality when SHA-1 is injective (collision freedom is an assumption, not a theorem) *)
  Section Sha1.
    Context {D : Type}.
    Variable sha1 : list token -> D.
    Hypothesis sha1_injective : forall a b, sha1 a = sha1 b -> a = b.

    Theorem hash_eq_iff_agree m m' : wf m -> wf m' ->
      (mol_eq to_mass sha1 m m' <-> agree m m').
    Proof.
      intros W W'. unfold mol_eq, mol_hash. split.
      - intros H. apply canon_injective; auto.
      - intros H. f_equal. apply canon_complete; exact H.
    Qed.
  End Sha1.
End Canon.
