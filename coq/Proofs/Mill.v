(** C13 — proofs about Model/Mill.v over an arbitrary commutative ring. *)
From Coq Require Import List Arith Lia Ring Bool.
Require Import QV.Common.Outcome QV.Common.AlignAlg QV.Common.AlignAlgFacts QV.Model.Mill.
Import ListNotations.

(** ---- gather (numpy fancy indexing) ---- *)
Lemma gather_length {A} (l : list A) p r : gather l p = Ok r -> length r = length p.
Proof.
  revert r. induction p as [|i p IH]; intros r H; simpl in H.
  - inversion H. reflexivity.
  - destruct (nth_error l i); [|discriminate]. destruct (gather l p) as [t|]; simpl in H; [|discriminate].
    inversion H. simpl. f_equal. apply IH. reflexivity.
Qed.

Lemma gather_nth_error {A} (l : list A) p r i :
  gather l p = Ok r -> (i < length p)%nat -> nth_error r i = nth_error l (nth i p O) /\ (nth i p O < length l)%nat.
Proof.
  revert r i. induction p as [|j p IH]; intros r i H Hi; simpl in H, Hi; [lia|].
  destruct (nth_error l j) eqn:E; [|discriminate]. destruct (gather l p) as [t|] eqn:G; simpl in H; [|discriminate].
  inversion H; subst r. destruct i.
  - simpl. split; [symmetry; exact E|]. apply nth_error_Some. rewrite E. discriminate.
  - simpl. apply IH; [reflexivity|lia].
Qed.

Lemma gather_nth {A} (l : list A) p r i d :
  gather l p = Ok r -> (i < length p)%nat -> nth i r d = nth (nth i p O) l d /\ (nth i p O < length l)%nat.
Proof.
  intros H Hi. destruct (gather_nth_error l p r i H Hi) as [E Hl]. split; [|exact Hl].
  pose proof (gather_length _ _ _ H) as HL.
  rewrite (nth_error_nth' r d) in E by lia. rewrite (nth_error_nth' l d) in E by lia. inversion E. reflexivity.
Qed.

Lemma gather_ok {A} (l : list A) p :
  Forall (fun i => i < length l)%nat p -> exists r, gather l p = Ok r.
Proof.
  induction p as [|i p IH]; intros H; simpl.
  - eexists; reflexivity.
  - inversion H; subst. destruct (nth_error l i) eqn:E.
    + destruct (IH H3) as [t ->]. simpl. eexists; reflexivity.
    + apply nth_error_None in E. lia.
Qed.

Lemma gather_bounds {A} (l : list A) p r :
  gather l p = Ok r -> Forall (fun i => i < length l)%nat p.
Proof.
  revert r. induction p as [|j p IH]; intros r H; simpl in H; [constructor|].
  destruct (nth_error l j) eqn:E; [|discriminate]. destruct (gather l p) as [t|] eqn:G; simpl in H; [|discriminate].
  constructor; [|eapply IH; reflexivity]. apply nth_error_Some. rewrite E. discriminate.
Qed.

Lemma map_nth' {A B} (f : A -> B) l i d d' : (i < length l)%nat -> nth i (map f l) d = f (nth i l d').
Proof.
  intros H. rewrite nth_indep with (d' := f d') by (rewrite map_length; exact H). apply map_nth.
Qed.

(** ---- index arithmetic for the (gr,gc,3,3) layout ---- *)
Lemma idx4_form gc bi bj a b : idx4 gc bi bj a b = (9 * (bi * gc + bj) + (3 * a + b))%nat.
Proof. unfold idx4. lia. Qed.

Lemma unidx4_idx4 gc bi bj a b :
  (bj < gc)%nat -> (a < 3)%nat -> (b < 3)%nat -> unidx4 gc (idx4 gc bi bj a b) = (bi, bj, a, b).
Proof.
  intros Hj Ha Hb. unfold unidx4.
  assert (E3 : (idx4 gc bi bj a b / 3 = (bi * gc + bj) * 3 + a)%nat).
  { symmetry. apply Nat.div_unique with b; [lia|]. unfold idx4. lia. }
  assert (E9 : (idx4 gc bi bj a b / 9 = bi * gc + bj)%nat).
  { symmetry. apply Nat.div_unique with (3 * a + b)%nat; [lia|]. unfold idx4. lia. }
  assert (Eg : (idx4 gc bi bj a b / (9 * gc) = bi)%nat).
  { symmetry. apply Nat.div_unique with (9 * bj + 3 * a + b)%nat; [lia|]. unfold idx4. lia. }
  rewrite E3, E9, Eg.
  assert (M3 : (idx4 gc bi bj a b mod 3 = b)%nat).
  { symmetry. apply Nat.mod_unique with ((bi * gc + bj) * 3 + a)%nat; [lia|]. unfold idx4. lia. }
  assert (Ma : (((bi * gc + bj) * 3 + a) mod 3 = a)%nat).
  { symmetry. apply Nat.mod_unique with (bi * gc + bj)%nat; lia. }
  assert (Mj : ((bi * gc + bj) mod gc = bj)%nat).
  { symmetry. apply Nat.mod_unique with bi; lia. }
  rewrite M3, Ma, Mj. reflexivity.
Qed.

Lemma idx4_mod3 gc bi bj a b : (b < 3)%nat -> (idx4 gc bi bj a b mod 3 = b)%nat.
Proof. intros Hb. symmetry. apply Nat.mod_unique with ((bi * gc + bj) * 3 + a)%nat; [lia|]. unfold idx4. lia. Qed.
Lemma idx4_div3_mod3 gc bi bj a b : (a < 3)%nat -> (b < 3)%nat -> ((idx4 gc bi bj a b / 3) mod 3 = a)%nat.
Proof.
  intros Ha Hb.
  assert (E3 : (idx4 gc bi bj a b / 3 = (bi * gc + bj) * 3 + a)%nat).
  { symmetry. apply Nat.div_unique with b; [lia|]. unfold idx4. lia. }
  rewrite E3. symmetry. apply Nat.mod_unique with (bi * gc + bj)%nat; lia.
Qed.

Lemma idx4_lt gr gc bi bj a b :
  (bi < gr)%nat -> (bj < gc)%nat -> (a < 3)%nat -> (b < 3)%nat -> (idx4 gc bi bj a b < gr * gc * 9)%nat.
Proof.
  intros Hi Hj Ha Hb. unfold idx4.
  assert (bi * gc + gc <= gr * gc)%nat by nia. lia.
Qed.

Lemma rowcol_div w r c : (c < w)%nat -> ((r * w + c) / w = r)%nat.
Proof. intros H. symmetry. apply Nat.div_unique with c; lia. Qed.
Lemma rowcol_mod w r c : (c < w)%nat -> ((r * w + c) mod w = c)%nat.
Proof. intros H. symmetry. apply Nat.mod_unique with r; lia. Qed.

Opaque unidx4.

Section MillProofs.
Context {K : Type} {KO : Ops K} {KR : RingLaws K}.
Add Ring KRing2 : (@ring_laws K KO KR).
Local Open Scope K_scope.

(** ---- the per-atom maps ---- *)
Lemma fwd_atom_affine (m : mill K) v : fwd_atom m v = vadd (lin_atom m v) (tvec m).
Proof.
  unfold fwd_atom, lin_atom, tvec. rewrite vmat_vsub.
  destruct (vmat (mirv (mirror m) v) (rot m)) as [[a b] c], (vmat (shift m) (rot m)) as [[x y] z].
  cbv [vsub vadd vopp]. f_equal; [f_equal|]; ring.
Qed.

Lemma lin_atom_add (m : mill K) u v : lin_atom m (vadd u v) = vadd (lin_atom m u) (lin_atom m v).
Proof. unfold lin_atom. rewrite mirv_vadd, vmat_vadd. reflexivity. Qed.
Lemma lin_atom_scale (m : mill K) s v : lin_atom m (vscale s v) = vscale s (lin_atom m v).
Proof. unfold lin_atom. rewrite mirv_vscale, vmat_vscale. reflexivity. Qed.

Lemma lin_atom_comp (m : mill K) v a : (a < 3)%nat ->
  comp (lin_atom m v) a = Aent m a 0%nat * comp v 0%nat + Aent m a 1%nat * comp v 1%nat + Aent m a 2%nat * comp v 2%nat.
Proof.
  intros Ha. unfold lin_atom, Aent. rewrite comp_vmat by exact Ha.
  destruct v as [[x y] z]. destruct (mirror m); cbv [mirv comp andb Nat.eqb]; ring.
Qed.

(** ---- L applied to a flat vector ---- *)
Lemma L_apply_fun (m : mill K) (f : nat -> K) N r :
  (nth (r / 3) (amap m) O < N)%nat ->
  bsum (3 * N) (fun c => Lmat m r c * f c) =
  bsum 3 (fun k => Aent m (r mod 3) k * f (3 * nth (r / 3) (amap m) O + k)%nat).
Proof.
  intros Hp. rewrite bsum_block3. set (j := nth (r / 3) (amap m) O) in *.
  rewrite (bsum_ext N _ (fun i => if Nat.eqb i j then
       bsum 3 (fun k => Aent m (r mod 3) k * f (3 * i + k)%nat) else 0)).
  - rewrite bsum_delta by exact Hp. reflexivity.
  - intros i Hi. unfold Lmat. fold j.
    rewrite !div3 by lia. rewrite !mod3 by lia. rewrite div3_0, mod3_0.
    destruct (Nat.eqb i j).
    + rewrite bsum_3. replace (3 * i + 0)%nat with (3 * i)%nat by lia. ring.
    + ring.
Qed.

Lemma L_apply (m : mill K) (x : list (vec3 K)) r :
  (nth (r / 3) (amap m) O < length x)%nat ->
  bsum (3 * length x) (fun c => Lmat m r c * nth c (flat3 x) 0) =
  comp (lin_atom m (nth (nth (r / 3) (amap m) O) x v0)) (r mod 3).
Proof.
  intros Hp. rewrite L_apply_fun by exact Hp.
  rewrite lin_atom_comp by (apply Nat.mod_upper_bound; lia).
  rewrite bsum_3. rewrite !flat3_nth. rewrite !div3 by lia. rewrite !mod3 by lia. reflexivity.
Qed.

(** ---- coordinates, gradients, per-atom arrays ---- *)
Lemma coords_atomwise (m : mill K) rev x y :
  align_coordinates m rev x = Ok y ->
  length y = length (amap m) /\
  forall i, (i < length (amap m))%nat ->
    (nth i (amap m) O < length x)%nat /\
    nth i y v0 = (if rev then rev_atom m else fwd_atom m) (nth (nth i (amap m) O) x v0).
Proof.
  unfold align_coordinates. intros H. split; [eapply gather_length; exact H|].
  intros i Hi. destruct (gather_nth _ _ _ i v0 H Hi) as [E Hl]. rewrite map_length in Hl.
  split; [exact Hl|]. rewrite E. apply map_nth'. exact Hl.
Qed.

Lemma gradient_atomwise (m : mill K) g y :
  align_gradient m g = Ok y ->
  length y = length (amap m) /\
  forall i, (i < length (amap m))%nat ->
    (nth i (amap m) O < length g)%nat /\ nth i y v0 = lin_atom m (nth (nth i (amap m) O) g v0).
Proof.
  unfold align_gradient. intros H. split; [eapply gather_length; exact H|].
  intros i Hi. destruct (gather_nth _ _ _ i v0 H Hi) as [E Hl]. rewrite map_length in Hl.
  split; [exact Hl|]. rewrite E. apply map_nth'. exact Hl.
Qed.

Theorem gradient_is_L (m : mill K) g y :
  align_gradient m g = Ok y ->
  length y = length (amap m) /\
  forall r, (r < 3 * length (amap m))%nat ->
    nth r (flat3 y) 0 = bsum (3 * length g) (fun c => Lmat m r c * nth c (flat3 g) 0).
Proof.
  intros H. destruct (gradient_atomwise m g y H) as [HL HA]. split; [exact HL|].
  intros r Hr. assert (Hd : (r / 3 < length (amap m))%nat) by (apply Nat.div_lt_upper_bound; lia).
  destruct (HA _ Hd) as [Hb E]. rewrite L_apply by exact Hb. rewrite flat3_nth, E. reflexivity.
Qed.

Theorem coords_affine (m : mill K) x y :
  align_coordinates m false x = Ok y ->
  length y = length (amap m) /\
  forall r, (r < 3 * length (amap m))%nat ->
    nth r (flat3 y) 0 = bsum (3 * length x) (fun c => Lmat m r c * nth c (flat3 x) 0) + comp (tvec m) (r mod 3).
Proof.
  intros H. destruct (coords_atomwise m false x y H) as [HL HA]. split; [exact HL|].
  intros r Hr. assert (Hd : (r / 3 < length (amap m))%nat) by (apply Nat.div_lt_upper_bound; lia).
  destruct (HA _ Hd) as [Hb E]. rewrite L_apply by exact Hb. rewrite flat3_nth, E.
  rewrite fwd_atom_affine, comp_vadd. reflexivity.
Qed.

(* the linear part of the coordinate transform is the gradient transform: T(x + s v) = T x + s L v *)
Theorem line_transport (m : mill K) x v y lv s :
  length x = length v ->
  align_coordinates m false x = Ok y -> align_gradient m v = Ok lv ->
  align_coordinates m false (ladd x (lscale s v)) = Ok (ladd y (lscale s lv)).
Proof.
  intros HL Hx Hv.
  destruct (coords_atomwise _ _ _ _ Hx) as [Ly Ax]. destruct (gradient_atomwise _ _ _ Hv) as [Llv Av].
  assert (Hlen : length (ladd x (lscale s v)) = length x).
  { apply ladd_length. unfold lscale. rewrite map_length. exact HL. }
  destruct (gather_ok (map (fwd_atom m) (ladd x (lscale s v))) (amap m)) as [z Hz].
  { rewrite map_length, Hlen. pose proof (gather_bounds _ _ _ Hx) as B. rewrite map_length in B. exact B. }
  assert (Hz' : align_coordinates m false (ladd x (lscale s v)) = Ok z) by exact Hz.
  rewrite Hz'. f_equal.
  destruct (coords_atomwise _ _ _ _ Hz') as [Lz Az].
  apply nth_ext_eq with (d := v0).
  - rewrite ladd_length; [lia|]. unfold lscale. rewrite map_length. lia.
  - intros i Hi. rewrite Lz in Hi.
    destruct (Az _ Hi) as [_ ->]. destruct (Ax _ Hi) as [_ Ex]. destruct (Av _ Hi) as [_ Ev].
    rewrite ladd_nth by (unfold lscale; rewrite map_length; lia).
    rewrite ladd_nth by (unfold lscale; rewrite map_length; lia).
    rewrite !lscale_nth. rewrite Ex, Ev.
    rewrite !fwd_atom_affine. rewrite lin_atom_add, lin_atom_scale.
    destruct (lin_atom m (nth (nth i (amap m) O) x v0)) as [[a b] c],
             (lin_atom m (nth (nth i (amap m) O) v v0)) as [[d e] f], (tvec m) as [[t1 t2] t3].
    cbv [vadd vscale]. f_equal; [f_equal|]; ring.
Qed.

Theorem atoms_same_map {A} (m : mill K) rev x y (a b : list A) :
  align_coordinates m rev x = Ok y -> align_atoms m a = Ok b ->
  length y = length (amap m) /\ length b = length (amap m) /\
  forall i, (i < length (amap m))%nat ->
    nth_error y i = option_map (if rev then rev_atom m else fwd_atom m) (nth_error x (nth i (amap m) O)) /\
    nth_error b i = nth_error a (nth i (amap m) O).
Proof.
  unfold align_coordinates, align_atoms. intros Hx Ha.
  split; [eapply gather_length; exact Hx|]. split; [eapply gather_length; exact Ha|].
  intros i Hi. destruct (gather_nth_error _ _ _ i Hx Hi) as [E1 _]. destruct (gather_nth_error _ _ _ i Ha Hi) as [E2 _].
  split; [|exact E2]. rewrite E1. apply nth_error_map.
Qed.

(** ---- the inverse recipe undoes the reverse transform ---- *)
Lemma fwd_inv_rev (m : mill K) q v :
  mmul (rot m) (mtrans (rot m)) = mid -> fwd_atom (inv_mill m q) (rev_atom m v) = v.
Proof.
  intros HO. unfold fwd_atom, rev_atom, inv_mill. cbn [shift rot mirror amap].
  rewrite mirv_mirv.
  replace (vsub (vadd (vmat v (rot m)) (shift m)) (shift m)) with (vmat v (rot m)).
  - rewrite vmat_mmul, HO. apply vmat_mid.
  - destruct (vmat v (rot m)) as [[a b] c], (shift m) as [[x y] z]. cbv [vsub vadd]. f_equal; [f_equal|]; ring.
Qed.

Theorem reverse_inverts_forward (m : mill K) q x c z :
  mmul (rot m) (mtrans (rot m)) = mid ->
  length q = length x ->
  (forall j, (j < length x)%nat -> nth (nth j q O) (amap m) O = j /\ (nth j q O < length (amap m))%nat) ->
  align_coordinates m true x = Ok c ->
  align_coordinates (inv_mill m q) false c = Ok z ->
  z = x.
Proof.
  intros HO Lq Hq Hc Hz.
  destruct (coords_atomwise _ _ _ _ Hc) as [Lc Ac]. destruct (coords_atomwise _ _ _ _ Hz) as [Lz Az].
  cbn [inv_mill amap] in Lz, Az.
  apply nth_ext_eq with (d := v0); [lia|].
  intros j Hj. rewrite Lz, Lq in Hj. destruct (Az j ltac:(lia)) as [_ ->].
  destruct (Hq j Hj) as [E Hb]. destruct (Ac _ Hb) as [_ ->]. rewrite E. apply fwd_inv_rev. exact HO.
Qed.

(** ---- L is orthogonal ---- *)
Lemma Aent_gram (m : mill K) a b :
  mmul (mtrans (rot m)) (rot m) = mid -> (a < 3)%nat -> (b < 3)%nat ->
  bsum 3 (fun k => Aent m a k * Aent m b k) = kdelta a b.
Proof.
  intros HO Ha Hb.
  assert (E : ment (mmul (mtrans (rot m)) (rot m)) a b = ment (mid : mat3 K) a b) by (rewrite HO; reflexivity).
  rewrite ment_mmul in E by assumption. rewrite !ment_mtrans in E by lia. rewrite ment_mid in E by assumption.
  rewrite <- E. rewrite bsum_3. unfold Aent. destruct (mirror m); cbv [andb Nat.eqb]; ring.
Qed.

Theorem L_orthogonal (m : mill K) n :
  mmul (mtrans (rot m)) (rot m) = mid -> is_perm n (amap m) ->
  forall r c, (r < 3 * n)%nat -> (c < 3 * n)%nat ->
    bsum (3 * n) (fun k => Lmat m r k * Lmat m c k) = kdelta r c.
Proof.
  intros HO [Ln [ND FA]] r c Hr Hc.
  assert (Hdr : (r / 3 < n)%nat) by (apply Nat.div_lt_upper_bound; lia).
  assert (Hdc : (c / 3 < n)%nat) by (apply Nat.div_lt_upper_bound; lia).
  assert (Hpr : (nth (r / 3) (amap m) O < n)%nat).
  { rewrite Forall_forall in FA. apply FA. apply nth_In. lia. }
  rewrite L_apply_fun by exact Hpr.
  pose proof (Nat.mod_upper_bound r 3 ltac:(lia)) as Hmr. pose proof (Nat.mod_upper_bound c 3 ltac:(lia)) as Hmc.
  rewrite (bsum_ext 3 _ (fun k => if Nat.eqb (nth (r / 3) (amap m) O) (nth (c / 3) (amap m) O)
                                   then Aent m (r mod 3) k * Aent m (c mod 3) k else 0)).
  2:{ intros k Hk. unfold Lmat at 1. rewrite div3, mod3 by exact Hk.
      destruct (Nat.eqb _ _); ring. }
  destruct (Nat.eqb (nth (r / 3) (amap m) O) (nth (c / 3) (amap m) O)) eqn:E.
  - apply Nat.eqb_eq in E. apply (proj1 (NoDup_nth (amap m) O) ND) in E; [|lia|lia].
    rewrite Aent_gram by assumption.
    pose proof (Nat.div_mod r 3 ltac:(lia)). pose proof (Nat.div_mod c 3 ltac:(lia)).
    unfold kdelta. destruct (Nat.eqb (r mod 3) (c mod 3)) eqn:E2.
    + apply Nat.eqb_eq in E2. replace (Nat.eqb r c) with true; [reflexivity|]. symmetry. apply Nat.eqb_eq. lia.
    + apply Nat.eqb_neq in E2. replace (Nat.eqb r c) with false; [reflexivity|]. symmetry. apply Nat.eqb_neq. intro; subst; lia.
  - apply Nat.eqb_neq in E. rewrite bsum_zero. rewrite kdelta_neq; [reflexivity|]. intro; subst; apply E; reflexivity.
Qed.

(** ---- blocking into 3x3 tiles and back ---- *)
Lemma expand_length gr gc (H : list K) : length (expand gr gc H) = (gr * gc * 9)%nat.
Proof. apply tab_length. Qed.

Lemma expand_nth gr gc (H : list K) bi bj a b :
  (bi < gr)%nat -> (bj < gc)%nat -> (a < 3)%nat -> (b < 3)%nat ->
  nth (idx4 gc bi bj a b) (expand gr gc H) 0 = nth ((3 * bi + a) * (3 * gc) + (3 * bj + b)) H 0.
Proof.
  intros Hi Hj Ha Hb. unfold expand. rewrite tab_nth by (apply idx4_lt; assumption).
  rewrite unidx4_idx4 by assumption. f_equal. lia.
Qed.

Lemma contract_length gr gc (B : list K) : length (contract gr gc B) = (3 * gr * (3 * gc))%nat.
Proof. apply tab_length. Qed.

Lemma contract_nth gr gc (B : list K) r c :
  (r < 3 * gr)%nat -> (c < 3 * gc)%nat ->
  nth (r * (3 * gc) + c) (contract gr gc B) 0 = nth (idx4 gc (r / 3) (c / 3) (r mod 3) (c mod 3)) B 0.
Proof.
  intros Hr Hc. unfold contract. rewrite tab_nth by nia.
  rewrite rowcol_div, rowcol_mod by exact Hc. reflexivity.
Qed.

Theorem blockwise_lossless gr gc (H : list K) :
  length H = (3 * gr * (3 * gc))%nat -> contract gr gc (expand gr gc H) = H.
Proof.
  intros HL. apply nth_ext_eq with (d := 0).
  - rewrite contract_length. lia.
  - rewrite contract_length. intros k Hk.
    assert (Hgc : (0 < 3 * gc)%nat) by nia.
    pose proof (Nat.div_mod k (3 * gc) ltac:(lia)) as E.
    pose proof (Nat.mod_upper_bound k (3 * gc) ltac:(lia)) as Hc.
    set (r := (k / (3 * gc))%nat) in *. set (c := (k mod (3 * gc))%nat) in *.
    assert (Hr : (r < 3 * gr)%nat) by nia.
    replace k with (r * (3 * gc) + c)%nat by lia.
    rewrite contract_nth by assumption.
    rewrite expand_nth; try (apply Nat.div_lt_upper_bound; lia); try (apply Nat.mod_upper_bound; lia).
    f_equal. pose proof (Nat.div_mod r 3 ltac:(lia)). pose proof (Nat.div_mod c 3 ltac:(lia)). lia.
Qed.

(** ---- align_hessian = L H L^T ---- *)
Lemma neg_axis2_nth (B : list K) gc bi bj a b :
  (idx4 gc bi bj a b < length B)%nat -> (bj < gc)%nat -> (a < 3)%nat -> (b < 3)%nat ->
  nth (idx4 gc bi bj a b) (neg_axis2 B) 0 =
  if Nat.eqb a 1 then nth (idx4 gc bi bj a b) B 0 * (- (1)) else nth (idx4 gc bi bj a b) B 0.
Proof.
  intros Hl Hj Ha Hb. unfold neg_axis2. rewrite tab_nth by exact Hl.
  rewrite idx4_div3_mod3 by assumption. reflexivity.
Qed.

Lemma neg_axis3_nth (B : list K) gc bi bj a b :
  (idx4 gc bi bj a b < length B)%nat -> (bj < gc)%nat -> (a < 3)%nat -> (b < 3)%nat ->
  nth (idx4 gc bi bj a b) (neg_axis3 B) 0 =
  if Nat.eqb b 1 then nth (idx4 gc bi bj a b) B 0 * (- (1)) else nth (idx4 gc bi bj a b) B 0.
Proof.
  intros Hl Hj Ha Hb. unfold neg_axis3. rewrite tab_nth by exact Hl.
  rewrite idx4_mod3 by assumption. reflexivity.
Qed.

Lemma neg_axis2_length (B : list K) : length (neg_axis2 B) = length B.
Proof. apply tab_length. Qed.
Lemma neg_axis3_length (B : list K) : length (neg_axis3 B) = length B.
Proof. apply tab_length. Qed.

Lemma mflat_length (M : mat3 K) : length (mflat M) = 9%nat.
Proof. destruct M as [[[[a1 a2] a3] [[b1 b2] b3]] [[c1 c2] c3]]. reflexivity. Qed.
Lemma mflat_nth (M : mat3 K) a b : (a < 3)%nat -> (b < 3)%nat -> nth (3 * a + b) (mflat M) 0 = ment M a b.
Proof.
  intros Ha Hb. destruct M as [[[[a1 a2] a3] [[b1 b2] b3]] [[c1 c2] c3]].
  destruct a as [|[|[|a]]]; try lia; destruct b as [|[|[|b]]]; try lia; reflexivity.
Qed.

Lemma flat_map9_nth (g : nat -> list K) N s q t :
  (forall k, length (g k) = 9%nat) -> (q < N)%nat -> (t < 9)%nat ->
  nth (9 * q + t) (flat_map g (seq s N)) 0 = nth t (g (s + q)%nat) 0.
Proof.
  intros Hg. revert s q. induction N as [|N IH]; intros s q Hq Ht; [lia|].
  cbn [seq flat_map]. destruct q as [|q].
  - rewrite app_nth1 by (rewrite Hg; lia). replace (9 * 0 + t)%nat with t by lia. rewrite Nat.add_0_r. reflexivity.
  - rewrite app_nth2 by (rewrite Hg; lia). rewrite Hg.
    replace (9 * S q + t - 9)%nat with (9 * q + t)%nat by lia.
    rewrite IH by lia. f_equal. f_equal. lia.
Qed.

Lemma rot_blocks_nth (m : mill K) n (B : list K) bi bj a b :
  (bi < n)%nat -> (bj < n)%nat -> (a < 3)%nat -> (b < 3)%nat ->
  nth (idx4 n bi bj a b) (rot_blocks m n B) 0 = ment (rot_block m n B bi bj) a b.
Proof.
  intros Hi Hj Ha Hb. unfold rot_blocks. rewrite idx4_form.
  rewrite flat_map9_nth; [| intros; apply mflat_length | nia | lia].
  cbn [plus]. rewrite mflat_nth by assumption.
  rewrite rowcol_div, rowcol_mod by exact Hj. reflexivity.
Qed.

(* one 3x3 block of the result, as a double sum over the entries of the source block *)
Lemma rot_block_ment (m : mill K) n (B : list K) bi bj a b :
  (a < 3)%nat -> (b < 3)%nat ->
  ment (rot_block m n B bi bj) a b =
  bsum 3 (fun a' => bsum 3 (fun b' => ment (rot m) a' a * nth (idx4 n bi bj a' b') B 0 * ment (rot m) b' b)).
Proof.
  intros Ha Hb. unfold rot_block. rewrite ment_mmul by assumption.
  rewrite !ment_mtrans by lia. rewrite !ment_mmul by lia. unfold blk. rewrite !ment_mk3 by lia.
  rewrite !bsum_3. ring.
Qed.

Lemma LHL_collapse (m : mill K) n (H : list K) r c :
  (nth (r / 3) (amap m) O < n)%nat -> (nth (c / 3) (amap m) O < n)%nat ->
  bsum (3 * n) (fun k => bsum (3 * n) (fun l => Lmat m r k * nth (k * (3 * n) + l) H 0 * Lmat m c l)) =
  bsum 3 (fun a' => bsum 3 (fun b' => Aent m (r mod 3) a' * Aent m (c mod 3) b' *
     nth ((3 * nth (r / 3) (amap m) O + a') * (3 * n) + (3 * nth (c / 3) (amap m) O + b')) H 0)).
Proof.
  intros Hpr Hpc.
  transitivity (bsum (3 * n) (fun k => Lmat m r k *
      bsum 3 (fun b' => Aent m (c mod 3) b' * nth (k * (3 * n) + (3 * nth (c / 3) (amap m) O + b')) H 0))).
  - apply bsum_ext. intros k Hk.
    rewrite <- (L_apply_fun m (fun l => nth (k * (3 * n) + l) H 0) n c Hpc).
    rewrite <- bsum_scale_l. apply bsum_ext. intros l Hl. ring.
  - rewrite (L_apply_fun m (fun k => bsum 3 (fun b' => Aent m (c mod 3) b' *
               nth (k * (3 * n) + (3 * nth (c / 3) (amap m) O + b')) H 0)) n r Hpr).
    apply bsum_ext. intros a' Ha'. rewrite <- bsum_scale_l. apply bsum_ext. intros b' Hb'. ring.
Qed.

Theorem hessian_is_LHLt (m : mill K) n (H H' : list K) :
  length (amap m) = n -> align_hessian m n H = Ok H' ->
  length H' = (3 * n * (3 * n))%nat /\
  forall r c, (r < 3 * n)%nat -> (c < 3 * n)%nat ->
    nth (r * (3 * n) + c) H' 0 =
    bsum (3 * n) (fun k => bsum (3 * n) (fun l => Lmat m r k * nth (k * (3 * n) + l) H 0 * Lmat m c l)).
Proof.
  intros Ln HA. subst n. unfold align_hessian in HA.
  unfold ix_blocks in HA. set (n := length (amap m)) in *. destruct (forallb (fun i => Nat.ltb i n) (amap m)) eqn:FB; [|discriminate].
  cbn [obind] in HA. injection HA as HA. subst H'.
  split; [apply contract_length|]. intros r c Hr Hc. cbv zeta.
  assert (Hdr : (r / 3 < n)%nat) by (apply Nat.div_lt_upper_bound; lia).
  assert (Hdc : (c / 3 < n)%nat) by (apply Nat.div_lt_upper_bound; lia).
  pose proof (Nat.mod_upper_bound r 3 ltac:(lia)) as Hmr. pose proof (Nat.mod_upper_bound c 3 ltac:(lia)) as Hmc.
  rewrite forallb_forall in FB.
  assert (Hpr : (nth (r / 3) (amap m) O < n)%nat) by (apply Nat.ltb_lt, FB, nth_In; lia).
  assert (Hpc : (nth (c / 3) (amap m) O < n)%nat) by (apply Nat.ltb_lt, FB, nth_In; lia).
  set (pr := nth (r / 3) (amap m) O) in *. set (pc := nth (c / 3) (amap m) O) in *.
  rewrite contract_nth by assumption.
  rewrite tab_nth by (apply idx4_lt; assumption). rewrite unidx4_idx4 by assumption.
  fold pr pc. rewrite rot_blocks_nth by assumption. rewrite rot_block_ment by assumption.
  rewrite (LHL_collapse m n H r c Hpr Hpc). fold pr pc.
  (* entries of the source block *)
  assert (HB : forall a' b', (a' < 3)%nat -> (b' < 3)%nat ->
            nth (idx4 n pr pc a' b') (if mirror m then neg_axis3 (neg_axis2 (expand n n H)) else expand n n H) 0 =
            (if mirror m && Nat.eqb a' 1 then - (1) else 1) * (if mirror m && Nat.eqb b' 1 then - (1) else 1) *
            nth ((3 * pr + a') * (3 * n) + (3 * pc + b')) H 0).
  { intros a' b' Ha' Hb'. destruct (mirror m); cbn [andb].
    - rewrite neg_axis3_nth; try assumption.
      2:{ rewrite neg_axis2_length, expand_length. apply idx4_lt; assumption. }
      rewrite neg_axis2_nth; try assumption.
      2:{ rewrite expand_length. apply idx4_lt; assumption. }
      rewrite expand_nth by assumption. destruct (Nat.eqb a' 1), (Nat.eqb b' 1); ring.
    - rewrite expand_nth by assumption. ring. }
  apply bsum_ext. intros a' Ha'. apply bsum_ext. intros b' Hb'.
  rewrite HB by assumption. unfold Aent.
  destruct (mirror m && Nat.eqb a' 1), (mirror m && Nat.eqb b' 1); ring.
Qed.

Lemma hessian_ok (m : mill K) n (H : list K) :
  is_perm n (amap m) -> exists H', align_hessian m n H = Ok H'.
Proof.
  intros [Ln [ND FA]]. unfold align_hessian, ix_blocks.
  replace (forallb (fun i => Nat.ltb i n) (amap m)) with true.
  - eexists. reflexivity.
  - symmetry. apply forallb_forall. intros i Hi. apply Nat.ltb_lt. rewrite Forall_forall in FA. apply FA. exact Hi.
Qed.

(** ---- vectors attached to the molecule ---- *)
Theorem vector_is_rotT (m : mill K) v a : (a < 3)%nat ->
  comp (align_vector m v) a = bsum 3 (fun k => ment (rot m) k a * comp v k).
Proof. intros Ha. unfold align_vector. rewrite comp_vmat by exact Ha. rewrite bsum_3. ring. Qed.

Lemma flat_map_block_nth {A} (g : A -> list K) w (l : list A) q t d :
  (forall x, length (g x) = w) -> (q < length l)%nat -> (t < w)%nat ->
  nth (w * q + t) (flat_map g l) 0 = nth t (g (nth q l d)) 0.
Proof.
  intros Hg. revert q. induction l as [|x l IH]; intros q Hq Ht; cbn [length] in Hq; [lia|].
  cbn [flat_map]. destruct q as [|q].
  - rewrite app_nth1 by (rewrite Hg; lia). replace (w * 0 + t)%nat with t by lia. reflexivity.
  - rewrite app_nth2 by (rewrite Hg; nia). rewrite Hg.
    replace (w * S q + t - w)%nat with (w * q + t)%nat by nia.
    rewrite IH by lia. reflexivity.
Qed.

Lemma flat_map_block_length {A} (g : A -> list K) w (l : list A) :
  (forall x, length (g x) = w) -> length (flat_map g l) = (w * length l)%nat.
Proof.
  intros Hg. induction l as [|x l IH]; cbn [flat_map length]; [lia|].
  rewrite app_length, Hg, IH. lia.
Qed.

Lemma vg_scan_none n ats p :
  vg_scan n ats p = None -> forall i, In i ats -> (i < length p)%nat /\ (nth i p O < n)%nat.
Proof.
  induction ats as [|j ats IH]; intros H i Hi; [destruct Hi|].
  cbn [vg_scan] in H. destruct (nth_error p j) as [v|] eqn:E; [|discriminate].
  destruct (Nat.ltb v n) eqn:Lt; [|discriminate].
  destruct Hi as [<-|Hi]; [|apply IH; assumption].
  assert (Hj : (j < length p)%nat) by (apply nth_error_Some; rewrite E; discriminate).
  split; [exact Hj|]. rewrite (nth_error_nth' p O Hj) in E. inversion E as [E']. rewrite E'. apply Nat.ltb_lt. exact Lt.
Qed.

Definition sel3 {A} (a : nat) (t : A * A * A) : A :=
  let '(x, y, z) := t in match a with O => x | S O => y | _ => z end.

Lemma datom_ment (m : mill K) mu p a b : (a < 3)%nat -> (b < 3)%nat ->
  ment (datom m mu p) a b =
  bsum 3 (fun a' => bsum 3 (fun b' => ment (rot m) a' a * nth (3 * p + b') (sel3 a' mu) 0 * ment (rot m) b' b)).
Proof.
  intros Ha Hb. destruct mu as [[mx my] mz]. unfold datom.
  rewrite ment_mmul by assumption. rewrite !ment_mtrans by lia. rewrite !ment_mmul by lia.
  rewrite !bsum_3. cbn [sel3]. replace (3 * p + 0)%nat with (3 * p)%nat by lia.
  cbv [ment mrow comp]. ring.
Qed.

(* al_mu = rot^T . mu . L^T  (for a recipe without mirror L = rotation x permutation) *)
Theorem vector_gradient_covariant (m : mill K) mu out :
  align_vector_gradient m mu = Ok out ->
  let n := (length (sel3 0 mu) / 3)%nat in
  forall a r, (a < 3)%nat -> (r < 3 * n)%nat ->
    length (sel3 a out) = (3 * n)%nat /\
    (mirror m = false ->
     nth r (sel3 a out) 0 =
     bsum 3 (fun a' => ment (rot m) a' a * bsum (3 * n) (fun c => Lmat m r c * nth c (sel3 a' mu) 0))).
Proof.
  destruct mu as [[mx my] mz]. unfold align_vector_gradient. cbn [sel3].
  set (n := (length mx / 3)%nat).
  destruct (negb _); [discriminate|].
  destruct (vg_scan n (seq 0 n) (amap m)) eqn:VS; [discriminate|].
  intros HO. injection HO as HO. subst out. intros a r Ha Hr.
  assert (Hd : (r / 3 < n)%nat) by (apply Nat.div_lt_upper_bound; lia).
  destruct (vg_scan_none _ _ _ VS (r / 3)%nat) as [Hlp Hp]; [apply in_seq; lia|].
  set (ds := map (fun at' => datom m (mx, my, mz) (nth at' (amap m) O)) (seq 0 n)).
  assert (Hrow : forall a0, (a0 < 3)%nat ->
     sel3 a0 (flat_map (fun D => [ment D 0%nat 0%nat; ment D 0%nat 1%nat; ment D 0%nat 2%nat]) ds,
              flat_map (fun D => [ment D 1%nat 0%nat; ment D 1%nat 1%nat; ment D 1%nat 2%nat]) ds,
              flat_map (fun D => [ment D 2%nat 0%nat; ment D 2%nat 1%nat; ment D 2%nat 2%nat]) ds) =
     flat_map (fun D => [ment D a0 0%nat; ment D a0 1%nat; ment D a0 2%nat]) ds).
  { intros a0 Ha0. destruct a0 as [|[|[|a0]]]; try lia; reflexivity. }
  rewrite Hrow by exact Ha. split.
  - rewrite (flat_map_block_length _ 3) by (intros; reflexivity).
    unfold ds. rewrite map_length, seq_length. reflexivity.
  - intros Hm.
    pose proof (Nat.div_mod r 3 ltac:(lia)) as Er. pose proof (Nat.mod_upper_bound r 3 ltac:(lia)) as Hmr.
    rewrite Er at 1.
    rewrite (flat_map_block_nth _ 3 ds (r / 3) (r mod 3) (datom m (mx, my, mz) O));
      [| intros; reflexivity | unfold ds; rewrite map_length, seq_length; exact Hd | exact Hmr].
    unfold ds. rewrite (map_nth' _ _ _ _ O) by (rewrite seq_length; exact Hd). rewrite seq_nth by exact Hd. cbn [plus].
    assert (Hent : forall D : mat3 K, nth (r mod 3) [ment D a 0%nat; ment D a 1%nat; ment D a 2%nat] 0 = ment D a (r mod 3)).
    { intros D. destruct (r mod 3) as [|[|[|t]]]; try lia; reflexivity. }
    rewrite Hent. rewrite datom_ment by assumption.
    apply bsum_ext. intros a' Ha'.
    rewrite (L_apply_fun m (fun c => nth c (sel3 a' (mx, my, mz)) 0) n r Hp).
    rewrite <- bsum_scale_l. apply bsum_ext. intros b' Hb'.
    unfold Aent. rewrite Hm. cbn [andb]. ring.
Qed.

(** ---- identifying L b from its adjoint action (used by the invariant-energy theorems) ---- *)
Lemma flat3_inj (a b : list (vec3 K)) :
  length a = length b ->
  (forall r, (r < 3 * length a)%nat -> nth r (flat3 a) 0 = nth r (flat3 b) 0) -> a = b.
Proof.
  intros HL H. apply nth_ext_eq with (d := v0); [exact HL|].
  intros i Hi. apply vec3_ext. intros k Hk.
  pose proof (H (3 * i + k)%nat ltac:(lia)) as E. rewrite !flat3_nth in E.
  rewrite div3, mod3 in E by exact Hk. exact E.
Qed.

Lemma gradient_ok (m : mill K) n g : is_perm n (amap m) -> length g = n -> exists y, align_gradient m g = Ok y.
Proof.
  intros [Ln [ND FA]] Lg. unfold align_gradient. apply gather_ok. rewrite map_length, Lg. exact FA.
Qed.

Lemma coords_ok (m : mill K) n rev x : is_perm n (amap m) -> length x = n -> exists y, align_coordinates m rev x = Ok y.
Proof.
  intros [Ln [ND FA]] Lg. unfold align_coordinates. apply gather_ok. rewrite map_length, Lg. exact FA.
Qed.

(* the rows of L, as (n,3) arrays *)
Definition Lrow (m : mill K) n r : list (vec3 K) := unflat3 n (fun c => Lmat m r c).

Lemma L_of_Lrow (m : mill K) n r lv :
  mmul (mtrans (rot m)) (rot m) = mid -> is_perm n (amap m) -> (r < 3 * n)%nat ->
  align_gradient m (Lrow m n r) = Ok lv ->
  length lv = n /\ forall k, (k < 3 * n)%nat -> nth k (flat3 lv) 0 = kdelta k r.
Proof.
  intros HO HP Hr Hlv. destruct (gradient_is_L _ _ _ Hlv) as [LL HL].
  pose proof HP as [Ln _]. split; [lia|]. intros k Hk. rewrite HL by lia.
  unfold Lrow. rewrite unflat3_length.
  rewrite (bsum_ext (3 * n) _ (fun c => Lmat m k c * Lmat m r c)).
  - apply L_orthogonal; assumption.
  - intros c Hc. rewrite flat3_unflat3_nth by exact Hc. reflexivity.
Qed.

Lemma adjoint_identifies (m : mill K) n (a b : list (vec3 K)) :
  mmul (mtrans (rot m)) (rot m) = mid -> is_perm n (amap m) -> length a = n -> length b = n ->
  (forall v lv, length v = n -> align_gradient m v = Ok lv -> ldot a lv = ldot b v) ->
  align_gradient m b = Ok a.
Proof.
  intros HO HP La Lb H. destruct (gradient_ok m n b HP Lb) as [Lb' HLb]. rewrite HLb. f_equal.
  destruct (gradient_is_L _ _ _ HLb) as [LL HL]. pose proof HP as [Ln _].
  symmetry. apply flat3_inj; [lia|]. intros r Hr. rewrite La in Hr.
  destruct (gradient_ok m n (Lrow m n r) HP (unflat3_length _ _)) as [lv Hlv].
  destruct (L_of_Lrow m n r lv HO HP Hr Hlv) as [Llv Dlv].
  pose proof (H _ _ (unflat3_length _ _) Hlv) as E.
  rewrite ldot_sum in E by lia. rewrite ldot_sum in E by (unfold Lrow; rewrite unflat3_length; lia).
  rewrite La, Lb in E.
  rewrite (bsum_ext (3 * n) _ (fun k => if Nat.eqb k r then nth k (flat3 a) 0 else 0)) in E.
  2:{ intros k Hk. rewrite Dlv by exact Hk. unfold kdelta. destruct (Nat.eqb k r); ring. }
  rewrite bsum_delta in E by exact Hr. rewrite E. rewrite HL by lia. rewrite Lb.
  apply bsum_ext. intros c Hc. unfold Lrow. rewrite flat3_unflat3_nth by exact Hc. ring.
Qed.
End MillProofs.
