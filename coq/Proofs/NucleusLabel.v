(** C06 — the label recogniser [parse_label] against an inductive description of the label grammar
    (NUCLEUS under IGNORECASE, anchored):
      [ "@" | ("G"|"g")("H"|"h")"(" ]  ( digits? letters{1,3} ( "_" word+ | digits )?  |  digits{1,3} ( "_" word+ )? )
      ( "@" digits "." digits )?   [ ")" iff the label opened with Gh( ]                                        *)
From Coq Require Import ZArith NArith List Bool String Ascii QArith Lia.
Require Import QV.Common.Outcome QV.Model.Nucleus.
Import ListNotations.
Open Scope list_scope.

Definition all (p : ascii -> bool) (l : list ascii) : Prop := forallb p l = true.

Inductive MassPart : list ascii -> option Q -> Prop :=
| MP_none : MassPart [] None
| MP_some d1 d2 : d1 <> [] -> d2 <> [] -> all is_digit d1 -> all is_digit d2 ->
    MassPart (ch 64 :: d1 ++ ch 46 :: d2) (Some (mass_of d1 d2)).

Inductive User1 : list ascii -> option string -> Prop :=
| U1_none : User1 [] None
| U1_tag ws : ws <> [] -> all is_word ws -> User1 (ch 95 :: ws) (Some (string_of_list_ascii (ch 95 :: ws)))
| U1_num ds : ds <> [] -> all is_digit ds -> User1 ds (Some (string_of_list_ascii ds)).

Inductive User2 : list ascii -> option string -> Prop :=
| U2_none : User2 [] None
| U2_tag ws : ws <> [] -> all is_word ws -> User2 (ch 95 :: ws) (Some (string_of_list_ascii (ch 95 :: ws))).

Definition suffix (g : ghost) : list ascii := match g with Gh2 => [ch 41] | _ => [] end.

Inductive Body (g : ghost) : list ascii -> label_fields -> Prop :=
| B_sym a e us u ms m :
    all is_digit a -> all is_alpha e -> (1 <= List.length e <= 3)%nat -> User1 us u -> MassPart ms m ->
    Body g (a ++ e ++ us ++ ms ++ suffix g)
         {| lA := if is_nil a then None else Some (int_of_digits a); lZ := None; lE := Some (string_of_list_ascii e);
            lmass := m; lreal := real_of g; luser := u |}
| B_num z us u ms m :
    all is_digit z -> (1 <= List.length z <= 3)%nat -> User2 us u -> MassPart ms m ->
    Body g (z ++ us ++ ms ++ suffix g)
         {| lA := None; lZ := Some (int_of_digits z); lE := None; lmass := m; lreal := real_of g; luser := u |}.

Inductive Label : list ascii -> label_fields -> Prop :=
| L_plain s f : Body GhNone s f -> Label s f
| L_at s f : Body Gh1 s f -> Label (ch 64 :: s) f
| L_gh c0 c1 s f : (c0 = ch 71 \/ c0 = ch 103) -> (c1 = ch 72 \/ c1 = ch 104) -> Body Gh2 s f ->
                   Label (c0 :: c1 :: ch 40 :: s) f.

(* ------------------------------------------------------------------------------------------ *)
(** * Building blocks *)

Lemma c_eq_true c n : c_eq c n = true -> c = ch n.
Proof. unfold c_eq, ch, acode. intro H. apply N.eqb_eq in H. rewrite <- H. symmetry. apply ascii_N_embedding. Qed.

Lemma c_eq_ch n : (n < 256)%N -> c_eq (ch n) n = true.
Proof. intro H. unfold c_eq, ch, acode. rewrite N_ascii_embedding by exact H. apply N.eqb_refl. Qed.

Lemma span_spec p l a b : span p l = (a, b) -> l = a ++ b /\ all p a.
Proof.
  revert a b; induction l as [|c l IH]; intros a b H; simpl in H.
  - injection H as <- <-. split; reflexivity.
  - destruct (p c) eqn:E.
    + destruct (span p l) as [a' b'] eqn:S. injection H as <- <-. destruct (IH _ _ eq_refl) as [-> Ha].
      split; [reflexivity|]. unfold all. simpl. rewrite E. exact Ha.
    + injection H as <- <-. split; reflexivity.
Qed.

Lemma span_app p a b : all p a -> (b = [] \/ exists c r, b = c :: r /\ p c = false) -> span p (a ++ b) = (a, b).
Proof.
  intros Ha Hb. induction a as [|c a IH]; simpl.
  - destruct Hb as [->|(c & r & -> & Hc)]; simpl; [reflexivity | rewrite Hc; reflexivity].
  - unfold all in Ha. simpl in Ha. apply andb_true_iff in Ha. destruct Ha as [Hc Ha]. rewrite Hc, (IH Ha). reflexivity.
Qed.

Lemma is_nil_false {A} (l : list A) : is_nil l = false <-> l <> [].
Proof. destruct l; simpl; split; intro H; congruence. Qed.

Lemma take_n_spec p n r a b : take_n p n r = Some (a, b) -> r = a ++ b /\ List.length a = n /\ all p a.
Proof.
  unfold take_n. destruct (Nat.eqb (List.length (firstn n r)) n && forallb p (firstn n r)) eqn:E; [|discriminate].
  intro H. injection H as <- <-. apply andb_true_iff in E. destruct E as [E1 E2]. apply Nat.eqb_eq in E1.
  split; [symmetry; apply firstn_skipn | split; assumption].
Qed.

Lemma take_n_app p a b : all p a -> take_n p (List.length a) (a ++ b) = Some (a, b).
Proof.
  intro Ha. unfold take_n.
  assert (F : firstn (List.length a) (a ++ b) = a).
  { rewrite firstn_app, Nat.sub_diag, firstn_all. simpl. apply app_nil_r. }
  assert (S : skipn (List.length a) (a ++ b) = b).
  { rewrite skipn_app, Nat.sub_diag, skipn_all. reflexivity. }
  rewrite F, S, Nat.eqb_refl. unfold all in Ha. rewrite Ha. reflexivity.
Qed.

Lemma close_spec g r : close g r = true <-> r = suffix g.
Proof.
  destruct g; simpl.
  - destruct r; simpl; split; intro H; congruence.
  - destruct r; simpl; split; intro H; congruence.
  - destruct r as [|c [|c' r]]; simpl; split; intro H; try congruence.
    + apply c_eq_true in H. subst c. reflexivity.
    + injection H as ->. vm_compute. reflexivity.
Qed.

Lemma first_some_inv {A} (a b : option A) x : first_some a b = Some x -> a = Some x \/ b = Some x.
Proof. destruct a; simpl; auto. Qed.

Lemma first_some_ex {A} (a b : option A) : (exists x, a = Some x) \/ (exists x, b = Some x) -> exists x, first_some a b = Some x.
Proof. destruct a; simpl; [eauto | intros [[x H]|H]; [discriminate | exact H]]. Qed.

(* ------------------------------------------------------------------------------------------ *)
(** * Soundness *)

Lemma tail_sound g r m : tail g r = Some m -> exists ms, MassPart ms m /\ r = ms ++ suffix g.
Proof.
  assert (NM : forall m, (if close g r then Some None else None) = Some m -> exists ms, MassPart ms m /\ r = ms ++ suffix g).
  { intros m0 H. destruct (close g r) eqn:C; [|discriminate]. injection H as <-. exists []. split; [constructor|].
    apply close_spec in C. exact C. }
  unfold tail. destruct r as [|c r1]; [apply NM|].
  destruct (c_eq c 64) eqn:E0; [|apply NM].
  destruct (span is_digit r1) as [d1 r2] eqn:S1.
  destruct (is_nil d1) eqn:N1; [apply NM|].
  destruct r2 as [|dot r3]; [apply NM|].
  destruct (c_eq dot 46) eqn:E1; [|apply NM].
  destruct (span is_digit r3) as [d2 r4] eqn:S2.
  destruct (negb (is_nil d2) && close g r4) eqn:E2; [|apply NM].
  intro H. injection H as <-. apply andb_true_iff in E2. destruct E2 as [N2 C]. apply negb_true_iff in N2.
  apply close_spec in C. apply c_eq_true in E0. apply c_eq_true in E1. subst c dot r4.
  destruct (span_spec _ _ _ _ S1) as [-> A1]. destruct (span_spec _ _ _ _ S2) as [-> A2].
  exists (ch 64 :: d1 ++ ch 46 :: d2). split.
  - constructor; auto; apply is_nil_false; assumption.
  - change ((ch 64 :: d1 ++ ch 46 :: d2) ++ suffix g) with (ch 64 :: (d1 ++ ch 46 :: d2) ++ suffix g).
    rewrite <- List.app_assoc. reflexivity.
Qed.

Lemma user1_tail_sound g r u m : user1_tail g r = Some (u, m) ->
  exists us ms, User1 us u /\ MassPart ms m /\ r = us ++ ms ++ suffix g.
Proof.
  unfold user1_tail. intro H. apply first_some_inv in H. destruct H as [H|H]; [|apply first_some_inv in H; destruct H as [H|H]].
  - destruct r as [|c w]; [discriminate|]. destruct (c_eq c 95) eqn:E; [|discriminate].
    destruct (span is_word w) as [ws r3] eqn:S. destruct (is_nil ws) eqn:N; [discriminate|].
    destruct (tail g r3) as [m0|] eqn:T; [|discriminate]. injection H as <- <-.
    destruct (tail_sound _ _ _ T) as (ms & Hms & ->). destruct (span_spec _ _ _ _ S) as [-> Aw]. apply c_eq_true in E. subst c.
    exists (ch 95 :: ws), ms. split; [constructor; [apply is_nil_false; assumption | exact Aw] | split; [exact Hms|]].
    reflexivity.
  - destruct (span is_digit r) as [ds r3] eqn:S. destruct (is_nil ds) eqn:N; [discriminate|].
    destruct (tail g r3) as [m0|] eqn:T; [|discriminate]. injection H as <- <-.
    destruct (tail_sound _ _ _ T) as (ms & Hms & ->). destruct (span_spec _ _ _ _ S) as [-> Ad].
    exists ds, ms. split; [constructor; [apply is_nil_false; assumption | exact Ad] | split; [exact Hms | reflexivity]].
  - destruct (tail g r) as [m0|] eqn:T; [|discriminate]. injection H as <- <-.
    destruct (tail_sound _ _ _ T) as (ms & Hms & ->). exists [], ms. split; [constructor | split; [exact Hms | reflexivity]].
Qed.

Lemma user2_tail_sound g r u m : user2_tail g r = Some (u, m) ->
  exists us ms, User2 us u /\ MassPart ms m /\ r = us ++ ms ++ suffix g.
Proof.
  unfold user2_tail. intro H. apply first_some_inv in H. destruct H as [H|H].
  - destruct r as [|c w]; [discriminate|]. destruct (c_eq c 95) eqn:E; [|discriminate].
    destruct (span is_word w) as [ws r3] eqn:S. destruct (is_nil ws) eqn:N; [discriminate|].
    destruct (tail g r3) as [m0|] eqn:T; [|discriminate]. injection H as <- <-.
    destruct (tail_sound _ _ _ T) as (ms & Hms & ->). destruct (span_spec _ _ _ _ S) as [-> Aw]. apply c_eq_true in E. subst c.
    exists (ch 95 :: ws), ms. split; [constructor; [apply is_nil_false; assumption | exact Aw] | split; [exact Hms|]].
    reflexivity.
  - destruct (tail g r) as [m0|] eqn:T; [|discriminate]. injection H as <- <-.
    destruct (tail_sound _ _ _ T) as (ms & Hms & ->). exists [], ms. split; [constructor | split; [exact Hms | reflexivity]].
Qed.

Lemma label1_sound g s f : label1 g s = Some f -> Body g s f.
Proof.
  unfold label1. destruct (span is_digit s) as [ds r] eqn:S. destruct (span_spec _ _ _ _ S) as [-> Ad].
  assert (TE : forall n, (1 <= n <= 3)%nat ->
    match take_n is_alpha n r with
    | Some (e, r2) => match user1_tail g r2 with
                      | Some (u, m) => Some {| lA := if is_nil ds then None else Some (int_of_digits ds); lZ := None;
                                               lE := Some (string_of_list_ascii e); lmass := m; lreal := real_of g; luser := u |}
                      | None => None end
    | None => None end = Some f -> Body g (ds ++ r) f).
  { intros n Hn H. destruct (take_n is_alpha n r) as [[e r2]|] eqn:T; [|discriminate].
    destruct (user1_tail g r2) as [[u m]|] eqn:U; [|discriminate]. injection H as <-.
    destruct (take_n_spec _ _ _ _ _ T) as (-> & Hl & Ae). destruct (user1_tail_sound _ _ _ _ U) as (us & ms & Hu & Hm & ->).
    apply B_sym; auto. rewrite Hl. exact Hn. }
  intro H. apply first_some_inv in H. destruct H as [H|H]; [apply (TE 3%nat); [lia | exact H]|].
  apply first_some_inv in H. destruct H as [H|H]; [apply (TE 2%nat); [lia | exact H] | apply (TE 1%nat); [lia | exact H]].
Qed.

Lemma label2_sound g s f : label2 g s = Some f -> Body g s f.
Proof.
  unfold label2.
  assert (TZ : forall n, (1 <= n <= 3)%nat ->
    match take_n is_digit n s with
    | Some (z, r2) => match user2_tail g r2 with
                      | Some (u, m) => Some {| lA := None; lZ := Some (int_of_digits z); lE := None; lmass := m;
                                               lreal := real_of g; luser := u |}
                      | None => None end
    | None => None end = Some f -> Body g s f).
  { intros n Hn H. destruct (take_n is_digit n s) as [[z r2]|] eqn:T; [|discriminate].
    destruct (user2_tail g r2) as [[u m]|] eqn:U; [|discriminate]. injection H as <-.
    destruct (take_n_spec _ _ _ _ _ T) as (-> & Hl & Az). destruct (user2_tail_sound _ _ _ _ U) as (us & ms & Hu & Hm & ->).
    apply B_num; auto. rewrite Hl. exact Hn. }
  intro H. apply first_some_inv in H. destruct H as [H|H]; [apply (TZ 3%nat); [lia | exact H]|].
  apply first_some_inv in H. destruct H as [H|H]; [apply (TZ 2%nat); [lia | exact H] | apply (TZ 1%nat); [lia | exact H]].
Qed.

Lemma body_sound g s f : body g s = Some f -> Body g s f.
Proof. unfold body. intro H. apply first_some_inv in H. destruct H; [apply label1_sound | apply label2_sound]; assumption. Qed.

Lemma match_label_sound s f : match_label s = Some f -> Label s f.
Proof.
  unfold match_label. assert (P : body GhNone s = Some f -> Label s f) by (intro H; apply L_plain, body_sound, H).
  destruct s as [|c0 r0]; [exact P|].
  destruct (c_eq c0 64) eqn:E0.
  - intro H. apply first_some_inv in H. destruct H as [H|H]; [|exact (P H)].
    apply c_eq_true in E0. subst c0. apply L_at, body_sound, H.
  - destruct r0 as [|c1 [|c2 r2]]; try exact P.
    destruct ((c_eq c0 71 || c_eq c0 103) && (c_eq c1 72 || c_eq c1 104) && c_eq c2 40) eqn:E; [|exact P].
    intro H. apply first_some_inv in H. destruct H as [H|H]; [|exact (P H)].
    apply andb_true_iff in E. destruct E as [E E2]. apply andb_true_iff in E. destruct E as [Ea Eb].
    apply c_eq_true in E2. subst c2. apply L_gh.
    + apply orb_true_iff in Ea. destruct Ea as [Ea|Ea]; apply c_eq_true in Ea; auto.
    + apply orb_true_iff in Eb. destruct Eb as [Eb|Eb]; apply c_eq_true in Eb; auto.
    + apply body_sound, H.
Qed.

Theorem parse_label_sound s f : parse_label s = Ok f -> Label (list_ascii_of_string s) f.
Proof.
  unfold parse_label. destruct (match_label (list_ascii_of_string s)) as [f'|] eqn:E; simpl; [|discriminate].
  intro H. injection H as <-. apply match_label_sound, E.
Qed.

(* ------------------------------------------------------------------------------------------ *)
(** * Completeness (every string of the grammar is accepted) *)

Lemma suffix_head g p : p (ch 41) = false -> suffix g = [] \/ exists c r, suffix g = c :: r /\ p c = false.
Proof. intro H. destruct g; simpl; auto. right. eauto. Qed.

Lemma tail_complete g ms m : MassPart ms m -> exists m', tail g (ms ++ suffix g) = Some m'.
Proof.
  intros [|d1 d2 N1 N2 A1 A2].
  - simpl. unfold tail. assert (C : close g (suffix g) = true) by (apply close_spec; reflexivity).
    destruct (suffix g) as [|c r1] eqn:Es.
    + rewrite C. eauto.
    + destruct g; try discriminate. simpl in Es. injection Es as <- <-. simpl. eauto.
  - unfold tail. cbn [app]. rewrite (c_eq_ch 64) by reflexivity.
    rewrite <- List.app_assoc. cbn [app].
    rewrite (span_app is_digit d1 (ch 46 :: d2 ++ suffix g) A1) by (right; eauto).
    apply is_nil_false in N1. rewrite N1. rewrite (c_eq_ch 46) by reflexivity.
    rewrite (span_app is_digit d2 (suffix g) A2) by (apply suffix_head; reflexivity).
    apply is_nil_false in N2. rewrite N2. cbn [negb andb].
    assert (C : close g (suffix g) = true) by (apply close_spec; reflexivity). rewrite C. eauto.
Qed.

Lemma masspart_head ms m g p : MassPart ms m -> p (ch 64) = false -> p (ch 41) = false ->
  ms ++ suffix g = [] \/ exists c r, ms ++ suffix g = c :: r /\ p c = false.
Proof.
  intros [|d1 d2 _ _ _ _] H1 H2; simpl; [apply suffix_head, H2 | right; eauto].
Qed.

Lemma user1_tail_complete g us u ms m : User1 us u -> MassPart ms m ->
  exists x, user1_tail g (us ++ ms ++ suffix g) = Some x.
Proof.
  intros Hu Hm. destruct (tail_complete g ms m Hm) as [m' T]. unfold user1_tail. apply first_some_ex.
  destruct Hu as [|ws N A|ds N A].
  - right. apply first_some_ex. right. cbn [app]. rewrite T. eauto.
  - left. cbn [app]. rewrite (c_eq_ch 95) by reflexivity.
    rewrite (span_app is_word ws (ms ++ suffix g) A) by (eapply masspart_head; [eassumption | reflexivity | reflexivity]).
    apply is_nil_false in N. rewrite N, T. eauto.
  - right. apply first_some_ex. left.
    rewrite (span_app is_digit ds (ms ++ suffix g) A) by (eapply masspart_head; [eassumption | reflexivity | reflexivity]).
    apply is_nil_false in N. rewrite N, T. eauto.
Qed.

Lemma user2_tail_complete g us u ms m : User2 us u -> MassPart ms m ->
  exists x, user2_tail g (us ++ ms ++ suffix g) = Some x.
Proof.
  intros Hu Hm. destruct (tail_complete g ms m Hm) as [m' T]. unfold user2_tail. apply first_some_ex.
  destruct Hu as [|ws N A].
  - right. cbn [app]. rewrite T. eauto.
  - left. cbn [app]. rewrite (c_eq_ch 95) by reflexivity.
    rewrite (span_app is_word ws (ms ++ suffix g) A) by (eapply masspart_head; [eassumption | reflexivity | reflexivity]).
    apply is_nil_false in N. rewrite N, T. eauto.
Qed.

Lemma alpha_head_not_digit e rest : all is_alpha e -> (1 <= List.length e)%nat ->
  exists c r, e ++ rest = c :: r /\ is_digit c = false.
Proof.
  intros A L. destruct e as [|c e]; [simpl in L; lia|]. exists c, (e ++ rest). split; [reflexivity|].
  unfold all in A. simpl in A. apply andb_true_iff in A. destruct A as [A _].
  revert A. unfold is_alpha, is_upper, is_lower, is_digit. generalize (acode c). intro n.
  repeat match goal with |- context [(?a <=? ?b)%N] => destruct (N.leb_spec a b) end; cbn [andb orb]; intro Hx;
    try reflexivity; try discriminate Hx; lia.
Qed.

Lemma body_complete g s f : Body g s f -> exists f', body g s = Some f'.
Proof.
  intros [a e us u ms m Aa Ae Le Hu Hm | z us u ms m Az Lz Hu Hm]; unfold body; apply first_some_ex.
  - left. unfold label1. rewrite (span_app is_digit a (e ++ us ++ ms ++ suffix g) Aa) by (right; apply alpha_head_not_digit; [assumption | lia]).
    destruct (user1_tail_complete g us u ms m Hu Hm) as [[u' m'] U].
    assert (T : take_n is_alpha (List.length e) (e ++ us ++ ms ++ suffix g) = Some (e, us ++ ms ++ suffix g)) by (apply take_n_app, Ae).
    destruct (List.length e) as [|[|[|[|n]]]] eqn:El; try lia.
    + apply first_some_ex. right. apply first_some_ex. right. rewrite T, U. eauto.
    + apply first_some_ex. right. apply first_some_ex. left. rewrite T, U. eauto.
    + apply first_some_ex. left. rewrite T, U. eauto.
  - right. unfold label2.
    destruct (user2_tail_complete g us u ms m Hu Hm) as [[u' m'] U].
    assert (T : take_n is_digit (List.length z) (z ++ us ++ ms ++ suffix g) = Some (z, us ++ ms ++ suffix g)) by (apply take_n_app, Az).
    destruct (List.length z) as [|[|[|[|n]]]] eqn:El; try lia.
    + apply first_some_ex. right. apply first_some_ex. right. rewrite T, U. eauto.
    + apply first_some_ex. right. apply first_some_ex. left. rewrite T, U. eauto.
    + apply first_some_ex. left. rewrite T, U. eauto.
Qed.

Lemma match_label_complete s f : Label s f -> exists f', match_label s = Some f'.
Proof.
  intros [s0 f0 B | s0 f0 B | c0 c1 s0 f0 H0 H1 B]; destruct (body_complete _ _ _ B) as [f' Hf'].
  - unfold match_label. destruct s0 as [|c0 r0]; [eauto|].
    destruct (c_eq c0 64); [apply first_some_ex; right; eauto|].
    destruct r0 as [|c1 [|c2 r2]]; eauto.
    destruct (_ && _); [apply first_some_ex; right; eauto | eauto].
  - unfold match_label. rewrite (c_eq_ch 64) by reflexivity. apply first_some_ex. left. eauto.
  - unfold match_label.
    assert (E0 : c_eq c0 64 = false) by (destruct H0 as [-> | ->]; reflexivity). rewrite E0.
    assert (Ea : c_eq c0 71 || c_eq c0 103 = true) by (destruct H0 as [-> | ->]; reflexivity).
    assert (Eb : c_eq c1 72 || c_eq c1 104 = true) by (destruct H1 as [-> | ->]; reflexivity).
    rewrite Ea, Eb, (c_eq_ch 40) by reflexivity. cbn [andb]. apply first_some_ex. left. eauto.
Qed.

Theorem parse_label_complete s f : Label (list_ascii_of_string s) f -> exists f', parse_label s = Ok f'.
Proof.
  intro H. destruct (match_label_complete _ _ H) as [f' E]. exists f'. unfold parse_label. rewrite E. reflexivity.
Qed.
