(** C19 — companions of the specifications of Proofs/Compare.v: compare_values without the phase option, and the
    False verdict of the exact comparison. *)
From Coq Require Import PrimFloat ZArith List Bool String.
Require Import QV.Model.Compare QV.Proofs.Compare.
Import ListNotations.

Theorem no_phase_spec o e c : cv_phase o = false ->
  (compare_values o e c = Ok true <->
   both_none o e c = true \/
   (atol_exc (atol o) = None /\
    ((iscomplex_pair e c = Ok false /\
      exists sh de dc, cast_with to_f e = COk (sh, de) /\ cast_with to_f c = COk (sh, dc) /\ Close (close_f o) dc de) \/
     (iscomplex_pair e c = Ok true /\
      exists sh de dc, cast_with to_c e = COk (sh, de) /\ cast_with to_c c = COk (sh, dc) /\ Close (close_c o) dc de)))).
Proof.
  intro Hp. rewrite compare_values_spec. unfold Agree. rewrite Hp.
  split.
  - intros [H|[Ha [[Hc (sh&de&dc&H1&H2&[H3|[H3 _]])]|[Hc (sh&de&dc&H1&H2&[H3|[H3 _]])]]]]; try discriminate.
    + left; exact H.
    + right; split; [exact Ha|]. left. split; [exact Hc|]. exists sh, de, dc. auto.
    + right; split; [exact Ha|]. right. split; [exact Hc|]. exists sh, de, dc. auto.
  - intros [H|[Ha [[Hc (sh&de&dc&H1&H2&H3)]|[Hc (sh&de&dc&H1&H2&H3)]]]].
    + left; exact H.
    + right; split; [exact Ha|]. left. split; [exact Hc|]. exists sh, de, dc. auto.
    + right; split; [exact Ha|]. right. split; [exact Hc|]. exists sh, de, dc. auto.
Qed.

Theorem compare_false_spec ph e c :
  compare ph e c = Ok false <->
  snd (nd_of e) = NdRagged \/
  (exists she de, snd (nd_of e) = NdOk she de /\
     (snd (nd_of c) = NdRagged \/
      exists shc dc dte dtc,
        snd (nd_of c) = NdOk shc dc /\ dtype_of (fst (nd_of e)) de = Some dte /\ dtype_of (fst (nd_of c)) dc = Some dtc /\
        existsb is_sobj de = false /\ existsb is_sobj dc = false /\
        (she <> shc \/
         (she = shc /\ all2o de dc = Some false /\
          (ph = false \/ neg_data dtc dc = None \/ exists ndc, neg_data dtc dc = Some ndc /\ all2o de ndc = Some false))))).
Proof.
  unfold compare.
  destruct (nd_of e) as [se [she de| |]]; simpl.
  2:{ split; [intros _; left; reflexivity | reflexivity]. }
  2:{ split; [discriminate | intros [H|(?&?&H&_)]; discriminate]. }
  destruct (nd_of c) as [sc [shc dc| |]]; simpl.
  2:{ split; [intros _; right; exists she, de; split; [reflexivity | left; reflexivity] | reflexivity]. }
  2:{ split; [discriminate | intros [H|(?&?&H&[H'|(?&?&?&?&H'&_)])]; discriminate]. }
  destruct (dtype_of se de) as [dte|] eqn:Ee.
  2:{ split; [discriminate | intros [H|(?&?&H&[H'|(?&?&?&?&H'&H''&_)])]; try discriminate]. inversion H; subst. congruence. }
  destruct (dtype_of sc dc) as [dtc|] eqn:Ec.
  2:{ split; [discriminate | intros [H|(?&?&H&[H'|(?&?&?&?&H'&_&H''&_)])]; try discriminate]. inversion H'; subst. congruence. }
  destruct (existsb is_sobj de) eqn:Se; simpl.
  { split; [discriminate | intros [H|(?&?&H&[H'|(?&?&?&?&H'&_&_&H''&_)])]; try discriminate]. inversion H; subst. congruence. }
  destruct (existsb is_sobj dc) eqn:Sc; simpl.
  { split; [discriminate | intros [H|(?&?&H&[H'|(?&?&?&?&H'&_&_&_&H''&_)])]; try discriminate]. inversion H'; subst. congruence. }
  assert (G : forall P : Prop,
     (P <-> (she <> shc \/ (she = shc /\ all2o de dc = Some false /\
          (ph = false \/ neg_data dtc dc = None \/ exists ndc, neg_data dtc dc = Some ndc /\ all2o de ndc = Some false)))) ->
     (P <-> (NdOk she de = NdRagged \/
  (exists she0 de0, NdOk she de = NdOk she0 de0 /\
     (NdOk shc dc = NdRagged \/
      exists shc0 dc0 dte0 dtc0,
        NdOk shc dc = NdOk shc0 dc0 /\ dtype_of se de0 = Some dte0 /\ dtype_of sc dc0 = Some dtc0 /\
        existsb is_sobj de0 = false /\ existsb is_sobj dc0 = false /\
        (she0 <> shc0 \/
         (she0 = shc0 /\ all2o de0 dc0 = Some false /\
          (ph = false \/ neg_data dtc0 dc0 = None \/ exists ndc, neg_data dtc0 dc0 = Some ndc /\ all2o de0 ndc = Some false)))))))).
  { intros P HP. rewrite HP. split.
    - intro H. right. exists she, de. split; [reflexivity|]. right. exists shc, dc, dte, dtc. repeat split; auto.
    - intros [H|(she0&de0&H&[H'|(shc0&dc0&dte0&dtc0&H'&H1&H2&_&_&H3)])]; try discriminate.
      inversion H; inversion H'; subst. rewrite Ec in H2. inversion H2; subst. exact H3. }
  apply G. clear G.
  destruct (shape_eqb she shc) eqn:Es; simpl.
  - apply shape_eqb_eq in Es. subst shc.
    destruct (all2o de dc) as [[|]|] eqn:Ea.
    + split; [discriminate | intros [H|(_&H&_)]; [congruence | discriminate]].
    + destruct ph.
      * destruct (neg_data dtc dc) as [ndc|] eqn:En.
        -- destruct (all2o de ndc) as [[|]|] eqn:Ea2.
           ++ split; [discriminate|]. intros [H|(_&_&[H|[H|(n&H&H')]])]; try congruence; try (inversion H; subst; congruence).
           ++ split; [|reflexivity]. intros _. right. repeat split; auto. right. right. exists ndc. auto.
           ++ split; [discriminate|]. intros [H|(_&_&[H|[H|(n&H&H')]])]; try congruence; try (inversion H; subst; congruence).
        -- split; [|reflexivity]. intros _. right. repeat split; auto.
      * split; [|reflexivity]. intros _. right. repeat split; auto.
    + split; [discriminate | intros [H|(_&H&_)]; [congruence | discriminate]].
  - split; [|reflexivity]. intros _. left. intro; subst.
    assert (shape_eqb shc shc = true) by (apply shape_eqb_eq; reflexivity). congruence.
Qed.
