(** C16 — the geometry that the public entry points STORE: float_prep (Gen/OrientStore.v, translated from the source)
    applied to the internal result.  Sign convention on the stored molecule, and the flush zone in which it fails. *)
From Coq Require Import List Bool ZArith Reals Lra Lia.
Require Import QV.Common.Outcome QV.Common.Geo3 QV.Common.Geo3Facts QV.Common.Geo3Sum QV.Common.Geo3Loop QV.Common.Geo3R.
Require Import QV.Gen.Inertia QV.Gen.OrientBody QV.Gen.OrientStore QV.Model.Orient QV.Proofs.Orient QV.Proofs.OrientR QV.Proofs.OrientGen QV.Proofs.OrientUniq QV.Proofs.OrientDeg.
Import ListNotations.
Local Open Scope R_scope.

Lemma fofpos_IZR (p : positive) : fofpos RK p = IZR (Zpos p).
Proof.
  induction p; cbn [fofpos]; change (fadd RK) with Rplus; change (fmul RK) with Rmult; change (f1 RK) with 1.
  - rewrite IHp, Pos2Z.inj_xI, plus_IZR, mult_IZR. lra.
  - rewrite IHp, Pos2Z.inj_xO, mult_IZR. lra.
  - reflexivity.
Qed.

Lemma fofZ_IZR (z : Z) : fofZ RK z = IZR z.
Proof.
  destruct z; cbn [fofZ].
  - reflexivity.
  - apply fofpos_IZR.
  - change (fopp RK) with Ropp. rewrite fofpos_IZR. change (Z.neg p) with (- Z.pos p)%Z. rewrite opp_IZR. reflexivity.
Qed.

Lemma noise_val : noise RK = / 100000000.
Proof. unfold noise. rewrite fofZ_IZR. reflexivity. Qed.

Lemma py_abs_Rabs (v : R) : py_abs RK v = Rabs v.
Proof.
  unfold py_abs. change (fltb RK) with Rltb. change (f0 RK) with 0. change (fopp RK) with Ropp.
  destruct (Rltb v 0) eqn:E.
  - apply Rltb_true in E. rewrite Rabs_left; lra.
  - apply Rltb_false in E. rewrite Rabs_right; lra.
Qed.

(** what is assumed of np.around(x, GEOMETRY_NOISE): at most half a unit (0.5e-8) away from x *)
Definition around_ok (rnd : R -> R) : Prop := forall x, Rabs (rnd x - x) <= noise RK / 2.

Section Stored.
  Variable np_around : Z -> R -> R.
  Hypothesis Hr : around_ok (np_around geometry_noise_exp).
  Let st : R -> R := float_prep_entry_gen RK np_around geometry_noise_exp.

  Lemma st_cases (x : R) :
    (st x = 0 /\ Rabs (np_around geometry_noise_exp x) < / 1953125)
    \/ (st x = np_around geometry_noise_exp x /\ / 1953125 <= Rabs (np_around geometry_noise_exp x)).
  Proof.
    unfold st, float_prep_entry_gen. rewrite py_abs_Rabs, !fofZ_IZR. change (fltb RK) with Rltb. change (finv RK) with Rinv.
    change (IZR (5 ^ (geometry_noise_exp + 1))) with 1953125.
    destruct (Rltb (Rabs (np_around geometry_noise_exp x)) (/ 1953125)) eqn:E.
    - left. apply Rltb_true in E. split; [reflexivity | exact E].
    - right. apply Rltb_false in E. split; [reflexivity | exact E].
  Qed.

  (* an entry the phase loop regards as on the plane is stored as 0.0 *)
  Lemma st_small (u : R) : Rabs u < noise RK -> st u = 0.
  Proof.
    intro H. destruct (st_cases u) as [[E _] | [_ B]]; [exact E | exfalso].
    pose proof (Hr u) as A. rewrite noise_val in *.
    revert A B H. unfold Rabs. repeat destruct Rcase_abs; intros; lra.
  Qed.

  (* an entry that is visibly off the plane in the stored molecule was at least the phase threshold, and keeps its sign *)
  Lemma st_visible (v : R) : st v <> 0 -> noise RK <= Rabs v /\ (0 < v -> 0 < st v) /\ (v < 0 -> st v < 0).
  Proof.
    intro H. destruct (st_cases v) as [[E _] | [E B]]; [contradiction|]. rewrite E.
    pose proof (Hr v) as A. rewrite noise_val in *.
    revert A B. unfold Rabs. repeat destruct Rcase_abs; intros; repeat split; intros; lra.
  Qed.

  (** sign convention on the STORED geometry: if every atom listed before v lies on the plane for the phase loop
      (|u| < 1e-8) and v is visibly off the plane in the stored molecule, then all those atoms are stored as 0.0 and v is
      stored positive.  The hypothesis on [pre] excludes exactly the flush zone: an earlier atom with
      1e-8 <= |u| that float_prep stores as 0.0 (|round(u, 8)| < 5^-9). *)
  Theorem stored_sign_convention_R eigh (atoms r : list (watom RK)) (proj : vec3 RK -> RK) :
    orient_atoms RK eigh atoms = Ok r -> (proj = vx \/ proj = vy \/ proj = vz) ->
    forall pre v post,
      map proj (map fst r) = pre ++ v :: post ->
      (forall u, In u pre -> Rabs u < noise RK) -> st v <> 0 ->
      (forall u, In u pre -> st u = 0) /\ 0 < st v.
  Proof.
    intros H Hp pre v post E Hpre Hv. split.
    - intros u Hu. apply st_small. apply Hpre. exact Hu.
    - destruct (st_visible v Hv) as [N [P _]]. apply P.
      eapply orient_phase_convention_R; eassumption.
  Qed.

  (** the same read off the stored column alone: the first non-zero stored entry is positive, PROVIDED no earlier entry
      was in the flush zone *)
  Theorem stored_first_nonzero_positive eigh (atoms r : list (watom RK)) (proj : vec3 RK -> RK) :
    orient_atoms RK eigh atoms = Ok r -> (proj = vx \/ proj = vy \/ proj = vz) ->
    forall pre v post,
      map proj (map fst r) = pre ++ v :: post ->
      (forall u, In u pre -> st u = 0) -> st v <> 0 ->
      (forall u, In u pre -> ~ (noise RK <= Rabs u)) ->      (* no earlier atom in the flush zone *)
      0 < st v.
  Proof.
    intros H Hp pre v post E _ Hv Hz.
    apply (stored_sign_convention_R eigh atoms r proj H Hp pre v post E); [|exact Hv].
    intros u Hu. specialize (Hz u Hu). lra.
  Qed.

  (** the flush zone: rows on which the stored sign convention FAILS, whatever the rounding function (within half a unit):
      atom 0 at +2e-7 decides the phase of the column (2e-7 >= 1e-8) and is then stored as 0.0; atom 1 at -3 is the first atom
      visibly off the plane in the stored molecule, and it is negative *)
  Theorem stored_sign_convention_flush_zone_refuted :
    exists rows : list (vec3 RK),
      let col := map vx (apply_phase RK (noise RK) rows) in
      exists u v, col = [u; v] /\ noise RK <= Rabs u /\ st u = 0 /\ st v <> 0 /\ st v < 0.
  Proof.
    exists [(2 / 10000000, 0, 0); (-3, 0, 0)].
    assert (P : apply_phase RK (noise RK) [(2 / 10000000, 0, 0); (-3, 0, 0)] = [(2 / 10000000, 0, 0); (-3, 0, 0)]).
    { unfold apply_phase, phase_signs, phase_scan, row_step, axis_step, pstate0, all_checked. cbn [fst snd vx vy vz].
      rewrite !fabs_Rabs, noise_val. change (fltb RK) with Rltb. change (f0 RK) with 0. change (f1 RK) with 1.
      assert (A1 : Rltb (Rabs (2 / 10000000)) (/ 100000000) = false) by (apply Rltb_false; rewrite Rabs_right; lra).
      assert (A2 : Rltb (2 / 10000000) 0 = false) by (apply Rltb_false; lra).
      assert (A3 : Rltb (Rabs 0) (/ 100000000) = true) by (apply Rltb_true; rewrite Rabs_R0; lra).
      rewrite A1, A2, A3. cbn [fst snd andb]. unfold apply_signs. cbn [map vzip]. change (fmul RK) with Rmult.
      rewrite !Rmult_1_l. reflexivity. }
    cbn zeta. rewrite P. cbn [map vx fst]. exists (2 / 10000000), (-3). split; [reflexivity|].
    assert (Hu : st (2 / 10000000) = 0).
    { destruct (st_cases (2 / 10000000)) as [[E _] | [_ B]]; [exact E | exfalso].
      pose proof (Hr (2 / 10000000)) as A. rewrite noise_val in A. revert A B. unfold Rabs. repeat destruct Rcase_abs; intros; lra. }
    assert (Hv : st (-3) <> 0 /\ st (-3) < 0).
    { pose proof (Hr (-3)) as A. rewrite noise_val in A.
      destruct (st_cases (-3)) as [[_ B] | [E B]].
      - exfalso. revert A B. unfold Rabs. repeat destruct Rcase_abs; intros; lra.
      - rewrite E. revert A B. unfold Rabs. repeat destruct Rcase_abs; intros; split; lra. }
    split; [rewrite noise_val, Rabs_right; lra|]. split; [exact Hu|]. exact Hv.
  Qed.
End Stored.

(** the generated store applied to the generated body is the store applied to the model *)
Theorem orient_stored_gen_is_model (eigh : mat3 RK -> vec3 RK * mat3 RK) (np_around : Z -> R -> R) (gn : Z) (atoms : list (watom RK)) :
  orient_stored_gen RK eigh np_around gn (map fst atoms) (map snd atoms)
  = obind (orient_atoms RK eigh atoms) (fun r => Ok (map (vmap (float_prep_entry_gen RK np_around gn)) (map fst r))).
Proof.
  unfold orient_stored_gen. rewrite (orient_gen_is_model RK RK_field).
  destruct (orient_atoms RK eigh atoms); reflexivity.
Qed.

(** orienting twice, no assumption on the moments (symmetric / spherical tops, linear molecules): the second result is the first
    one turned by ONE orthogonal matrix that intertwines the two spectra, i.e. mixes only axes of equal moments *)
Theorem orient_twice_degenerate eigh1 eigh2 (atoms r1 r2 : list (watom RK)) :
  total_mass RK atoms <> 0 ->
  let T1 := inertia_tensor RK (centre RK atoms) in
  let T2 := inertia_tensor RK (centre RK r1) in
  eigh_ok RK T1 (eigh1 T1) -> eigh_ok RK T2 (eigh2 T2) ->
  orient_atoms RK eigh1 atoms = Ok r1 -> orient_atoms RK eigh2 r1 = Ok r2 ->
  let l1 := fst (eigh1 T1) in let l2 := fst (eigh2 T2) in
  exists Q : mat3 RK,
    orthogonal Q /\ orthogonal (mtrans Q)
    /\ mmul (mdiag RK (vx l1) (vy l1) (vz l1)) Q = mmul Q (mdiag RK (vx l2) (vy l2) (vz l2))
    /\ map fst r2 = map (fun x => vm x Q) (map fst r1).
Proof.
  intros HM T1 T2 K1 K2 H1 H2 l1 l2. subst l1 l2.
  destruct (orient_atoms_shape RK _ _ _ H1) as [c [V [s [Hc [HV [Hs [_ [Hr _]]]]]]]].
  fold T1 in HV.
  assert (OV : orthogonal V /\ orthogonal (mtrans V)).
  { unfold eigh_ok in K1. rewrite HV. destruct (eigh1 T1) as [lam W]. cbn. tauto. }
  destruct OV as [OV OV']. destruct (smat_orth RK RKf s Hs) as [OS OS'].
  set (M := mmul V (smat RK s)).
  assert (Er : r1 = move_atoms RK M (vneg (vm c M)) atoms).
  { rewrite Hr. unfold move_atoms. apply map_ext. intro a. rewrite (place_as_move RK RKf). reflexivity. }
  assert (OM : orthogonal M) by (apply orth_mul; assumption).
  assert (OM' : orthogonal (mtrans M)) by (apply orth_trans_mul; assumption).
  pose proof (frame_unique_degenerate eigh1 eigh2 atoms M (vneg (vm c M)) r1 r2 OM OM' HM) as F. cbv zeta in F.
  rewrite <- Er in F. apply F; assumption.
Qed.
