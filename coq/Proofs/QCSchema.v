(** C09 — soundness of the descriptor-vs-schema checker: if [compat] accepts a field descriptor D and a
    schema S then the emission of EVERY inhabitant of D is valid against S (unbounded over instances). *)
From Coq Require Import ZArith NArith QArith List String Bool Lia.
Require Import QV.Common.Outcome QV.Common.JsonS QV.Proofs.JsonS QV.Model.QCSchema.
Import ListNotations.

(** ** the executable inhabitation test implies the relation *)
Lemma forallb2_Forall2 : forall A B (f : A -> B -> bool) (P : A -> B -> Prop),
    (forall a b, f a b = true -> P a b) ->
    forall l m, forallb2 f l m = true -> Forall2 P l m.
Proof.
  intros A B f P HP. induction l as [|a l IH]; destruct m as [|b m]; simpl; intros H; try discriminate.
  - constructor.
  - apply andb_true_iff in H. destruct H. constructor; auto.
Qed.

Lemma find_field_some : forall k fs f, find_field k fs = Some f -> In f fs /\ f_alias f = k.
Proof.
  induction fs as [|g fs IH]; simpl; intros f H; [discriminate|].
  destruct (String.eqb k (f_alias g)) eqn:E.
  - inversion H; subst. apply String.eqb_eq in E. split; [left; reflexivity|symmetry; exact E].
  - destruct (IH _ H). split; [right|]; assumption.
Qed.

Theorem inhabitsb_sound : forall n z env D v, inhabitsb n z env D v = true -> Inh z env D v.
Proof.
  induction n as [|n IH]; intros z env D v H; simpl in H; [discriminate|].
  destruct D.
  - destruct v; try discriminate. constructor.
  - destruct v; try discriminate. constructor.
  - destruct v; try discriminate. constructor.
  - destruct v; try discriminate. constructor.
  - constructor.
  - destruct v; try discriminate. constructor. assumption.
  - destruct v; try discriminate. apply andb_true_iff in H. destruct H. constructor; assumption.
  - destruct v; try discriminate. apply andb_true_iff in H. destruct H. constructor; assumption.
  - destruct v; try discriminate.
    apply andb_true_iff in H. destruct H as [H H3]. apply andb_true_iff in H. destruct H as [H1 H2].
    assert (k = k0) by (destruct k, k0; try discriminate; reflexivity). subst k0.
    constructor.
    + intros x Hx. apply IH. rewrite forallb_forall in H2. auto.
    + intros ->. apply andb_true_iff in H3. destruct H3 as [Hz Hd]. split; [assumption|].
      destruct data as [|x [|y r]]; try discriminate. exists x. reflexivity.
  - destruct v; try discriminate.
    apply andb_true_iff in H. destruct H as [H H3]. apply andb_true_iff in H. destruct H as [H1 H2].
    assert (k = k0) by (destruct k, k0; try discriminate; reflexivity). subst k0.
    constructor.
    + intros x Hx. apply IH. rewrite forallb_forall in H2. auto.
    + destruct shape; [discriminate|discriminate].
  - destruct v; try discriminate. apply andb_true_iff in H. destruct H as [H1 H2]. constructor; [|assumption].
    intros x Hx. apply IH. rewrite forallb_forall in H1. auto.
  - destruct v; try discriminate. apply andb_true_iff in H. destruct H as [H H3].
    apply andb_true_iff in H. destruct H as [H1 H2]. constructor; [|assumption|assumption].
    intros x Hx. apply IH. rewrite forallb_forall in H1. auto.
  - destruct v; try discriminate. constructor. eapply forallb2_Forall2; [|exact H]. intros; apply IH; assumption.
  - destruct v; try discriminate. constructor. intros k v Hin. apply IH. rewrite forallb_forall in H.
    apply (H (k, v)). assumption.
  - apply orb_true_iff in H. destruct H as [H|H].
    + destruct v; try discriminate. apply I_opt_none.
    + apply I_opt_some. apply IH. assumption.
  - apply existsb_exists in H. destruct H as [t [Ht1 Ht2]]. eapply I_union; [exact Ht1|]. apply IH. assumption.
  - destruct v; try discriminate. destruct (assoc name env) as [m|] eqn:E; [|discriminate].
    apply andb_true_iff in H. destruct H as [H1 H2]. rewrite forallb_forall in H1, H2.
    eapply I_model; [exact E| | |].
    + intros k v f Hin Hf. specialize (H1 (k, v) Hin). simpl in H1. rewrite Hf in H1.
      apply orb_true_iff in H1. destruct H1 as [H1|H1].
      * apply andb_true_iff in H1. destruct H1 as [Hn Hnl]. left. destruct v; try discriminate. auto.
      * right. apply IH. assumption.
    + intros k v Hin Hf. specialize (H1 (k, v) Hin). simpl in H1. rewrite Hf in H1. assumption.
    + intros f Hin Hr. specialize (H2 f Hin). rewrite Hr in H2. simpl in H2. assumption.
Qed.

(** ** shapes of emissions *)
Definition emit_fields := (fix go (fs : list (string * pval)) : list (string * json) :=
               match fs with
               | [] => []
               | (k, v) :: r => if is_none v then go r else (k, emit v) :: go r
               end).

Lemma emit_model : forall fs, emit (PModel fs) = JObj (emit_fields fs).
Proof. reflexivity. Qed.

Lemma emit_fields_In : forall fs k jv, In (k, jv) (emit_fields fs) ->
                                       exists v, In (k, v) fs /\ is_none v = false /\ jv = emit v.
Proof.
  induction fs as [|[k0 v0] fs IH]; simpl; intros k jv H; [contradiction|].
  destruct (is_none v0) eqn:E.
  - destruct (IH _ _ H) as [v [H1 H2]]. exists v. split; [right|]; assumption.
  - destruct H as [H|H].
    + inversion H; subst. exists v0. split; [left; reflexivity|]. split; [assumption|reflexivity].
    + destruct (IH _ _ H) as [v [H1 H2]]. exists v. split; [right|]; assumption.
Qed.

Lemma emit_fields_key : forall fs k v, In (k, v) fs -> is_none v = false -> has_key k (emit_fields fs) = true.
Proof.
  induction fs as [|[k0 v0] fs IH]; simpl; intros k v H Hn; [contradiction|].
  destruct H as [H|H].
  - inversion H; subst. rewrite Hn. unfold has_key. simpl. rewrite String.eqb_refl. reflexivity.
  - destruct (is_none v0); [eapply IH; eassumption|].
    unfold has_key. simpl. apply orb_true_iff. right. eapply IH; eassumption.
Qed.

Lemma has_key_In : forall A k (l : list (string * A)), has_key k l = true -> exists v, In (k, v) l.
Proof.
  unfold has_key. intros A k l H. apply existsb_exists in H. destruct H as [[k' v] [H1 H2]].
  simpl in H2. apply String.eqb_eq in H2. subst. exists v. assumption.
Qed.

Lemma emit_arr : forall k sh data, sh <> [] -> emit (PArr k sh data) = JArr (map emit data).
Proof. intros k sh data H. destruct sh; [congruence|reflexivity]. Qed.

Lemma Forall2_In_r : forall A B (P : A -> B -> Prop) l m, Forall2 P l m ->
                                                          forall b, In b m -> exists a, In a l /\ P a b.
Proof.
  induction 1; simpl; intros b Hb; [contradiction|]. destruct Hb as [<-|Hb].
  - eexists; split; [left; reflexivity|assumption].
  - destruct (IHForall2 _ Hb) as [a [Ha1 Ha2]]. exists a. split; [right|]; assumption.
Qed.

Lemma Forall2_length : forall A B (P : A -> B -> Prop) l m, Forall2 P l m -> List.length l = List.length m.
Proof. induction 1; simpl; congruence. Qed.

Lemma combine_tuple : forall z env ts l, Forall2 (Inh z env) ts l ->
    forall (ss : list schema) (s : schema) (x : json), In (s, x) (combine ss (map emit l)) ->
                   exists t v, In (t, s) (combine ts ss) /\ Inh z env t v /\ x = emit v.
Proof.
  induction 1 as [|t v ts l Htv HF IH]; intros ss s x Hin.
  - destruct ss; simpl in Hin; contradiction.
  - destruct ss as [|s0 ss]; simpl in Hin; [contradiction|]. destruct Hin as [Hin|Hin].
    + inversion Hin; subst. exists t, v. split; [left; reflexivity|]. split; [assumption|reflexivity].
    + destruct (IH _ _ _ Hin) as [t' [v' [H1 H2]]]. exists t', v'. split; [right; assumption|assumption].
Qed.

(** None can only inhabit Any / Optional / Union *)
Lemma inh_none_shape : forall z env D, Inh z env D PNone ->
                                       match D with TAny | TOpt _ | TUnion _ => True | _ => False end.
Proof. intros z env D H. inversion H; subst; exact I. Qed.

Lemma can_none_sound : forall z env D v, Inh z env D v -> can_none D = false -> is_none v = false.
Proof.
  intros z env D v H Hc. destruct v; try reflexivity. exfalso.
  inversion H; subst; simpl in Hc; try discriminate.
  match goal with Hin : In ?t ?ts, Ht : Inh _ _ ?t PNone |- _ =>
    assert (Hs := inh_none_shape _ _ _ Ht);
    assert (He : existsb maybe_none1 ts = true)
      by (apply existsb_exists; exists t; split; [assumption|destruct t; try contradiction; reflexivity])
  end.
  congruence.
Qed.
Lemma arr_shape_false : forall (sh : list N) (data : list pval),
   (sh = [] -> false = true /\ exists x, data = [x]) -> sh <> [].
Proof. intros sh data H E. destruct (H E). discriminate. Qed.

Lemma q_ge_mono : forall a b q e, q_ge a q e = true -> (a <= b)%Q -> q_ge b q e = true.
Proof.
  unfold q_ge. intros a b q e H Hab. destruct e.
  - apply negb_true_iff in H. apply negb_true_iff. destruct (Qle_bool b q) eqn:E; [|reflexivity].
    apply Qle_bool_iff in E. assert (Qle_bool a q = true) by (apply Qle_bool_iff; eapply Qle_trans; eassumption).
    congruence.
  - apply Qle_bool_iff in H. apply Qle_bool_iff. eapply Qle_trans; eassumption.
Qed.

Lemma q_le_mono : forall a b q e, q_le a q e = true -> (b <= a)%Q -> q_le b q e = true.
Proof.
  unfold q_le. intros a b q e H Hab. destruct e.
  - apply negb_true_iff in H. apply negb_true_iff. destruct (Qle_bool q b) eqn:E; [|reflexivity].
    apply Qle_bool_iff in E. assert (Qle_bool q a = true) by (apply Qle_bool_iff; eapply Qle_trans; eassumption).
    congruence.
  - apply Qle_bool_iff in H. apply Qle_bool_iff. eapply Qle_trans; eassumption.
Qed.

Lemma int_multiple_of_one : forall z q, Qeq_bool q 1 = true -> q_is_int (inject_Z z / q) = true.
Proof.
  intros z [qn qd] H. apply Qeq_bool_iff in H. unfold Qeq in H. simpl in H.
  rewrite Z.mul_1_r in H. subst qn.
  unfold q_is_int, Qdiv, Qinv, Qmult, inject_Z. simpl.
  apply Z.eqb_eq. apply Z.mod_mul. discriminate.
Qed.

Lemma uniqueb_short : forall l : list json, (List.length l <= 1)%nat -> uniqueb l = true.
Proof. intros [|x [|y r]] H; simpl in *; try reflexivity. lia. Qed.

Lemma arr_nonempty : forall (z : bool) (sh : list N) (data : list pval),
   z = false -> (sh = [] -> z = true /\ exists x, data = [x]) -> sh <> [].
Proof. intros z sh data Hz H E. destruct (H E) as [Ht _]. congruence. Qed.

Ltac arr_ne := first [ assumption | eapply arr_shape_false; eassumption | eapply arr_nonempty; eassumption ].
Ltac arr_fix := try (rewrite emit_arr by arr_ne); try rewrite emit_model.

Lemma leaf_compat_sound : forall z env D v k S,
  Inh z env D v -> (is_tarr D = true -> z = false) ->
  kind_of D = Some k -> leaf_compat D k S = true -> leaf_check S (emit v) = true.
Proof.
  intros z env D v k S HI Hz HK HL.
  assert (Hz' : match D with TArr _ => z = false | _ => True end) by (destruct D; try exact I; apply Hz; reflexivity).
  clear Hz.
  destruct S; unfold leaf_compat in HL; try discriminate.
  - (* SType *)
    inversion HI; subst; simpl in HK; try discriminate; injection HK as <-;
      arr_fix; destruct t; simpl in *; try discriminate; try reflexivity.
  - (* SEnum *)
    destruct D; try discriminate. inversion HI; subst. simpl emit. unfold leaf_check.
    rewrite forallb_forall in HL. apply HL.
    match goal with E : existsb _ _ = true |- _ => apply existsb_exists in E; destruct E as [y [Hy1 Hy2]] end.
    apply String.eqb_eq in Hy2. subst. assumption.
  - (* SPattern *)
    inversion HI; subst; simpl in HK; try discriminate; injection HK as <-; arr_fix; simpl in *; try discriminate;
      try reflexivity.
    rewrite forallb_forall in HL. apply HL.
    match goal with E : existsb _ _ = true |- _ => apply existsb_exists in E; destruct E as [y [Hy1 Hy2]] end.
    apply String.eqb_eq in Hy2. subst. assumption.
  - (* SRequired *)
    inversion HI; subst; simpl in HK; try discriminate; injection HK as <-; arr_fix; simpl in *; try reflexivity;
      destruct rs; try discriminate; reflexivity.
  - (* SMinItems *)
    inversion HI; subst; simpl in HK; try discriminate; injection HK as <-; arr_fix; simpl in *; try reflexivity.
    + apply N.eqb_eq in HL. subst. apply N.leb_le. lia.
    + apply N.eqb_eq in HL. subst. apply N.leb_le. lia.
    + rewrite map_length. unfold len_ok in *. apply N.leb_le in HL. apply N.leb_le.
      match goal with E : _ && _ = true |- _ => apply andb_true_iff in E; destruct E as [E1 E2] end.
      destruct mn; simpl in HL; [apply N.leb_le in E1|]; lia.
    + rewrite map_length. unfold len_ok in *. apply N.leb_le in HL. apply N.leb_le.
      match goal with E : _ && _ = true |- _ => apply andb_true_iff in E; destruct E as [E1 E2] end.
      destruct mn; simpl in HL; [apply N.leb_le in E1|]; lia.
    + rewrite map_length. erewrite <- Forall2_length by eassumption. assumption.
  - (* SMaxItems *)
    inversion HI; subst; simpl in HK; try discriminate; injection HK as <-; arr_fix; simpl in *; try reflexivity;
      try discriminate.
    + destruct mx; simpl in HL; [|discriminate]. rewrite map_length. unfold len_ok in *. apply N.leb_le in HL. apply N.leb_le.
      match goal with E : _ && _ = true |- _ => apply andb_true_iff in E; destruct E as [E1 E2] end.
      apply N.leb_le in E2. lia.
    + destruct mx; simpl in HL; [|discriminate]. rewrite map_length. unfold len_ok in *. apply N.leb_le in HL. apply N.leb_le.
      match goal with E : _ && _ = true |- _ => apply andb_true_iff in E; destruct E as [E1 E2] end.
      apply N.leb_le in E2. lia.
    + rewrite map_length. erewrite <- Forall2_length by eassumption. assumption.
  - (* SUnique *)
    inversion HI; subst; simpl in HK; try discriminate; injection HK as <-; arr_fix; simpl in *; try reflexivity;
      try discriminate.
    + destruct mx; simpl in HL; [|discriminate]. apply uniqueb_short. rewrite map_length. unfold len_ok in *.
      apply N.leb_le in HL.
      match goal with E : _ && _ = true |- _ => apply andb_true_iff in E; destruct E as [E1 E2] end.
      apply N.leb_le in E2. lia.
    + assumption.
    + apply uniqueb_short. rewrite map_length. erewrite <- Forall2_length by eassumption. apply N.leb_le in HL. lia.
  - (* SMin *)
    inversion HI; subst; simpl in HK; try discriminate; injection HK as <-; arr_fix; simpl in *; try reflexivity;
      try discriminate.
    + destruct ge; simpl in *; [|discriminate]. eapply q_ge_mono; [exact HL|].
      rewrite <- Zle_Qle. apply Z.leb_le. assumption.
    + destruct ge; simpl in *; [|discriminate]. eapply q_ge_mono; [exact HL|]. apply Qle_bool_iff. assumption.
  - (* SMax *)
    inversion HI; subst; simpl in HK; try discriminate; injection HK as <-; arr_fix; simpl in *; try reflexivity;
      try discriminate.
    + destruct le; simpl in *; [|discriminate]. eapply q_le_mono; [exact HL|].
      rewrite <- Zle_Qle. apply Z.leb_le. assumption.
    + destruct le; simpl in *; [|discriminate]. eapply q_le_mono; [exact HL|]. apply Qle_bool_iff. assumption.
  - (* SMultipleOf *)
    inversion HI; subst; simpl in HK; try discriminate; injection HK as <-; arr_fix;
      try discriminate; try reflexivity; unfold leaf_check, emit, num_of; apply int_multiple_of_one; assumption.
Qed.
Section Sound.
Variable z : bool.
Variable env : env_t.
Variable defs : defs_t.

Section Step.
Variable n : nat.
Hypothesis IH : forall D S, compat z env defs n D S = true -> forall v, Inh z env D v -> Valid defs S (emit v).

Lemma step_union : forall ts S v, forallb (fun t => compat z env defs n t S) ts = true ->
                                  Inh z env (TUnion ts) v -> Valid defs S (emit v).
Proof.
  intros ts S v H HI. inversion HI; subst. rewrite forallb_forall in H. eapply IH; eauto.
Qed.

Lemma step_opt : forall t S v,
    compat z env defs n t S && outcome_eqb Bool.eqb (validates n defs S JNull) (Ok true) = true ->
    Inh z env (TOpt t) v -> Valid defs S (emit v).
Proof.
  intros t S v H HI. apply andb_true_iff in H. destruct H as [H1 H2]. inversion HI; subst.
  - simpl. destruct (validates n defs S JNull) as [[|]|] eqn:E; simpl in H2; try discriminate. eapply validates_sound; exact E.
  - eapply IH; eauto.
Qed.

Lemma step_anyof : forall D l v, existsb (compat z env defs n D) l = true -> Inh z env D v ->
                                 Valid defs (SAnyOf l) (emit v).
Proof.
  intros D l v H HI. apply existsb_exists in H. destruct H as [s [Hs1 Hs2]].
  eapply V_any; [exact Hs1|]. eapply IH; eauto.
Qed.

Lemma step_leaf : forall D k S v, (is_tarr D = true -> z = false) -> kind_of D = Some k -> leaf_compat D k S = true ->
                                  Inh z env D v -> Valid defs S (emit v).
Proof. intros. apply V_leaf. eapply leaf_compat_sound; eassumption. Qed.

Lemma entry_schema_cases : forall ps ap k s, entry_schema ps ap k = Some s ->
                                             In (k, s) ps \/ (assoc k ps = None /\ ap = Some s).
Proof.
  unfold entry_schema. intros ps ap k s H. destruct (assoc k ps) eqn:E.
  - inversion H; subst. left. apply assoc_In. assumption.
  - right. split; [reflexivity|assumption].
Qed.

Lemma step_obj_dict : forall t ps ap v,
    forallb (fun p => compat z env defs n t (snd p)) ps && match ap with Some s => compat z env defs n t s | None => true end = true ->
    Inh z env (TDict t) v -> Valid defs (SObj ps ap) (emit v).
Proof.
  intros t ps ap v H HI. apply andb_true_iff in H. destruct H as [H1 H2]. inversion HI; subst. simpl.
  apply V_obj. intros k jv s Hin He. apply in_map_iff in Hin. destruct Hin as [[k' v'] [E Hin]].
  simpl in E. inversion E; subst.
  destruct (entry_schema_cases _ _ _ _ He) as [Hp|[_ Hp]].
  - rewrite forallb_forall in H1. eapply IH; [exact (H1 (k, s) Hp)|]. eauto.
  - subst ap. eapply IH; [exact H2|]. eauto.
Qed.

Lemma step_obj_model : forall name m ps ap v,
    assoc name env = Some m ->
    forallb (fun f => match entry_schema ps ap (f_alias f) with
                      | Some s => compat z env defs n (f_type f) s
                      | None => true
                      end) (m_fields m) &&
    (negb (m_extra m) ||
     (match ap with Some s => compat z env defs n TAny s | None => true end &&
      forallb (fun p => match find_field (fst p) (m_fields m) with
                        | Some _ => true
                        | None => compat z env defs n TAny (snd p)
                        end) ps)) = true ->
    Inh z env (TModel name) v -> Valid defs (SObj ps ap) (emit v).
Proof.
  intros name m ps ap v Hm H HI. apply andb_true_iff in H. destruct H as [H1 H2].
  inversion HI; subst. rewrite emit_model. apply V_obj. intros k jv s Hin He.
  match goal with Hm' : assoc name env = Some _ |- _ => rewrite Hm in Hm'; inversion Hm'; subst end.
  destruct (emit_fields_In _ _ _ Hin) as [v [Hv1 [Hv2 Hv3]]]. subst jv.
  destruct (find_field k (m_fields m0)) as [f|] eqn:Ef.
  - destruct (find_field_some _ _ _ Ef) as [Hf1 Hf2]. subst k.
    match goal with Hk : forall k v f, In (k, v) fs -> _ -> _ \/ _ |- _ => destruct (Hk _ _ _ Hv1 Ef) as [[Hn _]|Hinh] end.
    + subst v. discriminate.
    + rewrite forallb_forall in H1. specialize (H1 f Hf1). rewrite He in H1. eapply IH; eauto.
  - match goal with Hx : forall k v, In (k, v) fs -> _ -> m_extra _ = true |- _ => assert (Hex := Hx _ _ Hv1 Ef) end.
    rewrite Hex in H2. simpl in H2. apply andb_true_iff in H2. destruct H2 as [Hap Hps].
    destruct (entry_schema_cases _ _ _ _ He) as [Hp|[_ Hp]].
    + rewrite forallb_forall in Hps. specialize (Hps (k, s) Hp). simpl in Hps. rewrite Ef in Hps.
      eapply IH; [exact Hps|]. constructor.
    + subst ap. eapply IH; [exact Hap|]. constructor.
Qed.

Lemma step_required_model : forall name m rs v,
    assoc name env = Some m ->
    forallb (fun r => match find_field r (m_fields m) with
                      | Some f => f_required f && negb (f_nullable f) && negb (can_none (f_type f))
                      | None => false
                      end) rs = true ->
    Inh z env (TModel name) v -> Valid defs (SRequired rs) (emit v).
Proof.
  intros name m rs v Hm H HI. inversion HI; subst.
  match goal with Hm' : assoc name env = Some _ |- _ => rewrite Hm in Hm'; inversion Hm'; subst end.
  apply V_leaf. rewrite emit_model. unfold leaf_check. apply forallb_forall. intros r Hr.
  rewrite forallb_forall in H. specialize (H r Hr).
  destruct (find_field r (m_fields m0)) as [f|] eqn:Ef; [|discriminate].
  apply andb_true_iff in H. destruct H as [H Hc]. apply andb_true_iff in H. destruct H as [Hq Hn].
  apply negb_true_iff in Hc. apply negb_true_iff in Hn.
  destruct (find_field_some _ _ _ Ef) as [Hf1 Hf2]. subst r.
  match goal with Hreq : forall f, In f _ -> f_required f = true -> has_key _ fs = true |- _ =>
    destruct (has_key_In _ _ _ (Hreq f Hf1 Hq)) as [v Hv] end.
  eapply emit_fields_key; [exact Hv|].
  match goal with Hk : forall k v f, In (k, v) fs -> _ -> _ \/ _ |- _ => destruct (Hk _ _ _ Hv Ef) as [[_ Hnl]|Hinh] end.
  - congruence.
  - eapply can_none_sound; eassumption.
Qed.

Lemma step_items_list : forall t mn mx s v, compat z env defs n t s = true -> Inh z env (TList t mn mx) v ->
                                            Valid defs (SItems s) (emit v).
Proof.
  intros t mn mx s v H HI. inversion HI; subst. simpl. apply V_items. intros x Hx.
  apply in_map_iff in Hx. destruct Hx as [y [<- Hy]]. eapply IH; eauto.
Qed.

Lemma step_items_listu : forall t mn mx s v, compat z env defs n t s = true -> Inh z env (TListU t mn mx) v ->
                                             Valid defs (SItems s) (emit v).
Proof.
  intros t mn mx s v H HI. inversion HI; subst. simpl. apply V_items. intros x Hx.
  apply in_map_iff in Hx. destruct Hx as [y [<- Hy]]. eapply IH; eauto.
Qed.

Lemma step_tuple_listu : forall t mn mx ss v, forallb (compat z env defs n t) ss = true ->
                                              Inh z env (TListU t mn mx) v -> Valid defs (SItemsTuple ss) (emit v).
Proof.
  intros t mn mx ss v H HI. inversion HI; subst. simpl. apply V_tuple. intros s x Hx.
  assert (Hs := in_combine_l _ _ _ _ Hx). apply in_combine_r in Hx.
  apply in_map_iff in Hx. destruct Hx as [y [<- Hy]]. rewrite forallb_forall in H. eapply IH; eauto.
Qed.

Lemma step_items_arrs : forall k s v, compat z env defs n (scalar_ty k) s = true -> Inh z env (TArrS k) v ->
                                      Valid defs (SItems s) (emit v).
Proof.
  intros k s v H HI. inversion HI; subst. rewrite emit_arr by arr_ne.
  apply V_items. intros x Hx. apply in_map_iff in Hx. destruct Hx as [y [<- Hy]]. eapply IH; eauto.
Qed.

Lemma step_tuple_arrs : forall k ss v, forallb (compat z env defs n (scalar_ty k)) ss = true ->
                                       Inh z env (TArrS k) v -> Valid defs (SItemsTuple ss) (emit v).
Proof.
  intros k ss v H HI. inversion HI; subst. rewrite emit_arr by arr_ne.
  apply V_tuple. intros s x Hx.
  assert (Hs := in_combine_l _ _ _ _ Hx). apply in_combine_r in Hx.
  apply in_map_iff in Hx. destruct Hx as [y [<- Hy]]. rewrite forallb_forall in H. eapply IH; eauto.
Qed.

Lemma step_items_arr : forall k s v, z = false -> compat z env defs n (scalar_ty k) s = true -> Inh z env (TArr k) v ->
                                     Valid defs (SItems s) (emit v).
Proof.
  intros k s v Hz H HI. inversion HI; subst. rewrite emit_arr by arr_ne.
  apply V_items. intros x Hx. apply in_map_iff in Hx. destruct Hx as [y [<- Hy]]. eapply IH; eauto.
Qed.

Lemma step_items_tuple : forall ts s v, forallb (fun t => compat z env defs n t s) ts = true ->
                                        Inh z env (TTuple ts) v -> Valid defs (SItems s) (emit v).
Proof.
  intros ts s v H HI. inversion HI; subst. simpl. apply V_items. intros x Hx.
  apply in_map_iff in Hx. destruct Hx as [y [<- Hy]].
  match goal with HF : Forall2 _ ts l |- _ => destruct (Forall2_In_r _ _ _ _ _ HF _ Hy) as [t [Ht1 Ht2]] end.
  rewrite forallb_forall in H. eapply IH; eauto.
Qed.

Lemma step_tuple_list : forall t mn mx ss v, forallb (compat z env defs n t) ss = true ->
                                             Inh z env (TList t mn mx) v -> Valid defs (SItemsTuple ss) (emit v).
Proof.
  intros t mn mx ss v H HI. inversion HI; subst. simpl. apply V_tuple. intros s x Hx.
  assert (Hs := in_combine_l _ _ _ _ Hx). apply in_combine_r in Hx.
  apply in_map_iff in Hx. destruct Hx as [y [<- Hy]]. rewrite forallb_forall in H. eapply IH; eauto.
Qed.

Lemma step_tuple_arr : forall k ss v, z = false -> forallb (compat z env defs n (scalar_ty k)) ss = true ->
                                      Inh z env (TArr k) v -> Valid defs (SItemsTuple ss) (emit v).
Proof.
  intros k ss v Hz H HI. inversion HI; subst. rewrite emit_arr by arr_ne.
  apply V_tuple. intros s x Hx.
  assert (Hs := in_combine_l _ _ _ _ Hx). apply in_combine_r in Hx.
  apply in_map_iff in Hx. destruct Hx as [y [<- Hy]]. rewrite forallb_forall in H. eapply IH; eauto.
Qed.

Lemma step_tuple_tuple : forall ts ss v,
    forallb (fun p => compat z env defs n (fst p) (snd p)) (combine ts ss) = true ->
    Inh z env (TTuple ts) v -> Valid defs (SItemsTuple ss) (emit v).
Proof.
  intros ts ss v H HI. inversion HI; subst. simpl. apply V_tuple. intros s x Hx.
  match goal with HF : Forall2 _ ts l |- _ => destruct (combine_tuple _ _ _ _ HF _ _ _ Hx) as [t [y [Ht1 [Ht2 ->]]]] end.
  rewrite forallb_forall in H. eapply IH; [exact (H (t, s) Ht1)|assumption].
Qed.

Lemma step_arr0 : forall k S v,
    compat z env defs n (TArrS k) S && compat z env defs n (scalar_ty k) S = true ->
    Inh z env (TArr k) v -> Valid defs S (emit v).
Proof.
  intros k S v H HI. apply andb_true_iff in H. destruct H as [Ha Hs]. inversion HI; subst.
  destruct sh as [|d sh].
  - match goal with H0 : [] = [] -> _ |- _ => destruct (H0 eq_refl) as [_ [x ->]] end.
    simpl. eapply (IH (scalar_ty k)); [exact Hs|]. match goal with Hd : forall x, In x _ -> _ |- _ => apply Hd; left; reflexivity end.
  - assert (HS : Inh z env (TArrS k) (PArr k (d :: sh) data)) by (constructor; [assumption|discriminate]).
    eapply (IH (TArrS k)); [exact Ha|exact HS].
Qed.

End Step.

Ltac other_kind HI ctor :=
  try (match goal with Hz : is_tarr _ = true -> _ = false |- _ => specialize (Hz eq_refl) end);
  inversion HI; subst; try (rewrite emit_arr by arr_ne); try rewrite emit_model;
  apply ctor; reflexivity.

Theorem compat_sound : forall n D S, compat z env defs n D S = true ->
                                     forall v, Inh z env D v -> Valid defs S (emit v).
Proof.
  induction n as [|n IH]; intros D S H v HI; simpl in H; [discriminate|].
  destruct (z && is_tarr D) eqn:G.
  { destruct D; try (simpl in G; rewrite andb_false_r in G; discriminate). eapply step_arr0; eassumption. }
  assert (Hz : is_tarr D = true -> z = false) by (intros Ht; rewrite Ht, andb_true_r in G; exact G).
  destruct S.
  - (* SAll *) apply V_all. intros s Hs. rewrite forallb_forall in H. eapply IH; eauto.
  - (* SAnyOf *)
    destruct D; try (eapply step_anyof; eassumption);
      [eapply step_opt; eassumption | eapply step_union; eassumption].
  - (* SRef *) destruct (assoc name defs) as [s|] eqn:E; [|discriminate]. eapply V_ref; [exact E|]. eapply IH; eauto.
  - (* SType *)
    destruct D; try discriminate; try (match type of HI with Inh _ _ ?D0 _ => eapply (step_leaf D0); [exact Hz|reflexivity|exact H|exact HI] end);
      [eapply step_opt; eassumption | eapply step_union; eassumption].
  - (* SEnum *)
    destruct D; try discriminate; try (match type of HI with Inh _ _ ?D0 _ => eapply (step_leaf D0); [exact Hz|reflexivity|exact H|exact HI] end);
      [eapply step_opt; eassumption | eapply step_union; eassumption].
  - (* SPattern *)
    destruct D; try discriminate; try (match type of HI with Inh _ _ ?D0 _ => eapply (step_leaf D0); [exact Hz|reflexivity|exact H|exact HI] end);
      [eapply step_opt; eassumption | eapply step_union; eassumption].
  - (* SObj *)
    destruct D; try discriminate; try (other_kind HI V_obj_other).
    + eapply step_obj_dict; eassumption.
    + eapply step_opt; eassumption.
    + eapply step_union; eassumption.
    + destruct (assoc name env) as [m|] eqn:E; [|discriminate]. eapply step_obj_model; eassumption.
  - (* SRequired *)
    destruct D; try discriminate; try (match type of HI with Inh _ _ ?D0 _ => eapply (step_leaf D0); [exact Hz|reflexivity|exact H|exact HI] end).
    + eapply step_opt; eassumption.
    + eapply step_union; eassumption.
    + destruct (assoc name env) as [m|] eqn:E; [|discriminate]. eapply step_required_model; eassumption.
  - (* SItems *)
    destruct D; try discriminate; try (other_kind HI V_items_other).
    + eapply step_items_arr; try eassumption; apply Hz; reflexivity.
    + eapply step_items_arrs; eassumption.
    + eapply step_items_list; eassumption.
    + eapply step_items_listu; eassumption.
    + eapply step_items_tuple; eassumption.
    + eapply step_opt; eassumption.
    + eapply step_union; eassumption.
  - (* SItemsTuple *)
    destruct D; try discriminate; try (other_kind HI V_tuple_other).
    + eapply step_tuple_arr; try eassumption; apply Hz; reflexivity.
    + eapply step_tuple_arrs; eassumption.
    + eapply step_tuple_list; eassumption.
    + eapply step_tuple_listu; eassumption.
    + eapply step_tuple_tuple; eassumption.
    + eapply step_opt; eassumption.
    + eapply step_union; eassumption.
  - destruct D; try discriminate; try (match type of HI with Inh _ _ ?D0 _ => eapply (step_leaf D0); [exact Hz|reflexivity|exact H|exact HI] end);
      [eapply step_opt; eassumption | eapply step_union; eassumption].
  - destruct D; try discriminate; try (match type of HI with Inh _ _ ?D0 _ => eapply (step_leaf D0); [exact Hz|reflexivity|exact H|exact HI] end);
      [eapply step_opt; eassumption | eapply step_union; eassumption].
  - destruct D; try discriminate; try (match type of HI with Inh _ _ ?D0 _ => eapply (step_leaf D0); [exact Hz|reflexivity|exact H|exact HI] end);
      [eapply step_opt; eassumption | eapply step_union; eassumption].
  - destruct D; try discriminate; try (match type of HI with Inh _ _ ?D0 _ => eapply (step_leaf D0); [exact Hz|reflexivity|exact H|exact HI] end);
      [eapply step_opt; eassumption | eapply step_union; eassumption].
  - destruct D; try discriminate; try (match type of HI with Inh _ _ ?D0 _ => eapply (step_leaf D0); [exact Hz|reflexivity|exact H|exact HI] end);
      [eapply step_opt; eassumption | eapply step_union; eassumption].
  - destruct D; try discriminate; try (match type of HI with Inh _ _ ?D0 _ => eapply (step_leaf D0); [exact Hz|reflexivity|exact H|exact HI] end);
      [eapply step_opt; eassumption | eapply step_union; eassumption].
Qed.

(** with the validator: it never rejects the emission of an inhabitant of a compatible descriptor *)
Corollary compat_never_rejected : forall n m D S v,
    compat z env defs n D S = true -> Inh z env D v -> validates m defs S (emit v) <> Ok false.
Proof.
  intros n m D S v H HI Hf. exact (validates_complete _ _ _ _ Hf (compat_sound _ _ _ H _ HI)).
Qed.
End Sound.

(** ** validity against the exported schema forces duplicate-free lists at the uniqueItems sites *)
Lemma valid_true : forall defs j, Valid defs STrue j.
Proof. intros. apply V_all. intros s []. Qed.

Lemma members_valid : forall defs n S j, Valid defs S j -> forall s, In s (members defs n S) -> Valid defs s j.
Proof.
  induction n as [|n IH]; intros S j V s Hs; simpl in Hs; [contradiction|].
  destruct S; try (destruct Hs as [<-|[]]; assumption).
  - apply in_flat_map in Hs. destruct Hs as [x [Hx Hs]].
    inversion V; subst; [|match goal with L : leaf_check _ _ = true |- _ => simpl in L; discriminate end].
    eapply IH; [|exact Hs]. auto.
  - destruct (assoc name defs) as [s0|] eqn:E; [|contradiction].
    inversion V; subst; [|match goal with L : leaf_check _ _ = true |- _ => simpl in L; discriminate end].
    match goal with Ha : assoc name defs = Some _ |- _ => rewrite E in Ha; inversion Ha; subst end.
    eapply IH; eassumption.
Qed.

Lemma find_items_valid : forall defs ms l, (forall s, In s ms -> Valid defs s (JArr l)) ->
                                           forall x, In x l -> Valid defs (find_items ms) x.
Proof.
  intros defs ms l H x Hx. unfold find_items.
  destruct (find _ ms) as [s0|] eqn:E; [|apply valid_true].
  apply find_some in E. destruct E as [Hin Hp]. destruct s0; try apply valid_true.
  specialize (H _ Hin). inversion H; subst; auto; simpl in *; discriminate.
Qed.

Lemma find_obj_valid : forall defs ms o, (forall s, In s ms -> Valid defs s (JObj o)) ->
    forall k v s, In (k, v) o -> entry_schema (fst (find_obj ms)) (snd (find_obj ms)) k = Some s -> Valid defs s v.
Proof.
  intros defs ms o H k v s Hin He. unfold find_obj in He.
  destruct (find _ ms) as [s0|] eqn:E; [|simpl in He; discriminate].
  apply find_some in E. destruct E as [Hi Hp]. destruct s0; simpl in He; try discriminate.
  specialize (H _ Hi). inversion H; subst; eauto; simpl in *; discriminate.
Qed.

Lemma find_anyof_valid : forall defs ms l j, find_anyof ms = Some l -> (forall s, In s ms -> Valid defs s j) ->
                                             exists s, In s l /\ Valid defs s j.
Proof.
  intros defs ms l j Hf H. unfold find_anyof in Hf.
  destruct (find _ ms) as [s0|] eqn:E; [|discriminate].
  apply find_some in E. destruct E as [Hi Hp]. destruct s0; try discriminate. inversion Hf; subst.
  specialize (H _ Hi). inversion H; subst; eauto; simpl in *; discriminate.
Qed.

Lemma has_unique_valid : forall defs ms l, has_unique ms = true -> (forall s, In s ms -> Valid defs s (JArr l)) ->
                                           uniqueb l = true.
Proof.
  intros defs ms l Hu H. unfold has_unique in Hu. apply existsb_exists in Hu. destruct Hu as [s [Hs Hp]].
  destruct s; try discriminate. specialize (H _ Hs). inversion H; subst. simpl in *. assumption.
Qed.

Lemma kind_has_type : forall env D v k t, Inh false env D v -> kind_of D = Some k -> type_ok k t = false ->
                                          has_type t (emit v) = false.
Proof.
  intros env D v k t HI HK HT.
  inversion HI; subst; simpl in HK; try discriminate; injection HK as <-;
    try (rewrite emit_arr by arr_ne); try rewrite emit_model;
    destruct t; simpl in *; try discriminate; reflexivity.
Qed.

Lemma clash_absurd : forall env defs t v ms, Inh false env t v -> clashes (kind_of t) ms = true ->
                                             (forall s, In s ms -> Valid defs s (emit v)) -> False.
Proof.
  intros env defs t v ms HI Hc H. unfold clashes in Hc. destruct (kind_of t) as [k|] eqn:K; [|discriminate].
  apply existsb_exists in Hc. destruct Hc as [s [Hs Hp]]. destruct s; try discriminate.
  apply negb_true_iff in Hp. specialize (H _ Hs). inversion H; subst. simpl in *.
  rewrite (kind_has_type _ _ _ _ _ HI K Hp) in *. discriminate.
Qed.

Lemma uniq_alias : forall sites n f, f_alias (uniq_field sites n f) = f_alias f.
Proof. intros. unfold uniq_field. destruct (existsb _ sites); [|reflexivity]. destruct (f_type f); reflexivity. Qed.
Lemma uniq_required : forall sites n f, f_required (uniq_field sites n f) = f_required f.
Proof. intros. unfold uniq_field. destruct (existsb _ sites); [|reflexivity]. destruct (f_type f); reflexivity. Qed.
Lemma uniq_nullable : forall sites n f, f_nullable (uniq_field sites n f) = f_nullable f.
Proof. intros. unfold uniq_field. destruct (existsb _ sites); [|reflexivity]. destruct (f_type f); reflexivity. Qed.

Lemma find_field_uniq : forall sites n k fs,
    find_field k (map (uniq_field sites n) fs) = match find_field k fs with Some f => Some (uniq_field sites n f) | None => None end.
Proof.
  induction fs as [|f fs IH]; simpl; [reflexivity|]. rewrite uniq_alias.
  destruct (String.eqb k (f_alias f)); [reflexivity|exact IH].
Qed.

Lemma assoc_uniq_env : forall sites name env m, assoc name env = Some m ->
    assoc name (uniq_env sites env) = Some {| m_extra := m_extra m; m_fields := map (uniq_field sites name) (m_fields m) |}.
Proof.
  induction env as [|[k m0] e IH]; simpl; intros m H; [discriminate|].
  destruct (String.eqb name k) eqn:E.
  - apply String.eqb_eq in E. subst k. inversion H; subst. reflexivity.
  - apply IH. assumption.
Qed.

Lemma none_inh : forall z e1 e2 D, Inh z e1 D PNone -> Inh z e2 D PNone.
Proof.
  intros z e1 e2 D H. remember PNone as v eqn:Ev. induction H; try discriminate; subst.
  - apply I_any.
  - apply I_opt_none.
  - apply I_opt_some. auto.
  - eapply I_union; [eassumption|auto].
Qed.

Section EnfSound.
Variable sites : list (string * string).
Variable env : env_t.
Variable defs : defs_t.
Let envu := uniq_env sites env.

Lemma leaf_inh_env : forall D v, Inh false env D v ->
    match D with TStr | TInt | TFloat | TBool | TAny | TEnum _ | TIntC _ _ | TFloatC _ _ | TArr _ | TArrS _ => True
            | _ => False end ->
    Inh false envu D v.
Proof.
  intros D v HI HD. destruct D; try contradiction; inversion HI; subst; try (constructor; assumption);
  (constructor; [|assumption]; intros x Hx;
   match goal with H : forall y, In y _ -> Inh _ _ _ y |- _ => specialize (H x Hx) end;
   destruct k; simpl in *; match goal with H : Inh _ _ _ x |- _ => inversion H; subst; constructor end).
Qed.

Theorem enf_sound : forall n D S v, enf sites env defs n D S = true -> Inh false env D v ->
                                    Valid defs S (emit v) -> Inh false envu D v.
Proof.
  induction n as [|n IH]; intros D S v H HI V; [discriminate|]. simpl in H.
  assert (MV := members_valid defs n S _ V).
  destruct D; try (apply leaf_inh_env; [assumption|exact I]); try discriminate.
  - (* TList *)
    inversion HI; subst. constructor; [|assumption]. intros x Hx. eapply IH; [exact H|auto|].
    simpl in MV. eapply find_items_valid; [exact MV|]. apply in_map. assumption.
  - (* TTuple *)
    inversion HI; subst. constructor. clear HI V MV.
    match goal with HF : Forall2 _ ts l |- _ => revert H; induction HF as [|t0 x0 ts0 l0 Htx HF' IHF]; intros H; constructor end.
    + simpl in H. apply andb_true_iff in H. destruct H as [H _]. eapply IH; [exact H|assumption|apply valid_true].
    + apply IHF. simpl in H. apply andb_true_iff in H. destruct H as [_ H]. exact H.
  - (* TDict *)
    inversion HI; subst. constructor. intros k v0 Hin.
    simpl in MV.
    assert (OV := find_obj_valid defs _ _ MV).
    destruct (find_obj (members defs n S)) as [ps ap] eqn:E. simpl in OV.
    assert (Hv : In (k, emit v0) (map (fun kv => (fst kv, emit (snd kv))) d))
      by (apply in_map_iff; exists (k, v0); split; [reflexivity|assumption]).
    destruct ps as [|p ps].
    + eapply IH; [exact H|eauto|]. destruct ap as [s|]; simpl; [|apply valid_true].
      eapply OV; [exact Hv|reflexivity].
    + eapply IH; [exact H|eauto|apply valid_true].
  - (* TOpt *)
    inversion HI; subst; [apply I_opt_none|]. apply I_opt_some. eapply IH; eassumption.
  - (* TUnion *)
    inversion HI; subst. eapply I_union; [eassumption|].
    destruct (find_anyof (members defs n S)) as [l|] eqn:E.
    + destruct (find_anyof_valid defs _ _ _ E MV) as [s [Hs Vs]].
      rewrite forallb_forall in H. specialize (H _ H1). rewrite forallb_forall in H. specialize (H _ Hs).
      apply orb_true_iff in H. destruct H as [H|H].
      * exfalso. eapply clash_absurd; [eassumption|exact H|]. apply members_valid. assumption.
      * eapply IH; eassumption.
    + rewrite forallb_forall in H. eapply IH; [apply H; eassumption|assumption|assumption].
  - (* TModel *)
    destruct (assoc name env) as [m|] eqn:Em; [|discriminate].
    inversion HI; subst.
    match goal with Hm : assoc name env = Some _ |- _ => rewrite Em in Hm; inversion Hm; subst end.
    rewrite emit_model in *.
    assert (OV := find_obj_valid defs _ _ MV).
    destruct (find_obj (members defs n S)) as [ps ap] eqn:E. simpl in OV.
    rewrite forallb_forall in H.
    eapply I_model; [apply assoc_uniq_env; exact Em| | |]; simpl.
    + intros k v0 fu Hin Hfu. rewrite find_field_uniq in Hfu.
      destruct (find_field k (m_fields m0)) as [f|] eqn:Ef; [|discriminate]. inversion Hfu; subst fu.
      rewrite uniq_nullable.
      match goal with Hk : forall k v f, In (k, v) fs -> _ -> _ \/ _ |- _ => destruct (Hk _ _ _ Hin Ef) as [Hn|Hinh] end;
        [left; assumption|right].
      destruct (find_field_some _ _ _ Ef) as [Hf1 Hf2]. subst k.
      specialize (H f Hf1).
      assert (Vf : is_none v0 = false -> Valid defs (sub_of (entry_schema ps ap (f_alias f))) (emit v0)).
      { intros Hnn. destruct (entry_schema ps ap (f_alias f)) as [s|] eqn:Es; simpl; [|apply valid_true].
        eapply OV; [|exact Es]. 
        clear - Hin Hnn. induction fs as [|[k1 v1] fs IHfs]; simpl in *; [contradiction|].
        destruct Hin as [Hin|Hin].
        - inversion Hin; subst. rewrite Hnn. left. reflexivity.
        - destruct (is_none v1); [auto|right; auto]. }
      unfold uniq_field. fold (is_site sites name (f_alias f)). 
      destruct (is_site sites name (f_alias f)) eqn:Site.
      * destruct (f_type f) eqn:Ft; try discriminate.
        apply andb_true_iff in H. destruct H as [Hu Hi]. simpl.
        inversion Hinh; subst.
        assert (Vl := Vf eq_refl). simpl in Vl.
        assert (ML := members_valid defs n _ _ Vl).
        constructor; [|assumption|].
        -- intros x Hx. eapply IH; [exact Hi|auto|]. eapply find_items_valid; [exact ML|]. apply in_map. assumption.
        -- eapply has_unique_valid; eassumption.
      * destruct (is_none v0) eqn:Hn0.
        -- destruct v0; try discriminate. apply none_inh with (e1 := env). assumption.
        -- eapply IH; [exact H|assumption|apply Vf; reflexivity].
    + intros k v0 Hin Hfu. rewrite find_field_uniq in Hfu.
      destruct (find_field k (m_fields m0)) eqn:Ef; [discriminate|]. eauto.
    + intros fu Hin Hr. apply in_map_iff in Hin. destruct Hin as [f [<- Hf]].
      rewrite uniq_alias. rewrite uniq_required in Hr. auto.
Qed.
End EnfSound.

Section DiagFacts.
Variable z : bool.
Variable env : env_t.
Variable defs : defs_t.
Lemma incompat_nil_iff : forall n p D S, incompat z env defs n p D S = [] <-> compat z env defs n D S = true.
Proof.
  intros n p D S. destruct n.
  - simpl. split; discriminate.
  - unfold incompat; fold (incompat z env defs). destruct (compat z env defs (Datatypes.S n) D S); [split; reflexivity|].
    destruct (flat_map _ (children z env defs D S)); split; discriminate.
Qed.
End DiagFacts.
