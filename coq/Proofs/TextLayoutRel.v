(** C07 — layout insensitivity as one inductive relation on psi4 texts, each of whose rewrites preserves the parse. *)
From Coq Require Import ZArith NArith List String Ascii Bool Lia.
Require Import QV.Common.Outcome QV.Common.WText QV.Common.WBin64 QV.Model.WriterTypes QV.Gen.WriterTables QV.Model.Writers
               QV.Model.Text QV.Proofs.TextRT QV.Proofs.TextLex QV.Proofs.TextLayout QV.Proofs.TextRoundTrip.
Import ListNotations.
Open Scope nat_scope.

Local Notation "a +++ b" := (String.append a b) (at level 60, right associativity).

(** the string contains a character that is not white space *)
Definition has_ink (s : string) : Prop := s_all c_is_space s = false.

Lemma lstrip_app_ink a r : has_ink a -> s_lstrip (a +++ r) = s_lstrip a +++ r.
Proof.
  unfold has_ink. induction a as [|c a IH]; intro H; [discriminate|]. cbn [s_all] in H. cbn [String.append s_lstrip].
  destruct (c_is_space c); [apply IH; exact H | reflexivity].
Qed.
Lemma rstrip_nonempty_ink b : has_ink b -> s_rstrip b <> EmptyString.
Proof.
  unfold has_ink. induction b as [|c b IH]; intro H; [discriminate|]. cbn [s_all] in H. cbn [s_rstrip].
  destruct (s_rstrip b) eqn:E; [|discriminate].
  destruct (c_is_space c) eqn:Ec; [|discriminate]. simpl in H. exfalso. now apply IH.
Qed.
Lemma rstrip_app_ink l b : has_ink b -> s_rstrip (l +++ b) = l +++ s_rstrip b.
Proof.
  intro H. induction l as [|c l IH]; [reflexivity|]. cbn [String.append s_rstrip]. rewrite IH.
  destruct (l +++ s_rstrip b) eqn:E; [|reflexivity].
  exfalso. apply (rstrip_nonempty_ink b H). destruct l; simpl in E; [assumption | discriminate].
Qed.
Lemma lstrip_ink a : has_ink a -> has_ink (s_lstrip a).
Proof.
  unfold has_ink. induction a as [|c a IH]; intro H; [discriminate|]. cbn [s_all] in H. cbn [s_lstrip].
  destruct (c_is_space c) eqn:E; [apply IH; exact H|]. cbn [s_all]. now rewrite E.
Qed.

(** strip of  a ++ middle ++ b  when a and b both contain ink *)
Lemma strip_interior a mid b : has_ink a -> has_ink b ->
  s_strip (a +++ mid +++ b) = s_lstrip a +++ mid +++ s_rstrip b.
Proof.
  intros Ha Hb. unfold s_strip. rewrite lstrip_app_ink by assumption.
  rewrite <- app_assoc_s. rewrite rstrip_app_ink by assumption. now rewrite app_assoc_s.
Qed.
Lemma strip_interior0 a b : has_ink a -> has_ink b -> s_strip (a +++ b) = s_lstrip a +++ s_rstrip b.
Proof. intros Ha Hb. unfold s_strip. rewrite lstrip_app_ink by assumption. now rewrite rstrip_app_ink. Qed.

Lemma pk_of_lstrip a : has_ink a -> pk_of (s_lstrip a) true = pk_of a true.
Proof.
  unfold has_ink. induction a as [|c a IH]; intro H; [discriminate|]. cbn [s_all] in H. cbn [s_lstrip].
  destruct (c_is_space c) eqn:E; [|reflexivity]. simpl in H. rewrite (IH H).
  (* a has ink, so it is not empty and its last character decides *)
  clear IH. cbn [pk_of]. destruct a as [|c2 a2]; [discriminate|]. reflexivity.
Qed.
Lemma last_is_lstrip p a : has_ink a -> last_is p (s_lstrip a) = last_is p a.
Proof.
  unfold has_ink. induction a as [|c a IH]; intro H; [discriminate|]. cbn [s_all] in H. cbn [s_lstrip].
  destruct (c_is_space c) eqn:E; [|reflexivity]. simpl in H. rewrite (IH H). destruct a; [discriminate | reflexivity].
Qed.
Lemma rstrip_starts_nl b' : has_ink (String nl b') -> exists b'', s_rstrip (String nl b') = String nl b''.
Proof.
  intro H. cbn [s_rstrip]. destruct (s_rstrip b') eqn:E.
  - exfalso. unfold has_ink in H. cbn [s_all] in H. change (c_is_space nl) with true in H. simpl in H.
    apply (rstrip_nonempty_ink b' H E).
  - eexists; reflexivity.
Qed.

(* ------------------------------------------------------------------------------------------ *)
(** * the rewrites *)
(** a comment-free text given by its lines, whose first and last characters are not blank *)
Definition tidy (L : list string) : Prop :=
  L <> [] /\ Forall plain_line L /\ first_is c_is_space (jn L) = false /\ last_is c_is_space (jn L) = false /\ is_empty (jn L) = false.

Inductive layout_step : string -> string -> Prop :=
| LS_outer w1 t w2 :                                   (* white space / blank lines around the text *)
    s_all c_is_space w1 = true -> s_all c_is_space w2 = true -> layout_step t (w1 +++ t +++ w2)
| LS_comment a c b' :                                  (* "#..." appended to a line (no blank needed) *)
    has_ink a -> has_ink (String nl b') -> comment_may_follow a -> last_is is_nlc a = false -> s_any is_nlc c = false ->
    layout_step (a +++ String nl b') (a +++ String c_hash (c +++ String nl b'))
| LS_comment_line a c b' :                             (* a whole comment line *)
    has_ink a -> has_ink (String nl b') -> s_any is_nlc c = false ->
    layout_step (a +++ String nl b') (a +++ String nl (String c_hash (c +++ String nl b')))
| LS_blank_line L1 w L2 :                              (* a blank line inside a tidy text *)
    tidy (L1 ++ L2) -> tidy (L1 ++ w :: L2) -> s_all c_is_space w = true ->
    layout_step (jn (L1 ++ L2)) (jn (L1 ++ w :: L2))
| LS_pad_lines L L' :                                  (* blanks / tabs around the lines of a tidy text *)
    tidy L -> tidy L' ->
    Forall2 (fun l l' => exists w1 w2, s_all c_is_space w1 = true /\ s_all c_is_space w2 = true /\ l' = w1 +++ l +++ w2) L L' ->
    layout_step (jn L) (jn L').

Inductive layout_equiv : string -> string -> Prop :=
| LE_refl t : layout_equiv t t
| LE_step t t' : layout_step t t' -> layout_equiv t t'
| LE_sym t t' : layout_equiv t t' -> layout_equiv t' t
| LE_trans t t' t'' : layout_equiv t t' -> layout_equiv t' t'' -> layout_equiv t t''.

Lemma tidy_parse L : tidy L -> parse "psi4" (jn L) = psi4_of_lines L.
Proof. intros [H1 [H2 [H3 [H4 H5]]]]. now apply psi4_text_of_lines. Qed.

Lemma step_preserves t t' : layout_step t t' -> parse "psi4" t = parse "psi4" t'.
Proof.
  intro H. destruct H as [w1 t w2 H1 H2 | a c b' Ha Hb Hp Hl Hc | a c b' Ha Hb Hc | L1 w L2 T1 T2 Hw | L L' T T' H2].
  - symmetry. now apply layout_outer_whitespace.
  - unfold parse.
    rewrite (strip_interior0 a (String nl b') Ha Hb).
    replace (a +++ String c_hash (c +++ String nl b')) with (a +++ (String c_hash c) +++ String nl b')
      by (cbn [String.append]; reflexivity).
    rewrite (strip_interior a (String c_hash c) (String nl b') Ha Hb).
    destruct (rstrip_starts_nl b' Hb) as [b'' Eb]. rewrite Eb. cbn [String.append].
    rewrite (comment_insertion (s_lstrip a) c (String nl b'')); [reflexivity | | | assumption | right; eexists; reflexivity].
    + unfold comment_may_follow in *. now rewrite pk_of_lstrip.
    + now rewrite last_is_lstrip.
  - unfold parse.
    rewrite (strip_interior0 a (String nl b') Ha Hb).
    replace (a +++ String nl (String c_hash (c +++ String nl b'))) with (a +++ (String nl (String c_hash c)) +++ String nl b')
      by (cbn [String.append]; reflexivity).
    rewrite (strip_interior a (String nl (String c_hash c)) (String nl b') Ha Hb).
    destruct (rstrip_starts_nl b' Hb) as [b'' Eb]. rewrite Eb. cbn [String.append].
    rewrite (comment_line_insertion (s_lstrip a) c (String nl b'')); [reflexivity | assumption | right; eexists; reflexivity].
  - rewrite (tidy_parse _ T1), (tidy_parse _ T2). symmetry. now apply layout_blank_lines_psi4.
  - rewrite (tidy_parse _ T), (tidy_parse _ T'). symmetry. now apply layout_line_padding_psi4.
Qed.

(** Layout insensitivity (psi4): texts related by any sequence of the rewrites, in either direction, parse alike. *)
Theorem layout_insensitive t t' : layout_equiv t t' -> parse "psi4" t = parse "psi4" t'.
Proof.
  induction 1 as [t | t t' H | t t' _ IH | t t' t'' _ IH1 _ IH2].
  - reflexivity.
  - now apply step_preserves.
  - now symmetry.
  - now rewrite IH1.
Qed.
