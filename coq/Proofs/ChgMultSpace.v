(** C05 — the searched candidate space as a proposition; completeness of the search within it; first match. *)
From Coq Require Import ZArith List Bool Lia Zify ZifyBool.
Require Import QV.Common.Outcome QV.Model.ChgMult QV.Proofs.ChgMult.
Import ListNotations.
Open Scope Z_scope.

(** * The searched space, as a proposition *)
Definition fc_choice (i : cm_in) (spec : option Z) (c : Z) : Prop :=
  match spec with Some v => c = v | None => c = missing_chg i \/ c = 0 end.
Definition fm_choice (i : cm_in) (spec : option Z) (m : Z) : Prop :=
  match spec with
  | Some v => m = v
  | None => m = 1 \/ m = 2 \/ (Z.max (fst (missing_mult_bounds i)) 1 <= m <= snd (missing_mult_bounds i))
  end.
Definition in_space (i : cm_in) (r : cm_out) : Prop :=
  (ic i = Some (oc r) \/ oc r = known_sum (ifc i))
  /\ Forall2 (fun c spec => fc_choice i spec c) (ofc r) (ifc i)
  /\ match im i with
     | Some m => om r = m
     | None => hss (apply_default (ifm i) 1) <= om r <= hss (apply_default (ifm i) 2)
     end
  /\ Forall2 (fun m spec => fm_choice i spec m) (ofm r) (ifm i).

Lemma Forall2_map_r {A B C} (P : A -> C -> Prop) (f : B -> C) l1 l2 :
  Forall2 P l1 (map f l2) <-> Forall2 (fun a b => P a (f b)) l1 l2.
Proof.
  revert l1; induction l2 as [|b l2 IH]; intro l1; simpl.
  - split; intro H; inversion H; constructor.
  - split; intro H; inversion H; subst; constructor; auto; apply IH; auto.
Qed.

Lemma Forall2_iff {A B} (P Q : A -> B -> Prop) l1 l2 :
  (forall a b, P a b <-> Q a b) -> Forall2 P l1 l2 <-> Forall2 Q l1 l2.
Proof.
  intro E. split; induction 1; constructor; auto; apply E; auto.
Qed.

Lemma in_space_candidates i r : In r (candidates i) <-> in_space i r.
Proof.
  rewrite in_candidates. unfold in_space.
  rewrite !in_dedup, !in_cart.
  assert (E1 : In (oc r) (exact_c i) <-> (ic i = Some (oc r) \/ oc r = known_sum (ifc i))).
  { unfold exact_c. rewrite in_app_iff. destruct (ic i) as [c|]; simpl.
    - split; [intros [[H|[]]|[H|[]]]; [left; congruence | right; auto] | intros [H|H]; [left; left; congruence | right; left; auto]].
    - split; [intros [[]|[H|[]]]; right; auto | intros [H|H]; [discriminate | right; left; auto]]. }
  assert (E2 : Forall2 (fun a l => In a l) (ofc r) (map dedup (exact_fc i))
               <-> Forall2 (fun c spec => fc_choice i spec c) (ofc r) (ifc i)).
  { unfold exact_fc. rewrite map_map, Forall2_map_r. apply Forall2_iff. intros a b.
    rewrite in_dedup. unfold fc_choice. destruct b; simpl; intuition. }
  assert (E3 : In (om r) (exact_m i) <-> match im i with
     | Some m => om r = m
     | None => hss (apply_default (ifm i) 1) <= om r <= hss (apply_default (ifm i) 2) end).
  { unfold exact_m. destruct (im i); simpl; [intuition|]. rewrite in_py_range. lia. }
  assert (E4 : Forall2 (fun a l => In a l) (ofm r) (map dedup (exact_fm i))
               <-> Forall2 (fun m spec => fm_choice i spec m) (ofm r) (ifm i)).
  { unfold exact_fm, fm_choice. destruct (missing_mult_bounds i) as [lo hi]. cbn [fst snd].
    rewrite map_map, Forall2_map_r. apply Forall2_iff. intros a b.
    rewrite in_dedup. destruct b; simpl; [intuition|].
    rewrite in_app_iff, <- in_rev, in_py_range. simpl. intuition lia. }
  rewrite E1, E2, E3, E4. reflexivity.
Qed.

(** * Spec implies rules_ok (converse of rules_ok_spec) *)
Lemma Forall_forallb_ge1 l : Forall (fun m => 1 <= m) l -> forallb (fun m => 1 <=? m) l = true.
Proof. induction 1; simpl; [reflexivity|]. rewrite IHForall, andb_true_r. apply Z.leb_le; assumption. Qed.

Lemma spec_rules_ok i r : wf_in i -> Spec i r -> rules_ok i r = true.
Proof.
  intros [Wc Wm] S. destruct S as [L1 L2 Hsum Hpos Htot Hfrag Hkc Hkfc Hkm Hkfm Hgh Hhigh].
  assert (Lz : length (fzel i) = length (felez i)) by (unfold fzel; apply map_length).
  assert (Lg : length (ghosts i) = length (felez i)) by (unfold ghosts; apply map_length).
  unfold rules_ok.
  repeat (apply andb_true_iff; split).
  - apply Z.eqb_eq; assumption.
  - apply Z.leb_le; tauto.
  - apply Forall_forallb_ge1; tauto.
  - unfold sufficient. apply Z.leb_le; tauto.
  - apply all3_spec; try congruence. intros k x y z Hx Hy Hz. unfold sufficient. apply Z.leb_le.
    destruct (Hfrag k x y z Hx Hy Hz); assumption.
  - unfold parity_ok. apply negb_true_iff, Z.eqb_neq; tauto.
  - apply all3_spec; try congruence. intros k x y z Hx Hy Hz. unfold parity_ok. apply negb_true_iff, Z.eqb_neq.
    destruct (Hfrag k x y z Hx Hy Hz); assumption.
  - destruct (ic i) as [c|] eqn:E; [apply Z.eqb_eq; auto | reflexivity].
  - apply match_inputs_kept; [congruence | assumption].
  - destruct (im i) as [m|] eqn:E; [apply Z.eqb_eq; auto | reflexivity].
  - apply match_inputs_kept; [congruence | assumption].
  - destruct (r8_active i) eqn:E8; [|reflexivity]. apply Z.eqb_eq. rewrite hss_spec. apply Hhigh.
    intros [F1 F2]. unfold r8_active in E8. apply orb_true_iff in E8. destruct E8 as [E|E].
    + destruct (im i); [discriminate | congruence].
    + apply existsb_exists in E. destruct E as [o [Ho Hn]]. rewrite Forall_forall in F2.
      specialize (F2 o Ho). destruct o; [discriminate | congruence].
  - apply ghost_rule_spec; try congruence. exact Hgh.
Qed.

Definition bad_supplied (i : cm_in) : Prop :=
  exists m, (im i = Some m \/ In (Some m) (ifm i)) /\ m < 1 /\ m <> 0.

Lemma bad_mult_prop o : bad_mult o = true <-> exists m, o = Some m /\ m < 1 /\ m <> 0.
Proof.
  unfold bad_mult. destruct o as [v|]; split.
  - intro H. apply andb_true_iff in H. destruct H as [H1 H2]. apply negb_true_iff, Z.eqb_neq in H1.
    apply Z.ltb_lt in H2. eauto.
  - intros [m [E [H1 H2]]]. injection E as ->. apply andb_true_iff. split; [apply negb_true_iff, Z.eqb_neq | apply Z.ltb_lt]; assumption.
  - discriminate.
  - intros [m [E _]]. discriminate.
Qed.

Lemma precheck_prop i : bad_mult (im i) || existsb bad_mult (ifm i) = true <-> bad_supplied i.
Proof.
  unfold bad_supplied. rewrite orb_true_iff, bad_mult_prop, existsb_exists. split.
  - intros [[m [E H]]|[o [Ho Hb]]].
    + exists m; auto.
    + apply bad_mult_prop in Hb. destruct Hb as [m [-> H]]. exists m; auto.
  - intros [m [[E|E] H]].
    + left; eauto.
    + right. exists (Some m). split; [assumption|]. apply bad_mult_prop. eauto.
Qed.

(** Completeness within the searched space. *)
Lemma fill_complete i : wf_in i -> fill i = Err Validation ->
  bad_supplied i \/ forall r, in_space (adjust i) r -> ~ Spec (adjust i) r.
Proof.
  intros W H. unfold fill in H.
  destruct (bad_mult (im i) || existsb bad_mult (ifm i)) eqn:B.
  - left. apply precheck_prop; assumption.
  - right. destruct (find _ _) eqn:F; [discriminate|].
    intros r Hs HS. apply in_space_candidates in Hs.
    pose proof (find_none _ _ F r Hs) as Hn. cbv beta in Hn.
    rewrite (spec_rules_ok (adjust i) r (wf_adjust i W) HS) in Hn. discriminate.
Qed.

(** and conversely: an error is raised only then *)
Lemma fill_err_iff i : wf_in i ->
  (fill i = Err Validation <-> bad_supplied i \/ forall r, in_space (adjust i) r -> ~ Spec (adjust i) r).
Proof.
  intro W. split; [apply fill_complete; assumption|].
  intros [Hb|Hn].
  - unfold fill. apply precheck_prop in Hb. rewrite Hb. reflexivity.
  - destruct (fill_fails_closed i) as [E|[r E]]; [assumption|]. exfalso.
    pose proof (fill_sound i r W E) as S.
    apply (Hn r); [|assumption]. apply in_space_candidates.
    unfold fill in E. destruct (_ || _); [discriminate|]. destruct (find _ _) eqn:F; [|discriminate].
    injection E as ->. apply find_some in F. tauto.
Qed.

(** The unrestricted reading is false: H atom asked to be a singlet *)
Definition cx_in : cm_in := {| felez := [[1]]; ic := None; ifc := [None]; im := Some 1; ifm := [None]; zgf := false |}.
Definition cx_out : cm_out := {| oc := 1; ofc := [1]; om := 1; ofm := [1] |}.
Lemma fill_complete_unrestricted_refuted :
  exists i r, wf_in i /\ fill i = Err Validation /\ ~ bad_supplied i /\ Spec (adjust i) r.
Proof.
  exists cx_in, cx_out. split; [split; reflexivity|]. split; [vm_compute; reflexivity|]. split.
  - intros [m [[E|E] [H1 H2]]]; [injection E as <-; lia | destruct E as [E|[]]; discriminate].
  - apply rules_ok_spec; [split; reflexivity | reflexivity | reflexivity | vm_compute; reflexivity].
Qed.

(** * First match *)
Lemma find_split {A} (f : A -> bool) l x : find f l = Some x ->
  exists pre post, l = pre ++ x :: post /\ Forall (fun y => f y = false) pre /\ f x = true.
Proof.
  induction l as [|a l IH]; simpl; [discriminate|]. destruct (f a) eqn:Fa.
  - intro H; injection H as ->. exists [], l. auto.
  - intro H. destruct (IH H) as (pre & post & -> & Hp & Hx). exists (a :: pre), post. repeat split; auto.
Qed.

Lemma fill_first_match i r : wf_in i -> fill i = Ok r ->
  exists pre post, candidates (adjust i) = pre ++ r :: post
    /\ Forall (fun x => ~ Spec (adjust i) x) pre /\ Spec (adjust i) r.
Proof.
  intros W H. pose proof (fill_sound i r W H) as S. unfold fill in H. destruct (_ || _); [discriminate|].
  destruct (find _ _) eqn:F; [|discriminate]. injection H as ->.
  destruct (find_split _ _ _ F) as (pre & post & E & Hp & _). exists pre, post.
  split; [exact E|]. split; [|exact S].
  rewrite Forall_forall in *. intros x Hx HS. specialize (Hp x Hx). cbv beta in Hp.
  rewrite (spec_rules_ok _ _ (wf_adjust i W) HS) in Hp. discriminate.
Qed.


(** * What the ghost override does *)
Lemma adjust_id i : zgf i = false \/ has_ghost i = false -> adjust i = i.
Proof.
  intros [H|H]; unfold adjust; [rewrite H; reflexivity|]. fold (has_ghost i). rewrite H, andb_false_r. reflexivity.
Qed.

Lemma nth_error_adjlist (g : list bool) (l : list (option Z)) d k b :
  length l = length g -> nth_error g k = Some b ->
  nth_error (map (fun p : bool * option Z => if fst p then Some d else snd p) (combine g l)) k
  = if b then Some (Some d) else nth_error l k.
Proof.
  revert l k; induction g as [|a g IH]; intros l k Hl Hk; destruct l as [|o l]; simpl in *; try discriminate;
    destruct k as [|k]; simpl in *; try discriminate.
  - injection Hk as ->. destruct b; reflexivity.
  - apply IH; [lia | assumption].
Qed.

Lemma adjust_override i : wf_in i -> zgf i = true -> has_ghost i = true ->
  felez (adjust i) = felez i /\ ic (adjust i) = None /\ im (adjust i) = None /\
  forall k g, nth_error (ghosts i) k = Some g ->
    nth_error (ifc (adjust i)) k = (if g then Some (Some 0) else nth_error (ifc i) k) /\
    nth_error (ifm (adjust i)) k = (if g then Some (Some 1) else nth_error (ifm i) k).
Proof.
  intros [Wc Wm] Hz Hg. unfold adjust. fold (has_ghost i). rewrite Hz, Hg. cbn.
  repeat split; try reflexivity.
  - apply nth_error_adjlist; [|assumption]. unfold ghosts. rewrite map_length. assumption.
  - apply nth_error_adjlist; [|assumption]. unfold ghosts. rewrite map_length. assumption.
Qed.

(** * Default with zero_ghost_fragments = True and no ghost fragment *)
Lemma fill_default_zgf_noghost fe :
  Forall (fun f => 0 <= zsum f) fe -> has_ghost (blank fe true) = false -> fill (blank fe true) = Ok (target fe).
Proof.
  intros H Hg. rewrite <- (fill_default fe H). unfold fill.
  rewrite (adjust_id (blank fe true)) by (right; assumption).
  rewrite (adjust_id (blank fe false)) by (left; reflexivity).
  reflexivity.
Qed.

Lemma fill_complete_unrestricted_refuted_facts : fill cx_in = Err Validation /\ ~ bad_supplied cx_in.
Proof.
  split; [vm_compute; reflexivity|].
  intros [m [[E|E] [H1 H2]]]; [injection E as <-; lia | destruct E as [E|[]]; discriminate].
Qed.
