(** C05 — proofs about Model/ChgMultD.v (rational charges with common denominator D) *)
From Coq Require Import ZArith List Bool Lia Zify ZifyBool.
Require Import QV.Common.Outcome QV.Model.ChgMult QV.Model.ChgMultD QV.Proofs.ChgMult QV.Proofs.ChgMultSpace.
Import ListNotations.
Open Scope Z_scope.

Lemma all3_ext f g a b c : (forall x y z, f x y z = g x y z) -> all3 f a b c = all3 g a b c.
Proof.
  intro E. revert b c; induction a as [|x a IH]; intros b c; destruct b, c; simpl; auto. rewrite E, IH. reflexivity.
Qed.

Lemma sufficientD_1 z c m : sufficientD 1 z c m = sufficient z c m.
Proof. unfold sufficientD, sufficient. rewrite Z.mul_1_r. reflexivity. Qed.
Lemma parity_okD_1 z c m : parity_okD 1 z c m = parity_ok z c m.
Proof. unfold parity_okD, parity_ok. rewrite Z.mul_1_r. reflexivity. Qed.

Lemma rules_okD_1 i r : rules_okD 1 i r = rules_ok i r.
Proof.
  unfold rules_okD, rules_ok. rewrite sufficientD_1, parity_okD_1.
  rewrite (all3_ext (sufficientD 1) sufficient) by apply sufficientD_1.
  rewrite (all3_ext (parity_okD 1) parity_ok) by apply parity_okD_1. reflexivity.
Qed.

Lemma find_ext {A} (f g : A -> bool) l : (forall x, f x = g x) -> find f l = find g l.
Proof. intro E. induction l as [|a l IH]; simpl; auto. rewrite E, IH. reflexivity. Qed.

(** integer charges are the case D = 1 *)
Lemma fillD_1 i : fillD 1 i = fill i.
Proof. unfold fillD, fill. rewrite (find_ext (rules_okD 1 (adjust i)) (rules_ok (adjust i))) by (intro; apply rules_okD_1). reflexivity. Qed.

(** the parity rule, read on the rational (z - c) / D *)
Lemma parity_okD_spec D z c m : 0 < D ->
  (parity_okD D z c m = true <-> forall q, z - c = q * D -> m mod 2 <> q mod 2).
Proof.
  intro HD. unfold parity_okD. rewrite negb_true_iff, Z.eqb_neq. split.
  - intros H q E Hm. apply H. rewrite E, Hm. rewrite Z.mul_mod_distr_r by lia. reflexivity.
  - intros H E.
    assert (Hdiv : (z - c) mod D = 0).
    { pose proof (Z.div_mod (z - c) (2 * D) ltac:(lia)) as X.
      assert (Y : z - c = ((m mod 2) + 2 * ((z - c) / (2 * D))) * D) by lia.
      rewrite Y. apply Z_mod_mult. }
    apply Z.mod_divide in Hdiv; [|lia]. destruct Hdiv as [q Hq].
    apply (H q Hq). rewrite Hq in E. rewrite Z.mul_mod_distr_r in E by lia.
    apply Z.mul_cancel_r in E; [assumption | lia].
Qed.

(** non-integral (z - c) / D: no parity constraint *)
Lemma parity_okD_frac D z c m : 0 < D -> (z - c) mod D <> 0 -> parity_okD D z c m = true.
Proof.
  intros HD Hn. apply parity_okD_spec; [assumption|]. intros q E. exfalso. apply Hn. rewrite E. apply Z_mod_mult.
Qed.

Definition frag_okD (D : Z) (i : cm_in) (r : cm_out) : Prop :=
  forall k z c m, nth_error (fzel i) k = Some z -> nth_error (ofc r) k = Some c -> nth_error (ofm r) k = Some m ->
    (m - 1) * D <= z - c /\ (forall q, z - c = q * D -> m mod 2 <> q mod 2).

(** Spec for rational charges x / D *)
Record SpecD (D : Z) (i : cm_in) (r : cm_out) : Prop := {
  sd_len_fc : length (ofc r) = length (felez i);
  sd_len_fm : length (ofm r) = length (felez i);
  sd_sum : oc r = zsum (ofc r);
  sd_pos : 1 <= om r /\ Forall (fun m => 1 <= m) (ofm r);
  sd_tot : (om r - 1) * D <= zel i - oc r /\ (forall q, zel i - oc r = q * D -> (om r) mod 2 <> q mod 2);
  sd_frag : frag_okD D i r;
  sd_keep_c : forall c, ic i = Some c -> oc r = c;
  sd_keep_fc : kept (ifc i) (ofc r);
  sd_keep_m : forall m, im i = Some m -> om r = m;
  sd_keep_fm : kept (ifm i) (ofm r);
  sd_ghost : ghosts_neutral_singlet i r;
  sd_high : ~ fully_specified_mult i -> high_spin r
}.

Lemma rules_okD_spec D i r : 0 < D ->
  wf_in i -> length (ofc r) = length (ifc i) -> length (ofm r) = length (ifm i) ->
  (rules_okD D i r = true <-> SpecD D i r).
Proof.
  intros HD [Wc Wm] Lc Lm.
  assert (Lz : length (fzel i) = length (felez i)) by (unfold fzel; apply map_length).
  assert (Lg : length (ghosts i) = length (felez i)) by (unfold ghosts; apply map_length).
  split.
  - intro H. unfold rules_okD in H.
    repeat (apply andb_true_iff in H; destruct H as [H ?]).
    match goal with [ Hx : all3 (sufficientD D) _ _ _ = true |- _ ] =>
      rewrite all3_spec in Hx by congruence; rename Hx into Hsuf end.
    match goal with [ Hx : all3 (parity_okD D) _ _ _ = true |- _ ] =>
      rewrite all3_spec in Hx by congruence; rename Hx into Hpar end.
    match goal with [ Hx : ghost_rule _ _ _ = true |- _ ] =>
      rewrite ghost_rule_spec in Hx by congruence; rename Hx into Hgh end.
    repeat match goal with [ Hx : match_inputs _ _ = true |- _ ] =>
      rewrite match_inputs_kept in Hx by congruence end.
    constructor; try congruence.
    + apply Z.eqb_eq; assumption.
    + split; [apply Z.leb_le; assumption|]. apply Forall_forall. intros m Hm.
      match goal with [ Hx : forallb _ (ofm r) = true |- _ ] => rewrite forallb_forall in Hx; apply Z.leb_le, Hx, Hm end.
    + match goal with [ Hx : sufficientD D (zel i) _ _ = true |- _ ] => unfold sufficientD in Hx; apply Z.leb_le in Hx end.
      split; [assumption | apply (parity_okD_spec D _ _ _ HD); assumption].
    + intros k z c m Hz Hc Hm. specialize (Hsuf k z c m Hz Hc Hm). specialize (Hpar k z c m Hz Hc Hm).
      unfold sufficientD in Hsuf. apply Z.leb_le in Hsuf. split; [assumption | apply (parity_okD_spec D _ _ _ HD); assumption].
    + intros c Hc. match goal with [ Hx : match ic i with _ => _ end = true |- _ ] => rewrite Hc in Hx; apply Z.eqb_eq, Hx end.
    + assumption.
    + intros m Hm. match goal with [ Hx : match im i with _ => _ end = true |- _ ] => rewrite Hm in Hx; apply Z.eqb_eq, Hx end.
    + assumption.
    + exact Hgh.
    + intro Hnf. unfold high_spin. rewrite <- hss_spec.
      match goal with [ Hx : (if r8_active i then _ else _) = true |- _ ] => rename Hx into Hr8 end.
      destruct (r8_active i) eqn:E8; [apply Z.eqb_eq; assumption|].
      exfalso. apply Hnf. unfold r8_active in E8. apply orb_false_iff in E8. destruct E8 as [E1 E2]. split.
      * destruct (im i); [discriminate | simpl in E1; discriminate].
      * apply existsb_is_none_false; assumption.
  - intro S. destruct S as [L1 L2 Hsum Hpos Htot Hfrag Hkc Hkfc Hkm Hkfm Hgh Hhigh].
    unfold rules_okD.
    repeat (apply andb_true_iff; split).
    + apply Z.eqb_eq; assumption.
    + apply Z.leb_le; tauto.
    + apply forallb_forall. intros m Hm. apply Z.leb_le. destruct Hpos as [_ Hp]. rewrite Forall_forall in Hp. auto.
    + unfold sufficientD. apply Z.leb_le; tauto.
    + apply all3_spec; try congruence. intros k x y z Hx Hy Hz. unfold sufficientD. apply Z.leb_le.
      destruct (Hfrag k x y z Hx Hy Hz); assumption.
    + apply parity_okD_spec; tauto.
    + apply all3_spec; try congruence. intros k x y z Hx Hy Hz. apply parity_okD_spec; [assumption|].
      destruct (Hfrag k x y z Hx Hy Hz); assumption.
    + destruct (ic i) as [c|] eqn:E; [apply Z.eqb_eq; auto | reflexivity].
    + apply match_inputs_kept; [congruence | assumption].
    + destruct (im i) as [m|] eqn:E; [apply Z.eqb_eq; auto | reflexivity].
    + apply match_inputs_kept; [congruence | assumption].
    + destruct (r8_active i) eqn:E8; [|reflexivity]. apply Z.eqb_eq. rewrite hss_spec. apply Hhigh.
      intros [F1 F2]. unfold r8_active in E8. apply orb_true_iff in E8. destruct E8 as [E|E].
      * destruct (im i); [discriminate | congruence].
      * apply existsb_exists in E. destruct E as [o [Ho Hn]]. rewrite Forall_forall in F2.
        specialize (F2 o Ho). destruct o; [discriminate | congruence].
    + apply ghost_rule_spec; try congruence. exact Hgh.
Qed.

Lemma fillD_sound D i r : 0 < D -> wf_in i -> fillD D i = Ok r -> SpecD D (adjust i) r.
Proof.
  intros HD W H. unfold fillD in H. destruct (_ || _); [discriminate|].
  destruct (find _ _) as [r'|] eqn:F; [|discriminate]. injection H as ->.
  apply find_some in F. destruct F as [Hin Hok].
  apply candidates_lengths in Hin. destruct Hin as [Lc Lm].
  apply rules_okD_spec; auto using wf_adjust.
Qed.

Lemma fillD_fails_closed D i : fillD D i = Err Validation \/ exists r, fillD D i = Ok r.
Proof.
  unfold fillD. destruct (_ || _); [left; reflexivity|].
  destruct (find _ _); [right; eexists; reflexivity | left; reflexivity].
Qed.

(* ------------------------------------------------------------------------------------------ *)
(** * Acceptance of complete assignments and fixed point, stated against the specification itself *)

Lemma adjust_felez i : felez (adjust i) = felez i.
Proof. unfold adjust; destruct (_ && _); reflexivity. Qed.
Lemma adjust_ghosts i : ghosts (adjust i) = ghosts i.
Proof. unfold ghosts. rewrite adjust_felez. reflexivity. Qed.
Lemma adjust_fzel i : fzel (adjust i) = fzel i.
Proof. unfold fzel. rewrite adjust_felez. reflexivity. Qed.
Lemma adjust_zel i : zel (adjust i) = zel i.
Proof. unfold zel. rewrite adjust_fzel. reflexivity. Qed.

Definition ghost_facts (i : cm_in) (r : cm_out) : Prop :=
  forall k c m, nth_error (ghosts i) k = Some true -> nth_error (ofc r) k = Some c -> nth_error (ofm r) k = Some m ->
    c = 0 /\ m = 1.

Lemma adjust_respec_shape i r :
  length (ofc r) = length (felez i) -> length (ofm r) = length (felez i) -> ghost_facts i r ->
  let a := adjust (respec i r) in
  ifc a = map Some (ofc r) /\ ifm a = map Some (ofm r) /\
  ((zgf i && has_ghost i = false /\ ic a = Some (oc r) /\ im a = Some (om r))
   \/ (zgf i && has_ghost i = true /\ ic a = None /\ im a = None)).
Proof.
  intros Lc Lm Hgh a. subst a. unfold adjust. cbn [zgf respec].
  change (ghosts (respec i r)) with (ghosts i). fold (has_ghost i).
  assert (Lg : length (ghosts i) = length (felez i)) by (unfold ghosts; apply map_length).
  destruct (zgf i && has_ghost i) eqn:EZ.
  - cbn [felez ifc ifm ic im respec].
    assert (G0 : forall k x, nth_error (ghosts i) k = Some true -> nth_error (ofc r) k = Some x -> x = 0).
    { intros k x Hk Hx. destruct (nth_error (ofm r) k) as [m|] eqn:Em.
      - destruct (Hgh k x m Hk Hx Em); assumption.
      - exfalso. apply nth_error_None in Em.
        assert (k < length (ofc r))%nat by (apply nth_error_Some; congruence). lia. }
    assert (G1 : forall k x, nth_error (ghosts i) k = Some true -> nth_error (ofm r) k = Some x -> x = 1).
    { intros k x Hk Hx. destruct (nth_error (ofc r) k) as [c|] eqn:Ec.
      - destruct (Hgh k c x Hk Ec Hx); assumption.
      - exfalso. apply nth_error_None in Ec.
        assert (k < length (ofm r))%nat by (apply nth_error_Some; congruence). lia. }
    rewrite (adjust_list_id (ghosts i) (ofc r) 0 ltac:(congruence) G0).
    rewrite (adjust_list_id (ghosts i) (ofm r) 1 ltac:(congruence) G1).
    split; [reflexivity|]. split; [reflexivity|]. right. auto.
  - cbn [ifc ifm ic im respec]. split; [reflexivity|]. split; [reflexivity|]. left. auto.
Qed.

Lemma kept_self v : kept (map Some v) v.
Proof. intros k s H. rewrite nth_error_map in H. destruct (nth_error v k); simpl in H; congruence. Qed.

(** Any complete assignment that satisfies the specification is accepted as is. *)
Lemma fillD_accepts_spec D i r : 0 < D -> SpecD D (adjust (respec i r)) r -> fillD D (respec i r) = Ok r.
Proof.
  intros HD S. pose proof S as S0.
  destruct S as [L1 L2 Hsum Hpos Htot Hfrag Hkc Hkfc Hkm Hkfm Hgh Hhigh].
  rewrite adjust_felez in L1, L2. cbn [felez respec] in L1, L2.
  assert (W : wf_in (respec i r)) by (split; cbn [ifc ifm felez respec]; rewrite map_length; assumption).
  assert (GF : ghost_facts i r) by (unfold ghosts_neutral_singlet in Hgh; rewrite adjust_ghosts in Hgh; exact Hgh).
  destruct (adjust_respec_shape i r L1 L2 GF) as (Efc & Efm & Hcase).
  assert (C : candidates (adjust (respec i r)) = [r]).
  { destruct Hcase as [(EZ & Ec & Em) | (EZ & Ec & Em)].
    - apply candidates_full; auto.
    - apply candidates_full; auto. right. split; [assumption|]. rewrite hss_spec. apply Hhigh.
      intros [F _]. apply F. assumption. }
  unfold fillD. cbn [im ifm respec].
  rewrite bad_mult_some_pos by tauto.
  rewrite existsb_bad_mult_pos.
  2:{ apply forallb_forall. intros m Hm. apply Z.leb_le. destruct Hpos as [_ Hp]. rewrite Forall_forall in Hp. auto. }
  cbn [orb]. rewrite C. cbn [find].
  pose proof (wf_adjust _ W) as [Wc Wm].
  rewrite (proj2 (rules_okD_spec D _ r HD (wf_adjust _ W) ltac:(rewrite Efc, map_length; reflexivity)
                                  ltac:(rewrite Efm, map_length; reflexivity)) S0).
  reflexivity.
Qed.

(** A result satisfies the specification of its own re-specification. *)
Lemma spec_respec D i r : wf_in i -> SpecD D (adjust i) r -> SpecD D (adjust (respec i r)) r.
Proof.
  intros W S. destruct S as [L1 L2 Hsum Hpos Htot Hfrag Hkc Hkfc Hkm Hkfm Hgh Hhigh].
  rewrite adjust_felez in L1, L2.
  assert (GF : ghost_facts i r) by (unfold ghosts_neutral_singlet in Hgh; rewrite adjust_ghosts in Hgh; exact Hgh).
  destruct (adjust_respec_shape i r L1 L2 GF) as (Efc & Efm & Hcase).
  rewrite adjust_zel in Htot. unfold frag_okD in Hfrag. rewrite adjust_fzel in Hfrag.
  constructor.
  - rewrite adjust_felez. exact L1.
  - rewrite adjust_felez. exact L2.
  - exact Hsum.
  - exact Hpos.
  - rewrite adjust_zel. exact Htot.
  - unfold frag_okD. rewrite adjust_fzel. exact Hfrag.
  - intros c Hc. destruct Hcase as [(_ & Ec & _) | (_ & Ec & _)]; congruence.
  - rewrite Efc. apply kept_self.
  - intros m Hm. destruct Hcase as [(_ & _ & Em) | (_ & _ & Em)]; congruence.
  - rewrite Efm. apply kept_self.
  - unfold ghosts_neutral_singlet. rewrite adjust_ghosts. exact GF.
  - intro Hnf. destruct Hcase as [(EZ & Ec & Em) | (EZ & Ec & Em)].
    + exfalso. apply Hnf. split; [congruence|]. rewrite Efm. apply Forall_forall. intros o Ho.
      apply in_map_iff in Ho. destruct Ho as [x [<- _]]. discriminate.
    + apply Hhigh. intros [F _]. apply F. unfold adjust. fold (has_ghost i). rewrite EZ. reflexivity.
Qed.

Lemma fillD_fixed_point D i r : 0 < D -> wf_in i -> fillD D i = Ok r -> fillD D (respec i r) = Ok r.
Proof.
  intros HD W H. apply fillD_accepts_spec; [assumption|]. apply spec_respec; [assumption|].
  apply fillD_sound; assumption.
Qed.

(* ------------------------------------------------------------------------------------------ *)
(** * Completeness within the searched space, first match *)

Lemma fillD_err_iff D i : 0 < D -> wf_in i ->
  (fillD D i = Err Validation <-> bad_supplied i \/ forall r, in_space (adjust i) r -> ~ SpecD D (adjust i) r).
Proof.
  intros HD W. split.
  - intro H. unfold fillD in H.
    destruct (bad_mult (im i) || existsb bad_mult (ifm i)) eqn:B.
    + left. apply precheck_prop; assumption.
    + right. destruct (find _ _) eqn:F; [discriminate|].
      intros r Hs HS. apply in_space_candidates in Hs.
      pose proof (find_none _ _ F r Hs) as Hn. cbv beta in Hn.
      apply candidates_lengths in Hs. destruct Hs as [Lc Lm].
      rewrite (proj2 (rules_okD_spec D _ r HD (wf_adjust i W) Lc Lm) HS) in Hn. discriminate.
  - intros [Hb|Hn].
    + unfold fillD. apply precheck_prop in Hb. rewrite Hb. reflexivity.
    + destruct (fillD_fails_closed D i) as [E|[r E]]; [assumption|]. exfalso.
      pose proof (fillD_sound D i r HD W E) as S.
      apply (Hn r); [|assumption]. apply in_space_candidates.
      unfold fillD in E. destruct (_ || _); [discriminate|]. destruct (find _ _) eqn:F; [|discriminate].
      injection E as ->. apply find_some in F. tauto.
Qed.

Lemma fillD_first_match D i r : 0 < D -> wf_in i -> fillD D i = Ok r ->
  exists pre post, candidates (adjust i) = pre ++ r :: post
    /\ Forall (fun x => ~ SpecD D (adjust i) x) pre /\ SpecD D (adjust i) r.
Proof.
  intros HD W H. pose proof (fillD_sound D i r HD W H) as S. unfold fillD in H. destruct (_ || _); [discriminate|].
  destruct (find _ _) eqn:F; [|discriminate]. injection H as ->.
  destruct (find_split _ _ _ F) as (pre & post & E & Hp & _). exists pre, post.
  split; [exact E|]. split; [|exact S].
  rewrite Forall_forall in *. intros x Hx HS. specialize (Hp x Hx). cbv beta in Hp.
  assert (Hin : In x (candidates (adjust i))) by (rewrite E; apply in_or_app; left; assumption).
  apply candidates_lengths in Hin. destruct Hin as [Lc Lm].
  rewrite (proj2 (rules_okD_spec D _ x HD (wf_adjust i W) Lc Lm) HS) in Hp. discriminate.
Qed.

(** SpecD at D = 1 is Spec *)
Lemma SpecD_1 i r : SpecD 1 i r <-> Spec i r.
Proof.
  split; intro S.
  - destruct S as [L1 L2 Hsum Hpos Htot Hfrag Hkc Hkfc Hkm Hkfm Hgh Hhigh]. constructor; auto.
    + destruct Htot as [T1 T2]. split; [lia|]. apply (T2 (zel i - oc r)). lia.
    + intros k z c m Hz Hc Hm. destruct (Hfrag k z c m Hz Hc Hm) as [T1 T2]. split; [lia|]. apply (T2 (z - c)). lia.
  - destruct S as [L1 L2 Hsum Hpos Htot Hfrag Hkc Hkfc Hkm Hkfm Hgh Hhigh]. constructor; auto.
    + destruct Htot as [T1 T2]. split; [lia|]. intros q E. replace q with (zel i - oc r) by lia. assumption.
    + intros k z c m Hz Hc Hm. destruct (Hfrag k z c m Hz Hc Hm) as [T1 T2]. split; [lia|].
      intros q E. replace q with (z - c) by lia. assumption.
Qed.

(** integer case: acceptance stated against [Spec] *)
Lemma fill_accepts_spec i r : Spec (adjust (respec i r)) r -> fill (respec i r) = Ok r.
Proof. intro S. rewrite <- fillD_1. apply fillD_accepts_spec; [lia|]. apply SpecD_1; assumption. Qed.

(** A half-integral charge: no parity constraint, e.g. He with charge +1/2 may be a singlet (D = 2). *)
Example fillD_half : fillD 2 {| felez := [[4]]; ic := None; ifc := [Some 1]; im := None; ifm := [None]; zgf := false |}
                     = Ok {| oc := 1; ofc := [1]; om := 1; ofm := [1] |}.
Proof. vm_compute. reflexivity. Qed.
