(** C17: the tables built by the translated __init__ methods (Gen/RadiiInit.v) ARE the hand-written tables of Model/Radii.v. *)
From Coq Require Import ZArith QArith List String Bool.
Require Import QV.Common.Outcome QV.Common.PyAscii.
Require Import QV.Gen.Radii QV.Model.PeriodicTable QV.Model.PeriodicTableGlue QV.Model.Radii QV.Model.RadiiGlue QV.Gen.RadiiGlue.
Require Import QV.Model.RadiiInit QV.Gen.RadiiInit.
Require Import QV.Proofs.RadiiGlue.
Import ListNotations.

(** * general facts: item assignment against the model's "append, last assignment wins" reading *)
Lemma alist_get_app {V} k (l1 l2 : list (string * V)) acc :
  alist_get k (l1 ++ l2) acc = alist_get k l2 (alist_get k l1 acc).
Proof. revert acc. induction l1 as [|[k' v] r IH]; intro acc; cbn; [reflexivity|apply IH]. Qed.

Lemma alist_get_absent {V} k (l : list (string * V)) acc :
  existsb (fun kv => String.eqb k (fst kv)) l = false -> alist_get k l acc = acc.
Proof.
  revert acc. induction l as [|[k' v] r IH]; intros acc H; cbn in *; [reflexivity|].
  apply orb_false_iff in H. destruct H as [H1 H2]. rewrite H1. apply IH, H2.
Qed.

(** on a dict with pairwise distinct keys, [dict_set] is seen by every lookup as the assignment it models *)
Lemma dict_set_get {V} (d : list (string * V)) k v k0 :
  keys_distinct (map fst d) = true ->
  alist_get k0 (dict_set d k v) None = if String.eqb k0 k then Some v else alist_get k0 d None.
Proof.
  assert (G : forall acc, keys_distinct (map fst d) = true ->
              alist_get k0 (dict_set d k v) acc =
              if String.eqb k0 k then Some v else alist_get k0 d acc).
  { induction d as [|[k' v'] r IH]; intros acc D; cbn in *.
    - destruct (String.eqb k0 k); reflexivity.
    - apply andb_true_iff in D. destruct D as [D1 D2].
      destruct (String.eqb k k') eqn:E.
      + apply String.eqb_eq in E. subst k'. cbn.
        destruct (String.eqb k0 k) eqn:E0.
        * apply String.eqb_eq in E0. subst k0.
          apply alist_get_absent. apply negb_true_iff in D1.
          rewrite <- D1. clear. induction r as [|[a b] r IH]; cbn; [reflexivity|]. now rewrite IH.
        * reflexivity.
      + cbn. rewrite IH by exact D2.
        destruct (String.eqb k0 k) eqn:E0; [|reflexivity].
        reflexivity. }
  intro D. apply G, D.
Qed.

Lemma dict_set_keys_mem {V} (d : list (string * V)) k v k1 :
  existsb (String.eqb k1) (map fst (dict_set d k v)) = existsb (String.eqb k1) (map fst d) || String.eqb k1 k.
Proof.
  induction d as [|[k' v'] r IH]; cbn.
  - now rewrite orb_false_r.
  - destruct (String.eqb k k') eqn:E; cbn.
    + apply String.eqb_eq in E. subst k'. destruct (String.eqb k1 k); cbn; [reflexivity|now rewrite orb_false_r].
    + rewrite IH. now rewrite orb_assoc.
Qed.

Lemma dict_set_keys_distinct {V} (d : list (string * V)) k v :
  keys_distinct (map fst d) = true -> keys_distinct (map fst (dict_set d k v)) = true.
Proof.
  induction d as [|[k' v'] r IH]; intro D; cbn in *; [reflexivity|].
  apply andb_true_iff in D. destruct D as [D1 D2].
  destruct (String.eqb k k') eqn:E; cbn.
  - now rewrite D1, D2.
  - rewrite IH by exact D2. rewrite andb_true_r.
    rewrite dict_set_keys_mem. apply negb_true_iff in D1. rewrite D1. cbn.
    rewrite String.eqb_sym, E. reflexivity.
Qed.

(** a loop of item assignments: every lookup sees the assignments in order, the last one to a key winning — the model's reading *)
Lemma fold_dict_set {V R} (f : list (string * V) -> R -> list (string * V)) (K : R -> string) (W : R -> V) :
  (forall d r, f d r = dict_set d (K r) (W r)) ->
  forall rows d, keys_distinct (map fst d) = true ->
    keys_distinct (map fst (fold_left f rows d)) = true /\
    forall k0, alist_get k0 (fold_left f rows d) None =
               alist_get k0 (map (fun r => (K r, W r)) rows) (alist_get k0 d None).
Proof.
  intros F rows. induction rows as [|r rs IH]; intros d D; cbn.
  - split; [exact D|reflexivity].
  - rewrite F. destruct (IH (dict_set d (K r) (W r)) (dict_set_keys_distinct d (K r) (W r) D)) as [D' G].
    split; [exact D'|]. intro k0. rewrite G, dict_set_get by exact D. reflexivity.
Qed.

(** * the generated tables *)
Opaque cov_rows cov_aliases vdw_rows.

(** self.cr as built by the translated CovalentRadii.__init__ answers every lookup like the model's table *)
Theorem g_cov_init_lookup : forall k, tbl_get g_cov_init k = tbl_get cov_table k.
Proof.
  intro k. unfold g_cov_init, tbl_get. cbv zeta.
  match goal with |- context [fold_left ?f cov_rows []] =>
    edestruct (fold_dict_set f _ _ (fun d r => eq_refl) cov_rows [] eq_refl) as [D1 G1];
    set (d1 := fold_left f cov_rows []) in *
  end.
  match goal with |- context [fold_left ?f cov_aliases d1] =>
    edestruct (fold_dict_set f _ _ (fun d r => eq_refl) cov_aliases d1 D1) as [_ G2]
  end.
  rewrite G2, G1. unfold cov_table. rewrite alist_get_app. cbn [alist_get].
  assert (E1 : forall k0 acc, alist_get k0 (map (fun r : string * string * string =>
               ((let '(c0, _, _) := r in c0), (let '(c0, c1, c2) := r in Build_entry c0 cov_units (dec_of_string c1) c2))) cov_rows) acc
             = alist_get k0 cov_base acc).
  { intros k0 acc. unfold cov_base, rows_entries. apply (f_equal (fun l => alist_get k0 l acc)). apply map_ext. intros [[l v] c]. reflexivity. }
  rewrite E1. unfold cov_alias_entries.
  apply (f_equal (fun l => alist_get k l (alist_get k cov_base None))). apply map_ext. intros [[[a0 a1] a2] a3].
  unfold opt_entry_data, tbl_get. rewrite G1. cbn [alist_get]. rewrite E1. reflexivity.
Qed.

Theorem g_vdw_init_lookup : forall k, tbl_get g_vdw_init k = tbl_get vdw_table k.
Proof.
  intro k. unfold g_vdw_init, tbl_get. cbv zeta.
  match goal with |- context [fold_left ?f vdw_rows []] =>
    edestruct (fold_dict_set f _ _ (fun d r => eq_refl) vdw_rows [] eq_refl) as [_ G1]
  end.
  rewrite G1. cbn [alist_get]. unfold vdw_table, rows_entries. rewrite map_map.
  apply (f_equal (fun l => alist_get k l None)). apply map_ext. intros [l v]. reflexivity.
Qed.

(** [get] sees a table only through its lookups *)
Lemma get_ext {M} t t' :
  (forall k, tbl_get t k = tbl_get t' k) ->
  forall x (missing : option M) rt f, get t x missing rt f = get t' x missing rt f.
Proof.
  intros H x missing rt f.
  assert (I : ident t x = ident t' x) by (unfold ident, tbl_mem; destruct x; [reflexivity|now rewrite H]).
  unfold get. rewrite I. destruct (ident t' x); cbn [obind]; [rewrite H|]; reflexivity.
Qed.

(** the whole public path as translated: the table built by the translated __init__, read by the translated get, is the model *)
Theorem generated_init_and_get_is_model {M} x (missing : option M) rt f :
  g_cov_get g_cov_init x missing rt f = omap embed (get cov_table x missing rt f) /\
  g_vdw_get g_vdw_init x missing rt f = omap embed (get vdw_table x missing rt f).
Proof.
  rewrite g_cov_get_eq, g_vdw_get_eq.
  rewrite (get_ext _ _ g_cov_init_lookup), (get_ext _ _ g_vdw_init_lookup). split; reflexivity.
Qed.

(** on the shipped tables the constructed dictionaries are the model's lists themselves (same keys in the same order) *)
Lemma g_init_shipped : g_cov_init = cov_table /\ g_vdw_init = vdw_table.
Proof. split; vm_compute; reflexivity. Qed.
