(** C07 — the keyword / unit-word / separator tables inside the hand-written recognisers of Model/Text.v are the
    tables that harness/translate/text_tables.py extracts from the regular expressions of from_string.py and
    regex.py on every run (Gen/TextTables.v): "generated = hand model", for all inputs.  The proofs only case-split
    on the comparisons, so that reordering the alternatives of a regular expression keeps them valid. *)
From Coq Require Import ZArith NArith List String Ascii Bool.
Require Import QV.Common.Outcome QV.Common.WText QV.Common.WBin64 QV.Model.Text QV.Gen.TextTables.
Import ListNotations.

Definition in_words (ws : list string) (s : string) : bool := existsb (s_eqb s) ws.
Definition in_codes (cs : list N) (c : ascii) : bool := existsb (N.eqb (code c)) cs.

Ltac split_eqbs :=
  repeat match goal with
         | |- context [s_eqb ?a ?b] => destruct (s_eqb a b)
         | |- context [N.eqb ?a ?b] => destruct (N.eqb a b)
         end; try reflexivity.

Lemma is_com_table l : is_com l = in_words gen_com_words (s_lower l).
Proof. unfold is_com, in_words, gen_com_words. cbn [existsb]. split_eqbs. Qed.
Lemma is_orient_table l : is_orient l = in_words gen_orient_words (s_lower l).
Proof. unfold is_orient, in_words, gen_orient_words. cbn [existsb]. split_eqbs. Qed.
Lemma is_sepc_table c : is_sepc c = in_codes gen_sep_codes c.
Proof. unfold is_sepc, in_codes, gen_sep_codes. cbn [existsb]. generalize (code c). intro n. split_eqbs. Qed.
Lemma is_expc_table c : is_expc c = in_codes gen_expc_codes c.
Proof. unfold is_expc, in_codes, gen_expc_codes. cbn [existsb]. generalize (code c). intro n. split_eqbs. Qed.

(** units?[\s=]+((bohr words)|(angstrom words)) with the generated word lists *)
Definition units_match_gen (line : string) : option string :=
  if s_prefix "unit" (s_lower line) then
    let r0 := s_drop 4 line in
    let r1 := match r0 with String c r => if c_eqb (c_lower c) (ch 115) then r else r0 | EmptyString => r0 end in
    if first_is is_ws_eq r1 then
      let w := drop_while is_ws_eq r1 in
      let lw := s_lower w in
      if in_words gen_units_bohr_words lw || (gen_units_dotted_au && au_dotted w) then Some "Bohr"%string
      else if in_words gen_units_ang_words lw then Some "Angstrom"%string
      else None
    else None
  else None.
Lemma units_match_table l : units_match l = units_match_gen l.
Proof.
  unfold units_match, units_match_gen. destruct (s_prefix "unit" (s_lower l)); [|reflexivity]. cbv zeta.
  match goal with |- (if ?c then _ else _) = _ => destruct c; [|reflexivity] end.
  unfold in_words, gen_units_bohr_words, gen_units_ang_words, gen_units_dotted_au. cbn [existsb andb].
  match goal with |- context [au_dotted ?w] => destruct (au_dotted w) end; split_eqbs.
Qed.

(** \d+[\s,]*((bohr words)|(angstrom words))? with the generated word lists *)
Definition xyz1_match_gen (line : string) : option (option string) :=
  if first_is c_is_digit line then
    let r := s_lower (drop_while is_ws_comma (drop_while c_is_digit line)) in
    if is_empty r then Some None
    else if in_words gen_xyz1_bohr_words r then Some (Some "Bohr"%string)
    else if in_words gen_xyz1_ang_words r then Some (Some "Angstrom"%string)
    else None
  else None.
Lemma xyz1_match_table l : xyz1_match l = xyz1_match_gen l.
Proof.
  unfold xyz1_match, xyz1_match_gen. destruct (first_is c_is_digit l); [|reflexivity]. cbv zeta.
  match goal with |- (if ?c then _ else _) = _ => destruct c; [reflexivity|] end.
  unfold in_words, gen_xyz1_bohr_words, gen_xyz1_ang_words. cbn [existsb]. split_eqbs.
Qed.

Theorem recognisers_use_the_source_tables :
  (forall l, is_com l = in_words gen_com_words (s_lower l))
  /\ (forall l, is_orient l = in_words gen_orient_words (s_lower l))
  /\ (forall l, units_match l = units_match_gen l)
  /\ (forall l, xyz1_match l = xyz1_match_gen l)
  /\ (forall c, is_sepc c = in_codes gen_sep_codes c)
  /\ (forall c, is_expc c = in_codes gen_expc_codes c).
Proof.
  repeat split; intros; [apply is_com_table | apply is_orient_table | apply units_match_table | apply xyz1_match_table
                        | apply is_sepc_table | apply is_expc_table].
Qed.
