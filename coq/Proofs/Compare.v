(** C19 — lemmas about Model/Compare.v.  No PrimFloat fact is used anywhere: every statement treats the
    binary64 closeness tests [isclose_f] / [isclose_c] (and [sc_eq]) as opaque decidable relations. *)
From Coq Require Import PrimFloat ZArith List Bool String Ascii Arith Lia DecimalString.
Require Import QV.Model.Compare.
Import ListNotations.
Local Open Scope string_scope.

(* ------------------------------------------------------------------------------------------ *)
(** * elementwise tests *)

Lemma all2_Forall2 {A} (close : A -> A -> bool) cs es :
  all2 close cs es = true <-> Forall2 (fun c e => close c e = true) cs es.
Proof.
  revert es; induction cs as [|c cs IH]; intros [|e es]; simpl; split; intro H;
    try constructor; try discriminate; try (inversion H; fail).
  - apply andb_true_iff in H; tauto.
  - apply IH. apply andb_true_iff in H; tauto.
  - inversion H; subst. apply andb_true_iff; split; [assumption | apply IH; assumption].
Qed.

Definition Close {A} (close : A -> A -> bool) (cs es : list A) : Prop :=
  Forall2 (fun c e => close c e = true) cs es.

Lemma judge_spec {A} (close : A -> A -> bool) neg ph cs es :
  judge close neg ph cs es = true <->
  Close close cs es \/ (ph = true /\ Close close (map neg cs) es).
Proof.
  unfold judge, Close. destruct (all2 close cs es) eqn:E.
  - split; [intros _; left; apply all2_Forall2; exact E | reflexivity].
  - destruct ph.
    + rewrite all2_Forall2. split; [intro H; right; split; [reflexivity|exact H] |].
      intros [H | [_ H]]; [|exact H]. apply all2_Forall2 in H. congruence.
    + split; [discriminate|]. intros [H | [H _]]; [|discriminate]. apply all2_Forall2 in H. congruence.
Qed.

Lemma shape_eqb_eq a b : shape_eqb a b = true <-> a = b.
Proof.
  revert b; induction a as [|x a IH]; intros [|y b]; simpl; split; intro H; try reflexivity; try discriminate.
  - apply andb_true_iff in H. destruct H as [H1 H2]. apply Nat.eqb_eq in H1. apply IH in H2. congruence.
  - inversion H; subst. apply andb_true_iff; split; [apply Nat.eqb_refl | apply IH; reflexivity].
Qed.

(* ------------------------------------------------------------------------------------------ *)
(** * compare_values *)

(** what "the two casts agree" means: same shape and all elements close, or (on request) all elements close
    against the negated computed data *)
Definition Agree {A} (close : A -> A -> bool) (neg : A -> A) (phase : bool) (xe xc : cres (list nat * list A)) : Prop :=
  exists sh de dc, xe = COk (sh, de) /\ xc = COk (sh, dc) /\
                   (Close close dc de \/ (phase = true /\ Close close (map neg dc) de)).

Lemma cv_core_true {A} (close : A -> A -> bool) neg o xe xc :
  cv_core close neg o xe xc = Ok true <->
  atol_exc (atol o) = None /\ Agree close neg (cv_phase o) xe xc.
Proof.
  unfold cv_core, Agree.
  destruct xe as [[she de]| |]; [| split; [discriminate | intros [_ (?&?&?&?&_)]; discriminate] .. ].
  destruct xc as [[shc dc]| |]; [| split; [discriminate | intros [_ (?&?&?&_&?&_)]; discriminate] .. ].
  destruct (shape_eqb she shc) eqn:Es; simpl.
  - apply shape_eqb_eq in Es. subst shc.
    destruct (atol_exc (atol o)); [split; [discriminate | intros [? _]; discriminate]|].
    destruct (judge close neg (cv_phase o) dc de) eqn:J.
    + split; [|reflexivity]. intros _. split; [reflexivity|]. exists she, de, dc. repeat split. apply judge_spec. exact J.
    + split; [discriminate|].
      intros [_ (sh & de' & dc' & H1 & H2 & H3)]. inversion H1; inversion H2; subst.
      apply judge_spec in H3. congruence.
  - split; [discriminate|]. intros [_ (sh & de' & dc' & H1 & H2 & _)]. inversion H1; inversion H2; subst.
    assert (shape_eqb sh sh = true) by (apply shape_eqb_eq; reflexivity). congruence.
Qed.

(** the only ways to a [False] verdict *)
Definition Disagree {A} (close : A -> A -> bool) (neg : A -> A) (o : cvopts)
           (xe xc : cres (list nat * list A)) : Prop :=
  xe = CFail \/
  (exists she de, xe = COk (she, de) /\
     (xc = CFail \/
      exists shc dc, xc = COk (shc, dc) /\
        (she <> shc \/
         (she = shc /\ atol_exc (atol o) = None /\ judge close neg (cv_phase o) dc de = false)))).

Lemma cv_core_false {A} (close : A -> A -> bool) neg o xe xc :
  cv_core close neg o xe xc = Ok false <-> Disagree close neg o xe xc.
Proof.
  unfold cv_core, Disagree.
  destruct xe as [[she de]| |].
  - destruct xc as [[shc dc]| |].
    + destruct (shape_eqb she shc) eqn:Es; simpl.
      * apply shape_eqb_eq in Es. subst shc.
        destruct (atol_exc (atol o)) eqn:Ea.
        { split; [discriminate|]. intros [H|(?&?&H&[H'|(?&?&H'&[H''|(_&H''&_)])])]; try discriminate.
          inversion H; inversion H'; subst. congruence. }
        destruct (judge close neg (cv_phase o) dc de) eqn:J.
        { split; [discriminate|]. intros [H|(?&?&H&[H'|(?&?&H'&[H''|(_&_&H'')])])]; try discriminate;
          inversion H; inversion H'; subst; congruence. }
        split; [|reflexivity]. intros _. right. exists she, de. split; [reflexivity|]. right.
        exists she, dc. split; [reflexivity|]. right. repeat split; assumption.
      * split; [|reflexivity]. intros _. right. exists she, de. split; [reflexivity|]. right.
        exists shc, dc. split; [reflexivity|]. left. intro; subst.
        assert (shape_eqb shc shc = true) by (apply shape_eqb_eq; reflexivity). congruence.
    + split; [|reflexivity]. intros _. right. exists she, de. split; [reflexivity|]. left. reflexivity.
    + split; [discriminate|]. intros [H|(?&?&_&[H|(?&?&H&_)])]; discriminate.
  - split; [|reflexivity]. intros _. left; reflexivity.
  - split; [discriminate|]. intros [H|(?&?&H&_)]; discriminate.
Qed.

Definition close_f (o : cvopts) := isclose_f (atol o) (rtol o) (equal_nan o).
Definition close_c (o : cvopts) := isclose_c (atol o) (rtol o) (equal_nan o).

Definition both_none (o : cvopts) (e c : tree) : bool := passnone o && is_py_none e && is_py_none c.

Theorem compare_values_spec o e c :
  compare_values o e c = Ok true <->
  both_none o e c = true \/
  (atol_exc (atol o) = None /\
   ((iscomplex_pair e c = Ok false /\
     Agree (close_f o) PrimFloat.opp (cv_phase o) (cast_with to_f e) (cast_with to_f c)) \/
    (iscomplex_pair e c = Ok true /\
     Agree (close_c o) neg_c (cv_phase o) (cast_with to_c e) (cast_with to_c c)))).
Proof.
  unfold compare_values, both_none.
  destruct (passnone o && is_py_none e && is_py_none c); [split; [intros _; left; reflexivity | reflexivity]|].
  destruct (iscomplex_pair e c) as [[|]|kk| ]; simpl.
  - rewrite cv_core_true. unfold close_c. split.
    + intros [H1 H2]. right. split; [exact H1|]. right. split; [reflexivity | exact H2].
    + intros [H|[H1 [[H _]|[_ H2]]]]; try discriminate. split; assumption.
  - rewrite cv_core_true. unfold close_f. split.
    + intros [H1 H2]. right. split; [exact H1|]. left. split; [reflexivity | exact H2].
    + intros [H|[H1 [[_ H2]|[H _]]]]; try discriminate. split; assumption.
  - split; [discriminate|]. intros [H|[_ [[H _]|[H _]]]]; discriminate.
  - split; [discriminate|]. intros [H|[_ [[H _]|[H _]]]]; discriminate.
Qed.

Theorem compare_values_false_spec o e c :
  compare_values o e c = Ok false <->
  both_none o e c = false /\
  ((exists k, iscomplex_pair e c = Raise k) \/
   (iscomplex_pair e c = Ok false /\ Disagree (close_f o) PrimFloat.opp o (cast_with to_f e) (cast_with to_f c)) \/
   (iscomplex_pair e c = Ok true /\ Disagree (close_c o) neg_c o (cast_with to_c e) (cast_with to_c c))).
Proof.
  unfold compare_values, both_none.
  destruct (passnone o && is_py_none e && is_py_none c); [split; [discriminate | intros [H _]; discriminate]|].
  destruct (iscomplex_pair e c) as [[|]|k| ]; simpl.
  - rewrite cv_core_false. unfold close_c. split.
    + intro H. split; [reflexivity|]. right; right. split; [reflexivity | exact H].
    + intros [_ [[k H]|[[H _]|[_ H]]]]; [discriminate | discriminate | exact H].
  - rewrite cv_core_false. unfold close_f. split.
    + intro H. split; [reflexivity|]. right; left. split; [reflexivity | exact H].
    + intros [_ [[k H]|[[_ H]|[H _]]]]; [discriminate | exact H | discriminate].
  - split; [|reflexivity]. intros _. split; [reflexivity|]. left. exists k. reflexivity.
  - split; [discriminate | intros [_ [[k H]|[[H _]|[H _]]]]; discriminate].
Qed.

(** the only exception left: an unusable atol (met after both casts succeeded with equal shapes) *)
Theorem compare_values_raise_spec o e c k :
  compare_values o e c = Raise k -> atol_exc (atol o) = Some k.
Proof.
  unfold compare_values. destruct (passnone o && is_py_none e && is_py_none c); [discriminate|].
  destruct (iscomplex_pair e c) as [[|]|k'|] eqn:Ei; simpl; try discriminate.
  - unfold cv_core. destruct (cast_with to_c e) as [[she de]| |]; try discriminate.
    destruct (cast_with to_c c) as [[shc dc]| |]; try discriminate.
    destruct (negb (shape_eqb she shc)); try discriminate.
    destruct (atol_exc (atol o)) eqn:Ea; [intro H; inversion H; subst; reflexivity | discriminate].
  - unfold cv_core. destruct (cast_with to_f e) as [[she de]| |]; try discriminate.
    destruct (cast_with to_f c) as [[shc dc]| |]; try discriminate.
    destruct (negb (shape_eqb she shc)); try discriminate.
    destruct (atol_exc (atol o)) eqn:Ea; [intro H; inversion H; subst; reflexivity | discriminate].
Qed.

(** a ragged nest on either side is a cast failure: verdict False, never an exception (65b8c68) *)
Theorem ragged_is_false o e c k :
  both_none o e c = false -> iscomplex_pair e c = Raise k -> compare_values o e c = Ok false.
Proof. unfold compare_values, both_none. intros -> ->. reflexivity. Qed.

Lemma ragged_expected_raises e c :
  nd_of e = (None, NdRagged) -> iscomplex_pair e c = Raise EValue.
Proof. intro H. unfold iscomplex_pair, iscomplexobj. rewrite H. reflexivity. Qed.

Lemma ragged_computed_raises e c :
  iscomplexobj e = Ok false -> nd_of c = (None, NdRagged) -> iscomplex_pair e c = Raise EValue.
Proof. intros He H. unfold iscomplex_pair. rewrite He. simpl. unfold iscomplexobj. rewrite H. reflexivity. Qed.

(** with a usable atol and both casts succeeding, compare_values always returns a verdict (real or complex) *)
Theorem compare_values_total o e c cx :
  iscomplex_pair e c = Ok cx -> atol_exc (atol o) = None ->
  (if cx then exists a b, cast_with to_c e = COk a /\ cast_with to_c c = COk b
   else exists a b, cast_with to_f e = COk a /\ cast_with to_f c = COk b) ->
  exists v, compare_values o e c = Ok v.
Proof.
  intros Hi Ha Hc. unfold compare_values. destruct (passnone o && is_py_none e && is_py_none c); [eexists; reflexivity|].
  rewrite Hi. destruct cx; destruct Hc as ([she de] & [shc dc] & He & Hc); unfold cv_core; rewrite He, Hc, Ha;
    destruct (negb (shape_eqb she shc)); eexists; reflexivity.
Qed.

(* ------------------------------------------------------------------------------------------ *)
(** * compare (exact) *)

Definition AllEq (es cs : list scalar) : Prop := Forall2 (fun e c => sc_eq e c = Some true) es cs.

Lemma all2o_true es cs : all2o es cs = Some true <-> AllEq es cs.
Proof.
  unfold AllEq. revert cs; induction es as [|e es IH]; intros [|c cs]; simpl; split; intro H;
    try constructor; try discriminate; try (inversion H; fail); try reflexivity.
  - destruct (sc_eq e c) as [[|]|]; try discriminate; try reflexivity;
      destruct (all2o es cs) as [[|]|]; discriminate.
  - apply IH. destruct (sc_eq e c) as [[|]|]; destruct (all2o es cs) as [[|]|]; try discriminate; reflexivity.
  - inversion H; subst. rewrite H3. apply IH in H5. rewrite H5. reflexivity.
Qed.

Theorem compare_spec ph e c :
  compare ph e c = Ok true <->
  exists se sc sh de dc dte dtc,
    nd_of e = (se, NdOk sh de) /\ nd_of c = (sc, NdOk sh dc) /\
    dtype_of se de = Some dte /\ dtype_of sc dc = Some dtc /\
    existsb is_sobj de = false /\ existsb is_sobj dc = false /\
    (AllEq de dc \/
     (ph = true /\ all2o de dc = Some false /\ exists ndc, neg_data dtc dc = Some ndc /\ AllEq de ndc)).
Proof.
  unfold compare.
  destruct (nd_of e) as [se [she de| |]] eqn:Ee.
  2,3: split; [discriminate | intros (?&?&?&?&?&?&?&H&_); discriminate].
  destruct (nd_of c) as [sc [shc dc| |]] eqn:Ec.
  2,3: split; [discriminate | intros (?&?&?&?&?&?&?&_&H&_); discriminate].
  destruct (dtype_of se de) as [dte|] eqn:Ede.
  2: split; [discriminate | intros (?&?&?&?&?&?&?&H1&H2&H3&_); inversion H1; subst; congruence].
  destruct (dtype_of sc dc) as [dtc|] eqn:Edc.
  2: split; [discriminate | intros (?&?&?&?&?&?&?&H1&H2&H3&H4&_); inversion H1; inversion H2; subst; congruence].
  destruct (existsb is_sobj de) eqn:Eo1; simpl.
  1: split; [discriminate | intros (?&?&?&?&?&?&?&H1&H2&H3&H4&H5&_); inversion H1; subst; congruence].
  destruct (existsb is_sobj dc) eqn:Eo2; simpl.
  1: split; [discriminate | intros (?&?&?&?&?&?&?&H1&H2&H3&H4&H5&H6&_); inversion H1; inversion H2; subst; congruence].
  destruct (shape_eqb she shc) eqn:Es; simpl.
  2: { split; [discriminate|]. intros (?&?&?&?&?&?&?&H1&H2&_). assert (she = shc) by congruence. subst.
       rewrite (proj2 (shape_eqb_eq _ _) eq_refl) in Es. discriminate. }
  apply shape_eqb_eq in Es. subst shc.
  destruct (all2o de dc) as [[|]|] eqn:Ea.
  - split; [|reflexivity]. intros _. exists se, sc, she, de, dc, dte, dtc. repeat split; try assumption.
    left. apply all2o_true. exact Ea.
  - split.
    + destruct ph; [|discriminate]. destruct (neg_data dtc dc) as [ndc|] eqn:En; [|discriminate].
      destruct (all2o de ndc) as [[|]|] eqn:Ea2; try discriminate. intros _.
      exists se, sc, she, de, dc, dte, dtc. repeat split; try assumption. right. split; [reflexivity|]. split; [exact Ea|].
      exists ndc. split; [exact En|]. apply all2o_true. exact Ea2.
    + intros (?&?&?&?&?&?&?&H1&H2&H3&H4&_&_&H7). inversion H1; inversion H2; subst.
      rewrite Ede in H3. rewrite Edc in H4. inversion H3; inversion H4; subst.
      destruct H7 as [H7|(Hp&_&ndc&Hn&H7)].
      * apply all2o_true in H7. congruence.
      * subst ph. rewrite Hn. apply all2o_true in H7. rewrite H7. reflexivity.
  - split; [discriminate|]. intros (?&?&?&?&?&?&?&H1&H2&_&_&_&_&H7). inversion H1; inversion H2; subst.
    destruct H7 as [H7|(_&H7&_)]; [apply all2o_true in H7|]; congruence.
Qed.


(* ------------------------------------------------------------------------------------------ *)
(** * the forgive / equal_phase loops *)

Definition cnt (x : string) (l : list string) : nat := count_occ string_dec l x.

Lemma eqb_dec x y : String.eqb x y = true <-> x = y.
Proof. apply String.eqb_eq. Qed.

Lemma remove1_cnt x n l : cnt x (remove1 n l) = if string_dec n x then Nat.pred (cnt x l) else cnt x l.
Proof.
  unfold cnt. induction l as [|a l IH]; simpl.
  - destruct (string_dec n x); reflexivity.
  - destruct (String.eqb a n) eqn:E.
    + apply String.eqb_eq in E. subst a. destruct (string_dec n x); reflexivity.
    + assert (a <> n) by (intro; subst; rewrite String.eqb_refl in E; discriminate).
      simpl. rewrite IH. destruct (string_dec a x); destruct (string_dec n x); try congruence; try reflexivity.
Qed.

Lemma prune_fold_cnt (p : string -> bool) x L live :
  cnt x (fold_left (fun live n => if p n then remove1 n live else live) L live)
  = if p x then cnt x live - cnt x L else cnt x live.
Proof.
  revert live. induction L as [|a L IH]; intro live; simpl.
  - destruct (p x); [unfold cnt; simpl; lia | reflexivity].
  - rewrite IH. destruct (p x) eqn:Px.
    + destruct (p a) eqn:Pa.
      * rewrite remove1_cnt. unfold cnt at 3. simpl. destruct (string_dec a x); fold (cnt x L); lia.
      * unfold cnt at 3. simpl. destruct (string_dec a x); [subst; congruence|]. reflexivity.
    + destruct (p a) eqn:Pa; [|reflexivity]. rewrite remove1_cnt.
      destruct (string_dec a x); [subst; congruence | reflexivity].
Qed.

Lemma In_cnt x l : In x l <-> cnt x l > 0.
Proof. unfold cnt. apply count_occ_In. Qed.

Lemma prune_In p errs n : In n (prune p errs) <-> In n errs /\ p n = false.
Proof.
  unfold prune. rewrite !In_cnt, prune_fold_cnt. destruct (p n); split.
  - lia.
  - intros [_ H]; discriminate.
  - intro H; split; [exact H | reflexivity].
  - tauto.
Qed.

Lemma is_nil_forall {A} (l : list A) : is_nil l = true <-> forall x, ~ In x l.
Proof.
  destruct l; simpl; split; intro H; try reflexivity; try discriminate.
  - intros x [].
  - exfalso. apply (H a). left; reflexivity.
Qed.

(* ------------------------------------------------------------------------------------------ *)
(** * _compare_recursive: which error names exist *)

Section TreeInd.
  Variable P : tree -> Prop.
  Hypothesis Hsc : forall np s, P (TSc np s).
  Hypothesis Hlist : forall l, Forall P l -> P (TList l).
  Hypothesis Hdict : forall d, Forall (fun kv => P (snd kv)) d -> P (TDict d).
  Hypothesis Harr : forall dt sh data, P (TArr dt sh data).
  Hypothesis Hother : P TOther.

  Fixpoint tree_ind2 (t : tree) : P t :=
    match t with
    | TSc np s => Hsc np s
    | TList l => Hlist l ((fix go (l : list tree) : Forall P l :=
                             match l with [] => Forall_nil _ | x :: r => Forall_cons _ (tree_ind2 x) (go r) end) l)
    | TDict d => Hdict d ((fix go (d : list (string * tree)) : Forall (fun kv => P (snd kv)) d :=
                             match d with [] => Forall_nil _ | kv :: r => Forall_cons _ (tree_ind2 (snd kv)) (go r) end) d)
    | TArr dt sh data => Harr dt sh data
    | TOther => Hother
    end.
End TreeInd.

Lemma cmp_rec_list o ph name es c :
  cmp_rec o ph name (TList es) c =
  match as_items c with
  | ItemsUnm => Unmodelled
  | ItemsNone => Ok [name]
  | Items cs => if negb (Nat.eqb (List.length es) (List.length cs)) then Ok [name]
                else cmp_items (cmp_rec o ph) name es cs 0
  end.
Proof.
  simpl. destruct (as_items c) as [cs| |]; try reflexivity.
  destruct (negb (Nat.eqb (List.length es) (List.length cs))); try reflexivity.
  generalize 0%nat. revert cs. induction es as [|e es IH]; intros [|c' cs] i; simpl; try reflexivity.
  rewrite IH. reflexivity.
Qed.

Lemma cmp_rec_dict o ph name ed c :
  cmp_rec o ph name (TDict ed) c =
  match c with
  | TDict cd => bind (cmp_keys (cmp_rec o ph) name ed cd) (fun ch => Ok (dict_head name ed cd ++ ch)%list)
  | _ => Raise EAttribute
  end.
Proof.
  simpl. destruct c as [| |cd| |]; try reflexivity.
  f_equal. induction ed as [|[k v] ed0 IH]; simpl; try reflexivity.
  destruct (lookup k cd); rewrite IH; reflexivity.
Qed.

Lemma cmp_items_In rec name es : forall cs i errs,
  cmp_items rec name es cs i = Ok errs ->
  forall n, In n errs <->
    exists j e' c' errs', nth_error es j = Some e' /\ nth_error cs j = Some c' /\
                          rec (child name (str_of_nat (i + j))) e' c' = Ok errs' /\ In n errs'.
Proof.
  induction es as [|e es IH]; intros [|c cs] i errs H n; simpl in H.
  1-3: inversion H; subst; split; [intros [] | intros (j & ? & ? & ? & H1 & H2 & _); destruct j; discriminate].
  destruct (rec (child name (str_of_nat i)) e c) as [a| |] eqn:Ea; simpl in H; try discriminate.
  destruct (cmp_items rec name es cs (S i)) as [b| |] eqn:Eb; simpl in H; try discriminate.
  inversion H; subst. rewrite in_app_iff. split.
  - intros [Hin|Hin].
    + exists 0%nat, e, c, a. rewrite Nat.add_0_r. repeat split; assumption.
    + apply (IH _ _ _ Eb) in Hin. destruct Hin as (j & e' & c' & errs' & H1 & H2 & H3 & H4).
      exists (S j), e', c', errs'. rewrite Nat.add_succ_r. repeat split; assumption.
  - intros (j & e' & c' & errs' & H1 & H2 & H3 & H4). destruct j as [|j]; simpl in H1, H2.
    + inversion H1; inversion H2; subst. rewrite Nat.add_0_r in H3. rewrite Ea in H3. inversion H3; subst. left; assumption.
    + right. apply (IH _ _ _ Eb). exists j, e', c', errs'. rewrite Nat.add_succ_r in H3. repeat split; assumption.
Qed.

Lemma cmp_items_sub_ok rec name es : forall cs i errs,
  cmp_items rec name es cs i = Ok errs ->
  forall j e' c', nth_error es j = Some e' -> nth_error cs j = Some c' ->
                  exists errs', rec (child name (str_of_nat (i + j))) e' c' = Ok errs'.
Proof.
  induction es as [|e es IH]; intros [|c cs] i errs H j e' c' H1 H2; simpl in H;
    try (destruct j; discriminate).
  destruct (rec (child name (str_of_nat i)) e c) as [a| |] eqn:Ea; simpl in H; try discriminate.
  destruct (cmp_items rec name es cs (S i)) as [b| |] eqn:Eb; simpl in H; try discriminate.
  destruct j as [|j]; simpl in H1, H2.
  - inversion H1; inversion H2; subst. rewrite Nat.add_0_r. exists a; assumption.
  - rewrite Nat.add_succ_r. apply (IH _ _ _ Eb _ _ _ H1 H2).
Qed.

Lemma cmp_keys_In rec name cd ed : forall errs,
  cmp_keys rec name ed cd = Ok errs ->
  forall n, In n errs <->
    exists k v cv errs', In (k, v) ed /\ lookup k cd = Some cv /\ rec (child name k) v cv = Ok errs' /\ In n errs'.
Proof.
  induction ed as [|[k v] ed IH]; intros errs H n; simpl in H.
  - inversion H; subst. split; [intros [] | intros (?&?&?&?&[]&_)].
  - destruct (lookup k cd) as [cv|] eqn:El.
    + destruct (rec (child name k) v cv) as [a| |] eqn:Ea; simpl in H; try discriminate.
      destruct (cmp_keys rec name ed cd) as [b| |] eqn:Eb; simpl in H; try discriminate.
      inversion H; subst. rewrite in_app_iff. split.
      * intros [Hin|Hin].
        -- exists k, v, cv, a. repeat split; try assumption. left; reflexivity.
        -- apply (IH _ eq_refl) in Hin. destruct Hin as (k' & v' & cv' & errs' & H1 & H2 & H3 & H4).
           exists k', v', cv', errs'. repeat split; try assumption. right; assumption.
      * intros (k' & v' & cv' & errs' & [H1|H1] & H2 & H3 & H4).
        -- inversion H1; subst. rewrite El in H2. inversion H2; subst. rewrite Ea in H3. inversion H3; subst. left; assumption.
        -- right. apply (IH _ eq_refl). exists k', v', cv', errs'. repeat split; assumption.
    + rewrite (IH _ H). split.
      * intros (k' & v' & cv' & errs' & H1 & H2 & H3 & H4). exists k', v', cv', errs'. repeat split; try assumption. right; assumption.
      * intros (k' & v' & cv' & errs' & [H1|H1] & H2 & H3 & H4).
        -- inversion H1; subst. congruence.
        -- exists k', v', cv', errs'. repeat split; assumption.
Qed.

Lemma cmp_keys_sub_ok rec name cd ed : forall errs,
  cmp_keys rec name ed cd = Ok errs ->
  forall k v cv, In (k, v) ed -> lookup k cd = Some cv -> exists errs', rec (child name k) v cv = Ok errs'.
Proof.
  induction ed as [|[k0 v0] ed IH]; intros errs H k v cv Hin Hl; simpl in H; [destruct Hin|].
  destruct (lookup k0 cd) as [cv0|] eqn:El.
  - destruct (rec (child name k0) v0 cv0) as [a| |] eqn:Ea; simpl in H; try discriminate.
    destruct (cmp_keys rec name ed cd) as [b| |] eqn:Eb; simpl in H; try discriminate.
    destruct Hin as [Hin|Hin].
    + inversion Hin; subst. rewrite El in Hl. inversion Hl; subst. exists a; assumption.
    + apply (IH _ eq_refl _ _ _ Hin Hl).
  - destruct Hin as [Hin|Hin].
    + inversion Hin; subst. congruence.
    + apply (IH _ H _ _ _ Hin Hl).
Qed.

Lemma smem_In k l : smem k l = true <-> In k l.
Proof.
  unfold smem. rewrite existsb_exists. split.
  - intros (x & H1 & H2). apply String.eqb_eq in H2. subst. assumption.
  - intro H. exists k. split; [assumption | apply String.eqb_refl].
Qed.

Lemma extra_keys_spec ed cd : extra_keys ed cd = true <-> exists k, In k (keys cd) /\ ~ In k (keys ed).
Proof.
  unfold extra_keys. rewrite existsb_exists. split; intros (k & H1 & H2); exists k; split; try assumption.
  - apply negb_true_iff in H2. intro H. apply smem_In in H. congruence.
  - apply negb_true_iff. destruct (smem k (keys ed)) eqn:E; [|reflexivity]. apply smem_In in E. contradiction.
Qed.

Lemma missing_keys_spec ed cd : missing_keys ed cd = true <-> exists k, In k (keys ed) /\ ~ In k (keys cd).
Proof.
  unfold missing_keys. rewrite existsb_exists. split; intros (k & H1 & H2); exists k; split; try assumption.
  - apply negb_true_iff in H2. intro H. apply smem_In in H. congruence.
  - apply negb_true_iff. destruct (smem k (keys cd)) eqn:E; [|reflexivity]. apply smem_In in E. contradiction.
Qed.

Lemma dict_head_In name ed cd n :
  In n (dict_head name ed cd) <-> n = name /\ (extra_keys ed cd = true \/ missing_keys ed cd = true).
Proof.
  unfold dict_head. rewrite in_app_iff.
  destruct (extra_keys ed cd); destruct (missing_keys ed cd); simpl; intuition congruence.
Qed.

(** the failing sites of a comparison: the node names at which the code appends an error *)
Inductive Fails (o : lopts) (ph : bool) : string -> tree -> tree -> string -> Prop :=
| F_leaf name np s c : leaf_ok o ph np s c = Ok false -> Fails o ph name (TSc np s) c name
| F_arr name dt sh data c : arr_ok o ph dt sh data c = Ok false -> Fails o ph name (TArr dt sh data) c name
| F_other name c : Fails o ph name TOther c name
| F_unsized name es c : as_items c = ItemsNone -> Fails o ph name (TList es) c name
| F_length name es c cs :
    as_items c = Items cs -> List.length es <> List.length cs -> Fails o ph name (TList es) c name
| F_item name es c cs j e' c' n :
    as_items c = Items cs -> List.length es = List.length cs ->
    nth_error es j = Some e' -> nth_error cs j = Some c' ->
    Fails o ph (child name (str_of_nat j)) e' c' n -> Fails o ph name (TList es) c n
| F_extra name ed cd k : In k (keys cd) -> ~ In k (keys ed) -> Fails o ph name (TDict ed) (TDict cd) name
| F_missing name ed cd k : In k (keys ed) -> ~ In k (keys cd) -> Fails o ph name (TDict ed) (TDict cd) name
| F_key name ed cd k v cv n :
    In (k, v) ed -> lookup k cd = Some cv -> Fails o ph (child name k) v cv n ->
    Fails o ph name (TDict ed) (TDict cd) n.

Theorem errs_iff_Fails e : forall o ph name c errs,
  cmp_rec o ph name e c = Ok errs -> forall n, In n errs <-> Fails o ph name e c n.
Proof.
  induction e as [np s|es IH|ed IH|dt sh data|] using tree_ind2; intros o ph name c errs H n.
  - simpl in H. unfold ok_errs in H. destruct (leaf_ok o ph np s c) as [[|]| |] eqn:E; simpl in H; try discriminate;
      inversion H; subst; simpl; split; try (intros []; fail).
    + intro F. inversion F; subst. congruence.
    + intros [<-|[]]. constructor; assumption.
    + intro F. inversion F; subst. left; reflexivity.
  - rewrite cmp_rec_list in H. destruct (as_items c) as [cs| |] eqn:Ei; try discriminate.
    + destruct (Nat.eqb (List.length es) (List.length cs)) eqn:El; simpl in H.
      * apply Nat.eqb_eq in El. split.
        -- intro Hin. apply (cmp_items_In _ _ _ _ _ _ H) in Hin.
           destruct Hin as (j & e' & c' & errs' & H1 & H2 & H3 & H4). simpl in H3.
           eapply F_item; eauto. rewrite Forall_forall in IH.
           apply (IH e' (nth_error_In _ _ H1) _ _ _ _ _ H3). assumption.
        -- intro F. inversion F; subst; try congruence.
           match goal with
           | Hi : as_items c = Items ?cs0, H1 : nth_error es ?j = Some ?e', H2 : nth_error ?cs0 ?j = Some ?c',
             HF : Fails _ _ _ ?e' ?c' _ |- _ =>
               assert (cs0 = cs) by congruence; subst cs0;
               destruct (cmp_items_sub_ok _ _ _ _ _ _ H _ _ _ H1 H2) as [errs' He]; simpl in He;
               apply (cmp_items_In _ _ _ _ _ _ H); exists j, e', c', errs'; repeat split; try assumption;
               rewrite Forall_forall in IH; apply (IH e' (nth_error_In _ _ H1) _ _ _ _ _ He); assumption
           end.
      * apply Nat.eqb_neq in El. inversion H; subst. simpl. split.
        -- intros [<-|[]]. eapply F_length; eauto.
        -- intro F. inversion F; subst; try congruence; try (left; reflexivity).
    + inversion H; subst. simpl. split.
      * intros [<-|[]]. apply F_unsized; assumption.
      * intro F. inversion F; subst; try congruence; left; reflexivity.
  - rewrite cmp_rec_dict in H. destruct c as [| |cd| |]; try discriminate.
    destruct (cmp_keys (cmp_rec o ph) name ed cd) as [ch| |] eqn:Ek; simpl in H; try discriminate.
    inversion H; subst. rewrite in_app_iff, dict_head_In. split.
    + intros [[-> [Hx|Hm]]|Hin].
      * apply extra_keys_spec in Hx. destruct Hx as (k & H1 & H2). eapply F_extra; eauto.
      * apply missing_keys_spec in Hm. destruct Hm as (k & H1 & H2). eapply F_missing; eauto.
      * apply (cmp_keys_In _ _ _ _ _ Ek) in Hin. destruct Hin as (k & v & cv & errs' & H1 & H2 & H3 & H4).
        eapply F_key; eauto. rewrite Forall_forall in IH. apply (IH (k, v) H1 _ _ _ _ _ H3). assumption.
    + intro F. inversion F; subst.
      * left. split; [reflexivity|]. left. apply extra_keys_spec. eauto.
      * left. split; [reflexivity|]. right. apply missing_keys_spec. eauto.
      * right.
        match goal with
        | H1 : In (?k, ?v) ed, H2 : lookup ?k cd = Some ?cv, HF : Fails _ _ _ ?v ?cv _ |- _ =>
            destruct (cmp_keys_sub_ok _ _ _ _ _ Ek _ _ _ H1 H2) as [errs' He];
            apply (cmp_keys_In _ _ _ _ _ Ek); exists k, v, cv, errs'; repeat split; try assumption;
            rewrite Forall_forall in IH; apply (IH (k, v) H1 _ _ _ _ _ He); assumption
        end.
  - simpl in H. unfold ok_errs in H. destruct (arr_ok o ph dt sh data c) as [[|]| |] eqn:E; simpl in H; try discriminate;
      inversion H; subst; simpl; split; try (intros []; fail).
    + intro F. inversion F; subst. congruence.
    + intros [<-|[]]. constructor; assumption.
    + intro F. inversion F; subst. left; reflexivity.
  - simpl in H. inversion H; subst. simpl. split.
    + intros [<-|[]]. constructor.
    + intro F. inversion F; subst. left; reflexivity.
Qed.

(* ------------------------------------------------------------------------------------------ *)
(** * compare_recursive *)

Definition forgiven (o : cropts) (n : string) : bool :=
  existsb (fun fg => matches fg n) (map rootify (forgive o)).

Definition phase_selected (ep : epopt) (n : string) : Prop :=
  match ep with
  | EpBool b => b = true
  | EpList l => exists x, In x l /\ matches (rootify x) n = true
  end.

(** a failing site is excused when a forgive entry covers it, or when equal_phase selects it and no site of that
    name fails in the sign-flipped comparison *)
Definition Excused (o : cropts) (e c : tree) (n : string) : Prop :=
  forgiven o n = true \/ (phase_selected (r_phase o) n /\ ~ Fails (lo_of o) true "root" e c n).

Lemma matches_refl n : matches n n = true.
Proof. unfold matches. rewrite String.eqb_refl. reflexivity. Qed.

Lemma ep_entries_selected ep errs n :
  ep_truthy ep = true -> In n errs ->
  (existsb (fun x => matches x n) (ep_entries ep errs) = true <-> phase_selected ep n).
Proof.
  intros Ht Hin. destruct ep as [[|]|l]; simpl in *; try discriminate.
  - split; [reflexivity|]. intros _. apply existsb_exists. exists n. split; [assumption | apply matches_refl].
  - rewrite existsb_exists. split.
    + intros (x & H1 & H2). apply in_map_iff in H1. destruct H1 as (y & <- & H1). exists y. split; assumption.
    + intros (y & H1 & H2). exists (rootify y). split; [apply in_map; assumption | assumption].
Qed.

Lemma not_truthy_not_selected ep n : ep_truthy ep = false -> ~ phase_selected ep n.
Proof.
  destruct ep as [[|]|[|x l]]; simpl; try discriminate; intros _ H; try discriminate.
  destruct H as (? & [] & _).
Qed.

Theorem compare_recursive_spec o e c errs :
  PrimFloat.leb fone (r_atol o) = false ->
  cmp_rec (lo_of o) false "root" e c = Ok errs ->
  (errs <> [] -> ep_truthy (r_phase o) = true -> exists nerrs, cmp_rec (lo_of o) true "root" e c = Ok nerrs) ->
  (exists b, compare_recursive o e c = Ok b) /\
  (compare_recursive o e c = Ok true <->
   forall n, Fails (lo_of o) false "root" e c n -> Excused o e c n).
Proof.
  intros Ha He Hn. unfold compare_recursive. rewrite Ha, He. simpl.
  assert (HF : forall n, In n errs <-> Fails (lo_of o) false "root" e c n) by (apply errs_iff_Fails; assumption).
  destruct (negb (is_nil errs) && ep_truthy (r_phase o)) eqn:Eb.
  - apply andb_true_iff in Eb. destruct Eb as [Eb1 Eb2].
    assert (errs <> []) by (destruct errs; [discriminate | congruence]).
    destruct (Hn H Eb2) as [nerrs Hne]. rewrite Hne. simpl. split; [eexists; reflexivity|].
    assert (HN : forall n, In n nerrs <-> Fails (lo_of o) true "root" e c n) by (apply errs_iff_Fails; assumption).
    split.
    + intros Hv n Fn. inversion Hv as [Hv']. apply is_nil_forall with (x := n) in Hv'.
      rewrite !prune_In in Hv'. unfold Excused. fold (forgiven o n) in Hv'.
      destruct (forgiven o n) eqn:Ef; [left; reflexivity|]. right.
      apply HF in Fn.
      destruct (existsb (fun ep => matches ep n) (ep_entries (r_phase o) errs) && negb (smem n nerrs)) eqn:Ep.
      * apply andb_true_iff in Ep. destruct Ep as [Ep1 Ep2]. split.
        -- apply (ep_entries_selected _ _ _ Eb2 Fn). assumption.
        -- apply negb_true_iff in Ep2. intro Fn'. apply HN in Fn'. apply smem_In in Fn'. congruence.
      * exfalso. apply Hv'. repeat split; assumption.
    + intros Hx. f_equal. apply is_nil_forall. intros n Hin. rewrite !prune_In in Hin.
      destruct Hin as [[Hin Hp1] Hp2]. fold (forgiven o n) in Hp2.
      destruct (Hx n (proj1 (HF n) Hin)) as [Hf|[Hs Hnf]]; [congruence|].
      apply (ep_entries_selected _ _ _ Eb2 Hin) in Hs. rewrite Hs in Hp1. simpl in Hp1.
      apply negb_false_iff in Hp1. apply smem_In in Hp1. apply HN in Hp1. contradiction.
  - simpl. split; [eexists; reflexivity|]. split.
    + intros Hv n Fn. inversion Hv as [Hv']. apply is_nil_forall with (x := n) in Hv'.
      rewrite prune_In in Hv'. fold (forgiven o n) in Hv'. left.
      destruct (forgiven o n); [reflexivity|]. exfalso. apply Hv'. split; [apply HF; assumption | reflexivity].
    + intros Hx. f_equal. apply is_nil_forall. intros n Hin. rewrite prune_In in Hin. destruct Hin as [Hin Hp2].
      fold (forgiven o n) in Hp2. destruct (Hx n (proj1 (HF n) Hin)) as [Hf|[Hs _]]; [congruence|].
      apply andb_false_iff in Eb. destruct Eb as [Eb|Eb].
      * apply negb_false_iff in Eb. destruct errs; [destruct Hin | discriminate].
      * apply (not_truthy_not_selected _ _ Eb Hs).
Qed.

(** never a pass when a failing site is neither forgiven nor sign-flipped away *)
Corollary no_false_pass o e c n :
  Fails (lo_of o) false "root" e c n -> ~ Excused o e c n -> compare_recursive o e c <> Ok true.
Proof.
  intros Fn Hx Hv. unfold compare_recursive in Hv.
  destruct (PrimFloat.leb fone (r_atol o)) eqn:Ha; [discriminate|].
  destruct (cmp_rec (lo_of o) false "root" e c) as [errs| |] eqn:He; try discriminate.
  assert (Hn : errs <> [] -> ep_truthy (r_phase o) = true -> exists nerrs, cmp_rec (lo_of o) true "root" e c = Ok nerrs).
  { intros H1 H2. simpl in Hv. destruct errs; [congruence|]. simpl in Hv. rewrite H2 in Hv.
    destruct (cmp_rec (lo_of o) true "root" e c); try discriminate. eexists; reflexivity. }
  destruct (compare_recursive_spec o e c errs Ha He Hn) as [_ Hs].
  apply Hx. apply Hs; [|assumption]. unfold compare_recursive. rewrite Ha, He. exact Hv.
Qed.

(** never a failure when no site fails *)
Corollary no_false_fail o e c :
  (forall n, ~ Fails (lo_of o) false "root" e c n) -> compare_recursive o e c <> Ok false.
Proof.
  intros Hno Hv. unfold compare_recursive in Hv.
  destruct (PrimFloat.leb fone (r_atol o)) eqn:Ha; [discriminate|].
  destruct (cmp_rec (lo_of o) false "root" e c) as [errs| |] eqn:He; try discriminate.
  assert (errs = []).
  { destruct errs as [|n errs]; [reflexivity|]. exfalso. apply (Hno n).
    apply (errs_iff_Fails _ _ _ _ _ _ He). left; reflexivity. }
  subst errs. simpl in Hv. discriminate.
Qed.

(** the only exceptions of compare_recursive *)
Theorem compare_recursive_raise_spec o e c k :
  compare_recursive o e c = Raise k ->
  (k = EValue /\ PrimFloat.leb fone (r_atol o) = true)
  \/ cmp_rec (lo_of o) false "root" e c = Raise k
  \/ cmp_rec (lo_of o) true "root" e c = Raise k.
Proof.
  unfold compare_recursive. destruct (PrimFloat.leb fone (r_atol o)); [intro H; inversion H; left; split; reflexivity|].
  destruct (cmp_rec (lo_of o) false "root" e c) as [errs| |]; simpl; try discriminate; [|intro H; right; left; congruence].
  destruct (negb (is_nil errs) && ep_truthy (r_phase o)); simpl; try discriminate.
  destruct (cmp_rec (lo_of o) true "root" e c); simpl; try discriminate. intro H; right; right; congruence.
Qed.


(* ------------------------------------------------------------------------------------------ *)
(** * key boundaries: forgive / equal_phase entries select whole keys, never string prefixes of keys *)

Fixpoint nodot (s : string) : Prop :=
  match s with EmptyString => True | String a r => a <> "."%char /\ nodot r end.

Fixpoint join (ks : list string) : string :=
  match ks with [] => "" | k :: r => "." ++ k ++ join r end.

(** the name the code gives to the node reached by the keys / list indices [ks] *)
Definition spath (ks : list string) : string := "root" ++ join ks.

Lemma sapp_assoc a b c : (a ++ b) ++ c = a ++ b ++ c.
Proof. induction a; simpl; congruence. Qed.

Lemma sapp_nil_r a : a ++ "" = a.
Proof. induction a; simpl; congruence. Qed.

Lemma prefix_nil s : String.prefix "" s = true.
Proof. destruct s; reflexivity. Qed.

Lemma prefix_cons a b s t : String.prefix (String a s) (String b t) = if ascii_dec a b then String.prefix s t else false.
Proof. reflexivity. Qed.

Lemma prefix_app a b c : String.prefix (a ++ b) (a ++ c) = String.prefix b c.
Proof.
  induction a; simpl; [reflexivity|]. destruct (ascii_dec a a); [assumption | congruence].
Qed.

Lemma prefix_app_r a b c : String.prefix a b = true -> String.prefix a (b ++ c) = true.
Proof.
  revert b; induction a as [|x a IH]; intros b H; [apply prefix_nil|].
  destruct b as [|y b]; [discriminate|]. simpl in *. destruct (ascii_dec x y); [apply IH; assumption | discriminate].
Qed.

Lemma join_app p q : join (p ++ q) = join p ++ join q.
Proof. induction p; simpl; [reflexivity|]. rewrite IHp, !sapp_assoc. reflexivity. Qed.

Lemma child_spath p k : child (spath p) k = spath (p ++ [k]).
Proof.
  unfold child, spath. rewrite join_app. change (join [k]) with ("." ++ k ++ ""). rewrite sapp_nil_r.
  exact (sapp_assoc "root" (join p) ("." ++ k)).
Qed.

Definition dot_headed (s : string) : Prop := s = "" \/ exists r, s = "." ++ r.

Lemma join_dot_headed q : dot_headed (join q).
Proof. destruct q; [left; reflexivity | right; eexists; reflexivity]. Qed.

Lemma seg_boundary k : forall k2 X Y, nodot k -> nodot k2 -> dot_headed Y ->
  (String.prefix (k ++ "." ++ X) (k2 ++ Y) = true <-> k = k2 /\ String.prefix ("." ++ X) Y = true).
Proof.
  induction k as [|a k IH]; intros k2 X Y Hk Hk2 HY.
  - destruct k2 as [|c r]; cbn [append].
    + tauto.
    + destruct Hk2 as [Hc _]. rewrite prefix_cons. destruct (ascii_dec "." c) as [E|E]; [congruence|].
      split; [intro H; discriminate H | intros [H _]; discriminate H].
  - destruct Hk as [Ha Hk]. destruct k2 as [|c r]; cbn [append].
    + destruct HY as [->|[Y' ->]]; cbn [append].
      * split; [intro H; discriminate H | intros [H _]; discriminate H].
      * rewrite prefix_cons. destruct (ascii_dec a ".") as [E|E]; [congruence|].
        split; [intro H; discriminate H | intros [H _]; discriminate H].
    + destruct Hk2 as [Hc Hr]. rewrite prefix_cons. destruct (ascii_dec a c) as [E|E].
      * subst c. rewrite (IH r X Y Hk Hr HY). split; intros [H1 H2]; split; first [exact H2 | congruence].
      * split; [intro H; discriminate H | intros [H _]; congruence].
Qed.

Lemma seg_eq k : forall k2 X Y, nodot k -> nodot k2 -> dot_headed X -> dot_headed Y ->
  k ++ X = k2 ++ Y -> k = k2 /\ X = Y.
Proof.
  induction k as [|a k IH]; intros k2 X Y Hk Hk2 HX HY H.
  - destruct k2 as [|c r]; simpl in *; [tauto|]. destruct Hk2 as [Hc _].
    destruct HX as [->|[X' ->]]; simpl in H; [discriminate|]. injection H as Hc' _. congruence.
  - destruct Hk as [Ha Hk]. destruct k2 as [|c r]; simpl in *.
    + destruct HY as [->|[Y' ->]]; simpl in H; [discriminate|]. injection H as Ha' _. congruence.
    + destruct Hk2 as [Hc Hr]. injection H as Hac Hrest. subst c. destruct (IH r X Y Hk Hr HX HY Hrest). split; congruence.
Qed.

Lemma join_inj p : forall q, Forall nodot p -> Forall nodot q -> join p = join q -> p = q.
Proof.
  induction p as [|k p IH]; intros [|k2 q] Hp Hq H; simpl in H; try reflexivity; try discriminate.
  inversion Hp as [|? ? Hk Hp']; inversion Hq as [|? ? Hk2 Hq']; subst. injection H as H'.
  destruct (seg_eq k k2 (join p) (join q)) as [E1 E2]; try assumption; try apply join_dot_headed.
  subst k2. f_equal. apply IH; assumption.
Qed.

Lemma join_boundary p : forall q, Forall nodot p -> Forall nodot q ->
  (String.prefix (join p ++ ".") (join q) = true <-> exists k r, q = (p ++ k :: r)%list).
Proof.
  induction p as [|k p IH]; intros q Hp Hq.
  - destruct q as [|k2 q]; simpl.
    + split; [discriminate | intros (?&?&?); discriminate].
    + split; [intros _; eexists; eexists; reflexivity | intros _; apply prefix_nil].
  - destruct q as [|k2 q].
    + simpl. split; [discriminate | intros (?&?&?); discriminate].
    + inversion Hp; inversion Hq; subst. simpl. rewrite !sapp_assoc.
      assert (HX : exists X, join p ++ "." = "." ++ X).
      { destruct p; simpl; [exists ""; reflexivity | eexists; reflexivity]. }
      destruct HX as [X HX]. rewrite HX.
      rewrite (seg_boundary k k2 X (join q)); try assumption; try apply join_dot_headed.
      rewrite <- HX, (IH q); try assumption. split.
      * intros [-> (k' & r & ->)]. exists k', r. reflexivity.
      * intros (k' & r & H). inversion H; subst. split; [reflexivity | eexists; eexists; reflexivity].
Qed.

Theorem matches_boundary p q : Forall nodot p -> Forall nodot q ->
  (matches (spath p) (spath q) = true <-> exists r, q = (p ++ r)%list).
Proof.
  intros Hp Hq. unfold matches, spath. rewrite orb_true_iff, String.eqb_eq, sapp_assoc, prefix_app.
  rewrite (join_boundary p q Hp Hq). split.
  - intros [H|(k & r & ->)].
    + assert (join q = join p).
      { clear -H. simpl in H. congruence. }
      exists []. rewrite app_nil_r. symmetry. apply join_inj; auto.
    + eexists; reflexivity.
  - intros [[|k r] ->]; [left; rewrite app_nil_r; reflexivity | right; eexists; eexists; reflexivity].
Qed.

(** forgiving a node forgives everything below it *)
Lemma matches_descends fg name k : matches fg name = true -> matches fg (child name k) = true.
Proof.
  unfold matches, child. rewrite !orb_true_iff, String.eqb_eq. intros [->|H]; right.
  - rewrite <- sapp_assoc. rewrite <- (sapp_nil_r (fg ++ ".")) at 1. rewrite prefix_app. apply prefix_nil.
  - apply prefix_app_r. assumption.
Qed.

Lemma rootify_rooted s : rootify ("root." ++ s) = "root." ++ s.
Proof. unfold rootify. replace (String.prefix "root." ("root." ++ s)) with true; [reflexivity|]. simpl. symmetry. apply prefix_nil. Qed.

Lemma rootify_plain s : String.prefix "root." s = false -> rootify s = "root." ++ s.
Proof. unfold rootify. intros ->. reflexivity. Qed.

(** "a.b.c" *)
Definition dotted (ks : list string) : string :=
  match ks with [] => "" | k :: r => k ++ join r end.

Lemma root_dotted ks : ks <> [] -> "root." ++ dotted ks = spath ks.
Proof. destruct ks; [congruence|]. intros _. reflexivity. Qed.

(** an entry written with or without the leading "root." names the same node *)
Lemma rootify_dotted ks : ks <> [] -> String.prefix "root." (dotted ks) = false -> rootify (dotted ks) = spath ks.
Proof. intros H1 H2. rewrite rootify_plain by assumption. apply root_dotted; assumption. Qed.

Lemma rootify_root_dotted ks : ks <> [] -> rootify ("root." ++ dotted ks) = spath ks.
Proof. intros H. rewrite rootify_rooted. apply root_dotted; assumption. Qed.

Lemma nodot_uint d : nodot (NilEmpty.string_of_uint d).
Proof. induction d; simpl; try exact I; split; try assumption; discriminate. Qed.

Lemma nodot_str_of_nat i : nodot (str_of_nat i).
Proof. apply nodot_uint. Qed.


(* ------------------------------------------------------------------------------------------ *)
(** * error names are node paths *)

Fixpoint keys_nodot (t : tree) : Prop :=
  match t with
  | TList l => (fix go (l : list tree) : Prop := match l with [] => True | x :: r => keys_nodot x /\ go r end) l
  | TDict d => (fix go (d : list (string * tree)) : Prop :=
                  match d with [] => True | kv :: r => nodot (fst kv) /\ keys_nodot (snd kv) /\ go r end) d
  | _ => True
  end.

Lemma keys_nodot_list l : keys_nodot (TList l) <-> Forall keys_nodot l.
Proof.
  induction l as [|x l IH].
  - split; intros _; [constructor | exact I].
  - change (keys_nodot (TList (x :: l))) with (keys_nodot x /\ keys_nodot (TList l)). rewrite IH. split.
    + intros [H1 H2]. constructor; assumption.
    + intro H. inversion H; subst. split; assumption.
Qed.

Lemma keys_nodot_dict d : keys_nodot (TDict d) <-> Forall (fun kv => nodot (fst kv) /\ keys_nodot (snd kv)) d.
Proof.
  induction d as [|kv d IH].
  - split; intros _; [constructor | exact I].
  - change (keys_nodot (TDict (kv :: d))) with (nodot (fst kv) /\ keys_nodot (snd kv) /\ keys_nodot (TDict d)).
    rewrite IH. split.
    + intros (H1 & H2 & H3). constructor; [split|]; assumption.
    + intro H. inversion H as [|? ? [H1 H2] H3]; subst. repeat split; assumption.
Qed.

Lemma Fails_name o ph name e c n :
  Fails o ph name e c n -> exists q, n = name ++ join q /\ (keys_nodot e -> Forall nodot q).
Proof.
  induction 1.
  1-5,7,8: exists []; simpl; rewrite sapp_nil_r; split; [reflexivity | constructor].
  - destruct IHFails as (q & -> & Hq). exists (str_of_nat j :: q). split.
    + unfold child. simpl. rewrite !sapp_assoc. reflexivity.
    + intro Hk. constructor; [apply nodot_str_of_nat|]. apply Hq.
      apply keys_nodot_list in Hk. rewrite Forall_forall in Hk. apply Hk. eapply nth_error_In; eassumption.
  - destruct IHFails as (q & -> & Hq). exists (k :: q). split.
    + unfold child. simpl. rewrite !sapp_assoc. reflexivity.
    + intro Hk. apply keys_nodot_dict in Hk. rewrite Forall_forall in Hk.
      match goal with Hin : In (k, v) ed |- _ => destruct (Hk _ Hin) as [Hn1 Hn2] end.
      constructor; [exact Hn1 | apply Hq; exact Hn2].
Qed.

(** every error name is [spath q] for the keys / indices [q] leading to the failing node *)
Corollary Fails_spath o ph e c n :
  Fails o ph "root" e c n -> exists q, n = spath q /\ (keys_nodot e -> Forall nodot q).
Proof. intro F. destruct (Fails_name _ _ _ _ _ _ F) as (q & -> & Hq). exists q. split; [reflexivity | assumption]. Qed.

(** the key-boundary reading of a forgive / equal_phase entry, for keys without dots:
    the entry [fg] (as a list of keys) covers the failing node reached by [q] exactly when [fg] is an initial
    segment of [q] as a list of whole keys *)
Theorem forgive_by_segments o ph e c n fg :
  keys_nodot e -> Forall nodot fg -> Fails o ph "root" e c n ->
  exists q, n = spath q /\ (matches (spath fg) n = true <-> exists r, q = (fg ++ r)%list).
Proof.
  intros Hk Hfg F. destruct (Fails_spath _ _ _ _ _ F) as (q & -> & Hq). exists q. split; [reflexivity|].
  apply matches_boundary; auto.
Qed.

(* ------------------------------------------------------------------------------------------ *)
(** * the reporting options *)

Theorem options_inert_values {R} (H : bool -> ropts -> R) ro o e c :
  compare_values_full H ro o e c =
  match compare_values o e c with Ok b => Ok (H b ro) | Raise k => Raise k | Unmodelled => Unmodelled end.
Proof. unfold compare_values_full, with_handler, bind. destruct (compare_values o e c); reflexivity. Qed.

(** whatever quiet / return_message are, the default handler reports the same verdict *)
Theorem default_handler_verdict b ro : ret_verdict (handle_return b ro) = b.
Proof. unfold handle_return. destruct (return_message ro); reflexivity. Qed.

Definition verdict_of (r : res ret) : res bool :=
  match r with Ok x => Ok (ret_verdict x) | Raise k => Raise k | Unmodelled => Unmodelled end.

Theorem options_inert ro :
  (forall o e c, verdict_of (compare_values_full handle_return ro o e c) = compare_values o e c) /\
  (forall ph e c, verdict_of (compare_full handle_return ro ph e c) = compare ph e c) /\
  (forall o e c, verdict_of (compare_recursive_full handle_return ro o e c) = compare_recursive o e c).
Proof.
  repeat split; intros; unfold compare_values_full, compare_full, compare_recursive_full, with_handler, bind, verdict_of.
  - destruct (compare_values o e c); try reflexivity. rewrite default_handler_verdict. reflexivity.
  - destruct (compare ph e c); try reflexivity. rewrite default_handler_verdict. reflexivity.
  - destruct (compare_recursive o e c); try reflexivity. rewrite default_handler_verdict. reflexivity.
Qed.

(** a custom return_handler receives exactly the verdict, whatever the reporting options *)
Theorem handler_receives_verdict {R} (H : bool -> ropts -> R) ro :
  (forall o e c b, compare_values o e c = Ok b -> compare_values_full H ro o e c = Ok (H b ro)) /\
  (forall ph e c b, compare ph e c = Ok b -> compare_full H ro ph e c = Ok (H b ro)) /\
  (forall o e c b, compare_recursive o e c = Ok b -> compare_recursive_full H ro o e c = Ok (H b ro)).
Proof.
  repeat split; intros; unfold compare_values_full, compare_full, compare_recursive_full, with_handler, bind;
    match goal with E : _ = Ok _ |- _ => rewrite E end; reflexivity.
Qed.

(* ------------------------------------------------------------------------------------------ *)
(** * the rule applied at a scalar leaf *)

(** float / np.number leaves fail exactly when compare_values on the pair says False *)
Lemma leaf_float_rule o ph np f c :
  leaf_ok o ph np (SFloat f) c = compare_values (cv_of o ph) (TSc np (SFloat f)) c.
Proof. reflexivity. Qed.

Lemma leaf_exact_rule o ph s c :
  (match s with SStr _ | SCplx _ _ | SInt _ | SBool _ => True | _ => False end) ->
  leaf_ok o ph false s c = exact_ok s c.
Proof. destruct s; simpl; tauto. Qed.

(** bool and numpy.bool_ leaves are exact leaves (f568480) *)
Lemma leaf_bool_rule o ph np b c : leaf_ok o ph np (SBool b) c = exact_ok (SBool b) c.
Proof. reflexivity. Qed.

(** a Python float leaf against a Python/numpy float: passes iff close (or close against the negation on request) *)
Theorem float_leaf_spec o ph np np' e c :
  atol_exc (l_atol o) = None ->
  (leaf_ok o ph np (SFloat e) (TSc np' (SFloat c)) = Ok true <->
   (isclose_f (l_atol o) (l_rtol o) false c e = true
    \/ (ph = true /\ isclose_f (l_atol o) (l_rtol o) false (PrimFloat.opp c) e = true))) /\
  (exists b, leaf_ok o ph np (SFloat e) (TSc np' (SFloat c)) = Ok b).
Proof.
  intro Ha. rewrite leaf_float_rule. unfold compare_values. simpl.
  unfold cv_core. simpl. unfold cast_with. simpl. rewrite Ha. unfold judge. simpl.
  destruct (isclose_f (l_atol o) (l_rtol o) false c e) eqn:E1; simpl.
  - split; [split; [intros _; left; reflexivity | reflexivity] | eexists; reflexivity].
  - destruct ph; simpl.
    + destruct (isclose_f (l_atol o) (l_rtol o) false (PrimFloat.opp c) e) eqn:E2; simpl.
      * split; [split; [intros _; right; split; reflexivity | reflexivity] | eexists; reflexivity].
      * split; [split; [discriminate | intros [H|[_ H]]; discriminate] | eexists; reflexivity].
    + split; [split; [discriminate | intros [H|[H _]]; discriminate] | eexists; reflexivity].
Qed.

(** compare never raises *)
Theorem compare_never_raises ph e c k : compare ph e c <> Raise k.
Proof.
  unfold compare. destruct (nd_of e) as [se [she de| |]]; try discriminate.
  destruct (nd_of c) as [sc [shc dc| |]]; try discriminate.
  destruct (dtype_of se de); try discriminate. destruct (dtype_of sc dc) as [dtc|]; try discriminate.
  destruct (existsb is_sobj de || existsb is_sobj dc); try discriminate.
  destruct (negb (shape_eqb she shc)); try discriminate.
  destruct (all2o de dc) as [[|]|]; try discriminate.
  destruct ph; try discriminate. destruct (neg_data dtc dc) as [ndc|]; try discriminate.
  destruct (all2o de ndc); discriminate.
Qed.


(* ------------------------------------------------------------------------------------------ *)
(** * failing sites addressed by their keys: the site-local reading *)

(** [FailsAt o ph e c q]: the node of [expected] reached by the keys / positions [q] (through matching keys and
    positions of [computed]) fails its local rule *)
Inductive FailsAt (o : lopts) (ph : bool) : tree -> tree -> list string -> Prop :=
| A_leaf np s c : leaf_ok o ph np s c = Ok false -> FailsAt o ph (TSc np s) c []
| A_arr dt sh data c : arr_ok o ph dt sh data c = Ok false -> FailsAt o ph (TArr dt sh data) c []
| A_other c : FailsAt o ph TOther c []
| A_unsized es c : as_items c = ItemsNone -> FailsAt o ph (TList es) c []
| A_length es c cs : as_items c = Items cs -> List.length es <> List.length cs -> FailsAt o ph (TList es) c []
| A_item es c cs j e' c' q :
    as_items c = Items cs -> List.length es = List.length cs ->
    nth_error es j = Some e' -> nth_error cs j = Some c' ->
    FailsAt o ph e' c' q -> FailsAt o ph (TList es) c (str_of_nat j :: q)
| A_extra ed cd k : In k (keys cd) -> ~ In k (keys ed) -> FailsAt o ph (TDict ed) (TDict cd) []
| A_missing ed cd k : In k (keys ed) -> ~ In k (keys cd) -> FailsAt o ph (TDict ed) (TDict cd) []
| A_key ed cd k v cv q :
    In (k, v) ed -> lookup k cd = Some cv -> FailsAt o ph v cv q -> FailsAt o ph (TDict ed) (TDict cd) (k :: q).

Lemma child_join name k q : child name k ++ join q = name ++ join (k :: q).
Proof. unfold child. simpl. rewrite !sapp_assoc. reflexivity. Qed.

Lemma Fails_iff_At o ph name e c n :
  Fails o ph name e c n <-> exists q, n = name ++ join q /\ FailsAt o ph e c q.
Proof.
  split.
  - induction 1.
    1-5,7,8: exists []; simpl; rewrite sapp_nil_r; split; [reflexivity | econstructor; eassumption].
    + destruct IHFails as (q & -> & Hq). exists (str_of_nat j :: q). split; [apply child_join | econstructor; eassumption].
    + destruct IHFails as (q & -> & Hq). exists (k :: q). split; [apply child_join | econstructor; eassumption].
  - intros (q & -> & H). revert name. induction H; intro name;
      try (simpl; rewrite sapp_nil_r; econstructor; eassumption).
    + rewrite <- child_join. eapply F_item; eauto.
    + rewrite <- child_join. eapply F_key; eauto.
Qed.

Lemma At_nodot o ph e c q : keys_nodot e -> FailsAt o ph e c q -> Forall nodot q.
Proof.
  intros Hk H. induction H; try constructor.
  - apply nodot_str_of_nat.
  - apply IHFailsAt. apply keys_nodot_list in Hk. rewrite Forall_forall in Hk. apply Hk. eapply nth_error_In; eassumption.
  - apply keys_nodot_dict in Hk. rewrite Forall_forall in Hk.
    match goal with Hin : In (k, v) ed |- _ => apply (Hk _ Hin) end.
  - apply IHFailsAt. apply keys_nodot_dict in Hk. rewrite Forall_forall in Hk.
    match goal with Hin : In (k, v) ed |- _ => apply (Hk _ Hin) end.
Qed.

(** with dot-free keys a name designates one site: "an error of that name in the flipped run" is "this site fails
    in the flipped run" *)
Lemma name_is_site o ph e c q :
  keys_nodot e -> Forall nodot q ->
  (Fails o ph "root" e c (spath q) <-> FailsAt o ph e c q).
Proof.
  intros Hk Hq. rewrite Fails_iff_At. split.
  - intros (q' & Heq & H). assert (Hq' := At_nodot _ _ _ _ _ Hk H).
    assert (join q = join q') by (unfold spath in Heq; simpl in Heq; congruence).
    rewrite (join_inj q q' Hq Hq' H0). assumption.
  - intro H. exists q. split; [reflexivity | assumption].
Qed.

Definition ExcusedAt (o : cropts) (e c : tree) (q : list string) : Prop :=
  forgiven o (spath q) = true \/ (phase_selected (r_phase o) (spath q) /\ ~ FailsAt (lo_of o) true e c q).

(** the site-local statement of the property: True exactly when every node that fails its rule is covered by a
    forgive entry, or is selected by equal_phase and passes its rule with the sign flipped *)
Theorem compare_recursive_spec_sites o e c errs :
  keys_nodot e ->
  PrimFloat.leb fone (r_atol o) = false ->
  cmp_rec (lo_of o) false "root" e c = Ok errs ->
  (errs <> [] -> ep_truthy (r_phase o) = true -> exists nerrs, cmp_rec (lo_of o) true "root" e c = Ok nerrs) ->
  (compare_recursive o e c = Ok true <->
   forall q, FailsAt (lo_of o) false e c q -> ExcusedAt o e c q).
Proof.
  intros Hk Ha He Hn. destruct (compare_recursive_spec o e c errs Ha He Hn) as [_ Hs]. rewrite Hs. split.
  - intros H q Hq. assert (Hnd := At_nodot _ _ _ _ _ Hk Hq).
    destruct (H (spath q)) as [Hf|[Hsel Hnf]].
    + apply Fails_iff_At. exists q. split; [reflexivity | assumption].
    + left; assumption.
    + right. split; [assumption|]. intro Hat. apply Hnf. apply name_is_site; assumption.
  - intros H n Fn. apply Fails_iff_At in Fn. destruct Fn as (q & -> & Hq).
    assert (Hnd := At_nodot _ _ _ _ _ Hk Hq).
    destruct (H q Hq) as [Hf|[Hsel Hnf]].
    + left; assumption.
    + right. split; [assumption|]. intro Fn. apply Hnf. apply (name_is_site _ _ _ _ _ Hk Hnd). assumption.
Qed.

(** when the (root.-normalised) forgive entries name the nodes [segs], a node is forgiven exactly when one of them
    is an initial segment of its keys *)
Theorem forgiven_by_segments o q (segs : list (list string)) :
  map rootify (forgive o) = map spath segs -> Forall (Forall nodot) segs -> Forall nodot q ->
  (forgiven o (spath q) = true <-> exists ks r, In ks segs /\ q = (ks ++ r)%list).
Proof.
  intros Hm Hs Hq. unfold forgiven. rewrite Hm, existsb_exists. split.
  - intros (x & Hin & Hmatch). apply in_map_iff in Hin. destruct Hin as (ks & <- & Hin).
    rewrite Forall_forall in Hs. apply (matches_boundary ks q (Hs _ Hin) Hq) in Hmatch.
    destruct Hmatch as [r ->]. exists ks, r. split; [assumption | reflexivity].
  - intros (ks & r & Hin & ->). exists (spath ks). split; [apply in_map; assumption|].
    rewrite Forall_forall in Hs. apply (matches_boundary ks (ks ++ r) (Hs _ Hin) Hq). exists r; reflexivity.
Qed.


(** compare_values raises nothing but ValueError (ragged nest, negative / NaN atol) and OverflowError (zero / infinite
    atol): in particular a mismatch never escapes as TypeError (4bd9561) *)
Theorem compare_values_raises_only o e c k :
  compare_values o e c = Raise k -> k = EValue \/ k = EOverflow.
Proof.
  intro H. apply compare_values_raise_spec in H. rename H into Ha.
  unfold atol_exc in Ha. destruct (is_nan (atol o) || PrimFloat.ltb (atol o) fzero).
  - inversion Ha; left; reflexivity.
  - destruct (PrimFloat.eqb (atol o) fzero || is_infinity (atol o)); inversion Ha. right; reflexivity.
Qed.

(** a complex computed value against a real expected one is compared as complex: its imaginary part counts (4bd9561) *)
Theorem complex_computed_counts e c :
  iscomplexobj e = Ok false -> iscomplexobj c = Ok true -> iscomplex_pair e c = Ok true.
Proof. intros He Hc. unfold iscomplex_pair. rewrite He. simpl. exact Hc. Qed.

Theorem complex_expected_counts e c : iscomplexobj e = Ok true -> iscomplex_pair e c = Ok true.
Proof. intros He. unfold iscomplex_pair. rewrite He. reflexivity. Qed.


(* ------------------------------------------------------------------------------------------ *)
(** * compare_molrecs: the normalisation *)

Lemma norm_files_idem l : forall l', norm_files l = Ok l' -> norm_files l' = Ok l'.
Proof.
  induction l as [|t l IH]; intros l' H; simpl in H.
  - inversion H; reflexivity.
  - destruct t as [np [| | | | |s|]| | | |]; try discriminate.
    destruct (norm_files l) as [r| |] eqn:E; simpl in H; try discriminate. inversion H; subst.
    simpl. rewrite (IH r eq_refl). reflexivity.
Qed.

Lemma norm_seps_idem ss : forall r, norm_seps ss = Ok r -> exists ss', scalars_of r = Some ss' /\ norm_seps ss' = Ok r.
Proof.
  induction ss as [|s ss IH]; intros r H; simpl in H.
  - inversion H; subst. exists []. split; reflexivity.
  - destruct (norm_sep s) as [t|] eqn:Es; try discriminate.
    destruct (norm_seps ss) as [r'| |] eqn:E; simpl in H; try discriminate. inversion H; subst.
    destruct (IH r' eq_refl) as (ss' & H1 & H2).
    destruct s; simpl in Es; try discriminate; inversion Es; subst; simpl; rewrite H1;
      eexists; (split; [reflexivity|]); simpl; rewrite H2; reflexivity.
Qed.

Lemma norm_separators_idem v v' : norm_separators v = Ok v' -> norm_separators v' = Ok v'.
Proof.
  assert (K : forall ss r, norm_seps ss = Ok r -> norm_separators (TList r) = Ok (TList r)).
  { intros ss r H. destruct (norm_seps_idem _ _ H) as (ss' & H1 & H2). simpl. rewrite H1, H2. reflexivity. }
  destruct v as [| l | | dt sh data |]; simpl; try discriminate.
  - destruct (scalars_of l) as [ss|]; try discriminate.
    destruct (norm_seps ss) as [r| |] eqn:E; simpl; try discriminate. intro H; inversion H; subst. eapply K; eauto.
  - destruct dt; try discriminate. destruct sh as [|n [|? ?]]; try discriminate.
    destruct (norm_seps data) as [r| |] eqn:E; simpl; try discriminate. intro H; inversion H; subst. eapply K; eauto.
Qed.

Definition bond_fixed (t : tree) : Prop := norm_bond t = Some t.

Lemma norm_bond_idem t t' : norm_bond t = Some t' -> bond_fixed t'.
Proof.
  unfold bond_fixed. destruct t as [|l| | |]; try discriminate.
  destruct l as [|[na [| |a| | | |]| | | |] [|[nb [| |b| | | |]| | | |] [|bo [|? ?]]]]; try discriminate.
  simpl. intro H; inversion H; subst; clear H.
  destruct (b <? a)%Z eqn:E1; destruct (a <? b)%Z eqn:E2; simpl;
    rewrite ?Z.ltb_irrefl, ?E1, ?E2; reflexivity.
Qed.

Lemma norm_bonds_fixed l : Forall bond_fixed l -> norm_bonds l = Some l.
Proof. induction 1 as [|t l Ht Hl IH]; simpl; [reflexivity|]. rewrite Ht, IH. reflexivity. Qed.

Lemma norm_bonds_idem l : forall l', norm_bonds l = Some l' -> Forall bond_fixed l'.
Proof.
  induction l as [|t l IH]; intros l' H; simpl in H.
  - inversion H; constructor.
  - destruct (norm_bond t) as [t'|] eqn:Et; try discriminate. destruct (norm_bonds l) as [r|] eqn:Er; try discriminate.
    inversion H; subst. constructor; [eapply norm_bond_idem; eauto | apply IH; reflexivity].
Qed.

Lemma insert_Forall (P : tree -> Prop) x s : P x -> Forall P s -> Forall P (insert_bond x s).
Proof.
  intros Hx Hs. induction Hs as [|y s Hy Hs IH]; simpl; [constructor; [assumption|constructor]|].
  destruct (key_of x <=? key_of y)%Z; repeat constructor; assumption.
Qed.

Lemma sort_Forall (P : tree -> Prop) l : Forall P l -> Forall P (sort_bonds l).
Proof. induction 1; simpl; [constructor | apply insert_Forall; assumption]. Qed.

Fixpoint sorted (s : list tree) : Prop :=
  match s with
  | [] => True
  | x :: r => match r with [] => True | y :: _ => (key_of x <= key_of y)%Z end /\ sorted r
  end.

Lemma insert_sorted x s : sorted s -> sorted (insert_bond x s).
Proof.
  induction s as [|y s IH]; simpl; intro H; [split; exact I|].
  destruct (key_of x <=? key_of y)%Z eqn:E.
  - apply Z.leb_le in E. simpl. repeat split; try assumption; apply H.
  - apply Z.leb_gt in E. destruct H as [H1 H2]. specialize (IH H2). simpl. split; [|exact IH].
    destruct s as [|z s]; simpl.
    + lia.
    + destruct (key_of x <=? key_of z)%Z; lia.
Qed.

Lemma sort_sorted l : sorted (sort_bonds l).
Proof. induction l; simpl; [exact I | apply insert_sorted; assumption]. Qed.

Lemma sort_of_sorted s : sorted s -> sort_bonds s = s.
Proof.
  induction s as [|x r IH]; simpl; intro H; [reflexivity|]. destruct H as [H1 H2]. rewrite (IH H2).
  destruct r as [|y r']; simpl; [reflexivity|]. apply Z.leb_le in H1. rewrite H1. reflexivity.
Qed.

(** the stable sort on the first atom is idempotent *)
Lemma sort_bonds_idem l : sort_bonds (sort_bonds l) = sort_bonds l.
Proof. apply sort_of_sorted, sort_sorted. Qed.

Lemma norm_connectivity_idem v v' : norm_connectivity v = Ok v' -> norm_connectivity v' = Ok v'.
Proof.
  destruct v as [|l| | |]; simpl; try discriminate.
  destruct (norm_bonds l) as [l'|] eqn:E; try discriminate. intro H; inversion H; subst. simpl.
  rewrite (norm_bonds_fixed _ (sort_Forall _ _ (norm_bonds_idem _ _ E))), sort_bonds_idem. reflexivity.
Qed.

Lemma norm_files_v_idem v v' : norm_files_v v = Ok v' -> norm_files_v v' = Ok v'.
Proof.
  destruct v as [|l| | |]; simpl; try discriminate.
  destruct (norm_files l) as [r| |] eqn:E; simpl; try discriminate. intro H; inversion H; subst. simpl.
  rewrite (norm_files_idem _ _ E). reflexivity.
Qed.

Lemma massage_items_idem popv d : forall d', massage_items popv d = Ok d' -> massage_items false d' = Ok d'.
Proof.
  induction d as [|[k v] d IH]; intros d' H; simpl in H.
  - inversion H; reflexivity.
  - match type of H with bind ?X _ = _ => destruct X as [v'| |] eqn:Ev end; simpl in H; try discriminate.
    destruct (massage_items popv d) as [r| |] eqn:Er; simpl in H; try discriminate. inversion H; subst.
    simpl. rewrite (IH r eq_refl).
    destruct (String.eqb k "fragment_files"); [rewrite (norm_files_v_idem _ _ Ev); reflexivity|].
    destruct (String.eqb k "fragment_separators"); [rewrite (norm_separators_idem _ _ Ev); reflexivity|].
    destruct (String.eqb k "provenance"); [reflexivity|].
    destruct (String.eqb k "connectivity"); [rewrite (norm_connectivity_idem _ _ Ev); reflexivity|].
    inversion Ev; subst. reflexivity.
Qed.

(** the normalisation is idempotent (the second pass without the version pop, which cannot be repeated) *)
Theorem massage_idempotent popv t t' : massage popv t = Ok t' -> massage false t' = Ok t'.
Proof.
  destruct t as [| |d| |]; simpl; try discriminate.
  destruct (massage_items popv d) as [d'| |] eqn:E; simpl; try discriminate. intro H; inversion H; subst. simpl.
  rewrite (massage_items_idem _ _ _ E). reflexivity.
Qed.

(** compare_molrecs is compare_recursive on the normalised records *)
Theorem molrecs_is_recursive o e c e' c' :
  massage true e = Ok e' -> massage true c = Ok c' -> compare_molrecs o e c = compare_recursive (mol_opts o) e' c'.
Proof. unfold compare_molrecs. intros -> ->. reflexivity. Qed.

(** the generator version is forgiven: the version entry of provenance does not reach compare_recursive *)
Fixpoint set_val (k : string) (v : tree) (d : list (string * tree)) : list (string * tree) :=
  match d with
  | [] => []
  | (k', v') :: r => if String.eqb k k' then (k', v) :: r else (k', v') :: set_val k v r
  end.

Lemma remove_key_set k v d : remove_key k (set_val k v d) = remove_key k d.
Proof.
  induction d as [|[k' v'] d IH]; simpl; [reflexivity|]. destruct (String.eqb k k') eqn:E; simpl; rewrite E; [reflexivity|].
  rewrite IH. reflexivity.
Qed.

Lemma keys_set k v d : keys (set_val k v d) = keys d.
Proof.
  unfold keys. induction d as [|[k' v'] d IH]; simpl; [reflexivity|]. destruct (String.eqb k k'); simpl; [reflexivity|].
  rewrite IH. reflexivity.
Qed.

Theorem version_forgiven v d :
  norm_provenance true (TDict (set_val "version" v d)) = norm_provenance true (TDict d).
Proof. simpl. rewrite keys_set, remove_key_set. reflexivity. Qed.

(** a bond listed as (i, j) or (j, i) normalises to the same triple *)
Theorem bond_orientation na nb a b bo : a <> b ->
  norm_bond (TList [TSc na (SInt a); TSc nb (SInt b); bo]) = norm_bond (TList [TSc nb (SInt b); TSc na (SInt a); bo]).
Proof.
  intro H. simpl. destruct (b <? a)%Z eqn:E1; destruct (a <? b)%Z eqn:E2; try reflexivity.
  - apply Z.ltb_lt in E1, E2. lia.
  - apply Z.ltb_ge in E1, E2. lia.
Qed.
