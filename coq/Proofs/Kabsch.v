(** C12 — proofs about Gen/Quat.v (the translated F and U of kabsch_quaternion) and Model/Kabsch.v.
    Part 1 (any commutative ring): U(q) is (|q|^2)^2-orthogonal with determinant (|q|^2)^3; the residual
    identity  sum |r_k - c_k.U(q)|^2 = sum|r|^2 + |q|^4 sum|c|^2 - 2 q^T F q  for any number of points;
    the selection loop of B787.  Part 2 (reals) is in Proofs/KabschR.v. *)
From Coq Require Import List Arith Lia Ring Bool.
Require Import QV.Common.Outcome QV.Common.AlignAlg QV.Common.AlignAlgFacts QV.Common.AlignAlgQuat
               QV.Gen.Quat QV.Model.Mill QV.Model.Kabsch QV.Proofs.Mill.
Import ListNotations.

Section KabschRing.
Context {K : Type} {KO : Ops K} {KR : RingLaws K}.
Add Ring KRing3 : (@ring_laws K KO KR).
Local Open Scope K_scope.

(** ---- U(q) ---- *)
Lemma U_gram (q : quat K) : mmul (mtrans (genU q)) (genU q) = mscale (n2 q * n2 q) mid.
Proof.
  destruct q as [[[a b] c] d].
  cbv [genU mmul mtrans mk3 ment mrow comp vmat dot3 mcol mscale mid vscale n2 qdot]. mat3_ring.
Qed.

Lemma U_gram' (q : quat K) : mmul (genU q) (mtrans (genU q)) = mscale (n2 q * n2 q) mid.
Proof.
  destruct q as [[[a b] c] d].
  cbv [genU mmul mtrans mk3 ment mrow comp vmat dot3 mcol mscale mid vscale n2 qdot]. mat3_ring.
Qed.

Lemma U_det (q : quat K) : det3 (genU q) = n2 q * n2 q * n2 q.
Proof. destruct q as [[[a b] c] d]. cbv [genU det3 n2 qdot]. ring. Qed.

Lemma mscale_one (M : mat3 K) : mscale (1 * 1) M = M.
Proof. destruct M as [[[[a1 a2] a3] [[b1 b2] b3]] [[c1 c2] c3]]. cbv [mscale vscale]. mat3_ring. Qed.

Theorem U_proper (q : quat K) : n2 q = 1 -> orthogonal (genU q) /\ det3 (genU q) = 1.
Proof.
  intros H. split; [split|].
  - rewrite U_gram, H. apply mscale_one.
  - rewrite U_gram', H. apply mscale_one.
  - rewrite U_det, H. ring.
Qed.

(** ---- the residual identity ---- *)
Lemma point_cross_term (q : quat K) (r c : vec3 K) : dot3 r (vmat c (genU q)) = quad4 (genF (outer r c)) q.
Proof.
  destruct q as [[[q0 q1] q2] q3], r as [[r0 r1] r2], c as [[c0 c1] c2].
  cbv [genU genF outer vscale quad4 qdot m4vec dot3 vmat mcol ment mrow comp]. ring.
Qed.

Lemma quad_genF_madd (A B : mat3 K) (q : quat K) :
  quad4 (genF (madd A B)) q = quad4 (genF A) q + quad4 (genF B) q.
Proof.
  destruct q as [[[q0 q1] q2] q3], A as [[[[a1 a2] a3] [[b1 b2] b3]] [[c1 c2] c3]], B as [[[[d1 d2] d3] [[e1 e2] e3]] [[f1 f2] f3]].
  cbv [genF madd vadd quad4 qdot m4vec]. ring.
Qed.

Lemma quad_genF_m0 (q : quat K) : quad4 (genF (m0 : mat3 K)) q = 0.
Proof. destruct q as [[[q0 q1] q2] q3]. cbv [genF m0 v0 quad4 qdot m4vec]. ring. Qed.

Lemma nsq_rotated (q : quat K) (c : vec3 K) : nsq (vmat c (genU q)) = n2 q * n2 q * nsq c.
Proof.
  destruct q as [[[q0 q1] q2] q3], c as [[c0 c1] c2].
  cbv [genU nsq dot3 vmat mcol ment mrow comp n2 qdot]. ring.
Qed.

Lemma nsq_vsub (u v : vec3 K) : nsq (vsub u v) = nsq u + nsq v - (1 + 1) * dot3 u v.
Proof. destruct u as [[a b] c], v as [[x y] z]. cbv [nsq vsub dot3]. ring. Qed.

(* for every quaternion (unit or not) and every number of points *)
Theorem residual_identity_gen (q : quat K) (Rs Cs : list (vec3 K)) :
  length Rs = length Cs ->
  sumsq (lsub Rs (map (fun c => vmat c (genU q)) Cs)) =
  sumsq Rs + n2 q * n2 q * sumsq Cs - (1 + 1) * quad4 (genF (cov_of Rs Cs)) q.
Proof.
  revert Cs. induction Rs as [|r Rs IH]; intros [|c Cs] HL; cbn [length] in HL; try discriminate.
  - cbn [map lsub sumsq cov_of]. rewrite quad_genF_m0. ring.
  - cbn [map lsub sumsq cov_of]. rewrite IH by lia. rewrite quad_genF_madd, <- point_cross_term.
    rewrite nsq_vsub, nsq_rotated. ring.
Qed.

Theorem residual_identity (q : quat K) (Rs Cs : list (vec3 K)) :
  n2 q = 1 -> length Rs = length Cs ->
  sumsq (lsub Rs (map (fun c => vmat c (genU q)) Cs)) =
  sumsq Rs + sumsq Cs - (1 + 1) * quad4 (genF (cov_of Rs Cs)) q.
Proof. intros H HL. rewrite residual_identity_gen by exact HL. rewrite H. ring. Qed.

(** ---- reported residual = applied residual ---- *)
Lemma vmat_mvec (M : mat3 K) (v : vec3 K) : vmat (mvec M v) M = vmat v (mmul (mtrans M) M).
Proof.
  destruct v as [[x y] z], M as [[[[a1 a2] a3] [[b1 b2] b3]] [[c1 c2] c3]].
  cbv [vmat mvec mmul mtrans mk3 ment mrow comp dot3 mcol]. vec3_ring.
Qed.

Lemma nsq_vopp_sub (u v : vec3 K) : nsq (vsub u v) = nsq (vsub v u).
Proof. destruct u as [[a b] c], v as [[x y] z]. cbv [nsq vsub dot3]. ring. Qed.

(* one atom: the recipe (shift = Cc - RR.Rc, rotation = RR) applied to c, minus r, is the centred residual *)
Lemma applied_atom (RR : mat3 K) (Rc Cc r c : vec3 K) :
  mmul (mtrans RR) RR = mid ->
  vsub (vmat (vsub c (vsub Cc (mvec RR Rc))) RR) r = vsub (vmat (vsub c Cc) RR) (vsub r Rc).
Proof.
  intros HO.
  assert (E : vmat (vsub c (vsub Cc (mvec RR Rc))) RR = vadd (vmat (vsub c Cc) RR) Rc).
  { replace (vsub c (vsub Cc (mvec RR Rc))) with (vadd (vsub c Cc) (mvec RR Rc)).
    - rewrite vmat_vadd, vmat_mvec, HO, vmat_mid. reflexivity.
    - destruct c as [[c0 c1] c2], Cc as [[d0 d1] d2], (mvec RR Rc) as [[e0 e1] e2]. cbv [vsub vadd]. vec3_ring. }
  rewrite E. destruct (vmat (vsub c Cc) RR) as [[a0 a1] a2], Rc as [[b0 b1] b2], r as [[r0 r1] r2].
  cbv [vsub vadd]. vec3_ring.
Qed.

Lemma sumsq_applied (RR : mat3 K) (Rc Cc : vec3 K) (R C : list (vec3 K)) :
  mmul (mtrans RR) RR = mid -> length R = length C ->
  sumsq (lsub (map (fun c => vmat (vsub c (vsub Cc (mvec RR Rc))) RR) C) R) =
  sumsq (lsub (map (fun v => vsub v Rc) R) (map (fun v => vmat v RR) (map (fun v => vsub v Cc) C))).
Proof.
  intros HO. revert C. induction R as [|r R IH]; intros [|c C] HL; cbn [length] in HL; try discriminate; [reflexivity|].
  cbn [map lsub sumsq]. rewrite IH by lia. f_equal.
  rewrite applied_atom by exact HO. apply nsq_vopp_sub.
Qed.

Lemma gather_map {A B} (f : A -> B) (l : list A) p : gather (map f l) p = obind (gather l p) (fun t => Ok (map f t)).
Proof.
  induction p as [|i p IH]; [reflexivity|]. cbn [gather]. rewrite nth_error_map.
  destruct (nth_error l i); [|reflexivity]. cbn [option_map]. rewrite IH.
  destruct (gather l p); reflexivity.
Qed.
End KabschRing.

(** ---- the selection loop of B787 ---- *)
Section Select.
Context {K : Type} {KO : Ops K} {KD : DivOps K}.

Lemma b787_loop_mirror_flag rtc aconv cs idx best hold :
  (forall i b, hold = Some (i, b) -> b = false) ->
  forall i b, snd (b787_loop false rtc aconv cs idx best hold) = Some (i, b) -> b = false.
Proof.
  revert idx best hold. induction cs as [|c cs IH]; intros idx best hold Hh i b; cbn [b787_loop snd].
  - apply Hh.
  - set (better := klt (c_rmsd c) best).
    destruct (better && negb rtc && klt (if better then c_rmsd c else best) aconv).
    + cbn [snd]. destruct better; [intros E; inversion E; reflexivity | apply Hh].
    + apply IH. destruct better; [intros i' b' E; inversion E; reflexivity | exact Hh].
Qed.

Theorem mirror_only_on_request superimposable rtc aconv hundred cs best i mir :
  b787_select false superimposable rtc aconv hundred cs = Ok (best, i, mir) -> mir = false.
Proof.
  unfold b787_select. cbn [andb].
  destruct (b787_loop false rtc aconv cs 0 hundred None) as [bst [[j m]|]] eqn:E; [|discriminate].
  intros H. inversion H; subst.
  apply (b787_loop_mirror_flag rtc aconv cs 0 hundred None (fun _ _ E0 => ltac:(discriminate)) i mir).
  rewrite E. reflexivity.
Qed.

Theorem mirror_not_tried_when_superimposable run_mirror rtc aconv hundred cs best i mir :
  b787_select run_mirror true rtc aconv hundred cs = Ok (best, i, mir) -> mir = false.
Proof.
  unfold b787_select. rewrite andb_false_r. intros H.
  apply (mirror_only_on_request true rtc aconv hundred cs best i mir). unfold b787_select. cbn [andb]. exact H.
Qed.

(* with a total, transitive comparison and no early stop, the selected RMSD is a minimum over every trial *)
Hypothesis kleb_total : forall a b : K, kleb a b = true \/ kleb b a = true.
Hypothesis kleb_trans : forall a b c : K, kleb a b = true -> kleb b c = true -> kleb a c = true.

Lemma klt_false_le a b : klt a b = false -> kleb b a = true.
Proof. unfold klt. destruct (kleb b a); [reflexivity|discriminate]. Qed.
Lemma klt_true_le a b : klt a b = true -> kleb a b = true.
Proof. unfold klt. intros H. destruct (kleb_total a b) as [E|E]; [exact E|]. rewrite E in H. discriminate. Qed.
Lemma kleb_refl a : kleb a a = true.
Proof. destruct (kleb_total a a); assumption. Qed.

Lemma b787_loop_min do_mirror aconv cs idx best hold :
  let res := fst (b787_loop do_mirror true aconv cs idx best hold) in
  kleb res best = true /\
  Forall (fun c => kleb res (c_rmsd c) = true /\ (do_mirror = true -> kleb res (c_rmsd_m c) = true)) cs.
Proof.
  revert idx best hold. induction cs as [|c cs IH]; intros idx best hold; cbn [b787_loop fst].
  - split; [apply kleb_refl|constructor].
  - rewrite andb_false_r. cbn [negb andb].
    set (better := klt (c_rmsd c) best). set (best1 := if better then c_rmsd c else best).
    assert (H1 : kleb best1 best = true /\ kleb best1 (c_rmsd c) = true).
    { unfold best1, better. destruct (klt (c_rmsd c) best) eqn:E.
      - split; [apply klt_true_le; exact E|apply kleb_refl].
      - split; [apply kleb_refl|apply klt_false_le; exact E]. }
    destruct do_mirror.
    + rewrite andb_false_r. cbn [andb].
      set (better_m := klt (c_rmsd_m c) best1). set (best2 := if better_m then c_rmsd_m c else best1).
      assert (H2 : kleb best2 best1 = true /\ kleb best2 (c_rmsd_m c) = true).
      { unfold best2, better_m. destruct (klt (c_rmsd_m c) best1) eqn:E.
        - split; [apply klt_true_le; exact E|apply kleb_refl].
        - split; [apply kleb_refl|apply klt_false_le; exact E]. }
      destruct (IH (S idx) best2 (if better_m then Some (idx, true) else if better then Some (idx, false) else hold)) as [A B].
      split; [|constructor; [split|exact B]].
      * eapply kleb_trans; [exact A|]. eapply kleb_trans; [exact (proj1 H2)|exact (proj1 H1)].
      * eapply kleb_trans; [exact A|]. eapply kleb_trans; [exact (proj1 H2)|exact (proj2 H1)].
      * intros _. eapply kleb_trans; [exact A|exact (proj2 H2)].
    + destruct (IH (S idx) best1 (if better then Some (idx, false) else hold)) as [A B].
      split; [|constructor; [split|exact B]].
      * eapply kleb_trans; [exact A|exact (proj1 H1)].
      * eapply kleb_trans; [exact A|exact (proj2 H1)].
      * intros E; discriminate.
Qed.

Theorem b787_best_is_min run_mirror superimposable aconv hundred cs best i mir :
  b787_select run_mirror superimposable true aconv hundred cs = Ok (best, i, mir) ->
  Forall (fun c => kleb best (c_rmsd c) = true /\
                   (run_mirror && negb superimposable = true -> kleb best (c_rmsd_m c) = true)) cs.
Proof.
  unfold b787_select.
  pose proof (b787_loop_min (run_mirror && negb superimposable) aconv cs 0 hundred None) as H.
  destruct (b787_loop (run_mirror && negb superimposable) true aconv cs 0 hundred None) as [bst [[j m]|]]; [|discriminate].
  intros E. inversion E; subst. exact (proj2 H).
Qed.
End Select.
