(** C08 — the rendered CHARACTERS, read back by the reader model of C07, state the molecule: atoms once and in
    order under the program's spelling, coordinates at the printed precision, charge and multiplicity. *)
From Coq Require Import ZArith NArith List String Ascii Bool Lia.
Require Import QV.Common.Outcome QV.Common.WText QV.Common.WBin64 QV.Model.WriterTypes QV.Gen.WriterTables QV.Model.Writers
               QV.Model.Text QV.Proofs.Writers QV.Proofs.TextRT QV.Proofs.TextLex QV.Proofs.TextLayout QV.Proofs.TextRoundTrip
               QV.Proofs.TextRoundTripXyz.
Import ListNotations.
Open Scope nat_scope.

Definition printed (p : nat) (v : atom_view) : list dnum := [dn p (av_x v); dn p (av_y v); dn p (av_z v)].

Lemma lbl_atomd p atoms : map a_lbl (map (atomd_of p) atoms) = map av_label atoms.
Proof. induction atoms as [|v l IH]; simpl; [reflexivity | now rewrite IH]. Qed.
Lemma xyz_atomd p atoms : flat_map a_xyz (map (atomd_of p) atoms) = flat_map (printed p) atoms.
Proof. induction atoms as [|v l IH]; simpl; [reflexivity | now rewrite IH]. Qed.

Lemma elbl_frags p frs : forall i fc fm, elbl_of (frags_of p frs i fc fm) = map av_label (List.concat frs).
Proof.
  induction frs as [|fr r IH]; intros; simpl; [reflexivity|]. unfold elbl_of in *. simpl. rewrite IH, map_app, lbl_atomd. reflexivity.
Qed.
Lemma geom_frags p frs : forall i fc fm, geom_of (frags_of p frs i fc fm) = flat_map (printed p) (List.concat frs).
Proof.
  induction frs as [|fr r IH]; intros; simpl; [reflexivity|]. unfold geom_of in *. simpl. rewrite IH, flat_map_app, xyz_atomd. reflexivity.
Qed.

Lemma filter_all {A} (f : A -> bool) l : (forall x, f x = true) -> filter f l = l.
Proof. intro H. induction l as [|x l IH]; simpl; [reflexivity|]. now rewrite H, IH. Qed.

(** psi4: what the reader recovers from the characters *)
Theorem psi4_text_states_the_molecule cfg m text kw w r :
  s_lower (w_dtype cfg) = "psi4"%string -> to_string_model cfg m = Ok (text, kw) ->
  unit_word (units_of e_psi4 cfg) = Some (w, r) -> psi4_fits cfg m -> mono 0 (m_seps m) ->
  exists atoms p,
    Forall2 (is_view (af_of e_psi4 cfg) (gf_of e_psi4 cfg) (factor_of e_psi4 cfg m)) (m_atoms m) atoms
    /\ parse "psi4" text = Ok p
    /\ p_elbl p = map av_label atoms
    /\ p_geom p = flat_map (printed (w_prec cfg)) atoms
    /\ p_units p = Some r
    /\ match m_seps m with
       | [] => p_fchg p = Some [Some (dz (m_chg m))] /\ p_fmult p = Some [Some (m_mult m)]
       | _ => p_molchg p = Some (dz (m_chg m)) /\ p_molmult p = Some (m_mult m)
       end.
Proof.
  intros Hd H Hu Hf Hm.
  destruct (roundtrip_psi4 cfg m text kw w r Hd H Hu Hf) as [atoms [Ha Hp]].
  exists atoms, (carried_psi4 cfg m atoms r). split.
  - pose proof (atoms_formatter_views _ _ _ _ _ Ha) as V.
    rewrite filter_all in V; [exact V|]. intro a. unfold visible. destruct (psi4_formats cfg) as [_ ->].
    change (s_eqb "Gh({elem}{elbl})" "") with false. now rewrite orb_true_r.
  - split; [exact Hp|]. unfold carried_psi4. destruct (m_seps m) as [|s0 seps] eqn:Es; cbn [result_single result_multi p_elbl p_geom p_units p_fchg p_fmult p_molchg p_molmult fd_atoms fd_c fd_m].
    + rewrite lbl_atomd, xyz_atomd. repeat split; reflexivity.
    + rewrite elbl_frags, geom_frags. rewrite (np_split_concat atoms (s0 :: seps) Hm). repeat split; reflexivity.
Qed.

(** strict xyz: elements and coordinates *)
Theorem xyz_text_states_the_molecule cfg m text kw :
  s_lower (w_dtype cfg) = "xyz"%string -> w_afmt cfg = None -> w_gfmt cfg = None ->
  to_string_model cfg m = Ok (text, kw) -> unit_word_xyz (units_of e_xyz cfg) = Some ("", "Angstrom")%string ->
  xyz_fits cfg m ->
  exists atoms p,
    Forall2 (is_view "{elem}" "@{elem}" (factor_of e_xyz cfg m)) (m_atoms m) atoms
    /\ parse "xyz" text = Ok p
    /\ p_elbl p = map av_label atoms /\ p_geom p = flat_map (printed (w_prec cfg)) atoms /\ p_units p = Some "Angstrom"%string.
Proof.
  intros Hd Haf Hgf H Hu Hf.
  destruct (roundtrip_xyz cfg m text kw Hd Haf Hgf H Hu Hf) as [atoms [Ha Hp]].
  exists atoms, (result_xyz "Angstrom" None (map (atomd_of (w_prec cfg)) atoms)). split.
  - pose proof (atoms_formatter_views _ _ _ _ _ Ha) as V.
    rewrite filter_all in V; [exact V|]. intro a. unfold visible. change (s_eqb "@{elem}" "") with false. now rewrite orb_true_r.
  - split; [exact Hp|]. cbn [result_xyz p_elbl p_geom p_units]. rewrite lbl_atomd, xyz_atomd. repeat split; reflexivity.
Qed.

(** xyz+: elements / ghosts, coordinates, total charge and multiplicity, unit *)
Theorem xyzplus_text_states_the_molecule cfg m text kw w r :
  s_lower (w_dtype cfg) = "xyz+"%string -> w_afmt cfg = None -> w_gfmt cfg = None ->
  to_string_model cfg m = Ok (text, kw) -> unit_word_xyz (units_of e_xyzp cfg) = Some (w, r) ->
  xyzp_fits cfg m -> name_ok (mol_name m) ->
  exists atoms p,
    Forall2 (is_view "{elem}" "@{elem}" (factor_of e_xyzp cfg m)) (m_atoms m) atoms
    /\ parse "xyz+" text = Ok p
    /\ p_elbl p = map av_label atoms /\ p_geom p = flat_map (printed (w_prec cfg)) atoms /\ p_units p = Some r
    /\ p_molchg p = Some (dz (m_chg m)) /\ p_molmult p = Some (m_mult m).
Proof.
  intros Hd Haf Hgf H Hu Hf Hn.
  destruct (roundtrip_xyzplus cfg m text kw w r Hd Haf Hgf H Hu Hf Hn) as [atoms [Ha Hp]].
  exists atoms, (result_xyz r (Some (dz (m_chg m), m_mult m)) (map (atomd_of (w_prec cfg)) atoms)). split.
  - pose proof (atoms_formatter_views _ _ _ _ _ Ha) as V.
    rewrite filter_all in V; [exact V|]. intro a. unfold visible. change (s_eqb "@{elem}" "") with false. now rewrite orb_true_r.
  - split; [exact Hp|]. cbn [result_xyz p_elbl p_geom p_units p_molchg p_molmult]. rewrite lbl_atomd, xyz_atomd. repeat split; reflexivity.
Qed.
