(** C06 — the label recogniser returns exactly the fields the grammar assigns: [Label s f -> parse_label s = Ok f]
    (with Proofs/NucleusLabel.v: parse_label s = Ok f <-> Label s f, and the grammar is unambiguous). *)
From Coq Require Import ZArith NArith List Bool String Ascii QArith Lia.
Require Import QV.Common.Outcome QV.Model.Nucleus QV.Proofs.NucleusLabel.
Import ListNotations.
Open Scope list_scope.

Definition headless (p : ascii -> bool) (l : list ascii) : Prop := l = [] \/ exists c r, l = c :: r /\ p c = false.

Lemma span_none p b : headless p b -> span p b = ([], b).
Proof. intro H. apply (span_app p [] b); [reflexivity | exact H]. Qed.

Lemma take_n_short p n e rest : all p e -> (List.length e < n)%nat -> headless p rest -> take_n p n (e ++ rest) = None.
Proof.
  intros Ae Ln Hr. unfold take_n.
  destruct (Nat.eqb (List.length (firstn n (e ++ rest))) n) eqn:El; [|reflexivity]. apply Nat.eqb_eq in El. cbn [andb].
  rewrite firstn_app, (firstn_all2 e) in * by lia.
  destruct Hr as [-> | (c & r & -> & Hc)].
  - rewrite firstn_nil, app_nil_r in El. lia.
  - destruct (n - List.length e)%nat as [|k] eqn:Ek; [lia|]. cbn [firstn]. rewrite forallb_app. cbn [forallb]. rewrite Hc.
    cbn [andb]. rewrite andb_false_r. reflexivity.
Qed.

Lemma take_n_headless p n rest : (0 < n)%nat -> headless p rest -> take_n p n rest = None.
Proof. intros Hn Hr. exact (take_n_short p n [] rest eq_refl Hn Hr). Qed.

Ltac by_code c :=
  unfold is_word, is_alpha, is_upper, is_lower, is_digit, c_eq in *; generalize dependent (acode c); intro n; intros;
  repeat match goal with
         | H : context [(?a <=? ?b)%N] |- _ => destruct (N.leb_spec a b)
         | |- context [(?a <=? ?b)%N] => destruct (N.leb_spec a b)
         | H : context [(?a =? ?b)%N] |- _ => destruct (N.eqb_spec a b)
         | |- context [(?a =? ?b)%N] => destruct (N.eqb_spec a b)
         end; cbn [andb orb negb] in *; try reflexivity; try discriminate; try lia.

Lemma digit_not_us c : is_digit c = true -> c_eq c 95 = false.
Proof. intro H. by_code c. Qed.
Lemma digit_not_alpha c : is_digit c = true -> is_alpha c = false.
Proof. intro H. by_code c. Qed.
Lemma alpha_not_digit c : is_alpha c = true -> is_digit c = false.
Proof. intro H. by_code c. Qed.
Lemma word_not_paren c : is_word c = true -> c_eq c 40 = false.
Proof. intro H. by_code c. Qed.
Lemma digit_word c : is_digit c = true -> is_word c = true.
Proof. intro H. unfold is_word. rewrite H. rewrite orb_true_r. reflexivity. Qed.
Lemma alpha_word c : is_alpha c = true -> is_word c = true.
Proof. intro H. unfold is_word. rewrite H. reflexivity. Qed.

Lemma all_cons p c l : all p (c :: l) -> p c = true /\ all p l.
Proof. unfold all. simpl. intro H. apply andb_true_iff in H. exact H. Qed.

(* ------------------------------------------------------------------------------------------ *)

Lemma tail_exact g ms m : MassPart ms m -> tail g (ms ++ suffix g) = Some m.
Proof.
  intros [|d1 d2 N1 N2 A1 A2].
  - destruct g; vm_compute; reflexivity.
  - unfold tail. cbn [app]. rewrite (c_eq_ch 64) by reflexivity.
    rewrite <- List.app_assoc. cbn [app].
    rewrite (span_app is_digit d1 (ch 46 :: d2 ++ suffix g) A1) by (right; eauto).
    apply is_nil_false in N1. rewrite N1. rewrite (c_eq_ch 46) by reflexivity.
    rewrite (span_app is_digit d2 (suffix g) A2) by (apply suffix_head; reflexivity).
    apply is_nil_false in N2. rewrite N2. cbn [negb andb].
    assert (C : close g (suffix g) = true) by (apply close_spec; reflexivity). rewrite C. reflexivity.
Qed.

Lemma mass_headless ms m g p : MassPart ms m -> p (ch 64) = false -> p (ch 41) = false -> headless p (ms ++ suffix g).
Proof. intros. eapply masspart_head; eassumption. Qed.

Lemma user1_tail_exact g us u ms m : User1 us u -> MassPart ms m -> user1_tail g (us ++ ms ++ suffix g) = Some (u, m).
Proof.
  intros Hu Hm. pose proof (tail_exact g ms m Hm) as T. unfold user1_tail.
  destruct Hu as [|ws N A|ds N A].
  - cbn [app]. rewrite T.
    assert (H95 : headless (fun c => c_eq c 95) (ms ++ suffix g)) by (eapply mass_headless; [eassumption | reflexivity | reflexivity]).
    assert (Hd : headless is_digit (ms ++ suffix g)) by (eapply mass_headless; [eassumption | reflexivity | reflexivity]).
    rewrite (span_none is_digit _ Hd). cbn [is_nil].
    destruct H95 as [-> | (c & r & -> & Hc)]; [reflexivity|]. rewrite Hc. reflexivity.
  - cbn [app]. rewrite (c_eq_ch 95) by reflexivity.
    rewrite (span_app is_word ws (ms ++ suffix g) A) by (eapply masspart_head; [eassumption | reflexivity | reflexivity]).
    apply is_nil_false in N. rewrite N, T. reflexivity.
  - destruct ds as [|d ds]; [congruence|]. destruct (all_cons _ _ _ A) as [Hd _].
    cbn [app]. rewrite (digit_not_us _ Hd).
    change (d :: ds ++ ms ++ suffix g) with ((d :: ds) ++ ms ++ suffix g).
    rewrite (span_app is_digit (d :: ds) (ms ++ suffix g) A) by (eapply masspart_head; [eassumption | reflexivity | reflexivity]).
    cbn [is_nil]. rewrite T. reflexivity.
Qed.

Lemma user2_tail_exact g us u ms m : User2 us u -> MassPart ms m -> user2_tail g (us ++ ms ++ suffix g) = Some (u, m).
Proof.
  intros Hu Hm. pose proof (tail_exact g ms m Hm) as T. unfold user2_tail.
  destruct Hu as [|ws N A].
  - cbn [app]. rewrite T.
    assert (H95 : headless (fun c => c_eq c 95) (ms ++ suffix g)) by (eapply mass_headless; [eassumption | reflexivity | reflexivity]).
    destruct H95 as [-> | (c & r & -> & Hc)]; [reflexivity|]. rewrite Hc. reflexivity.
  - cbn [app]. rewrite (c_eq_ch 95) by reflexivity.
    rewrite (span_app is_word ws (ms ++ suffix g) A) by (eapply masspart_head; [eassumption | reflexivity | reflexivity]).
    apply is_nil_false in N. rewrite N, T. reflexivity.
Qed.

Lemma user1_headless_alpha g us u ms m : User1 us u -> MassPart ms m -> headless is_alpha (us ++ ms ++ suffix g).
Proof.
  intros [|ws N A|ds N A] Hm.
  - eapply mass_headless; [eassumption | reflexivity | reflexivity].
  - right. eexists _, _. split; [reflexivity | reflexivity].
  - destruct ds as [|d ds]; [congruence|]. destruct (all_cons _ _ _ A) as [Hd _]. right. eexists _, _. split; [reflexivity|].
    apply digit_not_alpha, Hd.
Qed.

Lemma user2_headless g us u ms m p : User2 us u -> MassPart ms m -> p (ch 95) = false -> p (ch 64) = false -> p (ch 41) = false ->
  headless p (us ++ ms ++ suffix g).
Proof.
  intros [|ws N A] Hm H95 H64 H41.
  - eapply mass_headless; eassumption.
  - right. eexists _, _. split; [reflexivity | exact H95].
Qed.

Theorem body_exact g s f : Body g s f -> body g s = Some f.
Proof.
  intros [a e us u ms m Aa Ae Le Hu Hm | z us u ms m Az Lz Hu Hm]; unfold body.
  - unfold label1. rewrite (span_app is_digit a (e ++ us ++ ms ++ suffix g) Aa) by (right; apply alpha_head_not_digit; [assumption | lia]).
    pose proof (user1_tail_exact g us u ms m Hu Hm) as U.
    pose proof (user1_headless_alpha g us u ms m Hu Hm) as Hh.
    assert (T : take_n is_alpha (List.length e) (e ++ us ++ ms ++ suffix g) = Some (e, us ++ ms ++ suffix g)) by (apply take_n_app, Ae).
    destruct (List.length e) as [|[|[|[|n]]]] eqn:El; try lia.
    + rewrite (take_n_short is_alpha 3 e _ Ae) by (auto; lia). rewrite (take_n_short is_alpha 2 e _ Ae) by (auto; lia).
      rewrite T, U. reflexivity.
    + rewrite (take_n_short is_alpha 3 e _ Ae) by (auto; lia). rewrite T, U. reflexivity.
    + rewrite T, U. reflexivity.
  - assert (Hd : headless is_digit (us ++ ms ++ suffix g)) by (eapply user2_headless; try eassumption; reflexivity).
    assert (Ha : headless is_alpha (us ++ ms ++ suffix g)) by (eapply user2_headless; try eassumption; reflexivity).
    assert (L1 : label1 g (z ++ us ++ ms ++ suffix g) = None).
    { unfold label1. rewrite (span_app is_digit z _ Az Hd).
      rewrite !(take_n_headless is_alpha _ _) by (auto; lia). reflexivity. }
    rewrite L1. cbn [first_some]. unfold label2.
    pose proof (user2_tail_exact g us u ms m Hu Hm) as U.
    assert (T : take_n is_digit (List.length z) (z ++ us ++ ms ++ suffix g) = Some (z, us ++ ms ++ suffix g)) by (apply take_n_app, Az).
    destruct (List.length z) as [|[|[|[|n]]]] eqn:El; try lia.
    + rewrite (take_n_short is_digit 3 z _ Az) by (auto; lia). rewrite (take_n_short is_digit 2 z _ Az) by (auto; lia).
      rewrite T, U. reflexivity.
    + rewrite (take_n_short is_digit 3 z _ Az) by (auto; lia). rewrite T, U. reflexivity.
    + rewrite T, U. reflexivity.
Qed.

(** a plain body starts with a digit or a letter and contains no "(" *)
Lemma body_plain_head s f : Body GhNone s f -> exists c r, s = c :: r /\ (is_digit c = true \/ is_alpha c = true).
Proof.
  intros [a e us u ms m Aa Ae Le Hu Hm | z us u ms m Az Lz Hu Hm].
  - destruct a as [|c a]; [|destruct (all_cons _ _ _ Aa) as [Hc _]; eexists _, _; split; [reflexivity | left; exact Hc]].
    destruct e as [|c e]; [simpl in Le; lia|]. destruct (all_cons _ _ _ Ae) as [Hc _]. eexists _, _. split; [reflexivity | right; exact Hc].
  - destruct z as [|c z]; [simpl in Lz; lia|]. destruct (all_cons _ _ _ Az) as [Hc _]. eexists _, _. split; [reflexivity | left; exact Hc].
Qed.

Definition noparen (l : list ascii) : Prop := Forall (fun c => c_eq c 40 = false) l.

Lemma all_noparen p l : (forall c, p c = true -> c_eq c 40 = false) -> all p l -> noparen l.
Proof.
  intros Hp. induction l as [|c l IH]; intro A; [constructor|]. destruct (all_cons _ _ _ A) as [Hc Hl]. constructor; [apply Hp, Hc | apply IH, Hl].
Qed.

Lemma noparen_app a b : noparen a -> noparen b -> noparen (a ++ b).
Proof. apply Forall_app_intro || (intros; apply Forall_app; split; assumption). Qed.

Lemma masspart_noparen ms m : MassPart ms m -> noparen ms.
Proof.
  intros [|d1 d2 _ _ A1 A2]; [constructor|]. constructor; [reflexivity|]. apply noparen_app.
  - eapply all_noparen; [|exact A1]. intros c Hc. apply word_not_paren, digit_word, Hc.
  - constructor; [reflexivity|]. eapply all_noparen; [|exact A2]. intros c Hc. apply word_not_paren, digit_word, Hc.
Qed.

Lemma body_plain_noparen s f : Body GhNone s f -> noparen s.
Proof.
  assert (D : forall l, all is_digit l -> noparen l) by (intros l; apply all_noparen; intros c Hc; apply word_not_paren, digit_word, Hc).
  assert (W : forall l, all is_word l -> noparen l) by (intros l; apply all_noparen; intros c Hc; apply word_not_paren, Hc).
  intros [a e us u ms m Aa Ae Le Hu Hm | z us u ms m Az Lz Hu Hm]; cbn [suffix]; rewrite app_nil_r.
  - apply noparen_app; [apply D, Aa|]. apply noparen_app; [eapply all_noparen; [|exact Ae]; intros c Hc; apply word_not_paren, alpha_word, Hc|].
    apply noparen_app; [|eapply masspart_noparen; eassumption].
    destruct Hu as [|ws N A|ds N A]; [constructor | constructor; [reflexivity | apply W, A] | apply D, A].
  - apply noparen_app; [apply D, Az|]. apply noparen_app; [|eapply masspart_noparen; eassumption].
    destruct Hu as [|ws N A]; [constructor | constructor; [reflexivity | apply W, A]].
Qed.

Theorem match_label_exact s f : Label s f -> match_label s = Some f.
Proof.
  intros [s0 f0 B | s0 f0 B | c0 c1 s0 f0 H0 H1 B]; pose proof (body_exact _ _ _ B) as Hb.
  - unfold match_label. destruct (body_plain_head _ _ B) as (c0 & r0 & -> & Hc0).
    assert (E0 : c_eq c0 64 = false) by (destruct Hc0 as [Hc|Hc]; by_code c0).
    rewrite E0. destruct r0 as [|c1 [|c2 r2]]; try exact Hb.
    destruct ((c_eq c0 71 || c_eq c0 103) && (c_eq c1 72 || c_eq c1 104) && c_eq c2 40) eqn:E; [|exact Hb].
    exfalso. apply andb_true_iff in E. destruct E as [_ E2].
    pose proof (body_plain_noparen _ _ B) as NP. inversion NP as [|? ? _ NP1]; subst. inversion NP1 as [|? ? _ NP2]; subst.
    inversion NP2 as [|? ? Hp _]; subst. congruence.
  - unfold match_label. rewrite (c_eq_ch 64) by reflexivity. rewrite Hb. reflexivity.
  - unfold match_label.
    assert (E0 : c_eq c0 64 = false) by (destruct H0 as [-> | ->]; reflexivity). rewrite E0.
    assert (Ea : c_eq c0 71 || c_eq c0 103 = true) by (destruct H0 as [-> | ->]; reflexivity).
    assert (Eb : c_eq c1 72 || c_eq c1 104 = true) by (destruct H1 as [-> | ->]; reflexivity).
    rewrite Ea, Eb, (c_eq_ch 40) by reflexivity. cbn [andb]. rewrite Hb. reflexivity.
Qed.

(** The recogniser accepts exactly the strings of the grammar and returns exactly the grammar's fields. *)
Theorem parse_label_spec s f : parse_label s = Ok f <-> Label (list_ascii_of_string s) f.
Proof.
  split; [apply parse_label_sound|]. intro H. unfold parse_label. rewrite (match_label_exact _ _ H). reflexivity.
Qed.

(** ... so the grammar is unambiguous: a string has at most one reading. *)
Corollary label_unambiguous s f f' : Label (list_ascii_of_string s) f -> Label (list_ascii_of_string s) f' -> f = f'.
Proof. intros H H'. apply parse_label_spec in H. apply parse_label_spec in H'. congruence. Qed.

(** ... and everything else is refused with ValidationError. *)
Corollary parse_label_refuses s : (forall f, ~ Label (list_ascii_of_string s) f) -> parse_label s = Err Validation.
Proof.
  intro H. unfold parse_label. destruct (match_label (list_ascii_of_string s)) as [f|] eqn:E; [|reflexivity].
  exfalso. apply (H f). apply match_label_sound, E.
Qed.
