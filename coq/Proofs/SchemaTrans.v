(** C09 — the whole-record schema round trip: from_schema (to_schema m) reproduces a molrec accepted by from_arrays
    (composition with C04's idempotence theorem), headers recognised, key tables inverse to each other. *)
From Coq Require Import ZArith List Bool String QArith Lia.
Require Import QV.Common.Outcome QV.Model.Nucleus QV.Model.ChgMult QV.Model.MolRec QV.Proofs.Nucleus QV.Proofs.MolRec
               QV.Gen.ToSchemaGen QV.Gen.SchemaKeys QV.Model.SchemaTrans.
Import ListNotations.
Open Scope list_scope.
Open Scope Z_scope.

(** * np.split at non-negative separators with non-empty pieces: cumsum of the piece lengths gives the separators back *)
Lemma nidx_nonneg {A} (l : list A) k : 0 <= k -> nidx l k = Z.to_nat (Z.min k (Z.of_nat (List.length l))).
Proof. intro H. unfold nidx, norm_idx. destruct (k <? 0) eqn:E; [apply Z.ltb_lt in E; lia|reflexivity]. Qed.

Lemma split_cumsum {A} (l : list A) : forall seps start,
  0 <= start <= Z.of_nat (List.length l) -> Forall (fun s => 0 <= s) seps ->
  Forall (fun p => p <> []) (split_from l start seps) ->
  cumsum_z start (lens (split_from l start seps)) = seps ++ [Z.of_nat (List.length l)].
Proof.
  induction seps as [|s r IH]; intros start Hs Hnn Hne.
  - simpl. rewrite slice_length, nidx_len, (nidx_nonneg l start) by lia. f_equal. lia.
  - inversion Hnn as [|? ? Hs0 Hr]; subst. cbn [split_from] in Hne. inversion Hne as [|? ? Hp Hrest]; subst.
    assert (L1 : (List.length (slice l start s) <> 0)%nat) by (destruct (slice l start s); [congruence|simpl; lia]).
    rewrite slice_length, (nidx_nonneg l start), (nidx_nonneg l s) in L1 by lia.
    assert (Hsn : s < Z.of_nat (List.length l)).
    { destruct r as [|s' r'].
      - cbn [split_from] in Hrest. inversion Hrest as [|? ? Hq _]; subst.
        assert (L2 : (List.length (slice l s (Z.of_nat (List.length l))) <> 0)%nat)
          by (destruct (slice l s (Z.of_nat (List.length l))); [congruence|simpl; lia]).
        rewrite slice_length, nidx_len, (nidx_nonneg l s) in L2 by lia. lia.
      - cbn [split_from] in Hrest. inversion Hrest as [|? ? Hq _]; subst.
        assert (L2 : (List.length (slice l s s') <> 0)%nat) by (destruct (slice l s s'); [congruence|simpl; lia]).
        rewrite slice_length, (nidx_nonneg l s) in L2 by lia. pose proof (nidx_le l s'). lia. }
    cbn [split_from lens map cumsum_z]. fold (lens (split_from l s r)).
    rewrite slice_length, (nidx_nonneg l start), (nidx_nonneg l s) by lia.
    replace (start + Z.of_nat (Z.to_nat (Z.min s (Z.of_nat (List.length l))) - Z.to_nat (Z.min start (Z.of_nat (List.length l))))) with s by lia.
    cbn [app]. f_equal. apply IH; [lia|assumption|assumption].
Qed.

Lemma list_eqb_refl_Z l : zlist_eqb l l = true.
Proof. unfold zlist_eqb. induction l as [|x l IH]; simpl; [reflexivity|]. rewrite Z.eqb_refl, IH. reflexivity. Qed.

Lemma arange_length n : List.length (arange n) = n.
Proof. unfold arange. rewrite map_length, seq_length. reflexivity. Qed.

Lemma split_from_nonnil {A} (l : list A) start seps : split_from l start seps <> [].
Proof. destruct seps; simpl; discriminate. Qed.

Lemma flatten3_length pts : List.length (flatten3 pts) = (3 * List.length pts)%nat.
Proof. induction pts as [|[[x y] z] pts IH]; [reflexivity|]. change (flatten3 ((x, y, z) :: pts)) with (x :: y :: z :: flatten3 pts). simpl List.length. rewrite IH. lia. Qed.

(** * contiguize accepts what to_schema exports *)
Lemma contiguize_export (n : nat) seps ms geom (elem : list string) :
  n <> 0%nat -> Forall (fun s => 0 <= s) seps -> Forall (fun p => p <> []) (np_split (arange n) seps) ->
  List.length geom = (3 * n)%nat ->
  len_is (Z.of_nat n) (s_mass_numbers ms) = true -> len_is (Z.of_nat n) (s_atomic_numbers ms) = true ->
  len_is (Z.of_nat n) (Some elem) = true -> len_is (Z.of_nat n) (s_masses ms) = true ->
  len_is (Z.of_nat n) (s_real ms) = true -> len_is (Z.of_nat n) (s_atom_labels ms) = true ->
  contiguize (np_split (arange n) seps) ms geom elem = Ok seps.
Proof.
  intros Hn Hnn Hne Lg L1 L2 L3 L4 L5 L6.
  pose proof (split_cumsum (arange n) seps 0 ltac:(rewrite arange_length; lia) Hnn Hne) as Hc.
  rewrite arange_length in Hc.
  pose proof (split_partition (arange n) seps Hne) as Hcat.
  unfold contiguize. unfold np_split in *.
  destruct (split_from (arange n) 0 seps) as [|f0 rest] eqn:Es; [exfalso; eapply split_from_nonnil; exact Es|].
  rewrite Hc. rewrite last_last, removelast_last.
  assert (R : rows3 geom = Ok (Z.of_nat n)).
  { unfold rows3. rewrite Lg. replace (3 * n)%nat with (n * 3)%nat by lia.
    rewrite Nat.mod_mul, Nat.div_mul by lia. reflexivity. }
  destruct (is_nil seps && steps1 f0 && starts0 f0).
  - rewrite R. cbn [obind]. rewrite Z.eqb_refl. reflexivity.
  - rewrite Hcat, Nat2Z.id, list_eqb_refl_Z. cbn [negb]. rewrite R. cbn [obind]. rewrite Z.eqb_refl. cbn [negb].
    rewrite L1, L2, L3, L4, L5, L6. reflexivity.
Qed.

(** * from_arrays does not look at input_units_to_au / missing_enabled_return beyond the units stage and the empty guard *)
Definition as_schema_raw (np : bool) (m : molrec) (seps : list Z) : raw :=
  {| r_geom := m_geom m; r_elea := Some (map Some (m_elea m)); r_elez := Some (map Some (m_elez m));
     r_elem := Some (map Some (m_elem m)); r_mass := Some (map Some (m_mass m)); r_real := Some (map Some (m_real m));
     r_elbl := Some (map Some (m_elbl m)); r_units := "Bohr"; r_iutau := None;
     r_fix_com := Some (m_fix_com m); r_fix_orientation := Some (m_fix_orientation m); r_fix_symmetry := m_fix_symmetry m;
     r_seps := Some seps; r_fchg := Some (map Some (m_fchg m)); r_fmult := Some (map Some (m_fmult m));
     r_chg := Some (m_chg m); r_mult := Some (m_mult m); r_conn := m_conn m;
     r_speclabel := false; r_tooclose := fa_default_tooclose; r_zgf := fa_default_zero_ghost_fragments;
     r_nonphysical := np; r_mtol := fa_default_mtol;
     r_minimal := String.eqb fa_default_missing_enabled_return "minimal" |}.

Lemma from_arrays_schema_raw r m m' :
  schema_settings r -> m_units m = "Bohr"%string -> m_geom m <> [] ->
  from_arrays (as_raw r m) = Ok m' ->
  from_arrays (as_schema_raw (r_nonphysical r) m (m_seps m)) = Ok (forget_iutau m').
Proof.
  intros [St [Sz Sm]] Hu Hg H.
  destruct (from_arrays_stages _ _ H) as (pts & ros & frc & frm & cm & Stg).
  pose proof (st_rec _ _ _ _ _ _ _ Stg) as Em.
  destruct (frame_stage (as_raw r m)) as [[com ori] sym] eqn:Ef.
  rewrite Em. unfold forget_iutau. cbn [m_units m_iutau m_geom m_elea m_elez m_elem m_mass m_real m_elbl m_seps m_fchg m_fmult
                                         m_chg m_mult m_fix_com m_fix_orientation m_fix_symmetry m_conn fst snd].
  apply (from_arrays_intro _ (m_units m') None (m_conn m') pts ros (m_seps m') frc frm cm com ori sym).
  - unfold as_schema_raw; cbn [r_geom]. destruct (m_geom m); [congruence|reflexivity].
  - pose proof (st_units _ _ _ _ _ _ _ Stg) as U. unfold units_stage in *. unfold as_raw in U. unfold as_schema_raw.
    cbn [r_conn r_units r_iutau] in *. rewrite Hu in U.
    destruct (match m_conn m with None => Ok None | Some l => obind (mapM conn_entry l) (fun c => Ok (Some (sort_by conn_leb c))) end)
      as [conn|k]; [|discriminate]. cbn [obind] in *.
    change (capitalize "Bohr") with "Bohr"%string in *. cbn [String.eqb Ascii.eqb Bool.eqb orb] in *.
    destruct (m_iutau m) as [x|].
    + destruct (Qlt_b _ _); [|discriminate]. injection U as U1 U2 U3. rewrite <- U1, <- U3. reflexivity.
    + injection U as U1 U2 U3. rewrite <- U1, <- U3. reflexivity.
  - pose proof (st_geom _ _ _ _ _ _ _ Stg) as G. unfold geometry_stage in *. unfold as_raw in G. unfold as_schema_raw.
    cbn [r_geom r_tooclose] in *. rewrite St in G. exact G.
  - pose proof (st_nuc _ _ _ _ _ _ _ Stg) as N. unfold nuclei_stage in *. unfold as_raw in N. unfold as_schema_raw.
    cbn [r_elea r_elez r_elem r_mass r_real r_elbl r_speclabel r_nonphysical r_mtol] in *. rewrite Sm in N. exact N.
  - pose proof (st_frag _ _ _ _ _ _ _ Stg) as F. unfold fragments_stage in *. unfold as_raw in F. unfold as_schema_raw.
    cbn [r_seps r_fchg r_fmult] in *.
    assert (Es : m_seps m' = m_seps m).
    { destruct (fragments_stage_ok (as_raw r m) _ _ _ _ (st_frag _ _ _ _ _ _ _ Stg)) as (_ & _ & _ & _ & Hs). apply Hs. reflexivity. }
    rewrite Es in F. rewrite Es. exact F.
  - pose proof (st_cm _ _ _ _ _ _ _ Stg) as C. unfold cm_input in *. unfold as_raw in C. unfold as_schema_raw.
    cbn [r_chg r_mult r_zgf] in *. rewrite Sz in C. exact C.
  - unfold frame_stage in *. unfold as_raw in Ef. unfold as_schema_raw. cbn [r_fix_com r_fix_orientation r_fix_symmetry] in *. exact Ef.
Qed.

Lemma equiv_forget a b : molrec_equiv a b -> molrec_equiv (forget_iutau a) (forget_iutau b).
Proof. intros [? ? ? ? ? ? ? ? ? ? ? ? ? ? ? ? ? ?]. constructor; cbn; auto. Qed.

Lemma select_v1 mol : select_mol {| d_name := Some "qcschema_input"%string; d_version := Some 1; d_top := no_mol; d_nested := Some mol |} = Ok mol.
Proof. reflexivity. Qed.
Lemma select_v2 mol : select_mol {| d_name := Some "qcschema_molecule"%string; d_version := Some 2; d_top := mol; d_nested := None |} = Ok mol.
Proof. reflexivity. Qed.

Lemma from_schema_of_export np m conv n :
  m_units m = "Bohr"%string -> List.length (m_geom m) = (3 * n)%nat -> n <> 0%nat ->
  List.length (m_elea m) = n -> List.length (m_elez m) = n -> List.length (m_elem m) = n -> List.length (m_mass m) = n ->
  List.length (m_real m) = n -> List.length (m_elbl m) = n ->
  Forall (fun s => 0 <= s) (m_seps m) -> Forall (fun p => p <> []) (np_split (arange n) (m_seps m)) ->
  forall d, (d = {| d_name := Some "qcschema_input"%string; d_version := Some 1; d_top := no_mol; d_nested := Some (export_mol m Bohr conv) |} \/
             d = {| d_name := Some "qcschema_molecule"%string; d_version := Some 2; d_top := export_mol m Bohr conv; d_nested := None |}) ->
  from_schema_full np d = from_arrays (as_schema_raw np m (m_seps m)).
Proof.
  intros Hu Lg Hn L1 L2 L3 L4 L5 L6 Hnn Hne d Hd.
  assert (Sel : select_mol d = Ok (export_mol m Bohr conv)) by (destruct Hd as [-> | ->]; [apply select_v1|apply select_v2]).
  unfold from_schema_full. rewrite Sel. cbn [obind].
  assert (Eg : geom_scale (lunit_of (m_units m)) Bohr (m_iutau m) conv (m_geom m) = m_geom m) by (rewrite Hu; reflexivity).
  unfold export_mol. rewrite Eg.
  cbn [s_fragments s_geometry s_symbols req obind s_mass_numbers s_atomic_numbers s_masses s_real s_atom_labels s_fix_com
       s_fix_orientation s_fix_symmetry s_fragment_charges s_fragment_multiplicities s_molecular_charge s_molecular_multiplicity
       s_connectivity somes option_map].
  assert (En : (List.length (m_geom m) / 3)%nat = n) by (rewrite Lg; replace (3 * n)%nat with (n * 3)%nat by lia; apply Nat.div_mul; lia).
  rewrite En.
  rewrite (contiguize_export n (m_seps m) _ (m_geom m) (m_elem m) Hn Hnn Hne Lg);
    try (cbn [len_is s_mass_numbers s_atomic_numbers s_masses s_real s_atom_labels]; apply Z.eqb_eq; congruence).
  reflexivity.
Qed.

(** * The round trip *)
Theorem schema_roundtrip_full r m dtype conv :
  from_arrays r = Ok m -> schema_settings r -> m_units m = "Bohr"%string -> m_geom m <> [] ->
  Forall (fun s => 0 <= s) (m_seps m) -> dtype = 1 \/ dtype = 2 ->
  exists d m', to_schema_full m dtype Bohr conv = Ok d /\ from_schema_full (r_nonphysical r) d = Ok m' /\
               molrec_equiv m' (forget_iutau m).
Proof.
  intros H Hset Hu Hg Hnn Hd.
  destruct (accepted_invariants _ _ H) as (pts & ros & ats & W).
  destruct (wf_geom _ _ _ _ _ W) as (_ & _ & Lg).
  destruct (wf_cols _ _ _ _ _ W) as (C1 & C2 & C3 & C4 & C5 & C6 & Lr).
  destruct (wf_frag _ _ _ _ _ W) as (_ & Hne).
  assert (Hn : List.length pts <> 0%nat) by (intro E; rewrite E in Lg; destruct (m_geom m); [congruence|discriminate]).
  specialize (Hne Hn).
  assert (Hne' : Forall (fun p => p <> []) (np_split (arange (List.length pts)) (m_seps m))).
  { apply (split_nonempty_transfer (seq 0 (List.length pts))); [|exact Hne]. rewrite arange_length, seq_length. reflexivity. }
  destruct Hset as [St [Sz Sm]].
  assert (T0 : (0 <= r_mtol r)%Q) by (rewrite Sm; vm_compute; discriminate).
  assert (T4 : (r_mtol r <= 1 # 4)%Q) by (rewrite Sm; vm_compute; discriminate).
  destruct (idempotent _ _ H T0 T4) as (m0 & H0 & Q0).
  pose proof (from_arrays_schema_raw r m m0 (conj St (conj Sz Sm)) Hu Hg H0) as H1.
  set (mol := export_mol m Bohr conv).
  exists (if dtype =? 1 then {| d_name := Some "qcschema_input"%string; d_version := Some 1; d_top := no_mol; d_nested := Some mol |}
          else {| d_name := Some "qcschema_molecule"%string; d_version := Some 2; d_top := mol; d_nested := None |}).
  exists (forget_iutau m0). split; [|split].
  - destruct Hd as [-> | ->]; reflexivity.
  - rewrite (from_schema_of_export (r_nonphysical r) m conv (List.length pts) Hu Lg Hn); try assumption;
      try (rewrite ?C1, ?C2, ?C3, ?C4, ?C5, ?C6, map_length; exact Lr).
    destruct Hd as [-> | ->]; [left|right]; reflexivity.
  - apply equiv_forget, Q0.
Qed.

(** the second translation exports the same dictionary (masses up to equality of rationals) *)
Definition smol_equiv (a b : schema_mol) : Prop :=
  s_symbols a = s_symbols b /\ s_geometry a = s_geometry b /\
  match s_masses a, s_masses b with Some x, Some y => Forall2 Qeq x y | None, None => True | _, _ => False end /\
  s_atomic_numbers a = s_atomic_numbers b /\ s_mass_numbers a = s_mass_numbers b /\ s_atom_labels a = s_atom_labels b /\
  s_real a = s_real b /\ s_fragments a = s_fragments b /\ s_fragment_charges a = s_fragment_charges b /\
  s_fragment_multiplicities a = s_fragment_multiplicities b /\ s_molecular_charge a = s_molecular_charge b /\
  s_molecular_multiplicity a = s_molecular_multiplicity b /\ s_fix_com a = s_fix_com b /\
  s_fix_orientation a = s_fix_orientation b /\ s_fix_symmetry a = s_fix_symmetry b /\ s_connectivity a = s_connectivity b /\
  s_validated a = s_validated b.

Lemma export_equiv a b conv : molrec_equiv a b -> m_units b = "Bohr"%string -> smol_equiv (export_mol a Bohr conv) (export_mol b Bohr conv).
Proof.
  intros [? ? ? ? ? ? ? ? ? ? ? ? ? ? ? ? ? ?] Hu.
  assert (Ea : geom_scale (lunit_of (m_units a)) Bohr (m_iutau a) conv (m_geom a) = m_geom a) by (rewrite e_units, Hu; reflexivity).
  assert (Eb : geom_scale (lunit_of (m_units b)) Bohr (m_iutau b) conv (m_geom b) = m_geom b) by (rewrite Hu; reflexivity).
  unfold smol_equiv, export_mol. rewrite Ea, Eb. cbn. repeat split; try congruence; try exact e_mass.
Qed.

Theorem schema_second_translation r m dtype conv d m' :
  from_arrays r = Ok m -> m_units m = "Bohr"%string -> dtype = 1 \/ dtype = 2 ->
  to_schema_full m dtype Bohr conv = Ok d -> molrec_equiv m' (forget_iutau m) ->
  exists d', to_schema_full m' dtype Bohr conv = Ok d' /\ d_name d' = d_name d /\ d_version d' = d_version d /\
             match d_nested d', d_nested d with
             | Some a, Some b => smol_equiv a b
             | None, None => smol_equiv (d_top d') (d_top d)
             | _, _ => False
             end.
Proof.
  intros _ Hu Hd Hs Q.
  assert (X : smol_equiv (export_mol m' Bohr conv) (export_mol m Bohr conv)).
  { pose proof (export_equiv m' (forget_iutau m) conv Q Hu) as X.
    assert (E : export_mol (forget_iutau m) Bohr conv = export_mol m Bohr conv) by (unfold export_mol, forget_iutau; cbn; rewrite Hu; reflexivity).
    rewrite E in X. exact X. }
  destruct Hd as [-> | ->]; cbv [to_schema_full to_schema_header Z.eqb qcschema_units_guard lunit_eqb negb] in Hs |- *;
    injection Hs as <-; eexists; (split; [reflexivity|]); cbn; auto.
Qed.

(** * Headers, units, key tables *)
Definition doc_mol (d : schema_doc) : schema_mol := match d_nested d with Some x => x | None => d_top d end.

Theorem header_recognised dtype name ver nested mol :
  to_schema_header dtype = Some (name, ver, nested) ->
  select_mol (match nested with
              | Some _ => {| d_name := Some name; d_version := Some ver; d_top := no_mol; d_nested := Some mol |}
              | None => {| d_name := Some name; d_version := Some ver; d_top := mol; d_nested := None |}
              end) = Ok mol.
Proof.
  unfold to_schema_header. destruct (dtype =? 1); [intro H; injection H as <- <- <-; reflexivity|].
  destruct (dtype =? 2); [intro H; injection H as <- <- <-; reflexivity|discriminate].
Qed.

Theorem to_schema_full_ok m dtype u conv d : to_schema_full m dtype u conv = Ok d ->
  u = Bohr /\ (dtype = 1 \/ dtype = 2) /\ doc_mol d = export_mol m Bohr conv /\
  s_geometry (doc_mol d) = Some (geom_scale (lunit_of (m_units m)) Bohr (m_iutau m) conv (m_geom m)).
Proof.
  unfold to_schema_full, to_schema_header.
  destruct (dtype =? 1) eqn:E1; [apply Z.eqb_eq in E1|destruct (dtype =? 2) eqn:E2; [apply Z.eqb_eq in E2|discriminate]];
    (destruct u; cbn [qcschema_units_guard lunit_eqb negb]; try discriminate; intro H; injection H as <-; cbn; auto).
Qed.

Theorem to_schema_refuses_other_units m dtype u conv : u <> Bohr -> exists k, to_schema_full m dtype u conv = Err k /\ k = Validation.
Proof.
  intro Hu. unfold to_schema_full. destruct (to_schema_header dtype) as [[[n v] k]|]; [|eauto].
  destruct u; [congruence| |]; cbn; eauto.
Qed.

Theorem from_schema_reads_bohr np d m' : from_schema_full np d = Ok m' -> m_units m' = "Bohr"%string /\ m_iutau m' = None.
Proof.
  unfold from_schema_full. intro H.
  do 5 (apply obind_ok in H; destruct H as [? [_ H]]).
  destruct (from_arrays_stages _ _ H) as (pts & ros & frc & frm & cm & Stg).
  pose proof (st_units _ _ _ _ _ _ _ Stg) as U. unfold units_stage in U. cbn [r_conn r_units r_iutau] in U.
  apply obind_ok in U. destruct U as [conn [_ U]].
  change (capitalize "Bohr") with "Bohr"%string in U. cbn [String.eqb Ascii.eqb Bool.eqb orb] in U.
  injection U as U1 U2 U3. auto.
Qed.

(** every molrec key that to_schema exports under schema key k is the from_arrays argument that from_schema fills from k *)
Definition exported_pairs : list (string * string) :=
  flat_map (fun f => match f with (sk, SRec mk, _) => [(mk, sk)] | _ => [] end) to_schema_fields.
Definition read_pairs : list (string * string) := map (fun r => let '(kw, sk, _, _) := r in (kw, sk)) from_schema_reads.
Definition pair_in (p : string * string) (l : list (string * string)) : bool :=
  existsb (fun q => String.eqb (fst p) (fst q) && String.eqb (snd p) (snd q)) l.

Lemma pair_in_In p l : pair_in p l = true -> In p l.
Proof.
  unfold pair_in. intro H. apply existsb_exists in H. destruct H as [q [Hq E]]. apply andb_true_iff in E. destruct E as [E1 E2].
  apply String.eqb_eq in E1. apply String.eqb_eq in E2. destruct p, q; simpl in *; subst; exact Hq.
Qed.

Theorem schema_keys_inverse : forall mk sk, In (mk, sk) exported_pairs -> In (mk, sk) read_pairs.
Proof.
  assert (H : forallb (fun p => pair_in p read_pairs) exported_pairs = true) by (vm_compute; reflexivity).
  intros mk sk Hin. apply pair_in_In. rewrite forallb_forall in H. apply H, Hin.
Qed.

(** ... the special sources are read back too, and from_schema reads nothing that to_schema does not write *)
Theorem schema_keys_complete :
  (forall sk s c, In (sk, s, c) to_schema_fields -> s <> SConstTrue -> exists kw rq ct, In (kw, sk, rq, ct) from_schema_reads) /\
  (forall kw sk rq ct, In (kw, sk, rq, ct) from_schema_reads -> exists s c, In (sk, s, c) to_schema_fields) /\
  (forall kw sk ct, In (kw, sk, true, ct) from_schema_reads -> exists s, In (sk, s, false) to_schema_fields).
Proof.
  assert (H1 : forallb (fun f => let '(sk, s, _) := f in match s with SConstTrue => true | _ => existsb (fun r => let '(_, sk', _, _) := r in String.eqb sk sk') from_schema_reads end) to_schema_fields = true) by (vm_compute; reflexivity).
  assert (H2 : forallb (fun r => let '(_, sk, _, _) := r in existsb (fun f => let '(sk', _, _) := f in String.eqb sk sk') to_schema_fields) from_schema_reads = true) by (vm_compute; reflexivity).
  assert (H3 : forallb (fun r => let '(_, sk, rq, _) := r in negb rq || existsb (fun f => let '(sk', _, c) := f in String.eqb sk sk' && negb c) to_schema_fields) from_schema_reads = true) by (vm_compute; reflexivity).
  rewrite forallb_forall in H1, H2, H3. split; [|split].
  - intros sk s c Hin Hs. specialize (H1 _ Hin). cbv beta iota in H1. destruct s; try congruence;
      (apply existsb_exists in H1; destruct H1 as [[[[kw sk'] rq] ct] [Hr E]]; apply String.eqb_eq in E; subst sk'; eauto).
  - intros kw sk rq ct Hin. specialize (H2 _ Hin). cbv beta iota in H2. apply existsb_exists in H2. destruct H2 as [[[sk' s] c] [Hf E]].
    apply String.eqb_eq in E; subst sk'; eauto.
  - intros kw sk ct Hin. specialize (H3 _ Hin). cbv beta iota delta [negb orb] in H3. apply existsb_exists in H3. destruct H3 as [[[sk' s] c] [Hf E]].
    apply andb_true_iff in E. destruct E as [E1 E2]. apply String.eqb_eq in E1; subst sk'. destruct c; [discriminate|]. eauto.
Qed.

(** * Negative separators (numpy accepts them as Python slice indices) are not reproduced: finding C09-negative-separators *)
Definition he3_negative_sep : raw :=
  {| r_geom := [0; 0; 0; 0; 0; 3; 0; 0; 6]%Q; r_elea := None; r_elez := None;
     r_elem := Some [Some "He"; Some "He"; Some "He"]%string; r_mass := None; r_real := None; r_elbl := None;
     r_units := "Bohr"; r_iutau := None; r_fix_com := None; r_fix_orientation := None; r_fix_symmetry := None;
     r_seps := Some [-1]; r_fchg := None; r_fmult := None; r_chg := None; r_mult := None; r_conn := None;
     r_speclabel := true; r_tooclose := fa_default_tooclose; r_zgf := fa_default_zero_ghost_fragments; r_nonphysical := false;
     r_mtol := fa_default_mtol; r_minimal := false |}.

Theorem roundtrip_negative_separators_refuted :
  exists r m d m', from_arrays r = Ok m /\ schema_settings r /\ m_units m = "Bohr"%string /\ m_geom m <> [] /\
    to_schema_full m 2 Bohr 1 = Ok d /\ from_schema_full (r_nonphysical r) d = Ok m' /\
    m_seps m = [-1] /\ m_seps m' = [2] /\ s_fragments (doc_mol d) = Some [[0; 1]; [2]].
Proof.
  exists he3_negative_sep. eexists. eexists. eexists.
  split; [vm_compute; reflexivity|].
  split; [repeat split|].
  split; [reflexivity|].
  split; [discriminate|].
  split; [vm_compute; reflexivity|].
  split; [vm_compute; reflexivity|].
  split; [reflexivity|]. split; reflexivity.
Qed.
