(** C14 — _step4 (prime uncovered zeros, cover rows / uncover columns) preserves the Munkres invariant. *)
From Coq Require Import ZArith List Bool Arith Lia.
Require Import QV.Common.Outcome QV.Model.Hungarian QV.Proofs.HungarianCert QV.Proofs.HungarianLib QV.Proofs.HungarianInv.
Import ListNotations.
Open Scope Z_scope.

Section Step4.
Variables (C0 : mat) (n m : nat).
Hypothesis Hn : (0 < n)%nat.

Lemma base_transfer u v s s' : base C0 n m u v s -> hC s' = hC s -> rect (marked s') n m ->
  length (rowunc s') = n -> length (colunc s') = m ->
  (forall i j, star s' i j <-> star s i j) -> base C0 n m u v s'.
Proof.
  intros B EC HM Lr Lc St. destruct B.
  constructor; auto; try (rewrite EC; auto).
  - intros i j H. apply b_star0. apply St; auto.
  - intros i j j' H H'. apply (b_row1 i j j'); apply St; auto.
  - intros i i' j H H'. apply (b_col1 i i' j); apply St; auto.
  - intros j Hj Hns. apply b_vmax; auto. intros i Hi. apply (Hns i). apply St; auto.
Qed.

Definition covinv (C : mat) (cov : bmat) (ru cu : list bool) : Prop :=
  brect cov n m /\ forall i j, (i < n)%nat -> (j < m)%nat ->
                    bmget cov i j = (mget C i j =? 0) && bget ru i && bget cu j.

(* the state after priming (row, col) *)
Definition primed (s : hstate) (row col : nat) : hstate :=
  {| hC := hC s; rowunc := rowunc s; colunc := colunc s; marked := mset (marked s) row col 2;
     z0r := z0r s; z0c := z0c s |}.

Section Prime.
Variables (u v : nat -> Z) (s : hstate) (row col : nat).
Hypothesis I : inv4 C0 n m u v s.
Hypothesis Hrow : (row < n)%nat.
Hypothesis Hcol : (col < m)%nat.
Hypothesis Hz : mget (hC s) row col = 0.
Hypothesis Hru : bget (rowunc s) row = true.
Hypothesis Hcu : bget (colunc s) col = true.

Let B := i4_base C0 n m u v s I.

Lemma primed_V i j : mget (marked (primed s row col)) i j =
  if (Nat.eqb row i && Nat.eqb col j) then 2 else mget (marked s) i j.
Proof. simpl. apply (mget_mset (marked s) n m); auto. apply (b_shM C0 n m u v s B). Qed.

Lemma old_not_star : ~ star s row col.
Proof.
  intro H. pose proof (i4_sc C0 n m u v s I row col H Hcu). congruence.
Qed.

Lemma old_not_prime_row j : ~ prime s row j.
Proof. intro H. pose proof (i4_prow C0 n m u v s I row j H). congruence. Qed.

Lemma primed_star i j : star (primed s row col) i j <-> star s i j.
Proof.
  unfold star. rewrite primed_V.
  destruct (Nat.eqb_spec row i) as [e|e]; destruct (Nat.eqb_spec col j) as [e'|e']; simpl; try tauto.
  subst i j. split; intro H; try discriminate. exfalso. apply old_not_star. exact H.
Qed.

Lemma primed_prime i j : prime (primed s row col) i j <-> (i = row /\ j = col) \/ prime s i j.
Proof.
  unfold prime. rewrite primed_V.
  destruct (Nat.eqb_spec row i) as [e|e]; destruct (Nat.eqb_spec col j) as [e'|e']; simpl; split; intros; auto;
    try tauto; try (destruct H as [[? ?]|?]; auto; congruence).
Qed.

Lemma primed_base s' : hC s' = hC s -> marked s' = marked (primed s row col) ->
  length (rowunc s') = n -> length (colunc s') = m -> base C0 n m u v s'.
Proof.
  intros EC EM Lr Lc. apply (base_transfer u v s s'); auto.
  - rewrite EM. simpl. apply mset_rect. apply (b_shM C0 n m u v s B).
  - intros i j. unfold star at 1. rewrite EM. apply primed_star.
Qed.

(** no star in the row: go to _step5 *)
Lemma primed_inv5 :
  (forall j, ~ star (primed s row col) row j) ->
  inv5 C0 n m u v {| hC := hC s; rowunc := rowunc s; colunc := colunc s; marked := marked (primed s row col);
                     z0r := row; z0c := col |}.
Proof.
  intros NS.
  set (s5 := {| hC := hC s; rowunc := rowunc s; colunc := colunc s; marked := marked (primed s row col);
                z0r := row; z0c := col |}).
  assert (St : forall i j, star s5 i j <-> star s i j) by (intros; apply primed_star).
  assert (Pr : forall i j, prime s5 i j <-> (i = row /\ j = col) \/ prime s i j) by (intros; apply primed_prime).
  assert (B5 : base C0 n m u v s5).
  { apply primed_base; auto. apply (b_ru C0 n m u v s B). apply (b_cu C0 n m u v s B). }
  assert (Cov : forall r c r', prime s5 r c -> star s5 r' c -> (r' < n)%nat /\ bget (rowunc s) r' = false).
  { intros r c r' P S. apply St in S. apply Pr in P.
    assert (bget (colunc s) c = true).
    { destruct P as [[? ?]|P]; subst; auto. apply (i4_pcol C0 n m u v s I r c P). }
    split. apply (star_range C0 n m Hn u v s r' c B S). apply (i4_sc C0 n m u v s I r' c S H). }
  constructor.
  - exact B5.
  - simpl. apply Pr. auto.
  - simpl. intros j H. apply (NS j). exact H.
  - intros i j P. apply Pr in P. destruct P as [[? ?]|P]; subst; auto. apply (i4_p0 C0 n m u v s I i j P).
  - intros i j j' P P'. apply Pr in P. apply Pr in P'.
    destruct P as [[? ?]|P]; destruct P' as [[? ?]|P']; subst; auto.
    + exfalso. apply (old_not_prime_row j'). auto.
    + exfalso. apply (old_not_prime_row j). auto.
    + apply (i4_p1 C0 n m u v s I i j j' P P').
  - intros r c r' P S. destruct (Cov r c r' P S) as [Hr' Er'].
    destruct (i4_rcov C0 n m u v s I r' Hr' Er') as [j [j' [_ [_ P']]]].
    exists j'. apply Pr. auto.
  - destruct (i4_rank C0 n m u v s I) as [rank [K [RK RP]]].
    exists (fun i => if Nat.eqb i row then K else rank i).
    intros r c r' P S. destruct (Cov r c r' P S) as [Hr' Er'].
    assert (r' <> row) by (intro; subst; congruence).
    destruct (Nat.eqb_spec r' row); try contradiction.
    apply Pr in P. apply St in S. destruct P as [[? ?]|P]; subst.
    + rewrite Nat.eqb_refl. apply RK; auto.
    + assert (r <> row). { intro; subst. apply (old_not_prime_row c). auto. }
      destruct (Nat.eqb_spec r row); try contradiction. apply (RP r c r' P S).
Qed.

(** a star at (row, sc): cover the row, uncover column sc, stay in _step4 *)
Lemma primed_inv4 sc : star (primed s row col) row sc ->
  inv4 C0 n m u v {| hC := hC s; rowunc := upd (rowunc s) row false; colunc := upd (colunc s) sc true;
                     marked := marked (primed s row col); z0r := z0r s; z0c := z0c s |}.
Proof.
  intros S0.
  set (s2 := {| hC := hC s; rowunc := upd (rowunc s) row false; colunc := upd (colunc s) sc true;
                marked := marked (primed s row col); z0r := z0r s; z0c := z0c s |}).
  assert (St : forall i j, star s2 i j <-> star s i j) by (intros; apply primed_star).
  assert (Pr : forall i j, prime s2 i j <-> (i = row /\ j = col) \/ prime s i j) by (intros; apply primed_prime).
  pose proof (b_ru C0 n m u v s B) as Lr. pose proof (b_cu C0 n m u v s B) as Lc.
  assert (B2 : base C0 n m u v s2).
  { apply primed_base; auto; simpl; rewrite upd_length; auto. }
  apply primed_star in S0.
  destruct (star_range C0 n m Hn u v s row sc B S0) as [_ Hsc].
  assert (Rv : forall i, bget (rowunc s2) i = if Nat.eqb row i then false else bget (rowunc s) i).
  { intros. simpl. rewrite bget_upd. assert ((row <? length (rowunc s))%nat = true) by (apply Nat.ltb_lt; lia).
    rewrite H, andb_true_r. reflexivity. }
  assert (Cv : forall j, bget (colunc s2) j = if Nat.eqb sc j then true else bget (colunc s) j).
  { intros. simpl. rewrite bget_upd. assert ((sc <? length (colunc s))%nat = true) by (apply Nat.ltb_lt; lia).
    rewrite H, andb_true_r. reflexivity. }
  constructor.
  - exact B2.
  - intros j Hj H. rewrite Cv in H. destruct (Nat.eqb_spec sc j); try discriminate.
    destruct (i4_cu C0 n m u v s I j Hj H) as [i Hi]. exists i. apply St. auto.
  - intros i j S Hc. apply St in S. rewrite Rv. rewrite Cv in Hc.
    destruct (Nat.eqb_spec row i); auto.
    destruct (Nat.eqb_spec sc j).
    + subst j. exfalso. apply n0. apply (b_col1 C0 n m u v s B row i sc); auto.
    + apply (i4_sc C0 n m u v s I i j S Hc).
  - intros i Hi H. rewrite Rv in H. destruct (Nat.eqb_spec row i).
    + subst i. exists sc, col. split. apply St; auto. split. rewrite Cv, Nat.eqb_refl; auto. apply Pr; auto.
    + destruct (i4_rcov C0 n m u v s I i Hi H) as [j [j' [S [Ec P]]]].
      exists j, j'. split. apply St; auto. split. rewrite Cv, Ec. destruct (Nat.eqb sc j); auto. apply Pr; auto.
  - intros i j P. apply Pr in P. destruct P as [[E1 E2]|P]; [subst i j; auto|]. apply (i4_p0 C0 n m u v s I i j P).
  - intros i j P. apply Pr in P. rewrite Rv. destruct (Nat.eqb_spec row i); auto.
    destruct P as [[E1 E2]|P]; [subst i j; congruence|]. apply (i4_prow C0 n m u v s I i j P).
  - intros i j P. apply Pr in P. rewrite Cv. destruct (Nat.eqb_spec sc j); auto.
    destruct P as [[E1 E2]|P]; [subst i j; auto|]. apply (i4_pcol C0 n m u v s I i j P).
  - intros i j j' P P'. apply Pr in P. apply Pr in P'.
    destruct P as [[E1 E2]|P]; destruct P' as [[E3 E4]|P'].
    + subst j j'. auto.
    + subst i j. exfalso. apply (old_not_prime_row j'). auto.
    + subst i j'. exfalso. apply (old_not_prime_row j). auto.
    + apply (i4_p1 C0 n m u v s I i j j' P P').
  - destruct (i4_rank C0 n m u v s I) as [rank [K [RK RP]]].
    exists (fun i => if Nat.eqb i row then K else rank i), (S K).
    split.
    + intros i Hi H. rewrite Rv in H. destruct (Nat.eqb_spec i row). lia.
      destruct (Nat.eqb_spec row i); try congruence. pose proof (RK i Hi H). lia.
    + intros r c r' P S. apply St in S. apply Pr in P.
      assert (Ec : bget (colunc s) c = true).
      { destruct P as [[E1 E2]|P]; [subst r c; auto|]. apply (i4_pcol C0 n m u v s I r c P). }
      pose proof (i4_sc C0 n m u v s I r' c S Ec) as Er'.
      destruct (star_range C0 n m Hn u v s r' c B S) as [Hr' _].
      assert (r' <> row) by (intro E0; rewrite E0 in Er'; congruence).
      destruct (Nat.eqb_spec r' row); try contradiction.
      destruct P as [[E1 E2]|P].
      * subst r c. rewrite Nat.eqb_refl. apply RK; auto.
      * assert (r <> row). { intro E0. subst r. apply (old_not_prime_row c). auto. }
        destruct (Nat.eqb_spec r row); try contradiction. apply (RP r c r' P S).
Qed.

End Prime.

Lemma covinv_update C cov ru cu row sc :
  covinv C cov ru cu -> (row < n)%nat -> (sc < m)%nat -> length ru = n -> length cu = m ->
  covinv C (upd (mapi (fun i r => upd r sc ((mget C i sc =? 0) && bget (upd ru row false) i)) cov) row (repeat false m))
         (upd ru row false) (upd cu sc true).
Proof.
  intros [[L1 L2] V] Hrow Hsc Lr Lc. split.
  - split. rewrite upd_length, mapi_length; auto.
    apply Forall_forall. intros r Hr. apply (In_nth _ _ []) in Hr. destruct Hr as [k [Hk E]].
    rewrite upd_length, mapi_length in Hk. rewrite nth_upd in E.
    destruct (Nat.eqb row k && _)%bool.
    + subst r. apply repeat_length.
    + subst r. rewrite (nth_mapi _ cov k [] []) by auto. rewrite upd_length.
      rewrite Forall_forall in L2. apply L2. apply nth_In; auto.
  - intros i j Hi Hj. unfold bmget. rewrite nth_upd.
    rewrite mapi_length.
    assert (X : (row <? length cov)%nat = true) by (apply Nat.ltb_lt; lia). rewrite X, andb_true_r.
    rewrite !bget_upd.
    assert (X1 : (row <? length ru)%nat = true) by (apply Nat.ltb_lt; lia).
    assert (X2 : (sc <? length cu)%nat = true) by (apply Nat.ltb_lt; lia).
    rewrite X1, X2, !andb_true_r.
    destruct (Nat.eqb_spec row i).
    + subst i. rewrite andb_false_r. simpl.
      assert (forall k, nth k (repeat false m) false = false).
      { intro k. destruct (Nat.ltb_spec k m). apply nth_repeat. apply nth_overflow. rewrite repeat_length. auto. }
      apply H.
    + rewrite (nth_mapi _ cov i [] []) by lia. rewrite nth_upd.
      assert (length (nth i cov []) = m).
      { rewrite Forall_forall in L2. apply L2. apply nth_In; lia. }
      rewrite H. assert (X3 : (sc <? m)%nat = true) by (apply Nat.ltb_lt; lia). rewrite X3, andb_true_r.
      destruct (Nat.eqb_spec sc j).
      * subst j. rewrite bget_upd, X1. destruct (Nat.eqb_spec row i); try contradiction. simpl.
        rewrite andb_true_r. reflexivity.
      * fold (bmget cov i j). rewrite V; auto.
Qed.

Lemma step4_loop_spec u v C : forall fuel cov s k' s',
  hC s = C -> inv4 C0 n m u v s -> covinv C cov (rowunc s) (colunc s) ->
  step4_loop fuel C n m cov s = Ok (k', s') ->
  (k' = S6 /\ inv4 C0 n m u v s') \/ (k' = S5 /\ inv5 C0 n m u v s').
Proof.
  induction fuel; simpl; intros cov s k' s' EC I CV H; try discriminate.
  destruct (find_first cov) as [[row col]|] eqn:F.
  2:{ inversion H; subst. left; auto. }
  apply find_first_Some in F.
  destruct CV as [CR CVv].
  destruct (bmget_true_bounds cov n m row col CR F) as [Hrow Hcol].
  rewrite (CVv row col Hrow Hcol) in F.
  apply andb_true_iff in F. destruct F as [F Hcu]. apply andb_true_iff in F. destruct F as [Hz Hru].
  apply Z.eqb_eq in Hz. rewrite <- EC in Hz.
  pose proof (i4_base C0 n m u v s I) as B.
  change (mset (marked s) row col 2) with (marked (primed s row col)) in H.
  destruct (first_idx (fun x => x =? 1) (nth row (marked (primed s row col)) [])) as [sc|] eqn:FI.
  - apply (first_idx_Some _ 0) in FI. destruct FI as [Lsc Esc]. apply Z.eqb_eq in Esc.
    assert (S0 : star (primed s row col) row sc) by exact Esc.
    pose proof (primed_inv4 u v s row col I Hrow Hcol Hz Hru Hcu sc S0) as I2.
    assert (S1 : star s row sc) by (apply (primed_star u v s row col I Hrow Hcol Hru Hcu); auto).
    destruct (star_range C0 n m Hn u v s row sc B S1) as [_ Hsc].
    eapply IHfuel; [ | exact I2 | | exact H]; simpl; auto.
    apply covinv_update; auto; try (split; assumption);
      try apply (b_ru C0 n m u v s B); try apply (b_cu C0 n m u v s B).
  - inversion H; subst. right. split; auto.
    apply (primed_inv5 u v s row col I Hrow Hcol Hz Hru Hcu).
    intros j S. destruct (star_range C0 n m Hn u v s row j B) as [_ Hj].
    { apply (primed_star u v s row col I Hrow Hcol Hru Hcu). exact S. }
    pose proof (first_idx_None _ _ FI (nth j (nth row (marked (primed s row col)) []) 0)) as X.
    unfold star, mget in S. rewrite S in X. simpl in X.
    assert (false = true -> False) by discriminate. apply H0. symmetry. apply X.
    rewrite <- S. apply nth_In.
    rewrite (rect_nth_length _ n m row); auto. simpl. apply mset_rect. apply (b_shM C0 n m u v s B).
Qed.

Lemma step4_spec u v s k' s' : inv4 C0 n m u v s -> step4 s = Ok (k', s') ->
  (k' = S6 /\ inv4 C0 n m u v s') \/ (k' = S5 /\ inv5 C0 n m u v s').
Proof.
  intros I H. unfold step4 in H. pose proof (i4_base C0 n m u v s I) as B.
  rewrite (rect_nrows _ n m (b_shC C0 n m u v s B)), (rect_ncols _ n m (b_shC C0 n m u v s B) Hn) in H.
  eapply (step4_loop_spec u v (hC s)); [reflexivity | exact I | | exact H].
  split. apply bmtab_rect. intros. apply bmget_bmtab; auto.
Qed.

End Step4.
