(** C14 — termination: the driver loop of the model stops within the default fuel, so [lsa] is total
    on rectangular integer matrices (together with partial correctness: total correctness). *)
From Coq Require Import ZArith List Bool Arith Lia Permutation Sorted.
Require Import QV.Common.Outcome QV.Model.Hungarian QV.Proofs.HungarianCert QV.Proofs.HungarianLib
  QV.Proofs.HungarianInv QV.Proofs.HungarianStep4 QV.Proofs.HungarianStep5 QV.Proofs.HungarianFinal
  QV.Proofs.HungarianTotal.
Import ListNotations.
Open Scope Z_scope.

(** * Counting *)
Lemma length_filter_flat_map {A B} (p : B -> bool) (f : A -> list B) : forall l,
  length (filter p (flat_map f l)) = list_sum (map (fun x => length (filter p (f x))) l).
Proof.
  induction l; simpl; auto. rewrite filter_app, app_length, IHl. reflexivity.
Qed.

Lemma length_filter_map {A B} (p : B -> bool) (g : A -> B) : forall l,
  length (filter p (map g l)) = length (filter (fun x => p (g x)) l).
Proof. induction l; simpl; auto. destruct (p (g a)); simpl; rewrite IHl; reflexivity. Qed.

Lemma map_nth_seq {A} (d : A) : forall l, map (fun j => nth j l d) (seq 0 (length l)) = l.
Proof.
  induction l; simpl; auto. f_equal. rewrite <- seq_shift, map_map. exact IHl.
Qed.

Lemma count_stars_sum : forall mk, count_stars mk = list_sum (map (fun r => length (filter (fun x => x =? 1) r)) mk).
Proof. induction mk; simpl; auto. Qed.

Definition nstars (mk : mat) : nat := length (nonzero1 mk).

Lemma count_stars_nstars mk n m : rect mk n m -> (0 < n)%nat -> count_stars mk = nstars mk.
Proof.
  intros HR Hn. unfold nstars, nonzero1, positions.
  rewrite (rect_nrows mk n m HR), (rect_ncols mk n m HR Hn).
  rewrite length_filter_flat_map. rewrite count_stars_sum.
  rewrite <- (map_nth_seq [] mk) at 1. rewrite (proj1 HR). rewrite map_map.
  f_equal. apply map_ext_in. intros i Hi. apply in_seq in Hi.
  rewrite length_filter_map. simpl.
  assert (L : length (nth i mk []) = m) by (apply (rect_nth_length mk n m); auto; lia).
  rewrite <- (map_nth_seq 0 (nth i mk [])) at 1. rewrite L. rewrite length_filter_map. reflexivity.
Qed.

Lemma forallb_false_ex {A} (p : A -> bool) : forall l, forallb p l = false -> exists x, In x l /\ p x = false.
Proof.
  induction l; simpl; intros; try discriminate.
  destruct (p a) eqn:E. destruct (IHl H) as [x [X Y]]. exists x; auto. exists a; auto.
Qed.

Lemma missing_elem (l : list nat) n : NoDup l -> (length l < n)%nat -> exists i, (i < n)%nat /\ ~ In i l.
Proof.
  intros ND L. destruct (forallb (fun i => memb i l) (seq 0 n)) eqn:E.
  - exfalso. rewrite forallb_forall in E.
    assert (incl (seq 0 n) l) by (intros x Hx; apply memb_In; apply E; auto).
    pose proof (NoDup_incl_length (seq_NoDup n 0) H). rewrite seq_length in H0. lia.
  - destruct (forallb_false_ex _ _ E) as [i [Hi X]]. apply in_seq in Hi. exists i. split. lia.
    intro Y. apply memb_In in Y. congruence.
Qed.

Lemma NoDup_app_intro {A} (l1 l2 : list A) : NoDup l1 -> NoDup l2 -> (forall x, In x l1 -> ~ In x l2) -> NoDup (l1 ++ l2).
Proof.
  induction 1; simpl; intros; auto. constructor.
  - intro Hin. apply in_app_or in Hin. destruct Hin; auto. apply (H2 x); auto.
  - apply IHNoDup; auto.
Qed.

Lemma nonzero1_ext M M' n m : rect M n m -> rect M' n m -> (0 < n)%nat ->
  (forall i j, mget M' i j = 1 <-> mget M i j = 1) -> nonzero1 M' = nonzero1 M.
Proof.
  intros HR HR' Hn E. unfold nonzero1.
  rewrite (rect_nrows M n m HR), (rect_ncols M n m HR Hn), (rect_nrows M' n m HR'), (rect_ncols M' n m HR' Hn).
  apply filter_ext. intros [i j]. simpl.
  destruct (Z.eqb_spec (mget M' i j) 1); destruct (Z.eqb_spec (mget M i j) 1); auto.
  - apply E in e. contradiction.
  - apply E in e. contradiction.
Qed.

Section Term.
Variables (C0 : mat) (n m : nat).
Hypothesis Hn : (0 < n)%nat.
Hypothesis Hnm : (n <= m)%nat.

(** ** pigeonholes *)
Lemma unstarred_row u v s : base C0 n m u v s -> (nstars (marked s) < n)%nat ->
  exists i, (i < n)%nat /\ forall j, ~ star s i j.
Proof.
  intros B L. pose proof (b_shM C0 n m u v s B) as HM.
  destruct (missing_elem (map fst (nonzero1 (marked s))) n) as [i [Hi Ni]].
  - apply sorted_lt_NoDup. apply (nonzero1_rows_sorted (marked s) n m HM Hn). apply (b_row1 C0 n m u v s B).
  - rewrite map_length. exact L.
  - exists i. split; auto. intros j S. apply Ni. apply in_map_iff. exists (i, j). split; auto.
    apply (in_nonzero1 (marked s) n m HM Hn). destruct (star_range C0 n m Hn u v s i j B S). tauto.
Qed.

Lemma unstarred_col u v s : base C0 n m u v s -> (nstars (marked s) < n)%nat ->
  exists j, (j < m)%nat /\ forall i, ~ star s i j.
Proof.
  intros B L. pose proof (b_shM C0 n m u v s B) as HM.
  destruct (missing_elem (map snd (nonzero1 (marked s))) m) as [j [Hj Nj]].
  - apply (nonzero1_cols_nodup (marked s) n m HM Hn). apply (b_col1 C0 n m u v s B).
  - rewrite map_length. unfold nstars in L. lia.
  - exists j. split; auto. intros i S. apply Nj. apply in_map_iff. exists (i, j). split; auto.
    apply (in_nonzero1 (marked s) n m HM Hn). destruct (star_range C0 n m Hn u v s i j B S). tauto.
Qed.

(** ** the measure *)
Definition cov0 (s : hstate) : bmat :=
  bmtab n m (fun i j => (mget (hC s) i j =? 0) && bget (rowunc s) i && bget (colunc s) j).
Definition hasz (s : hstate) : bool := match find_first (cov0 s) with None => false | Some _ => true end.

Definition P : nat := (2 * n + 4)%nat.
Definition phi (k : hstep) (s : hstate) : nat :=
  let ns := nstars (marked s) in
  let c := count_unc (rowunc s) in
  match k with
  | S1 => n * P + 2
  | S3 => (n - ns) * P + 1
  | S4 => (n - 1 - ns) * P + 2 + 2 * c + (if hasz s then 0 else 2)
  | S6 => (n - 1 - ns) * P + 2 + 2 * c + 1
  | S5 => (n - 1 - ns) * P + 2
  | Done => 0
  end%nat.

Definition good2 (k : hstep) (s : hstate) : Prop :=
  good C0 n m k s /\ match k with S4 | S5 | S6 => (nstars (marked s) < n)%nat | _ => True end.

(** ** _step4 *)
Lemma step4_loop_meas u v C : forall fuel cov s k' s',
  hC s = C -> inv4 C0 n m u v s -> covinv n m C cov (rowunc s) (colunc s) ->
  step4_loop fuel C n m cov s = Ok (k', s') ->
  nonzero1 (marked s') = nonzero1 (marked s)
  /\ (count_unc (rowunc s') <= count_unc (rowunc s))%nat
  /\ (find_first cov = None -> s' = s /\ k' = S6)
  /\ (find_first cov <> None -> (1 <= count_unc (rowunc s))%nat
                                /\ (k' = S6 -> (count_unc (rowunc s') < count_unc (rowunc s))%nat)).
Proof.
  induction fuel; simpl; intros cov s k' s' EC I CV H; try discriminate.
  destruct (find_first cov) as [[row col]|] eqn:F.
  2:{ inversion H; subst. split; [reflexivity|]. split; [lia|]. split; [auto|]. intros X; congruence. }
  pose proof F as F0.
  apply find_first_Some in F.
  destruct CV as [CR CVv].
  destruct (bmget_true_bounds cov n m row col CR F) as [Hrow Hcol].
  rewrite (CVv row col Hrow Hcol) in F.
  apply andb_true_iff in F. destruct F as [F Hcu]. apply andb_true_iff in F. destruct F as [Hz Hru].
  apply Z.eqb_eq in Hz. rewrite <- EC in Hz.
  pose proof (i4_base C0 n m u v s I) as B.
  pose proof (b_shM C0 n m u v s B) as HM.
  assert (NZ : nonzero1 (marked (primed s row col)) = nonzero1 (marked s)).
  { apply (nonzero1_ext (marked s) (marked (primed s row col)) n m); auto.
    simpl. apply mset_rect; auto.
    intros i j. apply (primed_star C0 n m u v s row col I Hrow Hcol Hru Hcu i j). }
  pose proof (count_unc_upd (rowunc s) row Hru) as CU.
  change (mset (marked s) row col 2) with (marked (primed s row col)) in H.
  destruct (first_idx (fun x => x =? 1) (nth row (marked (primed s row col)) [])) as [sc|] eqn:FI.
  - apply (first_idx_Some _ 0) in FI. destruct FI as [Lsc Esc]. apply Z.eqb_eq in Esc.
    assert (S0 : star (primed s row col) row sc) by exact Esc.
    pose proof (primed_inv4 C0 n m Hn u v s row col I Hrow Hcol Hz Hru Hcu sc S0) as I2.
    assert (S1 : star s row sc) by (apply (primed_star C0 n m u v s row col I Hrow Hcol Hru Hcu); auto).
    destruct (star_range C0 n m Hn u v s row sc B S1) as [_ Hsc].
    assert (CV2 : covinv n m C
              (upd (mapi (fun i r => upd r sc ((mget C i sc =? 0) && bget (upd (rowunc s) row false) i)) cov) row (repeat false m))
              (upd (rowunc s) row false) (upd (colunc s) sc true)).
    { apply covinv_update; auto; try (split; assumption);
        try apply (b_ru C0 n m u v s B); try apply (b_cu C0 n m u v s B). }
    destruct (IHfuel _ {| hC := hC s; rowunc := upd (rowunc s) row false; colunc := upd (colunc s) sc true;
                          marked := marked (primed s row col); z0r := z0r s; z0c := z0c s |} k' s' EC I2 CV2 H) as [A1 [A2 _]].
    simpl in A1, A2. split. rewrite A1. exact NZ. split. lia. split. intros X; discriminate.
    intros _. split; lia.
  - inversion H; subst. simpl. split. exact NZ. split. lia. split. intros X; discriminate.
    intros _. split. lia. intros X; discriminate.
Qed.

Lemma step4_meas u v s k' s' : inv4 C0 n m u v s -> step4 s = Ok (k', s') ->
  nstars (marked s') = nstars (marked s)
  /\ (hasz s = false -> s' = s /\ k' = S6)
  /\ (hasz s = true -> (1 <= count_unc (rowunc s))%nat
                       /\ (k' = S6 -> (count_unc (rowunc s') < count_unc (rowunc s))%nat)).
Proof.
  intros I H. unfold step4 in H. pose proof (i4_base C0 n m u v s I) as B.
  rewrite (rect_nrows _ n m (b_shC C0 n m u v s B)), (rect_ncols _ n m (b_shC C0 n m u v s B) Hn) in H.
  fold (cov0 s) in H.
  assert (CV : covinv n m (hC s) (cov0 s) (rowunc s) (colunc s)).
  { split. apply bmtab_rect. intros. unfold cov0. apply bmget_bmtab; auto. }
  destruct (step4_loop_meas u v (hC s) (S n) (cov0 s) s k' s' eq_refl I CV H) as [A1 [A2 [A3 A4]]].
  unfold nstars. rewrite A1. split; auto. unfold hasz. destruct (find_first (cov0 s)) eqn:E.
  - split. discriminate. intros _. apply A4. discriminate.
  - split. intros _. apply A3; auto. discriminate.
Qed.

(** ** _step6 creates an uncovered zero *)
Lemma uncovered_vals_in C ru cu x : rect C n m -> In x (uncovered_vals C ru cu) ->
  exists i j, (i < n)%nat /\ (j < m)%nat /\ bget ru i = true /\ bget cu j = true /\ x = mget C i j.
Proof.
  intros HR Hx. unfold uncovered_vals in Hx.
  rewrite (rect_nrows C n m HR), (rect_ncols C n m HR Hn) in Hx.
  apply in_flat_map in Hx. destruct Hx as [[i j] [Hp Hx]]. apply in_positions in Hp.
  destruct (bget ru i) eqn:E1; destruct (bget cu j) eqn:E2; simpl in Hx; try contradiction.
  destruct Hx as [Hx|[]]. exists i, j. repeat split; auto; tauto.
Qed.

Lemma existsb_bget l i : bget l i = true -> existsb (fun b : bool => b) l = true.
Proof.
  intros H. apply existsb_exists. exists true. split; auto.
  unfold bget in H. rewrite <- H. apply nth_In.
  destruct (Nat.ltb_spec i (length l)); auto. rewrite nth_overflow in H; auto. discriminate.
Qed.

Lemma step6_hasz u v s : inv4 C0 n m u v s -> (nstars (marked s) < n)%nat -> hasz (snd (step6 s)) = true.
Proof.
  intros I L. pose proof (i4_base C0 n m u v s I) as B.
  destruct (unstarred_row u v s B L) as [i0 [Hi0 Ni0]].
  destruct (unstarred_col u v s B L) as [j0 [Hj0 Nj0]].
  assert (Ri : bget (rowunc s) i0 = true).
  { destruct (bget (rowunc s) i0) eqn:E; auto.
    destruct (i4_rcov C0 n m u v s I i0 Hi0 E) as [j [_ [S _]]]. exfalso. apply (Ni0 j S). }
  assert (Cj : bget (colunc s) j0 = true).
  { destruct (bget (colunc s) j0) eqn:E; auto.
    destruct (i4_cu C0 n m u v s I j0 Hj0 E) as [i S]. exfalso. apply (Nj0 i S). }
  unfold step6.
  rewrite (rect_nrows _ n m (b_shC C0 n m u v s B)), (rect_ncols _ n m (b_shC C0 n m u v s B) Hn).
  rewrite (existsb_bget _ _ Ri), (existsb_bget _ _ Cj). simpl.
  set (mv := lmin (uncovered_vals (hC s) (rowunc s) (colunc s))).
  assert (NE : uncovered_vals (hC s) (rowunc s) (colunc s) <> []).
  { intro E. pose proof (in_uncovered_vals n m Hn (hC s) (rowunc s) (colunc s) i0 j0 (b_shC C0 n m u v s B) Hi0 Hj0 Ri Cj) as X.
    rewrite E in X. contradiction. }
  destruct (uncovered_vals_in _ _ _ mv (b_shC C0 n m u v s B) (lmin_in _ NE)) as [i [j [Hi [Hj [Ei [Ej Ev]]]]]].
  unfold hasz.
  destruct (find_first (cov0 _)) eqn:F; auto.
  exfalso. pose proof (find_first_None _ F i j) as X. unfold cov0 in X. simpl in X.
  rewrite bmget_bmtab in X by auto. rewrite mget_tab in X by auto. rewrite Ei, Ej in X.
  rewrite <- Ev in X. replace (mv + 0 - mv) with 0 in X by lia. simpl in X. discriminate.
Qed.

Lemma step6_same s : rowunc (snd (step6 s)) = rowunc s /\ marked (snd (step6 s)) = marked s.
Proof. unfold step6. destruct (_ && _); simpl; auto. Qed.

(** ** _step5 adds exactly one star *)
Lemma step5_nstars u v s k' s' : inv5 C0 n m u v s -> step5 s = Ok (k', s') ->
  nstars (marked s') = S (nstars (marked s)).
Proof.
  intros I H. unfold step5 in H.
  pose proof (i5_base C0 n m u v s I) as B.
  rewrite (rect_nrows _ n m (b_shC C0 n m u v s B)), (rect_ncols _ n m (b_shC C0 n m u v s B) Hn) in H.
  destruct (build_path (S (n + m)) (marked s) n m 0 (z0c s) [(z0r s, z0c s)]) as [racc|e] eqn:BP; try discriminate.
  inversion H; subst. clear H.
  destruct (i5_rank C0 n m u v s I) as [rank RP].
  destruct (build_path_spec C0 n m Hn u v s I rank RP _ _ _ _ _ _ (pathinv_init C0 n m u v s I rank) BP)
    as [r' [c' [Q NS]]].
  pose proof (flip_star C0 n m Hn u v s I rank racc r' c' Q) as Star'.
  pose proof (flip_marked_rect C0 n m Hn u v s I rank racc r' c' Q) as TR.
  pose proof (b_shM C0 n m u v s B) as HM.
  change (nstars (marked (flipped n m s racc)) = S (nstars (marked s))).
  set (F := filter (fun p => negb (if in_dec pair_dec p racc then true else false)) (nonzero1 (marked s))).
  assert (InF : forall p, In p F <-> In p (nonzero1 (marked s)) /\ ~ In p racc).
  { intros p. unfold F. rewrite filter_In. destruct (in_dec pair_dec p racc); simpl; split; intros [X Y]; split; auto;
      try discriminate; try contradiction. }
  assert (NDo : NoDup (nonzero1 (marked s))) by (apply SS_lex_NoDup; apply nonzero1_sorted).
  assert (NDF : NoDup F) by (apply NoDup_filter; auto).
  assert (P1 : Permutation (nonzero1 (marked (flipped n m s racc))) (filter (isprime (marked s)) racc ++ F)).
  { apply NoDup_Permutation.
    - apply SS_lex_NoDup. apply nonzero1_sorted.
    - apply NoDup_app_intro; auto. apply NoDup_filter. apply (q_nodup _ _ _ _ _ Q).
      intros x Hx Hx'. apply filter_In in Hx. apply InF in Hx'. tauto.
    - intros [i j]. rewrite (in_nonzero1 _ n m TR Hn). rewrite in_app_iff, filter_In, InF.
      rewrite (in_nonzero1 _ n m HM Hn). unfold isprime. simpl. rewrite Z.eqb_eq.
      split.
      + intros [Hi [Hj S]]. apply Star' in S. destruct S as [[X Y]|[X Y]]; [left|right]; auto.
      + intros [[X Y]|[[Hi [Hj Y]] X]].
        * destruct (prime_range C0 n m Hn u v s i j B Y). repeat split; auto. apply Star'. left; auto.
        * repeat split; auto. apply Star'. right; auto. }
  assert (P2 : Permutation (nonzero1 (marked s)) (filter (isstar (marked s)) racc ++ F)).
  { apply NoDup_Permutation; auto.
    - apply NoDup_app_intro; auto. apply NoDup_filter. apply (q_nodup _ _ _ _ _ Q).
      intros x Hx Hx'. apply filter_In in Hx. apply InF in Hx'. tauto.
    - intros [i j]. rewrite in_app_iff, filter_In, InF.
      rewrite (in_nonzero1 _ n m HM Hn). unfold isstar. simpl. rewrite Z.eqb_eq.
      split.
      + intros [Hi [Hj S]]. destruct (in_dec pair_dec (i, j) racc); [left|right]; auto.
      + intros [[X Y]|[[Hi [Hj Y]] X]]; auto.
        destruct (star_range C0 n m Hn u v s i j B Y). auto. }
  unfold nstars. rewrite (Permutation_length P1), (Permutation_length P2), !app_length.
  rewrite (q_cnt _ _ _ _ _ Q). reflexivity.
Qed.

(** ** every step decreases the measure *)
Lemma phi_step k s k' s' : k <> Done -> good2 k s -> step k s = Ok (k', s') -> good2 k' s' /\ (phi k' s' < phi k s)%nat.
Proof.
  intros ND [G L] H.
  pose proof (step_good C0 n m k s k' s' Hn G H) as G'.
  destruct k; simpl in H.
  - (* S1 *) inversion H. destruct (step1_phase3 C0 n m Hn s G) as [u [v [P3 E]]]. rewrite H1 in E. simpl in E. subst k'.
    split. split; auto. unfold phi. assert ((n - nstars (marked s')) * P <= n * P)%nat by (apply Nat.mul_le_mono_r; lia). lia.
  - (* S3 *) destruct G as [u [v P3]]. inversion H.
    pose proof (p3_base C0 n m u v s P3) as B.
    assert (EM : marked s' = marked s).
    { replace s' with (snd (step3 s)) by (rewrite H1; reflexivity). unfold step3. destruct (_ <? _)%nat; reflexivity. }
    assert (ER : rowunc s' = rowunc s).
    { replace s' with (snd (step3 s)) by (rewrite H1; reflexivity). unfold step3. destruct (_ <? _)%nat; reflexivity. }
    assert (EK : k' = if (nstars (marked s) <? n)%nat then S4 else Done).
    { replace k' with (fst (step3 s)) by (rewrite H1; reflexivity). unfold step3.
      rewrite (rect_nrows _ n m (b_shC C0 n m u v s B)).
      rewrite (count_stars_nstars (marked s) n m (b_shM C0 n m u v s B) Hn).
      destruct (_ <? _)%nat; reflexivity. }
    destruct (nstars (marked s) <? n)%nat eqn:E; subst k'.
    + apply Nat.ltb_lt in E. split. split; auto. simpl. rewrite EM. exact E.
      unfold phi. rewrite EM, ER.
      pose proof (count_unc_le (rowunc s)). rewrite (b_ru C0 n m u v s B) in H0.
      replace (n - nstars (marked s))%nat with (S (n - 1 - nstars (marked s))) by lia.
      rewrite (Nat.mul_succ_l (n - 1 - nstars (marked s)) P). remember ((n - 1 - nstars (marked s)) * P)%nat as q. unfold P. destruct (hasz s'); lia.
    + split. split; auto. unfold phi. rewrite Nat.add_1_r. apply Nat.lt_0_succ.
  - (* S4 *) destruct G as [u [v I]].
    destruct (step4_meas u v s k' s' I H) as [A1 [A2 A3]].
    destruct (step4_spec C0 n m Hn u v s k' s' I H) as [[E _]|[E _]]; subst k'.
    + split. split; auto. simpl. rewrite A1. exact L.
      unfold phi. rewrite A1. destruct (hasz s) eqn:Z.
      * destruct (A3 eq_refl) as [_ X]. specialize (X eq_refl). lia.
      * destruct (A2 eq_refl) as [X _]. subst s'. lia.
    + split. split; auto. simpl. rewrite A1. exact L.
      unfold phi. rewrite A1. destruct (hasz s) eqn:Z.
      * destruct (A3 eq_refl) as [X _]. lia.
      * destruct (A2 eq_refl) as [_ X]. discriminate.
  - (* S5 *) destruct G as [u [v I]].
    pose proof (step5_nstars u v s k' s' I H) as A.
    destruct (step5_spec C0 n m u v s k' s' Hn I H) as [E _]. subst k'.
    split. split; auto. unfold phi. rewrite A.
    replace (n - S (nstars (marked s)))%nat with (n - 1 - nstars (marked s))%nat by lia. lia.
  - (* S6 *) destruct G as [u [v I]]. inversion H.
    destruct (step6_inv4 C0 n m Hn u v s I) as [E _]. rewrite H1 in E. simpl in E. subst k'.
    destruct (step6_same s) as [ER EM]. rewrite H1 in ER, EM. simpl in ER, EM.
    pose proof (step6_hasz u v s I L) as Z. rewrite H1 in Z. simpl in Z.
    split. split; auto. simpl. rewrite EM. exact L.
    unfold phi. rewrite EM, ER, Z. lia.
  - (* Done *) congruence.
Qed.

Lemma phi_pos k s : k <> Done -> (1 <= phi k s)%nat.
Proof.
  intros ND. destruct k; try congruence; unfold phi;
    match goal with |- context [(?a * P)%nat] => generalize (a * P)%nat; intro q end;
    try destruct (hasz s); lia.
Qed.

Lemma run_terminates : forall fuel k s, good2 k s -> (phi k s <= fuel)%nat -> exists s', run fuel k s = Ok s'.
Proof.
  induction fuel; intros k s G L.
  - destruct (hstep_eq_dec k Done) as [E|NE].
    + subst k. simpl. eauto.
    + pose proof (phi_pos k s NE). lia.
  - destruct (hstep_eq_dec k Done) as [E|NE].
    + subst k. rewrite run_Done. eauto.
    + rewrite (run_S fuel k s NE).
      destruct (step_total C0 n m Hn Hnm k s (proj1 G)) as [k' [s' E]]. rewrite E.
      destruct (phi_step k s k' s' NE G E) as [G' D].
      apply IHfuel; auto. lia.
Qed.

End Term.

Theorem lsa_total : forall C, rect C (nrows C) (ncols C) -> exists res, lsa C = Ok res.
Proof.
  intros C HR. unfold lsa, lsa_fuel.
  set (n0 := nrows C) in *. set (m0 := ncols C) in *.
  destruct (Nat.eqb n0 0 || Nat.eqb m0 0) eqn:Z0; [eauto|].
  apply orb_false_iff in Z0. destruct Z0 as [Zn Zm]. apply Nat.eqb_neq in Zn. apply Nat.eqb_neq in Zm.
  unfold default_fuel. fold n0 m0.
  destruct (m0 <? n0)%nat eqn:TR.
  - apply Nat.ltb_lt in TR.
    assert (RT : rect (transpose C) m0 n0) by (unfold transpose; apply tab_rect).
    destruct (run_terminates (transpose C) m0 n0 ltac:(lia) ltac:(lia) ((Nat.min n0 m0 + 2) * (2 * Nat.min n0 m0 + 8)) S1
                (init_state (transpose C))) as [s E].
    + split; auto. simpl. apply init_state_ok; auto. lia.
    + unfold phi, P. rewrite Nat.min_r by lia. lia.
    + rewrite E. eauto.
  - apply Nat.ltb_ge in TR.
    destruct (run_terminates C n0 m0 ltac:(lia) ltac:(lia) ((Nat.min n0 m0 + 2) * (2 * Nat.min n0 m0 + 8)) S1
                (init_state C)) as [s E].
    + split; auto. simpl. apply init_state_ok; auto. lia.
    + unfold phi, P. rewrite Nat.min_l by lia. lia.
    + rewrite E. eauto.
Qed.

(** total correctness *)
Theorem lsa_total_correct : forall C, rect C (nrows C) (ncols C) -> exists res, lsa C = Ok res /\ lsa_spec C res.
Proof.
  intros C HR. destruct (lsa_total C HR) as [res E]. exists res. split; auto.
  eapply lsa_fuel_correct; eauto.
Qed.
