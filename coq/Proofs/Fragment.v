(** C15 — proofs about Model/Fragment.v. *)
From Coq Require Import ZArith QArith List String Bool Arith Lia Permutation.
Require Import QV.Common.Outcome QV.Common.HFList QV.Model.ChgMult QV.Proofs.ChgMult QV.Model.Fragment.
Import ListNotations.
Open Scope Z_scope.

(** ---- consecutive blocks ---- *)
Lemma concat_blocks : forall sizes start, List.concat (blocks start sizes) = seq start (fold_right Nat.add 0%nat sizes).
Proof.
  induction sizes as [|s r IH]; intros start; simpl; [reflexivity|].
  rewrite IH, <- seq_app. reflexivity.
Qed.

Lemma length_concat {A} (ls : list (list A)) : List.length (List.concat ls) = fold_right Nat.add 0%nat (map (@List.length A) ls).
Proof. induction ls as [|l r IH]; simpl; [reflexivity|]. rewrite app_length, IH. reflexivity. Qed.

Lemma blocks_hold {A} (d : A) : forall (ls : list (list A)) (pre : list A),
  Forall2 (fun blk l => map (fun i => nth i (pre ++ List.concat ls) d) blk = l)
          (blocks (List.length pre) (map (@List.length A) ls)) ls.
Proof.
  induction ls as [|l r IH]; intros pre; simpl; constructor.
  - apply map_nth_seq_mid.
  - specialize (IH (pre ++ l)). rewrite app_length, <- app_assoc in IH. exact IH.
Qed.

Lemma flat_map_concat {A B} (f : A -> list B) l : flat_map f l = List.concat (map f l).
Proof. induction l; simpl; congruence. Qed.

(** ---- group_fragments=True ---- *)
Definition chosen_flags (real ghost : list nat) : list (nat * bool) :=
  map (fun f => (f, true)) real ++ map (fun f => (f, false)) ghost.

Lemma grouped_atoms_concat p real ghost :
  d_atoms (grouped p real ghost) = List.concat (map (fun e : nat * bool => frag_atoms p (snd e) (fst e)) (chosen_flags real ghost)).
Proof.
  unfold grouped, chosen_flags. simpl. rewrite map_app, concat_app, !map_map, !flat_map_concat. reflexivity.
Qed.

Lemma grouped_sizes p real ghost :
  map (fun f => List.length (frag_at p f)) (real ++ ghost)
  = map (@List.length atom) (map (fun e : nat * bool => frag_atoms p (snd e) (fst e)) (chosen_flags real ghost)).
Proof.
  unfold chosen_flags. rewrite !map_app, !map_map. f_equal; apply map_ext; intros f; unfold frag_atoms; simpl; rewrite map_length; reflexivity.
Qed.

(** The grouped sub-molecule: the atoms are the chosen fragments' atoms, real fragments first in the order given,
    flagged real / ghost by selection; the k-th fragment is a consecutive block holding exactly the atoms of the
    k-th chosen fragment; real fragments keep (charge, multiplicity), ghost fragments are (0, 1); the totals are
    the sum / high-spin sum over the real fragments. *)
Theorem grouped_conserves p real ghost d :
  get_fragment p real ghost true = Ok d ->
  d_atoms d = flat_map (frag_atoms p true) real ++ flat_map (frag_atoms p false) ghost
  /\ Forall2 (fun blk (e : nat * bool) => map (fun i => nth i (d_atoms d) dflt_atom) blk = frag_atoms p (snd e) (fst e))
             (d_frags d) (chosen_flags real ghost)
  /\ List.concat (d_frags d) = seq 0 (List.length (d_atoms d))
  /\ d_fc d = map (fc_at p) real ++ map (fun _ => 0) ghost
  /\ d_fm d = map (fm_at p) real ++ map (fun _ => 1) ghost
  /\ d_cm d = Some (zsum (map (fc_at p) real), 1 + zsum (map (fun f => fm_at p f - 1) real)).
Proof.
  unfold get_fragment. destruct (overlap real ghost); [discriminate|].
  destruct (forallb _ _); [|discriminate].
  destruct (d_atoms (grouped p real ghost)) eqn:E; [discriminate|]. intros H. injection H as <-.
  split; [reflexivity|]. split; [|split; [|split; [reflexivity|split; [reflexivity|]]]].
  - rewrite grouped_atoms_concat. unfold grouped at 1. cbn [d_frags]. rewrite grouped_sizes.
    pose proof (blocks_hold dflt_atom (map (fun e : nat * bool => frag_atoms p (snd e) (fst e)) (chosen_flags real ghost)) []) as B.
    simpl in B. clear E.
    set (ls := map (fun e : nat * bool => frag_atoms p (snd e) (fst e)) (chosen_flags real ghost)) in *.
    assert (G : forall (xs : list (list nat)) (es : list (nat * bool)),
               Forall2 (fun blk l => map (fun i => nth i (List.concat ls) dflt_atom) blk = l) xs
                       (map (fun e : nat * bool => frag_atoms p (snd e) (fst e)) es) ->
               Forall2 (fun blk (e : nat * bool) => map (fun i => nth i (List.concat ls) dflt_atom) blk = frag_atoms p (snd e) (fst e)) xs es).
    { intros xs es. revert xs. induction es as [|e es IH]; intros xs F; simpl in F; inversion F; subst; constructor; auto. }
    apply G. exact B.
  - unfold grouped at 1. cbn [d_frags]. rewrite concat_blocks. f_equal.
    rewrite grouped_atoms_concat, length_concat, grouped_sizes. reflexivity.
  - unfold grouped. cbn [d_cm]. rewrite hss_spec, map_map. reflexivity.
Qed.

(** ---- group_fragments=False: the at2fr / at2at remap ---- *)
Lemma at2fr_from_absent : forall frs s iat acc, ~ In iat (List.concat frs) -> at2fr_from s frs iat acc = acc.
Proof.
  induction frs as [|fr r IH]; intros s iat acc H; simpl; [reflexivity|].
  simpl in H. rewrite in_app_iff in H.
  assert (M : memb iat fr = false).
  { unfold memb. apply not_true_is_false. intros E. apply existsb_exists in E. destruct E as (x & Hx & Ex).
    apply Nat.eqb_eq in Ex. subst x. tauto. }
  rewrite M. apply IH. tauto.
Qed.

Lemma memb_In x l : memb x l = true <-> In x l.
Proof.
  unfold memb. rewrite existsb_exists. split.
  - intros (y & Hy & E). apply Nat.eqb_eq in E. subst. exact Hy.
  - intros H. exists x. split; [exact H|apply Nat.eqb_refl].
Qed.

Lemma at2fr_from_owner : forall frs s iat acc k,
  NoDup (List.concat frs) -> In iat (nth k frs []) -> at2fr_from s frs iat acc = Some (s + k)%nat.
Proof.
  induction frs as [|fr r IH]; intros s iat acc k ND H; [destruct k; contradiction|].
  simpl in ND. simpl. destruct k as [|k]; simpl in H.
  - assert (M : memb iat fr = true) by (apply memb_In; exact H). rewrite M.
    rewrite at2fr_from_absent; [f_equal; lia|].
    apply (NoDup_app_disj fr (List.concat r) iat ND H).
  - rewrite (IH (S s) iat _ k); [f_equal; lia| |exact H]. apply NoDup_app_r in ND. exact ND.
Qed.

Definition disjoint_frags (p : pmol) : Prop := NoDup (List.concat (p_frags p)).

Lemma at2fr_owner p iat k : disjoint_frags p -> In iat (frag_at p k) -> at2fr p iat = Some k.
Proof. intros D H. unfold at2fr. rewrite (at2fr_from_owner _ 0%nat iat None k D H). reflexivity. Qed.

(** every kept atom lands at position at2at in the new atom list, flagged by its fragment's selection *)
Theorem ungrouped_remap p real ghost iat :
  (iat < List.length (p_atoms p))%nat -> sel p real ghost iat = true ->
  nth (at2at p real ghost iat) (d_atoms (ungrouped p real ghost)) dflt_atom = set_real (sel_real p real iat) (atom_at p iat).
Proof.
  intros L S. unfold ungrouped, at2at. cbn [d_atoms].
  pose proof (filter_pos (sel p real ghost) (fun j => set_real (sel_real p real j) (atom_at p j)) dflt_atom
                         (List.length (p_atoms p)) 0%nat iat ltac:(lia) ltac:(lia) S) as F.
  rewrite Nat.sub_0_r in F. exact F.
Qed.

Definition chosen_list (p : pmol) (real ghost : list nat) : list nat :=
  filter (chosen real ghost) (seq 0 (List.length (p_frags p))).

Lemma ungrouped_frags p real ghost :
  d_frags (ungrouped p real ghost) = map (fun k => map (at2at p real ghost) (frag_at p k)) (chosen_list p real ghost).
Proof.
  unfold ungrouped, chosen_list, enumerate, frag_at. cbn [d_frags].
  rewrite (flat_map_enum (chosen real ghost) (fun k fr => map (at2at p real ghost) fr) []).
  apply map_ext. intros k. rewrite Nat.sub_0_r. reflexivity.
Qed.

Lemma ungrouped_fc p real ghost : overlap real ghost = false ->
  d_fc (ungrouped p real ghost) = map (fun k => if memb k real then fc_at p k else 0) (chosen_list p real ghost)
  /\ d_fm (ungrouped p real ghost) = map (fun k => if memb k real then fm_at p k else 1) (chosen_list p real ghost).
Proof.
  intros _. unfold ungrouped, chosen_list, enumerate. cbn [d_fc d_fm].
  assert (G : forall (X : nat -> Z) (dz : Z) (l : list (list nat)) i,
             flat_map (fun e : nat * list nat => if memb (fst e) real then [X (fst e)] else if memb (fst e) ghost then [dz] else []) (enum_from i l)
             = map (fun k => if memb k real then X k else dz) (filter (chosen real ghost) (seq i (List.length l)))).
  { intros X dz. induction l as [|x l IH]; intros i; simpl; [reflexivity|]. rewrite IH. unfold chosen.
    destruct (memb i real) eqn:R; simpl; [rewrite R; reflexivity|]. destruct (memb i ghost) eqn:G; simpl; [rewrite R|]; reflexivity. }
  split; apply G.
Qed.

(** The order-preserving sub-molecule: the atoms are the parent's atoms whose fragment is chosen, in the parent's
    order, flagged by selection; the chosen fragments appear in the parent's order and each new index list points
    at exactly the atoms of the parent's fragment; real fragments keep (charge, multiplicity), ghost ones are (0, 1);
    no totals are handed to the constructor. *)
Theorem ungrouped_conserves p real ghost d :
  disjoint_frags p -> (forall i, In i (List.concat (p_frags p)) -> (i < List.length (p_atoms p))%nat) ->
  get_fragment p real ghost false = Ok d ->
  d_atoms d = flat_map (fun iat => if sel p real ghost iat then [set_real (sel_real p real iat) (atom_at p iat)] else [])
                       (seq 0 (List.length (p_atoms p)))
  /\ Forall2 (fun idx k => map (fun i => nth i (d_atoms d) dflt_atom) idx = frag_atoms p (memb k real) k)
             (d_frags d) (chosen_list p real ghost)
  /\ d_fc d = map (fun k => if memb k real then fc_at p k else 0) (chosen_list p real ghost)
  /\ d_fm d = map (fun k => if memb k real then fm_at p k else 1) (chosen_list p real ghost)
  /\ d_cm d = None.
Proof.
  intros D R. unfold get_fragment. destruct (overlap real ghost) eqn:O; [discriminate|].
  destruct (d_atoms (ungrouped p real ghost)) eqn:E; [discriminate|]. intros H. injection H as <-. clear E.
  split; [reflexivity|]. destruct (ungrouped_fc p real ghost O) as [F1 F2].
  split; [|split; [exact F1|split; [exact F2|reflexivity]]].
  rewrite ungrouped_frags.
  assert (G : forall ks, (forall k, In k ks -> chosen real ghost k = true /\ (k < List.length (p_frags p))%nat) ->
             Forall2 (fun idx k => map (fun i => nth i (d_atoms (ungrouped p real ghost)) dflt_atom) idx = frag_atoms p (memb k real) k)
                     (map (fun k => map (at2at p real ghost) (frag_at p k)) ks) ks).
  { induction ks as [|k ks IH]; intros Hk; simpl; constructor.
    - destruct (Hk k (or_introl eq_refl)) as [Ck Lk]. unfold frag_atoms. rewrite map_map.
      apply map_ext_in. intros iat Hi.
      assert (O2 : at2fr p iat = Some k) by (apply at2fr_owner; assumption).
      assert (Li : (iat < List.length (p_atoms p))%nat).
      { apply R. unfold frag_at in Hi. apply in_concat. exists (nth k (p_frags p) []). split; [apply nth_In; exact Lk|exact Hi]. }
      rewrite ungrouped_remap; [|exact Li|unfold sel; rewrite O2; exact Ck].
      unfold sel_real. rewrite O2. reflexivity.
    - apply IH. intros k' Hk'. apply Hk. right; exact Hk'. }
  apply G. intros k Hk. unfold chosen_list in Hk. apply filter_In in Hk. destruct Hk as [Hs Hc]. apply in_seq in Hs. split; [exact Hc|lia].
Qed.

(** ---- the constructor's charge / multiplicity validation (C05 model) ---- *)
Lemma kept_all_some (v w : list Z) : List.length w = List.length v -> kept (map Some v) w -> w = v.
Proof.
  revert w. induction v as [|x v IH]; intros [|y w] L K; simpl in L; try discriminate; [reflexivity|].
  f_equal.
  - specialize (K 0%nat x eq_refl). simpl in K. congruence.
  - apply IH; [lia|]. intros k s H. apply (K (S k) s). exact H.
Qed.

Definition lengths_ok (d : cdict) : Prop :=
  List.length (d_fc d) = List.length (d_frags d) /\ List.length (d_fm d) = List.length (d_frags d).

Lemma cm_of_wf d : lengths_ok d -> wf_in (cm_of d).
Proof. intros [A B]. unfold wf_in, cm_of. simpl. rewrite !map_length. split; assumption. Qed.

(** What the validated sub-molecule carries: the atoms and fragments handed to the constructor, the fragment
    charges / multiplicities unchanged, total charge = their sum, handed totals kept, otherwise the high-spin
    multiplicity; fragments made only of ghost atoms are neutral singlets. *)
Theorem sub_molecule_bookkeeping p real ghost group q :
  sub_molecule p real ghost group = Ok q ->
  exists d, get_fragment p real ghost group = Ok d
    /\ (lengths_ok d ->
        p_atoms q = d_atoms d /\ p_frags q = d_frags d /\ p_fc q = d_fc d /\ p_fm q = d_fm d
        /\ p_c q = zsum (p_fc q)
        /\ match d_cm d with
           | Some (c, m) => p_c q = c /\ p_m q = m
           | None => p_m q = 1 + zsum (map (fun m => m - 1) (p_fm q))
           end
        /\ (forall k fr c m, nth_error (d_frags d) k = Some fr -> nth_error (p_fc q) k = Some c -> nth_error (p_fm q) k = Some m ->
              forallb (fun i => zeff (nth i (d_atoms d) dflt_atom) =? 0) fr = true -> c = 0 /\ m = 1)).
Proof.
  unfold sub_molecule. destruct (get_fragment p real ghost group) as [d|k] eqn:G; simpl; [|discriminate].
  destruct (contiguous d); simpl; [|discriminate].
  destruct (fill (cm_of d)) as [r|k] eqn:F; simpl; [|discriminate].
  intros H. injection H as <-. exists d. split; [reflexivity|]. intros L. cbn [p_atoms p_frags p_fc p_fm p_c p_m].
  pose proof (fill_sound (cm_of d) r (cm_of_wf d L) F) as S.
  assert (A : adjust (cm_of d) = cm_of d) by reflexivity. rewrite A in S.
  destruct S as [S1 S2 S3 S4 S5 S6 S7 S8 S9 S10 S11 S12].
  destruct L as [L1 L2].
  assert (E1 : ofc r = d_fc d).
  { apply kept_all_some; [|exact S8]. rewrite S1. unfold cm_of; simpl. rewrite map_length. lia. }
  assert (E2 : ofm r = d_fm d).
  { apply kept_all_some; [|exact S10]. rewrite S2. unfold cm_of; simpl. rewrite map_length. lia. }
  split; [reflexivity|]. split; [reflexivity|]. split; [exact E1|]. split; [exact E2|]. split; [exact S3|].
  split.
  - destruct (d_cm d) as [[c m]|] eqn:C.
    + split; [apply S7|apply S9]; unfold cm_of; simpl; rewrite C; reflexivity.
    + apply S12. unfold fully_specified_mult, cm_of; simpl. rewrite C. simpl. intros [X _]. apply X. reflexivity.
  - intros k fr c m Hf Hc Hm Hz. apply (S11 k c m); try assumption.
    unfold ghosts, cm_of; simpl. rewrite map_map. rewrite nth_error_map, Hf. simpl. f_equal.
    unfold is_ghost. clear -Hz. induction fr as [|i fr IH]; simpl in *; [reflexivity|].
    apply andb_true_iff in Hz. destruct Hz as [H1 H2]. rewrite H1. simpl. apply IH. exact H2.
Qed.

(** ---- electrons ---- *)
Lemma enum_indicator_zero (a : nat) : forall (l : list atom) s, (a < s)%nat ->
  zsum (map (fun e : nat * atom => if Nat.eqb (fst e) a then zeff (snd e) else 0) (enum_from s l)) = 0.
Proof.
  induction l as [|y l IH]; intros s Hs; simpl; [reflexivity|].
  destruct (Nat.eqb s a) eqn:E; [apply Nat.eqb_eq in E; lia|]. rewrite IH by lia. reflexivity.
Qed.

Lemma enum_indicator (atoms : list atom) : forall s a, (s <= a)%nat -> (a < s + List.length atoms)%nat ->
  zsum (map (fun e : nat * atom => if Nat.eqb (fst e) a then zeff (snd e) else 0) (enum_from s atoms)) = zeff (nth (a - s) atoms dflt_atom).
Proof.
  induction atoms as [|x l IH]; intros s a H1 H2; simpl in *; [lia|].
  destruct (Nat.eqb s a) eqn:E.
  - apply Nat.eqb_eq in E. subst. rewrite Nat.sub_diag.
    rewrite enum_indicator_zero by lia.
    lia.
  - apply Nat.eqb_neq in E. rewrite IH by lia. replace (a - s)%nat with (S (a - S s)) by lia. reflexivity.
Qed.

Lemma enum_indicator0 (atoms : list atom) a : (a < List.length atoms)%nat ->
  zsum (map (fun e : nat * atom => if Nat.eqb (fst e) a then zeff (snd e) else 0) (enumerate atoms)) = zeff (nth a atoms dflt_atom).
Proof. intros H. unfold enumerate. rewrite enum_indicator by lia. rewrite Nat.sub_0_r. reflexivity. Qed.

Lemma membership_sum (atoms : list atom) (fr : list nat) :
  NoDup fr -> (forall i, In i fr -> (i < List.length atoms)%nat) ->
  zsum (map (fun e : nat * atom => if memb (fst e) fr then zeff (snd e) else 0) (enumerate atoms))
  = zsum (map (fun i => zeff (nth i atoms dflt_atom)) fr).
Proof.
  induction fr as [|a fr IH]; intros ND R.
  - simpl. apply (zsum_map_zero (enumerate atoms)).
  - inversion ND; subst. simpl.
    rewrite <- IH; [|assumption|intros i Hi; apply R; right; exact Hi].
    rewrite <- (enum_indicator0 atoms a) by (apply R; left; reflexivity).
    rewrite <- zsum_map_add. unfold ChgMult.zsum. f_equal.
    apply map_ext. intros [i x]. simpl.
    destruct (Nat.eqb i a) eqn:E; simpl.
    + apply Nat.eqb_eq in E. subst.
      assert (M : memb a fr = false). { apply not_true_is_false. intros M. apply memb_In in M. contradiction. }
      rewrite M. lia.
    + destruct (memb i fr); lia.
Qed.

Definition partition_ok (p : pmol) : Prop :=
  Permutation (List.concat (p_frags p)) (seq 0 (List.length (p_atoms p))).

Lemma partition_disjoint p : partition_ok p -> disjoint_frags p.
Proof. intros P. unfold disjoint_frags. apply (Permutation_NoDup (Permutation_sym P)). apply seq_NoDup. Qed.

Lemma partition_range p i : partition_ok p -> In i (List.concat (p_frags p)) -> (i < List.length (p_atoms p))%nat.
Proof. intros P H. apply (Permutation_in _ P) in H. apply in_seq in H. lia. Qed.

Lemma NoDup_concat_nth {A} (ls : list (list A)) k d : NoDup (List.concat ls) -> NoDup (nth k ls d) \/ nth k ls d = d.
Proof.
  revert k. induction ls as [|l r IH]; intros k ND; [right; destruct k; reflexivity|].
  simpl in ND. destruct k as [|k]; simpl.
  - left. clear IH. induction l as [|x l IHl]; [constructor|]. simpl in ND. inversion ND; subst. constructor.
    + intros H. apply H1. apply in_or_app. left; exact H.
    + apply IHl. exact H2.
  - apply IH. apply NoDup_app_r in ND. exact ND.
Qed.

(** nelectrons(ifr) is the real nuclear charge of the fragment's atoms minus the fragment charge *)
Theorem nelectrons_frag_spec p k : partition_ok p ->
  nelectrons_frag p k = zsum (map (fun i => zeff (atom_at p i)) (frag_at p k)) - fc_at p k.
Proof.
  intros P. unfold nelectrons_frag. f_equal. unfold atom_at. apply membership_sum.
  - destruct (NoDup_concat_nth (p_frags p) k [] (partition_disjoint p P)) as [H|H]; [exact H|]. unfold frag_at. rewrite H. constructor.
  - intros i Hi. apply (partition_range p i P).
    unfold frag_at in Hi. destruct (Nat.lt_ge_cases k (List.length (p_frags p))) as [L|L].
    + apply in_concat. exists (nth k (p_frags p) []). split; [apply nth_In; exact L|exact Hi].
    + rewrite nth_overflow in Hi by exact L. contradiction.
Qed.

Lemma map_nth_seq {A} (l : list A) d : map (fun k => nth k l d) (seq 0 (List.length l)) = l.
Proof. pose proof (map_nth_seq_mid d [] l []) as H. simpl in H. rewrite app_nil_r in H. exact H. Qed.

(** electron counts add up: the fragments' counts sum to the molecule's, which is the real nuclear charge minus the
    total charge *)
Theorem electrons_additive p : partition_ok p ->
  List.length (p_fc p) = List.length (p_frags p) -> p_c p = zsum (p_fc p) ->
  zsum (map (nelectrons_frag p) (seq 0 (List.length (p_frags p)))) = nelectrons p
  /\ nelectrons p = zsum (map zeff (p_atoms p)) - p_c p.
Proof.
  intros P L C. split; [|reflexivity]. unfold nelectrons.
  rewrite (map_ext _ (fun k => zsum (map (fun i => zeff (atom_at p i)) (frag_at p k)) + - fc_at p k))
    by (intros k; rewrite nelectrons_frag_spec by exact P; lia).
  rewrite zsum_map_add.
  assert (E1 : zsum (map (fun k => zsum (map (fun i => zeff (atom_at p i)) (frag_at p k))) (seq 0 (List.length (p_frags p))))
               = zsum (map zeff (p_atoms p))).
  { rewrite <- (map_map (fun k => frag_at p k) (fun fr => zsum (map (fun i => zeff (atom_at p i)) fr))).
    unfold frag_at at 1. rewrite map_nth_seq. rewrite <- zsum_concat_map.
    rewrite (zsum_perm _ _ (Permutation_map _ P)). unfold atom_at.
    rewrite <- (map_map (fun i => nth i (p_atoms p) dflt_atom) zeff). rewrite map_nth_seq. reflexivity. }
  assert (E2 : zsum (map (fun k => - fc_at p k) (seq 0 (List.length (p_frags p)))) = - p_c p).
  { rewrite C, <- L. unfold fc_at. rewrite <- (map_map (fun k => nth k (p_fc p) 0) Z.opp), map_nth_seq.
    generalize (p_fc p). induction l; simpl; lia. }
  unfold ChgMult.zsum in *. rewrite E1, E2. lia.
Qed.

(** ---- nuclear repulsion energy: the multiset of terms ---- *)
Lemma sqdist_sym a b : sqdist a b = sqdist b a.
Proof. unfold sqdist. apply Qred_complete. ring. Qed.

Lemma term_sym a b : term a b = term b a.
Proof. unfold term. rewrite sqdist_sym, Z.mul_comm. reflexivity. Qed.

Definition nz (t : Z * Q) : bool := negb (fst t =? 0).
Definition charged (a : atom) : bool := negb (zeff a =? 0).

Lemma filter_terms_ghost a prev : zeff a = 0 -> filter nz (map (term a) prev) = [].
Proof. intros H. induction prev as [|b r IH]; simpl; [reflexivity|]. unfold nz at 1. simpl. rewrite H. simpl. exact IH. Qed.

Lemma filter_terms_real a prev : zeff a <> 0 -> filter nz (map (term a) prev) = map (term a) (filter charged prev).
Proof.
  intros H. induction prev as [|b r IH]; simpl; [reflexivity|]. unfold nz at 1, charged at 1. simpl.
  destruct (zeff b =? 0) eqn:E.
  - apply Z.eqb_eq in E. rewrite E, Z.mul_0_r. simpl. exact IH.
  - apply Z.eqb_neq in E. assert (N : zeff a * zeff b <> 0) by nia. apply Z.eqb_neq in N. rewrite N. simpl. f_equal. exact IH.
Qed.

Lemma terms_real_only_gen : forall l prev,
  filter nz (terms_from prev l) = terms_from (filter charged prev) (filter charged l).
Proof.
  induction l as [|a r IH]; intros prev; [reflexivity|].
  cbn [terms_from]. rewrite filter_app, IH, filter_app. cbn [filter].
  destruct (charged a) eqn:C.
  - assert (E : zeff a <> 0) by (unfold charged in C; apply negb_true_iff, Z.eqb_neq in C; exact C).
    rewrite filter_terms_real by exact E. reflexivity.
  - assert (E : zeff a = 0) by (unfold charged in C; apply negb_false_iff, Z.eqb_eq in C; exact C).
    rewrite filter_terms_ghost by exact E. rewrite app_nil_r. reflexivity.
Qed.

(** ghost atoms (and anything else with zero effective charge) contribute no term: the non-zero terms are exactly
    the terms of the charged atoms, in the same order *)
Theorem nre_real_only atoms : filter nz (terms_from [] atoms) = terms_from [] (filter charged atoms).
Proof. apply (terms_real_only_gen atoms []). Qed.

Lemma terms_of_charged_nz : forall l prev, Forall (fun a => charged a = true) prev -> Forall (fun a => charged a = true) l ->
  Forall (fun t => nz t = true) (terms_from prev l).
Proof.
  induction l as [|a r IH]; intros prev Fp Fl; simpl; [constructor|].
  inversion Fl; subst. apply Forall_app. split.
  - rewrite Forall_forall in *. intros t Ht. apply in_map_iff in Ht. destruct Ht as (b & <- & Hb).
    unfold nz, term; simpl. unfold charged in *. specialize (Fp b Hb).
    apply negb_true_iff, Z.eqb_neq in H1. apply negb_true_iff, Z.eqb_neq in Fp. apply negb_true_iff, Z.eqb_neq. nia.
  - apply IH; [apply Forall_app; split; [exact Fp|constructor; [exact H1|constructor]]|exact H2].
Qed.

(** rigid motion: an orthogonal matrix (rows r1, r2, r3; proper or improper) and a shift *)
Record motion := { r11 : Q; r12 : Q; r13 : Q; r21 : Q; r22 : Q; r23 : Q; r31 : Q; r32 : Q; r33 : Q; t1 : Q; t2 : Q; t3 : Q }.
Definition orthogonal (M : motion) : Prop :=
  (r11 M * r11 M + r21 M * r21 M + r31 M * r31 M == 1 /\ r12 M * r12 M + r22 M * r22 M + r32 M * r32 M == 1
   /\ r13 M * r13 M + r23 M * r23 M + r33 M * r33 M == 1 /\ r11 M * r12 M + r21 M * r22 M + r31 M * r32 M == 0
   /\ r11 M * r13 M + r21 M * r23 M + r31 M * r33 M == 0 /\ r12 M * r13 M + r22 M * r23 M + r32 M * r33 M == 0)%Q.
Definition move (M : motion) (a : atom) : atom :=
  {| a_sym := a_sym a; a_Z := a_Z a; a_mass := a_mass a;
     a_x := r11 M * a_x a + r12 M * a_y a + r13 M * a_z a + t1 M;
     a_y := r21 M * a_x a + r22 M * a_y a + r23 M * a_z a + t2 M;
     a_z := r31 M * a_x a + r32 M * a_y a + r33 M * a_z a + t3 M; a_real := a_real a |}.

Lemma sqdist_move M a b : orthogonal M -> sqdist (move M a) (move M b) = sqdist a b.
Proof.
  intros (H1 & H2 & H3 & H4 & H5 & H6). unfold sqdist, move; cbn [a_x a_y a_z]. apply Qred_complete.
  set (u := (a_x a - a_x b)%Q). set (v := (a_y a - a_y b)%Q). set (w := (a_z a - a_z b)%Q).
  transitivity ((r11 M * r11 M + r21 M * r21 M + r31 M * r31 M) * (u * u) + (r12 M * r12 M + r22 M * r22 M + r32 M * r32 M) * (v * v)
                + (r13 M * r13 M + r23 M * r23 M + r33 M * r33 M) * (w * w) + (2 # 1) * (r11 M * r12 M + r21 M * r22 M + r31 M * r32 M) * (u * v)
                + (2 # 1) * (r11 M * r13 M + r21 M * r23 M + r31 M * r33 M) * (u * w) + (2 # 1) * (r12 M * r13 M + r22 M * r23 M + r32 M * r33 M) * (v * w))%Q.
  - unfold u, v, w. ring.
  - rewrite H1, H2, H3, H4, H5, H6. ring.
Qed.

Lemma term_move M a b : orthogonal M -> term (move M a) (move M b) = term a b.
Proof. intros O. unfold term. rewrite sqdist_move by exact O. reflexivity. Qed.

Lemma terms_move_gen M : orthogonal M -> forall l prev, terms_from (map (move M) prev) (map (move M) l) = terms_from prev l.
Proof.
  intros O. induction l as [|a r IH]; intros prev; simpl; [reflexivity|].
  rewrite <- (IH (prev ++ [a])), map_app. simpl. f_equal.
  rewrite map_map. apply map_ext. intros b. apply term_move. exact O.
Qed.

(** the terms — hence any function of them — are unchanged by a rigid motion of all atoms *)
Theorem nre_rigid_invariant M atoms : orthogonal M -> terms_from [] (map (move M) atoms) = terms_from [] atoms.
Proof. intros O. apply (terms_move_gen M O atoms []). Qed.

(** reordering the atoms permutes the terms *)
Fixpoint pairs (l : list atom) : list (Z * Q) :=
  match l with [] => [] | a :: r => map (term a) r ++ pairs r end.

Lemma cross_split a prev : forall r,
  Permutation (flat_map (fun b => map (term b) (prev ++ [a])) r) (flat_map (fun b => map (term b) prev) r ++ map (term a) r).
Proof.
  induction r as [|b r IH]; simpl; [constructor|].
  rewrite map_app. simpl. rewrite (term_sym b a). rewrite <- !app_assoc.
  apply Permutation_app_head. simpl.
  apply Permutation_trans with (l' := term a b :: flat_map (fun b0 => map (term b0) prev) r ++ map (term a) r).
  - constructor. exact IH.
  - apply Permutation_middle.
Qed.

Lemma terms_from_pairs : forall l prev,
  Permutation (terms_from prev l) (flat_map (fun b => map (term b) prev) l ++ pairs l).
Proof.
  induction l as [|a r IH]; intros prev; simpl; [constructor|].
  rewrite <- app_assoc. apply Permutation_app_head.
  rewrite (IH (prev ++ [a])). rewrite (cross_split a prev r). rewrite <- app_assoc. reflexivity.
Qed.

Lemma pairs_perm l l' : Permutation l l' -> Permutation (pairs l) (pairs l').
Proof.
  induction 1; simpl.
  - constructor.
  - apply Permutation_app; [apply Permutation_map; assumption|assumption].
  - rewrite (term_sym y x). rewrite !app_comm_cons, !app_assoc. apply Permutation_app_tail.
    simpl. constructor. apply Permutation_app_comm.
  - eapply Permutation_trans; eassumption.
Qed.

Theorem nre_reorder_invariant l l' : Permutation l l' -> Permutation (terms_from [] l) (terms_from [] l').
Proof.
  intros P. rewrite (terms_from_pairs l []), (terms_from_pairs l' []).
  assert (E : forall k : list atom, flat_map (fun b => map (term b) []) k = []) by (induction k; simpl; auto).
  rewrite !E. simpl. apply pairs_perm. exact P.
Qed.

(** ... so every sum over the terms is invariant (stated for an arbitrary rational-valued summand) *)
Definition qsum (g : Z * Q -> Q) (ts : list (Z * Q)) : Q := fold_right (fun t acc => (g t + acc)%Q) 0%Q ts.
Lemma qsum_perm g a b : Permutation a b -> (qsum g a == qsum g b)%Q.
Proof. induction 1; simpl; try rewrite IHPermutation; try reflexivity; [ring|]. etransitivity; eassumption. Qed.

(** ---- a valid parent's regular selection is accepted (scope: no parent ghost atoms inside real-selected
    fragments — get_fragment makes them real, which changes the electron count) ---- *)
Ltac Zify.zify_post_hook ::= Z.to_euclidean_division_equations.

Definition frag_z (p : pmol) (k : nat) : Z := zsum (map (fun i => zeff (atom_at p i)) (frag_at p k)).
(* what C05 guarantees of each fragment of a validated parent, plus: the fragment has electrons to speak of *)
Definition valid_frag (p : pmol) (k : nat) : Prop :=
  1 <= fm_at p k /\ fm_at p k - 1 <= frag_z p k - fc_at p k /\ (fm_at p k) mod 2 <> (frag_z p k - fc_at p k) mod 2
  /\ 0 < frag_z p k /\ Forall (fun i => 0 <= zeff (atom_at p i)) (frag_at p k).
Definition all_real (p : pmol) (k : nat) : Prop := Forall (fun i => a_real (atom_at p i) = true) (frag_at p k).

Definition Zf (p : pmol) (e : nat * bool) : Z := zsum (map zeff (frag_atoms p (snd e) (fst e))).
Definition Cf (p : pmol) (e : nat * bool) : Z := if snd e then fc_at p (fst e) else 0.
Definition Mf (p : pmol) (e : nat * bool) : Z := if snd e then fm_at p (fst e) else 1.

Lemma zeff_set_real_true a : a_real a = true -> zeff (set_real true a) = zeff a.
Proof. intros H. unfold zeff, set_real; simpl. rewrite H. reflexivity. Qed.
Lemma zeff_set_real_false a : zeff (set_real false a) = 0.
Proof. reflexivity. Qed.

Lemma Zf_real p f : all_real p f -> Zf p (f, true) = frag_z p f.
Proof.
  intros A. unfold Zf, frag_z, frag_atoms; simpl. rewrite map_map. f_equal. apply map_ext_in. intros i Hi.
  apply zeff_set_real_true. unfold all_real in A. rewrite Forall_forall in A. apply A. exact Hi.
Qed.
Lemma Zf_ghost p f : Zf p (f, false) = 0 /\ is_ghost (map zeff (frag_atoms p false f)) = true.
Proof.
  unfold Zf, frag_atoms; simpl. rewrite map_map. split.
  - rewrite (map_ext _ (fun _ => 0)) by (intros; apply zeff_set_real_false). apply zsum_map_zero.
  - unfold is_ghost. rewrite forallb_forall. intros z Hz. apply in_map_iff in Hz. destruct Hz as (i & <- & _). reflexivity.
Qed.

Lemma felez_of_blocks (atoms : list atom) (X : nat * bool -> list atom) : forall frags es,
  Forall2 (fun blk e => map (fun i => nth i atoms dflt_atom) blk = X e) frags es ->
  map (fun fr => map (fun i => zeff (nth i atoms dflt_atom)) fr) frags = map (fun e => map zeff (X e)) es.
Proof.
  induction 1 as [|blk e frags es H F IH]; simpl; [reflexivity|]. rewrite IH. f_equal.
  rewrite <- H, map_map. reflexivity.
Qed.

Lemma nth_error_map3 {A} (f g h : A -> Z) l k x y z :
  nth_error (map f l) k = Some x -> nth_error (map g l) k = Some y -> nth_error (map h l) k = Some z ->
  exists e, In e l /\ x = f e /\ y = g e /\ z = h e.
Proof.
  rewrite !nth_error_map. destruct (nth_error l k) as [e|] eqn:E; simpl; try discriminate.
  intros H1 H2 H3. exists e. split; [eapply nth_error_In; exact E|]. split; [|split]; congruence.
Qed.

Lemma nat_list_eqb_refl l : nat_list_eqb l l = true.
Proof. induction l; simpl; [reflexivity|]. rewrite Nat.eqb_refl. exact IHl. Qed.

Lemma sums_real p real : Forall (fun f => valid_frag p f) real ->
  zsum (map (fun f => fm_at p f - 1) real) <= zsum (map (frag_z p) real) - zsum (map (fc_at p) real)
  /\ (zsum (map (fun f => fm_at p f - 1) real) - (zsum (map (frag_z p) real) - zsum (map (fc_at p) real))) mod 2 = 0
  /\ 0 <= zsum (map (fun f => fm_at p f - 1) real).
Proof.
  induction 1 as [|f r (V1 & V2 & V3 & _) F IH]; simpl; [repeat split; reflexivity|].
  destruct IH as (I1 & I2 & I3). repeat split; lia.
Qed.

Theorem subsystem_validates p real ghost d :
  get_fragment p real ghost true = Ok d ->
  Forall (fun f => valid_frag p f /\ all_real p f) real ->
  sub_molecule p real ghost true
  = Ok {| p_atoms := d_atoms d; p_frags := d_frags d; p_fc := d_fc d; p_fm := d_fm d;
          p_c := zsum (map (fc_at p) real); p_m := 1 + zsum (map (fun f => fm_at p f - 1) real) |}.
Proof.
  intros G V. pose proof (grouped_conserves p real ghost d G) as (A1 & A2 & A3 & A4 & A5 & A6).
  unfold sub_molecule. rewrite G. simpl.
  assert (Cg : contiguous d = true) by (unfold contiguous; rewrite A3; apply nat_list_eqb_refl).
  rewrite Cg. simpl.
  set (es := chosen_flags real ghost) in *.
  set (r := {| oc := zsum (map (fc_at p) real); ofc := d_fc d; om := 1 + zsum (map (fun f => fm_at p f - 1) real); ofm := d_fm d |}).
  assert (R : respec (cm_of d) r = cm_of d).
  { unfold respec, cm_of, r. simpl. rewrite A6. reflexivity. }
  assert (Ffc : d_fc d = map (Cf p) es) by (rewrite A4; unfold es, chosen_flags; rewrite map_app, !map_map; reflexivity).
  assert (Ffm : d_fm d = map (Mf p) es) by (rewrite A5; unfold es, chosen_flags; rewrite map_app, !map_map; reflexivity).
  assert (Ffe : felez (cm_of d) = map (fun e => map zeff (frag_atoms p (snd e) (fst e))) es).
  { unfold cm_of; simpl. apply (felez_of_blocks (d_atoms d) (fun e => frag_atoms p (snd e) (fst e))). exact A2. }
  assert (Ffz : fzel (cm_of d) = map (Zf p) es) by (unfold fzel; rewrite Ffe, map_map; reflexivity).
  assert (Vr : Forall (fun f => valid_frag p f) real) by (rewrite Forall_forall in *; intros f Hf; apply V; exact Hf).
  destruct (sums_real p real Vr) as (S1 & S2 & S3).
  assert (Ines : forall e, In e es -> (snd e = true /\ In (fst e) real) \/ snd e = false).
  { intros e He. unfold es, chosen_flags in He. apply in_app_iff in He. destruct He as [He|He]; apply in_map_iff in He; destruct He as (f & <- & Hf); simpl; auto. }
  assert (Zel : zel (cm_of d) = zsum (map (frag_z p) real)).
  { unfold zel. rewrite Ffz. unfold es, chosen_flags. rewrite map_app, !map_map. unfold ChgMult.zsum. rewrite zsum_app.
    rewrite (map_ext (fun x => Zf p (x, false)) (fun _ => 0)) by (intros f; apply (Zf_ghost p f)). rewrite zsum_map_zero, Z.add_0_r.
    f_equal. apply map_ext_in. intros f Hf. apply Zf_real. rewrite Forall_forall in V. apply V. exact Hf. }
  assert (F : fill (cm_of d) = Ok r).
  { rewrite <- R. apply fill_accepts_full. unfold rules_full.
    assert (L1 : List.length (ofc r) = List.length (felez (cm_of d))) by (unfold r; cbn [oc ofc om ofm]; rewrite Ffc, Ffe, !map_length; reflexivity).
    assert (L2 : List.length (ofm r) = List.length (felez (cm_of d))) by (unfold r; cbn [oc ofc om ofm]; rewrite Ffm, Ffe, !map_length; reflexivity).
    assert (L3 : List.length (fzel (cm_of d)) = List.length (felez (cm_of d))) by (unfold fzel; rewrite map_length; reflexivity).
    repeat (apply andb_true_iff; split).
    - apply Nat.eqb_eq. exact L1.
    - apply Nat.eqb_eq. exact L2.
    - apply Z.eqb_eq. unfold r; cbn [oc ofc om ofm]. rewrite A4. unfold ChgMult.zsum. rewrite zsum_app, zsum_map_zero. lia.
    - apply Z.leb_le. unfold r; cbn [oc ofc om ofm]. unfold ChgMult.zsum in *. lia.
    - unfold r; cbn [oc ofc om ofm]. rewrite Ffm. rewrite forallb_forall. intros m Hm. apply in_map_iff in Hm. destruct Hm as (e & <- & He).
      apply Z.leb_le. unfold Mf. destruct (Ines e He) as [[E Hf]|E]; rewrite E; [|lia].
      rewrite Forall_forall in Vr. destruct (Vr _ Hf) as (V1 & _). exact V1.
    - unfold sufficient. apply Z.leb_le. rewrite Zel. unfold r; cbn [oc ofc om ofm]. unfold ChgMult.zsum in *. lia.
    - apply all3_spec; [lia|lia|]. intros k x y z Hx Hy Hz. unfold r in Hy, Hz; cbn [oc ofc om ofm] in Hy, Hz. rewrite Ffz in Hx. rewrite Ffc in Hy. rewrite Ffm in Hz.
      destruct (nth_error_map3 _ _ _ _ _ _ _ _ Hx Hy Hz) as (e & He & -> & -> & ->).
      unfold sufficient. apply Z.leb_le. destruct e as [f b]. destruct (Ines _ He) as [[E Hf]|E]; cbn [fst snd] in *; subst b.
      + unfold Cf, Mf; cbn [fst snd]. rewrite Forall_forall in V. destruct (V _ Hf) as ((V1 & V2 & _) & Ar). rewrite Zf_real by exact Ar. lia.
      + unfold Cf, Mf; cbn [fst snd]. rewrite (proj1 (Zf_ghost p f)). lia.
    - unfold parity_ok. apply negb_true_iff, Z.eqb_neq. rewrite Zel. unfold r; cbn [oc ofc om ofm]. unfold ChgMult.zsum in *. lia.
    - apply all3_spec; [lia|lia|]. intros k x y z Hx Hy Hz. unfold r in Hy, Hz; cbn [oc ofc om ofm] in Hy, Hz. rewrite Ffz in Hx. rewrite Ffc in Hy. rewrite Ffm in Hz.
      destruct (nth_error_map3 _ _ _ _ _ _ _ _ Hx Hy Hz) as (e & He & -> & -> & ->).
      unfold parity_ok. apply negb_true_iff, Z.eqb_neq. destruct e as [f b]. destruct (Ines _ He) as [[E Hf]|E]; cbn [fst snd] in *; subst b.
      + unfold Cf, Mf; cbn [fst snd]. rewrite Forall_forall in V. destruct (V _ Hf) as ((V1 & V2 & V3 & _) & Ar). rewrite Zf_real by exact Ar. exact V3.
      + unfold Cf, Mf; cbn [fst snd]. rewrite (proj1 (Zf_ghost p f)). lia.
    - apply ghost_rule_spec; [unfold ghosts; rewrite map_length; lia|unfold ghosts; rewrite map_length; lia|].
      intros k c m Hg Hc Hm. unfold r in Hc, Hm; cbn [oc ofc om ofm] in Hc, Hm. unfold ghosts in Hg. rewrite Ffe, map_map in Hg. rewrite Ffc in Hc. rewrite Ffm in Hm.
      rewrite nth_error_map in Hg, Hc, Hm. destruct (nth_error es k) as [[f b]|] eqn:E; simpl in *; try discriminate.
      injection Hc as <-. injection Hm as <-. injection Hg as Hg.
      assert (He : In (f, b) es) by (eapply nth_error_In; exact E).
      destruct (Ines _ He) as [[Eb Hf]|Eb]; cbn [fst snd] in *; subst b; [|split; reflexivity].
      exfalso. rewrite Forall_forall in V. destruct (V _ Hf) as ((_ & _ & _ & V4 & V5) & Ar).
      assert (Zz : Zf p (f, true) = 0).
      { unfold Zf; simpl. unfold is_ghost in Hg. rewrite forallb_forall in Hg.
        clear -Hg. induction (map zeff (frag_atoms p true f)) as [|z l IH]; simpl; [reflexivity|].
        rewrite (proj1 (Z.eqb_eq z 0) (Hg z (or_introl eq_refl))). rewrite IH; [reflexivity|]. intros w Hw. apply Hg. right; exact Hw. }
      rewrite Zf_real in Zz by exact Ar. lia.
    - unfold cm_of; simpl. reflexivity. }
  rewrite F. simpl. reflexivity.
Qed.

(** ---- acceptance for any selection list [es] of (fragment, real?) whose dictionary is laid out per entry ---- *)
Lemma zsum_cons x l : ChgMult.zsum (x :: l) = x + ChgMult.zsum l.
Proof. reflexivity. Qed.

Lemma sums_es p es :
  (forall e, In e es -> snd e = true -> valid_frag p (fst e) /\ all_real p (fst e)) ->
  zsum (map (fun e => Mf p e - 1) es) <= zsum (map (Zf p) es) - zsum (map (Cf p) es)
  /\ (zsum (map (fun e => Mf p e - 1) es) - (zsum (map (Zf p) es) - zsum (map (Cf p) es))) mod 2 = 0
  /\ 0 <= zsum (map (fun e => Mf p e - 1) es).
Proof.
  induction es as [|[f b] es IH]; intros H; [simpl; repeat split; reflexivity|].
  rewrite !map_cons, !zsum_cons.
  destruct IH as (I1 & I2 & I3); [intros e He; apply H; right; exact He|].
  destruct b.
  - destruct (H (f, true) (or_introl eq_refl) eq_refl) as ((V1 & V2 & V3 & _) & Ar). cbn [fst] in *.
    change (Mf p (f, true)) with (fm_at p f). change (Cf p (f, true)) with (fc_at p f). rewrite Zf_real by exact Ar. repeat split; lia.
  - change (Mf p (f, false)) with 1. change (Cf p (f, false)) with 0. rewrite (proj1 (Zf_ghost p f)). repeat split; lia.
Qed.

Lemma rules_full_of_es p es d :
  felez (cm_of d) = map (fun e => map zeff (frag_atoms p (snd e) (fst e))) es ->
  d_fc d = map (Cf p) es -> d_fm d = map (Mf p) es ->
  (forall e, In e es -> snd e = true -> valid_frag p (fst e) /\ all_real p (fst e)) ->
  rules_full (cm_of d) {| oc := zsum (d_fc d); ofc := d_fc d; om := hss (d_fm d); ofm := d_fm d |} = true.
Proof.
  intros Ffe Ffc Ffm V.
  set (r := {| oc := zsum (d_fc d); ofc := d_fc d; om := hss (d_fm d); ofm := d_fm d |}).
  assert (Ffz : fzel (cm_of d) = map (Zf p) es) by (unfold fzel; rewrite Ffe, map_map; reflexivity).
  destruct (sums_es p es V) as (S1 & S2 & S3).
  assert (Hm : hss (d_fm d) = 1 + zsum (map (fun e => Mf p e - 1) es)) by (rewrite hss_spec, Ffm, map_map; reflexivity).
  assert (Zel : zel (cm_of d) = zsum (map (Zf p) es)) by (unfold zel; rewrite Ffz; reflexivity).
  unfold rules_full.
  assert (L1 : List.length (ofc r) = List.length (felez (cm_of d))) by (unfold r; cbn [oc ofc om ofm]; rewrite Ffc, Ffe, !map_length; reflexivity).
  assert (L2 : List.length (ofm r) = List.length (felez (cm_of d))) by (unfold r; cbn [oc ofc om ofm]; rewrite Ffm, Ffe, !map_length; reflexivity).
  assert (L3 : List.length (fzel (cm_of d)) = List.length (felez (cm_of d))) by (unfold fzel; rewrite map_length; reflexivity).
  repeat (apply andb_true_iff; split).
  - apply Nat.eqb_eq. exact L1.
  - apply Nat.eqb_eq. exact L2.
  - apply Z.eqb_eq. reflexivity.
  - apply Z.leb_le. unfold r; cbn [oc ofc om ofm]. rewrite Hm. unfold ChgMult.zsum in *. lia.
  - unfold r; cbn [oc ofc om ofm]. rewrite Ffm. rewrite forallb_forall. intros m Hmm. apply in_map_iff in Hmm. destruct Hmm as ([f b] & <- & He).
    apply Z.leb_le. unfold Mf; cbn [fst snd]. destruct b; [|lia]. destruct (V _ He eq_refl) as ((V1 & _) & _). exact V1.
  - unfold sufficient. apply Z.leb_le. rewrite Zel. unfold r; cbn [oc ofc om ofm]. rewrite Hm, Ffc. unfold ChgMult.zsum in *. lia.
  - apply all3_spec; [lia|lia|]. intros k x y z Hx Hy Hz. unfold r in Hy, Hz; cbn [oc ofc om ofm] in Hy, Hz. rewrite Ffz in Hx. rewrite Ffc in Hy. rewrite Ffm in Hz.
    destruct (nth_error_map3 _ _ _ _ _ _ _ _ Hx Hy Hz) as ([f b] & He & -> & -> & ->).
    unfold sufficient. apply Z.leb_le. unfold Cf, Mf; cbn [fst snd]. destruct b.
    + destruct (V _ He eq_refl) as ((V1 & V2 & _) & Ar). cbn [fst] in *. rewrite Zf_real by exact Ar. lia.
    + rewrite (proj1 (Zf_ghost p f)). lia.
  - unfold parity_ok. apply negb_true_iff, Z.eqb_neq. rewrite Zel. unfold r; cbn [oc ofc om ofm]. rewrite Hm, Ffc. unfold ChgMult.zsum in *. lia.
  - apply all3_spec; [lia|lia|]. intros k x y z Hx Hy Hz. unfold r in Hy, Hz; cbn [oc ofc om ofm] in Hy, Hz. rewrite Ffz in Hx. rewrite Ffc in Hy. rewrite Ffm in Hz.
    destruct (nth_error_map3 _ _ _ _ _ _ _ _ Hx Hy Hz) as ([f b] & He & -> & -> & ->).
    unfold parity_ok. apply negb_true_iff, Z.eqb_neq. unfold Cf, Mf; cbn [fst snd]. destruct b.
    + destruct (V _ He eq_refl) as ((V1 & V2 & V3 & _) & Ar). cbn [fst] in *. rewrite Zf_real by exact Ar. exact V3.
    + rewrite (proj1 (Zf_ghost p f)). lia.
  - apply ghost_rule_spec; [unfold ghosts; rewrite map_length; lia|unfold ghosts; rewrite map_length; lia|].
    intros k c m Hg Hc Hmm. unfold r in Hc, Hmm; cbn [oc ofc om ofm] in Hc, Hmm. unfold ghosts in Hg. rewrite Ffe, map_map in Hg. rewrite Ffc in Hc. rewrite Ffm in Hmm.
    rewrite nth_error_map in Hg, Hc, Hmm. destruct (nth_error es k) as [[f b]|] eqn:E; simpl in *; try discriminate.
    injection Hc as <-. injection Hmm as <-. injection Hg as Hg.
    assert (He : In (f, b) es) by (eapply nth_error_In; exact E).
    destruct b; [|split; reflexivity].
    exfalso. destruct (V _ He eq_refl) as ((_ & _ & _ & V4 & V5) & Ar). cbn [fst] in *.
    assert (Zz : Zf p (f, true) = 0).
    { unfold Zf; cbn [fst snd]. unfold is_ghost in Hg. rewrite forallb_forall in Hg.
      clear -Hg. induction (map zeff (frag_atoms p true f)) as [|z l IH]; simpl; [reflexivity|].
      rewrite (proj1 (Z.eqb_eq z 0) (Hg z (or_introl eq_refl))). rewrite IH; [reflexivity|]. intros w Hw. apply Hg. right; exact Hw. }
    rewrite Zf_real in Zz by exact Ar. lia.
  - unfold cm_of; simpl. reflexivity.
Qed.

(** order-preserving path: no totals are handed over; the constructor's search finds exactly the sum of the
    fragment charges and the high-spin multiplicity *)
Theorem subsystem_validates_ungrouped p real ghost d :
  disjoint_frags p -> (forall i, In i (List.concat (p_frags p)) -> (i < List.length (p_atoms p))%nat) ->
  get_fragment p real ghost false = Ok d -> contiguous d = true ->
  (forall f, In f (chosen_list p real ghost) -> memb f real = true -> valid_frag p f /\ all_real p f) ->
  sub_molecule p real ghost false
  = Ok {| p_atoms := d_atoms d; p_frags := d_frags d; p_fc := d_fc d; p_fm := d_fm d;
          p_c := zsum (d_fc d); p_m := hss (d_fm d) |}.
Proof.
  intros D R G Cg V. pose proof (ungrouped_conserves p real ghost d D R G) as (A1 & A2 & A3 & A4 & A5).
  unfold sub_molecule. rewrite G. simpl. rewrite Cg. simpl.
  set (es := map (fun k => (k, memb k real)) (chosen_list p real ghost)).
  set (r := {| oc := zsum (d_fc d); ofc := d_fc d; om := hss (d_fm d); ofm := d_fm d |}).
  assert (Ffc : d_fc d = map (Cf p) es) by (rewrite A3; unfold es; rewrite map_map; reflexivity).
  assert (Ffm : d_fm d = map (Mf p) es) by (rewrite A4; unfold es; rewrite map_map; reflexivity).
  assert (Ffe : felez (cm_of d) = map (fun e => map zeff (frag_atoms p (snd e) (fst e))) es).
  { unfold cm_of; simpl. apply (felez_of_blocks (d_atoms d) (fun e => frag_atoms p (snd e) (fst e))).
    unfold es. clear -A2. induction A2; simpl; constructor; auto. }
  assert (Ves : forall e, In e es -> snd e = true -> valid_frag p (fst e) /\ all_real p (fst e)).
  { intros e He Hs. unfold es in He. apply in_map_iff in He. destruct He as (k & <- & Hk). cbn [fst snd] in *. apply V; assumption. }
  pose proof (rules_full_of_es p es d Ffe Ffc Ffm Ves) as RF. fold r in RF.
  assert (F : fill (cm_of d) = Ok r).
  { pose proof RF as RF0. unfold rules_full in RF0.
    repeat (apply andb_true_iff in RF0; destruct RF0 as [RF0 ?]).
    match goal with [ Hx : forallb (fun m => 1 <=? m) (ofm r) = true |- _ ] => rename Hx into Hpos end.
    unfold fill. assert (Eim : im (cm_of d) = None) by (unfold cm_of; simpl; rewrite A5; reflexivity).
    assert (Eic : ic (cm_of d) = None) by (unfold cm_of; simpl; rewrite A5; reflexivity).
    assert (Eifm : ifm (cm_of d) = map Some (ofm r)) by reflexivity.
    assert (Eifc : ifc (cm_of d) = map Some (ofc r)) by reflexivity.
    rewrite Eim, Eifm. cbn [bad_mult]. rewrite existsb_bad_mult_pos by exact Hpos. cbn [orb].
    assert (Ad : adjust (cm_of d) = cm_of d) by reflexivity. rewrite Ad.
    rewrite (candidates_full (cm_of d) r); [| right; split; [exact Eic|reflexivity] | reflexivity | exact Eifc | right; split; [exact Eim|reflexivity] | exact Eifm].
    cbn [find]. rewrite (rules_ok_of_full (cm_of d) r RF (cm_of d) eq_refl Eifc Eifm (or_intror Eic) (or_intror (conj Eim eq_refl))). reflexivity. }
  rewrite F. simpl. reflexivity.
Qed.

Lemma sqrt_enclosure_Z a b T : 0 < a -> 0 < b -> 0 < T -> 1 <= a * (T * T) / b ->
  let s := Z.sqrt (a * (T * T) / b) in
  1 <= s /\ T * T * a <= (s + 1) * (s + 1) * b /\ s * s * b <= T * T * a.
Proof.
  intros Ha Hb HT H1. set (N := a * (T * T) / b) in *. intros s.
  assert (N0 : 0 <= N) by lia.
  pose proof (Z.sqrt_spec N N0) as [S1 S2]. fold s in S1, S2. unfold Z.succ in S2.
  assert (s1 : 1 <= s). { unfold s. change 1 with (Z.sqrt 1). apply Z.sqrt_le_mono. exact H1. }
  pose proof (Z.div_mod (a * (T * T)) b ltac:(lia)) as DM. pose proof (Z.mod_pos_bound (a * (T * T)) b Hb) as MB.
  fold N in DM. set (r := (a * (T * T)) mod b) in *. set (M := a * (T * T)) in *.
  assert (E : T * T * a = M) by (unfold M; ring). rewrite E.
  split; [exact s1|]. split.
  - assert (N + 1 <= (s + 1) * (s + 1)) by lia. assert (M < (N + 1) * b) by nia. nia.
  - assert (s * s <= N) by lia. assert (N * b <= M) by nia. nia.
Qed.

(** ---- the rational enclosure of 1/sqrt(d2) used to compare the implementation's float with the exact terms:
    lo <= 1/sqrt(d2) <= hi, stated without the square root ---- *)
Theorem inv_sqrt_enclosure (d2 : Q) : 0 < Qnum d2 -> 1 <= Qnum d2 * 10 ^ 60 / Zpos (Qden d2) ->
  (0 < fst (inv_sqrt_lo_hi d2))%Q /\ (fst (inv_sqrt_lo_hi d2) <= snd (inv_sqrt_lo_hi d2))%Q
  /\ (fst (inv_sqrt_lo_hi d2) * fst (inv_sqrt_lo_hi d2) * d2 <= 1)%Q
  /\ (1 <= snd (inv_sqrt_lo_hi d2) * snd (inv_sqrt_lo_hi d2) * d2)%Q.
Proof.
  intros Hn H1. unfold inv_sqrt_lo_hi. destruct d2 as [a b]. cbn [Qnum Qden fst snd] in *.
  change (10 ^ 60) with (10 ^ 30 * (10 ^ 30)) in *. set (T := 10 ^ 30) in *.
  assert (T0 : 0 < T) by (unfold T; apply Z.pow_pos_nonneg; lia).
  pose proof (sqrt_enclosure_Z a (Z.pos b) T Hn ltac:(lia) T0 H1) as (s1 & X1 & X2).
  set (s := Z.sqrt (a * (T * T) / Z.pos b)) in *.
  rewrite Z.max_l by lia.
  unfold Qlt, Qle, Qmult. cbn [Qnum Qden]. rewrite !Pos2Z.inj_mul, !Z2Pos.id by lia.
  repeat split; nia.
Qed.
