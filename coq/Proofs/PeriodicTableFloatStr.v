(** C01: the string-level float model agrees with Decimal-then-round, for ALL strings, and means "nearest double
    of the fraction the string denotes". *)
From Coq Require Import ZArith NArith List String Ascii Bool Lia.
Require Import QV.Common.Outcome QV.Common.NearestDouble QV.Common.NearestDoubleNorm.
Require Import QV.Model.PeriodicTable QV.Model.PeriodicTableFloat.
Open Scope Z_scope.

Lemma digit_val_nonneg c d : digit_val c = Some d -> 0 <= d.
Proof.
  unfold digit_val. destruct (_ && _); [|discriminate]. intro H; inversion H. lia.
Qed.

Lemma fs_scan_nonneg s : forall num k ndig infrac n k',
  0 <= num -> 0 <= k -> fs_scan s num k ndig infrac = Some (n, k') -> 0 <= n /\ 0 <= k'.
Proof.
  induction s as [|c r IH]; intros num k ndig infrac n k' Hn Hk H; simpl in H.
  - destruct (N.eqb ndig 0); [discriminate|]. inversion H; subst; split; assumption.
  - destruct (digit_val c) as [d|] eqn:D.
    + pose proof (digit_val_nonneg _ _ D). eapply IH; [| |exact H]; [lia|destruct infrac; lia].
    + destruct (Ascii.eqb c "."); [|discriminate]. destruct infrac; [discriminate|].
      eapply IH; [| |exact H]; assumption.
Qed.

(** the Decimal reader and the direct reader do the same bookkeeping *)
Lemma dec_scan_fs s : forall coef ndig frac k infrac,
  (frac = None /\ infrac = false /\ k = 0) \/ (frac = Some k /\ infrac = true) ->
  dec_scan s coef ndig frac =
  match fs_scan s coef k ndig infrac with Some (n, k') => Some (n, - k') | None => None end.
Proof.
  induction s as [|c r IH]; intros coef ndig frac k infrac INV; simpl.
  - destruct (N.eqb ndig 0); [reflexivity|].
    destruct INV as [[-> [-> ->]]|[-> ->]]; reflexivity.
  - destruct (digit_val c) as [d|].
    + destruct INV as [[-> [-> ->]]|[-> ->]].
      * apply IH. left. repeat split.
      * apply IH. right. split; reflexivity.
    + destruct (Ascii.eqb c "."); [|reflexivity].
      destruct INV as [[-> [-> ->]]|[-> ->]]; [|reflexivity].
      apply IH. right. split; reflexivity.
Qed.

Lemma dec_of_string_fs s :
  dec_of_string s = match fs_scan s 0 0 0%N false with Some (n, k) => Some (n, - k) | None => None end.
Proof. unfold dec_of_string. apply dec_scan_fs. left. repeat split. Qed.

(** reading as a Decimal and rounding = rounding the fraction denoted by the string, for ALL strings *)
Theorem float_of_decstr_agrees s :
  float_of_decstr s = option_map nearest_double (dec_of_string s).
Proof.
  rewrite dec_of_string_fs. unfold float_of_decstr.
  destruct (fs_scan s 0 0 0%N false) as [[n k]|] eqn:F; [|reflexivity]. cbn [option_map]. f_equal.
  destruct (fs_scan_nonneg _ _ _ _ _ _ _ (Z.le_refl 0) (Z.le_refl 0) F) as [Hn Hk].
  unfold nearest_double. destruct (Z.eqb_spec n 0) as [E|E]; [reflexivity|].
  assert (P : 0 < n) by lia. apply Z.ltb_lt in P. rewrite P.
  rewrite nearest_double_pos_ndp.
  destruct (Z.eq_dec k 0) as [->|NZ].
  - cbn [Z.opp Z.leb Z.compare]. change (10 ^ 0) with 1. rewrite Z.mul_1_r. reflexivity.
  - destruct (Z.leb_spec 0 (- k)); [lia|]. rewrite Z.opp_involutive. reflexivity.
Qed.

Lemma ndp_frac_nearest n d : 1 <= n -> 1 <= d -> frac_nearest n d (fst (ndp n d)) (snd (ndp n d)).
Proof.
  intros Hn Hd. pose proof (ndp_significand n d Hn Hd) as S.
  unfold ndp in *. cbv zeta in *. cbn [fst snd] in *.
  set (e := if _ <? 2 ^ 52 then _ else _) in *.
  unfold frac_nearest. cbv zeta.
  pose proof (sc_den_pos n d e ltac:(lia)) as DP.
  destruct (rne_spec (fst (sc n d e)) (snd (sc n d e)) DP) as [R1 R2].
  repeat split; try lia; assumption.
Qed.

Theorem float_of_decstr_nearest s n d m e :
  decstr_frac s = Some (n, d) -> float_of_decstr s = Some (m, e) ->
  0 < d /\ ((n = 0 /\ m = 0 /\ e = 0) \/ (0 < n /\ frac_nearest n d m e)).
Proof.
  unfold decstr_frac, float_of_decstr.
  destruct (fs_scan s 0 0 0%N false) as [[n0 k]|] eqn:F; [|discriminate].
  intros H1 H2. inversion H1; subst n d. clear H1.
  destruct (fs_scan_nonneg _ _ _ _ _ _ _ (Z.le_refl 0) (Z.le_refl 0) F) as [Hn Hk].
  assert (D : 0 < 10 ^ k) by (apply Z.pow_pos_nonneg; lia).
  split; [exact D|].
  destruct (Z.eqb_spec n0 0) as [E|E].
  - left. inversion H2. auto.
  - right. assert (P : 0 < n0) by lia. split; [exact P|].
    assert (H : ndp n0 (10 ^ k) = (m, e)) by congruence.
    replace m with (fst (ndp n0 (10 ^ k))) by (rewrite H; reflexivity).
    replace e with (snd (ndp n0 (10 ^ k))) by (rewrite H; reflexivity).
    apply ndp_frac_nearest; lia.
Qed.

(** the two models of to_mass(atom) agree on every identifier *)
Lemma key_mass_float_str_eq k : key_mass_float_str k = key_mass_float k.
Proof.
  unfold key_mass_float_str, key_mass_float, key_mass_dec.
  destruct (key_mass_str k) as [s|]; cbn [obind]; [|reflexivity].
  rewrite float_of_decstr_agrees. unfold pydecimal. destruct (dec_of_string s); reflexivity.
Qed.
Lemma to_mass_float_str_eq x : to_mass_float_str x = to_mass_float x.
Proof.
  unfold to_mass_float_str, to_mass_float. destruct (resolve x false); cbn [obind]; [apply key_mass_float_str_eq|reflexivity].
Qed.
