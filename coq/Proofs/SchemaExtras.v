(** C09 — lemmas about Model/SchemaExtras.v *)
From Coq Require Import String Bool.
Require Import QV.Gen.SchemaExtras QV.Model.SchemaExtras.

(** what comes back: the name (the formula for an unnamed molecule) and the comment exactly as it was *)
Lemma extras_roundtrip formula x :
  from_schema_extras (to_schema_extras formula x) =
  {| x_name := Some (match x_name x with Some n => n | None => formula end); x_comment := x_comment x |}.
Proof. destruct x as [[n|] [c|]]; reflexivity. Qed.

Lemma extras_roundtrip_named formula n c :
  from_schema_extras (to_schema_extras formula {| x_name := Some n; x_comment := c |}) = {| x_name := Some n; x_comment := c |}.
Proof. destruct c; reflexivity. Qed.

(** the record that came back exports the same name / comment *)
Lemma extras_second_translation formula formula' x :
  to_schema_extras formula' (from_schema_extras (to_schema_extras formula x)) = to_schema_extras formula x.
Proof. destruct x as [[n|] [c|]]; reflexivity. Qed.

(** the comment key is exported exactly when the molrec has one *)
Lemma comment_exported_iff formula x : x_comment (to_schema_extras formula x) = None <-> x_comment x = None.
Proof. destruct x as [n [c|]]; cbn; split; auto. Qed.
