(** C07 — layout insensitivity of the parser model: rewrites of a text that leave the parse unchanged. *)
From Coq Require Import ZArith NArith List String Ascii Bool Lia DecimalString.
Require Import QV.Common.Outcome QV.Common.WText QV.Common.WBin64 QV.Model.Text QV.Proofs.TextRT QV.Proofs.TextLex.
Import ListNotations.
Open Scope nat_scope.

Local Notation "a +++ b" := (String.append a b) (at level 60, right associativity).

(* ------------------------------------------------------------------------------------------ *)
(** * white space around the whole text *)
Lemma lstrip_ws w t : s_all c_is_space w = true -> s_lstrip (w +++ t) = s_lstrip t.
Proof. induction w as [|c w IH]; intro H; simpl in *; [reflexivity|]. apply andb_true_iff in H as [Hc Hw]. rewrite Hc. now apply IH. Qed.
Lemma rstrip_all_ws w : s_all c_is_space w = true -> s_rstrip w = EmptyString.
Proof. induction w as [|c w IH]; intro H; simpl in *; [reflexivity|]. apply andb_true_iff in H as [Hc Hw]. rewrite (IH Hw). now rewrite Hc. Qed.
Lemma rstrip_ws t w : s_all c_is_space w = true -> s_rstrip (t +++ w) = s_rstrip t.
Proof. intro H. induction t as [|c t IH]; simpl; [now apply rstrip_all_ws|]. now rewrite IH. Qed.
Lemma lstrip_all_ws w : s_all c_is_space w = true -> s_lstrip w = EmptyString.
Proof. induction w as [|c w IH]; intro H; simpl in *; [reflexivity|]. apply andb_true_iff in H as [Hc Hw]. rewrite Hc. now apply IH. Qed.
Lemma strip_lstrip_ws t w : s_all c_is_space w = true -> s_rstrip (s_lstrip (t +++ w)) = s_rstrip (s_lstrip t).
Proof.
  intro H. induction t as [|c t IH]; simpl.
  - now rewrite (lstrip_all_ws w H).
  - destruct (c_is_space c); [exact IH|]. change (String c (t +++ w)) with (String c t +++ w). now apply rstrip_ws.
Qed.
Lemma strip_outer w1 t w2 : s_all c_is_space w1 = true -> s_all c_is_space w2 = true -> s_strip (w1 +++ t +++ w2) = s_strip t.
Proof. intros H1 H2. unfold s_strip. rewrite lstrip_ws by assumption. now apply strip_lstrip_ws. Qed.

(** white space (blanks, tabs, newlines, ...) before and after the whole text does not matter — any dtype *)
Theorem layout_outer_whitespace d w1 t w2 :
  s_all c_is_space w1 = true -> s_all c_is_space w2 = true -> parse d (w1 +++ t +++ w2) = parse d t.
Proof. intros H1 H2. unfold parse. now rewrite strip_outer. Qed.

(* ------------------------------------------------------------------------------------------ *)
(** * comments *)
Lemma fc_step c r b p :
  fc (String c r) b p =
  if b && negb (c_eqb c nl) then fc r true false
  else if c_eqb c c_hash && p then fc r true false
  else match r with
       | String c2 r2 => if c_eqb c nl && c_eqb c2 c_hash then fc r2 true false else String c (fc r false (ok_before_hash c))
       | EmptyString => String c EmptyString
       end.
Proof. reflexivity. Qed.

(** inside a comment the [pok] flag is irrelevant *)
Lemma fc_skip_pok r p q : fc r true p = fc r true q.
Proof.
  destruct r as [|c r]; [reflexivity|]. rewrite !fc_step. destruct (c_eqb c nl) eqn:E; cbn [negb andb]; [|reflexivity].
  assert (H : c_eqb c c_hash = false).
  { unfold c_eqb in *. apply Ascii.eqb_eq in E. subst. reflexivity. }
  rewrite H. reflexivity.
Qed.

Definition is_nlc (c : ascii) : bool := c_eqb c nl.
Definition is_hashc (c : ascii) : bool := c_eqb c c_hash.
(** whether a "#" right after the text [a] (that started with flag [p0]) would start a comment *)
Fixpoint pk_of (a : string) (p0 : bool) : bool :=
  match a with
  | EmptyString => p0
  | String c r => pk_of r (ok_before_hash c)
  end.

(** [fc] is a transducer: a prefix [a] is treated alike whatever follows it, as long as the one place where it looks
    ahead (a newline at the end of [a] followed by "#") does not arise *)
Lemma fc_prefix_n n : forall a b0 p0, String.length a <= n ->
  exists out sk, forall r, last_is is_nlc a = false \/ first_is is_hashc r = false ->
    fc (a +++ r) b0 p0 = out +++ fc r sk (pk_of a p0).
Proof.
  induction n as [|n IH]; intros a b0 p0 Hn.
  - destruct a; [|simpl in Hn; lia]. exists EmptyString, b0. reflexivity.
  - destruct a as [|c a]; [exists EmptyString, b0; reflexivity|]. simpl in Hn.
    assert (Last : forall r, last_is is_nlc (String c a) = false \/ first_is is_hashc r = false ->
                   a = EmptyString \/ (last_is is_nlc a = false \/ first_is is_hashc r = false)).
    { intros r H. destruct a; [left; reflexivity | right; exact H]. }
    destruct (b0 && negb (c_eqb c nl)) eqn:Sk.
    + (* still inside a comment *)
      destruct (IH a true false ltac:(lia)) as [out [sk H]].
      destruct a as [|c2 a2].
      * exists EmptyString, true. intros r _. change (String c EmptyString +++ r) with (String c r). rewrite fc_step, Sk. apply fc_skip_pok.
      * exists out, sk. intros r Hr. change (String c (String c2 a2) +++ r) with (String c (String c2 a2 +++ r)).
        rewrite fc_step, Sk. apply H. exact Hr.
    + destruct (c_eqb c c_hash && p0) eqn:Hs.
      * (* a comment starts here *)
        destruct (IH a true false ltac:(lia)) as [out [sk H]].
        destruct a as [|c2 a2].
        -- exists EmptyString, true. intros r _. change (String c EmptyString +++ r) with (String c r). rewrite fc_step, Sk, Hs. apply fc_skip_pok.
        -- exists out, sk. intros r Hr. change (String c (String c2 a2) +++ r) with (String c (String c2 a2 +++ r)).
           rewrite fc_step, Sk, Hs. apply H. exact Hr.
      * destruct a as [|c2 a2].
        -- (* c is the last character of the prefix *)
           exists (String c EmptyString), false. intros r Hr. change (String c EmptyString +++ r) with (String c r).
           rewrite fc_step, Sk, Hs. destruct r as [|c3 r3]; [reflexivity|].
           destruct (c_eqb c nl && c_eqb c3 c_hash) eqn:E; [|reflexivity].
           exfalso. apply andb_true_iff in E as [E1 E2]. destruct Hr as [Hr|Hr]; simpl in Hr; unfold is_nlc, is_hashc in Hr; congruence.
        -- simpl in Hn. destruct (c_eqb c nl && c_eqb c2 c_hash) eqn:Cm.
           ++ destruct (IH a2 true false ltac:(lia)) as [out [sk H]].
              destruct a2 as [|c3 a3].
              ** exists EmptyString, true. intros r _. change (String c (String c2 EmptyString) +++ r) with (String c (String c2 r)).
                 rewrite fc_step, Sk, Hs, Cm. apply fc_skip_pok.
              ** exists out, sk. intros r Hr.
                 change (String c (String c2 (String c3 a3)) +++ r) with (String c (String c2 (String c3 a3 +++ r))).
                 rewrite fc_step, Sk, Hs, Cm. apply H. exact Hr.
           ++ destruct (IH (String c2 a2) false (ok_before_hash c) ltac:(simpl; lia)) as [out [sk H]].
              exists (String c out), sk. intros r Hr.
              change (String c (String c2 a2) +++ r) with (String c (String c2 (a2 +++ r))). rewrite fc_step, Sk, Hs, Cm.
              change (String c2 (a2 +++ r)) with (String c2 a2 +++ r). rewrite (H r Hr). reflexivity.
Qed.
Lemma fc_prefix a b0 p0 :
  exists out sk, forall r, last_is is_nlc a = false \/ first_is is_hashc r = false ->
    fc (a +++ r) b0 p0 = out +++ fc r sk (pk_of a p0).
Proof. apply (fc_prefix_n (String.length a)). lia. Qed.

Definition ends_here (b : string) : Prop := b = EmptyString \/ exists b', b = String nl b'.

Lemma fc_skip_comment c b p : s_any is_nlc c = false -> fc (c +++ b) true p = fc b true false.
Proof.
  revert p. induction c as [|x c IH]; intros p H; [apply fc_skip_pok|]. cbn [s_any] in H. apply orb_false_iff in H as [Hx Hc].
  unfold is_nlc in Hx. change (String x c +++ b) with (String x (c +++ b)). rewrite fc_step, Hx. cbn [negb andb]. now apply IH.
Qed.
Lemma fc_at_line_end b p q : ends_here b -> fc b true p = fc b false q.
Proof.
  intros [->|[b' ->]]; [reflexivity|]. rewrite !fc_step. change (c_eqb nl nl) with true. change (c_eqb nl c_hash) with false.
  cbn [negb andb]. reflexivity.
Qed.

(** the last character of [a] allows a comment to start right after it *)
Definition comment_may_follow (a : string) : Prop := pk_of a true = true.

(** A comment  "#..."  may be put in front of any line end (or at the end of the text) directly after any
    character other than a backslash — a blank is not needed — and at the very start of the text. *)
Theorem comment_insertion a c b :
  comment_may_follow a -> last_is is_nlc a = false -> s_any is_nlc c = false -> ends_here b ->
  filter_comments (a +++ String c_hash (c +++ b)) = filter_comments (a +++ b).
Proof.
  intros Hp Hl Hc Hb. unfold filter_comments, comment_may_follow in *.
  destruct (fc_prefix a false true) as [out [sk H]].
  rewrite (H _ (or_introl Hl)), (H _ (or_introl Hl)). f_equal. rewrite Hp.
  rewrite fc_step. destruct sk.
  - change (c_eqb c_hash nl) with false. cbn [negb andb]. rewrite fc_skip_comment by assumption. apply fc_skip_pok.
  - cbn [andb]. change (c_eqb c_hash c_hash) with true. cbn [andb].
    rewrite fc_skip_comment by assumption. now apply fc_at_line_end.
Qed.

(** A whole comment line: newline, "#...", in front of a line end. *)
Theorem comment_line_insertion a c b :
  s_any is_nlc c = false -> ends_here b ->
  filter_comments (a +++ String nl (String c_hash (c +++ b))) = filter_comments (a +++ b).
Proof.
  intros Hc Hb. unfold filter_comments.
  assert (Fb : first_is is_hashc b = false) by (destruct Hb as [->|[b' ->]]; reflexivity).
  destruct (fc_prefix a false true) as [out [sk H]].
  rewrite (H (String nl (String c_hash (c +++ b))) (or_intror eq_refl)), (H b (or_intror Fb)). f_equal.
  rewrite fc_step. change (c_eqb nl nl) with true. change (c_eqb nl c_hash) with false. rewrite andb_false_r. cbn [negb andb].
  change (c_eqb c_hash c_hash) with true. cbv iota.
  rewrite fc_skip_comment by assumption.
  destruct sk; [apply fc_skip_pok | now apply fc_at_line_end].
Qed.

(* ------------------------------------------------------------------------------------------ *)
(** * separators: tab, blank, comma, in any number, between the fields of a line *)
Inductive sep_line : list string -> string -> Prop :=
| SL_one t : sep_line [t] t
| SL_more t s ts l : is_empty s = false -> s_all is_sepc s = true -> sep_line ts l -> sep_line (t :: ts) (t +++ s +++ l).

Definition field_ok (t : string) : Prop := is_empty t = false /\ s_any is_sepc t = false.

Lemma toks_seps s r : s_all is_sepc s = true -> toks (s +++ r) = toks r.
Proof. induction s as [|c s IH]; intro H; simpl in *; [reflexivity|]. apply andb_true_iff in H as [Hc Hs]. rewrite toks_sep by assumption. now apply IH. Qed.

Lemma sep_line_toks ts l : sep_line ts l -> Forall field_ok ts -> toks l = ts /\ last_is is_sepc l = false /\ is_empty l = false.
Proof.
  induction 1 as [t0 | t0 s ts l Hs1 Hs2 Hl IH]; intro Hf.
  - inversion Hf as [|t1 l0 [Hn Hs] _]; subst. repeat split; [now apply toks_last | now apply last_is_none | assumption].
  - inversion Hf as [|t1 l0 [Hn Hs] Hf']; subst. destruct (IH Hf') as [T [L E]].
    destruct s as [|c s]; [discriminate|]. simpl in Hs2. apply andb_true_iff in Hs2 as [Hc Hs2].
    repeat split.
    + cbn [String.append]. rewrite toks_tok by assumption. rewrite toks_seps by assumption. now rewrite T.
    + rewrite last_is_app; [rewrite last_is_app by assumption; exact L|]. destruct l; [discriminate | reflexivity].
    + destruct t0; [discriminate | reflexivity].
Qed.

Lemma sep_line_edges ts l : sep_line ts l -> Forall field_ok ts -> edges_ok l = true.
Proof.
  intros H Hf. destruct (sep_line_toks ts l H Hf) as [_ [L _]]. unfold edges_ok. rewrite L. rewrite andb_true_r. apply negb_true_iff.
  inversion H as [t0 | t0 s ts' l' Hs1 Hs2 Hl]; subst; inversion Hf as [|t1 l0 [Hn Hs] _]; subst.
  - destruct l; [discriminate|]. simpl in *. now apply orb_false_iff in Hs as [Hs _].
  - now apply first_is_tok.
Qed.

(** the atom-line and charge/multiplicity-line recognisers see only the fields, not what separates them *)
Theorem layout_separators nuc ts l l' :
  Forall field_ok ts -> sep_line ts l -> sep_line ts l' ->
  atom_match nuc l = atom_match nuc l' /\ cgmp_match l = cgmp_match l'.
Proof.
  intros Hf H H'. unfold atom_match, cgmp_match.
  rewrite (sep_line_edges ts l H Hf), (sep_line_edges ts l' H' Hf).
  destruct (sep_line_toks ts l H Hf) as [T _]. destruct (sep_line_toks ts l' H' Hf) as [T' _].
  rewrite T, T'. split; reflexivity.
Qed.

(* ------------------------------------------------------------------------------------------ *)
(** * letter case of the keywords *)
Lemma is_ws_eq_lower c : is_ws_eq (c_lower c) = is_ws_eq c.
Proof. destruct c as [[] [] [] [] [] [] [] []]; reflexivity. Qed.
Lemma c_lower_idem c : c_lower (c_lower c) = c_lower c.
Proof. destruct c as [[] [] [] [] [] [] [] []]; reflexivity. Qed.
Lemma s_lower_idem s : s_lower (s_lower s) = s_lower s.
Proof. induction s as [|c s IH]; simpl; [reflexivity|]. now rewrite c_lower_idem, IH. Qed.
Lemma s_lower_drop n s : s_lower (s_drop n s) = s_drop n (s_lower s).
Proof. revert s; induction n as [|n IH]; intro s; [reflexivity|]. destruct s; simpl; [reflexivity | apply IH]. Qed.
Lemma drop_while_ws_eq_lower s : s_lower (drop_while is_ws_eq s) = drop_while is_ws_eq (s_lower s).
Proof. induction s as [|c s IH]; [reflexivity|]. cbn [drop_while s_lower]. rewrite is_ws_eq_lower. destruct (is_ws_eq c); [exact IH | reflexivity]. Qed.
Lemma first_is_ws_eq_lower s : first_is is_ws_eq (s_lower s) = first_is is_ws_eq s.
Proof. destruct s; [reflexivity|]. simpl. apply is_ws_eq_lower. Qed.
Lemma au_dotted_lower w : au_dotted (s_lower w) = au_dotted w.
Proof.
  destruct w as [|a [|b [|c [|d [|e r]]]]]; try reflexivity. cbn [s_lower au_dotted]. now rewrite !c_lower_idem.
Qed.
Lemma s_all_word_lower s : s_all c_is_word (s_lower s) = s_all c_is_word s.
Proof.
  induction s as [|c s IH]; [reflexivity|]. cbn [s_lower s_all]. rewrite IH. f_equal.
  destruct c as [[] [] [] [] [] [] [] []]; reflexivity.
Qed.
Lemma is_empty_lower s : is_empty (s_lower s) = is_empty s.
Proof. destruct s; reflexivity. Qed.

Lemma units_match_lower l : units_match (s_lower l) = units_match l.
Proof.
  unfold units_match. rewrite s_lower_idem. destruct (s_prefix "unit" (s_lower l)); [|reflexivity].
  rewrite <- s_lower_drop.
  set (r0 := s_drop 4 l).
  assert (E : (match s_lower r0 with String c r => if c_eqb (c_lower c) (ch 115) then r else s_lower r0 | EmptyString => s_lower r0 end)
              = s_lower (match r0 with String c r => if c_eqb (c_lower c) (ch 115) then r else r0 | EmptyString => r0 end)).
  { destruct r0 as [|c r]; [reflexivity|]. cbn [s_lower]. rewrite c_lower_idem. destruct (c_eqb (c_lower c) (ch 115)); reflexivity. }
  rewrite E. set (r1 := match r0 with String c r => if c_eqb (c_lower c) (ch 115) then r else r0 | EmptyString => r0 end).
  rewrite first_is_ws_eq_lower. destruct (first_is is_ws_eq r1); [|reflexivity].
  rewrite <- drop_while_ws_eq_lower, s_lower_idem, au_dotted_lower. reflexivity.
Qed.
Lemma symmetry_match_lower l : symmetry_match (s_lower l) = symmetry_match l.
Proof.
  unfold symmetry_match. rewrite s_lower_idem. destruct (s_prefix "symmetry" (s_lower l)); [|reflexivity].
  rewrite <- s_lower_drop, first_is_ws_eq_lower. destruct (first_is is_ws_eq (s_drop 8 l)); [|reflexivity].
  rewrite <- drop_while_ws_eq_lower, is_empty_lower, s_all_word_lower, s_lower_idem. reflexivity.
Qed.

(** units / no_com / no_reorient / symmetry lines mean the same in any letter case *)
Theorem layout_keyword_case l l' :
  s_lower l = s_lower l' ->
  is_com l = is_com l' /\ is_orient l = is_orient l' /\ units_match l = units_match l' /\ symmetry_match l = symmetry_match l'.
Proof.
  intro H. unfold is_com, is_orient. rewrite H. repeat split.
  - now rewrite <- (units_match_lower l), <- (units_match_lower l'), H.
  - now rewrite <- (symmetry_match_lower l), <- (symmetry_match_lower l'), H.
Qed.

(* ------------------------------------------------------------------------------------------ *)
(** * blank lines and white space around lines (psi4) *)
Lemma strip_all_ws w : s_all c_is_space w = true -> s_strip w = EmptyString.
Proof. intro H. unfold s_strip. now rewrite lstrip_all_ws. Qed.

Definition psi4_of_lines (L : list string) : outcome processed := parse_psi4_lines (filter nonempty (map s_strip L)).

Theorem layout_blank_lines_psi4 L1 w L2 :
  s_all c_is_space w = true -> psi4_of_lines (L1 ++ w :: L2) = psi4_of_lines (L1 ++ L2).
Proof.
  intro H. unfold psi4_of_lines. rewrite !map_app, !filter_app. cbn [map filter].
  rewrite (strip_all_ws w H). reflexivity.
Qed.

Theorem layout_line_padding_psi4 L L' :
  Forall2 (fun l l' => exists w1 w2, s_all c_is_space w1 = true /\ s_all c_is_space w2 = true /\ l' = w1 +++ l +++ w2) L L' ->
  psi4_of_lines L' = psi4_of_lines L.
Proof.
  intro H. unfold psi4_of_lines. f_equal. f_equal.
  induction H as [|l l' L L' [w1 [w2 [H1 [H2 ->]]]] _ IH]; [reflexivity|]. cbn [map]. rewrite strip_outer by assumption. now rewrite IH.
Qed.

(* ------------------------------------------------------------------------------------------ *)
(** * equivalent spellings of a number *)
(** same real number: equal signs and coef * 10^exp equal (compared after scaling to the smaller exponent) *)
Definition dnum_same (a b : dnum) : Prop :=
  dneg a = dneg b /\
  (dcoef a * 10 ^ (dexp a - Z.min (dexp a) (dexp b)) = dcoef b * 10 ^ (dexp b - Z.min (dexp a) (dexp b)))%Z.

Lemma c_plus_not_digit : c_is_digit c_plus = false /\ c_eqb c_plus c_minus = false /\ c_eqb c_plus c_plus = true.
Proof. repeat split. Qed.

(** an explicit "+" changes nothing *)
Theorem numeral_plus s c r : s = String c r -> c_eqb c c_minus = false -> c_eqb c c_plus = false ->
  parse_number (String c_plus s) = parse_number s.
Proof.
  intros -> Hm Hp. unfold parse_number.
  assert (E1 : split_sign (String c_plus (String c r)) = (false, String c r)) by reflexivity.
  assert (E2 : split_sign (String c r) = (false, String c r)) by (simpl; now rewrite Hm, Hp).
  now rewrite E1, E2.
Qed.

(** scientific notation  A.B x ds  (x one of D d E e, unsigned exponent): value and independence of the letter *)
Lemma parse_number_sci A B x ds :
  s_all c_is_digit A = true -> is_empty A = false -> s_all c_is_digit B = true ->
  is_expc x = true -> s_all c_is_digit ds = true -> is_empty ds = false ->
  parse_number (A +++ String c_dot (B +++ String x ds))
  = Some {| dneg := false; dcoef := digits_or_zero (A +++ B); dexp := (digits_or_zero ds - Z.of_nat (String.length B))%Z |}.
Proof.
  intros HA HnA HB Hx Hd Hnd. unfold parse_number.
  destruct (first_digit_of A HA HnA) as [c [r [EA Hc]]]. destruct (digit_not_sign c Hc) as [M [P _]].
  assert (Esign : split_sign (A +++ String c_dot (B +++ String x ds)) = (false, A +++ String c_dot (B +++ String x ds))).
  { rewrite EA. simpl. now rewrite M, P. }
  rewrite Esign.
  assert (Fd : first_is c_is_digit (String c_dot (B +++ String x ds)) = false) by reflexivity.
  rewrite (take_while_all c_is_digit A _ HA Fd), (drop_while_all c_is_digit A _ HA Fd).
  change (c_eqb c_dot c_dot) with true. cbv iota.
  assert (Fx : first_is c_is_digit (String x ds) = false).
  { simpl. destruct x as [[] [] [] [] [] [] [] []]; vm_compute in Hx |- *; try discriminate; reflexivity. }
  rewrite (take_while_all c_is_digit B _ HB Fx), (drop_while_all c_is_digit B _ HB Fx).
  rewrite HnA. cbn [andb]. rewrite Hx.
  destruct (first_digit_of ds Hd Hnd) as [d0 [dr [Ed Hd0]]]. destruct (digit_not_sign d0 Hd0) as [M2 [P2 _]].
  assert (Es2 : split_sign ds = (false, ds)) by (rewrite Ed; simpl; now rewrite M2, P2).
  rewrite Es2, Hnd, Hd. reflexivity.
Qed.

Theorem numeral_exponent_letter A B x y ds :
  s_all c_is_digit A = true -> is_empty A = false -> s_all c_is_digit B = true ->
  is_expc x = true -> is_expc y = true -> s_all c_is_digit ds = true -> is_empty ds = false ->
  parse_number (A +++ String c_dot (B +++ String x ds)) = parse_number (A +++ String c_dot (B +++ String y ds)).
Proof. intros. now rewrite !parse_number_sci. Qed.

(** leading zeros *)
Lemma digits_or_zero_lead0 s : is_empty s = false -> digits_or_zero (String zero_ch s) = digits_or_zero s.
Proof.
  intro Hn. unfold digits_or_zero, digits_val. destruct s as [|c r]; [discriminate|].
  change (NilEmpty.uint_of_string (String zero_ch (String c r))) with (DecimalString.uint_of_char zero_ch (NilEmpty.uint_of_string (String c r))).
  destruct (NilEmpty.uint_of_string (String c r)) as [u|]; reflexivity.
Qed.
Theorem numeral_leading_zero A B :
  s_all c_is_digit A = true -> is_empty A = false -> s_all c_is_digit B = true ->
  parse_number (String zero_ch A +++ String c_dot B) = parse_number (A +++ String c_dot B).
Proof.
  intros HA HnA HB.
  rewrite (parse_number_dotted (String zero_ch A) B) by (simpl; try rewrite HA; auto).
  rewrite (parse_number_dotted A B) by assumption.
  cbn [String.append]. rewrite digits_or_zero_lead0; [reflexivity|].
  destruct A; [discriminate | reflexivity].
Qed.
