(** C08 — the rendered CHARACTERS of further program blocks, read back by an independent reader: nwchem, cfour,
    orca, madness, terachem (a block of atom lines between a fixed number of header and trailer lines) and qchem
    (the $molecule section, fragments and "@" ghosts, read with the chg/mult + "--" grammar it shares with psi4). *)
From Coq Require Import ZArith NArith List String Ascii Bool Lia.
Require Import QV.Common.Outcome QV.Common.WText QV.Common.WBin64 QV.Model.WriterTypes QV.Gen.WriterTables QV.Model.Writers
               QV.Model.Text QV.Proofs.Writers QV.Proofs.TextRT QV.Proofs.TextLex QV.Proofs.TextLayout QV.Proofs.TextRoundTrip
               QV.Proofs.TextRoundTripXyz QV.Proofs.WritersReread.
Import ListNotations.
Open Scope nat_scope.

Local Notation "a +++ b" := (String.append a b) (at level 60, right associativity).

(* ------------------------------------------------------------------------------------------ *)
(** * the lines of a text whose lines hold no newline *)
Definition nonl (l : string) : Prop := s_any is_nl l = false.

Lemma split_join_nonl L : L <> [] -> Forall nonl L -> s_split nl (jn L) = L.
Proof.
  induction L as [|x L IH]; intros Hn H; [contradiction|].
  inversion H as [|x0 L0 Hx HL]; subst. destruct L as [|y L].
  - simpl. now apply split_single.
  - rewrite jn_cons, split_line by assumption. f_equal. apply IH; [discriminate | assumption].
Qed.

Lemma jn_final_nl L : L <> [] -> jn L +++ String nl EmptyString = jn (L ++ [EmptyString]).
Proof.
  induction L as [|x L IH]; intro Hn; [contradiction|]. destruct L as [|y L].
  - reflexivity.
  - change ((x :: y :: L) ++ [EmptyString]) with (x :: y :: (L ++ [EmptyString])). rewrite !jn_cons.
    rewrite app_assoc_s. cbn [String.append]. apply f_equal, f_equal. exact (IH ltac:(discriminate)).
Qed.

Lemma text_lines L : L <> [] -> Forall nonl L -> s_split nl (jn L +++ String nl EmptyString) = L ++ [EmptyString].
Proof.
  intros Hn H. rewrite jn_final_nl by assumption. apply split_join_nonl.
  - destruct L; [contradiction | discriminate].
  - apply Forall_app. split; [assumption | constructor; [reflexivity | constructor]].
Qed.

(* ------------------------------------------------------------------------------------------ *)
(** * atom lines under any one-word label *)
Definition free_label (s : string) : bool := true.
Definition sep_or_space (c : ascii) : bool := is_sepc c || c_is_space c.
Definition plain_word (s : string) : Prop := s_any sep_or_space s = false.

Lemma sep_or_space_facts c : sep_or_space c = false -> is_sepc c = false /\ is_nl c = false /\ c_is_space c = false.
Proof. destruct c as [[] [] [] [] [] [] [] []]; vm_compute; intro H; try discriminate; auto. Qed.

Lemma plain_word_facts s : plain_word s -> s_any is_sepc s = false /\ s_any is_nl s = false.
Proof.
  intro H. split; (eapply s_any_weaken; [|exact H]); intros c Hc; destruct (sep_or_space_facts c Hc) as [A [B _]]; assumption.
Qed.
Lemma plain_word_app a b : plain_word a -> plain_word b -> plain_word (a +++ b).
Proof. unfold plain_word. intros Ha Hb. now rewrite s_any_app, Ha, Hb. Qed.

Definition view_plain (v : atom_view) : Prop :=
  plain_word (av_label v) /\ is_empty (av_label v) = false
  /\ (0 <= bm (av_x v))%Z /\ (0 <= bm (av_y v))%Z /\ (0 <= bm (av_z v))%Z.

Lemma atom_match_free w p v :
  view_plain v ->
  atom_match free_label (render_atom w p false false v) = Some (av_label v, dn p (av_x v), dn p (av_y v), dn p (av_z v)).
Proof.
  intros [Pl [Ln [Hx [Hy Hz]]]]. destruct (plain_word_facts _ Pl) as [Ls _].
  set (FX := fmt_f p (av_x v)). set (FY := fmt_f p (av_y v)). set (FZ := fmt_f p (av_z v)).
  assert (NX : s_any is_sepc FX = false /\ is_empty FX = false) by (split; [apply numeric_no_sep, fmt_f_numch | now apply fmt_f_nonempty]).
  assert (NY : s_any is_sepc FY = false /\ is_empty FY = false) by (split; [apply numeric_no_sep, fmt_f_numch | now apply fmt_f_nonempty]).
  assert (NZ : s_any is_sepc FZ = false /\ is_empty FZ = false) by (split; [apply numeric_no_sep, fmt_f_numch | now apply fmt_f_nonempty]).
  rewrite atom_line_shape. fold FX FY FZ.
  set (R3 := s_repeat sp (w - String.length FZ) +++ FZ).
  set (R2 := s_repeat sp (w - String.length FY) +++ FY +++ s_repeat sp 0 +++ two_sp +++ R3).
  set (R1 := s_repeat sp (w - String.length FX) +++ FX +++ s_repeat sp 0 +++ two_sp +++ R2).
  set (line := av_label v +++ s_repeat sp (w - String.length (av_label v)) +++ two_sp +++ R1).
  assert (T3 : toks R3 = [FZ]) by (unfold R3; rewrite toks_spaces; apply toks_last; tauto).
  assert (T2 : toks R2 = [FY; FZ]) by (unfold R2; rewrite toks_spaces, toks_field by tauto; now rewrite T3).
  assert (T1 : toks R1 = [FX; FY; FZ]) by (unfold R1; rewrite toks_spaces, toks_field by tauto; now rewrite T2).
  assert (T0 : toks line = [av_label v; FX; FY; FZ]) by (unfold line; rewrite toks_field by assumption; now rewrite T1).
  assert (Ed : edges_ok line = true).
  { unfold edges_ok. apply andb_true_iff. split; apply negb_true_iff.
    - unfold line. apply first_is_tok; assumption.
    - unfold line, R1, R2, R3. rewrite <- !app_assoc_s. rewrite last_is_app by tauto. apply last_is_none; tauto. }
  unfold atom_match. rewrite Ed, T0. unfold free_label, FX, FY, FZ. rewrite !parse_number_fmt by assumption. reflexivity.
Qed.

Lemma atom_line_nonl w p v : view_plain v -> nonl (render_atom w p false false v).
Proof.
  intros [Pl _]. destruct (plain_word_facts _ Pl) as [_ Lnl]. unfold nonl. rewrite atom_line_shape.
  destruct (numeric_plain _ (fmt_f_numch p (av_x v))) as [X1 _].
  destruct (numeric_plain _ (fmt_f_numch p (av_y v))) as [Y1 _].
  destruct (numeric_plain _ (fmt_f_numch p (av_z v))) as [Z1 _].
  rewrite !s_any_app, Lnl, X1, Y1, Z1, !(s_any_repeat is_nl sp _ eq_refl). reflexivity.
Qed.

Fixpoint all_atoms (ls : list string) : option (list atomd) :=
  match ls with
  | [] => Some []
  | l :: r => match atom_match free_label l, all_atoms r with
              | Some a, Some t => Some (a :: t)
              | _, _ => None
              end
  end.

Lemma all_atoms_render cfg atoms :
  Forall view_plain atoms ->
  all_atoms (map (rl cfg) (map LAtom atoms)) = Some (map (atomd_of (w_prec cfg)) atoms)
  /\ Forall nonl (map (rl cfg) (map LAtom atoms)).
Proof.
  induction 1 as [|v atoms Hv _ [IH1 IH2]]; [split; [reflexivity | constructor]|].
  cbn [map all_atoms]. unfold rl at 1 3. cbn [render_line]. rewrite (atom_match_free _ _ v Hv). fold (rl cfg). rewrite IH1.
  split; [reflexivity | constructor; [now apply atom_line_nonl | exact IH2]].
Qed.

(* ------------------------------------------------------------------------------------------ *)
(** * the block reader: [h] header lines, atom lines, [t] trailer lines, and the text ends with a newline *)
Definition read_lines (h t : nat) (L : list string) : option (list string * list atomd * list string) :=
  let n := List.length L - h - t - 1 in
  match all_atoms (firstn n (skipn h L)) with
  | Some ats =>
      match skipn (h + n + t) L with
      | [e] => if is_empty e then Some (firstn h L, ats, firstn t (skipn (h + n) L)) else None
      | _ => None
      end
  | None => None
  end.
Definition read_block (h t : nat) (text : string) : option (list string * list atomd * list string) :=
  read_lines h t (s_split nl text).

Lemma skipn_len_app {A} (l r : list A) : skipn (List.length l) (l ++ r) = r.
Proof. induction l; simpl; auto. Qed.
Lemma firstn_len_app {A} (l r : list A) : firstn (List.length l) (l ++ r) = l.
Proof. induction l; simpl; [now destruct r | now f_equal]. Qed.
Lemma skipn_plus {A} (l : list A) a b : skipn (a + b) l = skipn b (skipn a l).
Proof. revert l; induction a; intro l; simpl; [reflexivity|]. destruct l; [now rewrite skipn_nil | apply IHa]. Qed.

Lemma read_lines_spec head body tail ats :
  all_atoms body = Some ats ->
  read_lines (List.length head) (List.length tail) (head ++ body ++ tail ++ [EmptyString]) = Some (head, ats, tail).
Proof.
  intro H. unfold read_lines.
  assert (N : List.length (head ++ body ++ tail ++ [EmptyString]) - List.length head - List.length tail - 1 = List.length body).
  { rewrite !app_length. simpl. lia. }
  rewrite N. rewrite skipn_len_app, firstn_len_app, H.
  rewrite !skipn_plus, skipn_len_app, skipn_len_app, skipn_len_app. cbn [is_empty]. rewrite !firstn_len_app. reflexivity.
Qed.

(* ------------------------------------------------------------------------------------------ *)
(** * labels produced by the programs' templates *)
Record atom_plain (a : atom) : Prop := {
  ap_elem : plain_word (a_elem a); ap_elem_ne : is_empty (a_elem a) = false; ap_elbl : plain_word (a_elbl a);
  ap_x : (0 <= bm (a_x a))%Z; ap_y : (0 <= bm (a_y a))%Z; ap_z : (0 <= bm (a_z a))%Z
}.
Definition label_plain (s : string) : Prop := plain_word s /\ is_empty s = false.

Lemma fmt_elem_colon a : py_format "{elem}:" a = Ok (a_elem a +++ ":").
Proof. cbv -[String.append a_elem a_elbl]. reflexivity. Qed.
Lemma fmt_GH a : py_format "GH" a = Ok "GH"%string.
Proof. reflexivity. Qed.
Lemma fmt_bq a : py_format "bq{elem}{elbl}" a = Ok ("bq" +++ a_elem a +++ a_elbl a).
Proof. cbv -[String.append a_elem a_elbl]. now rewrite app_nil_r_s. Qed.
Lemma fmt_X a : py_format "X{elem}" a = Ok ("X" +++ a_elem a).
Proof. cbv -[String.append a_elem a_elbl]. now rewrite app_nil_r_s. Qed.

Lemma nonempty_app a b : is_empty a = false -> is_empty (a +++ b) = false.
Proof. destruct a; [discriminate | reflexivity]. Qed.

Lemma lp_elem a : atom_plain a -> label_plain (a_elem a).
Proof. intros [H1 H2 _ _ _ _]. split; assumption. Qed.
Lemma lp_elem_colon a : atom_plain a -> label_plain (a_elem a +++ ":").
Proof. intros [H1 H2 _ _ _ _]. split; [apply plain_word_app; [assumption | reflexivity] | now apply nonempty_app]. Qed.
Lemma lp_GH a : atom_plain a -> label_plain "GH".
Proof. intros _. split; reflexivity. Qed.
Lemma lp_elem_elbl a : atom_plain a -> label_plain (a_elem a +++ a_elbl a).
Proof. intros [H1 H2 H3 _ _ _]. split; [now apply plain_word_app | now apply nonempty_app]. Qed.
Lemma lp_bq a : atom_plain a -> label_plain ("bq" +++ a_elem a +++ a_elbl a).
Proof. intros [H1 H2 H3 _ _ _]. split; [apply (plain_word_app "bq"); [reflexivity | now apply plain_word_app] | reflexivity]. Qed.
Lemma lp_X a : atom_plain a -> label_plain ("X" +++ a_elem a).
Proof. intros [H1 H2 _ _ _ _]. split; [apply (plain_word_app "X"); [reflexivity | assumption] | reflexivity]. Qed.

Lemma views_plain af gf (la lg : atom -> string) f l :
  (forall a, py_format af a = Ok (la a)) -> (forall a, py_format gf a = Ok (lg a)) -> s_eqb gf "" = false ->
  (forall a, atom_plain a -> label_plain (la a)) -> (forall a, atom_plain a -> label_plain (lg a)) ->
  forall atoms, atoms_formatter af gf f l = Ok atoms -> Forall atom_plain l -> (0 <= bm f)%Z ->
  Forall view_plain atoms /\ Forall2 (is_view af gf f) l atoms.
Proof.
  intros Fa Fg G Pa Pg. induction l as [|a l IH]; intros atoms H Hf Hb; cbn [atoms_formatter] in H.
  - inversion H; subst. split; constructor.
  - inversion Hf as [|a0 l0 Ha Hf']; subst. rewrite G in H.
    destruct (a_real a) eqn:R.
    + rewrite Fa in H. cbn [obind] in H. apply obind_ok in H as [vs [Hv H]]. inversion H; subst.
      destruct (IH vs Hv Hf' Hb) as [I1 I2]. split; constructor; try assumption.
      * destruct (Pa a Ha) as [P1 P2]. destruct Ha as [_ _ _ Hx Hy Hz]. unfold view_plain, convert; simpl.
        repeat split; try assumption; apply b64mul_nonneg; assumption.
      * unfold is_view, convert; simpl. rewrite R, Fa. auto.
    + rewrite Fg in H. cbn [obind] in H. apply obind_ok in H as [vs [Hv H]]. inversion H; subst.
      destruct (IH vs Hv Hf' Hb) as [I1 I2]. split; constructor; try assumption.
      * destruct (Pg a Ha) as [P1 P2]. destruct Ha as [_ _ _ Hx Hy Hz]. unfold view_plain, convert; simpl.
        repeat split; try assumption; apply b64mul_nonneg; assumption.
      * unfold is_view, convert; simpl. rewrite R, Fg. auto.
Qed.

(* ------------------------------------------------------------------------------------------ *)
(** * to_lines through the formatter *)
Lemma to_lines_inv cfg m ls kw e :
  wt_find (s_lower (w_dtype cfg)) wt_table = Some e -> s_eqb (s_lower (w_dtype cfg)) "nglview-sdf" = false ->
  wt_formatter e = true -> to_lines cfg m = Ok (ls, kw) ->
  exists atoms, atoms_formatter (af_of e cfg) (gf_of e cfg) (factor_of e cfg m) (m_atoms m) = Ok atoms
                /\ branch_lines e cfg m atoms = Ok ls.
Proof.
  intros F S W H. unfold to_lines in H. rewrite F, S, W in H.
  apply obind_ok in H as [u [_ H]]. apply obind_ok in H as [atoms [Ha H]]. apply obind_ok in H as [ls' [Hb H]].
  apply obind_ok in H as [kw' [_ H]]. inversion H; subst. exists atoms. split; assumption.
Qed.

Lemma assoc_in k l v : assoc k l = Some v -> In v (map snd l).
Proof.
  induction l as [|[x y] l IH]; simpl; [discriminate|]. destruct (s_eqb x k); [intro H; inversion H; now left | intro H; right; now apply IH].
Qed.

(* ------------------------------------------------------------------------------------------ *)
(** * header / trailer lines hold no newline *)
Lemma nonl_app a b : nonl a -> nonl b -> nonl (a +++ b).
Proof. unfold nonl. intros Ha Hb. now rewrite s_any_app, Ha, Hb. Qed.
Lemma nonl_cons c s : is_nl c = false -> nonl s -> nonl (String c s).
Proof. unfold nonl. intros Hc Hs. cbn [s_any]. now rewrite Hc, Hs. Qed.
Lemma nonl_rstrip s : nonl s -> nonl (s_rstrip s).
Proof.
  unfold nonl. induction s as [|c s IH]; intro H; [reflexivity|]. cbn [s_any] in H. apply orb_false_iff in H as [Hc Hs].
  cbn [s_rstrip]. specialize (IH Hs). destruct (s_rstrip s) as [|c2 r2].
  - destruct (c_is_space c); [reflexivity | cbn [s_any]; now rewrite Hc].
  - cbn [s_any] in *. now rewrite Hc, IH.
Qed.
Lemma nonl_dec z : nonl (dec_of_Z z).
Proof. apply (numeric_plain _ (dec_of_Z_numch z)). Qed.

Lemma unit_label_nonl e u lbl :
  wt_umode e <> UGetSelf -> Forall nonl (map snd (wt_umap e)) -> unit_label e u = Ok lbl -> nonl (show_opt lbl).
Proof.
  intros Hm Hv H. unfold unit_label in H. cbv zeta in H. rewrite Forall_forall in Hv.
  destruct (wt_umode e); try contradiction.
  - destruct (assoc (s_lower u) (wt_umap e)) as [v|] eqn:A; [|discriminate]. inversion H; subst. apply Hv. eapply assoc_in; eassumption.
  - inversion H; subst. destruct (assoc (s_lower u) (wt_umap e)) as [v|] eqn:A; [|reflexivity]. apply Hv. eapply assoc_in; eassumption.
  - inversion H; subst. reflexivity.
Qed.

(* ------------------------------------------------------------------------------------------ *)
(** * the five block formats *)
Definition block_shape (d : string) : option (nat * nat) :=
  if s_eqb d "nwchem" then Some (1, 2) else if s_eqb d "cfour" then Some (1, 0) else if s_eqb d "orca" then Some (3, 1)
  else if s_eqb d "madness" then Some (2, 1) else if s_eqb d "terachem" then Some (2, 0) else None.

Record block_fits (e : wt_entry) (cfg : wcfg) (m : molrec) : Prop := {
  bf_atoms : Forall atom_plain (m_atoms m);
  bf_factor : (0 <= bm (factor_of e cfg m))%Z;
  bf_name : nonl (mol_name m);
  bf_symm : match m_fix_symm m with Some s => nonl s | None => True end
}.

Lemma finish cfg e head atoms tail :
  wt_xyze e = false -> wt_lower e = false -> head <> [] ->
  Forall view_plain atoms -> Forall nonl (map (rl cfg) head) -> Forall nonl (map (rl cfg) tail) ->
  read_block (List.length head) (List.length tail) (render_text cfg e (head ++ map LAtom atoms ++ tail))
  = Some (map (rl cfg) head, map (atomd_of (w_prec cfg)) atoms, map (rl cfg) tail).
Proof.
  intros X Lw Hn Vp Hh Ht. unfold render_text. rewrite X, Lw. fold (rl cfg). fold (jn (map (rl cfg) (head ++ map LAtom atoms ++ tail))).
  destruct (all_atoms_render cfg atoms Vp) as [A1 A2].
  unfold read_block. rewrite text_lines.
  - rewrite !map_app, <- !app_assoc. rewrite <- (map_length (rl cfg) head), <- (map_length (rl cfg) tail).
    now apply read_lines_spec.
  - destruct head; [contradiction | discriminate].
  - rewrite !map_app. apply Forall_app; split; [assumption|]. apply Forall_app; split; assumption.
Qed.

Lemma branch_nwchem e cfg m atoms : wt_dtype e = "nwchem"%string ->
  branch_lines e cfg m atoms
  = obind (unit_label e (units_of e cfg)) (fun lbl =>
      Ok (LText ("geometry units " +++ show_opt lbl) :: map LAtom atoms
          ++ [LText (match m_fix_symm m with Some s => if s_eqb s "" then "" else "symmetry " +++ s | None => "" end); LText "end"])).
Proof. intro E. unfold branch_lines. rewrite E. reflexivity. Qed.
Lemma branch_cfour e cfg m atoms : wt_dtype e = "cfour"%string -> branch_lines e cfg m atoms = Ok (LText (tagline m) :: map LAtom atoms).
Proof. intro E. unfold branch_lines. rewrite E. reflexivity. Qed.
Lemma branch_orca e cfg m atoms : wt_dtype e = "orca"%string ->
  branch_lines e cfg m atoms
  = obind (unit_label e (units_of e cfg)) (fun lbl =>
      Ok (LText (show_opt lbl) :: LText "" :: LChgMult "*xyz " (m_chg m) (m_mult m) "" :: map LAtom atoms ++ [LText "*"])).
Proof. intro E. unfold branch_lines. rewrite E. reflexivity. Qed.
Lemma branch_madness e cfg m atoms : wt_dtype e = "madness"%string ->
  branch_lines e cfg m atoms
  = obind (unit_label e (units_of e cfg)) (fun lbl =>
      Ok (LText "geometry" :: LText ("units " +++ show_opt lbl) :: map LAtom atoms ++ [LText "end"])).
Proof. intro E. unfold branch_lines. rewrite E. reflexivity. Qed.
Lemma branch_terachem e cfg m atoms : wt_dtype e = "terachem"%string ->
  branch_lines e cfg m atoms
  = obind (unit_label e (units_of e cfg)) (fun lbl =>
      Ok (LText (s_rstrip (dec_of_Z (zlen atoms) +++ " " +++ show_opt lbl)) :: LText (mol_name m) :: map LAtom atoms)).
Proof. intro E. unfold branch_lines. rewrite E. reflexivity. Qed.

Ltac open_case F E1 H Hl ls e :=
  let F0 := fresh "F0" in
  pose proof F as F0; rewrite E1 in F0; vm_compute in F0; inversion F0; subst e; clear F0;
  unfold to_string_model in H; rewrite F in H;
  let kw' := fresh "kw'" in
  apply obind_ok in H as [[ls kw'] [Hl H]]; inversion H; subst; clear H; cbn [fst].

Theorem block_text_states_the_atoms cfg m text kw e h t :
  wt_find (s_lower (w_dtype cfg)) wt_table = Some e -> block_shape (s_lower (w_dtype cfg)) = Some (h, t) ->
  to_string_model cfg m = Ok (text, kw) -> block_fits e cfg m ->
  exists atoms head tail,
    Forall2 (is_view (af_of e cfg) (gf_of e cfg) (factor_of e cfg m)) (m_atoms m) atoms
    /\ to_lines cfg m = Ok (head ++ map LAtom atoms ++ tail, kw)
    /\ atom_entries head = [] /\ atom_entries tail = []
    /\ read_block h t text = Some (map (rl cfg) head, map (atomd_of (w_prec cfg)) atoms, map (rl cfg) tail).
Proof.
  intros F S H Fit. unfold block_shape in S.
  destruct (s_eqb (s_lower (w_dtype cfg)) "nwchem") eqn:E1.
  { apply String.eqb_eq in E1. inversion S; subst h t; clear S. open_case F E1 H Hl ls e.
    match type of F with _ = Some ?x => set (e := x) in * end.
    destruct (to_lines_inv cfg m ls kw e F ltac:(rewrite E1; reflexivity) eq_refl Hl) as [atoms [Ha Hb]].
    rewrite branch_nwchem in Hb by reflexivity. apply obind_ok in Hb as [lbl [Hu Hb]]. inversion Hb; subst ls; clear Hb.
    destruct Fit as [Fa Ff Fn Fs].
    destruct (views_plain _ _ _ _ _ _ psi4_format_real fmt_bq eq_refl lp_elem_elbl lp_bq atoms Ha Fa Ff) as [Vp Vv].
    set (hd := [LText ("geometry units " +++ show_opt lbl)]). set (tl := [LText (match m_fix_symm m with Some s => if s_eqb s "" then "" else "symmetry " +++ s | None => "" end); LText "end"]).
    exists atoms, hd, tl.
    split; [exact Vv|]. split; [exact Hl|]. split; [reflexivity|]. split; [reflexivity|].
    apply (finish cfg e hd atoms tl); try reflexivity; try assumption; [discriminate | |].
    - constructor; [|constructor]. apply (nonl_app "geometry units "); [reflexivity|].
      apply (unit_label_nonl e _ _ ltac:(discriminate) ltac:(repeat constructor) Hu).
    - constructor; [|constructor; [reflexivity | constructor]]. unfold rl. cbn [render_line].
      destruct (m_fix_symm m) as [s|]; [|reflexivity]. destruct (s_eqb s ""); [reflexivity|]. apply (nonl_app "symmetry "); [reflexivity | exact Fs]. }
  destruct (s_eqb (s_lower (w_dtype cfg)) "cfour") eqn:E2.
  { apply String.eqb_eq in E2. inversion S; subst h t; clear S. open_case F E2 H Hl ls e.
    match type of F with _ = Some ?x => set (e := x) in * end.
    destruct (to_lines_inv cfg m ls kw e F ltac:(rewrite E2; reflexivity) eq_refl Hl) as [atoms [Ha Hb]].
    rewrite branch_cfour in Hb by reflexivity. inversion Hb; subst ls; clear Hb.
    rewrite <- (app_nil_r (map LAtom atoms)) in Hl |- *.
    destruct Fit as [Fa Ff Fn Fs].
    destruct (views_plain _ _ _ _ _ _ xyzp_format_real fmt_GH eq_refl lp_elem lp_GH atoms Ha Fa Ff) as [Vp Vv].
    set (hd := [LText (tagline m)]). set (tl := @nil line).
    exists atoms, hd, tl.
    split; [exact Vv|]. split; [exact Hl|]. split; [reflexivity|]. split; [reflexivity|].
    apply (finish cfg e hd atoms tl); try reflexivity; try assumption; [discriminate | | constructor].
    constructor; [|constructor]. apply (nonl_app "auto-generated by QCElemental from molecule "); [reflexivity | exact Fn]. }
  destruct (s_eqb (s_lower (w_dtype cfg)) "orca") eqn:E3.
  { apply String.eqb_eq in E3. inversion S; subst h t; clear S. open_case F E3 H Hl ls e.
    match type of F with _ = Some ?x => set (e := x) in * end.
    destruct (to_lines_inv cfg m ls kw e F ltac:(rewrite E3; reflexivity) eq_refl Hl) as [atoms [Ha Hb]].
    rewrite branch_orca in Hb by reflexivity. apply obind_ok in Hb as [lbl [Hu Hb]]. inversion Hb; subst ls; clear Hb.
    destruct Fit as [Fa Ff Fn Fs].
    destruct (views_plain _ _ _ _ _ _ xyzp_format_real fmt_elem_colon eq_refl lp_elem lp_elem_colon atoms Ha Fa Ff) as [Vp Vv].
    set (hd := [LText (show_opt lbl); LText ""; LChgMult "*xyz " (m_chg m) (m_mult m) ""]). set (tl := [LText "*"]).
    exists atoms, hd, tl.
    split; [exact Vv|]. split; [exact Hl|]. split; [reflexivity|]. split; [reflexivity|].
    apply (finish cfg e hd atoms tl); try reflexivity; try assumption; [discriminate | | repeat constructor].
    constructor; [|constructor; [reflexivity|constructor; [|constructor]]].
    - apply (unit_label_nonl e _ _ ltac:(discriminate) ltac:(repeat constructor) Hu).
    - unfold rl. cbn [render_line]. apply (nonl_app "*xyz "); [reflexivity|]. apply nonl_app; [apply nonl_dec|].
      apply nonl_cons; [reflexivity|]. apply nonl_app; [apply nonl_dec | reflexivity]. }
  destruct (s_eqb (s_lower (w_dtype cfg)) "madness") eqn:E4.
  { apply String.eqb_eq in E4. inversion S; subst h t; clear S. open_case F E4 H Hl ls e.
    match type of F with _ = Some ?x => set (e := x) in * end.
    destruct (to_lines_inv cfg m ls kw e F ltac:(rewrite E4; reflexivity) eq_refl Hl) as [atoms [Ha Hb]].
    rewrite branch_madness in Hb by reflexivity. apply obind_ok in Hb as [lbl [Hu Hb]]. inversion Hb; subst ls; clear Hb.
    destruct Fit as [Fa Ff Fn Fs].
    destruct (views_plain _ _ _ _ _ _ xyzp_format_real fmt_GH eq_refl lp_elem lp_GH atoms Ha Fa Ff) as [Vp Vv].
    set (hd := [LText "geometry"; LText ("units " +++ show_opt lbl)]). set (tl := [LText "end"]).
    exists atoms, hd, tl.
    split; [exact Vv|]. split; [exact Hl|]. split; [reflexivity|]. split; [reflexivity|].
    apply (finish cfg e hd atoms tl); try reflexivity; try assumption; [discriminate | | repeat constructor].
    constructor; [reflexivity|constructor; [|constructor]]. apply (nonl_app "units "); [reflexivity|].
    apply (unit_label_nonl e _ _ ltac:(discriminate) ltac:(repeat constructor) Hu). }
  destruct (s_eqb (s_lower (w_dtype cfg)) "terachem") eqn:E5; [|discriminate].
  { apply String.eqb_eq in E5. inversion S; subst h t; clear S. open_case F E5 H Hl ls e.
    match type of F with _ = Some ?x => set (e := x) in * end.
    destruct (to_lines_inv cfg m ls kw e F ltac:(rewrite E5; reflexivity) eq_refl Hl) as [atoms [Ha Hb]].
    rewrite branch_terachem in Hb by reflexivity. apply obind_ok in Hb as [lbl [Hu Hb]]. inversion Hb; subst ls; clear Hb.
    rewrite <- (app_nil_r (map LAtom atoms)) in Hl |- *.
    destruct Fit as [Fa Ff Fn Fs].
    destruct (views_plain _ _ _ _ _ _ xyzp_format_real fmt_X eq_refl lp_elem lp_X atoms Ha Fa Ff) as [Vp Vv].
    set (hd := [LText (s_rstrip (dec_of_Z (zlen atoms) +++ " " +++ show_opt lbl)); LText (mol_name m)]). set (tl := @nil line).
    exists atoms, hd, tl.
    split; [exact Vv|]. split; [exact Hl|]. split; [reflexivity|]. split; [reflexivity|].
    apply (finish cfg e hd atoms tl); try reflexivity; try assumption; [discriminate | | constructor].
    constructor; [|constructor; [exact Fn | constructor]]. unfold rl. cbn [render_line]. apply nonl_rstrip.
    apply nonl_app; [apply nonl_dec|]. apply (nonl_app " "); [reflexivity|].
    apply (unit_label_nonl e _ _ ltac:(discriminate) ltac:(repeat constructor) Hu). }
Qed.

(* ------------------------------------------------------------------------------------------ *)
(** * qchem: the $molecule section (total chg/mult, "--" fragment blocks with their chg/mult, "@" ghosts) and the
      input_bohr keyword.  The reader strips "$molecule" / "$end" and reads the lines in between with the chg/mult
      + "--" + atom-line grammar the section shares with psi4, the unit being what the input_bohr keyword says. *)
Definition e_qchem : wt_entry := match wt_find "qchem" wt_table with Some e => e | None => Build_wt_entry "" "" "" FAbsent "" FAbsent [] UNoMap false false false [] end.
Lemma find_qchem : wt_find "qchem" wt_table = Some e_qchem.
Proof. vm_compute. reflexivity. Qed.

Definition read_qchem (text input_bohr : string) : outcome processed :=
  match s_split nl text with
  | first :: rest =>
      match rev rest with
      | e :: last :: rinner =>
          if s_eqb first "$molecule" && s_eqb last "$end" && is_empty e then
            parse_psi4_lines (rev rinner ++ [if s_eqb input_bohr "True" then "units bohr" else "units angstrom"]%string)
          else Err MoleculeFormat
      | _ => Err MoleculeFormat
      end
  | [] => Err MoleculeFormat
  end.

Definition unit_word_qchem (u : string) : option (string * string) :=       (* (input_bohr value, unit) *)
  let k := s_lower u in
  if s_eqb k "bohr" then Some ("True", "Bohr")%string else if s_eqb k "angstrom" then Some ("False", "Angstrom")%string else None.

Lemma qchem_unit_label u w r : unit_word_qchem u = Some (w, r) -> unit_label e_qchem u = Ok (Some w).
Proof.
  unfold unit_word_qchem. intro H. unfold unit_label. cbv zeta.
  destruct (s_eqb (s_lower u) "bohr") eqn:E1.
  - apply String.eqb_eq in E1. rewrite E1. inversion H; subst. vm_compute. reflexivity.
  - destruct (s_eqb (s_lower u) "angstrom") eqn:E2; [|discriminate].
    apply String.eqb_eq in E2. rewrite E2. inversion H; subst. vm_compute. reflexivity.
Qed.
Lemma unit_word_qchem_cases u w r : unit_word_qchem u = Some (w, r) ->
  (w, r) = ("True", "Bohr")%string \/ (w, r) = ("False", "Angstrom")%string.
Proof.
  unfold unit_word_qchem. destruct (s_eqb (s_lower u) "bohr"); [intro H; inversion H; auto|].
  destruct (s_eqb (s_lower u) "angstrom"); [intro H; inversion H; auto | discriminate].
Qed.

Lemma branch_qchem e cfg m atoms : wt_dtype e = "qchem"%string ->
  branch_lines e cfg m atoms
  = obind (fragment_lines m atoms) (fun body => Ok (LText "$molecule" :: LChgMult "" (m_chg m) (m_mult m) "" :: body ++ [LText "$end"])).
Proof. intro E. unfold branch_lines. rewrite E. reflexivity. Qed.

Record qchem_fits (cfg : wcfg) (m : molrec) : Prop := {
  qf_atoms : Forall atom_fits_xyzp (m_atoms m);
  qf_some : m_atoms m <> [];
  qf_factor : (0 <= bm (factor_of e_qchem cfg m))%Z;
  qf_mult : cm_ok (m_mult m);
  qf_fmult : forall k, cm_ok (nth k (m_fmult m) 0%Z)
}.

Definition carried_qchem (cfg : wcfg) (m : molrec) (atoms : list atom_view) (r : string) : processed :=
  let p := w_prec cfg in
  match m_seps m with
  | [] => result_single {| fd_c := dz (m_chg m); fd_m := m_mult m; fd_atoms := map (atomd_of p) atoms |} r false false
  | _ => result_multi (dz (m_chg m)) (m_mult m) (frags_of p (np_split atoms (m_seps m)) 0 (m_fchg m) (m_fmult m)) r false false
  end.

Lemma xyzp_views_len f l : forall atoms, atoms_formatter "{elem}" "@{elem}" f l = Ok atoms -> List.length atoms = List.length l.
Proof.
  induction l as [|a l IH]; intros atoms H; cbn [atoms_formatter] in H.
  - inversion H; reflexivity.
  - change (s_eqb "@{elem}" "") with false in H. destruct (a_real a).
    + rewrite xyzp_format_real in H. cbn [obind] in H. apply obind_ok in H as [vs [Hv H]]. inversion H; subst. simpl. now rewrite (IH vs Hv).
    + rewrite xyzp_format_ghost in H. cbn [obind] in H. apply obind_ok in H as [vs [Hv H]]. inversion H; subst. simpl. now rewrite (IH vs Hv).
Qed.

Theorem qchem_reads_back cfg m text kw w r :
  s_lower (w_dtype cfg) = "qchem"%string -> to_string_model cfg m = Ok (text, kw) ->
  unit_word_qchem (units_of e_qchem cfg) = Some (w, r) -> qchem_fits cfg m ->
  exists atoms,
    atoms_formatter "{elem}" "@{elem}" (factor_of e_qchem cfg m) (m_atoms m) = Ok atoms
    /\ kw_get "input_bohr" kw = Some (KVStr w)
    /\ read_qchem text w = Ok (carried_qchem cfg m atoms r).
Proof.
  intros Hd H Hu [Fa Fs Ff Fm Ffm].
  pose proof find_qchem as F. rewrite <- Hd in F.
  unfold to_string_model in H. rewrite F in H. apply obind_ok in H as [[ls kw'] [Hl H]]. inversion H; subst text kw'; clear H. cbn [fst].
  destruct (to_lines_inv cfg m ls kw e_qchem F ltac:(rewrite Hd; reflexivity) eq_refl Hl) as [atoms [Ha Hb]].
  change (af_of e_qchem cfg) with "{elem}"%string in Ha. change (gf_of e_qchem cfg) with "@{elem}"%string in Ha.
  exists atoms. split; [exact Ha|].
  (* the keyword *)
  destruct (to_lines_unit_word cfg m ls kw e_qchem F Hl ltac:(rewrite Hd; discriminate)) as [_ [K _]].
  destruct (K ltac:(right; right; reflexivity)) as [lbl [Hlbl Hkw]].
  rewrite (qchem_unit_label _ w r Hu) in Hlbl. inversion Hlbl; subst lbl; clear Hlbl.
  split; [exact Hkw|].
  (* the text *)
  rewrite branch_qchem in Hb by reflexivity. apply obind_ok in Hb as [body [Hf Hb]]. inversion Hb; subst ls; clear Hb.
  pose proof (xyzp_views _ _ _ Ha Fa Ff) as Vok. pose proof (xyzp_views_len _ _ _ Ha) as Vlen.
  assert (Hcm : lex_as (rl cfg (LChgMult "" (m_chg m) (m_mult m) "")) (KCgmp (dz (m_chg m)) (m_mult m))) by (now apply (cm_line_lex cfg)).
  assert (Cbody : Forall line_clean (map (rl cfg) body)).
  { unfold fragment_lines in Hf. destruct (np_split atoms (m_seps m)) as [|fr [|fr2 rest]] eqn:E.
    - eapply frag_blocks_clean; [exact Hf | constructor | intro k; apply Ffm].
    - inversion Hf; subst body. apply atom_lines_clean.
      pose proof (Forall_np_split view_ok atoms (m_seps m) 0 Vok) as G. fold (np_split atoms (m_seps m)) in G. rewrite E in G. inversion G; assumption.
    - eapply frag_blocks_clean; [exact Hf | | intro k; apply Ffm].
      pose proof (Forall_np_split view_ok atoms (m_seps m) 0 Vok) as G. fold (np_split atoms (m_seps m)) in G. now rewrite E in G. }
  set (cm := rl cfg (LChgMult "" (m_chg m) (m_mult m) "")) in *.
  assert (Ccm : line_clean cm) by (apply cm_clean; apply Fm).
  unfold render_text. change (wt_xyze e_qchem) with false. change (wt_lower e_qchem) with false. fold (rl cfg).
  fold (jn (map (rl cfg) (LText "$molecule" :: LChgMult "" (m_chg m) (m_mult m) "" :: body ++ [LText "$end"]))).
  unfold read_qchem. rewrite text_lines.
  2: discriminate.
  2: { cbn [map]. constructor; [reflexivity|]. constructor; [apply Ccm|]. rewrite map_app. apply Forall_app. split.
       - eapply Forall_impl; [|exact Cbody]. intros l Hc. apply Hc.
       - constructor; [reflexivity | constructor]. }
  cbn [map app]. fold cm. rewrite map_app. cbn [map]. change (rl cfg (LText "$molecule")) with "$molecule"%string.
  change (rl cfg (LText "$end")) with "$end"%string.
  replace (cm :: (map (rl cfg) body ++ ["$end"%string]) ++ [EmptyString]) with ((cm :: map (rl cfg) body) ++ ["$end"%string; EmptyString])
    by (cbn [app]; now rewrite <- app_assoc).
  rewrite rev_app_distr. cbn [rev app]. change (s_eqb "$molecule" "$molecule") with true. change (s_eqb "$end" "$end") with true.
  cbn [andb is_empty]. rewrite rev_app_distr, rev_involutive. cbn [rev app].
  assert (Tl : Forall2 lex_as [if s_eqb w "True" then "units bohr"%string else "units angstrom"%string] (tail_kinds r false false)).
  { unfold tail_kinds. cbn [app]. destruct (unit_word_qchem_cases _ _ _ Hu) as [E|E]; inversion E; subst w r.
    - change (s_eqb "True" "True") with true. cbv iota. constructor; [apply lex_units_bohr | constructor].
    - change (s_eqb "False" "True") with false. cbv iota. constructor; [apply lex_units_angstrom | constructor]. }
  unfold carried_qchem.
  destruct (m_seps m) as [|s0 seps] eqn:Es.
  - unfold fragment_lines in Hf. rewrite Es in Hf. unfold np_split in Hf. simpl in Hf. inversion Hf; subst body; clear Hf.
    change (?a :: ?b ++ ?c) with ((a :: b) ++ c). apply psi4_lines_single.
    + simpl. destruct atoms; [simpl in Vlen; destruct (m_atoms m); [contradiction | discriminate] | discriminate].
    + unfold block_kinds, atom_kinds. cbn [fd_c fd_m fd_atoms]. constructor; [exact Hcm | now apply (atom_lines_lex cfg)].
    + exact Tl.
  - assert (Hs : m_seps m <> []) by (rewrite Es; discriminate).
    apply fragment_lines_multi in Hf; [|assumption]. rewrite Es in Hf.
    destruct (frag_blocks_render cfg _ _ _ _ _ Hf) as [dashes [lss [E1 [E2 [E3 E4]]]]].
    + apply Forall_np_split; assumption.
    + intros k _. apply Ffm.
    + rewrite E1. change (?a :: ?b ++ ?c) with ((a :: b) ++ c). apply psi4_lines_multi; try assumption. rewrite E2. symmetry. apply frags_of_length.
Qed.

Lemma fchg_frags p frs : forall i fc fm,
  map (fun f => Some (fd_c f)) (frags_of p frs i fc fm) = map (fun k => Some (dz (nth k fc 0%Z))) (seq i (List.length frs)).
Proof. induction frs as [|fr r IH]; intros; simpl; [reflexivity|]. now rewrite IH. Qed.
Lemma fmult_frags p frs : forall i fc fm,
  map (fun f => Some (fd_m f)) (frags_of p frs i fc fm) = map (fun k => Some (nth k fm 0%Z)) (seq i (List.length frs)).
Proof. induction frs as [|fr r IH]; intros; simpl; [reflexivity|]. now rewrite IH. Qed.

(** what the reader recovers from the characters and the keyword *)
Theorem qchem_text_states_the_molecule cfg m text kw w r :
  s_lower (w_dtype cfg) = "qchem"%string -> to_string_model cfg m = Ok (text, kw) ->
  unit_word_qchem (units_of e_qchem cfg) = Some (w, r) -> qchem_fits cfg m -> mono 0 (m_seps m) ->
  exists atoms p,
    Forall2 (is_view "{elem}" "@{elem}" (factor_of e_qchem cfg m)) (m_atoms m) atoms
    /\ kw_get "input_bohr" kw = Some (KVStr w) /\ read_qchem text w = Ok p
    /\ p_elbl p = map av_label atoms /\ p_geom p = flat_map (printed (w_prec cfg)) atoms /\ p_units p = Some r
    /\ match m_seps m with
       | [] => p_fchg p = Some [Some (dz (m_chg m))] /\ p_fmult p = Some [Some (m_mult m)]
       | seps => p_molchg p = Some (dz (m_chg m)) /\ p_molmult p = Some (m_mult m)
                 /\ p_fchg p = Some (map (fun k => Some (dz (nth k (m_fchg m) 0%Z))) (seq 0 (S (List.length seps))))
                 /\ p_fmult p = Some (map (fun k => Some (nth k (m_fmult m) 0%Z)) (seq 0 (S (List.length seps))))
       end.
Proof.
  intros Hd H Hu Hf Hm.
  destruct (qchem_reads_back cfg m text kw w r Hd H Hu Hf) as [atoms [Ha [Hk Hp]]].
  exists atoms, (carried_qchem cfg m atoms r). split.
  - pose proof (atoms_formatter_views _ _ _ _ _ Ha) as V.
    rewrite filter_all in V; [exact V|]. intro a. unfold visible. change (s_eqb "@{elem}" "") with false. now rewrite orb_true_r.
  - split; [exact Hk|]. split; [exact Hp|]. unfold carried_qchem.
    destruct (m_seps m) as [|s0 seps] eqn:Es; cbn [result_single result_multi p_elbl p_geom p_units p_fchg p_fmult p_molchg p_molmult fd_atoms fd_c fd_m].
    + rewrite lbl_atomd, xyz_atomd. repeat split; reflexivity.
    + rewrite elbl_frags, geom_frags, fchg_frags, fmult_frags. rewrite (np_split_concat atoms (s0 :: seps) Hm).
      unfold np_split. rewrite np_split_from_length. repeat split; reflexivity.
Qed.

(* ------------------------------------------------------------------------------------------ *)
(** * molpro: the atoms stand between the line "geometry={" and the next line "}"; what follows is the dummy card
      (the ghosts) and the charge / spin cards *)
Fixpoint break_at (p : string -> bool) (L : list string) : option (list string * list string) :=
  match L with
  | [] => None
  | x :: r => if p x then Some ([], r)
              else match break_at p r with Some (a, b) => Some (x :: a, b) | None => None end
  end.

Definition read_molpro (text : string) : option (list string * list atomd * list string) :=
  match break_at (s_eqb "geometry={") (s_split nl text) with
  | Some (head, rest) =>
      match break_at (s_eqb "}") rest with
      | Some (body, tail) => match all_atoms body with Some ats => Some (head, ats, tail) | None => None end
      | None => None
      end
  | None => None
  end.

Lemma break_at_spec p pre x post :
  Forall (fun l => p l = false) pre -> p x = true -> break_at p (pre ++ x :: post) = Some (pre, post).
Proof.
  intros H Hx. induction H as [|l pre Hl _ IH]; cbn [app break_at]; [now rewrite Hx|]. now rewrite Hl, IH.
Qed.

Lemma branch_molpro e cfg m atoms : wt_dtype e = "molpro"%string ->
  branch_lines e cfg m atoms
  = obind (unit_label e (units_of e cfg)) (fun lbl =>
      let gh := ghost_indices (m_atoms m) 1 in
      Ok ((if m_fix_orient m || m_fix_com m then [LText "{orient,noorient}"] else [])
          ++ (match m_fix_symm m with
              | Some s => if s_eqb s "c1" then [LText "{symmetry,nosym}"] else []
              | None => [LText "{symmetry,auto}"]
              end)
          ++ [LText ""; LText ("{" +++ show_opt lbl +++ "}"); LText "geometry={"] ++ map LAtom atoms ++ [LText "}"]
          ++ (match gh with [] => [] | _ => [LText (String.append "dummy," (s_join "," (map dec_of_Z gh)))] end)
          ++ [LText ("set,charge=" +++ dec_of_Z (m_chg m) +++ ".0"); LText ("set,spin=" +++ dec_of_Z (m_mult m - 1))])).
Proof. intro E. unfold branch_lines. rewrite E. reflexivity. Qed.

Definition molpro_head (m : molrec) (lbl : option string) : list line :=
  (if m_fix_orient m || m_fix_com m then [LText "{orient,noorient}"] else [])
  ++ (match m_fix_symm m with
      | Some s => if s_eqb s "c1" then [LText "{symmetry,nosym}"] else []
      | None => [LText "{symmetry,auto}"]
      end)
  ++ [LText ""; LText ("{" +++ show_opt lbl +++ "}")].
Definition molpro_tail (m : molrec) : list line :=
  (match ghost_indices (m_atoms m) 1 with [] => [] | gh => [LText (String.append "dummy," (s_join "," (map dec_of_Z gh)))] end)
  ++ [LText ("set,charge=" +++ dec_of_Z (m_chg m) +++ ".0"); LText ("set,spin=" +++ dec_of_Z (m_mult m - 1))].

Lemma nonl_join_dec l : nonl (s_join "," (map dec_of_Z l)).
Proof.
  induction l as [|z l IH]; [reflexivity|]. destruct l as [|z2 l2]; [apply nonl_dec|].
  change (s_join "," (map dec_of_Z (z :: z2 :: l2))) with (dec_of_Z z +++ "," +++ s_join "," (map dec_of_Z (z2 :: l2))).
  apply nonl_app; [apply nonl_dec|]. apply (nonl_app ","); [reflexivity | exact IH].
Qed.

Lemma atom_line_has_space w p v : s_any (c_eqb sp) (render_atom w p false false v) = true.
Proof.
  rewrite atom_line_shape. rewrite !s_any_app. change (s_any (c_eqb sp) two_sp) with true. now rewrite !orb_true_r.
Qed.
Lemma atom_lines_not_close cfg atoms : Forall (fun l => s_eqb "}" l = false) (map (rl cfg) (map LAtom atoms)).
Proof.
  induction atoms as [|v atoms IH]; [constructor|]. cbn [map]. constructor; [|exact IH].
  unfold rl. cbn [render_line]. unfold s_eqb. rewrite String.eqb_sym. apply (eqb_needs_space _ "}"); [apply atom_line_has_space | reflexivity].
Qed.

Theorem molpro_text_states_the_atoms cfg m text kw e :
  wt_find (s_lower (w_dtype cfg)) wt_table = Some e -> s_lower (w_dtype cfg) = "molpro"%string ->
  to_string_model cfg m = Ok (text, kw) -> block_fits e cfg m ->
  exists atoms lbl,
    Forall2 (is_view (af_of e cfg) (gf_of e cfg) (factor_of e cfg m)) (m_atoms m) atoms
    /\ unit_label e (units_of e cfg) = Ok lbl
    /\ to_lines cfg m = Ok (molpro_head m lbl ++ LText "geometry={" :: map LAtom atoms ++ LText "}" :: molpro_tail m, kw)
    /\ read_molpro text
       = Some (map (rl cfg) (molpro_head m lbl), map (atomd_of (w_prec cfg)) atoms, map (rl cfg) (molpro_tail m) ++ [EmptyString]).
Proof.
  intros F E1 H Fit. open_case F E1 H Hl ls e.
  match type of F with _ = Some ?x => set (e := x) in * end.
  destruct (to_lines_inv cfg m ls kw e F ltac:(rewrite E1; reflexivity) eq_refl Hl) as [atoms [Ha Hb]].
  rewrite branch_molpro in Hb by reflexivity. apply obind_ok in Hb as [lbl [Hu Hb]]. cbv zeta in Hb. inversion Hb; subst ls; clear Hb.
  destruct Fit as [Fa Ff Fn Fs].
  destruct (views_plain _ _ _ _ _ _ xyzp_format_real xyzp_format_real eq_refl lp_elem lp_elem atoms Ha Fa Ff) as [Vp Vv].
  exists atoms, lbl. split; [exact Vv|]. split; [exact Hu|].
  match type of Hl with to_lines _ _ = Ok (?x, _) =>
    assert (Shape : x = molpro_head m lbl ++ LText "geometry={" :: map LAtom atoms ++ LText "}" :: molpro_tail m) end.
  { unfold molpro_head, molpro_tail. rewrite <- !app_assoc. cbn [app]. do 2 f_equal. f_equal. f_equal. f_equal.
    destruct (ghost_indices (m_atoms m) 1); reflexivity. }
  rewrite Shape in Hl |- *. clear Shape. split; [exact Hl|].
  (* the characters *)
  assert (Nl : nonl (show_opt lbl)) by (apply (unit_label_nonl e _ _ ltac:(discriminate) ltac:(repeat constructor) Hu)).
  assert (Hh : Forall nonl (map (rl cfg) (molpro_head m lbl))
               /\ Forall (fun l => s_eqb "geometry={" l = false) (map (rl cfg) (molpro_head m lbl))).
  { unfold molpro_head. rewrite !map_app. split.
    - apply Forall_app; split; [destruct (m_fix_orient m || m_fix_com m); repeat constructor|].
      apply Forall_app; split; [destruct (m_fix_symm m) as [s|]; [destruct (s_eqb s "c1")|]; repeat constructor|].
      constructor; [reflexivity|]. constructor; [|constructor]. unfold rl. cbn [render_line].
      apply (nonl_app "{"); [reflexivity|]. apply nonl_app; [exact Nl | reflexivity].
    - apply Forall_app; split; [destruct (m_fix_orient m || m_fix_com m); repeat constructor|].
      apply Forall_app; split; [destruct (m_fix_symm m) as [s|]; [destruct (s_eqb s "c1")|]; repeat constructor|].
      constructor; [reflexivity|]. constructor; [reflexivity | constructor]. }
  destruct Hh as [Hh1 Hh2].
  assert (Ht : Forall nonl (map (rl cfg) (molpro_tail m))).
  { unfold molpro_tail. rewrite map_app. apply Forall_app; split.
    - destruct (ghost_indices (m_atoms m) 1) as [|g gh]; [constructor|]. constructor; [|constructor]. unfold rl. cbn [render_line].
      apply (nonl_app "dummy,"); [reflexivity | apply nonl_join_dec].
    - constructor; [|constructor; [|constructor]]; unfold rl; cbn [render_line].
      + apply (nonl_app "set,charge="); [reflexivity|]. apply nonl_app; [apply nonl_dec | reflexivity].
      + apply (nonl_app "set,spin="); [reflexivity | apply nonl_dec]. }
  destruct (all_atoms_render cfg atoms Vp) as [A1 A2].
  unfold render_text. change (wt_xyze e) with false. change (wt_lower e) with false. fold (rl cfg).
  fold (jn (map (rl cfg) (molpro_head m lbl ++ LText "geometry={" :: map LAtom atoms ++ LText "}" :: molpro_tail m))).
  unfold read_molpro. rewrite text_lines.
  - rewrite map_app, map_cons, map_app, map_cons.
    change (rl cfg (LText "geometry={")) with "geometry={"%string. change (rl cfg (LText "}")) with "}"%string.
    rewrite <- app_assoc, <- app_comm_cons.
    rewrite (break_at_spec (s_eqb "geometry={") _ "geometry={"%string _ Hh2 eq_refl).
    rewrite <- app_assoc, <- app_comm_cons.
    rewrite (break_at_spec (s_eqb "}") _ "}"%string _ (atom_lines_not_close cfg atoms) eq_refl). now rewrite A1.
  - destruct (molpro_head m lbl); discriminate.
  - rewrite map_app. apply Forall_app; split; [exact Hh1|]. rewrite map_cons. constructor; [reflexivity|].
    rewrite map_app. apply Forall_app; split; [exact A2|]. rewrite map_cons. constructor; [reflexivity | exact Ht].
Qed.
