(** C07 — round trip xyz+ at the level of lines: the xyz+ reader applied to the rendered lines of the xyz+
    writer returns the written molecule, for every number of atoms. *)
From Coq Require Import ZArith NArith List String Ascii Bool Lia.
Require Import QV.Common.Outcome QV.Common.WText QV.Common.WBin64 QV.Model.WriterTypes QV.Gen.WriterTables QV.Model.Writers
               QV.Model.Text QV.Proofs.Writers QV.Proofs.TextRT QV.Proofs.TextLex QV.Proofs.TextLayout QV.Proofs.TextRoundTrip.
Import ListNotations.
Open Scope nat_scope.

Local Notation "a +++ b" := (String.append a b) (at level 60, right associativity).

(* ------------------------------------------------------------------------------------------ *)
(** * the count line and the charge / multiplicity / title line *)
Lemma rstrip_digits_space d : s_all c_is_digit d = true -> is_empty d = false -> s_rstrip (d +++ String sp EmptyString) = d.
Proof.
  intros Hd Hn. rewrite (rstrip_ws d (String sp EmptyString) eq_refl).
  apply rstrip_id; [|assumption]. apply last_is_none.
  eapply s_all_none; [|exact Hd]. intros c Hc. destruct c as [[] [] [] [] [] [] [] []]; vm_compute in Hc |- *; try discriminate; reflexivity.
Qed.

Lemma digit_not_ws_comma c : c_is_digit c = true -> is_ws_comma c = false.
Proof. destruct c as [[] [] [] [] [] [] [] []]; vm_compute; intro H; try discriminate; reflexivity. Qed.

Lemma xyz1_count_only d : s_all c_is_digit d = true -> is_empty d = false -> xyz1_match d = Some None.
Proof.
  intros Hd Hn. unfold xyz1_match. destruct (first_digit_of d Hd Hn) as [c [r [E Hc]]].
  assert (F : first_is c_is_digit d = true) by (rewrite E; exact Hc). rewrite F.
  rewrite (drop_while_whole c_is_digit d Hd). reflexivity.
Qed.
Lemma xyz1_count_au d : s_all c_is_digit d = true -> is_empty d = false -> xyz1_match (d +++ " au") = Some (Some "Bohr"%string).
Proof.
  intros Hd Hn. unfold xyz1_match. destruct (first_digit_of d Hd Hn) as [c [r [E Hc]]].
  assert (F : first_is c_is_digit (d +++ " au") = true) by (rewrite E; exact Hc). rewrite F.
  rewrite (drop_while_all c_is_digit d " au" Hd eq_refl). reflexivity.
Qed.

Lemma numeric_not_sepc s : s_all numch s = true -> s_all not_sepc s = true.
Proof. apply s_all_weaken. intros c H. unfold not_sepc. destruct (numch_facts c H) as [E _]. now rewrite E. Qed.

(** "chg mult title": the prefix pattern xyz2 reads the two numbers whatever the title is *)
Lemma xyz2_title c mu title : (0 <= mu)%Z ->
  xyz2_match (dec_of_Z c +++ String sp (dec_of_Z mu) +++ String sp title) = Some (dz c, dec_of_Z mu).
Proof.
  intro Hm. unfold xyz2_match.
  pose proof (numeric_not_sepc _ (dec_of_Z_numch c)) as Nc.
  assert (Fs : first_is not_sepc (String sp (dec_of_Z mu) +++ String sp title) = false) by reflexivity.
  rewrite (take_while_all not_sepc (dec_of_Z c) _ Nc Fs), (drop_while_all not_sepc (dec_of_Z c) _ Nc Fs).
  cbn [String.append is_empty]. rewrite parse_number_int.
  assert (Em : dec_of_Z mu = dec_of_nonneg mu) by (unfold dec_of_Z; destruct (mu <? 0)%Z eqn:E; [apply Z.ltb_lt in E; lia | reflexivity]).
  cbn [drop_while]. change (is_sepc sp) with true. cbv iota.
  assert (Dm : s_all c_is_digit (dec_of_Z mu) = true) by (rewrite Em; apply dec_nonneg_digits).
  assert (Nm : is_empty (dec_of_Z mu) = false) by (rewrite Em; apply dec_nonneg_nonempty).
  assert (D1 : drop_while is_sepc (dec_of_Z mu +++ String sp title) = dec_of_Z mu +++ String sp title).
  { destruct (first_digit_of _ Dm Nm) as [x [r [E Hx]]]. rewrite E. cbn [String.append drop_while].
    destruct (digit_not_sign x Hx) as [_ [_ [_ [S _]]]]. now rewrite S. }
  rewrite D1. rewrite (take_while_all c_is_digit (dec_of_Z mu) (String sp title) Dm eq_refl). rewrite Nm. reflexivity.
Qed.

(* ------------------------------------------------------------------------------------------ *)
(** * the xyz+ branch of the writer *)
Definition e_xyzp : wt_entry := match wt_find "xyz+" wt_table with Some e => e | None => Build_wt_entry "" "" "" FAbsent "" FAbsent [] UNoMap false false false [] end.
Lemma find_xyzp : wt_find "xyz+" wt_table = Some e_xyzp.
Proof. vm_compute. reflexivity. Qed.

Definition xyzp_label (a : atom) : string := if a_real a then a_elem a else "@" +++ a_elem a.
Definition atom_fits_xyzp (a : atom) : Prop :=
  label_ok (xyzp_label a) /\ (0 <= bm (a_x a))%Z /\ (0 <= bm (a_y a))%Z /\ (0 <= bm (a_z a))%Z.

Lemma xyzp_format_real a : py_format "{elem}" a = Ok (a_elem a).
Proof. cbv -[String.append a_elem]. now rewrite app_nil_r_s. Qed.
Lemma xyzp_format_ghost a : py_format "@{elem}" a = Ok ("@" +++ a_elem a).
Proof. cbv -[String.append a_elem]. now rewrite app_nil_r_s. Qed.

Lemma xyzp_views f l : forall atoms,
  atoms_formatter "{elem}" "@{elem}" f l = Ok atoms -> Forall atom_fits_xyzp l -> (0 <= bm f)%Z -> Forall view_ok atoms.
Proof.
  induction l as [|a l IH]; intros atoms H Hf Hb; cbn [atoms_formatter] in H.
  - inversion H; subst. constructor.
  - inversion Hf as [|a0 l0 [Hl [Hx [Hy Hz]]] Hf']; subst.
    change (s_eqb "@{elem}" "") with false in H.
    destruct (a_real a) eqn:R.
    + rewrite xyzp_format_real in H. cbn [obind] in H. apply obind_ok in H as [vs [Hv H]]. inversion H; subst.
      constructor; [|now apply IH]. unfold view_ok, convert; simpl. unfold xyzp_label in Hl. rewrite R in Hl.
      split; [exact Hl | repeat split; apply b64mul_nonneg; assumption].
    + rewrite xyzp_format_ghost in H. cbn [obind] in H. apply obind_ok in H as [vs [Hv H]]. inversion H; subst.
      constructor; [|now apply IH]. unfold view_ok, convert; simpl. unfold xyzp_label in Hl. rewrite R in Hl.
      split; [exact Hl | repeat split; apply b64mul_nonneg; assumption].
Qed.

Definition unit_word_xyz (u : string) : option (string * string) :=       (* (word written, unit read back) *)
  let k := s_lower u in
  if s_eqb k "bohr" then Some ("au", "Bohr")%string else if s_eqb k "angstrom" then Some ("", "Angstrom")%string else None.

Lemma xyzp_unit_label u w r : unit_word_xyz u = Some (w, r) -> unit_label e_xyzp u = Ok (Some w).
Proof.
  unfold unit_word_xyz. intro H. unfold unit_label. cbv zeta.
  destruct (s_eqb (s_lower u) "bohr") eqn:E1.
  - apply String.eqb_eq in E1. rewrite E1. inversion H; subst. vm_compute. reflexivity.
  - destruct (s_eqb (s_lower u) "angstrom") eqn:E2; [|discriminate].
    apply String.eqb_eq in E2. rewrite E2. inversion H; subst. vm_compute. reflexivity.
Qed.

Lemma xyzp_to_lines cfg m ls kw :
  s_lower (w_dtype cfg) = "xyz+"%string -> w_afmt cfg = None -> w_gfmt cfg = None -> to_lines cfg m = Ok (ls, kw) ->
  exists atoms lbl,
    atoms_formatter "{elem}" "@{elem}" (factor_of e_xyzp cfg m) (m_atoms m) = Ok atoms
    /\ unit_label e_xyzp (units_of e_xyzp cfg) = Ok lbl
    /\ ls = LText (s_rstrip (dec_of_Z (zlen atoms) +++ " " +++ show_opt lbl))
            :: LChgMult "" (m_chg m) (m_mult m) (" " +++ mol_name m) :: map LAtom atoms.
Proof.
  intros Hd Haf Hgf H. unfold to_lines in H. rewrite Hd, find_xyzp in H.
  change (s_eqb "xyz+" "nglview-sdf") with false in H. change (s_eqb "xyz+" "turbomole") with false in H.
  cbv iota in H. cbn [obind] in H.
  change (wt_formatter e_xyzp) with true in H. cbv iota in H.
  rewrite Haf, Hgf in H.
  change (pick_format (wt_afmt e_xyzp) (wt_afmode e_xyzp) None) with "{elem}"%string in H.
  change (pick_format (wt_gfmt e_xyzp) (wt_gfmode e_xyzp) None) with "@{elem}"%string in H.
  apply obind_ok in H as [atoms [Ha H]]. apply obind_ok in H as [ls' [Hb H]]. apply obind_ok in H as [kw' [_ H]].
  inversion H; subst ls' kw'; clear H.
  unfold branch_lines in Hb. change (wt_dtype e_xyzp) with "xyz+"%string in Hb.
  cbn -[unit_label units_of e_xyzp s_rstrip dec_of_Z mol_name] in Hb.
  apply obind_ok in Hb as [lbl [Hu Hb]]. inversion Hb; subst ls; clear Hb.
  exists atoms, lbl. repeat split; assumption.
Qed.

Record xyzp_fits (cfg : wcfg) (m : molrec) : Prop := {
  xf_atoms : Forall atom_fits_xyzp (m_atoms m);
  xf_factor : (0 <= bm (factor_of e_xyzp cfg m))%Z;
  xf_mult : cm_ok (m_mult m)
}.

Lemma unit_word_xyz_cases u w r : unit_word_xyz u = Some (w, r) ->
  (w, r) = ("au", "Bohr")%string \/ (w, r) = ("", "Angstrom")%string.
Proof.
  unfold unit_word_xyz. destruct (s_eqb (s_lower u) "bohr"); [intro H; inversion H; auto|].
  destruct (s_eqb (s_lower u) "angstrom"); [intro H; inversion H; auto | discriminate].
Qed.

Lemma atom_lines_match cfg atoms :
  Forall view_ok atoms ->
  Forall2 (fun l at_ => atom_match is_nucleus l = Some at_) (map (rl cfg) (map LAtom atoms)) (map (atomd_of (w_prec cfg)) atoms).
Proof.
  induction 1 as [|v atoms [Hl [Hx [Hy Hz]]] _ IH]; simpl; constructor; [|exact IH].
  unfold rl, atomd_of. cbn [render_line].
  destruct (lex_atom_line (w_width cfg) (w_prec cfg) v Hl Hx Hy Hz) as [_ [_ [_ [_ [_ [_ Ha]]]]]]. exact Ha.
Qed.

(** Round trip xyz+ (default atom/ghost formats) at the level of lines, any number of atoms *)
Theorem roundtrip_xyzplus_lines cfg m ls kw w r :
  s_lower (w_dtype cfg) = "xyz+"%string -> w_afmt cfg = None -> w_gfmt cfg = None ->
  to_lines cfg m = Ok (ls, kw) -> unit_word_xyz (units_of e_xyzp cfg) = Some (w, r) -> xyzp_fits cfg m ->
  exists atoms,
    atoms_formatter "{elem}" "@{elem}" (factor_of e_xyzp cfg m) (m_atoms m) = Ok atoms
    /\ parse_xyz_lines false (map (rl cfg) ls)
       = Ok (result_xyz r (Some (dz (m_chg m), m_mult m)) (map (atomd_of (w_prec cfg)) atoms)).
Proof.
  intros Hd Haf Hgf H Hu [Fa Ff [Fm1 Fm2]].
  destruct (xyzp_to_lines cfg m ls kw Hd Haf Hgf H) as [atoms [lbl [Ha [Hl ->]]]].
  exists atoms. split; [assumption|].
  rewrite (xyzp_unit_label _ w r Hu) in Hl. inversion Hl; subst lbl; clear Hl.
  pose proof (xyzp_views _ _ _ Ha Fa Ff) as Vok.
  cbn [map]. unfold rl at 1 2. cbn [render_line].
  assert (Hn : (0 <= zlen atoms)%Z) by (unfold zlen; lia).
  assert (En : dec_of_Z (zlen atoms) = dec_of_nonneg (zlen atoms)) by (unfold dec_of_Z; destruct (zlen atoms <? 0)%Z eqn:E; [apply Z.ltb_lt in E; lia | reflexivity]).
  pose proof (dec_nonneg_digits (zlen atoms)) as Dn. pose proof (dec_nonneg_nonempty (zlen atoms)) as Nn. rewrite <- En in Dn, Nn.
  assert (L1 : "" +++ dec_of_Z (m_chg m) +++ String sp (dec_of_Z (m_mult m)) +++ " " +++ mol_name m
               = dec_of_Z (m_chg m) +++ String sp (dec_of_Z (m_mult m)) +++ String sp (mol_name m)) by reflexivity.
  rewrite L1.
  destruct (unit_word_xyz_cases _ _ _ Hu) as [E|E]; inversion E; subst w r; cbn [show_opt].
  - (* Bohr: "<n> au" *)
    assert (L0 : s_rstrip (dec_of_Z (zlen atoms) +++ " " +++ "au") = dec_of_Z (zlen atoms) +++ " au").
    { apply rstrip_id; [|destruct (dec_of_Z (zlen atoms)); [discriminate | reflexivity]].
      change (" " +++ "au")%string with (" au")%string. rewrite last_is_app by reflexivity. reflexivity. }
    rewrite L0.
    rewrite (xyzplus_lines _ _ _ (Some "Bohr"%string) (dz (m_chg m)) (dec_of_Z (m_mult m)) (m_mult m) (map (atomd_of (w_prec cfg)) atoms)).
    + reflexivity.
    + now apply xyz1_count_au.
    + now apply xyz2_title.
    + unfold py_int. destruct (Nat.ltb int_max_str_digits (String.length (dec_of_Z (m_mult m)))) eqn:E1; [apply Nat.ltb_lt in E1; lia|].
      assert (Em : dec_of_Z (m_mult m) = dec_of_nonneg (m_mult m)) by (unfold dec_of_Z; destruct (m_mult m <? 0)%Z eqn:E2; [apply Z.ltb_lt in E2; lia | reflexivity]).
      rewrite Em, digits_or_zero_dec by assumption. reflexivity.
    + now apply atom_lines_match.
  - (* Angstrom: "<n>" *)
    assert (L0 : s_rstrip (dec_of_Z (zlen atoms) +++ " " +++ "") = dec_of_Z (zlen atoms)).
    { change (" " +++ "")%string with (String sp EmptyString). now apply rstrip_digits_space. }
    rewrite L0.
    rewrite (xyzplus_lines _ _ _ None (dz (m_chg m)) (dec_of_Z (m_mult m)) (m_mult m) (map (atomd_of (w_prec cfg)) atoms)).
    + reflexivity.
    + now apply xyz1_count_only.
    + now apply xyz2_title.
    + unfold py_int. destruct (Nat.ltb int_max_str_digits (String.length (dec_of_Z (m_mult m)))) eqn:E1; [apply Nat.ltb_lt in E1; lia|].
      assert (Em : dec_of_Z (m_mult m) = dec_of_nonneg (m_mult m)) by (unfold dec_of_Z; destruct (m_mult m <? 0)%Z eqn:E2; [apply Z.ltb_lt in E2; lia | reflexivity]).
      rewrite Em, digits_or_zero_dec by assumption. reflexivity.
    + now apply atom_lines_match.
Qed.
