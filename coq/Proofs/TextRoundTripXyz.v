(** C07 — round trip xyz+ at the level of lines: the xyz+ reader applied to the rendered lines of the xyz+
    writer returns the written molecule, for every number of atoms. *)
From Coq Require Import ZArith NArith List String Ascii Bool Lia.
Require Import QV.Common.Outcome QV.Common.WText QV.Common.WBin64 QV.Model.WriterTypes QV.Gen.WriterTables QV.Model.Writers
               QV.Model.Text QV.Proofs.Writers QV.Proofs.TextRT QV.Proofs.TextLex QV.Proofs.TextLayout QV.Proofs.TextRoundTrip.
Import ListNotations.
Open Scope nat_scope.

Local Notation "a +++ b" := (String.append a b) (at level 60, right associativity).

(* ------------------------------------------------------------------------------------------ *)
(** * the count line and the charge / multiplicity / title line *)
Lemma rstrip_digits_space d : s_all c_is_digit d = true -> is_empty d = false -> s_rstrip (d +++ String sp EmptyString) = d.
Proof.
  intros Hd Hn. rewrite (rstrip_ws d (String sp EmptyString) eq_refl).
  apply rstrip_id; [|assumption]. apply last_is_none.
  eapply s_all_none; [|exact Hd]. intros c Hc. destruct c as [[] [] [] [] [] [] [] []]; vm_compute in Hc |- *; try discriminate; reflexivity.
Qed.

Lemma digit_not_ws_comma c : c_is_digit c = true -> is_ws_comma c = false.
Proof. destruct c as [[] [] [] [] [] [] [] []]; vm_compute; intro H; try discriminate; reflexivity. Qed.

Lemma xyz1_count_only d : s_all c_is_digit d = true -> is_empty d = false -> xyz1_match d = Some None.
Proof.
  intros Hd Hn. unfold xyz1_match. destruct (first_digit_of d Hd Hn) as [c [r [E Hc]]].
  assert (F : first_is c_is_digit d = true) by (rewrite E; exact Hc). rewrite F.
  rewrite (drop_while_whole c_is_digit d Hd). reflexivity.
Qed.
Lemma xyz1_count_au d : s_all c_is_digit d = true -> is_empty d = false -> xyz1_match (d +++ " au") = Some (Some "Bohr"%string).
Proof.
  intros Hd Hn. unfold xyz1_match. destruct (first_digit_of d Hd Hn) as [c [r [E Hc]]].
  assert (F : first_is c_is_digit (d +++ " au") = true) by (rewrite E; exact Hc). rewrite F.
  rewrite (drop_while_all c_is_digit d " au" Hd eq_refl). reflexivity.
Qed.

Lemma numeric_not_sepc s : s_all numch s = true -> s_all not_sepc s = true.
Proof. apply s_all_weaken. intros c H. unfold not_sepc. destruct (numch_facts c H) as [E _]. now rewrite E. Qed.

(** "chg mult title": the prefix pattern xyz2 reads the two numbers whatever the title is *)
Lemma xyz2_title c mu title : (0 <= mu)%Z ->
  xyz2_match (dec_of_Z c +++ String sp (dec_of_Z mu) +++ String sp title) = Some (dz c, dec_of_Z mu).
Proof.
  intro Hm. unfold xyz2_match.
  pose proof (numeric_not_sepc _ (dec_of_Z_numch c)) as Nc.
  assert (Fs : first_is not_sepc (String sp (dec_of_Z mu) +++ String sp title) = false) by reflexivity.
  rewrite (take_while_all not_sepc (dec_of_Z c) _ Nc Fs), (drop_while_all not_sepc (dec_of_Z c) _ Nc Fs).
  cbn [String.append is_empty]. rewrite parse_number_int.
  assert (Em : dec_of_Z mu = dec_of_nonneg mu) by (unfold dec_of_Z; destruct (mu <? 0)%Z eqn:E; [apply Z.ltb_lt in E; lia | reflexivity]).
  cbn [drop_while]. change (is_sepc sp) with true. cbv iota.
  assert (Dm : s_all c_is_digit (dec_of_Z mu) = true) by (rewrite Em; apply dec_nonneg_digits).
  assert (Nm : is_empty (dec_of_Z mu) = false) by (rewrite Em; apply dec_nonneg_nonempty).
  assert (D1 : drop_while is_sepc (dec_of_Z mu +++ String sp title) = dec_of_Z mu +++ String sp title).
  { destruct (first_digit_of _ Dm Nm) as [x [r [E Hx]]]. rewrite E. cbn [String.append drop_while].
    destruct (digit_not_sign x Hx) as [_ [_ [_ [S _]]]]. now rewrite S. }
  rewrite D1. rewrite (take_while_all c_is_digit (dec_of_Z mu) (String sp title) Dm eq_refl). rewrite Nm. reflexivity.
Qed.

(* ------------------------------------------------------------------------------------------ *)
(** * the xyz+ branch of the writer *)
Definition e_xyzp : wt_entry := match wt_find "xyz+" wt_table with Some e => e | None => Build_wt_entry "" "" "" FAbsent "" FAbsent [] UNoMap false false false [] end.
Lemma find_xyzp : wt_find "xyz+" wt_table = Some e_xyzp.
Proof. vm_compute. reflexivity. Qed.

Definition xyzp_label (a : atom) : string := if a_real a then a_elem a else "@" +++ a_elem a.
Definition atom_fits_xyzp (a : atom) : Prop :=
  label_ok (xyzp_label a) /\ (0 <= bm (a_x a))%Z /\ (0 <= bm (a_y a))%Z /\ (0 <= bm (a_z a))%Z.

Lemma xyzp_format_real a : py_format "{elem}" a = Ok (a_elem a).
Proof. cbv -[String.append a_elem]. now rewrite app_nil_r_s. Qed.
Lemma xyzp_format_ghost a : py_format "@{elem}" a = Ok ("@" +++ a_elem a).
Proof. cbv -[String.append a_elem]. now rewrite app_nil_r_s. Qed.

Lemma xyzp_views f l : forall atoms,
  atoms_formatter "{elem}" "@{elem}" f l = Ok atoms -> Forall atom_fits_xyzp l -> (0 <= bm f)%Z -> Forall view_ok atoms.
Proof.
  induction l as [|a l IH]; intros atoms H Hf Hb; cbn [atoms_formatter] in H.
  - inversion H; subst. constructor.
  - inversion Hf as [|a0 l0 [Hl [Hx [Hy Hz]]] Hf']; subst.
    change (s_eqb "@{elem}" "") with false in H.
    destruct (a_real a) eqn:R.
    + rewrite xyzp_format_real in H. cbn [obind] in H. apply obind_ok in H as [vs [Hv H]]. inversion H; subst.
      constructor; [|now apply IH]. unfold view_ok, convert; simpl. unfold xyzp_label in Hl. rewrite R in Hl.
      split; [exact Hl | repeat split; apply b64mul_nonneg; assumption].
    + rewrite xyzp_format_ghost in H. cbn [obind] in H. apply obind_ok in H as [vs [Hv H]]. inversion H; subst.
      constructor; [|now apply IH]. unfold view_ok, convert; simpl. unfold xyzp_label in Hl. rewrite R in Hl.
      split; [exact Hl | repeat split; apply b64mul_nonneg; assumption].
Qed.

Definition unit_word_xyz (u : string) : option (string * string) :=       (* (word written, unit read back) *)
  let k := s_lower u in
  if s_eqb k "bohr" then Some ("au", "Bohr")%string else if s_eqb k "angstrom" then Some ("", "Angstrom")%string else None.

Lemma xyzp_unit_label u w r : unit_word_xyz u = Some (w, r) -> unit_label e_xyzp u = Ok (Some w).
Proof.
  unfold unit_word_xyz. intro H. unfold unit_label. cbv zeta.
  destruct (s_eqb (s_lower u) "bohr") eqn:E1.
  - apply String.eqb_eq in E1. rewrite E1. inversion H; subst. vm_compute. reflexivity.
  - destruct (s_eqb (s_lower u) "angstrom") eqn:E2; [|discriminate].
    apply String.eqb_eq in E2. rewrite E2. inversion H; subst. vm_compute. reflexivity.
Qed.

Lemma xyzp_to_lines cfg m ls kw :
  s_lower (w_dtype cfg) = "xyz+"%string -> w_afmt cfg = None -> w_gfmt cfg = None -> to_lines cfg m = Ok (ls, kw) ->
  exists atoms lbl,
    atoms_formatter "{elem}" "@{elem}" (factor_of e_xyzp cfg m) (m_atoms m) = Ok atoms
    /\ unit_label e_xyzp (units_of e_xyzp cfg) = Ok lbl
    /\ ls = LText (s_rstrip (dec_of_Z (zlen atoms) +++ " " +++ show_opt lbl))
            :: LChgMult "" (m_chg m) (m_mult m) (" " +++ mol_name m) :: map LAtom atoms.
Proof.
  intros Hd Haf Hgf H. unfold to_lines in H. rewrite Hd, find_xyzp in H.
  change (s_eqb "xyz+" "nglview-sdf") with false in H. change (s_eqb "xyz+" "turbomole") with false in H.
  cbv iota in H. cbn [obind] in H.
  change (wt_formatter e_xyzp) with true in H. cbv iota in H.
  rewrite Haf, Hgf in H.
  change (pick_format (wt_afmt e_xyzp) (wt_afmode e_xyzp) None) with "{elem}"%string in H.
  change (pick_format (wt_gfmt e_xyzp) (wt_gfmode e_xyzp) None) with "@{elem}"%string in H.
  apply obind_ok in H as [atoms [Ha H]]. apply obind_ok in H as [ls' [Hb H]]. apply obind_ok in H as [kw' [_ H]].
  inversion H; subst ls' kw'; clear H.
  unfold branch_lines in Hb. change (wt_dtype e_xyzp) with "xyz+"%string in Hb.
  cbn -[unit_label units_of e_xyzp s_rstrip dec_of_Z mol_name] in Hb.
  apply obind_ok in Hb as [lbl [Hu Hb]]. inversion Hb; subst ls; clear Hb.
  exists atoms, lbl. repeat split; assumption.
Qed.

Record xyzp_fits (cfg : wcfg) (m : molrec) : Prop := {
  xf_atoms : Forall atom_fits_xyzp (m_atoms m);
  xf_factor : (0 <= bm (factor_of e_xyzp cfg m))%Z;
  xf_mult : cm_ok (m_mult m)
}.

Lemma unit_word_xyz_cases u w r : unit_word_xyz u = Some (w, r) ->
  (w, r) = ("au", "Bohr")%string \/ (w, r) = ("", "Angstrom")%string.
Proof.
  unfold unit_word_xyz. destruct (s_eqb (s_lower u) "bohr"); [intro H; inversion H; auto|].
  destruct (s_eqb (s_lower u) "angstrom"); [intro H; inversion H; auto | discriminate].
Qed.

Lemma atom_lines_match cfg atoms :
  Forall view_ok atoms ->
  Forall2 (fun l at_ => atom_match is_nucleus l = Some at_) (map (rl cfg) (map LAtom atoms)) (map (atomd_of (w_prec cfg)) atoms).
Proof.
  induction 1 as [|v atoms [Hl [Hx [Hy Hz]]] _ IH]; simpl; constructor; [|exact IH].
  unfold rl, atomd_of. cbn [render_line].
  destruct (lex_atom_line (w_width cfg) (w_prec cfg) v Hl Hx Hy Hz) as [_ [_ [_ [_ [_ [_ Ha]]]]]]. exact Ha.
Qed.

(** Round trip xyz+ (default atom/ghost formats) at the level of lines, any number of atoms *)
Theorem roundtrip_xyzplus_lines cfg m ls kw w r :
  s_lower (w_dtype cfg) = "xyz+"%string -> w_afmt cfg = None -> w_gfmt cfg = None ->
  to_lines cfg m = Ok (ls, kw) -> unit_word_xyz (units_of e_xyzp cfg) = Some (w, r) -> xyzp_fits cfg m ->
  exists atoms,
    atoms_formatter "{elem}" "@{elem}" (factor_of e_xyzp cfg m) (m_atoms m) = Ok atoms
    /\ parse_xyz_lines false (map (rl cfg) ls)
       = Ok (result_xyz r (Some (dz (m_chg m), m_mult m)) (map (atomd_of (w_prec cfg)) atoms)).
Proof.
  intros Hd Haf Hgf H Hu [Fa Ff [Fm1 Fm2]].
  destruct (xyzp_to_lines cfg m ls kw Hd Haf Hgf H) as [atoms [lbl [Ha [Hl ->]]]].
  exists atoms. split; [assumption|].
  rewrite (xyzp_unit_label _ w r Hu) in Hl. inversion Hl; subst lbl; clear Hl.
  pose proof (xyzp_views _ _ _ Ha Fa Ff) as Vok.
  cbn [map]. unfold rl at 1 2. cbn [render_line].
  assert (Hn : (0 <= zlen atoms)%Z) by (unfold zlen; lia).
  assert (En : dec_of_Z (zlen atoms) = dec_of_nonneg (zlen atoms)) by (unfold dec_of_Z; destruct (zlen atoms <? 0)%Z eqn:E; [apply Z.ltb_lt in E; lia | reflexivity]).
  pose proof (dec_nonneg_digits (zlen atoms)) as Dn. pose proof (dec_nonneg_nonempty (zlen atoms)) as Nn. rewrite <- En in Dn, Nn.
  assert (L1 : "" +++ dec_of_Z (m_chg m) +++ String sp (dec_of_Z (m_mult m)) +++ " " +++ mol_name m
               = dec_of_Z (m_chg m) +++ String sp (dec_of_Z (m_mult m)) +++ String sp (mol_name m)) by reflexivity.
  rewrite L1.
  destruct (unit_word_xyz_cases _ _ _ Hu) as [E|E]; inversion E; subst w r; cbn [show_opt].
  - (* Bohr: "<n> au" *)
    assert (L0 : s_rstrip (dec_of_Z (zlen atoms) +++ " " +++ "au") = dec_of_Z (zlen atoms) +++ " au").
    { apply rstrip_id; [|destruct (dec_of_Z (zlen atoms)); [discriminate | reflexivity]].
      change (" " +++ "au")%string with (" au")%string. rewrite last_is_app by reflexivity. reflexivity. }
    rewrite L0.
    rewrite (xyzplus_lines _ _ _ (Some "Bohr"%string) (dz (m_chg m)) (dec_of_Z (m_mult m)) (m_mult m) (map (atomd_of (w_prec cfg)) atoms)).
    + reflexivity.
    + now apply xyz1_count_au.
    + now apply xyz2_title.
    + unfold py_int. destruct (Nat.ltb int_max_str_digits (String.length (dec_of_Z (m_mult m)))) eqn:E1; [apply Nat.ltb_lt in E1; lia|].
      assert (Em : dec_of_Z (m_mult m) = dec_of_nonneg (m_mult m)) by (unfold dec_of_Z; destruct (m_mult m <? 0)%Z eqn:E2; [apply Z.ltb_lt in E2; lia | reflexivity]).
      rewrite Em, digits_or_zero_dec by assumption. reflexivity.
    + now apply atom_lines_match.
  - (* Angstrom: "<n>" *)
    assert (L0 : s_rstrip (dec_of_Z (zlen atoms) +++ " " +++ "") = dec_of_Z (zlen atoms)).
    { change (" " +++ "")%string with (String sp EmptyString). now apply rstrip_digits_space. }
    rewrite L0.
    rewrite (xyzplus_lines _ _ _ None (dz (m_chg m)) (dec_of_Z (m_mult m)) (m_mult m) (map (atomd_of (w_prec cfg)) atoms)).
    + reflexivity.
    + now apply xyz1_count_only.
    + now apply xyz2_title.
    + unfold py_int. destruct (Nat.ltb int_max_str_digits (String.length (dec_of_Z (m_mult m)))) eqn:E1; [apply Nat.ltb_lt in E1; lia|].
      assert (Em : dec_of_Z (m_mult m) = dec_of_nonneg (m_mult m)) by (unfold dec_of_Z; destruct (m_mult m <? 0)%Z eqn:E2; [apply Z.ltb_lt in E2; lia | reflexivity]).
      rewrite Em, digits_or_zero_dec by assumption. reflexivity.
    + now apply atom_lines_match.
Qed.

(* ------------------------------------------------------------------------------------------ *)
(** * from the characters of an xyz / xyz+ text to its lines *)
Theorem xyz_text_lines (strict : bool) L :
  L <> [] -> Forall line_clean L ->
  parse (if strict then "xyz" else "xyz+") (jn L +++ String nl EmptyString) = parse_xyz_lines strict L.
Proof.
  intros Hn Hc.
  assert (Pre : filter_comments (s_strip (jn L +++ String nl EmptyString)) = jn L /\ stripped_lines (jn L) = L).
  { destruct L as [|x L]; [contradiction|].
    assert (Hx : line_clean x) by (inversion Hc; assumption).
    set (J := jn (x :: L)).
    assert (Jfirst : first_is c_is_space J = false) by (unfold J; rewrite first_is_jn by apply Hx; apply Hx).
    assert (Jlast : last_is c_is_space J = false) by (unfold J; rewrite last_is_jn by assumption; apply (last_clean L x Hc)).
    assert (Jne : is_empty J = false) by (apply jn_nonempty, Hx).
    assert (Strip : s_strip (J +++ String nl EmptyString) = J).
    { unfold s_strip.
      assert (Lf : s_lstrip (J +++ String nl EmptyString) = J +++ String nl EmptyString) by (destruct J; [discriminate | simpl in Jfirst |- *; now rewrite Jfirst]).
      rewrite Lf, rstrip_app_nl. now apply rstrip_id. }
    split.
    - rewrite Strip. apply filter_comments_id, hash_jn, Hc.
    - unfold stripped_lines, J. rewrite (split_join _ Hn Hc).
      clear - Hc. induction Hc as [|y L' Hy _ IH]; [reflexivity|]. simpl. now rewrite (strip_id y Hy), IH. }
  destruct Pre as [P1 P2]. unfold parse.
  destruct strict.
  - change (s_eqb "xyz" "xyz") with true. cbv iota. unfold parse_xyz. now rewrite P1, P2.
  - change (s_eqb "xyz+" "xyz") with false. change (s_eqb "xyz+" "xyz+") with true. cbv iota. unfold parse_xyz. now rewrite P1, P2.
Qed.

(* ------------------------------------------------------------------------------------------ *)
(** * tokens of a rendered atom line, for any nucleus recogniser *)
Lemma atom_match_render (nuc : string -> bool) w p v :
  token_ok (av_label v) -> nuc (av_label v) = true ->
  (0 <= bm (av_x v))%Z -> (0 <= bm (av_y v))%Z -> (0 <= bm (av_z v))%Z ->
  atom_match nuc (render_atom w p false false v) = Some (av_label v, dn p (av_x v), dn p (av_y v), dn p (av_z v)).
Proof.
  intros Tk Nuc Hx Hy Hz.
  pose proof (tk_nonempty _ Tk) as Ln. pose proof (tk_nosep _ Tk) as Ls.
  set (FX := fmt_f p (av_x v)). set (FY := fmt_f p (av_y v)). set (FZ := fmt_f p (av_z v)).
  assert (NX : s_any is_sepc FX = false /\ is_empty FX = false) by (split; [apply numeric_no_sep, fmt_f_numch | now apply fmt_f_nonempty]).
  assert (NY : s_any is_sepc FY = false /\ is_empty FY = false) by (split; [apply numeric_no_sep, fmt_f_numch | now apply fmt_f_nonempty]).
  assert (NZ : s_any is_sepc FZ = false /\ is_empty FZ = false) by (split; [apply numeric_no_sep, fmt_f_numch | now apply fmt_f_nonempty]).
  rewrite atom_line_shape. fold FX FY FZ.
  set (R3 := s_repeat sp (w - String.length FZ) +++ FZ).
  set (R2 := s_repeat sp (w - String.length FY) +++ FY +++ s_repeat sp 0 +++ two_sp +++ R3).
  set (R1 := s_repeat sp (w - String.length FX) +++ FX +++ s_repeat sp 0 +++ two_sp +++ R2).
  set (line := av_label v +++ s_repeat sp (w - String.length (av_label v)) +++ two_sp +++ R1).
  assert (T3 : toks R3 = [FZ]) by (unfold R3; rewrite toks_spaces; apply toks_last; tauto).
  assert (T2 : toks R2 = [FY; FZ]) by (unfold R2; rewrite toks_spaces, toks_field by tauto; now rewrite T3).
  assert (T1 : toks R1 = [FX; FY; FZ]) by (unfold R1; rewrite toks_spaces, toks_field by tauto; now rewrite T2).
  assert (T0 : toks line = [av_label v; FX; FY; FZ]) by (unfold line; rewrite toks_field by assumption; now rewrite T1).
  assert (Ed : edges_ok line = true).
  { unfold edges_ok. apply andb_true_iff. split; apply negb_true_iff.
    - unfold line. apply first_is_tok; assumption.
    - unfold line, R1, R2, R3. rewrite <- !app_assoc_s. rewrite last_is_app by tauto. apply last_is_none; tauto. }
  unfold atom_match. rewrite Ed, T0, Nuc. unfold FX, FY, FZ. rewrite !parse_number_fmt by assumption. reflexivity.
Qed.

(* ------------------------------------------------------------------------------------------ *)
(** * cleanliness of the header lines *)
Record name_ok (s : string) : Prop := {
  nm_nl : s_any is_nl s = false; nm_hash : s_any is_hash s = false;
  nm_last : last_is c_is_space s = false; nm_nonempty : is_empty s = false
}.

Lemma digits_plain d : s_all c_is_digit d = true ->
  s_any is_nl d = false /\ s_any is_hash d = false /\ s_any c_is_space d = false.
Proof. intro H. apply numeric_plain. now apply (s_all_weaken c_is_digit numch _ digit_numch). Qed.

Lemma count_line_clean d : s_all c_is_digit d = true -> is_empty d = false -> line_clean d /\ line_clean (d +++ " au").
Proof.
  intros Hd Hn. destruct (digits_plain d Hd) as [A [B C]].
  assert (F : first_is c_is_space d = false) by (destruct d as [|c r]; [discriminate|]; simpl in *; now apply orb_false_iff in C as [C _]).
  split; constructor; try assumption.
  - now apply last_is_none.
  - rewrite s_any_app, A. reflexivity.
  - rewrite s_any_app, B. reflexivity.
  - destruct d; [discriminate | exact F].
  - rewrite last_is_app by reflexivity. reflexivity.
  - destruct d; [discriminate | reflexivity].
Qed.

Lemma title_line_clean c mu name : name_ok name ->
  line_clean (dec_of_Z c +++ String sp (dec_of_Z mu) +++ String sp name).
Proof.
  intros [N1 N2 N3 N4].
  destruct (numeric_plain _ (dec_of_Z_numch c)) as [C1 [C2 C3]].
  destruct (numeric_plain _ (dec_of_Z_numch mu)) as [M1 [M2 M3]].
  pose proof (dec_of_Z_nonempty c) as Ec.
  constructor.
  - rewrite s_any_app. cbn [s_any]. rewrite s_any_app. cbn [s_any]. now rewrite C1, M1, N1.
  - rewrite s_any_app. cbn [s_any]. rewrite s_any_app. cbn [s_any]. now rewrite C2, M2, N2.
  - apply first_is_tok; assumption.
  - rewrite last_is_app by reflexivity.
    change (String sp (dec_of_Z mu) +++ String sp name) with (String sp EmptyString +++ (dec_of_Z mu +++ String sp name)).
    rewrite last_is_app by (destruct (dec_of_Z mu); reflexivity).
    rewrite last_is_app by reflexivity.
    change (String sp name) with (String sp EmptyString +++ name). rewrite last_is_app by assumption. exact N3.
  - destruct (dec_of_Z c); [discriminate | reflexivity].
Qed.

(* ------------------------------------------------------------------------------------------ *)
(** * xyz+ on characters *)
Lemma count_line_text n w r : (0 <= n)%Z ->
  (w, r) = ("au", "Bohr")%string \/ (w, r) = ("", "Angstrom")%string ->
  let l0 := s_rstrip (dec_of_Z n +++ " " +++ show_opt (Some w)) in
  line_clean l0
  /\ xyz1_match l0 = Some (if s_eqb r "Bohr" then Some "Bohr"%string else None)
  /\ (s_eqb r "Angstrom" = true -> all_digits l0 = true).
Proof.
  intros Hn Hw.
  assert (En : dec_of_Z n = dec_of_nonneg n) by (unfold dec_of_Z; destruct (n <? 0)%Z eqn:E; [apply Z.ltb_lt in E; lia | reflexivity]).
  pose proof (dec_nonneg_digits n) as Dn. pose proof (dec_nonneg_nonempty n) as Nn. rewrite <- En in Dn, Nn.
  destruct (count_line_clean _ Dn Nn) as [C1 C2].
  destruct Hw as [E|E]; inversion E; subst w r; cbn [show_opt]; cbv zeta.
  - assert (L0 : s_rstrip (dec_of_Z n +++ " " +++ "au") = dec_of_Z n +++ " au").
    { apply rstrip_id; [|destruct (dec_of_Z n); [discriminate | reflexivity]].
      change (" " +++ "au")%string with (" au")%string. rewrite last_is_app by reflexivity. reflexivity. }
    rewrite L0. split; [exact C2 | split; [now apply xyz1_count_au | discriminate]].
  - assert (L0 : s_rstrip (dec_of_Z n +++ " " +++ "") = dec_of_Z n).
    { change (" " +++ "")%string with (String sp EmptyString). now apply rstrip_digits_space. }
    rewrite L0. split; [exact C1 | split; [now apply xyz1_count_only |]].
    intros _. unfold all_digits. now rewrite Nn, Dn.
Qed.

Theorem roundtrip_xyzplus cfg m text kw w r :
  s_lower (w_dtype cfg) = "xyz+"%string -> w_afmt cfg = None -> w_gfmt cfg = None ->
  to_string_model cfg m = Ok (text, kw) -> unit_word_xyz (units_of e_xyzp cfg) = Some (w, r) ->
  xyzp_fits cfg m -> name_ok (mol_name m) ->
  exists atoms,
    atoms_formatter "{elem}" "@{elem}" (factor_of e_xyzp cfg m) (m_atoms m) = Ok atoms
    /\ parse "xyz+" text = Ok (result_xyz r (Some (dz (m_chg m), m_mult m)) (map (atomd_of (w_prec cfg)) atoms)).
Proof.
  intros Hd Haf Hgf H Hu Hf Hname. unfold to_string_model in H. rewrite Hd, find_xyzp in H.
  apply obind_ok in H as [[ls kw'] [Hl H]]. inversion H; subst text kw'; clear H.
  destruct (roundtrip_xyzplus_lines cfg m ls kw w r Hd Haf Hgf Hl Hu Hf) as [atoms [Ha Hp]].
  exists atoms. split; [assumption|]. rewrite <- Hp.
  unfold render_text. change (wt_xyze e_xyzp) with false. change (wt_lower e_xyzp) with false.
  fold (rl cfg). cbn [fst]. fold (jn (map (rl cfg) ls)).
  apply (xyz_text_lines false).
  - destruct (xyzp_to_lines cfg m ls kw Hd Haf Hgf Hl) as [at' [lbl [_ [_ ->]]]]. discriminate.
  - destruct Hf as [Fa Ff [Fm1 Fm2]].
    destruct (xyzp_to_lines cfg m ls kw Hd Haf Hgf Hl) as [at' [lbl [Ha' [Hlbl ->]]]].
    rewrite Ha in Ha'. inversion Ha'; subst at'; clear Ha'.
    rewrite (xyzp_unit_label _ w r Hu) in Hlbl. inversion Hlbl; subst lbl; clear Hlbl.
    pose proof (xyzp_views _ _ _ Ha Fa Ff) as Vok.
    cbn [map]. unfold rl at 1 2. cbn [render_line].
    constructor; [|constructor].
    + apply (count_line_text (zlen atoms) w r); [unfold zlen; lia | now apply unit_word_xyz_cases with (u := units_of e_xyzp cfg)].
    + change ("" +++ dec_of_Z (m_chg m) +++ String sp (dec_of_Z (m_mult m)) +++ " " +++ mol_name m)
        with (dec_of_Z (m_chg m) +++ String sp (dec_of_Z (m_mult m)) +++ String sp (mol_name m)).
      now apply title_line_clean.
    + now apply atom_lines_clean.
Qed.

(* ------------------------------------------------------------------------------------------ *)
(** * strict xyz on characters: real atoms under plain element symbols (or atomic numbers), Angstrom *)
Definition e_xyz : wt_entry := match wt_find "xyz" wt_table with Some e => e | None => Build_wt_entry "" "" "" FAbsent "" FAbsent [] UNoMap false false false [] end.
Lemma find_xyz : wt_find "xyz" wt_table = Some e_xyz.
Proof. vm_compute. reflexivity. Qed.

Definition atom_fits_xyz (a : atom) : Prop :=
  a_real a = true /\ label_ok (a_elem a) /\ is_simple_nucleus (a_elem a) = true
  /\ (0 <= bm (a_x a))%Z /\ (0 <= bm (a_y a))%Z /\ (0 <= bm (a_z a))%Z.

Definition strict_view_ok (v : atom_view) : Prop := view_ok v /\ is_simple_nucleus (av_label v) = true.

Lemma xyz_views f l : forall atoms,
  atoms_formatter "{elem}" "@{elem}" f l = Ok atoms -> Forall atom_fits_xyz l -> (0 <= bm f)%Z -> Forall strict_view_ok atoms.
Proof.
  induction l as [|a l IH]; intros atoms H Hf Hb; cbn [atoms_formatter] in H.
  - inversion H; subst. constructor.
  - inversion Hf as [|a0 l0 [R [Hl [Hs [Hx [Hy Hz]]]]] Hf']; subst. rewrite R in H.
    rewrite xyzp_format_real in H. cbn [obind] in H. apply obind_ok in H as [vs [Hv H]]. inversion H; subst.
    constructor; [|now apply IH]. unfold strict_view_ok, view_ok, convert; simpl.
    split; [split; [exact Hl | repeat split; apply b64mul_nonneg; assumption] | exact Hs].
Qed.

Lemma xyz_unit_label u w r : unit_word_xyz u = Some (w, r) -> unit_label e_xyz u = Ok (Some w).
Proof.
  unfold unit_word_xyz. intro H. unfold unit_label. cbv zeta.
  destruct (s_eqb (s_lower u) "bohr") eqn:E1.
  - apply String.eqb_eq in E1. rewrite E1. inversion H; subst. vm_compute. reflexivity.
  - destruct (s_eqb (s_lower u) "angstrom") eqn:E2; [|discriminate].
    apply String.eqb_eq in E2. rewrite E2. inversion H; subst. vm_compute. reflexivity.
Qed.

Lemma xyz_to_lines cfg m ls kw :
  s_lower (w_dtype cfg) = "xyz"%string -> w_afmt cfg = None -> w_gfmt cfg = None -> to_lines cfg m = Ok (ls, kw) ->
  exists atoms lbl,
    atoms_formatter "{elem}" "@{elem}" (factor_of e_xyz cfg m) (m_atoms m) = Ok atoms
    /\ unit_label e_xyz (units_of e_xyz cfg) = Ok lbl
    /\ ls = LText (s_rstrip (dec_of_Z (zlen atoms) +++ " " +++ show_opt lbl))
            :: LChgMult "" (m_chg m) (m_mult m) (" " +++ mol_name m) :: map LAtom atoms.
Proof.
  intros Hd Haf Hgf H. unfold to_lines in H. rewrite Hd, find_xyz in H.
  change (s_eqb "xyz" "nglview-sdf") with false in H. change (s_eqb "xyz" "turbomole") with false in H.
  cbv iota in H. cbn [obind] in H.
  change (wt_formatter e_xyz) with true in H. cbv iota in H.
  rewrite Haf, Hgf in H.
  change (pick_format (wt_afmt e_xyz) (wt_afmode e_xyz) None) with "{elem}"%string in H.
  change (pick_format (wt_gfmt e_xyz) (wt_gfmode e_xyz) None) with "@{elem}"%string in H.
  apply obind_ok in H as [atoms [Ha H]]. apply obind_ok in H as [ls' [Hb H]]. apply obind_ok in H as [kw' [_ H]].
  inversion H; subst ls' kw'; clear H.
  unfold branch_lines in Hb. change (wt_dtype e_xyz) with "xyz"%string in Hb.
  cbn -[unit_label units_of e_xyz s_rstrip dec_of_Z mol_name] in Hb.
  apply obind_ok in Hb as [lbl [Hu Hb]]. inversion Hb; subst ls; clear Hb.
  exists atoms, lbl. repeat split; assumption.
Qed.

Lemma strict_atom_lines_match cfg atoms :
  Forall strict_view_ok atoms ->
  Forall2 (fun l at_ => atom_match is_simple_nucleus l = Some at_) (map (rl cfg) (map LAtom atoms)) (map (atomd_of (w_prec cfg)) atoms).
Proof.
  induction 1 as [|v atoms [[Hl [Hx [Hy Hz]]] Hs] _ IH]; simpl; constructor; [|exact IH].
  unfold rl, atomd_of. cbn [render_line]. apply atom_match_render; try assumption. apply Hl.
Qed.

Record xyz_fits (cfg : wcfg) (m : molrec) : Prop := {
  sf_atoms : Forall atom_fits_xyz (m_atoms m);
  sf_factor : (0 <= bm (factor_of e_xyz cfg m))%Z;
  sf_name : name_ok (mol_name m)
}.

(** strict xyz carries elements and coordinates only (the title line is ignored, the unit must be Angstrom) *)
Theorem roundtrip_xyz cfg m text kw :
  s_lower (w_dtype cfg) = "xyz"%string -> w_afmt cfg = None -> w_gfmt cfg = None ->
  to_string_model cfg m = Ok (text, kw) -> unit_word_xyz (units_of e_xyz cfg) = Some ("", "Angstrom")%string ->
  xyz_fits cfg m ->
  exists atoms,
    atoms_formatter "{elem}" "@{elem}" (factor_of e_xyz cfg m) (m_atoms m) = Ok atoms
    /\ parse "xyz" text = Ok (result_xyz "Angstrom" None (map (atomd_of (w_prec cfg)) atoms)).
Proof.
  intros Hd Haf Hgf H Hu [Fa Ff Hname]. unfold to_string_model in H. rewrite Hd, find_xyz in H.
  apply obind_ok in H as [[ls kw'] [Hl H]]. inversion H; subst text kw'; clear H.
  destruct (xyz_to_lines cfg m ls kw Hd Haf Hgf Hl) as [atoms [lbl [Ha [Hlbl ->]]]].
  exists atoms. split; [assumption|].
  rewrite (xyz_unit_label _ _ _ Hu) in Hlbl. inversion Hlbl; subst lbl; clear Hlbl.
  pose proof (xyz_views _ _ _ Ha Fa Ff) as Vok.
  assert (Vok' : Forall view_ok atoms) by (eapply Forall_impl; [|exact Vok]; intros v [V _]; exact V).
  unfold render_text. change (wt_xyze e_xyz) with false. change (wt_lower e_xyz) with false.
  fold (rl cfg). cbn [fst]. fold (jn (map (rl cfg) (LText (s_rstrip (dec_of_Z (zlen atoms) +++ " " +++ show_opt (Some ""%string)))
            :: LChgMult "" (m_chg m) (m_mult m) (" " +++ mol_name m) :: map LAtom atoms))).
  destruct (count_line_text (zlen atoms) "" "Angstrom" ltac:(unfold zlen; lia) (or_intror eq_refl)) as [C0 [_ C2]].
  rewrite (xyz_text_lines true).
  - cbn [map]. unfold rl at 1 2. cbn [render_line].
    apply xyz_lines; [now apply C2 | now apply strict_atom_lines_match].
  - discriminate.
  - cbn [map]. unfold rl at 1 2. cbn [render_line]. constructor; [exact C0|]. constructor.
    + change ("" +++ dec_of_Z (m_chg m) +++ String sp (dec_of_Z (m_mult m)) +++ " " +++ mol_name m)
        with (dec_of_Z (m_chg m) +++ String sp (dec_of_Z (m_mult m)) +++ String sp (mol_name m)).
      now apply title_line_clean.
    + now apply atom_lines_clean.
Qed.
