(** C07 — round trip psi4: the reader model applied to the characters the writer model produces returns
    the written molecule (labels, ghost spelling, coordinates as printed, total and fragment charges and
    multiplicities, fragment boundaries, frame flags, unit) — for every number of atoms and fragments. *)
From Coq Require Import ZArith NArith List String Ascii Bool Lia.
Require Import QV.Common.Outcome QV.Common.WText QV.Common.WBin64 QV.Model.WriterTypes QV.Gen.WriterTables QV.Model.Writers
               QV.Model.Text QV.Proofs.Writers QV.Proofs.TextRT QV.Proofs.TextLex QV.Proofs.TextLayout.
Import ListNotations.
Open Scope nat_scope.

Local Notation "a +++ b" := (String.append a b) (at level 60, right associativity).

(* ------------------------------------------------------------------------------------------ *)
(** * binary64 products keep non-negative mantissas *)
Lemma rhe_div_nonneg n d : (0 <= n)%Z -> (0 <= d)%Z -> (0 <= rhe_div n d)%Z.
Proof.
  intros Hn Hd. unfold rhe_div.
  assert (Hq : (0 <= n / d)%Z).
  { destruct (Z.eq_dec d 0) as [->|Hz]; [rewrite Zdiv_0_r; lia | apply Z.div_pos; lia]. }
  destruct (2 * (n mod d) <? d)%Z; [assumption|]. destruct (d <? 2 * (n mod d))%Z; [lia|]. destruct (Z.even (n / d)); lia.
Qed.
Lemma b64mul_nonneg a b : (0 <= bm a)%Z -> (0 <= bm b)%Z -> (0 <= bm (b64mul a b))%Z.
Proof.
  intros Ha Hb. unfold b64mul, round53. simpl. unfold rshift_rne.
  destruct (_ <=? 0)%Z; [nia|]. apply rhe_div_nonneg; [nia | apply Z.pow_nonneg; lia].
Qed.

(* ------------------------------------------------------------------------------------------ *)
(** * what the psi4 text carries *)
Definition atomd_of (p : nat) (v : atom_view) : atomd := (av_label v, dn p (av_x v), dn p (av_y v), dn p (av_z v)).
Definition view_ok (v : atom_view) : Prop :=
  label_ok (av_label v) /\ (0 <= bm (av_x v))%Z /\ (0 <= bm (av_y v))%Z /\ (0 <= bm (av_z v))%Z.
Definition cm_ok (mu : Z) : Prop := (0 <= mu)%Z /\ String.length (dec_of_Z mu) <= int_max_str_digits.

Definition rl (cfg : wcfg) : line -> string := render_line (w_width cfg) (w_prec cfg) false false.

Lemma atom_lines_lex cfg atoms :
  Forall view_ok atoms ->
  Forall2 lex_as (map (rl cfg) (map LAtom atoms)) (map KAtom (map (atomd_of (w_prec cfg)) atoms)).
Proof.
  induction 1 as [|v atoms [Hl [Hx [Hy Hz]]] _ IH]; simpl; constructor; [|exact IH].
  unfold rl, atomd_of. simpl. apply lex_atom_line; assumption.
Qed.

Lemma cm_line_lex cfg c mu : cm_ok mu -> lex_as (rl cfg (LChgMult "" c mu "")) (KCgmp (dz c) mu).
Proof.
  intros [H1 H2]. unfold rl. simpl. rewrite app_nil_r_s. apply lex_cgmp_line; assumption.
Qed.

(** the fragments of a multi-fragment body *)
Fixpoint frags_of (p : nat) (frs : list (list atom_view)) (i : nat) (fc fm : list Z) : list fragd :=
  match frs with
  | [] => []
  | fr :: r =>
      {| fd_c := dz (nth i fc 0%Z); fd_m := nth i fm 0%Z; fd_atoms := map (atomd_of p) fr |} :: frags_of p r (S i) fc fm
  end.

Lemma frags_of_length p frs : forall i fc fm, List.length (frags_of p frs i fc fm) = List.length frs.
Proof. induction frs as [|fr r IH]; intros; simpl; [reflexivity|]. now rewrite IH. Qed.

Lemma frag_blocks_render cfg frs : forall i fc fm body,
  frag_blocks frs i fc fm = Ok body ->
  Forall (Forall view_ok) frs -> (forall k, i <= k < i + List.length frs -> cm_ok (nth k fm 0%Z)) ->
  exists dashes lss,
    map (rl cfg) body = weave dashes lss /\ List.length dashes = List.length frs
    /\ Forall (fun l => lex_as l KDash) dashes
    /\ Forall2 (fun ls f => Forall2 lex_as ls (block_kinds f)) lss (frags_of (w_prec cfg) frs i fc fm).
Proof.
  induction frs as [|fr r IH]; intros i fc fm body H Hv Hm; simpl in H.
  - inversion H; subst. exists [], []. repeat split; constructor.
  - destruct (nth_error fc i) as [c|] eqn:Ec; [|discriminate]. destruct (nth_error fm i) as [mu|] eqn:Em; [|discriminate].
    apply obind_ok in H as [t [Ht H]]. inversion H; subst; clear H.
    inversion Hv as [|x xs Hv1 Hv2]; subst.
    destruct (IH (S i) fc fm t Ht Hv2) as [dashes [lss [E1 [E2 [E3 E4]]]]].
    { intros k Hk. apply Hm. simpl. lia. }
    exists ("--"%string :: dashes), ((rl cfg (LChgMult "" c mu "") :: map (rl cfg) (map LAtom fr)) :: lss).
    assert (Nc : nth i fc 0%Z = c) by (apply nth_error_nth; assumption).
    assert (Nm : nth i fm 0%Z = mu) by (apply nth_error_nth; assumption).
    repeat split.
    + unfold weave in *. simpl. rewrite map_app, E1. reflexivity.
    + simpl. now rewrite E2.
    + constructor; [apply lex_dash | assumption].
    + cbn [frags_of]. constructor; [|exact E4]. unfold block_kinds, atom_kinds. cbn [fd_c fd_m fd_atoms]. rewrite Nc, Nm.
      constructor; [apply (cm_line_lex cfg); rewrite <- Nm; apply Hm; simpl; lia | apply (atom_lines_lex cfg); assumption].
Qed.

(* ------------------------------------------------------------------------------------------ *)
(** * the psi4 branch of the writer *)
Definition e_psi4 : wt_entry := match wt_find "psi4" wt_table with Some e => e | None => Build_wt_entry "" "" "" FAbsent "" FAbsent [] UNoMap false false false [] end.

Lemma find_psi4 : wt_find "psi4" wt_table = Some e_psi4.
Proof. vm_compute. reflexivity. Qed.

Definition unit_word (u : string) : option (string * string) :=       (* (word written, unit read back) *)
  let k := s_lower u in
  if s_eqb k "bohr" then Some ("bohr", "Bohr")%string else if s_eqb k "angstrom" then Some ("angstrom", "Angstrom")%string else None.

Lemma psi4_unit_label u w r : unit_word u = Some (w, r) -> unit_label e_psi4 u = Ok (Some w).
Proof.
  unfold unit_word. intro H. unfold unit_label. cbv zeta.
  destruct (s_eqb (s_lower u) "bohr") eqn:E1.
  - apply String.eqb_eq in E1. rewrite E1. inversion H; subst. vm_compute. reflexivity.
  - destruct (s_eqb (s_lower u) "angstrom") eqn:E2; [|discriminate].
    apply String.eqb_eq in E2. rewrite E2. inversion H; subst. vm_compute. reflexivity.
Qed.

Lemma tail_lines_lex cfg w r (com orient : bool) :
  (w, r) = ("bohr", "Bohr")%string \/ (w, r) = ("angstrom", "Angstrom")%string ->
  Forall2 lex_as
    (map (rl cfg) ([LText ("units " +++ show_opt (Some w))] ++ (if com then [LText "no_com"] else []) ++ (if orient then [LText "no_reorient"] else [])))
    (tail_kinds r com orient).
Proof.
  intros [E|E]; inversion E; subst; unfold tail_kinds; destruct com, orient; simpl;
    repeat constructor; first [apply lex_units_bohr | apply lex_units_angstrom | apply lex_no_com | apply lex_no_reorient].
Qed.

(** the psi4 lines in terms of the formatted atoms *)
Lemma psi4_to_lines cfg m ls kw :
  s_lower (w_dtype cfg) = "psi4"%string -> to_lines cfg m = Ok (ls, kw) ->
  exists atoms body lbl,
    atoms_formatter (af_of e_psi4 cfg) (gf_of e_psi4 cfg) (factor_of e_psi4 cfg m) (m_atoms m) = Ok atoms
    /\ fragment_lines m atoms = Ok body
    /\ unit_label e_psi4 (units_of e_psi4 cfg) = Ok lbl
    /\ ls = LChgMult "" (m_chg m) (m_mult m) "" :: body
            ++ [LText ("units " +++ show_opt lbl)]
            ++ (if m_fix_com m then [LText "no_com"] else []) ++ (if m_fix_orient m then [LText "no_reorient"] else []).
Proof.
  intros Hd H. unfold to_lines in H. rewrite Hd, find_psi4 in H.
  change (s_eqb "psi4" "nglview-sdf") with false in H. change (s_eqb "psi4" "turbomole") with false in H.
  cbv iota in H. cbn [obind] in H.
  change (wt_formatter e_psi4) with true in H. cbv iota in H.
  apply obind_ok in H as [atoms [Ha H]]. apply obind_ok in H as [ls' [Hb H]]. apply obind_ok in H as [kw' [_ H]].
  inversion H; subst ls' kw'; clear H.
  unfold branch_lines in Hb. change (wt_dtype e_psi4) with "psi4"%string in Hb.
  cbn -[fragment_lines unit_label units_of e_psi4] in Hb.
  apply obind_ok in Hb as [body [Hf Hb]]. apply obind_ok in Hb as [lbl [Hu Hb]]. inversion Hb; subst ls; clear Hb.
  exists atoms, body, lbl. repeat split; assumption.
Qed.

(* ------------------------------------------------------------------------------------------ *)
(** * the molecules the psi4 text can carry, and what it carries *)
Definition psi4_label (a : atom) : string :=
  if a_real a then a_elem a +++ a_elbl a else "Gh(" +++ a_elem a +++ a_elbl a +++ ")".

Definition atom_fits (a : atom) : Prop :=
  label_ok (psi4_label a) /\ (0 <= bm (a_x a))%Z /\ (0 <= bm (a_y a))%Z /\ (0 <= bm (a_z a))%Z.

Lemma psi4_formats cfg : af_of e_psi4 cfg = "{elem}{elbl}"%string /\ gf_of e_psi4 cfg = "Gh({elem}{elbl})"%string.
Proof. split; vm_compute; reflexivity. Qed.

Lemma psi4_format_real a : py_format "{elem}{elbl}" a = Ok (a_elem a +++ a_elbl a).
Proof. cbv -[String.append a_elem a_elbl]. now rewrite app_nil_r_s. Qed.
Lemma psi4_format_ghost a : py_format "Gh({elem}{elbl})" a = Ok ("Gh(" +++ a_elem a +++ a_elbl a +++ ")").
Proof. cbv -[String.append a_elem a_elbl]. reflexivity. Qed.

Lemma psi4_views cfg f l atoms :
  atoms_formatter (af_of e_psi4 cfg) (gf_of e_psi4 cfg) f l = Ok atoms ->
  Forall atom_fits l -> (0 <= bm f)%Z ->
  Forall view_ok atoms /\ List.length atoms = List.length l.
Proof.
  destruct (psi4_formats cfg) as [-> ->]. revert atoms.
  induction l as [|a l IH]; intros atoms H Hf Hb; cbn [atoms_formatter] in H.
  - inversion H; subst. split; [constructor | reflexivity].
  - inversion Hf as [|a0 l0 [Hl [Hx [Hy Hz]]] Hf']; subst.
    change (s_eqb "Gh({elem}{elbl})" "") with false in H.
    destruct (a_real a) eqn:R.
    + rewrite psi4_format_real in H. cbn [obind] in H. apply obind_ok in H as [vs [Hv H]]. inversion H; subst.
      destruct (IH vs Hv Hf' Hb) as [I1 I2]. split; [|simpl; now rewrite I2].
      constructor; [|assumption]. unfold view_ok, convert; simpl. unfold psi4_label in Hl. rewrite R in Hl.
      split; [exact Hl | repeat split; apply b64mul_nonneg; assumption].
    + rewrite psi4_format_ghost in H. cbn [obind] in H. apply obind_ok in H as [vs [Hv H]]. inversion H; subst.
      destruct (IH vs Hv Hf' Hb) as [I1 I2]. split; [|simpl; now rewrite I2].
      constructor; [|assumption]. unfold view_ok, convert; simpl. unfold psi4_label in Hl. rewrite R in Hl.
      split; [exact Hl | repeat split; apply b64mul_nonneg; assumption].
Qed.

Lemma Forall_firstn {A} (P : A -> Prop) n l : Forall P l -> Forall P (firstn n l).
Proof. revert l; induction n; intros l H; simpl; [constructor|]. destruct l; [constructor|]. inversion H; subst. constructor; auto. Qed.
Lemma Forall_skipn {A} (P : A -> Prop) n l : Forall P l -> Forall P (skipn n l).
Proof. revert l; induction n; intros l H; simpl; [assumption|]. destruct l; [constructor|]. inversion H; subst. auto. Qed.
Lemma Forall_np_split {A} (P : A -> Prop) l seps : forall start, Forall P l -> Forall (Forall P) (np_split_from l start seps).
Proof.
  induction seps as [|s r IH]; intros start H; simpl.
  - constructor; [now apply Forall_skipn | constructor].
  - constructor; [unfold slice; now apply Forall_firstn, Forall_skipn | now apply IH].
Qed.

Definition carried_psi4 (cfg : wcfg) (m : molrec) (atoms : list atom_view) (r : string) : processed :=
  let p := w_prec cfg in
  match m_seps m with
  | [] => result_single {| fd_c := dz (m_chg m); fd_m := m_mult m; fd_atoms := map (atomd_of p) atoms |}
                        r (m_fix_com m) (m_fix_orient m)
  | _ => result_multi (dz (m_chg m)) (m_mult m) (frags_of p (np_split atoms (m_seps m)) 0 (m_fchg m) (m_fmult m))
                      r (m_fix_com m) (m_fix_orient m)
  end.

Record psi4_fits (cfg : wcfg) (m : molrec) : Prop := {
  pf_atoms : Forall atom_fits (m_atoms m);
  pf_some : m_atoms m <> [];
  pf_factor : (0 <= bm (factor_of e_psi4 cfg m))%Z;
  pf_mult : cm_ok (m_mult m);
  pf_fmult : forall k, cm_ok (nth k (m_fmult m) 0%Z)
}.

Lemma unit_word_cases u w r : unit_word u = Some (w, r) ->
  (w, r) = ("bohr", "Bohr")%string \/ (w, r) = ("angstrom", "Angstrom")%string.
Proof.
  unfold unit_word. destruct (s_eqb (s_lower u) "bohr"); [intro H; inversion H; auto|].
  destruct (s_eqb (s_lower u) "angstrom"); [intro H; inversion H; auto | discriminate].
Qed.

(** Round trip at the level of lines: the psi4 reader applied to the rendered lines of the psi4 writer *)
Theorem roundtrip_psi4_lines cfg m ls kw w r :
  s_lower (w_dtype cfg) = "psi4"%string -> to_lines cfg m = Ok (ls, kw) ->
  unit_word (units_of e_psi4 cfg) = Some (w, r) -> psi4_fits cfg m ->
  exists atoms,
    atoms_formatter (af_of e_psi4 cfg) (gf_of e_psi4 cfg) (factor_of e_psi4 cfg m) (m_atoms m) = Ok atoms
    /\ parse_psi4_lines (map (rl cfg) ls) = Ok (carried_psi4 cfg m atoms r).
Proof.
  intros Hd H Hu [Fa Fs Ff Fm Ffm].
  destruct (psi4_to_lines cfg m ls kw Hd H) as [atoms [body [lbl [Ha [Hb [Hl ->]]]]]].
  exists atoms. split; [assumption|].
  destruct (psi4_views cfg _ _ _ Ha Fa Ff) as [Vok Vlen].
  rewrite (psi4_unit_label _ w r Hu) in Hl. inversion Hl; subst lbl; clear Hl.
  pose proof (tail_lines_lex cfg w r (m_fix_com m) (m_fix_orient m) (unit_word_cases _ _ _ Hu)) as Tl.
  unfold carried_psi4.
  destruct (m_seps m) as [|s0 seps] eqn:Es.
  - (* one fragment *)
    unfold fragment_lines in Hb. rewrite Es in Hb. unfold np_split in Hb. simpl in Hb. inversion Hb; subst body; clear Hb.
    change (map (rl cfg) (LChgMult "" (m_chg m) (m_mult m) "" :: map LAtom atoms ++ ?t))
      with (rl cfg (LChgMult "" (m_chg m) (m_mult m) "") :: map (rl cfg) (map LAtom atoms ++ t)).
    rewrite map_app.
    change (?a :: ?b ++ ?c) with ((a :: b) ++ c).
    apply psi4_lines_single.
    + simpl. destruct atoms; [simpl in Vlen; destruct (m_atoms m); [contradiction | discriminate] | discriminate].
    + unfold block_kinds, atom_kinds. cbn [fd_c fd_m fd_atoms]. constructor; [now apply (cm_line_lex cfg) | now apply (atom_lines_lex cfg)].
    + exact Tl.
  - (* several fragments *)
    assert (Hs : m_seps m <> []) by (rewrite Es; discriminate).
    apply fragment_lines_multi in Hb; [|assumption]. rewrite Es in Hb.
    destruct (frag_blocks_render cfg _ _ _ _ _ Hb) as [dashes [lss [E1 [E2 [E3 E4]]]]].
    + apply Forall_np_split; assumption.
    + intros k _. apply Ffm.
    + change (map (rl cfg) (LChgMult "" (m_chg m) (m_mult m) "" :: body ++ ?t))
        with (rl cfg (LChgMult "" (m_chg m) (m_mult m) "") :: map (rl cfg) (body ++ t)).
      rewrite map_app, E1.
      change (?a :: ?b ++ ?c) with ((a :: b) ++ c).
      apply psi4_lines_multi; try assumption.
      * now apply (cm_line_lex cfg).
      * rewrite E2. symmetry. apply frags_of_length.
Qed.

(* ------------------------------------------------------------------------------------------ *)
(** * from the characters of the text to its lines *)
Definition is_nl (c : ascii) : bool := c_eqb c nl.
Definition is_hash (c : ascii) : bool := c_eqb c c_hash.
Record line_clean (l : string) : Prop := {
  lc_nl : s_any is_nl l = false;
  lc_hash : s_any is_hash l = false;
  lc_first : first_is c_is_space l = false;
  lc_last : last_is c_is_space l = false;
  lc_nonempty : is_empty l = false
}.
Definition jn (L : list string) : string := s_join (String nl EmptyString) L.

(** splitting what was joined *)
Lemma split_line x : forall rest, s_any is_nl x = false -> s_split nl (x +++ String nl rest) = x :: s_split nl rest.
Proof.
  induction x as [|c x IH]; intros rest H.
  - simpl. change (c_eqb nl nl) with true. reflexivity.
  - cbn [s_any] in H. apply orb_false_iff in H as [Hc Hx]. unfold is_nl in Hc.
    cbn [String.append s_split]. rewrite Hc. rewrite (IH rest Hx). reflexivity.
Qed.
Lemma split_single x : s_any is_nl x = false -> s_split nl x = [x].
Proof.
  induction x as [|c x IH]; intro H; [reflexivity|].
  cbn [s_any] in H. apply orb_false_iff in H as [Hc Hx]. unfold is_nl in Hc.
  cbn [s_split]. rewrite Hc, (IH Hx). reflexivity.
Qed.
Lemma jn_cons x y L : jn (x :: y :: L) = x +++ String nl (jn (y :: L)).
Proof. reflexivity. Qed.
Lemma split_join L : L <> [] -> Forall line_clean L -> s_split nl (jn L) = L.
Proof.
  induction L as [|x L IH]; intros Hn H; [contradiction|].
  inversion H as [|x0 L0 Hx HL]; subst. destruct L as [|y L].
  - simpl. apply split_single, Hx.
  - rewrite jn_cons, split_line by apply Hx. f_equal. apply IH; [discriminate | assumption].
Qed.

(** no '#': filter_comments is the identity *)
Lemma fc_id s : forall p, s_any is_hash s = false -> fc s false p = s.
Proof.
  induction s as [|c s IH]; intros p H; [reflexivity|].
  cbn [s_any] in H. apply orb_false_iff in H as [Hc Hs]. unfold is_hash in Hc.
  cbn [fc andb]. rewrite Hc. cbn [andb]. destruct s as [|c2 s2]; [reflexivity|].
  pose proof Hs as Hs'. cbn [s_any] in Hs'. apply orb_false_iff in Hs' as [Hc2 _]. unfold is_hash in Hc2.
  rewrite Hc2, andb_false_r. f_equal. now apply IH.
Qed.
Lemma filter_comments_id s : s_any is_hash s = false -> filter_comments s = s.
Proof. apply fc_id. Qed.

(** strip leaves a string alone that begins and ends with a non-blank *)
Lemma rstrip_id l : last_is c_is_space l = false -> is_empty l = false -> s_rstrip l = l.
Proof.
  induction l as [|c l IH]; intros Hl Hn; [discriminate|].
  destruct l as [|c2 l2].
  - simpl in *. now rewrite Hl.
  - change (last_is c_is_space (String c (String c2 l2))) with (last_is c_is_space (String c2 l2)) in Hl.
    cbn [s_rstrip]. cbn [s_rstrip] in IH. rewrite (IH Hl eq_refl). reflexivity.
Qed.
Lemma strip_id_gen l : first_is c_is_space l = false -> last_is c_is_space l = false -> is_empty l = false -> s_strip l = l.
Proof.
  intros Hf Hl Hn. unfold s_strip. destruct l as [|c r]; [discriminate|].
  simpl in Hf. cbn [s_lstrip]. rewrite Hf. now apply rstrip_id.
Qed.
Lemma strip_id l : line_clean l -> s_strip l = l.
Proof. intros [_ _ Hf Hl Hn]. now apply strip_id_gen. Qed.

Lemma hash_jn L : Forall line_clean L -> s_any is_hash (jn L) = false.
Proof.
  induction L as [|x L IH]; intro H; [reflexivity|]. inversion H as [|x0 L0 Hx HL]; subst.
  destruct L as [|y L]; [apply Hx|].
  rewrite jn_cons, s_any_app. cbn [s_any]. rewrite (lc_hash _ Hx), (IH HL). reflexivity.
Qed.
Lemma first_is_jn p x L : is_empty x = false -> first_is p (jn (x :: L)) = first_is p x.
Proof. intro H. destruct x as [|c r]; [discriminate|]. destruct L; reflexivity. Qed.
Lemma jn_nonempty x L : is_empty x = false -> is_empty (jn (x :: L)) = false.
Proof. intro H. destruct x as [|c r]; [discriminate|]. destruct L; reflexivity. Qed.
Lemma last_is_jn p L : forall x, Forall line_clean (x :: L) -> last_is p (jn (x :: L)) = last_is p (List.last (x :: L) EmptyString).
Proof.
  induction L as [|y L IH]; intros x H; [reflexivity|].
  inversion H as [|x0 L0 Hx HL]; subst.
  rewrite jn_cons.
  change (String nl (jn (y :: L))) with (String nl EmptyString +++ jn (y :: L)).
  assert (Ne : is_empty (jn (y :: L)) = false).
  { apply jn_nonempty. inversion HL as [|y0 L1 Hy HL1]; subst. apply Hy. }
  rewrite last_is_app.
  - rewrite last_is_app by exact Ne. rewrite IH by assumption. reflexivity.
  - destruct (jn (y :: L)); [discriminate | reflexivity].
Qed.
Lemma last_clean L : forall x, Forall line_clean (x :: L) -> line_clean (List.last (x :: L) EmptyString).
Proof.
  induction L as [|y L IH]; intros x H; [inversion H; assumption|].
  inversion H as [|x0 L0 Hx HL]; subst. change (List.last (x :: y :: L) EmptyString) with (List.last (y :: L) EmptyString). now apply IH.
Qed.
Lemma rstrip_app_nl s : s_rstrip (s +++ String nl EmptyString) = s_rstrip s.
Proof. induction s as [|c s IH]; [reflexivity|]. cbn [String.append s_rstrip]. now rewrite IH. Qed.

(** the text of clean lines, read back line by line *)
Theorem psi4_text_lines L :
  L <> [] -> Forall line_clean L -> parse "psi4" (jn L +++ String nl EmptyString) = parse_psi4_lines L.
Proof.
  intros Hn Hc. unfold parse. change (s_eqb "psi4" "xyz") with false. change (s_eqb "psi4" "xyz+") with false.
  change (s_eqb "psi4" "psi4") with true. cbv iota.
  destruct L as [|x L]; [contradiction|].
  assert (Hx : line_clean x) by (inversion Hc; assumption).
  set (J := jn (x :: L)).
  assert (Jfirst : first_is c_is_space J = false) by (unfold J; rewrite first_is_jn by apply Hx; apply Hx).
  assert (Jlast : last_is c_is_space J = false) by (unfold J; rewrite last_is_jn by assumption; apply (last_clean L x Hc)).
  assert (Jne : is_empty J = false) by (apply jn_nonempty, Hx).
  assert (Strip : s_strip (J +++ String nl EmptyString) = J).
  { unfold s_strip. assert (Lf : s_lstrip (J +++ String nl EmptyString) = J +++ String nl EmptyString) by (destruct J; [discriminate | simpl in Jfirst |- *; now rewrite Jfirst]). rewrite Lf.
    rewrite rstrip_app_nl. now apply rstrip_id. }
  rewrite Strip, (filter_comments_id J (hash_jn _ Hc)).
  unfold parse_psi4, stripped_lines. unfold J. rewrite (split_join _ Hn Hc).
  assert (M : map s_strip (x :: L) = x :: L).
  { clear - Hc. induction Hc as [|y L' Hy _ IH]; [reflexivity|]. simpl. now rewrite (strip_id y Hy), IH. }
  rewrite M.
  assert (F : filter nonempty (x :: L) = x :: L).
  { clear - Hc. induction Hc as [|y L' Hy _ IH]; [reflexivity|]. simpl. unfold nonempty at 1. rewrite (lc_nonempty _ Hy). simpl. now rewrite IH. }
  now rewrite F.
Qed.

(* ------------------------------------------------------------------------------------------ *)
(** * the rendered psi4 lines are clean *)
Lemma s_any_repeat p c n : p c = false -> s_any p (s_repeat c n) = false.
Proof. intro H. induction n; simpl; [reflexivity|]. now rewrite H. Qed.

Lemma numch_plain c : numch c = true -> is_nl c = false /\ is_hash c = false /\ c_is_space c = false.
Proof. destruct c as [[] [] [] [] [] [] [] []]; vm_compute; intro H; try discriminate; auto. Qed.
Lemma clean_char c : blank_or_hash c = false -> is_nl c = false /\ is_hash c = false /\ c_is_space c = false.
Proof. destruct c as [[] [] [] [] [] [] [] []]; vm_compute; intro H; try discriminate; auto. Qed.

Lemma s_any_weaken (q p : ascii -> bool) s : (forall c, q c = false -> p c = false) -> s_any q s = false -> s_any p s = false.
Proof.
  intro Hqp. induction s as [|x s IH]; intro H; simpl in *; [reflexivity|].
  apply orb_false_iff in H as [Hx Hs]. now rewrite (Hqp x Hx), IH.
Qed.

Lemma numeric_plain s : s_all numch s = true ->
  s_any is_nl s = false /\ s_any is_hash s = false /\ s_any c_is_space s = false.
Proof.
  intro H. repeat split; (eapply s_all_none; [|exact H]); intros c Hc; destruct (numch_plain c Hc) as [A [B C]]; assumption.
Qed.

Lemma atom_line_clean w p v :
  label_ok (av_label v) -> (0 <= bm (av_x v))%Z -> (0 <= bm (av_y v))%Z -> (0 <= bm (av_z v))%Z ->
  line_clean (render_atom w p false false v).
Proof.
  intros [Tk _ Cl] Hx Hy Hz. rewrite atom_line_shape.
  pose proof (tk_nonempty _ Tk) as Ln.
  assert (Lnl : s_any is_nl (av_label v) = false) by (eapply s_any_weaken; [|exact Cl]; intros c Hc; now destruct (clean_char c Hc)).
  assert (Lh : s_any is_hash (av_label v) = false) by (eapply s_any_weaken; [|exact Cl]; intros c Hc; now destruct (clean_char c Hc) as [_ [? _]]).
  assert (Lsp : s_any c_is_space (av_label v) = false) by (eapply s_any_weaken; [|exact Cl]; intros c Hc; now destruct (clean_char c Hc) as [_ [_ ?]]).
  destruct (numeric_plain _ (fmt_f_numch p (av_x v))) as [X1 [X2 X3]].
  destruct (numeric_plain _ (fmt_f_numch p (av_y v))) as [Y1 [Y2 Y3]].
  destruct (numeric_plain _ (fmt_f_numch p (av_z v))) as [Z1 [Z2 Z3]].
  constructor.
  - rewrite !s_any_app, Lnl, X1, Y1, Z1, !(s_any_repeat is_nl sp _ eq_refl). reflexivity.
  - rewrite !s_any_app, Lh, X2, Y2, Z2, !(s_any_repeat is_hash sp _ eq_refl). reflexivity.
  - apply first_is_tok; assumption.
  - rewrite <- !app_assoc_s. rewrite last_is_app by (now apply fmt_f_nonempty). now apply last_is_none.
  - destruct (av_label v); [discriminate | reflexivity].
Qed.

Lemma cm_line_clean c mu : (0 <= mu)%Z -> line_clean (dec_of_Z c +++ String sp (dec_of_Z mu)).
Proof.
  intro Hm.
  destruct (numeric_plain _ (dec_of_Z_numch c)) as [C1 [C2 C3]].
  destruct (numeric_plain _ (dec_of_Z_numch mu)) as [M1 [M2 M3]].
  pose proof (dec_of_Z_nonempty c) as Ec. pose proof (dec_of_Z_nonempty mu) as Em.
  constructor.
  - rewrite s_any_app. cbn [s_any]. now rewrite C1, M1.
  - rewrite s_any_app. cbn [s_any]. now rewrite C2, M2.
  - apply first_is_tok; assumption.
  - change (String sp (dec_of_Z mu)) with (String sp EmptyString +++ dec_of_Z mu). rewrite <- app_assoc_s.
    rewrite last_is_app by assumption. now apply last_is_none.
  - destruct (dec_of_Z c); [discriminate | reflexivity].
Qed.

Lemma fixed_lines_clean : line_clean "--" /\ line_clean "units bohr" /\ line_clean "units angstrom" /\ line_clean "no_com" /\ line_clean "no_reorient".
Proof. repeat split; vm_compute; reflexivity. Qed.

Lemma atom_lines_clean cfg atoms : Forall view_ok atoms -> Forall line_clean (map (rl cfg) (map LAtom atoms)).
Proof.
  induction 1 as [|v atoms [Hl [Hx [Hy Hz]]] _ IH]; simpl; constructor; [|exact IH].
  unfold rl. simpl. now apply atom_line_clean.
Qed.
Lemma cm_clean cfg c mu : (0 <= mu)%Z -> line_clean (rl cfg (LChgMult "" c mu "")).
Proof. intro H. unfold rl. simpl. rewrite app_nil_r_s. now apply cm_line_clean. Qed.

Lemma frag_blocks_clean cfg frs : forall i fc fm body,
  frag_blocks frs i fc fm = Ok body -> Forall (Forall view_ok) frs -> (forall k, (0 <= nth k fm 0)%Z) ->
  Forall line_clean (map (rl cfg) body).
Proof.
  induction frs as [|fr r IH]; intros i fc fm body H Hv Hm; simpl in H.
  - inversion H; subst. constructor.
  - destruct (nth_error fc i) as [c|] eqn:Ec; [|discriminate]. destruct (nth_error fm i) as [mu|] eqn:Em; [|discriminate].
    apply obind_ok in H as [t [Ht H]]. inversion H; subst; clear H. inversion Hv as [|x xs Hv1 Hv2]; subst.
    assert (Nm : nth i fm 0%Z = mu) by (apply nth_error_nth; assumption).
    cbn [map]. constructor; [apply fixed_lines_clean|]. constructor; [apply cm_clean; rewrite <- Nm; apply Hm|].
    rewrite map_app. apply Forall_app. split; [now apply atom_lines_clean | eapply IH; eassumption].
Qed.

(** Round trip psi4, on characters: parsing the text the writer produces returns the written molecule *)
Theorem roundtrip_psi4 cfg m text kw w r :
  s_lower (w_dtype cfg) = "psi4"%string -> to_string_model cfg m = Ok (text, kw) ->
  unit_word (units_of e_psi4 cfg) = Some (w, r) -> psi4_fits cfg m ->
  exists atoms,
    atoms_formatter (af_of e_psi4 cfg) (gf_of e_psi4 cfg) (factor_of e_psi4 cfg m) (m_atoms m) = Ok atoms
    /\ parse "psi4" text = Ok (carried_psi4 cfg m atoms r).
Proof.
  intros Hd H Hu Hf. unfold to_string_model in H. rewrite Hd, find_psi4 in H.
  apply obind_ok in H as [[ls kw'] [Hl H]]. inversion H; subst text kw'; clear H.
  destruct (roundtrip_psi4_lines cfg m ls kw w r Hd Hl Hu Hf) as [atoms [Ha Hp]].
  exists atoms. split; [assumption|]. rewrite <- Hp.
  unfold render_text. change (wt_xyze e_psi4) with false. change (wt_lower e_psi4) with false.
  fold (rl cfg). cbn [fst]. fold (jn (map (rl cfg) ls)).
  apply psi4_text_lines.
  - destruct (psi4_to_lines cfg m ls kw Hd Hl) as [at' [body [lbl [_ [_ [_ ->]]]]]]. discriminate.
  - destruct Hf as [Fa Fs Ff [Fm0 _] Ffm].
    destruct (psi4_to_lines cfg m ls kw Hd Hl) as [at' [body [lbl [Ha' [Hb [Hlbl ->]]]]]].
    rewrite Ha in Ha'. inversion Ha'; subst at'; clear Ha'.
    destruct (psi4_views cfg _ _ _ Ha Fa Ff) as [Vok _].
    rewrite (psi4_unit_label _ w r Hu) in Hlbl. inversion Hlbl; subst lbl; clear Hlbl.
    cbn [map]. constructor; [now apply cm_clean|]. rewrite map_app. apply Forall_app. split.
    + unfold fragment_lines in Hb. destruct (np_split atoms (m_seps m)) as [|fr [|fr2 rest]] eqn:E.
      * eapply frag_blocks_clean; [exact Hb | constructor | intro k; apply Ffm].
      * inversion Hb; subst body. apply atom_lines_clean.
        pose proof (Forall_np_split view_ok atoms (m_seps m) 0 Vok) as F. fold (np_split atoms (m_seps m)) in F. rewrite E in F.
        inversion F; assumption.
      * eapply frag_blocks_clean; [exact Hb | | intro k; apply Ffm].
        pose proof (Forall_np_split view_ok atoms (m_seps m) 0 Vok) as F. fold (np_split atoms (m_seps m)) in F. now rewrite E in F.
    + destruct (unit_word_cases _ _ _ Hu) as [E|E]; inversion E; subst; destruct (m_fix_com m), (m_fix_orient m); simpl;
        repeat constructor; apply fixed_lines_clean.
Qed.

(* ------------------------------------------------------------------------------------------ *)
(** * line-level layout statements apply to texts: a comment-free text whose first and last characters are
      not blank is parsed from its lines *)
Definition plain_line (l : string) : Prop := s_any is_nl l = false /\ s_any is_hash l = false.

Lemma split_join_plain L : L <> [] -> Forall plain_line L -> s_split nl (jn L) = L.
Proof.
  induction L as [|x L IH]; intros Hn H; [contradiction|].
  inversion H as [|x0 L0 [Hx _] HL]; subst. destruct L as [|y L].
  - simpl. now apply split_single.
  - rewrite jn_cons, split_line by assumption. f_equal. apply IH; [discriminate | assumption].
Qed.
Lemma hash_jn_plain L : Forall plain_line L -> s_any is_hash (jn L) = false.
Proof.
  induction L as [|x L IH]; intro H; [reflexivity|]. inversion H as [|x0 L0 [_ Hx] HL]; subst.
  destruct L as [|y L]; [assumption|].
  rewrite jn_cons, s_any_app. cbn [s_any]. rewrite Hx, (IH HL). reflexivity.
Qed.

Theorem psi4_text_of_lines L :
  L <> [] -> Forall plain_line L ->
  first_is c_is_space (jn L) = false -> last_is c_is_space (jn L) = false -> is_empty (jn L) = false ->
  parse "psi4" (jn L) = psi4_of_lines L.
Proof.
  intros Hn Hp Hf Hl He. unfold parse. change (s_eqb "psi4" "xyz") with false. change (s_eqb "psi4" "xyz+") with false.
  change (s_eqb "psi4" "psi4") with true. cbv iota.
  rewrite (strip_id_gen _ Hf Hl He), (filter_comments_id _ (hash_jn_plain _ Hp)).
  unfold parse_psi4, stripped_lines, psi4_of_lines. now rewrite (split_join_plain _ Hn Hp).
Qed.
