(** C14 — partial correctness of the driver: whenever the fuelled run of the model returns, the result passes
    the certificate checker (hence satisfies the whole property), for matrices of every shape. *)
From Coq Require Import ZArith List Bool Arith Lia Permutation Sorted.
Require Import QV.Common.Outcome QV.Model.Hungarian QV.Proofs.HungarianCert QV.Proofs.HungarianLib
  QV.Proofs.HungarianInv QV.Proofs.HungarianStep4 QV.Proofs.HungarianStep5.
Import ListNotations.
Open Scope Z_scope.

(** * Sortedness of np.nonzero's output *)
Definition lexlt (p q : nat * nat) : Prop := (fst p < fst q)%nat \/ (fst p = fst q /\ (snd p < snd q)%nat).

Lemma SS_app {A} (R : A -> A -> Prop) : forall l1 l2, StronglySorted R l1 -> StronglySorted R l2 ->
  (forall x y, In x l1 -> In y l2 -> R x y) -> StronglySorted R (l1 ++ l2).
Proof.
  induction l1; simpl; intros; auto. inversion H; subst. constructor.
  - apply IHl1; auto.
  - apply Forall_app. split; auto. apply Forall_forall. intros y Hy. apply H1; auto.
Qed.

Lemma SS_filter {A} (R : A -> A -> Prop) (p : A -> bool) : forall l, StronglySorted R l -> StronglySorted R (filter p l).
Proof.
  induction 1; simpl. constructor. destruct (p a); auto. constructor; auto.
  rewrite Forall_forall in *. intros x Hx. apply filter_In in Hx. apply H0. tauto.
Qed.

Lemma SS_seq : forall k a, StronglySorted lt (seq a k).
Proof.
  induction k; simpl; intros; constructor; auto. apply Forall_forall. intros x Hx. apply in_seq in Hx. lia.
Qed.

Lemma SS_map_pair i : forall l, StronglySorted lt l -> StronglySorted lexlt (map (fun j => (i, j)) l).
Proof.
  induction 1; simpl; constructor; auto. rewrite Forall_forall in *. intros x Hx.
  apply in_map_iff in Hx. destruct Hx as [j [E Hj]]. subst x. right. simpl. split; auto.
Qed.

Lemma SS_positions_from m : forall k a,
  StronglySorted lexlt (flat_map (fun i => map (fun j => (i, j)) (seq 0 m)) (seq a k)).
Proof.
  induction k; simpl; intros. constructor.
  apply SS_app; auto. apply SS_map_pair. apply SS_seq.
  intros x y Hx Hy. apply in_map_iff in Hx. destruct Hx as [j [E _]]. subst x.
  apply in_flat_map in Hy. destruct Hy as [i [Hi Hy]]. apply in_map_iff in Hy. destruct Hy as [j' [E _]]. subst y.
  apply in_seq in Hi. left. simpl. lia.
Qed.

Lemma SS_positions n m : StronglySorted lexlt (positions n m).
Proof. apply SS_positions_from. Qed.

Lemma lexlt_irrefl p : ~ lexlt p p.
Proof. unfold lexlt. lia. Qed.

Lemma SS_lex_NoDup : forall l, StronglySorted lexlt l -> NoDup l.
Proof.
  induction 1; constructor; auto. intro Hin. rewrite Forall_forall in H0. apply (lexlt_irrefl a). auto.
Qed.

Lemma SS_map_fst : forall l, StronglySorted lexlt l ->
  (forall p q, In p l -> In q l -> fst p = fst q -> p = q) -> StronglySorted lt (map fst l).
Proof.
  induction 1; simpl; intros U; constructor.
  - apply IHStronglySorted. intros; apply U; simpl; auto.
  - rewrite Forall_forall in *. intros x Hx. apply in_map_iff in Hx. destruct Hx as [q [E Hq]]. subst x.
    destruct (H0 q Hq) as [L|[E L]]; auto.
    assert (a = q) by (apply U; simpl; auto). subst. lia.
Qed.

Lemma NoDup_map_on {A B} (f : A -> B) : forall l, NoDup l ->
  (forall p q, In p l -> In q l -> f p = f q -> p = q) -> NoDup (map f l).
Proof.
  induction 1; simpl; intros U; constructor.
  - intro Hin. apply in_map_iff in Hin. destruct Hin as [q [E Hq]].
    assert (q = x) by (apply U; simpl; auto). subst. contradiction.
  - apply IHNoDup. intros; apply U; simpl; auto.
Qed.

Section Nonzero.
Variables (M : mat) (a b : nat).
Hypothesis HR : rect M a b.
Hypothesis Ha : (0 < a)%nat.

Lemma in_nonzero1 i j : In (i, j) (nonzero1 M) <-> (i < a)%nat /\ (j < b)%nat /\ mget M i j = 1.
Proof.
  unfold nonzero1. rewrite (rect_nrows M a b HR), (rect_ncols M a b HR Ha).
  rewrite filter_In, in_positions. simpl. rewrite Z.eqb_eq. tauto.
Qed.

Lemma nonzero1_sorted : StronglySorted lexlt (nonzero1 M).
Proof. unfold nonzero1. apply SS_filter. apply SS_positions. Qed.

Lemma nonzero1_rows_sorted :
  (forall i j j', mget M i j = 1 -> mget M i j' = 1 -> j = j') -> StronglySorted lt (map fst (nonzero1 M)).
Proof.
  intros R1. apply SS_map_fst. apply nonzero1_sorted.
  intros [i j] [i' j'] Hp Hq E. simpl in E. subst i'.
  apply in_nonzero1 in Hp. apply in_nonzero1 in Hq. f_equal. apply (R1 i j j'); tauto.
Qed.

Lemma nonzero1_cols_nodup :
  (forall i i' j, mget M i j = 1 -> mget M i' j = 1 -> i = i') -> NoDup (map snd (nonzero1 M)).
Proof.
  intros C1. apply NoDup_map_on. apply SS_lex_NoDup. apply nonzero1_sorted.
  intros [i j] [i' j'] Hp Hq E. simpl in E. subst j'.
  apply in_nonzero1 in Hp. apply in_nonzero1 in Hq. f_equal. apply (C1 i i' j); tauto.
Qed.
End Nonzero.

(** * Counting stars *)
Lemma filter1_le1 : forall row : list Z,
  (forall j j', nth j row 0 = 1 -> nth j' row 0 = 1 -> j = j') -> (length (filter (fun x => Z.eqb x 1) row) <= 1)%nat.
Proof.
  induction row; simpl; intros U; auto.
  destruct (Z.eqb_spec a 1).
  - simpl. assert (filter (fun x => x =? 1) row = []).
    { destruct (filter (fun x => x =? 1) row) eqn:F; auto.
      assert (In z (filter (fun x => x =? 1) row)) by (rewrite F; simpl; auto).
      apply filter_In in H. destruct H as [Hin E]. apply Z.eqb_eq in E. subst z.
      apply (In_nth _ _ 0) in Hin. destruct Hin as [k [_ Ek]].
      assert (O = S k) by (apply U; simpl; auto). discriminate. }
    rewrite H. simpl. lia.
  - apply IHrow. intros j j' A B. assert (S j = S j') by (apply U; simpl; auto). lia.
Qed.

Lemma count_stars_all : forall mk : mat,
  (forall r, In r mk -> (length (filter (fun x => Z.eqb x 1) r) <= 1)%nat) ->
  (length mk <= count_stars mk)%nat ->
  forall r, In r mk -> exists x, In x r /\ x = 1.
Proof.
  induction mk; simpl; intros U L r Hr. contradiction.
  assert (Hb : (count_stars mk <= length mk)%nat).
  { clear -U. induction mk; simpl; auto.
    assert (length (filter (fun x => Z.eqb x 1) a0) <= 1)%nat by (apply U; simpl; auto).
    assert (count_stars mk <= length mk)%nat by (apply IHmk; intros; apply U; simpl in *; tauto). lia. }
  pose proof (U a (or_introl eq_refl)) as Ua.
  destruct Hr as [E|Hr].
  - subst r. destruct (filter (fun x => x =? 1) a) eqn:F. simpl in L; lia.
    exists z. assert (In z (filter (fun x => x =? 1) a)) by (rewrite F; simpl; auto).
    apply filter_In in H. destruct H as [H E]. apply Z.eqb_eq in E. auto.
  - apply IHmk; auto. lia.
Qed.

Lemma every_row_starred mk n m : rect mk n m ->
  (forall i j j', mget mk i j = 1 -> mget mk i j' = 1 -> j = j') ->
  (n <= count_stars mk)%nat -> forall i, (i < n)%nat -> exists j, mget mk i j = 1.
Proof.
  intros [H1 H2] R1 L i Hi.
  assert (In (nth i mk []) mk) by (apply nth_In; lia).
  destruct (count_stars_all mk) with (r := nth i mk []) as [x [Hx E]]; auto.
  - intros r Hr. apply (In_nth _ _ []) in Hr. destruct Hr as [k [Hk Er]]. subst r.
    apply filter1_le1. intros j j'. apply (R1 k j j').
  - lia.
  - subst x. apply (In_nth _ _ 0) in Hx. destruct Hx as [j [_ Ej]]. exists j. exact Ej.
Qed.

(** * Completeness of the checker on propositional facts *)
Lemma sorted_increasing : forall l, StronglySorted lt l -> increasing l = true.
Proof.
  induction 1; simpl; auto. rewrite IHStronglySorted, andb_true_r.
  destruct l; auto. inversion H0; subst. apply Nat.ltb_lt. auto.
Qed.

Lemma NoDup_nodupb : forall l, NoDup l -> nodupb l = true.
Proof.
  induction 1; simpl; auto. rewrite IHNoDup, andb_true_r.
  destruct (existsb (Nat.eqb x) l) eqn:E; auto. exfalso. apply H. apply memb_In. exact E.
Qed.

Lemma rect_rectb M n m : rect M n m -> rectb M n m = true.
Proof.
  intros [H1 H2]. unfold rectb. rewrite H1, Nat.eqb_refl. simpl.
  apply forallb_forall. intros r Hr. rewrite Forall_forall in H2. rewrite (H2 r Hr). apply Nat.eqb_refl.
Qed.

Lemma mget_out_col M n m i j : rect M n m -> (m <= j)%nat -> mget M i j = 0.
Proof.
  intros HR Hj. destruct (Z.eq_dec (mget M i j) 0); auto.
  destruct (mget_nz_range M n m i j HR n0). lia.
Qed.

Lemma check_cert_complete C rows cols R n m (u v : nat -> Z) :
  rect C n m -> nrows C = n -> ncols C = m -> rect R n m ->
  length rows = Nat.min n m -> length cols = Nat.min n m ->
  StronglySorted lt rows -> NoDup cols ->
  (forall i, In i rows -> (i < n)%nat) -> (forall j, In j cols -> (j < m)%nat) ->
  (forall i j, (i < n)%nat -> (j < m)%nat -> 0 <= mget R i j) ->
  (forall i j, In (i, j) (combine rows cols) -> mget R i j = 0) ->
  (forall i j, (i < n)%nat -> (j < m)%nat -> mget R i j = mget C i j - u i - v j) ->
  (forall j, (j < m)%nat -> ~ In j cols -> forall j', (j' < m)%nat -> v j' <= v j) ->
  (forall i, (i < n)%nat -> ~ In i rows -> forall i', (i' < n)%nat -> u i' <= u i) ->
  check_cert C (rows, cols, R) = true.
Proof.
  intros HC En Em HR Lr Lc Sr Nc Br Bc Nn Zp Dec Vm Um.
  unfold check_cert. rewrite En, Em.
  assert (PU : forall i, (i < n)%nat -> (0 < m)%nat -> pot_u C R i = u i + v O).
  { intros i Hi Hm. unfold pot_u, dget. rewrite (Dec i O Hi Hm). lia. }
  assert (PV : forall j, (j < m)%nat -> (0 < n)%nat -> pot_v C R j = v j - v O).
  { intros j Hj Hn0. unfold pot_v, dget. rewrite (Dec O j Hn0 Hj). rewrite (Dec O O Hn0) by lia. lia. }
  rewrite !andb_true_iff. repeat match goal with |- _ /\ _ => split end.
  - apply rect_rectb; auto.
  - apply rect_rectb; auto.
  - apply Nat.eqb_eq; auto.
  - apply Nat.eqb_eq; auto.
  - apply sorted_increasing; auto.
  - apply NoDup_nodupb; auto.
  - apply forallb_forall. intros i Hi. apply Nat.ltb_lt. auto.
  - apply forallb_forall. intros j Hj. apply Nat.ltb_lt. auto.
  - apply forallb_forall. intros r Hr. apply forallb_forall. intros x Hx. apply Z.leb_le.
    destruct HR as [H1 H2]. apply (In_nth _ _ []) in Hr. destruct Hr as [i [Hi Er]]. subst r.
    rewrite Forall_forall in H2.
    assert (length (nth i R []) = m) by (apply H2; apply nth_In; auto).
    apply (In_nth _ _ 0) in Hx. destruct Hx as [j [Hj Ex]]. subst x.
    apply (Nn i j); lia.
  - apply forallb_forall. intros [i j] Hp. simpl. apply Z.eqb_eq. auto.
  - apply forallb_forall. intros [i j] Hp. apply in_positions in Hp. destruct Hp as [Hi Hj]. simpl.
    apply Z.eqb_eq. rewrite PU, PV by lia. unfold dget. rewrite (Dec i j Hi Hj). lia.
  - apply forallb_forall. intros j Hj. apply in_seq in Hj.
    destruct (memb j cols) eqn:Mb; auto. simpl.
    assert (Hn0 : (0 < n)%nat).
    { destruct C; simpl in *; subst; lia. }
    apply forallb_forall. intros j' Hj'. apply in_seq in Hj'. apply Z.leb_le.
    rewrite !PV by lia. assert (v j' <= v j). { apply Vm; try lia. intro X. apply memb_In in X. congruence. }
    lia.
  - apply forallb_forall. intros i Hi. apply in_seq in Hi.
    destruct (memb i rows) eqn:Mb; auto. simpl.
    apply forallb_forall. intros i' Hi'. apply in_seq in Hi'. apply Z.leb_le.
    destruct (Nat.eq_dec m 0) as [E0|NE0].
    + unfold pot_u, dget. rewrite !(mget_out_col C n m) by (auto; lia). rewrite !(mget_out_col R n m) by (auto; lia). lia.
    + rewrite !PU by lia. assert (u i' <= u i). { apply Um; try lia. intro X. apply memb_In in X. congruence. }
      lia.
Qed.

(** * The driver loop keeps the invariant *)
Definition good (C0 : mat) (n m : nat) (k : hstep) (s : hstate) : Prop :=
  match k with
  | S1 => init_ok C0 n m s
  | S3 => exists u v, phase3 C0 n m u v s
  | S4 | S6 => exists u v, inv4 C0 n m u v s
  | S5 => exists u v, inv5 C0 n m u v s
  | Done => exists u v, final C0 n m u v s
  end.

Lemma step_good C0 n m k s k' s' : (0 < n)%nat -> good C0 n m k s -> step k s = Ok (k', s') -> good C0 n m k' s'.
Proof.
  intros Hn G H. destruct k; simpl in *.
  - inversion H. destruct (step1_phase3 C0 n m Hn s G) as [u [v [P E]]].
    rewrite H1 in E, P. simpl in *. subst k'. simpl. exists u, v. exact P.
  - destruct G as [u [v P]]. inversion H.
    destruct (step3_spec C0 n m Hn u v s P) as [[E I]|[E F]]; rewrite H1 in *; simpl in *; subst k'; simpl;
      exists u, v; auto.
  - destruct G as [u [v I]].
    destruct (step4_spec C0 n m Hn u v s k' s' I H) as [[E I']|[E I']]; subst k'; simpl; exists u, v; auto.
  - destruct G as [u [v I]].
    destruct (step5_spec C0 n m u v s k' s' Hn I H) as [E P]. subst k'. simpl. exists u, v. auto.
  - destruct G as [u [v I]]. inversion H.
    destruct (step6_inv4 C0 n m Hn u v s I) as [E [u' [v' I']]]. rewrite H1 in *. simpl in *. subst k'. simpl.
    exists u', v'. auto.
  - inversion H; subst. exact G.
Qed.

Lemma hstep_eq_dec (a b : hstep) : {a = b} + {a <> b}.
Proof. decide equality. Qed.

Lemma run_S fuel k s : k <> Done ->
  run (S fuel) k s = match step k s with Err e => Err e | Ok (k', s') => run fuel k' s' end.
Proof. destruct k; intros; try congruence; reflexivity. Qed.

Lemma run_Done fuel s : run fuel Done s = Ok s.
Proof. destruct fuel; reflexivity. Qed.

Lemma run_good C0 n m : (0 < n)%nat -> forall fuel k s s', good C0 n m k s -> run fuel k s = Ok s' -> good C0 n m Done s'.
Proof.
  intros Hn. induction fuel; intros k s s' G H.
  - destruct k; simpl in H; try discriminate. inversion H; subst. exact G.
  - destruct (hstep_eq_dec k Done) as [E|NE].
    + subst k. rewrite run_Done in H. inversion H; subst. exact G.
    + rewrite (run_S fuel k s NE) in H.
      destruct (step k s) as [[k1 s1]|e] eqn:E; try discriminate.
      eapply IHfuel; [|exact H]. eapply step_good; [exact Hn | exact G | exact E].
Qed.

Lemma combine_fst_snd_id {A B} (l : list (A * B)) : combine (map fst l) (map snd l) = l.
Proof. induction l as [|[x y] l IH]; simpl; auto. rewrite IH. reflexivity. Qed.

(** * From the final state to the certificate *)
Section FinalCert.
Variables (Cw : mat) (n m : nat).
Hypothesis Hn : (0 < n)%nat.
Hypothesis Hnm : (n <= m)%nat.
Hypothesis HCw : rect Cw n m.
Variables (u v : nat -> Z) (s : hstate).
Hypothesis F : final Cw n m u v s.

Let B := proj1 F.

Lemma final_row_star i : (i < n)%nat -> exists j, star s i j.
Proof.
  intros Hi. apply (every_row_starred (marked s) n m); auto.
  apply (b_shM Cw n m u v s B). intros i0 j j'. apply (b_row1 Cw n m u v s B). apply (proj2 F).
Qed.

Lemma final_len : length (nonzero1 (marked s)) = n.
Proof.
  pose proof (b_shM Cw n m u v s B) as HM.
  assert (P : Permutation (map fst (nonzero1 (marked s))) (seq 0 n)).
  { apply NoDup_Permutation.
    - apply sorted_lt_NoDup. apply (nonzero1_rows_sorted (marked s) n m HM Hn). apply (b_row1 Cw n m u v s B).
    - apply seq_NoDup.
    - intros i. rewrite in_seq. split.
      + intros Hin. apply in_map_iff in Hin. destruct Hin as [[i' j] [E Hp]]. simpl in E. subst i'.
        apply (in_nonzero1 (marked s) n m HM Hn) in Hp. lia.
      + intros Hi. destruct (final_row_star i) as [j Sj]. lia.
        apply in_map_iff. exists (i, j). split; auto. apply (in_nonzero1 (marked s) n m HM Hn).
        destruct (star_range Cw n m Hn u v s i j B Sj). tauto. }
  apply Permutation_length in P. rewrite map_length, seq_length in P. exact P.
Qed.

Lemma final_cert_wide : nrows Cw = n -> ncols Cw = m -> check_cert Cw (finish false s) = true.
Proof.
  intros En Em. unfold finish.
  pose proof (b_shM Cw n m u v s B) as HM.
  assert (IN : forall i j, In (i, j) (nonzero1 (marked s)) <-> (i < n)%nat /\ (j < m)%nat /\ star s i j).
  { intros. apply (in_nonzero1 (marked s) n m HM Hn). }
  apply (check_cert_complete Cw _ _ (hC s) n m u v); auto.
  - apply (b_shC Cw n m u v s B).
  - rewrite map_length, final_len. lia.
  - rewrite map_length, final_len. lia.
  - apply (nonzero1_rows_sorted (marked s) n m HM Hn). apply (b_row1 Cw n m u v s B).
  - apply (nonzero1_cols_nodup (marked s) n m HM Hn). apply (b_col1 Cw n m u v s B).
  - intros i Hin. apply in_map_iff in Hin. destruct Hin as [[i' j] [E Hp]]. simpl in E. subst i'. apply IN in Hp. tauto.
  - intros j Hin. apply in_map_iff in Hin. destruct Hin as [[i j'] [E Hp]]. simpl in E. subst j'. apply IN in Hp. tauto.
  - apply (b_nn Cw n m u v s B).
  - intros i j Hin. rewrite combine_fst_snd_id in Hin. apply IN in Hin. apply (b_star0 Cw n m u v s B). tauto.
  - apply (b_pot Cw n m u v s B).
  - intros j Hj Hnin. apply (b_vmax Cw n m u v s B); auto. intros i Si. apply Hnin.
    apply in_map_iff. exists (i, j). split; auto. apply IN. destruct (star_range Cw n m Hn u v s i j B Si). tauto.
  - intros i Hi Hnin. exfalso. apply Hnin. destruct (final_row_star i Hi) as [j Sj].
    apply in_map_iff. exists (i, j). split; auto. apply IN. destruct (star_range Cw n m Hn u v s i j B Sj). tauto.
Qed.

(* the tall case: the caller's matrix C is m x n, Cw = C^T *)
Lemma final_cert_tall C : rect C m n -> (0 < m)%nat -> nrows C = m -> ncols C = n ->
  (forall i j, (i < n)%nat -> (j < m)%nat -> mget Cw i j = mget C j i) ->
  check_cert C (finish true s) = true.
Proof.
  intros HC Hm En Em ET. unfold finish.
  pose proof (b_shM Cw n m u v s B) as HM. pose proof (b_shC Cw n m u v s B) as HCs.
  assert (TM : forall j i, (j < m)%nat -> (i < n)%nat -> mget (transpose (marked s)) j i = mget (marked s) i j).
  { intros. unfold transpose. rewrite (rect_nrows _ n m HM), (rect_ncols _ n m HM Hn). rewrite mget_tab by auto. reflexivity. }
  assert (TC : forall j i, (j < m)%nat -> (i < n)%nat -> mget (transpose (hC s)) j i = mget (hC s) i j).
  { intros. unfold transpose. rewrite (rect_nrows _ n m HCs), (rect_ncols _ n m HCs Hn). rewrite mget_tab by auto. reflexivity. }
  assert (RM : rect (transpose (marked s)) m n).
  { unfold transpose. rewrite (rect_nrows _ n m HM), (rect_ncols _ n m HM Hn). apply tab_rect. }
  assert (RC : rect (transpose (hC s)) m n).
  { unfold transpose. rewrite (rect_nrows _ n m HCs), (rect_ncols _ n m HCs Hn). apply tab_rect. }
  assert (IN : forall j i, In (j, i) (nonzero1 (transpose (marked s))) <-> (i < n)%nat /\ (j < m)%nat /\ star s i j).
  { intros. rewrite (in_nonzero1 _ m n RM Hm). unfold star. split.
    - intros [A [B0 E]]. rewrite TM in E by auto. tauto.
    - intros [A [B0 E]]. rewrite TM by auto. tauto. }
  assert (LEN : length (nonzero1 (transpose (marked s))) = n).
  { rewrite <- final_len. rewrite <- (map_length (fun p : nat * nat => (snd p, fst p)) (nonzero1 (marked s))).
    apply Permutation_length. apply NoDup_Permutation.
    - apply SS_lex_NoDup. apply nonzero1_sorted.
    - apply NoDup_map_on. apply SS_lex_NoDup. apply nonzero1_sorted.
      intros [a1 b1] [a2 b2] _ _ E. simpl in E. inversion E; subst; auto.
    - intros [j i]. rewrite IN. rewrite in_map_iff. split.
      + intros H. exists (i, j). split; auto. apply (in_nonzero1 (marked s) n m HM Hn). exact H.
      + intros [[i' j'] [E H]]. simpl in E. inversion E as [[E1 E2]]. subst i' j'.
        apply (in_nonzero1 (marked s) n m HM Hn) in H. exact H. }
  apply (check_cert_complete C _ _ (transpose (hC s)) m n v u); auto.
  - rewrite map_length, LEN. lia.
  - rewrite map_length, LEN. lia.
  - apply (nonzero1_rows_sorted _ m n RM Hm). intros j i i' A A'.
    destruct (mget_nz_range _ m n j i RM) as [Hj Hi]. lia.
    destruct (mget_nz_range _ m n j i' RM) as [_ Hi']. lia.
    rewrite TM in A, A' by auto. apply (b_col1 Cw n m u v s B i i' j A A').
  - apply (nonzero1_cols_nodup _ m n RM Hm). intros j j' i A A'.
    destruct (mget_nz_range _ m n j i RM) as [Hj Hi]. lia.
    destruct (mget_nz_range _ m n j' i RM) as [Hj' _]. lia.
    rewrite TM in A, A' by auto. apply (b_row1 Cw n m u v s B i j j' A A').
  - intros j Hin. apply in_map_iff in Hin. destruct Hin as [[j' i] [E Hp]]. simpl in E. subst j'. apply IN in Hp. tauto.
  - intros i Hin. apply in_map_iff in Hin. destruct Hin as [[j i'] [E Hp]]. simpl in E. subst i'. apply IN in Hp. tauto.
  - intros j i Hj Hi. rewrite TC by auto. apply (b_nn Cw n m u v s B); auto.
  - intros j i Hin. rewrite combine_fst_snd_id in Hin. apply IN in Hin. destruct Hin as [Hi [Hj S]].
    rewrite TC by auto. apply (b_star0 Cw n m u v s B). exact S.
  - intros j i Hj Hi. rewrite TC by auto. rewrite (b_pot Cw n m u v s B) by auto. rewrite ET by auto. lia.
  - intros i Hi Hnin. exfalso. apply Hnin. destruct (final_row_star i Hi) as [j Sj].
    apply in_map_iff. exists (j, i). split; auto. apply IN. destruct (star_range Cw n m Hn u v s i j B Sj). tauto.
  - intros j Hj Hnin. apply (b_vmax Cw n m u v s B); auto. intros i Si. apply Hnin.
    apply in_map_iff. exists (j, i). split; auto. apply IN. destruct (star_range Cw n m Hn u v s i j B Si). tauto.
Qed.
End FinalCert.

(** * linear_sum_assignment *)

Lemma init_state_ok C n m : rect C n m -> (0 < n)%nat -> init_ok C n m (init_state C).
Proof.
  intros HR Hn. unfold init_ok, init_state. simpl.
  rewrite (rect_nrows C n m HR), (rect_ncols C n m HR Hn).
  split; auto. split; auto. split. apply tab_rect.
  split.
  { intros i j. destruct (Nat.ltb_spec i n); [destruct (Nat.ltb_spec j m)|].
    - apply mget_tab; auto.
    - destruct (Z.eq_dec (mget (tab n m (fun _ _ => 0)) i j) 0); auto.
      destruct (mget_nz_range _ n m i j (tab_rect n m _) n0). lia.
    - destruct (Z.eq_dec (mget (tab n m (fun _ _ => 0)) i j) 0); auto.
      destruct (mget_nz_range _ n m i j (tab_rect n m _) n0). lia. }
  split. apply repeat_length. split. apply repeat_length.
  split; intros; apply bget_repeat_true; auto.
Qed.

Theorem lsa_fuel_cert : forall fuel C res,
  rect C (nrows C) (ncols C) -> lsa_fuel fuel C = Ok res -> check_cert C res = true.
Proof.
  intros fuel C res HR H. unfold lsa_fuel in H.
  set (n0 := nrows C) in *. set (m0 := ncols C) in *.
  destruct (Nat.eqb n0 0 || Nat.eqb m0 0) eqn:Z0.
  - inversion H; subst res.
    assert (Z : n0 = O \/ m0 = O).
    { apply orb_true_iff in Z0. destruct Z0 as [E|E]; apply Nat.eqb_eq in E; auto. }
    apply (check_cert_complete C [] [] C n0 m0 (fun _ => 0) (fun _ => 0)); auto.
    + simpl. destruct Z; subst; lia.
    + simpl. destruct Z; subst; lia.
    + constructor.
    + constructor.
    + intros i [].
    + intros j [].
    + intros i j Hi Hj. destruct Z; lia.
    + intros i j [].
    + intros; lia.
    + intros; lia.
    + intros; lia.
  - apply orb_false_iff in Z0. destruct Z0 as [Zn Zm]. apply Nat.eqb_neq in Zn. apply Nat.eqb_neq in Zm.
    destruct (m0 <? n0)%nat eqn:TR.
    + apply Nat.ltb_lt in TR.
      destruct (run fuel S1 (init_state (transpose C))) as [s|e] eqn:RUN; try discriminate.
      inversion H; subst res.
      assert (RT : rect (transpose C) m0 n0) by (unfold transpose; apply tab_rect).
      assert (G : good (transpose C) m0 n0 Done s).
      { eapply run_good; [lia | | exact RUN]. simpl. apply init_state_ok; auto. lia. }
      destruct G as [u [v F]].
      eapply (final_cert_tall (transpose C) m0 n0); eauto; try lia.
      intros i j Hi Hj. unfold transpose. fold n0 m0. rewrite mget_tab by auto. reflexivity.
    + apply Nat.ltb_ge in TR.
      destruct (run fuel S1 (init_state C)) as [s|e] eqn:RUN; try discriminate.
      inversion H; subst res.
      assert (G : good C n0 m0 Done s).
      { eapply run_good; [lia | | exact RUN]. simpl. apply init_state_ok; auto. lia. }
      destruct G as [u [v F]].
      eapply (final_cert_wide C n0 m0); eauto; try lia.
Qed.

Theorem lsa_fuel_correct : forall fuel C res,
  rect C (nrows C) (ncols C) -> lsa_fuel fuel C = Ok res -> lsa_spec C res.
Proof. intros. apply check_cert_sound. eapply lsa_fuel_cert; eauto. Qed.

(** the same behind the input validation *)
Theorem lsa_in_correct : forall M res, lsa_in M = Ok res -> lsa_spec (map (map cell_val) M) res.
Proof.
  intros M res H. unfold lsa_in in H.
  destruct (forallb (fun r => Nat.eqb (length r) (match M with [] => O | r0 :: _ => length r0 end)) M) eqn:E1;
    simpl in H; try discriminate.
  destruct (forallb (forallb is_fin) M); simpl in H; try discriminate.
  unfold lsa in H. eapply lsa_fuel_correct; [|exact H].
  split; [reflexivity|]. apply Forall_forall. intros r Hr. apply in_map_iff in Hr. destruct Hr as [r' [E Hr']]. subst r.
  rewrite map_length. rewrite forallb_forall in E1. specialize (E1 _ Hr'). apply Nat.eqb_eq in E1. rewrite E1.
  destruct M; simpl; auto. rewrite map_length. reflexivity.
Qed.
