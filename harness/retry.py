"""Evaluating case shards on a loaded machine: a shard that died without a Coq diagnostic (the OOM killer, a failed launch) is
evaluated again, later and one at a time, before it is reported as a machinery error. A genuine Coq error is never retried."""
import time

from . import coqrun


def eval_bad_indices(tag, requires, prelude, check_fn, cases, shard, ty, rounds=3, log=None):
    bad, errors = coqrun.eval_bad_indices(tag, requires, prelude, check_fn, cases, shard=shard, ty=ty)
    bad = list(bad)
    for attempt in range(rounds):
        again = [(k, msg) for k, msg in errors if "Error:" not in (msg or "")]
        if not again:
            break
        if log:
            log(f"{len(again)} case shard(s) of {tag} died without a Coq diagnostic (machine under memory pressure?); retrying them one at a time")
        time.sleep(20 * (attempt + 1))
        errors = [(k, msg) for k, msg in errors if "Error:" in (msg or "")]
        for k, _ in again:
            sub = cases[k:k + shard]
            half = max(1, (len(sub) + 1) // 2)            # smaller files need less memory
            b2, e2 = coqrun.eval_bad_indices(f"{tag}-retry", requires, prelude, check_fn, sub, shard=half, ty=ty)
            bad.extend(k + i for i in b2)
            errors.extend((k + kk, m) for kk, m in e2)
    return sorted(set(bad)), errors
