"""Confirm a seeded change and run the property's check against it (lead's tool).
usage: python3 harness/seedtest.py Cxx k [--tier quick] [--no-check]
Reads /tmp/seed-out/Cxx/k/{patch.diff,demo.py,meta.json}; works in a scratch worktree /tmp/wt-seed-Cxx-k;
writes /verif/seeded/Cxx-k/{patch.diff,demo.py,meta.json}."""
import json
import os
import re
import shutil
import subprocess
import sys

VERIF = os.path.dirname(os.path.dirname(os.path.abspath(__file__)))


def sh(cmd, **kw):
    p = subprocess.run(cmd, shell=True, stdout=subprocess.PIPE, stderr=subprocess.STDOUT, text=True, **kw)
    return p.returncode, p.stdout


def main():
    pid, k = sys.argv[1], sys.argv[2]
    tier = "quick"
    if "--tier" in sys.argv:
        tier = sys.argv[sys.argv.index("--tier") + 1]
    src = f"/tmp/seed-out/{pid}/{k}"
    dst = os.path.join(VERIF, "seeded", f"{pid}-{k}")
    if not os.path.exists(os.path.join(src, "patch.diff")) and os.path.exists(os.path.join(dst, "patch.diff")):
        src = dst
    wt = f"/tmp/wt-seed-{pid}-{k}"
    sh(f"git -C /repo worktree remove --force {wt}")
    rc, out = sh(f"git -C /repo worktree add -q {wt} HEAD")
    assert rc == 0, out
    res = {"property": pid, "seed": k}
    try:
        env = dict(os.environ, PYTHONPATH=wt, PYTHONHASHSEED="0")
        demo = os.path.join(src, "demo.py")
        rc0, o0 = sh(f"cd {wt} && timeout 600 /venv/bin/python {demo} {wt}", env=env)
        res["demo_clean_exit"] = rc0
        rc, out = sh(f"git -C {wt} apply {os.path.join(src, 'patch.diff')}")
        assert rc == 0, "patch does not apply: " + out
        rc1, o1 = sh(f"cd {wt} && timeout 600 /venv/bin/python {demo} {wt}", env=env)
        res["demo_patched_exit"] = rc1
        res["demo_patched_output"] = o1[-1500:]
        rc, out = sh(f"cd {wt} && timeout 900 /venv/bin/python -m pytest -q -p no:cacheprovider --timeout=900 -n 8 2>&1 | tail -1", env=env)
        res["suite_with_patch"] = out.strip()
        res["confirmed"] = (rc0 == 0 and rc1 != 0 and "failed" not in out and "error" not in out.lower() and "passed" in out)
        if "--no-check" not in sys.argv and os.path.exists(os.path.join(VERIF, "harness", "props", pid.lower() + ".py")):
            env2 = dict(os.environ, VERIF_REPO=wt)
            rc, out = sh(f"cd {VERIF} && timeout 3000 ./check {pid} --tier {tier}", env=env2)
            res["check_exit"] = rc
            res["check_lines"] = [l for l in out.splitlines() if l.startswith("VIOLATION") or l.startswith("KNOWN-FINDING")][:6]
            res["check_tail"] = out[-1200:]
            res["caught"] = rc == 1 and any(l.startswith("VIOLATION") for l in res["check_lines"])
            res["caught_with_failing_input"] = res["caught"] and any("no-failing-input-found" not in l for l in res["check_lines"] if l.startswith("VIOLATION"))
            # keep the replay of the first violation next to the seed (replacing those of earlier runs)
            if os.path.isdir(dst):
                for fn in os.listdir(dst):
                    if fn.startswith("replay-") and any("replay=" in l for l in res["check_lines"]):
                        os.remove(os.path.join(dst, fn))
            for l in res["check_lines"]:
                m = re.search(r"replay=(\S+)", l)
                if m and os.path.exists(m.group(1)):
                    os.makedirs(dst, exist_ok=True)
                    shutil.copy(m.group(1), os.path.join(dst, "replay-" + os.path.basename(m.group(1))))
                    break
    finally:
        sh(f"git -C /repo worktree remove --force {wt}")
    os.makedirs(dst, exist_ok=True)
    if src != dst:
        for fn in ("patch.diff", "demo.py"):
            shutil.copy(os.path.join(src, fn), os.path.join(dst, fn))
    meta = {}
    try:
        with open(os.path.join(src, "meta.json")) as fh:
            meta = json.load(fh)
    except Exception:
        pass
    prev = meta.get("lead_verification")
    if prev and "caught" in prev and not prev.get("caught_with_failing_input") and "lead_verification_before_strengthening" not in meta:
        # the check was strengthened after this miss; keep the record of the miss
        meta["lead_verification_before_strengthening"] = prev
    meta["lead_verification"] = res
    with open(os.path.join(dst, "meta.json"), "w") as fh:
        json.dump(meta, fh, indent=1)
    print(json.dumps({k2: v for k2, v in res.items() if k2 not in ("check_tail", "demo_patched_output")}, indent=1))


if __name__ == "__main__":
    main()
