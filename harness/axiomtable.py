"""Regenerate the per-property summary table in DESIGN.md (section 9.4) from /verif/evidence/*.json:
obligations/discharged, axioms reported by Print Assumptions under the property's theorems, correspondence counts.
usage: python3 harness/axiomtable.py"""
import glob
import json
import os
import re

VERIF = os.path.dirname(os.path.dirname(os.path.abspath(__file__)))
BEGIN = "<!-- axiomtable:begin -->"
END = "<!-- axiomtable:end -->"

REALS = {"ClassicalDedekindReals.sig_forall_dec", "ClassicalDedekindReals.sig_not_dec",
         "FunctionalExtensionality.functional_extensionality_dep"}


def main():
    rows = []
    for f in sorted(glob.glob(os.path.join(VERIF, "evidence", "C*.json"))):
        with open(f) as fh:
            e = json.load(fh)
        cov = e["coverage"]
        ax = [t for t in cov["trusted_base"] if t.startswith("axioms reported by Print Assumptions")]
        d = json.loads(ax[0].split(": ", 1)[1]) if ax else {}
        allax = sorted(set(a for v in d.values() for a in v))
        closed = sum(1 for v in d.values() if not v)
        groups = []
        rest = set(allax)
        if rest & REALS:
            groups.append("Reals (sig_forall_dec, sig_not_dec, functional_extensionality_dep)")
            rest -= REALS
        if "Classical_Prop.classic" in rest:
            groups.append("Classical_Prop.classic")
            rest.discard("Classical_Prop.classic")
        prim = sorted(a for a in rest if a.startswith("FloatAxioms.") or a.startswith("PrimFloat.") or a.startswith("PrimInt63.")
                      or "." not in a)
        if prim:
            groups.append(f"PrimFloat/PrimInt63 primitives and FloatAxioms specs ({len(prim)} names)")
            rest -= set(prim)
        groups.extend(sorted(rest))
        ck = cov.get("coqchk", {})
        rows.append(f"| {e['property_id']} | {cov['discharged']}/{cov['obligations']} | {closed} | "
                    f"{'; '.join(groups) if groups else 'none (closed under the global context)'} | "
                    f"{cov['evaluations']} / {cov['distinct_nontrivial']} | {e['tier']} seed {e['seed']}, {e['wall_s']:.0f} s | "
                    f"{ck.get('status', 'not run')} |")
    table = ["| property | theorems discharged | of which axiom-free | library axioms under the remaining theorems | correspondence evaluations / distinct non-trivial | evidence from | coqchk |",
             "|---|---|---|---|---|---|---|"] + rows
    block = BEGIN + "\n" + "\n".join(table) + "\n" + END
    path = os.path.join(VERIF, "DESIGN.md")
    with open(path) as fh:
        txt = fh.read()
    if BEGIN in txt:
        txt = re.sub(re.escape(BEGIN) + r".*?" + re.escape(END), lambda _m: block, txt, flags=re.S)
    else:
        txt += "\n" + block + "\n"
    with open(path, "w") as fh:
        fh.write(txt)
    print(len(rows), "rows")


if __name__ == "__main__":
    main()
