"""Regenerate the complete list of findings in DESIGN.md (section 9.2) from /verif/known_findings.json.
usage: python3 harness/findingstable.py"""
import json
import os
import re

VERIF = os.path.dirname(os.path.dirname(os.path.abspath(__file__)))
BEGIN = "<!-- findingstable:begin -->"
END = "<!-- findingstable:end -->"


def one_line(s, n):
    s = re.sub(r"\s+", " ", str(s or "")).strip().replace("|", "/")
    return s if len(s) <= n else s[: n - 1].rstrip() + "…"


def main():
    with open(os.path.join(VERIF, "known_findings.json")) as fh:
        fs = json.load(fh)["findings"]
    fs = sorted(fs, key=lambda f: (f["property"], f["status"], f["id"]))
    rows = ["| property | id | disposition | what fails |", "|---|---|---|---|"]
    for f in fs:
        disp = ("repaired in /repo by `fix:` commit " + str(f.get("commit", "?"))) if f["status"] == "fixed" else \
            "known finding (reported as KNOWN-FINDING, narrow matcher in the property module)"
        rows.append(f"| {f['property']} | {f['id']} | {disp} | {one_line(f['what'], 330)} |")
    nfix = sum(f["status"] == "fixed" for f in fs)
    block = BEGIN + f"\n{len(fs)} findings: {nfix} repaired, {len(fs) - nfix} known.\n\n" + "\n".join(rows) + "\n" + END
    path = os.path.join(VERIF, "DESIGN.md")
    with open(path) as fh:
        txt = fh.read()
    if BEGIN in txt:
        txt = re.sub(re.escape(BEGIN) + r".*?" + re.escape(END), lambda _m: block, txt, flags=re.S)
    else:
        raise SystemExit("markers missing in DESIGN.md")
    with open(path, "w") as fh:
        fh.write(txt)
    print(len(fs), "findings")


if __name__ == "__main__":
    main()
