"""Regenerate MANIFEST.json from the property modules that exist (python3 -m harness.mkmanifest)."""
import importlib
import json
import os
import sys

VERIF = os.path.dirname(os.path.dirname(os.path.abspath(__file__)))
sys.path.insert(0, VERIF)
ALL = [f"C{n:02d}" for n in range(1, 21)]

BASE_CMD = "cd /repo && /venv/bin/python -m pytest -ra -q -p no:cacheprovider --timeout=900 --continue-on-collection-errors"


def main():
    checks, na = [], []
    reasons = {}
    try:
        with open(os.path.join(VERIF, "not_applicable.json")) as fh:
            reasons = json.load(fh)
    except FileNotFoundError:
        pass
    with open(os.path.join(VERIF, "claimed.json")) as fh:
        claimed = set(json.load(fh))
    for pid in ALL:
        path = os.path.join(VERIF, "harness", "props", pid.lower() + ".py")
        props = os.path.join(VERIF, "coq", "Props", pid + ".v")
        ready = pid in claimed and os.path.exists(path) and os.path.exists(props)
        mod = None
        if ready:
            try:
                mod = importlib.import_module(f"harness.props.{pid.lower()}")
            except Exception as e:  # module needs the repo on the path; metadata is all we want
                print("cannot import", pid, e)
                ready = False
        if ready and getattr(mod, "READY", True) and hasattr(mod, "LEVEL_TEXT"):
            checks.append({
                "property_id": pid,
                "quick_cmd": f"./check {pid} --tier quick",
                "thorough_cmd": f"./check {pid} --tier thorough",
                "evidence_file": f"/verif/evidence/{pid}.json",
                "replay_cmd_template": f"./check {pid} --replay {{path}}",
                "engine": "coq-proof+correspondence",
                "level_claimed": {"category": "proof", "text": mod.LEVEL_TEXT, "design_ref": getattr(mod, "DESIGN_REF", "DESIGN.md §6")},
                "level_note": mod.LEVEL_NOTE,
                "technique": getattr(mod, "TECHNIQUE", "Coq proof over an executable Gallina model + correspondence check"),
            })
        else:
            na.append({"property_id": pid, "reason": reasons.get(pid, "machinery for this property is not built yet (work in progress); not claimed until its Coq theorems and correspondence check exist")})
    man = {
        "version": 1,
        "setup_cmd": "./setup.sh",
        "hooks": {
            "guard": "QCEL_VERIF",
            "enable": "no source hooks are needed: every observation point is a public function or module-level helper; checks import /repo's working tree directly (PYTHONPATH=/repo)",
            "baseline_off_cmd": BASE_CMD,
            "source_commits": [],
            "add_only": True,
        },
        "engines": [{
            "name": "coq-proof+correspondence",
            "path": "/verif/check",
            "serves_properties": [c["property_id"] for c in checks],
            "kind_free_text": "Coq 8.16.1 theorems (coq/Props/Cxx.v) about executable Gallina models (coq/Model, coq/Gen regenerated from /repo on every run), tied to the implementation by differential execution (harness/props/cxx.py, model evaluated with vm_compute)",
        }],
        "checks": checks,
        "not_applicable": na,
        "notes": "Repairs of genuine defects are unguarded 'fix:' commits in /repo, recorded in /verif/known_findings.json; see DESIGN.md §5.",
    }
    with open(os.path.join(VERIF, "MANIFEST.json"), "w") as fh:
        json.dump(man, fh, indent=1)
        fh.write("\n")
    print("claimed:", [c["property_id"] for c in checks])


if __name__ == "__main__":
    main()
