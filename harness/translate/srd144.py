"""Translator (C01): raw NIST SRD-144 JSON + the hand-maintained data of raw_data/nist_data/build_periodic_table.py
->  coq/Gen/Srd144.v.

The JSON strings are emitted verbatim (symbol, atomic number, mass number, "Relative Atomic Mass" with its
uncertainty suffix, "Isotopic Composition" with its suffix); stripping the suffix, parsing the decimals and the
integers, applying the Uut/Uup/Uus renames and choosing the most abundant / longest-lived isotope are all done
in Gallina (Model/PeriodicTable.v), not here.  Fail-closed on any unexpected shape."""
import ast
import json
import os

from .. import coqrun
from ..core import TranslateError
from ..coqrun import cz, cstr, clist

JSON = "raw_data/nist_data/srd144_Atomic_Weights_and_Isotopic_Compositions_for_All_Elements.json"
BUILD = "raw_data/nist_data/build_periodic_table.py"


def _ascii(s, what):
    if not (isinstance(s, str) and s.isascii() and all(32 <= ord(c) < 127 for c in s)):
        raise TranslateError(f"srd144: {what} is not a printable ASCII string: {s!r}")
    return s


def load_json(repo):
    path = os.path.join(repo, JSON)
    try:
        with open(path) as fh:
            blob = json.load(fh)
    except Exception as e:
        raise TranslateError(f"srd144: cannot read {JSON}: {e}")
    if not (isinstance(blob, dict) and isinstance(blob.get("data"), list) and blob["data"]):
        raise TranslateError("srd144: top level must be {'data': [...]}")
    elems = []
    for de in blob["data"]:
        if not isinstance(de, dict):
            raise TranslateError("srd144: element entry is not an object")
        extra = set(de) - {"Atomic Symbol", "Atomic Number", "isotopes", "Notes", "Standard Atomic Weight"}
        if extra:
            raise TranslateError(f"srd144: unexpected element keys {sorted(extra)}")
        sym = _ascii(de.get("Atomic Symbol"), "Atomic Symbol")
        zs = _ascii(de.get("Atomic Number"), "Atomic Number")
        isos = de.get("isotopes")
        if not (isinstance(isos, list) and isos):
            raise TranslateError(f"srd144: element {sym} has no isotopes list")
        rows = []
        for di in isos:
            if not isinstance(di, dict):
                raise TranslateError("srd144: isotope entry is not an object")
            extra = set(di) - {"Atomic Symbol", "Mass Number", "Relative Atomic Mass", "Isotopic Composition"}
            if extra:
                raise TranslateError(f"srd144: unexpected isotope keys {sorted(extra)}")
            comp = di.get("Isotopic Composition")
            rows.append((_ascii(di.get("Atomic Symbol"), "isotope Atomic Symbol"),
                         _ascii(di.get("Mass Number"), "Mass Number"),
                         _ascii(di.get("Relative Atomic Mass"), "Relative Atomic Mass"),
                         None if comp is None else _ascii(comp, "Isotopic Composition")))
        elems.append((sym, zs, rows))
    return elems


def load_build(repo):
    """element_names, longest_lived_isotope_for_unstable_elements, aliases, newnames: module-level literal
    assignments of build_periodic_table.py (the script itself is never executed: it downloads)."""
    path = os.path.join(repo, BUILD)
    try:
        with open(path) as fh:
            tree = ast.parse(fh.read())
    except Exception as e:
        raise TranslateError(f"srd144: cannot parse {BUILD}: {e}")
    want = {"element_names": None, "longest_lived_isotope_for_unstable_elements": None, "aliases": None, "newnames": None,
            # the dummy rows the script seeds its seven arrays with
            "Z": None, "E": None, "name": None, "_EE": None, "EA": None, "A": None, "masses": None}
    for node in tree.body:
        if isinstance(node, ast.Assign) and len(node.targets) == 1 and isinstance(node.targets[0], ast.Name) \
                and node.targets[0].id in want:
            name = node.targets[0].id
            if want[name] is not None:
                raise TranslateError(f"{BUILD}: {name} assigned twice")
            try:
                want[name] = ast.literal_eval(node.value)
            except Exception as e:
                raise TranslateError(f"{BUILD}: {name} is not a literal ({e})")
    # no other statement may rebind them (augmented assignment, del, ...) at module level
    for node in ast.walk(tree):
        if isinstance(node, (ast.AugAssign, ast.Delete)):
            tg = [node.target] if isinstance(node, ast.AugAssign) else node.targets
            for t in tg:
                if isinstance(t, ast.Name) and t.id in want:
                    raise TranslateError(f"{BUILD}: {t.id} is modified after its definition")
    for k, v in want.items():
        if v is None:
            raise TranslateError(f"{BUILD}: missing literal assignment of {k}")
    names = want["element_names"]
    if not (isinstance(names, list) and all(isinstance(n, str) for n in names)):
        raise TranslateError(f"{BUILD}: element_names must be a list of strings")
    for n in names:
        _ascii(n, "element name")
    ll = want["longest_lived_isotope_for_unstable_elements"]
    if not (isinstance(ll, dict) and all(isinstance(k, str) and isinstance(v, int) and not isinstance(v, bool) for k, v in ll.items())):
        raise TranslateError(f"{BUILD}: longest_lived_isotope_for_unstable_elements must be a dict str -> int")
    for d in ("aliases", "newnames"):
        if not (isinstance(want[d], dict) and all(isinstance(k, str) and isinstance(v, str) for k, v in want[d].items())):
            raise TranslateError(f"{BUILD}: {d} must be a dict str -> str")
        for k, v in want[d].items():
            _ascii(k, d)
            _ascii(v, d)
    for k in ll:
        _ascii(k, "longest-lived key")
    dummy = {k: want[k] for k in ("Z", "E", "name", "_EE", "EA", "A", "masses")}
    for k, v in dummy.items():
        if not isinstance(v, list) or not v:
            raise TranslateError(f"{BUILD}: seed of array {k} is not a non-empty list literal")
    if not (len(dummy["Z"]) == len(dummy["E"]) == len(dummy["name"]) and
            len(dummy["_EE"]) == len(dummy["EA"]) == len(dummy["A"]) == len(dummy["masses"])):
        raise TranslateError(f"{BUILD}: seeds of the arrays differ in length")
    for v in dummy["Z"] + dummy["A"]:
        if not isinstance(v, int) or isinstance(v, bool):
            raise TranslateError(f"{BUILD}: non-integer seed {v!r}")
    for v in dummy["E"] + dummy["name"] + dummy["_EE"] + dummy["EA"] + dummy["masses"]:
        _ascii(v, "array seed")
    load_build.dummy = dummy
    return names, ll, want["aliases"], want["newnames"]


def generate(repo):
    elems = load_json(repo)
    names, ll, aliases, newnames = load_build(repo)
    out = ["(* GENERATED from raw_data/nist_data/srd144_*.json and build_periodic_table.py by harness/translate/srd144.py — do not edit *)",
           "From Coq Require Import ZArith List String.", "Import ListNotations.", "Open Scope string_scope.", "",
           "(* per element: (Atomic Symbol, Atomic Number, isotopes); per isotope: (Atomic Symbol, Mass Number,",
           "   Relative Atomic Mass, Isotopic Composition if present) — all verbatim JSON strings *)",
           "Definition srd_iso := (string * string * string * option string)%type.",
           "Definition srd_elem := (string * string * list srd_iso)%type."]

    def iso(r):
        s, a, m, c = r
        return f"({cstr(s)}, {cstr(a)}, {cstr(m)}, {'None' if c is None else '(Some ' + cstr(c) + ')'})"

    rows = []
    for sym, zs, isos in elems:
        rows.append(f"({cstr(sym)}, {cstr(zs)},\n    [" + ";\n     ".join(iso(r) for r in isos) + "])")
    out.append("Definition srd_elements : list srd_elem :=\n  [ " + ";\n  ".join(rows) + " ].")
    out.append("(* NIST SP 966 element names, index Z-1 *)")
    out.append("Definition srd_names : list string := " + clist(names, cstr) + ".")
    out.append("Definition srd_longest_lived : list (string * Z) := "
               + clist(ll.items(), lambda kv: f"({cstr(kv[0])}, {cz(kv[1])})") + ".")
    out.append("Definition srd_aliases : list (string * string) := "
               + clist(aliases.items(), lambda kv: f"({cstr(kv[0])}, {cstr(kv[1])})") + ".")
    out.append("Definition srd_newnames : list (string * string) := "
               + clist(newnames.items(), lambda kv: f"({cstr(kv[0])}, {cstr(kv[1])})") + ".")
    dm = load_build.dummy
    out.append("(* the dummy rows build_periodic_table.py seeds the arrays with: element level (Z, E, name); species level (_EE, EA, A, mass) *)")
    out.append("Definition srd_dummy_elems : list (Z * string * string) := "
               + clist(zip(dm["Z"], dm["E"], dm["name"]), lambda r: f"({cz(r[0])}, {cstr(r[1])}, {cstr(r[2])})") + ".")
    out.append("Definition srd_dummy_species : list (string * string * Z * string) := "
               + clist(zip(dm["_EE"], dm["EA"], dm["A"], dm["masses"]), lambda r: f"({cstr(r[0])}, {cstr(r[1])}, {cz(r[2])}, {cstr(r[3])})") + ".")
    coqrun.write_if_changed(os.path.join(coqrun.COQ, "Gen", "Srd144.v"), "\n".join(out) + "\n")
    return {"elements": elems, "names": names, "longest_lived": ll, "aliases": aliases, "newnames": newnames, "dummy": dm}
