"""Translator for C20: qcelemental/models/{results,procedures,basis}.py  ->  coq/Gen/KeepLists.v

What is translated (data + small pure fragments; everything else is compared against an expected skeleton,
so any change to the surrounding code makes the translator refuse — fail-closed):
  * the members of the three protocol enums and the protocol defaults;
  * the if/elif chain of AtomicResult._wavefunction_protocol  -> wfn_keep_table  (pass | wfn = None | return_keep = [...])
  * the chain of _stdout_protocol                               -> stdout_table
  * the chain of _native_file_protocol                          -> native_table
  * the chain of OptimizationResult._trajectory_protocol        -> traj_table (pass | guarded index selection | [])
  * the field list of WavefunctionProperties with the shape validator attached to each array field and the
    shape each field declares in Field(shape=...)                -> wfn_fields
  * the array fields of AtomicResultProperties with their validators and declared shapes -> prop_fields
  * the driver chain of _validate_return_result                  -> rr_table
  * ElectronShell.nfunctions: the two generator expressions      -> nf_spherical / nf_cartesian : Z -> Z
"""
import ast
import os

from .. import coqrun
from ..core import TranslateError
from ..coqrun import cstr, clist, cz, cbool, copt


def _parse(repo, rel):
    path = os.path.join(repo, "qcelemental", "models", rel)
    try:
        with open(path) as fh:
            return ast.parse(fh.read())
    except (OSError, SyntaxError) as e:
        raise TranslateError(f"{rel}: cannot parse ({e})")


def _cls(tree, name, rel):
    for n in tree.body:
        if isinstance(n, ast.ClassDef) and n.name == name:
            return n
    raise TranslateError(f"{rel}: class {name} not found")


def _fn(cls, name):
    hits = [n for n in cls.body if isinstance(n, ast.FunctionDef) and n.name == name]
    if len(hits) != 1:
        raise TranslateError(f"{cls.name}.{name}: expected exactly one definition, found {len(hits)}")
    return hits[0]


def _strip_doc(body):
    if body and isinstance(body[0], ast.Expr) and isinstance(body[0].value, ast.Constant) and isinstance(body[0].value.value, str):
        return body[1:]
    return body


def _u(node):
    return ast.unparse(node)


def _expect(stmts, expected, where):
    got = [_u(s) for s in stmts]
    if got != expected:
        raise TranslateError(f"{where}: code differs from the modelled skeleton.\n  expected: {expected}\n  found:    {got}")


def _str_list(node, where):
    if not isinstance(node, ast.List) or not all(isinstance(e, ast.Constant) and isinstance(e.value, str) for e in node.elts):
        raise TranslateError(f"{where}: expected a list of string literals, found `{_u(node)}`")
    out = [e.value for e in node.elts]
    for s in out:
        if not (s.isascii() and s.isprintable()):
            raise TranslateError(f"{where}: non-ASCII key {s!r}")
    return out


def _chain(node, var, where, by="=="):
    """Flatten `if var == 'a': ... elif var == 'b': ... else: ...` -> ([(const, body)], else_body)."""
    branches = []
    cur = node
    while True:
        if not isinstance(cur, ast.If):
            raise TranslateError(f"{where}: expected an if/elif chain on `{var}`")
        t = cur.test
        op = ast.Eq if by == "==" else ast.Is
        if not (isinstance(t, ast.Compare) and len(t.ops) == 1 and isinstance(t.ops[0], op)
                and isinstance(t.left, ast.Name) and t.left.id == var and isinstance(t.comparators[0], ast.Constant)):
            raise TranslateError(f"{where}: unexpected branch test `{_u(t)}`")
        branches.append((t.comparators[0].value, cur.body))
        if len(cur.orelse) == 1 and isinstance(cur.orelse[0], ast.If):
            cur = cur.orelse[0]
            continue
        return branches, cur.orelse


def _enum_members(cls, where):
    out = []
    for n in _strip_doc(cls.body):
        if not (isinstance(n, ast.Assign) and len(n.targets) == 1 and isinstance(n.targets[0], ast.Name)
                and isinstance(n.value, ast.Constant) and isinstance(n.value.value, str)):
            raise TranslateError(f"{where}: unexpected enum member `{_u(n)}`")
        if n.targets[0].id != n.value.value:
            raise TranslateError(f"{where}: enum member name and value differ: `{_u(n)}`")
        out.append(n.value.value)
    return out


def _field_default(cls, fname, where):
    """First positional argument of `name: T = Field(<default>, ...)`."""
    for n in cls.body:
        if isinstance(n, ast.AnnAssign) and isinstance(n.target, ast.Name) and n.target.id == fname:
            v = n.value
            if isinstance(v, ast.Call) and isinstance(v.func, ast.Name) and v.func.id == "Field" and v.args:
                return v.args[0]
            raise TranslateError(f"{where}.{fname}: not of the form Field(default, ...)")
    raise TranslateError(f"{where}.{fname}: field not found")


def _enum_default(cls, fname, enum_name, members, where):
    d = _field_default(cls, fname, where)
    if not (isinstance(d, ast.Attribute) and isinstance(d.value, ast.Name) and d.value.id == enum_name and d.attr in members):
        raise TranslateError(f"{where}.{fname}: default `{_u(d)}` is not a member of {enum_name}")
    return d.attr


def _validator_fields(fn, where):
    """@validator('a', 'b', ...) -> (['a','b'], {kw: value})"""
    if len(fn.decorator_list) != 1:
        raise TranslateError(f"{where}: expected one decorator")
    d = fn.decorator_list[0]
    if not (isinstance(d, ast.Call) and isinstance(d.func, ast.Name) and d.func.id == "validator"):
        raise TranslateError(f"{where}: decorator is not @validator(...)")
    names = []
    for a in d.args:
        if not (isinstance(a, ast.Constant) and isinstance(a.value, str)):
            raise TranslateError(f"{where}: validator argument `{_u(a)}` is not a string literal")
        names.append(a.value)
    kws = {}
    for k in d.keywords:
        if not isinstance(k.value, ast.Constant):
            raise TranslateError(f"{where}: validator keyword `{_u(k.value)}`")
        kws[k.arg] = k.value.value
    return names, kws


# ---------------------------------------------------------------------------------------------------------

def translate_wavefunction(ar):
    fn = _fn(ar, "_wavefunction_protocol")
    where = "AtomicResult._wavefunction_protocol"
    names, kws = _validator_fields(fn, where)
    if names != ["wavefunction"] or kws != {"pre": True}:
        raise TranslateError(f"{where}: expected @validator('wavefunction', pre=True)")
    if _u(fn.args) != "cls, value, values":
        raise TranslateError(f"{where}: signature changed: ({_u(fn.args)})")
    body = _strip_doc(fn.body)
    if len(body) != 9:
        raise TranslateError(f"{where}: expected 9 top-level statements, found {len(body)}")
    _expect(body[0:7], [
        "if value is None:\n    return value\nelif isinstance(value, dict):\n    wfn = value.copy()\nelif isinstance(value, WavefunctionProperties):\n    wfn = value.dict()\nelse:\n    raise ValueError('wavefunction must be None, a dict, or a WavefunctionProperties object.')",
        "if 'protocols' not in values:\n    raise ValueError('Protocols was not properly formed.')",
        "restricted = wfn.get('restricted', None)",
        "if restricted is None:\n    raise ValueError('`restricted` is required.')",
        "if restricted:\n    for k in list(wfn.keys()):\n        if k.endswith('_b'):\n            wfn.pop(k)",
        "wfnp = values['protocols'].wavefunction",
        "return_keep = None",
    ], where + " (head, restricted filter)")
    _expect(body[8:9], [
        "if return_keep is not None:\n    ret_wfn = {'restricted': restricted}\n    if 'basis' in wfn:\n        ret_wfn['basis'] = wfn['basis']\n"
        "    for rk in return_keep:\n        key = wfn.get(rk, None)\n        if key is None:\n            continue\n"
        "        if key not in wfn:\n            raise ValueError(f'Return quantity {key} does not exist in the values.')\n"
        "        ret_wfn[rk] = key\n        ret_wfn[key] = wfn[key]\n"
        "    return ret_wfn\nelse:\n    return wfn"], where + " (pointer-following loop)")
    branches, orelse = _chain(body[7], "wfnp", where)
    _expect(orelse, ["raise ValueError(f'Protocol `wavefunction:{wfnp}` is not understood.')"], where + " (else)")
    table = []
    for const, b in branches:
        if not isinstance(const, str):
            raise TranslateError(f"{where}: branch constant {const!r}")
        if len(b) != 1:
            raise TranslateError(f"{where}: branch `{const}` has {len(b)} statements")
        s = b[0]
        if isinstance(s, ast.Pass):
            act = "KeepAll"
        elif _u(s) == "wfn = None":
            act = "KeepNothing"
        elif isinstance(s, ast.Assign) and len(s.targets) == 1 and _u(s.targets[0]) == "return_keep":
            act = "(KeepList %s)" % clist(_str_list(s.value, f"{where} branch `{const}`"), cstr)
        else:
            raise TranslateError(f"{where}: branch `{const}`: unexpected statement `{_u(s)}`")
        table.append((const, act))
    return table


def translate_stdout(ar):
    fn = _fn(ar, "_stdout_protocol")
    where = "AtomicResult._stdout_protocol"
    names, kws = _validator_fields(fn, where)
    if names != ["stdout"] or kws:
        raise TranslateError(f"{where}: expected @validator('stdout')")
    body = _strip_doc(fn.body)
    if len(body) != 3:
        raise TranslateError(f"{where}: expected 3 statements")
    _expect(body[0:2], ["if 'protocols' not in values:\n    raise ValueError('Protocols was not properly formed.')",
                        "outp = values['protocols'].stdout"], where)
    branches, orelse = _chain(body[2], "outp", where, by="is")
    _expect(orelse, ["raise ValueError(f'Protocol `stdout:{outp}` is not understood')"], where + " (else)")
    table = []
    for const, b in branches:
        if not isinstance(const, bool) or len(b) != 1:
            raise TranslateError(f"{where}: unexpected branch {const!r}")
        u = _u(b[0])
        if u == "return value":
            table.append((const, "StdKeep"))
        elif u == "return None":
            table.append((const, "StdDrop"))
        else:
            raise TranslateError(f"{where}: branch {const}: `{u}`")
    return table


def translate_native(ar):
    fn = _fn(ar, "_native_file_protocol")
    where = "AtomicResult._native_file_protocol"
    names, kws = _validator_fields(fn, where)
    if names != ["native_files"] or kws:
        raise TranslateError(f"{where}: expected @validator('native_files')")
    body = _strip_doc(fn.body)
    if len(body) != 5:
        raise TranslateError(f"{where}: expected 5 statements")
    _expect(body[0:1], ["ancp = values['protocols'].native_files"], where)
    _expect(body[2:5], ["ret = {}", "for rk in return_keep:\n    ret[rk] = files.get(rk, None)", "return ret"], where + " (tail)")
    branches, orelse = _chain(body[1], "ancp", where)
    _expect(orelse, ["raise ValueError(f'Protocol `native_files:{ancp}` is not understood')"], where + " (else)")
    table = []
    for const, b in branches:
        if not isinstance(const, str):
            raise TranslateError(f"{where}: branch constant {const!r}")
        us = [_u(s) for s in b]
        if us == ["return value"]:
            act = "NatAll"
        elif us == ["return {}"]:
            act = "NatNothing"
        elif len(b) == 2 and isinstance(b[0], ast.Assign) and _u(b[0].targets[0]) == "return_keep" and \
                us[1] == "if value is None:\n    files = {}\nelse:\n    files = value.copy()":
            act = "(NatList %s)" % clist(_str_list(b[0].value, f"{where} branch `{const}`"), cstr)
        else:
            raise TranslateError(f"{where}: branch `{const}`: unexpected body {us}")
        table.append((const, act))
    return table


def _int_const(node, where):
    if isinstance(node, ast.Constant) and isinstance(node.value, int) and not isinstance(node.value, bool):
        return node.value
    if isinstance(node, ast.UnaryOp) and isinstance(node.op, ast.USub) and isinstance(node.operand, ast.Constant) \
            and isinstance(node.operand.value, int):
        return -node.operand.value
    raise TranslateError(f"{where}: expected an integer literal, found `{_u(node)}`")


def translate_trajectory(orc):
    fn = _fn(orc, "_trajectory_protocol")
    where = "OptimizationResult._trajectory_protocol"
    names, kws = _validator_fields(fn, where)
    if names != ["trajectory"] or kws != {"each_item": False}:
        raise TranslateError(f"{where}: expected @validator('trajectory', each_item=False)")
    body = _strip_doc(fn.body)
    if len(body) != 4:
        raise TranslateError(f"{where}: expected 4 statements")
    _expect(body[0:2], ["if 'protocols' not in values:\n    raise ValueError('Protocols was not properly formed.')",
                        "keep_enum = values['protocols'].trajectory"], where)
    _expect(body[3:4], ["return v"], where)
    branches, orelse = _chain(body[2], "keep_enum", where)
    _expect(orelse, ["raise ValueError(f'Protocol `trajectory:{keep_enum}` is not understood.')"], where + " (else)")
    table = []
    for const, b in branches:
        if not isinstance(const, str) or len(b) != 1:
            raise TranslateError(f"{where}: unexpected branch {const!r}")
        s = b[0]
        if isinstance(s, ast.Pass):
            act = "TrajAll"
        elif _u(s) == "v = []":
            act = "TrajNothing"
        elif isinstance(s, ast.If) and not s.orelse and len(s.body) == 1:
            # `if v and len(v) != N: v = [v[i], v[j]]`   or the unguarded `if len(v) != N:`
            t = s.test
            guarded = None
            if isinstance(t, ast.BoolOp) and isinstance(t.op, ast.And) and len(t.values) == 2 and _u(t.values[0]) == "v":
                guarded, cmp_ = True, t.values[1]
            else:
                guarded, cmp_ = False, t
            if not (isinstance(cmp_, ast.Compare) and len(cmp_.ops) == 1 and isinstance(cmp_.ops[0], ast.NotEq)
                    and _u(cmp_.left) == "len(v)"):
                raise TranslateError(f"{where}: branch `{const}`: unexpected guard `{_u(t)}`")
            n = _int_const(cmp_.comparators[0], where)
            a = s.body[0]
            if not (isinstance(a, ast.Assign) and _u(a.targets[0]) == "v" and isinstance(a.value, ast.List)):
                raise TranslateError(f"{where}: branch `{const}`: unexpected selection `{_u(a)}`")
            idx = []
            for e in a.value.elts:
                if not (isinstance(e, ast.Subscript) and _u(e.value) == "v"):
                    raise TranslateError(f"{where}: branch `{const}`: unexpected element `{_u(e)}`")
                idx.append(_int_const(e.slice, where))
            act = "(TrajSelect %s %s %s)" % (cbool(guarded), cz(n), clist(idx, cz))
        else:
            raise TranslateError(f"{where}: branch `{const}`: unexpected statement `{_u(s)}`")
        table.append((const, act))
    return table


# shape templates ------------------------------------------------------------------------------------------

def _declared_shape(call, where):
    """Field(..., shape=[...]) -> list of dims ('nao' | 'nmo' | int) or None"""
    for k in call.keywords:
        if k.arg == "shape":
            if not isinstance(k.value, ast.List):
                raise TranslateError(f"{where}: shape= is not a list literal")
            out = []
            for e in k.value.elts:
                if isinstance(e, ast.Constant) and isinstance(e.value, (int, str)) and not isinstance(e.value, bool):
                    out.append(e.value)
                else:
                    raise TranslateError(f"{where}: shape entry `{_u(e)}`")
            return out
    return None


def _dim(d):
    if isinstance(d, int):
        return f"(DConst {cz(d)})"
    return {"nao": "DNao", "nmo": "DNmo", "nbf": "DNbf", "nat": "DNat", "3nat": "DNat3", "-1": "DAny"}[d]


def _model_fields(cls, where):
    """[(name, annotation-text, Field-call-or-None)] in declaration order (AnnAssign only)."""
    out = []
    for n in cls.body:
        if isinstance(n, ast.AnnAssign) and isinstance(n.target, ast.Name):
            if n.target.id.startswith("_"):
                continue
            call = n.value if (isinstance(n.value, ast.Call) and isinstance(n.value.func, ast.Name) and n.value.func.id == "Field") else None
            out.append((n.target.id, _u(n.annotation), call))
    return out


def translate_wfn_fields(wp):
    where = "WavefunctionProperties"
    fields = _model_fields(wp, where)
    rules = {}
    expect_validators = {
        "_assert1d": (["try:\n    v = v.reshape(-1)\nexcept (ValueError, AttributeError):\n    raise ValueError('Vector must be castable to shape (-1, )!')",
                       "return v"], ["-1"]),
        "_assert2d_nao_x": (["bas = values.get('basis', None)", "if bas is None:\n    return v",
                             "try:\n    v = v.reshape(bas.nbf, -1)\nexcept (ValueError, AttributeError):\n    raise ValueError('Matrix must be castable to shape (nbf, -1)!')",
                             "return v"], ["nbf", "-1"]),
        "_assert2d": (["bas = values.get('basis', None)", "if bas is None:\n    return v",
                       "try:\n    v = v.reshape(bas.nbf, bas.nbf)\nexcept (ValueError, AttributeError):\n    raise ValueError('Matrix must be castable to shape (nbf, nbf)!')",
                       "return v"], ["nbf", "nbf"]),
    }
    seen_fns = []
    ptr_names = None
    for n in wp.body:
        if isinstance(n, ast.FunctionDef):
            seen_fns.append(n.name)
            names, kws = _validator_fields(n, f"{where}.{n.name}")
            if kws:
                raise TranslateError(f"{where}.{n.name}: unexpected validator keywords {kws}")
            if n.name in expect_validators:
                exp, tmpl = expect_validators[n.name]
                _expect(_strip_doc(n.body), exp, f"{where}.{n.name}")
                for f in names:
                    if f in rules:
                        raise TranslateError(f"{where}: field {f} has two shape validators")
                    rules[f] = tmpl
            elif n.name == "_assert_exists":
                _expect(_strip_doc(n.body), ["if values.get(v, None) is None:\n    raise ValueError(f'Return quantity {v} does not exist in the values.')",
                                             "return v"], f"{where}._assert_exists")
                ptr_names = names
            else:
                raise TranslateError(f"{where}: unknown validator {n.name}")
    if sorted(seen_fns) != sorted(list(expect_validators) + ["_assert_exists"]):
        raise TranslateError(f"{where}: validators present: {seen_fns}")
    out = []
    ptr_fields = []
    for name, ann, call in fields:
        if ann == "BasisSet":
            kind = "FBasis"
        elif ann == "bool":
            kind = "FRestricted"
        elif ann == "Optional[Array[float]]":
            decl = _declared_shape(call, f"{where}.{name}") if call is not None else None
            r = rules.pop(name, None)
            kind = "(FArr %s %s)" % (copt(r, lambda t: clist(t, _dim)), copt(decl, lambda t: clist(t, _dim)))
        elif ann == "Optional[str]":
            kind = "FPtr"
            ptr_fields.append(name)
        else:
            raise TranslateError(f"{where}.{name}: unexpected annotation {ann}")
        out.append((name, kind))
    if rules:
        raise TranslateError(f"{where}: shape validators name unknown fields {sorted(rules)}")
    if ptr_names is None or sorted(ptr_names) != sorted(ptr_fields):
        raise TranslateError(f"{where}: _assert_exists covers {ptr_names}, pointer fields are {ptr_fields}")
    # pointers must come after every array field (the existence check reads the already validated values)
    kinds = [k for _, k in out]
    first_ptr = kinds.index("FPtr")
    if any(k != "FPtr" for k in kinds[first_ptr:]):
        raise TranslateError(f"{where}: a non-pointer field is declared after a pointer field")
    return out, ptr_fields


def translate_prop_fields(pp):
    where = "AtomicResultProperties"
    fields = _model_fields(pp, where)
    poles = _fn(pp, "_validate_poles")
    derivs = _fn(pp, "_validate_derivs")
    pole_names, kw1 = _validator_fields(poles, where + "._validate_poles")
    deriv_names, kw2 = _validator_fields(derivs, where + "._validate_derivs")
    if kw1 or kw2:
        raise TranslateError(f"{where}: unexpected validator keywords")
    _expect(_strip_doc(poles.body), [
        "if v is None:\n    return v",
        "if field.name.endswith('_dipole_moment'):\n    order = 1\nelif field.name.endswith('_quadrupole_moment'):\n    order = 2",
        "shape = tuple([3] * order)",
        "return np.asarray(v).reshape(shape)"], where + "._validate_poles")
    _expect(_strip_doc(derivs.body), [
        "if v is None:\n    return v",
        "nat = values.get('calcinfo_natom', None)",
        "if nat is None:\n    raise ValueError(f'Please also set ``calcinfo_natom``!')",
        "if field.name.endswith('_gradient'):\n    shape = (nat, 3)\nelif field.name.endswith('_hessian'):\n    shape = (3 * nat, 3 * nat)",
        "try:\n    v = np.asarray(v).reshape(shape)\nexcept (ValueError, AttributeError):\n    raise ValueError(f'Derivative must be castable to shape {shape}!')",
        "return v"], where + "._validate_derivs")
    vfns = [n.name for n in pp.body if isinstance(n, ast.FunctionDef) and n.decorator_list]
    if sorted(vfns) != ["_validate_derivs", "_validate_poles"]:
        raise TranslateError(f"{where}: validators present: {vfns}")
    out = []
    names = [f for f, _, _ in fields]
    if "calcinfo_natom" not in names:
        raise TranslateError(f"{where}: calcinfo_natom missing")
    for name, ann, call in fields:
        if ann != "Optional[Array[float]]":
            if "Array" in ann:
                raise TranslateError(f"{where}.{name}: unexpected array annotation {ann}")
            continue
        if names.index(name) < names.index("calcinfo_natom"):
            raise TranslateError(f"{where}.{name}: array field declared before calcinfo_natom")
        decl = _declared_shape(call, f"{where}.{name}") if call is not None else None
        if name in pole_names:
            kind = "VPole"
        elif name in deriv_names:
            kind = "VDeriv"
        else:
            kind = "VNone"
        out.append((name, kind, decl))
    unknown = [n for n in pole_names + deriv_names if n not in [o[0] for o in out]]
    if unknown:
        raise TranslateError(f"{where}: validators name non-array fields {unknown}")
    return out


def translate_return_result(ar):
    fn = _fn(ar, "_validate_return_result")
    where = "AtomicResult._validate_return_result"
    names, kws = _validator_fields(fn, where)
    if names != ["return_result"] or kws:
        raise TranslateError(f"{where}: expected @validator('return_result')")
    _expect(_strip_doc(fn.body), [
        "if values['driver'] == 'gradient':\n    v = np.asarray(v).reshape(-1, 3)\nelif values['driver'] == 'hessian':\n"
        "    v = np.asarray(v)\n    nsq = int(v.size ** 0.5)\n    v = v.reshape(nsq, nsq)",
        "return v"], where)
    return [("gradient", "(RRReshape [DAny; DConst 3%Z])"), ("hessian", "RRSquare")]


def _zexpr(node, var, where):
    """arithmetic over one integer variable -> Coq Z expression (// is floor division = Z.div)."""
    if isinstance(node, ast.Name) and node.id == var:
        return "L"
    if isinstance(node, ast.Constant) and isinstance(node.value, int) and not isinstance(node.value, bool):
        return cz(node.value)
    if isinstance(node, ast.BinOp):
        op = {ast.Add: "+", ast.Sub: "-", ast.Mult: "*", ast.FloorDiv: "/"}.get(type(node.op))
        if op is None:
            raise TranslateError(f"{where}: operator in `{_u(node)}`")
        return f"({_zexpr(node.left, var, where)} {op} {_zexpr(node.right, var, where)})"
    raise TranslateError(f"{where}: unexpected expression `{_u(node)}`")


def translate_basis(tree):
    rel = "basis.py"
    sh = _cls(tree, "ElectronShell", rel)
    fn = _fn(sh, "nfunctions")
    where = "ElectronShell.nfunctions"
    body = _strip_doc(fn.body)
    if len(body) != 1 or not isinstance(body[0], ast.If):
        raise TranslateError(f"{where}: expected a single if/else")
    node = body[0]
    if _u(node.test) != "self.harmonic_type == 'spherical'":
        raise TranslateError(f"{where}: test `{_u(node.test)}`")
    exprs = []
    for b in (node.body, node.orelse):
        if len(b) != 1 or not isinstance(b[0], ast.Return):
            raise TranslateError(f"{where}: branch is not a single return")
        c = b[0].value
        if not (isinstance(c, ast.Call) and _u(c.func) == "sum" and len(c.args) == 1 and isinstance(c.args[0], ast.GeneratorExp)):
            raise TranslateError(f"{where}: expected sum(<generator>)")
        g = c.args[0]
        if len(g.generators) != 1 or g.generators[0].ifs or _u(g.generators[0].iter) != "self.angular_momentum" \
                or not isinstance(g.generators[0].target, ast.Name):
            raise TranslateError(f"{where}: unexpected generator `{_u(g)}`")
        exprs.append(_zexpr(g.elt, g.generators[0].target.id, where))
    hm = _enum_members(_cls(tree, "HarmonicType", rel), "HarmonicType")
    if hm != ["spherical", "cartesian"]:
        raise TranslateError(f"HarmonicType members {hm}")
    _expect(_strip_doc(_fn(sh, "_check_coefficient_length").body), [
        "len_exp = len(values['exponents'])",
        "for row in v:\n    if len(row) != len_exp:\n        raise ValueError('The length of coefficients does not match the length of exponents.')",
        "return v"], "ElectronShell._check_coefficient_length")
    _expect(_strip_doc(_fn(sh, "_check_general_contraction_or_fused").body), [
        "if len(values['angular_momentum']) > 1:\n    if len(values['angular_momentum']) != len(v):\n        raise ValueError('The length for a fused shell must equal the length of coefficients.')",
        "return v"], "ElectronShell._check_general_contraction_or_fused")
    bs = _cls(tree, "BasisSet", rel)
    _expect(_strip_doc(_fn(bs, "_check_atom_map").body), [
        "sv = set(v)",
        "try:\n    missing = sv - values['center_data'].keys()\nexcept KeyError:\n    return v",
        "if missing:\n    raise ValueError(f\"'atom_map' contains unknown keys to 'center_data': {missing}.\")",
        "return v"], "BasisSet._check_atom_map")
    nb = _fn(bs, "_check_nbf")
    names, kws = _validator_fields(nb, "BasisSet._check_nbf")
    if names != ["nbf"] or kws != {"always": True}:
        raise TranslateError("BasisSet._check_nbf: expected @validator('nbf', always=True)")
    _expect(_strip_doc(nb.body), [
        "try:\n    nbf = cls._calculate_nbf(values['atom_map'], values['center_data'])\nexcept KeyError:\n    return v",
        "if v is None:\n    v = nbf\nelif v != nbf:\n    raise ValidationError('Calculated nbf does not match supplied nbf.')",
        "return v"], "BasisSet._check_nbf")
    _expect(_strip_doc(_fn(bs, "_calculate_nbf").body), [
        "center_count = {}",
        "for k, center in center_data.items():\n    center_count[k] = sum((x.nfunctions() for x in center.electron_shells))",
        "ret = 0",
        "for center in atom_map:\n    ret += center_count[center]",
        "return ret"], "BasisSet._calculate_nbf")
    return exprs


def generate(repo):
    res = _parse(repo, "results.py")
    pro = _parse(repo, "procedures.py")
    bas = _parse(repo, "basis.py")
    ar = _cls(res, "AtomicResult", "results.py")
    e_wfn = _enum_members(_cls(res, "WavefunctionProtocolEnum", "results.py"), "WavefunctionProtocolEnum")
    e_nat = _enum_members(_cls(res, "NativeFilesProtocolEnum", "results.py"), "NativeFilesProtocolEnum")
    e_trj = _enum_members(_cls(pro, "TrajectoryProtocolEnum", "procedures.py"), "TrajectoryProtocolEnum")
    arp = _cls(res, "AtomicResultProtocols", "results.py")
    d_wfn = _enum_default(arp, "wavefunction", "WavefunctionProtocolEnum", e_wfn, "AtomicResultProtocols")
    d_nat = _enum_default(arp, "native_files", "NativeFilesProtocolEnum", e_nat, "AtomicResultProtocols")
    d_std = _field_default(arp, "stdout", "AtomicResultProtocols")
    if not (isinstance(d_std, ast.Constant) and isinstance(d_std.value, bool)):
        raise TranslateError("AtomicResultProtocols.stdout: default is not a bool literal")
    d_trj = _enum_default(_cls(pro, "OptimizationProtocols", "procedures.py"), "trajectory", "TrajectoryProtocolEnum", e_trj,
                          "OptimizationProtocols")
    t_wfn = translate_wavefunction(ar)
    t_std = translate_stdout(ar)
    t_nat = translate_native(ar)
    t_trj = translate_trajectory(_cls(pro, "OptimizationResult", "procedures.py"))
    f_wfn, ptrs = translate_wfn_fields(_cls(res, "WavefunctionProperties", "results.py"))
    f_prop = translate_prop_fields(_cls(res, "AtomicResultProperties", "results.py"))
    t_rr = translate_return_result(ar)
    nf_s, nf_c = translate_basis(bas)
    # every enum member must have a branch (otherwise the `else: raise` is reachable) and vice versa
    for nm, members, table in (("wavefunction", e_wfn, t_wfn), ("native_files", e_nat, t_nat), ("trajectory", e_trj, t_trj)):
        if sorted(members) != sorted(k for k, _ in table) or len(set(members)) != len(members):
            raise TranslateError(f"{nm}: enum members {members} and protocol branches {[k for k, _ in table]} differ")
    if sorted(k for k, _ in t_std) != [False, True]:
        raise TranslateError("stdout: branches are not exactly True and False")

    def tbl(name, ty, rows, keyf=cstr):
        return f"Definition {name} : list ({ty}) :=\n  [ " + "\n  ; ".join(f"({keyf(k)}, {a})" for k, a in rows) + " ].\n"

    text = "\n".join([
        "(* GENERATED by harness/translate/keeplists.py from qcelemental/models/{results,procedures,basis}.py — do not edit *)",
        "From Coq Require Import ZArith List String.",
        "Import ListNotations.",
        "Local Open Scope string_scope.",
        "",
        "Inductive keep_action := KeepAll | KeepNothing | KeepList (l : list string).",
        "Inductive std_action := StdKeep | StdDrop.",
        "Inductive nat_action := NatAll | NatNothing | NatList (l : list string).",
        "(* TrajSelect guarded n idx: `if [v and] len(v) != n: v = [v[i] for i in idx]` *)",
        "Inductive traj_action := TrajAll | TrajNothing | TrajSelect (guarded : bool) (n : Z) (idx : list Z).",
        "Inductive dim := DConst (z : Z) | DAny | DNbf | DNao | DNmo | DNat | DNat3.",
        "(* FArr rule declared: reshape template applied by a validator (None: no validator), shape declared in Field(shape=) *)",
        "Inductive fkind := FBasis | FRestricted | FArr (rule : option (list dim)) (declared : option (list dim)) | FPtr.",
        "Inductive pkind := VPole | VDeriv | VNone.",
        "Inductive rr_action := RRReshape (t : list dim) | RRSquare.",
        "",
        f"Definition enum_wavefunction : list string := {clist(e_wfn, cstr)}.",
        f"Definition enum_native_files : list string := {clist(e_nat, cstr)}.",
        f"Definition enum_trajectory : list string := {clist(e_trj, cstr)}.",
        f"Definition default_wavefunction : string := {cstr(d_wfn)}.",
        f"Definition default_native_files : string := {cstr(d_nat)}.",
        f"Definition default_stdout : bool := {cbool(d_std.value)}.",
        f"Definition default_trajectory : string := {cstr(d_trj)}.",
        "",
        tbl("wfn_keep_table", "string * keep_action", t_wfn),
        tbl("stdout_table", "bool * std_action", t_std, cbool),
        tbl("native_table", "string * nat_action", t_nat),
        tbl("traj_table", "string * traj_action", t_trj),
        tbl("wfn_fields", "string * fkind", f_wfn),
        "Definition prop_fields : list (string * pkind * option (list dim)) :=\n  [ " + "\n  ; ".join(
            f"({cstr(n)}, {k}, {copt(d, lambda t: clist(t, _dim))})" for n, k, d in f_prop) + " ].\n",
        tbl("rr_table", "string * rr_action", t_rr),
        "Local Open Scope Z_scope.",
        f"Definition nf_spherical (L : Z) : Z := {nf_s}.",
        f"Definition nf_cartesian (L : Z) : Z := {nf_c}.",
        "",
    ])
    coqrun.write_if_changed(os.path.join(coqrun.COQ, "Gen", "KeepLists.v"), text)
    return {"wfn": t_wfn, "std": t_std, "nat": t_nat, "traj": t_trj, "wfn_fields": f_wfn, "prop_fields": f_prop,
            "ptrs": ptrs, "enums": (e_wfn, e_nat, e_trj)}
