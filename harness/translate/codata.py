"""Translators for C02 (and reused by C03):

  qcelemental/data/nist_{2014,2018}_codata.py           -> coq/Gen/Codata{2014,2018}.v       (shipped dicts)
  raw_data/nist_data/codata-{2014,2018}.txt              -> coq/Gen/CodataRaw{2014,2018}.v    (NIST fixed-width text)
  raw_data/nist_data/srd121_...-2014.json                -> coq/Gen/CodataJson2014.v          (NIST SRD-121 JSON)
  qcelemental/physical_constants/context.py              -> coq/Gen/Aliases.v
        (alias tuples with their Decimal arithmetic as `dexpr`, rename map, extra relationship, maketrans
         table, the pi literal)

All fail-closed: any AST shape / text layout that is not the expected one raises TranslateError.
Nothing is evaluated: values stay the strings of the source; Decimal parsing happens in Coq
(Common/DecC02.v parse_dec)."""
import ast
import json
import os
import re

from .. import coqrun
from ..core import TranslateError
from ..coqrun import cstr, clist, cz

YEARS = (2014, 2018)


def _ascii(s, what):
    if not isinstance(s, str) or not s.isascii() or any(ord(c) < 32 or ord(c) > 126 for c in s):
        raise TranslateError(f"{what}: non-printable/non-ASCII or non-string text {s!r}")
    return s


# ------------------------------------------------------------------------------------------------
# shipped dicts

def read_shipped(repo, year):
    rel = f"qcelemental/data/nist_{year}_codata.py"
    with open(os.path.join(repo, rel)) as fh:
        tree = ast.parse(fh.read())
    assigns = [n for n in tree.body if isinstance(n, ast.Assign)]
    others = [n for n in tree.body if not isinstance(n, (ast.Assign, ast.Expr))]
    if others or len(assigns) != 1:
        raise TranslateError(f"{rel}: expected a docstring and exactly one assignment")
    for n in tree.body:
        if isinstance(n, ast.Expr) and not (isinstance(n.value, ast.Constant) and isinstance(n.value.value, str)):
            raise TranslateError(f"{rel}: unexpected expression statement")
    a = assigns[0]
    if len(a.targets) != 1 or not isinstance(a.targets[0], ast.Name) or a.targets[0].id != f"nist_{year}_codata":
        raise TranslateError(f"{rel}: expected `nist_{year}_codata = {{...}}`")
    if not isinstance(a.value, ast.Dict):
        raise TranslateError(f"{rel}: value is not a dict literal")
    # python dict literal semantics: later duplicate keys win; we refuse duplicates outright
    try:
        d = ast.literal_eval(a.value)
    except Exception as e:
        raise TranslateError(f"{rel}: not a literal ({e})")
    top_keys = [k.value if isinstance(k, ast.Constant) else None for k in a.value.keys]
    if len(set(top_keys)) != len(top_keys) or None in top_keys:
        raise TranslateError(f"{rel}: duplicate or non-constant top-level keys")
    if not isinstance(d.get("doi"), str) or not isinstance(d.get("constants"), dict):
        raise TranslateError(f"{rel}: missing 'doi' / 'constants'")
    cnode = a.value.values[top_keys.index("constants")]
    ckeys = [k.value if isinstance(k, ast.Constant) else None for k in cnode.keys]
    if len(set(ckeys)) != len(ckeys) or None in ckeys:
        raise TranslateError(f"{rel}: duplicate or non-constant constant names")
    rows = []
    for k in ckeys:      # source order == dict order
        v = d["constants"][k]
        if not isinstance(v, dict) or sorted(v) != ["quantity", "uncertainty", "unit", "value"]:
            raise TranslateError(f"{rel}: entry {k!r} does not have exactly quantity/unit/value/uncertainty")
        rows.append(tuple(_ascii(x, f"{rel}:{k}") for x in (k, v["quantity"], v["unit"], v["value"], v["uncertainty"])))
    return {"doi": _ascii(d["doi"], rel), "rows": rows}


# ------------------------------------------------------------------------------------------------
# raw NIST text (fixed width: 60 / 25 / 25 / rest, as in devtools/scripts/build_physical_constants_2018.py)

_NUM = re.compile(r"^-?\d[\d ]*(\.[\d ]*\d)?(\.\.\.)?( ?e-?\d+)?$")


def read_raw_txt(repo, year):
    rel = f"raw_data/nist_data/codata-{year}.txt"
    with open(os.path.join(repo, rel)) as fh:
        lines = fh.read().split("\n")
    dashes = [i for i, ln in enumerate(lines) if ln.startswith("-----")]
    if len(dashes) != 1:
        raise TranslateError(f"{rel}: expected exactly one ruler line")
    hdr = lines[dashes[0] - 1].split()
    if hdr != ["Quantity", "Value", "Uncertainty", "Unit"]:
        raise TranslateError(f"{rel}: unexpected header {hdr}")
    rows = []
    for ln in lines[dashes[0] + 1:]:
        if not ln.strip():
            continue
        name, val, unc, unit = ln[:60].rstrip(), ln[60:85].strip(), ln[85:110].strip(), ln[110:].strip()
        if ln[:1] == " " or not name:
            raise TranslateError(f"{rel}: row does not start with a name: {ln!r}")
        if not _NUM.match(val):
            raise TranslateError(f"{rel}: value field is not a NIST number: {val!r} in {ln!r}")
        if unc != "(exact)" and not _NUM.match(unc):
            raise TranslateError(f"{rel}: uncertainty field is not a NIST number: {unc!r} in {ln!r}")
        # a field boundary must not cut a token: the characters just before each boundary are blank
        # unless the field is completely filled by one of the long names
        if (ln[84:85].strip() and ln[85:86].strip()) or (ln[109:110].strip() and ln[110:111].strip()):
            raise TranslateError(f"{rel}: a column boundary cuts through text in {ln!r}")
        rows.append(tuple(_ascii(x, rel) for x in (name, val, unc, unit)))
    names = [r[0].lower() for r in rows]
    if len(set(names)) != len(names):
        raise TranslateError(f"{rel}: duplicate constant names")
    return rows


def read_raw_json(repo):
    rel = "raw_data/nist_data/srd121_nist-codata-fundamental-physical-constants-2014.json"
    with open(os.path.join(repo, rel)) as fh:
        try:
            blob = json.load(fh)
        except Exception as e:
            raise TranslateError(f"{rel}: not JSON ({e})")
    if not isinstance(blob, dict) or list(blob) != ["constant"] or not isinstance(blob["constant"], list):
        raise TranslateError(f"{rel}: expected {{'constant': [...]}}")
    rows = []
    for pc in blob["constant"]:
        if not isinstance(pc, dict) or sorted(pc) != ["Quantity ", "Uncertainty", "Unit", "Value"]:
            raise TranslateError(f"{rel}: unexpected entry {pc!r}")
        rows.append(tuple(_ascii(pc[k], rel) for k in ("Quantity ", "Value", "Uncertainty", "Unit")))
    return rows


# ------------------------------------------------------------------------------------------------
# context.py

def _dump(node):
    return ast.dump(node, annotate_fields=True, include_attributes=False)


def _same(node, src, what):
    """The statement must be exactly (up to layout/comments) the expected source text."""
    exp = ast.parse(src).body[0]
    if _dump(node) != _dump(exp):
        raise TranslateError(f"context.py: {what} is not the expected code\n  expected: {src.strip()}\n  found: {ast.unparse(node)[:400]}")


def _str(node, what):
    if not (isinstance(node, ast.Constant) and isinstance(node.value, str)):
        raise TranslateError(f"context.py: {what}: expected a string literal, found {ast.unparse(node)[:80]}")
    return _ascii(node.value, what)


def _dexpr(node):
    """Decimal arithmetic of an alias value -> Gallina dexpr term."""
    if isinstance(node, ast.BinOp) and isinstance(node.op, (ast.Mult, ast.Div)):
        ctor = "DMul" if isinstance(node.op, ast.Mult) else "DDiv"
        return f"({ctor} {_dexpr(node.left)} {_dexpr(node.right)})"
    if isinstance(node, ast.Attribute) and node.attr == "data" and isinstance(node.value, ast.Subscript):
        sub = node.value
        if _dump(sub.value) == _dump(ast.parse("self.pc").body[0].value):
            return f"(DConst {cstr(_str(sub.slice, 'constant key'))})"
    if isinstance(node, ast.Call) and isinstance(node.func, ast.Name) and node.func.id == "Decimal" \
            and len(node.args) == 1 and not node.keywords:
        return f"(DLit {cstr(_str(node.args[0], 'Decimal literal'))})"
    if isinstance(node, ast.Constant) and type(node.value) is int:
        return f"(DInt {cz(node.value)})"
    if _dump(node) == _dump(ast.parse("_get_pi(from_scratch=False)").body[0].value):
        return "DPi"
    raise TranslateError(f"context.py: alias value uses an unexpected expression: {ast.unparse(node)[:200]}")


def _alias_list(node, what):
    if not isinstance(node, ast.List):
        raise TranslateError(f"context.py: {what}: expected a list literal")
    out = []
    for t in node.elts:
        if not (isinstance(t, ast.Tuple) and len(t.elts) == 4):
            raise TranslateError(f"context.py: {what}: alias entry is not a 4-tuple: {ast.unparse(t)[:120]}")
        ident, units, value, comment = t.elts
        out.append((_str(ident, "alias name"), _str(units, "alias units"), _dexpr(value), _str(comment, "alias comment")))
    return out


def _ctx_test(node, year):
    return _dump(node) == _dump(ast.parse(f'context == "CODATA{year}"').body[0].value)


def _extend_arg(stmt, what):
    if not (isinstance(stmt, ast.Expr) and isinstance(stmt.value, ast.Call)
            and _dump(stmt.value.func) == _dump(ast.parse("aliases.extend").body[0].value)
            and len(stmt.value.args) == 1 and not stmt.value.keywords):
        raise TranslateError(f"context.py: {what}: expected aliases.extend([...])")
    return stmt.value.args[0]


def read_context(repo):
    rel = "qcelemental/physical_constants/context.py"
    with open(os.path.join(repo, rel)) as fh:
        tree = ast.parse(fh.read())
    cls = [n for n in tree.body if isinstance(n, ast.ClassDef) and n.name == "PhysicalConstantsContext"]
    if len(cls) != 1:
        raise TranslateError("context.py: class PhysicalConstantsContext not found")
    cls = cls[0]
    out = {}

    # _transtable = str.maketrans(a, b, c)
    tt = [n for n in cls.body if isinstance(n, ast.Assign) and len(n.targets) == 1
          and isinstance(n.targets[0], ast.Name) and n.targets[0].id == "_transtable"]
    if len(tt) != 1:
        raise TranslateError("context.py: _transtable assignment not found")
    call = tt[0].value
    if not (isinstance(call, ast.Call) and _dump(call.func) == _dump(ast.parse("str.maketrans").body[0].value)
            and len(call.args) == 3 and not call.keywords):
        raise TranslateError("context.py: _transtable is not str.maketrans(a, b, c)")
    a, b, c = (_str(x, "maketrans argument") for x in call.args)
    if len(a) != len(b):
        raise TranslateError("context.py: maketrans arguments differ in length")
    out["trans"] = (a, b, c)

    fns = {n.name: n for n in cls.body if isinstance(n, ast.FunctionDef)}
    if "__init__" not in fns or "get" not in fns:
        raise TranslateError("context.py: __init__/get not found")
    init = fns["__init__"]
    if _dump(init.args) != _dump(ast.parse('def f(self, context="CODATA2014"): pass').body[0].args):
        raise TranslateError("context.py: __init__ signature changed")
    body = init.body
    if len(body) != 13:
        raise TranslateError(f"context.py: __init__ has {len(body)} statements, expected 13")
    _same(body[0], "self.pc = collections.OrderedDict()", "__init__[0]")
    # the data-loading if/elif/else
    sel = body[1]
    ok = isinstance(sel, ast.If) and _ctx_test(sel.test, 2014) and len(sel.orelse) == 1 and isinstance(sel.orelse[0], ast.If) \
        and _ctx_test(sel.orelse[0].test, 2018)
    if not ok:
        raise TranslateError("context.py: the data-set selection if/elif is not the expected one")
    for year, blk in ((2014, sel.body), (2018, sel.orelse[0].body)):
        if len(blk) != 3:
            raise TranslateError("context.py: data-set selection block changed")
        _same(blk[0], f"from ..data import nist_{year}_codata", f"import for {year}")
        _same(blk[1], f'self.doi = nist_{year}_codata["doi"]', f"doi for {year}")
        _same(blk[2], f'self.raw_codata = nist_{year}_codata["constants"]', f"raw_codata for {year}")
    if len(sel.orelse[0].orelse) != 1 or not isinstance(sel.orelse[0].orelse[0], ast.Raise):
        raise TranslateError("context.py: unknown context must raise")
    _same(body[2], '''
for k, v in self.raw_codata.items():
    self.pc[k] = Datum(v["quantity"], v["unit"], Decimal(v["value"]), comment="uncertainty={}".format(v["uncertainty"]), doi=self.doi)
''', "physical constant loop")
    _same(body[3], "self.name = context", "__init__[3]")
    _same(body[4], 'self.year = int(context.replace("CODATA", ""))', "__init__[4]")
    _same(body[5], "self._ureg = None", "__init__[5]")
    # extra relationship: self.pc[key] = Datum(label, unit, Decimal(value), comment=...)
    ex = body[6]
    try:
        key = _str(ex.targets[0].slice, "extra key")
        callx = ex.value
        lab, unit = _str(callx.args[0], "extra label"), _str(callx.args[1], "extra unit")
        val = _str(callx.args[2].args[0], "extra value")
        com = _str(callx.keywords[0].value, "extra comment")
        _same(ex, f"self.pc[{key!r}] = Datum({lab!r}, {unit!r}, Decimal({val!r}), comment={com!r})", "extra relationship")
    except TranslateError:
        raise
    except Exception:
        raise TranslateError("context.py: the calorie-joule assignment is not of the expected form")
    out["extra"] = [(key, lab, unit, val, com)]
    # rename map
    rn = body[7]
    if not (isinstance(rn, ast.Assign) and len(rn.targets) == 1 and isinstance(rn.targets[0], ast.Name)
            and rn.targets[0].id == "rename_2018_from_2014" and isinstance(rn.value, ast.Dict)):
        raise TranslateError("context.py: rename_2018_from_2014 dict not found")
    pairs = [(_str(k, "rename key"), _str(v, "rename value")) for k, v in zip(rn.value.keys, rn.value.values)]
    if len({p[0] for p in pairs}) != len(pairs):
        raise TranslateError("context.py: duplicate keys in rename_2018_from_2014")
    out["renames"] = pairs
    # if 2014: aliases = []  elif 2018: for...; aliases = [...]
    pre = body[8]
    ok = isinstance(pre, ast.If) and _ctx_test(pre.test, 2014) and len(pre.body) == 1 and len(pre.orelse) == 1 \
        and isinstance(pre.orelse[0], ast.If) and _ctx_test(pre.orelse[0].test, 2018) and not pre.orelse[0].orelse \
        and len(pre.orelse[0].body) == 2
    if not ok:
        raise TranslateError("context.py: the alias initialisation if/elif is not the expected one")
    _same(pre.body[0], "aliases = []", "2014 alias initialisation")
    _same(pre.orelse[0].body[0], '''
for new_name, old_name in rename_2018_from_2014.items():
    dm = self.pc[new_name.lower()]
    self.pc[old_name.lower()] = Datum(old_name, dm.units, dm.data, comment=dm.comment, doi=dm.doi)
''', "rename loop")
    asg = pre.orelse[0].body[1]
    if not (isinstance(asg, ast.Assign) and len(asg.targets) == 1 and isinstance(asg.targets[0], ast.Name)
            and asg.targets[0].id == "aliases"):
        raise TranslateError("context.py: 2018 `aliases = [...]` not found")
    out["pre2018"] = _alias_list(asg.value, "2018 derived constants")
    out["common"] = _alias_list(_extend_arg(body[9], "common aliases"), "common aliases")
    post = body[10]
    ok = isinstance(post, ast.If) and _ctx_test(post.test, 2014) and len(post.body) == 1 and len(post.orelse) == 1 \
        and isinstance(post.orelse[0], ast.If) and _ctx_test(post.orelse[0].test, 2018) and not post.orelse[0].orelse \
        and len(post.orelse[0].body) == 1
    if not ok:
        raise TranslateError("context.py: the context-specific alias if/elif is not the expected one")
    out["post2014"] = _alias_list(_extend_arg(post.body[0], "2014 aliases"), "2014 aliases")
    out["post2018"] = _alias_list(_extend_arg(post.orelse[0].body[0], "2018 aliases"), "2018 aliases")
    _same(body[11], '''
for alias in aliases:
    ident, units, value, comment = alias
    self.pc[ident.lower()] = Datum(ident, units, value, comment=comment)
''', "alias insertion loop")
    _same(body[12], '''
for qca in self.pc.values():
    callname = qca.label.translate(self._transtable)
    setattr(self, callname, float(qca.data))
''', "attribute loop")
    # get(): body without the docstring
    g = fns["get"]
    gb = [s for s in g.body if not (isinstance(s, ast.Expr) and isinstance(s.value, ast.Constant))]
    exp = ast.parse('''
def get(self, physical_constant, return_tuple=False):
    qca = self.pc[physical_constant.lower()]
    if return_tuple:
        return qca
    else:
        return float(qca.data)
''').body[0]
    if [_dump(s) for s in gb] != [_dump(s) for s in exp.body] or [a.arg for a in g.args.args] != ["self", "physical_constant", "return_tuple"] \
            or g.decorator_list:
        raise TranslateError("context.py: get() is not the expected code")
    # _get_pi
    gp = [n for n in tree.body if isinstance(n, ast.FunctionDef) and n.name == "_get_pi"]
    if len(gp) != 1:
        raise TranslateError("context.py: _get_pi not found")
    ifs = [s for s in gp[0].body if isinstance(s, ast.If)]
    if len(ifs) != 1 or _dump(ifs[0].test) != _dump(ast.parse("from_scratch").body[0].value) or len(ifs[0].orelse) != 1:
        raise TranslateError("context.py: _get_pi changed")
    ret = ifs[0].orelse[0]
    try:
        pi = _str(ret.value.args[0], "pi literal")
        _same(ret, f"return Decimal({pi!r})", "pi literal")
    except TranslateError:
        raise
    except Exception:
        raise TranslateError("context.py: _get_pi does not return Decimal('<literal>')")
    out["pi"] = pi
    # the singleton
    single = [n for n in tree.body if isinstance(n, ast.Assign) and isinstance(n.targets[0], ast.Name) and n.targets[0].id == "constants"]
    if len(single) != 1:
        raise TranslateError("context.py: singleton `constants` not found")
    _same(single[0], 'constants = PhysicalConstantsContext("CODATA2014")', "singleton")
    return out


# ------------------------------------------------------------------------------------------------
# emit

HDR = ["From Coq Require Import ZArith List String.", "Import ListNotations.", "Open Scope string_scope.", ""]


def _rows(rows):
    return "[\n  " + ";\n  ".join("(" + ", ".join(cstr(x) for x in r) + ")" for r in rows) + " ]"


def generate(repo):
    """Write all Gen files for C02; returns the parsed data for the harness."""
    data = {"shipped": {}, "raw": {}}
    gen = os.path.join(coqrun.COQ, "Gen")
    for y in YEARS:
        sh = read_shipped(repo, y)
        data["shipped"][y] = sh
        out = [f"(* GENERATED from qcelemental/data/nist_{y}_codata.py by harness/translate/codata.py — do not edit *)"] + HDR
        out.append(f"Definition doi_{y} : string := {cstr(sh['doi'])}.")
        out.append("(* key, quantity, unit, value, uncertainty — in source order *)")
        out.append(f"Definition shipped_{y} : list (string * string * string * string * string) := {_rows(sh['rows'])}.")
        coqrun.write_if_changed(os.path.join(gen, f"Codata{y}.v"), "\n".join(out) + "\n")
        raw = read_raw_txt(repo, y)
        data["raw"][y] = raw
        out = [f"(* GENERATED from raw_data/nist_data/codata-{y}.txt by harness/translate/codata.py — do not edit *)"] + HDR
        out.append("(* name, value text, uncertainty text, unit — the four fixed-width fields, blank-trimmed *)")
        out.append(f"Definition raw_{y} : list (string * string * string * string) := {_rows(raw)}.")
        coqrun.write_if_changed(os.path.join(gen, f"CodataRaw{y}.v"), "\n".join(out) + "\n")
    js = read_raw_json(repo)
    data["json2014"] = js
    out = ["(* GENERATED from raw_data/nist_data/srd121_nist-codata-fundamental-physical-constants-2014.json — do not edit *)"] + HDR
    out.append("(* Quantity, Value, Uncertainty, Unit *)")
    out.append(f"Definition json_2014 : list (string * string * string * string) := {_rows(js)}.")
    coqrun.write_if_changed(os.path.join(gen, "CodataJson2014.v"), "\n".join(out) + "\n")

    cx = read_context(repo)
    data["context"] = cx
    out = ["(* GENERATED from qcelemental/physical_constants/context.py by harness/translate/codata.py — do not edit *)",
           "From Coq Require Import ZArith List String.", "Require Import QV.Common.DecC02.", "Import ListNotations.",
           "Open Scope string_scope.", ""]
    out.append(f"Definition trans_from : string := {cstr(cx['trans'][0])}.")
    out.append(f"Definition trans_to : string := {cstr(cx['trans'][1])}.")
    out.append(f"Definition trans_del : string := {cstr(cx['trans'][2])}.")
    out.append(f"Definition pi_literal : string := {cstr(cx['pi'])}.")
    out.append("(* key, label, unit, value, comment *)")
    out.append(f"Definition extra_relationships : list (string * string * string * string * string) := {_rows(cx['extra'])}.")
    out.append("(* new (2018) name, old (2014) name *)")
    out.append(f"Definition rename_2018_from_2014 : list (string * string) := {_rows(cx['renames'])}.")

    def al(name, lst):
        body = ";\n  ".join(f"({cstr(i)}, {cstr(u)}, {e}, {cstr(c)})" for i, u, e, c in lst)
        out.append(f"Definition {name} : list (string * string * dexpr * string) := [\n  {body} ].")
    out.append("(* ident, units, value expression, comment *)")
    al("aliases_2018_derived", cx["pre2018"])
    al("aliases_common", cx["common"])
    al("aliases_2014_only", cx["post2014"])
    al("aliases_2018_only", cx["post2018"])
    coqrun.write_if_changed(os.path.join(gen, "Aliases.v"), "\n".join(out) + "\n")
    return data
